/-
Helper definitions and lemmas for the DP-master properties C03 / C04 / C08 / C14
(`Props/C03.lean`, `C04.lean`, `C08.lean`, `C14.lean`).

* slot lemmas (`firstFrom`, `List.set`), the loop of `transmit_telegram` as a reachability relation
* peripheral invariant `PInv`, closed forms of `receive_reply`
* histories of callbacks under the FDL contract (C15) with ghost observations: `Op`, `G`, `gstep`, `grun`
* the base invariant `Inv` (no panic, no hang, the cycle index points at the peripheral a reply is
  outstanding from) with `init` / `step` lemmas, lifted over histories
-/
import ProfiVerif.Model.Dp.Master
import ProfiVerif.Lemmas.Diag
import ProfiVerif.Lemmas.DpBytes

namespace PV.Dp
open PV

/-! ## Slots -/

theorem firstFrom_spec : ∀ (l : List (Option Peripheral)) (i index j : Nat) (p : Peripheral),
    firstFrom l i index = some (j, p) →
      i ≤ j ∧ index ≤ j ∧ l[j - i]? = some (some p) ∧
      ∀ k, i ≤ k → index ≤ k → k < j → l[k - i]? = some none := by
  intro l
  induction l with
  | nil => intro i index j p h; simp [firstFrom] at h
  | cons x r ih =>
    intro i index j p h
    unfold firstFrom at h
    by_cases hlt : i < index
    · rw [if_pos hlt] at h
      obtain ⟨h1, h2, h3, h4⟩ := ih (i + 1) index j p h
      refine ⟨by omega, h2, ?_, ?_⟩
      · have : j - i = (j - (i + 1)) + 1 := by omega
        rw [this]; simpa using h3
      · intro k hk1 hk2 hk3
        have hk : i + 1 ≤ k := by omega
        have := h4 k hk hk2 hk3
        have e : k - i = (k - (i + 1)) + 1 := by omega
        rw [e]; simpa using this
    · rw [if_neg hlt] at h
      cases x with
      | some q =>
        simp only [Option.some.injEq, Prod.mk.injEq] at h
        obtain ⟨rfl, rfl⟩ := h
        refine ⟨Nat.le_refl _, by omega, by simp, ?_⟩
        intro k hk1 _ hk3; omega
      | none =>
        simp only at h
        obtain ⟨h1, h2, h3, h4⟩ := ih (i + 1) index j p h
        refine ⟨by omega, h2, ?_, ?_⟩
        · have : j - i = (j - (i + 1)) + 1 := by omega
          rw [this]; simpa using h3
        · intro k hk1 hk2 hk3
          by_cases hki : k = i
          · subst hki; simp
          · have hk : i + 1 ≤ k := by omega
            have := h4 k hk hk2 hk3
            have e : k - i = (k - (i + 1)) + 1 := by omega
            rw [e]; simpa using this

theorem firstFrom_none : ∀ (l : List (Option Peripheral)) (i index : Nat),
    firstFrom l i index = none → ∀ k, i ≤ k → index ≤ k → k < i + l.length → l[k - i]? = some none := by
  intro l
  induction l with
  | nil => intro i index _ k h1 _ h3; simp at h3; omega
  | cons x r ih =>
    intro i index h k hk1 hk2 hk3
    unfold firstFrom at h
    by_cases hlt : i < index
    · rw [if_pos hlt] at h
      have hk : i + 1 ≤ k := by omega
      have := ih (i + 1) index h k hk hk2 (by simp at hk3; omega)
      have e : k - i = (k - (i + 1)) + 1 := by omega
      rw [e]; simpa using this
    · rw [if_neg hlt] at h
      cases x with
      | some q => simp at h
      | none =>
        simp only at h
        by_cases hki : k = i
        · subst hki; simp
        · have hk : i + 1 ≤ k := by omega
          have := ih (i + 1) index h k hk hk2 (by simp at hk3; omega)
          have e : k - i = (k - (i + 1)) + 1 := by omega
          rw [e]; simpa using this

/-- Replacing the content of an occupied slot changes nothing but the peripheral found there. -/
theorem firstFrom_set : ∀ (l : List (Option Peripheral)) (i index k : Nat) (q : Peripheral),
    (∃ p0, l[k]? = some (some p0)) →
    firstFrom (l.set k (some q)) i index =
      (firstFrom l i index).map fun jp => if jp.1 = i + k then (jp.1, q) else jp := by
  intro l
  induction l with
  | nil => intro i index k q h; simp at h
  | cons x r ih =>
    intro i index k q h
    cases k with
    | zero =>
      obtain ⟨p0, hp0⟩ := h
      simp only [List.getElem?_cons_zero, Option.some.injEq] at hp0
      subst hp0
      simp only [List.set_cons_zero, firstFrom]
      by_cases hlt : i < index
      · simp only [hlt, if_true]
        cases hf : firstFrom r (i + 1) index with
        | none => rfl
        | some jp =>
          obtain ⟨j, p⟩ := jp
          have := (firstFrom_spec r (i + 1) index j p hf).1
          have hne : ¬ j = i := by omega
          simp [hne]
      · simp [hlt]
    | succ k =>
      simp only [List.set_cons_succ, firstFrom]
      have h' : ∃ p0, r[k]? = some (some p0) := by simpa using h
      have e : i + (k + 1) = (i + 1) + k := by omega
      by_cases hlt : i < index
      · simp only [hlt, if_true]
        rw [ih (i + 1) index k q h', e]
      · simp only [hlt, if_false]
        cases x with
        | some p =>
          simp
        | none =>
          simp only
          rw [ih (i + 1) index k q h', e]

/-- The slot found by `get_at_index_mut`, without the `u8` conversion. -/
def curSlot (slots : List (Option Peripheral)) (index : Nat) : Option (Nat × Peripheral) :=
  firstFrom slots 0 index

theorem curSlot_spec {slots : List (Option Peripheral)} {index j : Nat} {p : Peripheral}
    (h : curSlot slots index = some (j, p)) :
    index ≤ j ∧ j < slots.length ∧ slots[j]? = some (some p) ∧
      ∀ k, index ≤ k → k < j → slots[k]? = some none := by
  obtain ⟨_, h2, h3, h4⟩ := firstFrom_spec slots 0 index j p h
  simp only [Nat.sub_zero] at h3 h4
  refine ⟨h2, ?_, h3, fun k hk1 hk2 => h4 k (Nat.zero_le _) hk1 hk2⟩
  rcases Nat.lt_or_ge j slots.length with hlt | hge
  · exact hlt
  · rw [List.getElem?_eq_none hge] at h3; cases h3

theorem curSlot_set {slots : List (Option Peripheral)} {k : Nat} {p0 q : Peripheral}
    (hk : slots[k]? = some (some p0)) (index : Nat) :
    curSlot (slots.set k (some q)) index =
      (curSlot slots index).map fun jp => if jp.1 = k then (jp.1, q) else jp := by
  unfold curSlot
  rw [firstFrom_set slots 0 index k q ⟨p0, hk⟩]
  simp

theorem getAtIndex_eq {slots : List (Option Peripheral)} (hl : slots.length ≤ 256) (index : Nat) :
    getAtIndex slots index = .ok (curSlot slots index) := by
  unfold getAtIndex curSlot
  cases hf : firstFrom slots 0 index with
  | none => rfl
  | some jp =>
    obtain ⟨j, p⟩ := jp
    have := (curSlot_spec (slots := slots) (index := index) hf).2.1
    have : ¬ j ≥ 256 := by omega
    simp [this]

/-- The index `get_next_index` returns, without the `u8` conversion. -/
def nextSlot (slots : List (Option Peripheral)) (index : Nat) : Option Nat :=
  match curSlot slots index with
  | none => none
  | some (i, _) => (curSlot slots (i + 1)).map (·.1)

theorem getNextIndex_eq {slots : List (Option Peripheral)} (hl : slots.length ≤ 256) (index : Nat) :
    getNextIndex slots index = .ok (nextSlot slots index) := by
  unfold getNextIndex nextSlot curSlot
  cases hf : firstFrom slots 0 index with
  | none => rfl
  | some jp =>
    obtain ⟨i, p⟩ := jp
    simp only
    cases hg : firstFrom slots 0 (i + 1) with
    | none => rfl
    | some jq =>
      obtain ⟨j, q⟩ := jq
      have := (curSlot_spec (slots := slots) (index := i + 1) hg).2.1
      have : ¬ j ≥ 256 := by omega
      simp [this]

theorem nextSlot_set {slots : List (Option Peripheral)} {k : Nat} {p0 q : Peripheral}
    (hk : slots[k]? = some (some p0)) (index : Nat) :
    nextSlot (slots.set k (some q)) index = nextSlot slots index := by
  unfold nextSlot
  rw [curSlot_set hk index]
  cases hc : curSlot slots index with
  | none => rfl
  | some jp =>
    obtain ⟨i, p⟩ := jp
    have : ((some (i, p)).map fun jp : Nat × Peripheral => if jp.1 = k then (jp.1, q) else jp)
        = some (if i = k then (i, q) else (i, p)) := rfl
    rw [this]
    have e : (if i = k then (i, q) else (i, p)).1 = i := by split <;> rfl
    split
    · rename_i heq; cases heq
    · rename_i i' p' heq
      simp only [Option.some.injEq] at heq
      have hi : i' = i := by rw [← e, heq]
      subst hi
      rw [curSlot_set hk (i' + 1)]
      cases hd : curSlot slots (i' + 1) with
      | none => rfl
      | some jq =>
        obtain ⟨j, r⟩ := jq
        simp only [Option.map_some]
        split <;> rfl

theorem nextCycle_eq {slots : List (Option Peripheral)} (hl : slots.length ≤ 256) (index : Nat) :
    nextCycle slots index =
      .ok (match nextSlot slots index with | some n => (.dx n, false) | none => (.completed, true)) := by
  unfold nextCycle
  rw [getNextIndex_eq hl]
  cases nextSlot slots index <;> rfl

theorem nextSlot_gt {slots : List (Option Peripheral)} {index i n : Nat} {p : Peripheral}
    (hc : curSlot slots index = some (i, p)) (hn : nextSlot slots index = some n) :
    i < n ∧ n < slots.length ∧ ∃ q, curSlot slots n = some (n, q) := by
  unfold nextSlot at hn
  rw [hc] at hn
  simp only at hn
  cases hd : curSlot slots (i + 1) with
  | none => rw [hd] at hn; cases hn
  | some jq =>
    obtain ⟨j, q⟩ := jq
    rw [hd] at hn
    simp only [Option.map_some, Option.some.injEq] at hn
    subst hn
    obtain ⟨h1, h2, h3, _⟩ := curSlot_spec hd
    refine ⟨by omega, h2, q, ?_⟩
    -- the first occupied slot at or behind `j` is `j` itself
    cases he : curSlot slots j with
    | none =>
      have := firstFrom_none slots 0 j he j (Nat.zero_le _) (Nat.le_refl _) (by omega)
      simp only [Nat.sub_zero] at this
      rw [h3] at this; cases this
    | some kr =>
      obtain ⟨k, r⟩ := kr
      obtain ⟨g1, g2, g3, g4⟩ := curSlot_spec he
      by_cases hkj : k = j
      · subst hkj
        rw [h3] at g3
        simp only [Option.some.injEq] at g3
        subst g3; rfl
      · have := g4 j (Nat.le_refl _) (by omega)
        rw [h3] at this; cases this

/-! ## Peripheral -/

/-- `FrameCountBit::cycle` as a total function (identity on `Inactive`, where the code panics). -/
def cyc : FrameCountBit → FrameCountBit
  | .first => .low | .high => .low | .low => .high | .inactive => .inactive

theorem cycle_eq {f : FrameCountBit} (h : f ≠ .inactive) : f.cycle = some (cyc f) := by
  cases f <;> simp_all [FrameCountBit.cycle, cyc]

theorem cyc_ne_inactive {f : FrameCountBit} (h : f ≠ .inactive) : cyc f ≠ .inactive := by
  cases f <;> simp_all [cyc]

theorem cyc_ne_self {f : FrameCountBit} (h : f ≠ .inactive) : cyc f ≠ f := by
  cases f <;> simp_all [cyc]

theorem cyc_bits {f : FrameCountBit} (h : f ≠ .inactive) : (cyc f).fcv = true ∧ (cyc f).fcb = !f.fcb := by
  cases f <;> simp_all [cyc, FrameCountBit.fcv, FrameCountBit.fcb]

/-- Parameters the properties quantify over (`ParametersBuilder`: retry limit 1..15). -/
structure FpOk (fp : FdlParams) : Prop where
  retry_lo : 1 ≤ fp.maxRetry
  retry_hi : fp.maxRetry ≤ 15
  slot : fp.slotUs * 50 < 2 ^ 64
  addr : fp.address < 128

/-- Invariant of one peripheral. -/
structure PInv (fp : FdlParams) (p : Peripheral) : Prop where
  retry_le : p.retry ≤ fp.maxRetry + 1
  off_retry : p.state = .offline → p.retry ≤ 1
  fcb : p.fcb ≠ .inactive
  ext : p.diag.ext.Valid
  prm : ∀ up, p.opts.userPrm = some up → up.length ≤ 237
  cfg : ∀ c, p.opts.config = some c → c.length ≤ 244
  piq : p.piQ.length ≤ 244
  addr : p.address < 128

theorem pinv_new (fp : FdlParams) (a : UInt8) (o : Options) (i q : Bytes) (d : Nat)
    (hp : ∀ up, o.userPrm = some up → up.length ≤ 237) (hc : ∀ c, o.config = some c → c.length ≤ 244)
    (hq : q.length ≤ 244) (ha : a < 128) : PInv fp (Peripheral.new a o i q d) where
  retry_le := by simp [Peripheral.new]
  off_retry := by simp [Peripheral.new]
  fcb := by simp [Peripheral.new]
  ext := by simp [Peripheral.new, Diag.PState.init, Diag.valid_ofSize]
  prm := hp
  cfg := hc
  piq := hq
  addr := ha

def pduOf : Telegram → Bytes
  | .data _ pdu => pdu
  | _ => []

/-- `diag` / `ext_diag` after an accepted diagnostics reply (C17: `handle_spec`). -/
def diagAfter (d : Diag.PState) (t : Telegram) : Diag.PState :=
  { info := some (Diag.infoOf (pduOf t)),
    ext := if Diag.Spec.extFlag (pduOf t) then (d.ext.fill ((pduOf t).drop 6)).1 else d.ext }

/-- Flags of an accepted diagnostics reply. -/
def flagsOf (t : Telegram) : UInt16 := (Diag.infoOf (pduOf t)).flags

theorem diagAfter_valid {d : Diag.PState} (hv : d.ext.Valid) (t : Telegram) : (diagAfter d t).ext.Valid := by
  unfold diagAfter
  simp only
  split
  · exact (Diag.fill_valid hv _).1
  · exact hv

theorem handleDiag_spec (p : Peripheral) (hv : p.diag.ext.Valid) (hf : p.fcb ≠ .inactive) (t : Telegram) :
    p.handleDiag t =
      if Diag.Spec.accepts t then .accepted { p with diag := diagAfter p.diag t, fcb := cyc p.fcb } (flagsOf t)
      else .rejected := by
  unfold Peripheral.handleDiag
  rw [Diag.handle_spec p.diag hv t]
  cases t with
  | token da sa => simp [Diag.Spec.accepts]
  | sc => simp [Diag.Spec.accepts]
  | data h pdu =>
    by_cases ha : Diag.Spec.accepts (.data h pdu) = true
    · simp only [ha, if_true, cycle_eq hf]
      rfl
    · simp [ha]

/-- Replies the FDL station may hand to `receive_reply` (C15): a short confirmation or a data
telegram with a *response* function code. -/
def RxOk : Telegram → Prop
  | .sc => True
  | .data h _ => ∃ st ss, h.fc = .response st ss
  | .token _ _ => False

def dataOkStatus : ResponseStatus → Bool
  | .ok | .dataLow | .dataHigh => true
  | _ => false

/-- `receive_reply` case by case (for a peripheral satisfying `PInv` and a reply the contract allows). -/
inductive RxSpec : Peripheral → Telegram → Peripheral → Option PEvent → Prop
  | offAcc (p t) : p.state = .offline → Diag.Spec.accepts t = true →
      RxSpec p t { p with diag := diagAfter p.diag t, fcb := cyc p.fcb, retry := 0, state := .waitForParam } (some .online)
  | offRej (p t) : p.state = .offline → Diag.Spec.accepts t = false → RxSpec p t p none
  | prmSc (p) : p.state = .waitForParam →
      RxSpec p .sc { p with fcb := cyc p.fcb, state := .waitForConfig, retry := 0 } none
  | prmRej (p t) : p.state = .waitForParam → t ≠ .sc → RxSpec p t p none
  | cfgSc (p) : p.state = .waitForConfig →
      RxSpec p .sc { p with fcb := cyc p.fcb, state := .validateConfig, retry := 0 } none
  | cfgRej (p t) : p.state = .waitForConfig → t ≠ .sc → RxSpec p t p none
  | valRej (p t) : p.state = .validateConfig → Diag.Spec.accepts t = false →
      RxSpec p t { p with retry := 0 } none
  | valPrmFault (p t) : p.state = .validateConfig → Diag.Spec.accepts t = true →
      flagsOf t &&& PARAMETER_FAULT ≠ 0 →
      RxSpec p t { p with retry := 0, diag := diagAfter p.diag t, fcb := cyc p.fcb, state := .offline } (some .parameterError)
  | valCfgFault (p t) : p.state = .validateConfig → Diag.Spec.accepts t = true →
      flagsOf t &&& PARAMETER_FAULT = 0 → flagsOf t &&& CONFIGURATION_FAULT ≠ 0 →
      RxSpec p t { p with retry := 0, diag := diagAfter p.diag t, fcb := cyc p.fcb, state := .offline } (some .configError)
  | valPrmReq (p t) : p.state = .validateConfig → Diag.Spec.accepts t = true →
      flagsOf t &&& PARAMETER_FAULT = 0 → flagsOf t &&& CONFIGURATION_FAULT = 0 →
      flagsOf t &&& PARAMETER_REQUIRED ≠ 0 →
      RxSpec p t { p with retry := 0, diag := diagAfter p.diag t, fcb := cyc p.fcb, state := .waitForParam } none
  | valReady (p t) : p.state = .validateConfig → Diag.Spec.accepts t = true →
      flagsOf t &&& PARAMETER_FAULT = 0 → flagsOf t &&& CONFIGURATION_FAULT = 0 →
      flagsOf t &&& PARAMETER_REQUIRED = 0 → flagsOf t &&& STATION_NOT_READY = 0 →
      RxSpec p t { p with retry := 0, diag := diagAfter p.diag t, fcb := cyc p.fcb, state := .preDataExchange } (some .configured)
  | valNotReady (p t) : p.state = .validateConfig → Diag.Spec.accepts t = true →
      flagsOf t &&& PARAMETER_FAULT = 0 → flagsOf t &&& CONFIGURATION_FAULT = 0 →
      flagsOf t &&& PARAMETER_REQUIRED = 0 → flagsOf t &&& STATION_NOT_READY ≠ 0 →
      RxSpec p t { p with retry := 0, diag := diagAfter p.diag t, fcb := cyc p.fcb } none
  | dxDiagAcc (p t) : (p.state = .preDataExchange ∨ p.state = .dataExchange) → p.diagInFlight = true →
      Diag.Spec.accepts t = true →
      RxSpec p t { p with diag := diagAfter p.diag t, fcb := cyc p.fcb, retry := 0, diagNeeded := false } (some .diagnostics)
  | dxDiagRej (p t) : (p.state = .preDataExchange ∨ p.state = .dataExchange) → p.diagInFlight = true →
      Diag.Spec.accepts t = false → RxSpec p t p none
  | dxScData (p) : (p.state = .preDataExchange ∨ p.state = .dataExchange) → p.diagInFlight = false →
      p.piI.length ≠ 0 → RxSpec p .sc { p with retry := 0, fcb := cyc p.fcb } none
  | dxScOk (p) : (p.state = .preDataExchange ∨ p.state = .dataExchange) → p.diagInFlight = false →
      p.piI.length = 0 →
      RxSpec p .sc { p with state := .dataExchange, retry := 0, fcb := cyc p.fcb } (some .dataExchanged)
  | dxSapNotEnabled (p h pdu st) : (p.state = .preDataExchange ∨ p.state = .dataExchange) →
      p.diagInFlight = false → h.fc = .response st .sapNotEnabled →
      RxSpec p (.data h pdu) { p with state := .validateConfig, retry := 0, fcb := cyc p.fcb } none
  | dxOther (p h pdu st ss) : (p.state = .preDataExchange ∨ p.state = .dataExchange) →
      p.diagInFlight = false → h.fc = .response st ss → dataOkStatus ss = false → ss ≠ .sapNotEnabled →
      RxSpec p (.data h pdu) { p with retry := 0, fcb := cyc p.fcb } none
  | dxSaps (p h pdu st ss) : (p.state = .preDataExchange ∨ p.state = .dataExchange) →
      p.diagInFlight = false → h.fc = .response st ss → dataOkStatus ss = true →
      (h.dsap ≠ none ∨ h.ssap ≠ none) →
      RxSpec p (.data h pdu)
        { p with diagNeeded := if ss = .dataHigh then true else p.diagNeeded, retry := 0, fcb := cyc p.fcb } none
  | dxLen (p h pdu st ss) : (p.state = .preDataExchange ∨ p.state = .dataExchange) →
      p.diagInFlight = false → h.fc = .response st ss → dataOkStatus ss = true →
      h.dsap = none → h.ssap = none → pdu.length ≠ p.piI.length →
      RxSpec p (.data h pdu)
        { p with diagNeeded := if ss = .dataHigh then true else p.diagNeeded, retry := 0, fcb := cyc p.fcb } none
  | dxData (p h pdu st ss) : (p.state = .preDataExchange ∨ p.state = .dataExchange) →
      p.diagInFlight = false → h.fc = .response st ss → dataOkStatus ss = true →
      h.dsap = none → h.ssap = none → pdu.length = p.piI.length →
      RxSpec p (.data h pdu)
        { p with diagNeeded := if ss = .dataHigh then true else p.diagNeeded, piI := pdu, state := .dataExchange,
                 retry := 0, fcb := cyc p.fcb } (some .dataExchanged)

theorem rx_spec_dx {fp : FdlParams} {p : Peripheral} (hI : PInv fp p) {t : Telegram} (ht : RxOk t)
    (hs : p.state = .preDataExchange ∨ p.state = .dataExchange) :
    ∃ p' ev, p.receiveReply t = .ok p' ev ∧ RxSpec p t p' ev := by
  have hd := handleDiag_spec p hI.ext hI.fcb t
  have hc := cycle_eq hI.fcb
  obtain ⟨address, state, retry, fcb, piI, piQ, diag, diagNeeded, diagInFlight, opts⟩ := p
  simp only at hd hc hs
  rcases hs with rfl | rfl
  all_goals
    unfold Peripheral.receiveReply
    simp only [hd]
    cases diagInFlight with
    | true =>
      by_cases ha : Diag.Spec.accepts t = true
      · simp only [ha, if_true]
        exact ⟨_, _, rfl, .dxDiagAcc _ t (by simp) rfl ha⟩
      · have ha' : Diag.Spec.accepts t = false := by simpa using ha
        simp only [ha', Bool.false_eq_true, if_false]
        exact ⟨_, _, rfl, .dxDiagRej _ t (by simp) rfl ha'⟩
    | false =>
      simp only [Bool.false_eq_true, if_false]
      cases t with
      | token a b => exact absurd ht (by simp [RxOk])
      | sc =>
        by_cases hl : piI.length ≠ 0
        · simp only [hl, if_true, ne_eq, not_false_eq_true, Peripheral.dxDone, hc]
          exact ⟨_, _, rfl, .dxScData _ (by simp) rfl hl⟩
        · have hl' : piI.length = 0 := by simpa using hl
          simp only [hl', ne_eq, not_true_eq_false, if_false, Peripheral.dxDone, hc]
          exact ⟨_, _, rfl, .dxScOk _ (by simp) rfl hl'⟩
      | data h pdu =>
        obtain ⟨st, ss, hfc⟩ := ht
        simp only [hfc]
        cases ss with
        | sapNotEnabled =>
          simp only [Peripheral.dxDone, hc, Bool.false_and, Bool.false_eq_true, if_false]
          exact ⟨_, _, rfl, .dxSapNotEnabled _ h pdu st (by simp) rfl hfc⟩
        | userError | noResources | noDataReady | notReceivedDataLow | notReceivedDataHigh =>
          simp only [Peripheral.dxDone, hc, Bool.false_and, Bool.false_eq_true, if_false]
          exact ⟨_, _, rfl, .dxOther _ h pdu st _ (by simp) rfl hfc rfl (by simp)⟩
        | ok | dataLow | dataHigh =>
          simp only [Bool.true_and]
          by_cases hsap : (h.dsap != SAP_DATA_EXCHANGE || h.ssap != SAP_DATA_EXCHANGE) = true
          · simp only [hsap, if_true, Peripheral.dxDone, hc]
            have hs2 : h.dsap ≠ none ∨ h.ssap ≠ none := by
              simpa [SAP_DATA_EXCHANGE] using hsap
            exact ⟨_, _, rfl, .dxSaps _ h pdu st _ (by simp) rfl hfc rfl hs2⟩
          · have hs2 : h.dsap = none ∧ h.ssap = none := by
              simpa [SAP_DATA_EXCHANGE] using hsap
            simp only [hsap, Bool.false_eq_true, if_false, if_true]
            by_cases hl : pdu.length = piI.length
            · simp only [hl, if_true, Peripheral.dxDone, hc]
              exact ⟨_, _, rfl, .dxData _ h pdu st _ (by simp) rfl hfc rfl hs2.1 hs2.2 hl⟩
            · simp only [hl, if_false, Peripheral.dxDone, hc]
              exact ⟨_, _, rfl, .dxLen _ h pdu st _ (by simp) rfl hfc rfl hs2.1 hs2.2 hl⟩


theorem rx_spec {fp : FdlParams} {p : Peripheral} (hI : PInv fp p) {t : Telegram} (ht : RxOk t) :
    ∃ p' ev, p.receiveReply t = .ok p' ev ∧ RxSpec p t p' ev := by
  have hI0 := hI
  have hd := handleDiag_spec p hI.ext hI.fcb t
  have hd0 := handleDiag_spec { p with retry := 0 } hI.ext hI.fcb t
  have hc := cycle_eq hI.fcb
  obtain ⟨address, state, retry, fcb, piI, piQ, diag, diagNeeded, diagInFlight, opts⟩ := p
  simp only at hd hd0 hc
  cases state with
  | offline =>
    unfold Peripheral.receiveReply; simp only [hd]
    by_cases ha : Diag.Spec.accepts t = true
    · simp only [ha, if_true]
      exact ⟨_, _, rfl, .offAcc _ t rfl ha⟩
    · have ha' : Diag.Spec.accepts t = false := by simpa using ha
      simp only [ha', Bool.false_eq_true, if_false]
      exact ⟨_, _, rfl, .offRej _ t rfl ha'⟩
  | waitForParam =>
    cases t with
    | sc => unfold Peripheral.receiveReply; simp only [hc]; exact ⟨_, _, rfl, .prmSc _ rfl⟩
    | data h pdu => exact ⟨_, _, rfl, .prmRej _ _ rfl (by simp)⟩
    | token a b => exact ⟨_, _, rfl, .prmRej _ _ rfl (by simp)⟩
  | waitForConfig =>
    cases t with
    | sc => unfold Peripheral.receiveReply; simp only [hc]; exact ⟨_, _, rfl, .cfgSc _ rfl⟩
    | data h pdu => exact ⟨_, _, rfl, .cfgRej _ _ rfl (by simp)⟩
    | token a b => exact ⟨_, _, rfl, .cfgRej _ _ rfl (by simp)⟩
  | validateConfig =>
    unfold Peripheral.receiveReply; simp only [hd0]
    by_cases ha : Diag.Spec.accepts t = true
    · simp only [ha, if_true]
      by_cases h1 : flagsOf t &&& PARAMETER_FAULT ≠ 0
      · simp only [h1, if_true, ne_eq, not_false_eq_true]
        exact ⟨_, _, rfl, .valPrmFault _ t rfl ha h1⟩
      · have h1' : flagsOf t &&& PARAMETER_FAULT = 0 := by simpa using h1
        by_cases h2 : flagsOf t &&& CONFIGURATION_FAULT ≠ 0
        · simp only [h1', h2, ne_eq, not_true_eq_false, if_false, not_false_eq_true, if_true]
          exact ⟨_, _, rfl, .valCfgFault _ t rfl ha h1' h2⟩
        · have h2' : flagsOf t &&& CONFIGURATION_FAULT = 0 := by simpa using h2
          by_cases h3 : flagsOf t &&& PARAMETER_REQUIRED ≠ 0
          · simp only [h1', h2', h3, ne_eq, not_true_eq_false, if_false, not_false_eq_true, if_true]
            exact ⟨_, _, rfl, .valPrmReq _ t rfl ha h1' h2' h3⟩
          · have h3' : flagsOf t &&& PARAMETER_REQUIRED = 0 := by simpa using h3
            by_cases h4 : flagsOf t &&& STATION_NOT_READY = 0
            · simp only [h1', h2', h3', h4, ne_eq, not_true_eq_false, if_false, if_true]
              exact ⟨_, _, rfl, .valReady _ t rfl ha h1' h2' h3' h4⟩
            · simp only [h1', h2', h3', h4, ne_eq, not_true_eq_false, if_false]
              exact ⟨_, _, rfl, .valNotReady _ t rfl ha h1' h2' h3' h4⟩
    · have ha' : Diag.Spec.accepts t = false := by simpa using ha
      simp only [ha', Bool.false_eq_true, if_false]
      exact ⟨_, _, rfl, .valRej _ t rfl ha'⟩
  | preDataExchange => exact rx_spec_dx hI0 ht (Or.inl rfl)
  | dataExchange => exact rx_spec_dx hI0 ht (Or.inr rfl)


theorem pinv_sendable {fp : FdlParams} (hfp : FpOk fp) {p : Peripheral} (hI : PInv fp p)
    (hr : p.retry ≤ fp.maxRetry) : p.Sendable fp :=
  ⟨hr, by have := hfp.retry_hi; omega, hI.addr, hfp.addr, hI.prm, hI.cfg, hI.piq⟩

/-- `Peripheral::transmit_telegram` case by case (for a peripheral satisfying `PInv`). -/
inductive TxSpec (fp : FdlParams) (op : OpState) : Peripheral → PTx → Prop
  | goOffline (p) : fp.maxRetry < p.retry →
      TxSpec fp op p (.decline { p with state := .offline, fcb := .first, retry := 0 } (some .offline))
  | probe (p) : p.retry ≤ fp.maxRetry → p.state = .offline → p.retry = 0 →
      TxSpec fp op p (.send { p with retry := 1 } (p.diagHeader fp) [])
  | probeWait (p) : p.retry ≤ fp.maxRetry → p.state = .offline → p.retry ≠ 0 →
      TxSpec fp op p (.decline { p with retry := 0 } none)
  | setPrm (p up) : p.retry ≤ fp.maxRetry → p.state = .waitForParam → p.opts.userPrm = some up →
      TxSpec fp op p (.send { p with retry := p.retry + 1 } (p.setPrmHeader fp) (setPrmPdu fp p.opts up))
  | noPrm (p) : p.retry ≤ fp.maxRetry → p.state = .waitForParam → p.opts.userPrm = none →
      TxSpec fp op p (.decline { p with retry := 0 } none)
  | chkCfg (p cfg) : p.retry ≤ fp.maxRetry → p.state = .waitForConfig → p.opts.config = some cfg →
      TxSpec fp op p (.send { p with retry := p.retry + 1 } (p.chkCfgHeader fp) cfg)
  | noCfg (p) : p.retry ≤ fp.maxRetry → p.state = .waitForConfig → p.opts.config = none →
      TxSpec fp op p (.decline { p with retry := 0 } none)
  | validate (p) : p.retry ≤ fp.maxRetry → p.state = .validateConfig →
      TxSpec fp op p (.send { p with retry := p.retry + 1 } (p.diagHeader fp) [])
  | dxDiag (p) : p.retry ≤ fp.maxRetry → (p.state = .preDataExchange ∨ p.state = .dataExchange) →
      p.serviceIsDiag = true →
      TxSpec fp op p (.send { p with diagInFlight := p.serviceIsDiag, retry := p.retry + 1 } (p.diagHeader fp) [])
  | dx (p) : p.retry ≤ fp.maxRetry → (p.state = .preDataExchange ∨ p.state = .dataExchange) →
      p.serviceIsDiag = false →
      TxSpec fp op p (.send { p with diagInFlight := p.serviceIsDiag, retry := p.retry + 1 } (p.dxHeader fp) (dxPdu op p.piQ))

theorem tx_spec {fp : FdlParams} (hfp : FpOk fp) {op : OpState} (hop : op ≠ .stop) {p : Peripheral}
    (hI : PInv fp p) : TxSpec fp op p (p.transmit fp op) := by
  by_cases hr : fp.maxRetry < p.retry
  · rw [transmit_retry_exceeded fp op p hop hr]; exact .goOffline p hr
  · have hr' : p.retry ≤ fp.maxRetry := by omega
    have hS := pinv_sendable hfp hI hr'
    cases hs : p.state with
    | offline =>
      by_cases h0 : p.retry = 0
      · rw [transmit_offline_first fp op p hop hS hs h0]; exact .probe p hr' hs h0
      · rw [transmit_offline_retry fp op p hop hS hs h0]; exact .probeWait p hr' hs h0
    | waitForParam =>
      cases hu : p.opts.userPrm with
      | some up => rw [transmit_waitForParam fp op p hop hS hs up hu]; exact .setPrm p up hr' hs hu
      | none => rw [transmit_waitForParam_none fp op p hop hS hs hu]; exact .noPrm p hr' hs hu
    | waitForConfig =>
      cases hu : p.opts.config with
      | some c => rw [transmit_waitForConfig fp op p hop hS hs c hu]; exact .chkCfg p c hr' hs hu
      | none => rw [transmit_waitForConfig_none fp op p hop hS hs hu]; exact .noCfg p hr' hs hu
    | validateConfig => rw [transmit_validateConfig fp op p hop hS hs]; exact .validate p hr' hs
    | preDataExchange =>
      rw [transmit_dataExchange fp op p hop hS (Or.inl hs)]
      rcases Bool.eq_false_or_eq_true p.serviceIsDiag with hd | hd
      · simp only; rw [if_pos hd]; exact .dxDiag p hr' (Or.inl hs) hd
      · simp only; rw [if_neg (by simp [hd])]; exact .dx p hr' (Or.inl hs) hd
    | dataExchange =>
      rw [transmit_dataExchange fp op p hop hS (Or.inr hs)]
      rcases Bool.eq_false_or_eq_true p.serviceIsDiag with hd | hd
      · simp only; rw [if_pos hd]; exact .dxDiag p hr' (Or.inr hs) hd
      · simp only; rw [if_neg (by simp [hd])]; exact .dx p hr' (Or.inr hs) hd


/-- The peripheral a `transmit_telegram` result leaves behind. -/
def PTx.after : PTx → Option Peripheral
  | .send p _ _ => some p
  | .decline p _ => some p
  | .panic => none

theorem tx_pinv {fp : FdlParams} {op : OpState} {p : Peripheral} {r : PTx}
    (h : TxSpec fp op p r) (hI : PInv fp p) : ∃ p', r.after = some p' ∧ PInv fp p' := by
  cases h with
  | goOffline hr =>
    exact ⟨_, rfl, ⟨by simp, by simp, by simp, hI.ext, hI.prm, hI.cfg, hI.piq, hI.addr⟩⟩
  | probe hr hs h0 =>
    exact ⟨_, rfl, ⟨by simp, by simp, hI.fcb, hI.ext, hI.prm, hI.cfg, hI.piq, hI.addr⟩⟩
  | probeWait hr hs h0 =>
    exact ⟨_, rfl, ⟨by simp, by simp, hI.fcb, hI.ext, hI.prm, hI.cfg, hI.piq, hI.addr⟩⟩
  | setPrm up hr hs hu =>
    exact ⟨_, rfl, ⟨by simp; omega, by simp [hs], hI.fcb, hI.ext, hI.prm, hI.cfg, hI.piq, hI.addr⟩⟩
  | noPrm hr hs hu =>
    exact ⟨_, rfl, ⟨by simp, by simp, hI.fcb, hI.ext, hI.prm, hI.cfg, hI.piq, hI.addr⟩⟩
  | chkCfg c hr hs hu =>
    exact ⟨_, rfl, ⟨by simp; omega, by simp [hs], hI.fcb, hI.ext, hI.prm, hI.cfg, hI.piq, hI.addr⟩⟩
  | noCfg hr hs hu =>
    exact ⟨_, rfl, ⟨by simp, by simp, hI.fcb, hI.ext, hI.prm, hI.cfg, hI.piq, hI.addr⟩⟩
  | validate hr hs =>
    exact ⟨_, rfl, ⟨by simp; omega, by simp [hs], hI.fcb, hI.ext, hI.prm, hI.cfg, hI.piq, hI.addr⟩⟩
  | dxDiag hr hs hd =>
    refine ⟨_, rfl, ⟨by simp; omega, ?_, hI.fcb, hI.ext, hI.prm, hI.cfg, hI.piq, hI.addr⟩⟩
    rcases hs with hs | hs <;> simp [hs]
  | dx hr hs hd =>
    refine ⟨_, rfl, ⟨by simp; omega, ?_, hI.fcb, hI.ext, hI.prm, hI.cfg, hI.piq, hI.addr⟩⟩
    rcases hs with hs | hs <;> simp [hs]

theorem rx_pinv {fp : FdlParams} {p p' : Peripheral} {t : Telegram} {ev : Option PEvent}
    (h : RxSpec p t p' ev) (hI : PInv fp p) : PInv fp p' := by
  have hc := cyc_ne_inactive hI.fcb
  have hv := diagAfter_valid hI.ext t
  cases h <;>
    first
    | exact hI
    | exact ⟨by simp, by simp, hc, hv, hI.prm, hI.cfg, hI.piq, hI.addr⟩
    | exact ⟨by simp, by simp, hc, hI.ext, hI.prm, hI.cfg, hI.piq, hI.addr⟩
    | exact ⟨by simp, by simp, hI.fcb, hI.ext, hI.prm, hI.cfg, hI.piq, hI.addr⟩


/-! ## Master -/

structure MInv (fp : FdlParams) (m : Master) : Prop where
  op : m.op = .operate
  len : m.slots.length ≤ 256
  pinv : ∀ (i : Nat) (p : Peripheral), m.slots[i]? = some (some p) → PInv fp p

theorem minv_set {fp : FdlParams} {m : Master} (hM : MInv fp m) {i : Nat} {q : Peripheral}
    (hq : PInv fp q) (m' : Master) (hop : m'.op = m.op) (hs : m'.slots = m.slots.set i (some q)) :
    MInv fp m' where
  op := by rw [hop]; exact hM.op
  len := by rw [hs, List.length_set]; exact hM.len
  pinv := by
    intro j p hj
    rw [hs, List.getElem?_set] at hj
    by_cases hij : i = j
    · subst hij
      by_cases hl : i < m.slots.length
      · simp [hl] at hj; subst hj; exact hq
      · simp [hl] at hj
    · simp [hij] at hj
      exact hM.pinv j p hj

/-- The events a declining peripheral leaves in `last_events`, and where the cycle goes. -/
def afterDecline (m : Master) (index i : Nat) (p p' : Peripheral) (ev : Option PEvent) : Master :=
  let slots' := m.slots.set i (some p')
  match nextSlot m.slots index, ev with
  | some n, some e =>
    { m with slots := slots', cycle := .dx n,
             lastEvents := { cycleCompleted := false, peripheral := some { index := i, address := p.address, ev := e } } }
  | none, some e =>
    { m with slots := slots', cycle := .dx 0,
             lastEvents := { cycleCompleted := true, peripheral := some { index := i, address := p.address, ev := e } } }
  | some n, none => { m with slots := slots', cycle := .dx n }
  | none, none => { m with slots := slots', cycle := .dx 0, lastEvents := { cycleCompleted := true } }

/-- One loop iteration in closed form. -/
theorem visit_eq {fp : FdlParams} {m : Master} (hM : MInv fp m) (index : Nat) :
    m.visit fp index =
      match curSlot m.slots index with
      | none => .empty { m with cycle := .dx 0, lastEvents := { cycleCompleted := true } }
      | some (i, p) =>
        match p.transmit fp m.op with
        | .panic => .panic
        | .send p' h pdu => .send i { m with slots := m.slots.set i (some p'), lastEvents := {} } h pdu
        | .decline p' (some ev) => .event i (afterDecline m index i p p' (some ev))
        | .decline p' none =>
          match nextSlot m.slots index with
          | some _ => .next i (afterDecline m index i p p' none)
          | none => .last i (afterDecline m index i p p' none) := by
  unfold Master.visit
  rw [getAtIndex_eq hM.len]
  cases hc : curSlot m.slots index with
  | none => rfl
  | some ip =>
    obtain ⟨i, p⟩ := ip
    have hi := (curSlot_spec hc).2.2.1
    simp only
    cases ht : p.transmit fp m.op with
    | panic => rfl
    | send p' h pdu => rfl
    | decline p' ev =>
      have hl : (m.slots.set i (some p')).length ≤ 256 := by rw [List.length_set]; exact hM.len
      cases ev with
      | some e =>
        simp only [nextCycle_eq hl, nextSlot_set hi, afterDecline]
        cases nextSlot m.slots index <;> rfl
      | none =>
        simp only [nextCycle_eq hl, nextSlot_set hi, afterDecline]
        cases nextSlot m.slots index <;> rfl


/-- A declining peripheral without event only resets its retry counter. -/
theorem decline_none {fp : FdlParams} {op : OpState} {p p' : Peripheral}
    (h : TxSpec fp op p (.decline p' none)) : p' = { p with retry := 0 } := by
  cases h <;> rfl

/-- The only event `transmit_telegram` produces is Offline. -/
theorem decline_event {fp : FdlParams} {op : OpState} {p p' : Peripheral} {ev : PEvent}
    (h : TxSpec fp op p (.decline p' (some ev))) :
    ev = .offline ∧ fp.maxRetry < p.retry ∧ p' = { p with state := .offline, fcb := .first, retry := 0 } := by
  cases h; exact ⟨rfl, by assumption, rfl⟩

/-- Loop iterations that move on to the next peripheral. -/
inductive Reach (fp : FdlParams) : Master → Master → Prop
  | refl (m : Master) : Reach fp m m
  | step {m m' m'' : Master} {index i : Nat} :
      m.cycle = .dx index → m.visit fp index = .next i m' → Reach fp m' m'' → Reach fp m m''

/-- Outcome of a loop iteration that ends the loop. -/
def final (fp : FdlParams) (m : Master) : Option MTx :=
  match m.cycle with
  | .completed => some (.none { m with cycle := .dx 0, lastEvents := {} })
  | .dx index =>
    match m.visit fp index with
    | .panic => some .panic
    | .empty m' => some (.none m')
    | .send _ m' h pdu => some (.send m' h pdu)
    | .event _ m' => some (.none m')
    | .last _ m' => some (.none m')
    | .next _ _ => none

theorem txLoop_reach (fp : FdlParams) : ∀ (fuel : Nat) (m : Master),
    Master.txLoop fp fuel m = .hang ∨
      ∃ m1, Reach fp m m1 ∧ final fp m1 = some (Master.txLoop fp fuel m) := by
  intro fuel
  induction fuel with
  | zero => intro m; left; rfl
  | succ fuel ih =>
    intro m
    unfold Master.txLoop
    cases hc : m.cycle with
    | completed =>
      right; exact ⟨m, .refl m, by simp [final, hc]⟩
    | dx index =>
      simp only
      cases hv : m.visit fp index with
      | panic => right; exact ⟨m, .refl m, by simp [final, hc, hv]⟩
      | empty m' => right; exact ⟨m, .refl m, by simp [final, hc, hv]⟩
      | send i m' h pdu => right; exact ⟨m, .refl m, by simp [final, hc, hv]⟩
      | event i m' => right; exact ⟨m, .refl m, by simp [final, hc, hv]⟩
      | last i m' => right; exact ⟨m, .refl m, by simp [final, hc, hv]⟩
      | next i m' =>
        simp only
        rcases ih m' with h | ⟨m1, hr, hf⟩
        · left; exact h
        · right; exact ⟨m1, .step hc hv hr, hf⟩

theorem next_inv {fp : FdlParams} (hfp : FpOk fp) {m m' : Master} (hM : MInv fp m) {index i : Nat}
    (hv : m.visit fp index = .next i m') :
    ∃ p n, curSlot m.slots index = some (i, p) ∧ nextSlot m.slots index = some n ∧
      p.transmit fp m.op = .decline { p with retry := 0 } none ∧
      m' = { m with slots := m.slots.set i (some { p with retry := 0 }), cycle := .dx n } ∧
      MInv fp m' := by
  rw [visit_eq hM] at hv
  cases hc : curSlot m.slots index with
  | none => rw [hc] at hv; cases hv
  | some ip =>
    obtain ⟨j, p⟩ := ip
    rw [hc] at hv
    simp only at hv
    have hj := (curSlot_spec hc).2.2.1
    have hP := hM.pinv j p hj
    have hop : m.op ≠ .stop := by rw [hM.op]; decide
    have hts := tx_spec hfp hop hP
    cases ht : p.transmit fp m.op with
    | panic => rw [ht] at hv; cases hv
    | send p' h pdu => rw [ht] at hv; cases hv
    | decline p' ev =>
      rw [ht] at hv hts
      cases ev with
      | some e => cases hv
      | none =>
        simp only at hv
        have hp' := decline_none hts
        subst hp'
        cases hn : nextSlot m.slots index with
        | none => rw [hn] at hv; cases hv
        | some n =>
          rw [hn] at hv
          simp only [Visit.next.injEq] at hv
          obtain ⟨rfl, rfl⟩ := hv
          obtain ⟨q, hq1, hq2⟩ := tx_pinv hts hP
          simp only [PTx.after, Option.some.injEq] at hq1
          subst hq1
          refine ⟨p, n, rfl, rfl, ht, ?_, ?_⟩
          · simp [afterDecline, hn]
          · exact minv_set (i := j) hM hq2 _ (by simp [afterDecline, hn]) (by simp [afterDecline, hn])

theorem reach_minv {fp : FdlParams} (hfp : FpOk fp) {m m1 : Master} (hr : Reach fp m m1) (hM : MInv fp m) :
    MInv fp m1 := by
  induction hr with
  | refl => exact hM
  | step hc hv _ ih =>
    obtain ⟨_, _, _, _, _, _, hM'⟩ := next_inv hfp hM hv
    exact ih hM'

/-- F4 / `turn_ends`: with at least `slots.length + 1` iterations the loop never runs out of fuel. -/
theorem txLoop_no_hang {fp : FdlParams} (hfp : FpOk fp) : ∀ (fuel : Nat) (m : Master), MInv fp m →
    1 ≤ fuel → (∀ index, m.cycle = .dx index → m.slots.length < fuel + index) →
    Master.txLoop fp fuel m ≠ .hang := by
  intro fuel
  induction fuel with
  | zero => intro m _ h; omega
  | succ fuel ih =>
    intro m hM _ hlen
    unfold Master.txLoop
    cases hc : m.cycle with
    | completed => simp
    | dx index =>
      simp only
      cases hv : m.visit fp index with
      | next i m' =>
        simp only
        obtain ⟨p, n, hcs, hns, _, hm', hM'⟩ := next_inv hfp hM hv
        obtain ⟨h1, h2, _⟩ := nextSlot_gt hcs hns
        have h0 := (curSlot_spec hcs).1
        have hl := hlen index hc
        have hlen' : m'.slots.length = m.slots.length := by rw [hm']; simp
        apply ih m' hM'
        · omega
        · intro idx hidx
          rw [hm'] at hidx
          simp only [Cycle.dx.injEq] at hidx
          subst hidx
          omega
      | panic => simp
      | empty m' => simp
      | send i m' h pdu => simp
      | event i m' => simp
      | last i m' => simp


/-! ## Histories under the FDL contract (C15), with ghost observations -/

/-- Service of a request, read off the wire: SAP pair and function. -/
inductive RKind
  | diag | setPrm | chkCfg | dx | other
  deriving DecidableEq, Repr, Inhabited

def reqKind (h : Header) : RKind :=
  match h.fc with
  | .request _ .srdLow =>
    if h.dsap = some 60 ∧ h.ssap = some 62 then .diag
    else if h.dsap = some 61 ∧ h.ssap = some 62 then .setPrm
    else if h.dsap = some 62 ∧ h.ssap = some 62 then .chkCfg
    else .other
  | .request _ .srdHigh => if h.dsap = none ∧ h.ssap = none then .dx else .other
  | _ => .other

/-- Frame count bit of a request header. -/
def fcbOf (h : Header) : FrameCountBit :=
  match h.fc with
  | .request f _ => f
  | .response _ _ => .inactive

/-- A reply that is *acceptable* for a request of kind `k` to a peripheral with `ilen` input bytes:
diagnostics — a well-formed diagnostics response (DSAP 62, SSAP 60, ≥ 6 bytes); Set_Prm / Chk_Cfg —
a short confirmation; data exchange — a response without SAPs, status OK / DL / DH, exactly `ilen`
bytes, or a short confirmation when there are no inputs. -/
def acceptable (k : RKind) (ilen : Nat) (t : Telegram) : Bool :=
  match k with
  | .diag => Diag.Spec.accepts t
  | .setPrm | .chkCfg => t == .sc
  | .dx =>
    match t with
    | .sc => ilen == 0
    | .data h pdu =>
      (match h.fc with
       | .response _ st => dataOkStatus st
       | .request _ _ => false) && h.dsap == none && h.ssap == none && pdu.length == ilen
    | .token _ _ => false
  | .other => false

/-- A diagnostics reply confirming readiness: none of PRM_FAULT, CFG_FAULT, PRM_REQ, STATION_NOT_READY. -/
def readyFlags (t : Telegram) : Bool :=
  flagsOf t &&& PARAMETER_FAULT == 0 && flagsOf t &&& CONFIGURATION_FAULT == 0 &&
  flagsOf t &&& PARAMETER_REQUIRED == 0 && flagsOf t &&& STATION_NOT_READY == 0

inductive Op
  | tx (now : Int) (hp : Bool)
  | reply (a : UInt8) (t : Telegram)
  | timeout (a : UInt8)
  | take
  | writeQ (slot : Nat) (bs : Bytes)
  | diagReq (slot : Nat)
  /-- `get_mut(h).reset_address(a)` — at any point, also while a request to the old address is in flight (F14) -/
  | resetAddr (slot : Nat) (a : UInt8)

/-- What the last operation did (the observable result of the step). -/
inductive Out
  | start
  | gc (h : Header) (pdu : Bytes)
  | sent (i : Nat) (h : Header) (pdu : Bytes)
  /-- `transmit_telegram` returned `None` -/
  | idle
  | replied (i : Nat) (ev : Option PEvent)
  /-- a reply for an address the peripheral at the cycle index no longer has: ignored (954a153) -/
  | ignored
  | timedOut
  | taken (e : Events)
  | user
  deriving DecidableEq, Repr, Inhabited

/-- Ghost observations per slot. -/
structure SG where
  /-- C03: bring-up automaton S0..S4 -/
  s : Nat := 0
  /-- C08: last request (service, frame count bit) -/
  last : Option (RKind × FrameCountBit) := none
  /-- an acceptable reply to `last` arrived -/
  accepted : Bool := false
  /-- some reply arrived since `last` was sent -/
  anyReply : Bool := false
  /-- transmissions of `last` in a row without any reply -/
  count : Nat := 0
  /-- start-up, or declared offline since the last request -/
  expectFirst : Bool := true
  /-- `request_diagnostics()` was called since the last request -/
  diagReq : Bool := false
  /-- peripheral state / `diag_in_flight` (the service chosen) when `last` was sent -/
  snapState : PState := .offline
  snapDiag : Bool := false
  /-- C14: life-cycle according to the events taken: 0 off, 1 online, 2 configured -/
  lc : Nat := 0
  deriving Repr, Inhabited

structure G where
  m : Master
  /-- address a reply is outstanding from -/
  out : Option UInt8 := none
  o : Out := .start
  sg : Nat → SG := fun _ => {}
  now : Option Int := none
  /-- a callback ran since the last `take_last_events` -/
  dirty : Bool := false
  /-- sticky: `take_last_events` was called between any two callbacks that report events -/
  collected : Bool := true
  /-- peripheral events produced by the callbacks / handed out by `take_last_events`, oldest first -/
  produced : List HEvent := []
  taken : List HEvent := []
  /-- sticky: `reset_address()` gave the peripheral whose request is in flight the very address the reply
  is outstanding from (so that the reply to the OLD incarnation's request will be delivered to the fresh
  one).  The bookkeeping theorems of C03 / C08 / C14 are stated for histories without that; a reset to
  any other address — in flight or not — leaves them intact (the reply in flight is simply ignored);
  no-panic, termination and the process-image clauses hold regardless. -/
  tainted : Bool := false
  /-- the peripheral event waiting in `last_events` belongs to an incarnation of the peripheral that has
  since been reset by `reset_address()`: the next `take_last_events` hands it out, but it says nothing
  about the fresh peripheral — the life-cycle bookkeeping (`sgTake`) skips it.  Cleared whenever
  `last_events` is written afresh (every `transmit_telegram`, every delivered reply) or taken. -/
  staleEv : Bool := false

inductive Res3 (α : Type)
  | ok (a : α)
  | panic
  | hang
  | refused

/-- The peripheral the cycle index points at. -/
def Master.cur (m : Master) : Option (Nat × Peripheral) :=
  match m.cycle with
  | .dx index => curSlot m.slots index
  | .completed => none

def G.upd (g : G) (i : Nat) (f : SG → SG) : Nat → SG := fun j => if j = i then f (g.sg j) else g.sg j

/-- Ghost update: a request `h` went out to slot `i`, whose peripheral is `p'` afterwards. -/
def sgSend (h : Header) (p' : Peripheral) (x : SG) : SG :=
  let k := reqKind h
  let f := fcbOf h
  { x with
    s := if k = .setPrm then (if x.s ≥ 1 then 1 else 0) else x.s,
    last := some (k, f), accepted := false, anyReply := false,
    count := if x.last = some (k, f) ∧ x.anyReply = false then x.count + 1 else 1,
    expectFirst := false, diagReq := false, snapState := p'.state, snapDiag := p'.diagInFlight }

/-- Ghost update: the peripheral in the slot was declared offline. -/
def sgOffline (x : SG) : SG := { x with expectFirst := true, s := 0 }

/-- C03 automaton on an acceptable reply. -/
def bringUp (k : RKind) (t : Telegram) (s : Nat) : Nat :=
  match k with
  | .diag => if s = 0 then 1 else if s = 3 ∧ readyFlags t then 4 else s
  | .setPrm => if s = 1 then 2 else s
  | .chkCfg => if s = 2 then 3 else s
  | _ => s

/-- Ghost update: reply `t` was delivered to the peripheral `p` (before) / `p'` (after) of the slot. -/
def sgReply (t : Telegram) (p p' : Peripheral) (x : SG) : SG :=
  let acc := match x.last with
    | some (k, _) => acceptable k p.piI.length t
    | none => false
  let s1 := match x.last with
    | some (k, _) => if acc then bringUp k t x.s else x.s
    | none => x.s
  { x with anyReply := true, accepted := x.accepted || acc,
           s := if p'.state = .offline then 0 else s1 }

def lcStep (st : Nat) (ev : PEvent) : Option Nat :=
  match st, ev with
  | 0, .online => some 1
  | 1, .configured => some 2
  | 1, .offline => some 0
  | 1, .parameterError => some 0
  | 1, .configError => some 0
  | 2, .configured => some 2
  | 2, .dataExchanged => some 2
  | 2, .diagnostics => some 2
  | 2, .offline => some 0
  | 2, .parameterError => some 0
  | 2, .configError => some 0
  | _, _ => none

def sgTake (ev : PEvent) (x : SG) : SG := { x with lc := (lcStep x.lc ev).getD x.lc }

def timeOk (g : G) (now : Int) : Bool :=
  decide (-(2:Int)^62 < now ∧ now < (2:Int)^62) &&
  (match g.now with | some t0 => decide (t0 ≤ now) | none => true)

/-- What the FDL station may hand to `receive_reply(addr = a, …)`. -/
def replyAllowed (own a : UInt8) : Telegram → Bool
  | .sc => true
  | .data h _ => h.sa == a && h.da == own &&
      (match h.fc with | .response _ _ => true | .request _ _ => false)
  | .token _ _ => false

/-- `reset_address(a)` of `slot` meets a request in flight to that peripheral AND `a` is the address
the reply is outstanding from. -/
def resetInFlight (g : G) (slot : Nat) (a : UInt8) : Bool :=
  match g.out, g.m.cur with
  | some ao, some (i, _) => i == slot && a == ao
  | _, _ => false

/-- `reset_address()` of `slot` meets an uncollected event of that peripheral. -/
def resetStaleEv (g : G) (slot : Nat) : Bool :=
  match g.m.lastEvents.peripheral with
  | some he => he.index == slot
  | none => false

def gstep (fp : FdlParams) (g : G) : Op → Res3 G
  | .tx now hp =>
    if !timeOk g now then .refused else
    match Master.transmit fp now hp g.m with
    | .panic => .panic
    | .hang => .hang
    | .none m' =>
      let g1 : G := { g with m := m', out := none, o := .idle, now := some now,
                             collected := g.collected && !g.dirty, dirty := true, staleEv := false }
      match m'.lastEvents.peripheral with
      | some he => .ok { g1 with sg := g.upd he.index sgOffline, produced := g.produced ++ [he] }
      | none => .ok g1
    | .send m' h pdu =>
      let g1 : G := { g with m := m', now := some now, collected := g.collected && !g.dirty, dirty := true,
                             staleEv := false }
      if h.dsap = SAP_SLAVE_GLOBAL_CONTROL then .ok { g1 with out := none, o := .gc h pdu }
      else
        match m'.cur with
        | some (i, p') => .ok { g1 with out := expectsReplyOf h, o := .sent i h pdu, sg := g.upd i (sgSend h p') }
        | none => .ok { g1 with out := expectsReplyOf h, o := .idle }
  | .reply a t =>
    if g.out ≠ some a ∨ replyAllowed fp.address a t = false then .refused else
    match Master.receiveReply g.m a t with
    | .panic => .panic
    | .ok m' =>
      let g1 : G := { g with m := m', out := none, collected := g.collected && !g.dirty, dirty := true,
                             staleEv := false }
      match g.m.cur with
      | some (i, p) =>
        if p.address ≠ a then .ok { g with out := none, o := .ignored } else
        let p' := (m'.slots.getD i none).getD p
        let ev := m'.lastEvents.peripheral.map (·.ev)
        .ok { g1 with o := .replied i ev, sg := g.upd i (sgReply t p p'),
                      produced := g.produced ++ m'.lastEvents.peripheral.toList }
      | none => .ok { g with out := none, o := .ignored }
  | .timeout a =>
    if g.out ≠ some a then .refused else
    .ok { g with m := g.m.handleTimeout a, out := none, o := .timedOut }
  | .take =>
    let (m', e) := g.m.takeLastEvents
    let sg' := match e.peripheral with
      | some he => if g.staleEv then g.sg else g.upd he.index (sgTake he.ev)
      | none => g.sg
    .ok { g with m := m', o := .taken e, dirty := false, sg := sg', taken := g.taken ++ e.peripheral.toList,
                 staleEv := false }
  | .writeQ slot bs =>
    match g.m.writePiQ slot bs with
    | some m' => .ok { g with m := m', o := .user }
    | none => .refused
  | .diagReq slot =>
    match g.m.requestDiagnostics slot with
    | some m' => .ok { g with m := m', o := .user, sg := g.upd slot fun x => { x with diagReq := true } }
    | none => .refused
  | .resetAddr slot a =>
    if a ≥ 128 then .refused else
    match g.m.resetAddress slot a with
    | some m' =>
      .ok { g with m := m', o := .user, sg := g.upd slot (fun _ => {}),
                   tainted := g.tainted || resetInFlight g slot a,
                   staleEv := g.staleEv || resetStaleEv g slot }
    | none => .refused

def grun (fp : FdlParams) (g : G) : List Op → Res3 G
  | [] => .ok g
  | op :: ops =>
    match gstep fp g op with
    | .ok g' => grun fp g' ops
    | .panic => .panic
    | .hang => .hang
    | .refused => .refused

/-- A master in Operate with the given slots, before its first poll. -/
def G.init (slots : List (Option Peripheral)) (growable : Bool) : G :=
  { m := { slots := slots, growable := growable, op := .operate, lastGc := none, cycle := .dx 0, lastEvents := {} } }


/-! ## Base invariant -/

def timeB (t : Int) : Prop := -(2:Int)^62 < t ∧ t < (2:Int)^62

structure Inv (fp : FdlParams) (g : G) : Prop where
  m : MInv fp g.m
  out : ∀ a, g.out = some a → ∃ i p, g.m.cur = some (i, p)
  gcT : ∀ t, g.m.lastGc = some t → timeB t

/-- Zero or more declines (`retry_count = 0`, nothing else) of the peripheral in one slot. -/
inductive DecSlot (fp : FdlParams) (op : OpState) : Option (Option Peripheral) → Option (Option Peripheral) → Prop
  | refl (x) : DecSlot fp op x x
  | step (p : Peripheral) (y) : TxSpec fp op p (.decline { p with retry := 0 } none) →
      DecSlot fp op (some (some { p with retry := 0 })) y → DecSlot fp op (some (some p)) y

/-- `m'` differs from `m` only by peripherals that declined to transmit. -/
structure Declined (fp : FdlParams) (m m' : Master) : Prop where
  len : m'.slots.length = m.slots.length
  op : m'.op = m.op
  gc : m'.lastGc = m.lastGc
  slot : ∀ j : Nat, DecSlot fp m.op (m.slots[j]?) (m'.slots[j]?)

theorem declined_refl (fp : FdlParams) (m : Master) : Declined fp m m :=
  ⟨rfl, rfl, rfl, fun _ => .refl _⟩

theorem decSlot_trans {fp : FdlParams} {op : OpState} {x y z : Option (Option Peripheral)}
    (h1 : DecSlot fp op x y) (h2 : DecSlot fp op y z) : DecSlot fp op x z := by
  induction h1 with
  | refl => exact h2
  | step p y ht _ ih => exact .step p _ ht (ih h2)

theorem declined_trans {fp : FdlParams} {m m' m'' : Master} (h1 : Declined fp m m') (h2 : Declined fp m' m'') :
    Declined fp m m'' :=
  ⟨h2.len.trans h1.len, h2.op.trans h1.op, h2.gc.trans h1.gc,
   fun j => decSlot_trans (h1.slot j) (by have := h2.slot j; rw [h1.op] at this; exact this)⟩

theorem reach_declined {fp : FdlParams} (hfp : FpOk fp) {m m1 : Master} (hr : Reach fp m m1) (hM : MInv fp m) :
    Declined fp m m1 := by
  induction hr with
  | refl => exact declined_refl fp _
  | @step m m' m'' index i hc hv _ ih =>
    obtain ⟨p, n, hcs, _, ht, hm', hM'⟩ := next_inv hfp hM hv
    have hi := (curSlot_spec hcs).2.2.1
    have hts : TxSpec fp m.op p (.decline { p with retry := 0 } none) := by
      have hop : m.op ≠ .stop := by rw [hM.op]; decide
      have := tx_spec hfp hop (hM.pinv i p hi)
      rw [ht] at this; exact this
    have h1 : Declined fp m m' := by
      subst hm'
      refine ⟨by simp, rfl, rfl, ?_⟩
      intro j
      simp only [List.getElem?_set]
      by_cases hij : i = j
      · subst hij
        have hl : i < m.slots.length := (curSlot_spec hcs).2.1
        simp only [hl, if_true]
        rw [hi]
        exact .step p _ hts (.refl _)
      · simp only [hij, if_false]; exact .refl _
    exact declined_trans h1 (ih hM')


theorem gcHeader_serialize (fp : FdlParams) (pdu : Bytes) (h : pdu.length = 2) :
    (gcHeader fp).serialize pdu 256 = .ok (frameSpec (gcHeader fp) pdu) := by
  apply serialize_ok
  simp [Header.lengthByte, Header.saps, gcHeader, SAP_SLAVE_GLOBAL_CONTROL, SAP_MASTER_MS0, h]

theorem gcDue_ok {fp : FdlParams} (hfp : FpOk fp) {now : Int} (hn : timeB now) {last : Option Int}
    (hl : ∀ t, last = some t → timeB t) :
    gcDue fp now last = some (match last with
      | none => true
      | some t => decide ((now - t).natAbs ≥ fp.slotUs * 50)) := by
  cases last with
  | none => rfl
  | some t =>
    have ht := hl t rfl
    unfold timeB at hn ht
    have h1 : i64Ok (now - t) = true := by
      unfold i64Ok; simp only [decide_eq_true_eq]; omega
    have h2 : ¬ (fp.slotUs * 50 ≥ 2 ^ 64) := by have := hfp.slot; omega
    simp [gcDue, h1, h2]

/-- Requests of a peripheral: never the global-control SAP, always expecting a reply from its address. -/
theorem send_header {fp : FdlParams} {op : OpState} {p p' : Peripheral} {h : Header} {pdu : Bytes}
    (hs : TxSpec fp op p (.send p' h pdu)) :
    h.dsap ≠ SAP_SLAVE_GLOBAL_CONTROL ∧ expectsReplyOf h = some p.address ∧ h.da = p.address ∧
      fcbOf h = p.fcb ∧ p'.address = p.address := by
  cases hs <;>
    simp [Peripheral.diagHeader, Peripheral.setPrmHeader, Peripheral.chkCfgHeader, Peripheral.dxHeader,
      SAP_SLAVE_GLOBAL_CONTROL, SAP_SLAVE_DIAGNOSIS, SAP_SLAVE_SET_PRM, SAP_SLAVE_CHK_CFG, SAP_DATA_EXCHANGE,
      expectsReplyOf, RequestType.expectsReply, fcbOf]

theorem cur_set {m : Master} {i : Nat} {p p' : Peripheral} (hc : m.cur = some (i, p)) (ev : Events) :
    Master.cur { m with slots := m.slots.set i (some p'), lastEvents := ev } = some (i, p') := by
  unfold Master.cur at hc ⊢
  cases hcy : m.cycle with
  | completed => rw [hcy] at hc; cases hc
  | dx index =>
    rw [hcy] at hc
    simp only at hc ⊢
    have hi := (curSlot_spec hc).2.2.1
    rw [curSlot_set hi, hc]
    simp

theorem declined_step {fp : FdlParams} {m : Master} {i : Nat} {p : Peripheral}
    (hi : m.slots[i]? = some (some p)) (ht : TxSpec fp m.op p (.decline { p with retry := 0 } none))
    (m' : Master) (hs : m'.slots = m.slots.set i (some { p with retry := 0 })) (hop : m'.op = m.op)
    (hgc : m'.lastGc = m.lastGc) : Declined fp m m' := by
  refine ⟨by rw [hs]; simp, hop, hgc, ?_⟩
  intro j
  rw [hs]
  simp only [List.getElem?_set]
  by_cases hij : i = j
  · subst hij
    have hl : i < m.slots.length := by
      rcases Nat.lt_or_ge i m.slots.length with h | h
      · exact h
      · rw [List.getElem?_eq_none h] at hi; cases hi
    simp only [hl, if_true]
    rw [hi]
    exact .step p _ ht (.refl _)
  · simp only [hij, if_false]; exact .refl _

/-- The iteration that ends the loop. -/
theorem final_cases {fp : FdlParams} (hfp : FpOk fp) {m1 : Master} (hM1 : MInv fp m1) {r : MTx}
    (hf : final fp m1 = some r) :
    (∃ m', r = .none m' ∧ Declined fp m1 m' ∧ MInv fp m' ∧ m'.lastEvents.peripheral = none) ∨
    (∃ i p p' h pdu, m1.cur = some (i, p) ∧ TxSpec fp .operate p (.send p' h pdu) ∧
      r = .send { m1 with slots := m1.slots.set i (some p'), lastEvents := {} } h pdu) ∨
    (∃ index i p, m1.cycle = .dx index ∧ curSlot m1.slots index = some (i, p) ∧ fp.maxRetry < p.retry ∧
      r = .none (afterDecline m1 index i p { p with state := .offline, fcb := .first, retry := 0 } (some .offline))) := by
  unfold final at hf
  cases hcy : m1.cycle with
  | completed =>
    rw [hcy] at hf
    simp only [Option.some.injEq] at hf
    left
    exact ⟨_, hf.symm, ⟨rfl, rfl, rfl, fun _ => .refl _⟩, ⟨hM1.op, hM1.len, hM1.pinv⟩, rfl⟩
  | dx index =>
    rw [hcy] at hf
    simp only at hf
    rw [visit_eq hM1] at hf
    cases hc : curSlot m1.slots index with
    | none =>
      rw [hc] at hf
      simp only [Option.some.injEq] at hf
      left
      exact ⟨_, hf.symm, ⟨rfl, rfl, rfl, fun _ => .refl _⟩, ⟨hM1.op, hM1.len, hM1.pinv⟩, rfl⟩
    | some ip =>
      obtain ⟨i, p⟩ := ip
      rw [hc] at hf
      simp only at hf
      have hi := (curSlot_spec hc).2.2.1
      have hP := hM1.pinv i p hi
      have hop : m1.op ≠ .stop := by rw [hM1.op]; decide
      have hts := tx_spec hfp hop hP
      cases ht : p.transmit fp m1.op with
      | panic => rw [ht] at hts; cases hts
      | send p' h pdu =>
        rw [ht] at hf hts
        simp only [Option.some.injEq] at hf
        right; left
        rw [hM1.op] at hts
        exact ⟨i, p, p', h, pdu, by simp [Master.cur, hcy, hc], hts, by rw [← hf, hcy]⟩
      | decline p' ev =>
        rw [ht] at hf hts
        cases ev with
        | some e =>
          simp only [Option.some.injEq] at hf
          obtain ⟨rfl, hr, rfl⟩ := decline_event hts
          right; right
          exact ⟨index, i, p, rfl, hc, hr, hf.symm⟩
        | none =>
          have hp' := decline_none hts
          subst hp'
          obtain ⟨q, hq1, hq2⟩ := tx_pinv hts hP
          simp only [PTx.after, Option.some.injEq] at hq1
          subst hq1
          cases hn : nextSlot m1.slots index with
          | some n => rw [hn] at hf; cases hf
          | none =>
            rw [hn] at hf
            simp only [Option.some.injEq] at hf
            left
            refine ⟨_, hf.symm, ?_, ?_, ?_⟩
            · exact declined_step hi hts _ (by simp [afterDecline, hn]) (by simp [afterDecline, hn]) (by simp [afterDecline, hn])
            · exact minv_set (i := i) hM1 hq2 _ (by simp [afterDecline, hn]) (by simp [afterDecline, hn])
            · simp [afterDecline, hn]


/-- The ghost-free part of a `tx` step that all cases share. -/
def G.polled (g : G) (now : Int) (m' : Master) : G :=
  { g with m := m', now := some now, collected := g.collected && !g.dirty, dirty := true, staleEv := false }

theorem timeOk_bound {g : G} {now : Int} (h : timeOk g now = true) : timeB now := by
  unfold timeOk at h
  simp only [Bool.and_eq_true, decide_eq_true_eq] at h
  exact h.1

/-- Case analysis of a `transmit_telegram` step, done once. -/
theorem tx_elim {fp : FdlParams} (hfp : FpOk fp) {g g' : G} (hI : Inv fp g) {now : Int} {hp : Bool}
    (h : gstep fp g (.tx now hp) = .ok g') (P : G → Prop)
    -- global control
    (hgc : hp = false → gcDue fp now g.m.lastGc = some true → timeB now →
      P { g.polled now { g.m with lastGc := some now, lastEvents := {} } with
          out := none, o := .gc (gcHeader fp) [0x00, 0x00] })
    -- no telegram, no event: only declines happened
    (hidle : ∀ m', Declined fp g.m m' → MInv fp m' → m'.lastEvents.peripheral = none →
      (hp = true ∨ gcDue fp now g.m.lastGc = some false) →
      P { g.polled now m' with out := none, o := .idle })
    -- a peripheral transmits
    (hsend : ∀ m1 i p p' h pdu, Declined fp g.m m1 → MInv fp m1 → m1.cur = some (i, p) →
      TxSpec fp .operate p (.send p' h pdu) → (hp = true ∨ gcDue fp now g.m.lastGc = some false) →
      P { g.polled now { m1 with slots := m1.slots.set i (some p'), lastEvents := {} } with
          out := some p.address, o := .sent i h pdu, sg := g.upd i (sgSend h p') })
    -- a peripheral is declared offline
    (hoff : ∀ m1 index i p, Declined fp g.m m1 → MInv fp m1 → m1.cycle = .dx index →
      curSlot m1.slots index = some (i, p) → fp.maxRetry < p.retry →
      (hp = true ∨ gcDue fp now g.m.lastGc = some false) →
      P { g.polled now (afterDecline m1 index i p { p with state := .offline, fcb := .first, retry := 0 } (some .offline)) with
          out := none, o := .idle, sg := g.upd i sgOffline,
          produced := g.produced ++ [{ index := i, address := p.address, ev := .offline }] }) :
    P g' := by
  simp only [gstep] at h
  cases hto : timeOk g now with
  | false => simp [hto] at h
  | true =>
    simp only [hto, Bool.not_true, Bool.false_eq_true, if_false] at h
    have hnow := timeOk_bound hto
    have hdue := gcDue_ok hfp hnow hI.gcT
    have hop := hI.m.op
    -- the two ways `transmit` can go
    have hloop : (hp = true ∨ gcDue fp now g.m.lastGc = some false) →
        Master.transmit fp now hp g.m = Master.txLoop fp (g.m.slots.length + 1) g.m := by
      intro hh
      unfold Master.transmit
      simp only [hop, reduceCtorEq, if_false]
      rcases hh with hh | hh
      · simp [hh]
      · cases hp with
        | true => simp
        | false => simp [hh]
    by_cases hg : hp = false ∧ gcDue fp now g.m.lastGc = some true
    · -- global control
      obtain ⟨hp0, hg1⟩ := hg
      have ht : Master.transmit fp now hp g.m =
          .send { g.m with lastGc := some now, lastEvents := {} } (gcHeader fp) [0x00, 0x00] := by
        unfold Master.transmit
        simp only [hop, reduceCtorEq, if_false, hp0, Bool.false_eq_true, hg1, gcPdu]
        rw [gcHeader_serialize fp _ rfl]
      rw [ht] at h
      simp only [gcHeader, if_true, Res3.ok.injEq] at h
      subst h
      exact hgc hp0 hg1 hnow
    · have hh : hp = true ∨ gcDue fp now g.m.lastGc = some false := by
        cases hp with
        | true => left; rfl
        | false =>
          right
          rw [hdue] at hg ⊢
          simp only [true_and, Option.some.injEq] at hg ⊢
          simpa using hg
      rw [hloop hh] at h
      have hnh := txLoop_no_hang hfp (g.m.slots.length + 1) g.m hI.m (by omega) (by intro i _; omega)
      rcases txLoop_reach fp (g.m.slots.length + 1) g.m with hhang | ⟨m1, hr, hf⟩
      · exact absurd hhang hnh
      · have hM1 := reach_minv hfp hr hI.m
        have hD1 := reach_declined hfp hr hI.m
        rcases final_cases hfp hM1 hf with ⟨m', hr', hD, hM', hev⟩ | ⟨i, p, p', hd, pdu, hc, hts, hr'⟩ |
          ⟨index, i, p, hcy, hc, hret, hr'⟩
        · rw [hr'] at h
          simp only [hev, Res3.ok.injEq] at h
          subst h
          exact hidle m' (declined_trans hD1 hD) hM' hev hh
        · rw [hr'] at h
          obtain ⟨hk, hex, _, _, _⟩ := send_header hts
          simp only [hk, if_false, cur_set hc, hex, Res3.ok.injEq] at h
          subst h
          exact hsend m1 i p p' hd pdu hD1 hM1 hc hts hh
        · rw [hr'] at h
          have hev : (afterDecline m1 index i p { p with state := .offline, fcb := .first, retry := 0 } (some .offline)).lastEvents.peripheral
              = some { index := i, address := p.address, ev := .offline } := by
            unfold afterDecline; cases nextSlot m1.slots index <;> rfl
          simp only [hev, Res3.ok.injEq] at h
          subst h
          exact hoff m1 index i p hD1 hM1 hcy hc hret hh



theorem rxOk_of_allowed {own a : UInt8} {t : Telegram} (h : replyAllowed own a t = true) : RxOk t := by
  cases t with
  | sc => trivial
  | token _ _ => simp [replyAllowed] at h
  | data hd pdu =>
    simp only [replyAllowed, Bool.and_eq_true] at h
    cases hfc : hd.fc with
    | response st ss => exact ⟨st, ss, hfc⟩
    | request _ _ => rw [hfc] at h; simp at h

/-- The master after `receive_reply` for the peripheral in slot `i`. -/
def afterReply (m : Master) (index i : Nat) (p p' : Peripheral) (ev : Option PEvent) : Master :=
  { m with slots := m.slots.set i (some p'),
           cycle := match nextSlot m.slots index with | some n => .dx n | none => .completed,
           lastEvents := { cycleCompleted := (nextSlot m.slots index).isNone,
                           peripheral := ev.map fun e => { index := i, address := p.address, ev := e } } }

/-- Case analysis of a `receive_reply` step. -/
theorem reply_elim {fp : FdlParams} {g g' : G} (hI : Inv fp g) {a : UInt8} {t : Telegram}
    (h : gstep fp g (.reply a t) = .ok g') (P : G → Prop)
    (hrep : ∀ index i p p' ev, g.out = some a → g.m.cycle = .dx index → curSlot g.m.slots index = some (i, p) →
      p.address = a → replyAllowed fp.address a t = true → RxSpec p t p' ev →
      P { g with m := afterReply g.m index i p p' ev, out := none,
                 collected := g.collected && !g.dirty, dirty := true, staleEv := false,
                 o := .replied i ev, sg := g.upd i (sgReply t p p'),
                 produced := g.produced ++ (ev.map fun e => ({ index := i, address := p.address, ev := e } : HEvent)).toList })
    -- stale reply: the peripheral at the cycle index has another address by now (`reset_address()`)
    (hstale : ∀ index i p, g.out = some a → g.m.cycle = .dx index → curSlot g.m.slots index = some (i, p) →
      p.address ≠ a → P { g with out := none, o := .ignored }) :
    P g' := by
  simp only [gstep] at h
  by_cases hc : g.out ≠ some a ∨ replyAllowed fp.address a t = false
  · simp [hc] at h
  · rw [if_neg hc] at h
    have ho : g.out = some a := by
      by_cases h' : g.out = some a
      · exact h'
      · exact absurd (Or.inl h') hc
    have hal : replyAllowed fp.address a t = true := by
      cases hr : replyAllowed fp.address a t with
      | true => rfl
      | false => exact absurd (Or.inr hr) hc
    obtain ⟨i, p, hcur⟩ := hI.out a ho
    unfold Master.cur at hcur
    cases hcy : g.m.cycle with
    | completed => rw [hcy] at hcur; cases hcur
    | dx index =>
      rw [hcy] at hcur
      simp only at hcur
      have hi := (curSlot_spec hcur).2.2.1
      have hP := hI.m.pinv i p hi
      have hcur' : g.m.cur = some (i, p) := by simp [Master.cur, hcy, hcur]
      by_cases hpa' : ¬ p.address = a
      · -- stale
        have hne : a ≠ p.address := fun e => hpa' e.symm
        have hrr : Master.receiveReply g.m a t = .ok g.m := by
          unfold Master.receiveReply
          simp only [hcy, getAtIndex_eq hI.m.len, hcur, ne_eq, hne, not_false_eq_true, if_true]
        rw [hrr] at h
        simp only [hcur', ne_eq, hpa', not_false_eq_true, if_true, Res3.ok.injEq] at h
        subst h
        exact hstale index i p ho hcy hcur hpa'
      have hpa : p.address = a := Decidable.of_not_not hpa'
      obtain ⟨p', ev, hrx, hspec⟩ := rx_spec hP (rxOk_of_allowed hal)
      have hl : (g.m.slots.set i (some p')).length ≤ 256 := by rw [List.length_set]; exact hI.m.len
      have hrr : Master.receiveReply g.m a t = .ok (afterReply g.m index i p p' ev) := by
        unfold Master.receiveReply
        simp only [hcy, getAtIndex_eq hI.m.len, hcur, hpa, ne_eq, not_true_eq_false, if_false, hrx,
          nextCycle_eq hl, nextSlot_set hi, afterReply]
        cases nextSlot g.m.slots index <;> rfl
      rw [hrr] at h
      have hl2 : i < g.m.slots.length := (curSlot_spec hcur).2.1
      simp only [hcur', ne_eq, hpa, not_true_eq_false, if_false, Res3.ok.injEq] at h
      subst h
      have e1 : ((afterReply g.m index i p p' ev).slots.getD i none).getD p = p' := by
        simp [afterReply, List.getD_eq_getElem?_getD, hl2]
      have e2 : (afterReply g.m index i p p' ev).lastEvents.peripheral.map (·.ev) = ev := by
        simp only [afterReply]; cases ev <;> rfl
      rw [e1, e2]
      exact hrep index i p p' ev ho hcy hcur hpa hal hspec


theorem transmit_ne {fp : FdlParams} (hfp : FpOk fp) {g : G} (hI : Inv fp g) {now : Int} (hnow : timeB now)
    (hp : Bool) : Master.transmit fp now hp g.m ≠ .panic ∧ Master.transmit fp now hp g.m ≠ .hang := by
  have hdue := gcDue_ok hfp hnow hI.gcT
  have hop := hI.m.op
  by_cases hg : hp = false ∧ gcDue fp now g.m.lastGc = some true
  · obtain ⟨hp0, hg1⟩ := hg
    have ht : Master.transmit fp now hp g.m =
        .send { g.m with lastGc := some now, lastEvents := {} } (gcHeader fp) [0x00, 0x00] := by
      unfold Master.transmit
      simp only [hop, reduceCtorEq, if_false, hp0, Bool.false_eq_true, hg1, gcPdu]
      rw [gcHeader_serialize fp _ rfl]
    rw [ht]; simp
  · have ht : Master.transmit fp now hp g.m = Master.txLoop fp (g.m.slots.length + 1) g.m := by
      unfold Master.transmit
      simp only [hop, reduceCtorEq, if_false]
      cases hp with
      | true => simp
      | false =>
        rw [hdue] at hg ⊢
        simp only [true_and, Option.some.injEq] at hg
        simp [hg]
    rw [ht]
    have hnh := txLoop_no_hang hfp (g.m.slots.length + 1) g.m hI.m (by omega) (by intro i _; omega)
    refine ⟨?_, hnh⟩
    rcases txLoop_reach fp (g.m.slots.length + 1) g.m with hhang | ⟨m1, hr, hf⟩
    · exact absurd hhang hnh
    · have hM1 := reach_minv hfp hr hI.m
      rcases final_cases hfp hM1 hf with ⟨m', hr', _⟩ | ⟨i, p, p', hd, pdu, _, _, hr'⟩ | ⟨index, i, p, _, _, _, hr'⟩ <;>
        (rw [hr']; simp)

/-- No operation the contract allows makes the master panic or spin. -/
theorem gstep_ok {fp : FdlParams} (hfp : FpOk fp) {g : G} (hI : Inv fp g) (op : Op) :
    gstep fp g op ≠ .panic ∧ gstep fp g op ≠ .hang := by
  cases op with
  | tx now hp =>
    simp only [gstep]
    cases hto : timeOk g now with
    | false => simp
    | true =>
      simp only [Bool.not_true, Bool.false_eq_true, if_false]
      have ⟨h1, h2⟩ := transmit_ne hfp hI (timeOk_bound hto) hp
      cases ht : Master.transmit fp now hp g.m with
      | panic => exact absurd ht h1
      | hang => exact absurd ht h2
      | none m' =>
        simp only
        cases m'.lastEvents.peripheral <;> simp
      | send m' h pdu =>
        simp only
        split
        · simp
        · cases m'.cur with
          | none => simp
          | some ip => simp
  | reply a t =>
    simp only [gstep]
    by_cases hc : g.out ≠ some a ∨ replyAllowed fp.address a t = false
    · simp [hc]
    · rw [if_neg hc]
      have ho : g.out = some a := by
        by_cases h' : g.out = some a
        · exact h'
        · exact absurd (Or.inl h') hc
      have hal : replyAllowed fp.address a t = true := by
        cases hr : replyAllowed fp.address a t with
        | true => rfl
        | false => exact absurd (Or.inr hr) hc
      obtain ⟨i, p, hcur⟩ := hI.out a ho
      unfold Master.cur at hcur
      cases hcy : g.m.cycle with
      | completed => rw [hcy] at hcur; cases hcur
      | dx index =>
        rw [hcy] at hcur
        simp only at hcur
        have hi := (curSlot_spec hcur).2.2.1
        by_cases hpa' : ¬ p.address = a
        · have hne : a ≠ p.address := fun e => hpa' e.symm
          have hrr : Master.receiveReply g.m a t = .ok g.m := by
            unfold Master.receiveReply
            simp only [hcy, getAtIndex_eq hI.m.len, hcur, ne_eq, hne, not_false_eq_true, if_true]
          rw [hrr]
          simp only
          cases g.m.cur with
          | none => simp
          | some ip => simp only; split <;> simp
        · have hpa : p.address = a := Decidable.of_not_not hpa'
          obtain ⟨p', ev, hrx, _⟩ := rx_spec (hI.m.pinv i p hi) (rxOk_of_allowed hal)
          have hl : (g.m.slots.set i (some p')).length ≤ 256 := by rw [List.length_set]; exact hI.m.len
          have hrr : Master.receiveReply g.m a t = .ok (afterReply g.m index i p p' ev) := by
            unfold Master.receiveReply
            simp only [hcy, getAtIndex_eq hI.m.len, hcur, hpa, ne_eq, not_true_eq_false, if_false, hrx,
              nextCycle_eq hl, nextSlot_set hi, afterReply]
            cases nextSlot g.m.slots index <;> rfl
          rw [hrr]
          simp only
          cases g.m.cur with
          | none => simp
          | some ip => simp only; split <;> simp
  | resetAddr slot a =>
    simp only [gstep]
    split
    · simp
    · cases g.m.resetAddress slot a <;> simp
  | timeout a =>
    simp only [gstep]
    split <;> simp
  | take => simp [gstep]
  | writeQ slot bs =>
    simp only [gstep]
    cases g.m.writePiQ slot bs <;> simp
  | diagReq slot =>
    simp only [gstep]
    cases g.m.requestDiagnostics slot <;> simp


theorem cur_of_set {m : Master} {j : Nat} {p0 q : Peripheral} (hj : m.slots[j]? = some (some p0))
    (m' : Master) (hs : m'.slots = m.slots.set j (some q)) (hc : m'.cycle = m.cycle) :
    m'.cur = m.cur.map fun ip => if ip.1 = j then (ip.1, q) else ip := by
  unfold Master.cur
  rw [hc, hs]
  cases m.cycle with
  | completed => rfl
  | dx index => simp only; rw [curSlot_set hj]

theorem out_of_set {m : Master} {j : Nat} {p0 q : Peripheral} (hj : m.slots[j]? = some (some p0))
    (m' : Master) (hs : m'.slots = m.slots.set j (some q)) (hc : m'.cycle = m.cycle)
    (h : ∃ i p, m.cur = some (i, p)) : ∃ i p, m'.cur = some (i, p) := by
  obtain ⟨i, p, h1⟩ := h
  rw [cur_of_set hj m' hs hc, h1]
  simp only [Option.map_some]
  by_cases hij : i = j
  · exact ⟨i, q, by simp [hij]⟩
  · exact ⟨i, p, by simp [hij]⟩

theorem inv_step {fp : FdlParams} (hfp : FpOk fp) {g g' : G} (hI : Inv fp g) (op : Op)
    (h : gstep fp g op = .ok g') : Inv fp g' := by
  cases op with
  | tx now hp =>
    refine tx_elim hfp hI h (Inv fp) ?_ ?_ ?_ ?_
    · intro _ _ hn
      exact ⟨⟨hI.m.op, hI.m.len, hI.m.pinv⟩, (by intro a h; cases h), (by
        intro t ht; simp only [G.polled, Option.some.injEq] at ht; subst ht; exact hn)⟩
    · intro m' hD hM' _ _
      exact ⟨hM', (by intro a h; cases h), (by
        intro t ht; simp only [G.polled] at ht; rw [hD.gc] at ht; exact hI.gcT t ht)⟩
    · intro m1 i p p' hd pdu hD hM1 hc hts _
      have hi : m1.slots[i]? = some (some p) := by
        unfold Master.cur at hc
        cases hcy : m1.cycle with
        | completed => rw [hcy] at hc; cases hc
        | dx index => rw [hcy] at hc; exact (curSlot_spec hc).2.2.1
      obtain ⟨q, hq1, hq2⟩ := tx_pinv hts (hM1.pinv i p hi)
      simp only [PTx.after, Option.some.injEq] at hq1
      subst hq1
      refine ⟨minv_set (i := i) hM1 hq2 _ rfl rfl, ?_, ?_⟩
      · intro a ha
        simp only [Option.some.injEq] at ha
        subst ha
        exact ⟨i, _, cur_set hc _⟩
      · intro t ht; simp only [G.polled] at ht; rw [hD.gc] at ht; exact hI.gcT t ht
    · intro m1 index i p hD hM1 hcy hc hr _
      have hi := (curSlot_spec hc).2.2.1
      have hP := hM1.pinv i p hi
      have hq : PInv fp { p with state := .offline, fcb := .first, retry := 0 } :=
        ⟨by simp, by simp, by simp, hP.ext, hP.prm, hP.cfg, hP.piq, hP.addr⟩
      refine ⟨minv_set (i := i) hM1 hq _ ?_ ?_, (by intro a h; cases h), ?_⟩
      · simp only [G.polled, afterDecline]; cases nextSlot m1.slots index <;> rfl
      · simp only [G.polled, afterDecline]; cases nextSlot m1.slots index <;> rfl
      · intro t ht
        have : (afterDecline m1 index i p { p with state := .offline, fcb := .first, retry := 0 } (some .offline)).lastGc = m1.lastGc := by
          simp only [afterDecline]; cases nextSlot m1.slots index <;> rfl
        simp only [G.polled, this] at ht
        rw [hD.gc] at ht; exact hI.gcT t ht
  | reply a t =>
    refine reply_elim hI h (Inv fp) ?_ ?_
    · intro index i p p' ev _ hcy hc hpa _ hspec
      have hi := (curSlot_spec hc).2.2.1
      have hq := rx_pinv hspec (hI.m.pinv i p hi)
      exact ⟨minv_set (i := i) hI.m hq _ rfl rfl, (by intro a h; cases h), hI.gcT⟩
    · intro index i p _ _ _ _
      exact ⟨hI.m, (by intro a h; cases h), hI.gcT⟩
  | resetAddr slot a =>
    simp only [gstep] at h
    split at h
    · cases h
    · rename_i ha
      cases hw : g.m.resetAddress slot a with
      | none => rw [hw] at h; cases h
      | some m' =>
        rw [hw] at h
        simp only [Res3.ok.injEq] at h; subst h
        unfold Master.resetAddress Master.peripheral? at hw
        cases hs : g.m.slots.getD slot none with
        | none => rw [hs] at hw; cases hw
        | some p =>
          rw [hs] at hw
          simp only [Option.some.injEq] at hw; subst hw
          have hj : g.m.slots[slot]? = some (some p) := by
            rw [List.getD_eq_getElem?_getD] at hs
            cases hh : g.m.slots[slot]? with
            | none => rw [hh] at hs; cases hs
            | some x => rw [hh] at hs; simp only [Option.getD_some] at hs; rw [hs]
          have hP := hI.m.pinv slot p hj
          have hq : PInv fp (p.resetAddress a) :=
            ⟨by simp [Peripheral.resetAddress], by simp [Peripheral.resetAddress], by simp [Peripheral.resetAddress],
             by simp [Peripheral.resetAddress, Diag.ExtDiag.Valid], hP.prm, hP.cfg, hP.piq,
             by simp only [Peripheral.resetAddress]; exact UInt8.not_le.mp ha⟩
          refine ⟨minv_set (i := slot) hI.m hq _ rfl rfl, ?_, hI.gcT⟩
          intro a' ha'
          exact out_of_set (q := p.resetAddress a) hj { g.m with slots := g.m.slots.set slot (some (p.resetAddress a)) } rfl rfl
            (hI.out a' ha')
  | timeout a =>
    simp only [gstep] at h
    split at h
    · cases h
    · simp only [Res3.ok.injEq] at h; subst h
      exact ⟨hI.m, (by intro a h; cases h), hI.gcT⟩
  | take =>
    simp only [gstep, Master.takeLastEvents, Res3.ok.injEq] at h
    subst h
    exact ⟨⟨hI.m.op, hI.m.len, hI.m.pinv⟩, hI.out, hI.gcT⟩
  | writeQ slot bs =>
    simp only [gstep] at h
    cases hw : g.m.writePiQ slot bs with
    | none => rw [hw] at h; cases h
    | some m' =>
      rw [hw] at h
      simp only [Res3.ok.injEq] at h; subst h
      unfold Master.writePiQ Master.peripheral? at hw
      cases hs : g.m.slots.getD slot none with
      | none => rw [hs] at hw; cases hw
      | some p =>
        rw [hs] at hw
        simp only at hw
        split at hw
        · rename_i hlen
          simp only [Option.some.injEq] at hw; subst hw
          have hj : g.m.slots[slot]? = some (some p) := by
            rw [List.getD_eq_getElem?_getD] at hs
            cases hh : g.m.slots[slot]? with
            | none => rw [hh] at hs; cases hs
            | some x => rw [hh] at hs; simp only [Option.getD_some] at hs; rw [hs]
          have hP := hI.m.pinv slot p hj
          have hq : PInv fp { p with piQ := bs } :=
            ⟨hP.retry_le, hP.off_retry, hP.fcb, hP.ext, hP.prm, hP.cfg, by simp only; rw [hlen]; exact hP.piq, hP.addr⟩
          refine ⟨minv_set (i := slot) hI.m hq _ rfl rfl, ?_, hI.gcT⟩
          intro a ha
          exact out_of_set (q := { p with piQ := bs }) hj { g.m with slots := g.m.slots.set slot (some { p with piQ := bs }) } rfl rfl (hI.out a ha)
        · cases hw
  | diagReq slot =>
    simp only [gstep] at h
    cases hw : g.m.requestDiagnostics slot with
    | none => rw [hw] at h; cases h
    | some m' =>
      rw [hw] at h
      simp only [Res3.ok.injEq] at h; subst h
      unfold Master.requestDiagnostics Master.peripheral? at hw
      cases hs : g.m.slots.getD slot none with
      | none => rw [hs] at hw; cases hw
      | some p =>
        rw [hs] at hw
        simp only [Option.some.injEq] at hw; subst hw
        have hj : g.m.slots[slot]? = some (some p) := by
          rw [List.getD_eq_getElem?_getD] at hs
          cases hh : g.m.slots[slot]? with
          | none => rw [hh] at hs; cases hs
          | some x => rw [hh] at hs; simp only [Option.getD_some] at hs; rw [hs]
        have hP := hI.m.pinv slot p hj
        have hq : PInv fp { p with diagNeeded := true } :=
          ⟨hP.retry_le, hP.off_retry, hP.fcb, hP.ext, hP.prm, hP.cfg, hP.piq, hP.addr⟩
        refine ⟨minv_set (i := slot) hI.m hq _ rfl rfl, ?_, hI.gcT⟩
        intro a ha
        exact out_of_set (q := { p with diagNeeded := true }) hj { g.m with slots := g.m.slots.set slot (some { p with diagNeeded := true }) } rfl rfl (hI.out a ha)

/-- Start states: a master in Operate whose slots hold freshly constructed peripherals. -/
structure InitOk (fp : FdlParams) (slots : List (Option Peripheral)) : Prop where
  len : slots.length ≤ 256
  fresh : ∀ (i : Nat) (p : Peripheral), slots[i]? = some (some p) →
    PInv fp p ∧ p.state = .offline ∧ p.retry = 0 ∧ p.fcb = .first ∧ p.diagNeeded = false ∧ p.diagInFlight = false

theorem inv_init {fp : FdlParams} {slots : List (Option Peripheral)} (h : InitOk fp slots) (gr : Bool) :
    Inv fp (G.init slots gr) :=
  ⟨⟨rfl, h.len, fun i p hi => (h.fresh i p hi).1⟩, (by intro a ha; cases ha), (by intro t ht; cases ht)⟩

theorem inv_run {fp : FdlParams} (hfp : FpOk fp) (ops : List Op) : ∀ (g : G), Inv fp g →
    grun fp g ops ≠ .panic ∧ grun fp g ops ≠ .hang ∧ ∀ g', grun fp g ops = .ok g' → Inv fp g' := by
  induction ops with
  | nil =>
    intro g hI
    simp only [grun]
    exact ⟨(by intro h; cases h), (by intro h; cases h), (by intro g' h; cases h; exact hI)⟩
  | cons op ops ih =>
    intro g hI
    simp only [grun]
    have ⟨h1, h2⟩ := gstep_ok hfp hI op
    cases hs : gstep fp g op with
    | ok g1 => exact ih g1 (inv_step hfp hI op hs)
    | panic => exact absurd hs h1
    | hang => exact absurd hs h2
    | refused => exact ⟨(by intro h; cases h), (by intro h; cases h), (by intro g' h; cases h)⟩


/-- A decline changes nothing but the retry counter. -/
theorem decSlot_fwd {fp : FdlParams} {op : OpState} {x y : Option (Option Peripheral)} (h : DecSlot fp op x y) :
    (x = none → y = none) ∧ (x = some none → y = some none) ∧
    (∀ p, x = some (some p) → ∃ p', y = some (some p') ∧ p' = { p with retry := p'.retry }) := by
  induction h with
  | refl x => exact ⟨id, id, fun p hp => ⟨p, hp, rfl⟩⟩
  | step p y _ _ ih =>
    refine ⟨(by intro h; cases h), (by intro h; cases h), ?_⟩
    intro q hq
    simp only [Option.some.injEq] at hq
    subst hq
    obtain ⟨p', hp', he⟩ := ih.2.2 _ rfl
    exact ⟨p', hp', by rw [he]⟩

theorem decSlot_back {fp : FdlParams} {op : OpState} {x y : Option (Option Peripheral)} (h : DecSlot fp op x y)
    {p' : Peripheral} (hy : y = some (some p')) : ∃ p, x = some (some p) ∧ p' = { p with retry := p'.retry } := by
  have hf := decSlot_fwd h
  cases x with
  | none => rw [hf.1 rfl] at hy; cases hy
  | some o =>
    cases o with
    | none => rw [hf.2.1 rfl] at hy; cases hy
    | some p =>
      obtain ⟨q, hq, he⟩ := hf.2.2 p rfl
      rw [hq] at hy
      simp only [Option.some.injEq] at hy
      subst hy
      exact ⟨p, rfl, he⟩


@[simp] theorem reqKind_diag (fp : FdlParams) (p : Peripheral) : reqKind (p.diagHeader fp) = .diag := by
  simp [reqKind, Peripheral.diagHeader, SAP_SLAVE_DIAGNOSIS, SAP_MASTER_MS0]
@[simp] theorem reqKind_setPrm (fp : FdlParams) (p : Peripheral) : reqKind (p.setPrmHeader fp) = .setPrm := by
  simp [reqKind, Peripheral.setPrmHeader, SAP_SLAVE_SET_PRM, SAP_MASTER_MS0]
@[simp] theorem reqKind_chkCfg (fp : FdlParams) (p : Peripheral) : reqKind (p.chkCfgHeader fp) = .chkCfg := by
  simp [reqKind, Peripheral.chkCfgHeader, SAP_SLAVE_CHK_CFG, SAP_MASTER_MS0]
@[simp] theorem reqKind_dx (fp : FdlParams) (p : Peripheral) : reqKind (p.dxHeader fp) = .dx := by
  simp [reqKind, Peripheral.dxHeader, SAP_DATA_EXCHANGE]

/-- Service of the request a peripheral sends, by state. -/
theorem send_kind {fp : FdlParams} {op : OpState} {p p' : Peripheral} {h : Header} {pdu : Bytes}
    (hs : TxSpec fp op p (.send p' h pdu)) :
    (reqKind h = .diag ∧ pdu = [] ∧ (p.state = .offline ∨ p.state = .validateConfig ∨
        ((p.state = .preDataExchange ∨ p.state = .dataExchange) ∧ p.serviceIsDiag = true))) ∨
    (reqKind h = .setPrm ∧ p.state = .waitForParam ∧ ∃ up, p.opts.userPrm = some up ∧ pdu = setPrmPdu fp p.opts up) ∨
    (reqKind h = .chkCfg ∧ p.state = .waitForConfig ∧ p.opts.config = some pdu) ∨
    (reqKind h = .dx ∧ (p.state = .preDataExchange ∨ p.state = .dataExchange) ∧ p.serviceIsDiag = false ∧
        pdu = dxPdu op p.piQ) := by
  cases hs with
  | probe _ hs _ => left; exact ⟨by simp, rfl, Or.inl hs⟩
  | setPrm up _ hs hu => right; left; exact ⟨by simp, hs, up, hu, rfl⟩
  | chkCfg c _ hs hu => right; right; left; exact ⟨by simp, hs, hu⟩
  | validate _ hs => left; exact ⟨by simp, rfl, Or.inr (Or.inl hs)⟩
  | dxDiag _ hs hd => left; exact ⟨by simp, rfl, Or.inr (Or.inr ⟨hs, hd⟩)⟩
  | dx _ hs hd => right; right; right; exact ⟨by simp, hs, hd, rfl⟩


/-! ## Process images -/

def slotPiI (m : Master) (j : Nat) : Option Bytes := (m.slots.getD j none).map (·.piI)
def slotPiQ (m : Master) (j : Nat) : Option Bytes := (m.slots.getD j none).map (·.piQ)

theorem getD_of_getElem? {l : List (Option Peripheral)} {j : Nat} : l.getD j none = (l[j]?).getD none := by
  rw [List.getD_eq_getElem?_getD]

theorem tx_images {fp : FdlParams} {op : OpState} {p : Peripheral} {r : PTx} (h : TxSpec fp op p r) :
    ∀ p', r.after = some p' → p'.piI = p.piI ∧ p'.piQ = p.piQ ∧ p'.address = p.address := by
  intro p' hp'
  cases h <;> (simp only [PTx.after, Option.some.injEq] at hp'; subst hp'; exact ⟨rfl, rfl, rfl⟩)

/-- What `receive_reply` does to the images: `pi_q` never changes; `pi_i` only in the `dxData` case. -/
theorem rx_images {p p' : Peripheral} {t : Telegram} {ev : Option PEvent} (h : RxSpec p t p' ev) :
    p'.piQ = p.piQ ∧ p'.address = p.address ∧
    (p'.piI = p.piI ∨
      ∃ hd pdu st ss, t = .data hd pdu ∧ (p.state = .preDataExchange ∨ p.state = .dataExchange) ∧
        p.diagInFlight = false ∧ hd.fc = .response st ss ∧ dataOkStatus ss = true ∧
        hd.dsap = none ∧ hd.ssap = none ∧ pdu.length = p.piI.length ∧ p'.piI = pdu) := by
  cases h
  case dxData hd pdu st ss h1 h2 h3 h4 h5 h6 h7 =>
    exact ⟨rfl, rfl, Or.inr ⟨hd, pdu, st, ss, rfl, h1, h2, h3, h4, h5, h6, h7, rfl⟩⟩
  all_goals exact ⟨rfl, rfl, Or.inl rfl⟩

theorem slot_of_declined {fp : FdlParams} {m m' : Master} (hD : Declined fp m m') (j : Nat) :
    slotPiI m' j = slotPiI m j ∧ slotPiQ m' j = slotPiQ m j := by
  have hf := decSlot_fwd (hD.slot j)
  unfold slotPiI slotPiQ
  rw [getD_of_getElem?, getD_of_getElem?]
  cases hx : m.slots[j]? with
  | none => rw [hf.1 hx]; exact ⟨rfl, rfl⟩
  | some o =>
    cases o with
    | none => rw [hf.2.1 hx]; exact ⟨rfl, rfl⟩
    | some p =>
      obtain ⟨p', hp', he⟩ := hf.2.2 p hx
      rw [hp']
      simp only [Option.getD_some, Option.map_some]
      rw [he]; exact ⟨rfl, rfl⟩

theorem slot_of_set {m : Master} {i : Nat} {p q : Peripheral} (hi : m.slots[i]? = some (some p))
    (m' : Master) (hs : m'.slots = m.slots.set i (some q)) (j : Nat) :
    (q.piI = p.piI → slotPiI m' j = slotPiI m j) ∧ (q.piQ = p.piQ → slotPiQ m' j = slotPiQ m j) ∧
    (j ≠ i → m'.slots[j]? = m.slots[j]?) ∧ (j = i → slotPiI m' j = some q.piI ∧ slotPiQ m' j = some q.piQ) := by
  have hl : i < m.slots.length := by
    rcases Nat.lt_or_ge i m.slots.length with h | h
    · exact h
    · rw [List.getElem?_eq_none h] at hi; cases hi
  unfold slotPiI slotPiQ
  rw [getD_of_getElem?, getD_of_getElem?, hs, List.getElem?_set]
  by_cases hij : i = j
  · subst hij
    simp only [hl, if_true, hi, Option.getD_some, Option.map_some, Option.some.injEq]
    exact ⟨fun h => h, fun h => h, fun h => absurd rfl h, fun _ => by simp⟩
  · simp only [hij, if_false]
    exact ⟨fun _ => by simp, fun _ => by simp, fun _ => by simp, fun h => absurd h.symm hij⟩


/-- What a delivered reply does (`reply_elim`, first case) as a predicate on the successor state. -/
def Delivered (fp : FdlParams) (g : G) (a : UInt8) (t : Telegram) (g' : G) : Prop :=
  ∃ index i p p' ev, g.out = some a ∧ g.m.cycle = .dx index ∧ curSlot g.m.slots index = some (i, p) ∧
    p.address = a ∧ replyAllowed fp.address a t = true ∧ RxSpec p t p' ev ∧
    g' = { g with m := afterReply g.m index i p p' ev, out := none,
                  collected := g.collected && !g.dirty, dirty := true, staleEv := false,
                  o := .replied i ev, sg := g.upd i (sgReply t p p'),
                  produced := g.produced ++ (ev.map fun e => ({ index := i, address := p.address, ev := e } : HEvent)).toList }

/-- A stale reply (the peripheral at the cycle index was given another address while its request was
in flight): nothing but the contract automaton changes. -/
def Stale (g : G) (a : UInt8) (g' : G) : Prop :=
  ∃ index i p, g.out = some a ∧ g.m.cycle = .dx index ∧ curSlot g.m.slots index = some (i, p) ∧
    p.address ≠ a ∧ g' = { g with out := none, o := .ignored }

/-- `reply_elim` as a disjunction. -/
theorem reply_cases {fp : FdlParams} {g g' : G} (hI : Inv fp g) {a : UInt8} {t : Telegram}
    (h : gstep fp g (.reply a t) = .ok g') : Delivered fp g a t g' ∨ Stale g a g' := by
  refine reply_elim hI h (fun g' => Delivered fp g a t g' ∨ Stale g a g') ?_ ?_
  · intro index i p p' ev h1 h2 h3 h4 h5 h6
    exact Or.inl ⟨index, i, p, p', ev, h1, h2, h3, h4, h5, h6, rfl⟩
  · intro index i p h1 h2 h3 h4
    exact Or.inr ⟨index, i, p, h1, h2, h3, h4, rfl⟩

/-- `tainted` is sticky. -/
theorem tainted_mono {fp : FdlParams} {g g' : G} (op : Op) (h : gstep fp g op = .ok g')
    (hu : g'.tainted = false) : g.tainted = false := by
  cases hg : g.tainted with
  | false => rfl
  | true =>
    exfalso
    have : g'.tainted = true := by
      cases op with
      | tx now hp =>
        simp only [gstep] at h
        split at h
        · cases h
        · split at h
          · cases h
          · cases h
          · split at h <;> (simp only [Res3.ok.injEq] at h; subst h; exact hg)
          · split at h
            · simp only [Res3.ok.injEq] at h; subst h; exact hg
            · split at h <;> (simp only [Res3.ok.injEq] at h; subst h; exact hg)
      | reply a t =>
        simp only [gstep] at h
        split at h
        · cases h
        · split at h
          · cases h
          · split at h
            · split at h <;> (simp only [Res3.ok.injEq] at h; subst h; exact hg)
            · simp only [Res3.ok.injEq] at h; subst h; exact hg
      | timeout a =>
        simp only [gstep] at h
        split at h
        · cases h
        · simp only [Res3.ok.injEq] at h; subst h; exact hg
      | take => simp only [gstep, Master.takeLastEvents, Res3.ok.injEq] at h; subst h; exact hg
      | writeQ slot bs =>
        simp only [gstep] at h
        split at h
        · simp only [Res3.ok.injEq] at h; subst h; exact hg
        · cases h
      | diagReq slot =>
        simp only [gstep] at h
        split at h
        · simp only [Res3.ok.injEq] at h; subst h; exact hg
        · cases h
      | resetAddr slot a =>
        simp only [gstep] at h
        split at h
        · cases h
        · split at h
          · simp only [Res3.ok.injEq] at h; subst h; simp [hg]
          · cases h
    rw [hu] at this; cases this

/-- `DataExchanged` is produced exactly by an acceptable reply to an outstanding Data_Exchange request. -/
theorem rx_event_iff {p p' : Peripheral} {t : Telegram} {ev : Option PEvent} (h : RxSpec p t p' ev) :
    ev = some .dataExchanged ↔
      ((p.state = .preDataExchange ∨ p.state = .dataExchange) ∧ p.diagInFlight = false ∧
        acceptable .dx p.piI.length t = true) := by
  cases h
  case dxSaps hd pdu st ss hs hdf hfc hok hsap =>
    simp only [reduceCtorEq, acceptable, hfc, hok, Bool.true_and, Bool.and_eq_true, beq_iff_eq, false_iff, not_and]
    intro _ _ h1
    rcases hsap with h | h
    · exact absurd h1.1 h
    · exact absurd h1.2 h
  all_goals simp_all [acceptable, dataOkStatus]


/-- Properties of a peripheral that survive declines are preserved along `DecSlot`. -/
theorem decSlot_pres {fp : FdlParams} {op : OpState} (J : Peripheral → Prop)
    (hstep : ∀ p, J p → TxSpec fp op p (.decline { p with retry := 0 } none) → J { p with retry := 0 })
    {x y : Option (Option Peripheral)} (h : DecSlot fp op x y) :
    ∀ p, x = some (some p) → J p → ∃ p', y = some (some p') ∧ J p' := by
  induction h with
  | refl x => intro p hx hJ; exact ⟨p, hx, hJ⟩
  | step p0 y ht _ ih =>
    intro p hx hJ
    simp only [Option.some.injEq] at hx
    subst hx
    exact ih _ rfl (hstep _ hJ ht)

/-- Transfer of a per-slot invariant from `m` to a master that differs by declines. -/
theorem declined_pres {fp : FdlParams} {m m' : Master} (hD : Declined fp m m') (J : Nat → Peripheral → Prop)
    (hstep : ∀ i p, J i p → TxSpec fp m.op p (.decline { p with retry := 0 } none) → J i { p with retry := 0 })
    (hJ : ∀ (i : Nat) (p : Peripheral), m.slots[i]? = some (some p) → J i p) :
    ∀ (i : Nat) (p' : Peripheral), m'.slots[i]? = some (some p') → J i p' := by
  intro i p' hp'
  obtain ⟨p, hp, _⟩ := decSlot_back (hD.slot i) hp'
  obtain ⟨p'', hp'', hJ''⟩ := decSlot_pres (J i) (hstep i) (hD.slot i) p hp (hJ i p hp)
  rw [hp'] at hp''
  simp only [Option.some.injEq] at hp''
  subst hp''
  exact hJ''

/-- Per-slot invariant after replacing the peripheral of slot `i`. -/
theorem set_pres {slots : List (Option Peripheral)} {i : Nat} {q : Peripheral} (J J' : Nat → Peripheral → Prop)
    (hJ : ∀ (j : Nat) (p : Peripheral), slots[j]? = some (some p) → J j p)
    (hi : J' i q) (hother : ∀ j p, j ≠ i → J j p → J' j p) :
    ∀ (j : Nat) (p : Peripheral), (slots.set i (some q))[j]? = some (some p) → J' j p := by
  intro j p hj
  rw [List.getElem?_set] at hj
  by_cases hij : i = j
  · subst hij
    by_cases hl : i < slots.length
    · simp only [hl, if_true, Option.some.injEq] at hj; subst hj; exact hi
    · simp [hl] at hj
  · simp only [hij, if_false] at hj
    exact hother j p (fun h => hij h.symm) (hJ j p hj)

theorem upd_same (g : G) (i : Nat) (f : SG → SG) : g.upd i f i = f (g.sg i) := by simp [G.upd]
theorem upd_other (g : G) {i j : Nat} (f : SG → SG) (h : j ≠ i) : g.upd i f j = g.sg j := by simp [G.upd, h]


/-- The four shapes of a `tx` step (`tx_elim` as a disjunction). -/
inductive TxForm (fp : FdlParams) (g : G) (now : Int) (hp : Bool) : G → Prop
  | gc : hp = false → gcDue fp now g.m.lastGc = some true → timeB now →
      TxForm fp g now hp { g.polled now { g.m with lastGc := some now, lastEvents := {} } with
          out := none, o := .gc (gcHeader fp) [0x00, 0x00] }
  | idle (m' : Master) : Declined fp g.m m' → MInv fp m' → m'.lastEvents.peripheral = none →
      (hp = true ∨ gcDue fp now g.m.lastGc = some false) →
      TxForm fp g now hp { g.polled now m' with out := none, o := .idle }
  | send (m1 : Master) (i : Nat) (p p' : Peripheral) (h : Header) (pdu : Bytes) :
      Declined fp g.m m1 → MInv fp m1 → m1.cur = some (i, p) →
      TxSpec fp .operate p (.send p' h pdu) → (hp = true ∨ gcDue fp now g.m.lastGc = some false) →
      TxForm fp g now hp { g.polled now { m1 with slots := m1.slots.set i (some p'), lastEvents := {} } with
          out := some p.address, o := .sent i h pdu, sg := g.upd i (sgSend h p') }
  | off (m1 : Master) (index i : Nat) (p : Peripheral) :
      Declined fp g.m m1 → MInv fp m1 → m1.cycle = .dx index →
      curSlot m1.slots index = some (i, p) → fp.maxRetry < p.retry →
      (hp = true ∨ gcDue fp now g.m.lastGc = some false) →
      TxForm fp g now hp
        { g.polled now (afterDecline m1 index i p { p with state := .offline, fcb := .first, retry := 0 } (some .offline)) with
          out := none, o := .idle, sg := g.upd i sgOffline,
          produced := g.produced ++ [{ index := i, address := p.address, ev := .offline }] }

theorem tx_form {fp : FdlParams} (hfp : FpOk fp) {g g' : G} (hI : Inv fp g) {now : Int} {hp : Bool}
    (h : gstep fp g (.tx now hp) = .ok g') : TxForm fp g now hp g' :=
  tx_elim hfp hI h (TxForm fp g now hp) (fun a b c => .gc a b c) (fun m' a b c d => .idle m' a b c d)
    (fun m1 i p p' h pdu a b c d e => .send m1 i p p' h pdu a b c d e)
    (fun m1 index i p a b c d e f => .off m1 index i p a b c d e f)


/-! ## A concrete configuration for the non-vacuity examples -/
namespace Ex

def fp : FdlParams := { address := 2, slotUs := 5208, maxRetry := 1, minTsdr := 11, watchdog := some (1, 10) }
def opts : Options :=
  { ident := 0x80b1, sync := false, freeze := true, groups := 3, userPrm := some [1, 2, 3], config := some [0x11, 0x21] }
/-- Peripheral #7 with one input byte, two output bytes and a 16-byte diagnostics buffer. -/
def p7 : Peripheral := Peripheral.new 7 opts [0] [0, 0] 16
/-- A sparse storage: slot 0 empty, the peripheral in slot 1. -/
def slots : List (Option Peripheral) := [none, some p7]

theorem fp_ok : FpOk fp := ⟨by decide, by decide, by decide, by decide⟩

theorem init_ok : InitOk fp slots where
  len := by decide
  fresh := by
    intro i p hi
    have hp : p = p7 := by
      match i, hi with
      | 1, hi => simpa [slots] using hi.symm
    subst hp
    exact ⟨pinv_new fp 7 opts [0] [0, 0] 16 (by intro up h; simp [opts] at h; subst h; decide)
      (by intro c h; simp [opts] at h; subst h; decide) (by decide) (by decide), rfl, rfl, rfl, rfl, rfl⟩

def diagReply (b0 b1 : UInt8) : Telegram :=
  .data ⟨2, 7, some 62, some 60, .response .slave .dataLow⟩ [b0, b1, 0, 2, 0x80, 0xb1]
def dxReply (bs : Bytes) : Telegram := .data ⟨2, 7, none, none, .response .slave .dataLow⟩ bs

/-- Global control, probe, Online, Set_Prm, Chk_Cfg, readiness confirmed: the peripheral is in
`PreDataExchange` afterwards. -/
def bringUp : List Op :=
  [.tx 1000 false, .take, .tx 2000 false, .take, .reply 7 (diagReply 0x02 0x05), .take,
   .tx 3000 false, .take, .tx 4000 false, .take, .reply 7 .sc, .take,
   .tx 5000 false, .take, .tx 6000 false, .take, .reply 7 .sc, .take,
   .tx 7000 false, .take, .tx 8000 false, .take, .reply 7 (diagReply 0x00 0x04), .take,
   .tx 9000 false, .take]

end Ex

end PV.Dp
