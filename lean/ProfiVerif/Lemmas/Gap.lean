/-
Helper lemmas for the GAP sweep (C12): cyclic offsets from TS.
-/
import ProfiVerif.Model.Gap

namespace PV

/-- Cyclic successor below HSA, as `next_gap_poll` computes it. -/
def succAddr (hsa c : Nat) : Nat := if c = hsa - 1 then 0 else c + 1

/-- Cyclic offset of address `x` from `ts` (going upwards, wrapping at `hsa`). -/
def off (ts hsa x : Nat) : Nat := if x ≥ ts then x - ts else x + hsa - ts

theorem off_succ (ts hsa c : Nat) (hts : ts < hsa) (hc : c < hsa) (hne : succAddr hsa c ≠ ts) :
    off ts hsa (succAddr hsa c) = off ts hsa c + 1 := by
  unfold off succAddr at *
  by_cases h1 : c = hsa - 1
  · simp only [if_pos h1] at hne ⊢
    repeat' split
    all_goals omega
  · simp only [if_neg h1] at hne ⊢
    repeat' split
    all_goals omega

theorem succ_lt (hsa c : Nat) (hc : c < hsa) : succAddr hsa c < hsa := by
  unfold succAddr; split <;> omega

theorem off_lt (ts hsa x : Nat) (hts : ts < hsa) (hx : x < hsa) : off ts hsa x < hsa := by
  unfold off; split <;> omega

theorem off_zero_iff (ts hsa x : Nat) (hts : ts < hsa) (hx : x < hsa) : off ts hsa x = 0 ↔ x = ts := by
  unfold off; split <;> omega

/-- The GAP is a cyclic interval that starts right behind TS: it is closed under going back
towards TS. -/
theorem inGap_prefix (ts ns hsa x y : Nat) (hts : ts < hsa) (hy : y < hsa) (hyts : y ≠ ts)
    (hx : InGap ts ns hsa x) (hle : off ts hsa y ≤ off ts hsa x) : InGap ts ns hsa y := by
  unfold InGap off at *
  obtain ⟨hx1, hx2, hx3⟩ := hx
  refine ⟨hy, hyts, ?_⟩
  split at hx3
  · rw [if_pos (by assumption)]
    split at hle <;> split at hle <;> omega
  · split at hx3
    · rw [if_neg (by assumption), if_pos (by assumption)]
      split at hle <;> split at hle <;> omega
    · rw [if_neg (by assumption), if_neg (by assumption)]; trivial

/-- The code's in-GAP test agrees with the specification. -/
theorem nextGapPoll_eq (ts ns hsa cur : Nat) (hh : 0 < hsa) (hh2 : hsa ≤ 126) (hc : cur < hsa) :
    nextGapPoll ts ns hsa cur =
      if InGap ts ns hsa (succAddr hsa cur) then .poll (succAddr hsa cur) else .waiting := by
  have hs := succ_lt hsa cur hc
  unfold nextGapPoll
  rw [if_neg (by omega), if_neg (by omega)]
  simp only
  have e : (if cur = hsa - 1 then 0 else cur + 1) = succAddr hsa cur := rfl
  rw [e]
  unfold InGap
  generalize succAddr hsa cur = nx at hs ⊢
  by_cases h1 : ns > ts
  · have h1' : ts < ns := h1
    simp only [h1, h1', if_true, decide_eq_true_eq]
    by_cases hg : nx > ts ∧ nx < ns
    · have : nx < hsa ∧ nx ≠ ts ∧ ts < nx ∧ nx < ns := ⟨hs, by omega, hg.1, hg.2⟩
      rw [if_pos hg, if_pos this]
    · have : ¬ (nx < hsa ∧ nx ≠ ts ∧ ts < nx ∧ nx < ns) := fun h => hg ⟨h.2.2.1, h.2.2.2⟩
      rw [if_neg hg, if_neg this]
  · have h1' : ¬ ts < ns := h1
    by_cases h2 : ns < ts
    · simp only [h1, h1', h2, if_true, if_false, decide_eq_true_eq]
      by_cases hg : nx > ts ∨ nx < ns
      · have : nx < hsa ∧ nx ≠ ts ∧ (ts < nx ∨ nx < ns) := ⟨hs, by omega, hg⟩
        rw [if_pos hg, if_pos this]
      · have : ¬ (nx < hsa ∧ nx ≠ ts ∧ (ts < nx ∨ nx < ns)) := fun h => hg h.2.2
        rw [if_neg hg, if_neg this]
    · simp only [h1, h1', h2, if_false, decide_eq_true_eq]
      by_cases hg : nx ≠ ts
      · have : nx < hsa ∧ nx ≠ ts ∧ True := ⟨hs, hg, trivial⟩
        rw [if_pos hg, if_pos this]
      · have : ¬ (nx < hsa ∧ nx ≠ ts ∧ True) := fun h => hg h.2.1
        rw [if_neg hg, if_neg this]

end PV
