/-
Sequences of fault-free turns of a master with several peripherals (property C07): the cycle index walks
through the slots round-robin, every non-broadcast turn moves it on, so after `K (n + 1) + n` non-broadcast
turns every slot has been visited at least `K` times.
-/
import ProfiVerif.Lemmas.DpLiveN

namespace PV.Live
open PV PV.Dp

theorem quiet_add : ∀ (a b : Nat) {j j1 j2 : PJ} {e1 e2 : List PEvent}, j.quiet a = some (j1, e1) →
    j1.quiet b = some (j2, e2) → j.quiet (a + b) = some (j2, e1 ++ e2) := by
  intro a
  induction a with
  | zero =>
    intro b j j1 j2 e1 e2 h1 h2
    simp only [PJ.quiet, Option.some.injEq, Prod.mk.injEq] at h1
    obtain ⟨rfl, rfl⟩ := h1
    simpa using h2
  | succ a ih =>
    intro b j j1 j2 e1 e2 h1 h2
    rw [Nat.add_right_comm]
    simp only [PJ.quiet] at h1 ⊢
    cases hv : j.visit false .ok with
    | none => rw [hv] at h1; cases h1
    | some x =>
      obtain ⟨jx, ev⟩ := x
      rw [hv] at h1
      simp only at h1 ⊢
      cases hq : jx.quiet a with
      | none => rw [hq] at h1; cases h1
      | some y =>
        obtain ⟨jy, evs⟩ := y
        rw [hq] at h1
        simp only [Option.some.injEq, Prod.mk.injEq] at h1
        obtain ⟨rfl, rfl⟩ := h1
        rw [ih b hq h2]
        simp [List.append_assoc]

/-- Position of the cycle index: slots below it have had their visit in the current cycle. -/
def posOf (n : Nat) : Cycle → Nat
  | .dx i => i
  | .completed => n

def ind (b : Prop) [Decidable b] : Nat := if b then 1 else 0

/-- Progress from `(J0, ps0)` to `(J, ps)` with `nb` non-broadcast turns: for some number `c` of cycle
wrap-arounds, slot `l` has had at least `c + [l < pos] - [l < pos0]` fault-free visits, and
`nb + pos0 ≤ c (n + 1) + pos`. -/
def Progress (n : Nat) (J0 : JointN) (ps0 : List Peripheral) (J : JointN) (ps : List Peripheral) (nb : Nat) : Prop :=
  ∃ c, (∀ l, l < n → ∃ v evs, (pjAt J0.fp ps0 J0.ss l).quiet v = some (pjAt J0.fp ps J.ss l, evs) ∧
          c + ind (l < posOf n J.m.cycle) ≤ v + ind (l < posOf n J0.m.cycle)) ∧
    nb + posOf n J0.m.cycle ≤ c * (n + 1) + posOf n J.m.cycle

theorem progress_refl (n : Nat) (J : JointN) (ps : List Peripheral) : Progress n J ps J ps 0 :=
  ⟨0, fun l _ => ⟨0, [], rfl, by omega⟩, by omega⟩

theorem progress_trans {n : Nat} {J0 J1 J2 : JointN} {ps0 ps1 ps2 : List Peripheral} {a b : Nat}
    (hfp : J1.fp = J0.fp) (h1 : Progress n J0 ps0 J1 ps1 a) (h2 : Progress n J1 ps1 J2 ps2 b) :
    Progress n J0 ps0 J2 ps2 (a + b) := by
  obtain ⟨c1, hv1, hn1⟩ := h1
  obtain ⟨c2, hv2, hn2⟩ := h2
  refine ⟨c1 + c2, ?_, ?_⟩
  · intro l hl
    obtain ⟨v1, e1, q1, i1⟩ := hv1 l hl
    obtain ⟨v2, e2, q2, i2⟩ := hv2 l hl
    rw [hfp] at q2
    exact ⟨v1 + v2, e1 ++ e2, quiet_add v1 v2 q1 q2, by omega⟩
  · rw [Nat.add_mul]; omega

/-- One fault-free turn makes progress: none for a broadcast, one step otherwise. -/
theorem progress_turn {J : JointN} {ps : List Peripheral} {k : Nat} (hN : NGood J ps k) {now : Int} (hnow : timeB now) :
    ∃ J' o ps', J.turn now none .ok = .ok J' o ∧ NGood J' ps' k ∧ J'.fp = J.fp ∧ ps'.length = ps.length ∧
      Progress ps.length J ps J' ps' (if o.isBroadcast then 0 else 1) := by
  obtain ⟨J', o, ps', hturn, hN', hfp, hkind⟩ := turnN_quiet hN hnow
  have hlen : ps'.length = ps.length := by
    rcases hkind with ⟨_, rfl, _, _⟩ | ⟨_, _, _, rfl, _⟩ | ⟨_, i, j, _, _, _, hv, _⟩
    · rfl
    · rfl
    · exact hv.1
  refine ⟨J', o, ps', hturn, hN', hfp, hlen, ?_⟩
  rcases hkind with ⟨hb, rfl, hss, hcy⟩ | ⟨hb, hc, hc', rfl, hss⟩ | ⟨hb, i, j, hc, hij, hj, hv, hcy⟩
  · rw [hb]; simp only [if_true]
    refine ⟨0, fun l _ => ⟨0, [], by rw [hss]; rfl, by rw [hcy]; omega⟩, by rw [hcy]; omega⟩
  · rw [hb]; simp only [Bool.false_eq_true, if_false]
    refine ⟨1, fun l hl => ⟨0, [], by rw [hss]; rfl, ?_⟩, ?_⟩
    · rw [hc, hc']; simp only [posOf, ind, Nat.not_lt_zero, if_false, hl, if_true]; omega
    · rw [hc, hc']; simp only [posOf]; omega
  · rw [hb]; simp only [Bool.false_eq_true, if_false]
    obtain ⟨_, _, hvis, hout⟩ := hv
    -- per-slot visit counts
    have hslot : ∀ l, l < ps.length → ∃ v evs, (pjAt J.fp ps J.ss l).quiet v = some (pjAt J.fp ps' J'.ss l, evs) ∧
        v = ind (i ≤ l ∧ l < j + 1) := by
      intro l hl
      by_cases hr : i ≤ l ∧ l < j + 1
      · obtain ⟨ev, hv⟩ := hvis l hr.1 hr.2
        exact ⟨1, ev.toList ++ [], by simp only [PJ.quiet, hv], by simp [ind, hr]⟩
      · obtain ⟨e1, e2⟩ := hout l (by omega)
        exact ⟨0, [], by simp only [PJ.quiet, pjAt, e1, e2], by simp [ind, hr]⟩
    rcases hcy with ⟨h1, hcy⟩ | ⟨h1, hcy | hcy⟩
    · refine ⟨0, fun l hl => ?_, by rw [hc, hcy]; simp only [posOf]; omega⟩
      obtain ⟨v, evs, hq, hv⟩ := hslot l hl
      refine ⟨v, evs, hq, ?_⟩
      rw [hc, hcy, hv]; simp only [posOf, ind]
      by_cases a1 : l < i <;> by_cases a2 : l < j + 1 <;> by_cases a3 : i ≤ l <;>
        simp only [a1, a2, a3, hl, if_true, if_false, and_true, and_false, true_and, false_and, Nat.not_lt_zero] <;> omega
    · refine ⟨0, fun l hl => ?_, by rw [hc, hcy]; simp only [posOf]; omega⟩
      obtain ⟨v, evs, hq, hv⟩ := hslot l hl
      refine ⟨v, evs, hq, ?_⟩
      rw [hc, hcy, hv]; simp only [posOf, ind]
      by_cases a1 : l < i <;> by_cases a2 : l < j + 1 <;> by_cases a3 : i ≤ l <;>
        simp only [a1, a2, a3, hl, if_true, if_false, and_true, and_false, true_and, false_and, Nat.not_lt_zero] <;> omega
    · refine ⟨1, fun l hl => ?_, by rw [hc, hcy]; simp only [posOf]; omega⟩
      obtain ⟨v, evs, hq, hv⟩ := hslot l hl
      refine ⟨v, evs, hq, ?_⟩
      rw [hc, hcy, hv]; simp only [posOf, ind]
      by_cases a1 : l < i <;> by_cases a2 : l < j + 1 <;> by_cases a3 : i ≤ l <;>
        simp only [a1, a2, a3, hl, if_true, if_false, and_true, and_false, true_and, false_and, Nat.not_lt_zero] <;> omega

/-- Any sequence of fault-free turns. -/
theorem quietTurnsN_progress {k : Nat} : ∀ (nows : List Int), (∀ t ∈ nows, timeB t) →
    ∀ {J : JointN} {ps : List Peripheral}, NGood J ps k →
    ∃ J' os ps', J.quietTurns nows = some (J', os) ∧ NGood J' ps' k ∧ J'.fp = J.fp ∧ ps'.length = ps.length ∧
      os.length = nows.length ∧ Progress ps.length J ps J' ps' (nonBroadcast os) := by
  intro nows
  induction nows with
  | nil => intro _ J ps hN; exact ⟨J, [], ps, rfl, hN, rfl, rfl, rfl, progress_refl _ _ _⟩
  | cons now rest ih =>
    intro ht J ps hN
    obtain ⟨J1, o, ps1, hturn, hN1, hfp1, hl1, hp1⟩ := progress_turn hN (ht now (by simp))
    obtain ⟨J2, os, ps2, hq, hN2, hfp2, hl2, hlen, hp2⟩ := ih (fun t h => ht t (by simp [h])) hN1
    refine ⟨J2, o :: os, ps2, by simp only [JointN.quietTurns, hturn, hq], hN2, by rw [hfp2, hfp1],
      by rw [hl2, hl1], by simp [hlen], ?_⟩
    rw [hl1] at hp2
    have := progress_trans hfp1 hp1 hp2
    have hnb : nonBroadcast (o :: os) = (if o.isBroadcast then 0 else 1) + nonBroadcast os := by
      cases hb : o.isBroadcast <;> simp [nonBroadcast, hb] <;> omega
    rw [hnb]; exact this

/-- The arithmetic behind the bound. -/
theorem count_bound {c pos pos0 n K nb : Nat} (h1 : nb + pos0 ≤ c * (n + 1) + pos) (h2 : pos ≤ n)
    (h3 : K * (n + 1) + n ≤ nb) : K + 1 ≤ c ∨ (c = K ∧ pos0 = 0 ∧ pos = n) := by
  by_cases hc : K + 1 ≤ c
  · exact Or.inl hc
  · right
    by_cases hk : c = K
    · subst hk; omega
    · exfalso
      have hlt : c + 1 ≤ K := by omega
      have := Nat.mul_le_mul_right (n + 1) hlt
      rw [Nat.add_mul, Nat.one_mul] at this
      omega

end PV.Live
