/-
The PEG on canonical text: `SlotDefinition … EndSlotDefinition` with `Slot(n)="name" default allowed`
lines (allowed modules as a range `a-b` or a set `v1,v2,…`), and the comma-separated number sets shared
with `ExtUserPrmData`.
-/
import ProfiVerif.Lemmas.PegTextBlocks

namespace PV.Gsd.Peg

/-! ### `number ("," number)*` -/

def commaItemE : Expr := .seq (.str [',']) (.call .number)

/-- What may follow a number set / range. -/
def SetStop (c : Char) : Prop := NumStop c ∧ c ≠ ',' ∧ c ≠ '-' ∧ NoSkipChar c

instance (c : Char) : Decidable (SetStop c) := by unfold SetStop; infer_instance

theorem commaItem_fail {tail : Str} (hs : Head SetStop tail) (p : Nat) (o : List Pair) :
    Ev false commaItemE (mk tail p o) .fail :=
  Ev.seq_fail (Ev.str_fail (matchStr_single_none (hs.mono fun c hc => hc.2.1)))

theorem commaItem_ok {n : NumTok} (hn : NumCanon n) {rest : Str} (hr : Head NumStop rest) (p : Nat) (o : List Pair) :
    Ev false commaItemE (mk (',' :: (numText n ++ rest)) p o)
      (.ok (mk rest (p + ((numText n).length + 1)) (numPair n :: o))) := by
  have := numCanon_ok hn hr (p + 1) o
  rw [mk_pos (show p + 1 + (numText n).length = p + ((numText n).length + 1) by omega)] at this
  exact Ev.seq (Ev.str_ok (l := [',']) matchStr_single_some) (sk_none (numCanon_head hn _)) this

theorem lp_comma : ∀ (ns : List NumTok) (tail : Str) (p : Nat) (o : List Pair), (∀ n ∈ ns, NumCanon n) →
    Head SetStop tail →
    Lp false commaItemE (mk (commaNums ns ++ tail) p o)
      (.ok (mk tail (p + (commaNums ns).length) ((ns.map numPair).reverse ++ o)))
  | [], tail, p, o, _, hs => Lp.stop (sk_none (hs.mono fun c hc => hc.2.2.2)) (commaItem_fail hs p o)
  | n :: ns, tail, p, o, hn, hs => by
    have hrest : Head NumStop (commaNums ns ++ tail) := head_commaNums_or ns numStop_comma (hs.mono fun c hc => hc.1)
    have h1 := commaItem_ok (hn n (List.mem_cons_self ..)) hrest p o
    have ih := lp_comma ns tail (p + ((numText n).length + 1)) (numPair n :: o)
      (fun m hm => hn m (List.mem_cons_of_mem _ hm)) hs
    rw [mk_pos (show p + ((numText n).length + 1) + (commaNums ns).length = p + (commaNums (n :: ns)).length by
      simp only [commaNums, List.length_cons, List.length_append]; omega)] at ih
    have eo : (ns.map numPair).reverse ++ numPair n :: o = ((n :: ns).map numPair).reverse ++ o := by simp
    rw [eo] at ih
    refine Lp.step (sk_none noSkip_comma) ?_ ih
    simpa only [commaNums, List.cons_append, List.append_assoc] using h1

/-- Body `number ("," number)*` of `slot_value_set` / `prm_data_value_set`, from an empty output. -/
theorem setBody_ok (n : NumTok) (ns : List NumTok) (hn : ∀ m ∈ n :: ns, NumCanon m) (tail : Str) (hs : Head SetStop tail)
    (p : Nat) :
    Ev false (.seq (.call .number) (.star commaItemE)) (mk (listText n ns ++ tail) p [])
      (.ok (mk tail (p + (listText n ns).length) ((n :: ns).map numPair).reverse)) := by
  have hn0 := hn n (List.mem_cons_self ..)
  have hrest : Head NumStop (commaNums ns ++ tail) := head_commaNums_or ns numStop_comma (hs.mono fun c hc => hc.1)
  have h1 := numCanon_ok hn0 hrest p []
  have hsk : Sk false (mk (commaNums ns ++ tail) (p + (numText n).length) [numPair n])
      (.ok (mk (commaNums ns ++ tail) (p + (numText n).length) [numPair n])) :=
    sk_none (head_commaNums_or ns noSkip_comma (hs.mono fun c hc => hc.2.2.2))
  have hstar : Ev false (.star commaItemE) (mk (commaNums ns ++ tail) (p + (numText n).length) [numPair n])
      (.ok (mk tail (p + (listText n ns).length) ((n :: ns).map numPair).reverse)) := by
    cases ns with
    | nil =>
      have := Ev.star_nil (commaItem_fail hs (p + (numText n).length) [numPair n])
      simpa [listText, commaNums] using this
    | cons m ms =>
      have hm := hn m (by simp)
      have hrest2 : Head NumStop (commaNums ms ++ tail) := head_commaNums_or ms numStop_comma (hs.mono fun c hc => hc.1)
      have h2 := commaItem_ok hm hrest2 (p + (numText n).length) [numPair n]
      have h3 := lp_comma ms tail (p + (numText n).length + ((numText m).length + 1)) (numPair m :: [numPair n])
        (fun k hk => hn k (by simp [hk])) hs
      rw [mk_pos (show p + (numText n).length + ((numText m).length + 1) + (commaNums ms).length =
        p + (listText n (m :: ms)).length by
          simp only [listText, commaNums, List.length_cons, List.length_append]; omega)] at h3
      have eo : (ms.map numPair).reverse ++ [numPair m, numPair n] = ((n :: m :: ms).map numPair).reverse := by simp
      rw [eo] at h3
      refine Ev.star_cons ?_ h3
      simpa only [commaNums, List.cons_append, List.append_assoc] using h2
  refine Ev.seq ?_ hsk hstar
  simpa only [listText, List.append_assoc] using h1

/-- Body `number "-" number` of `slot_value_range` / `prm_data_value_range`. -/
theorem rangeBody_ok (a b : NumTok) (ha : NumCanon a) (hb : NumCanon b) (tail : Str) (hs : Head NumStop tail) (p : Nat) :
    Ev false (.seq (.call .number) (.seq (.str ['-']) (.call .number))) (mk (numText a ++ '-' :: (numText b ++ tail)) p [])
      (.ok (mk tail (p + ((numText a).length + 1 + (numText b).length)) [numPair b, numPair a])) := by
  have h1 := numCanon_ok ha (tail := '-' :: (numText b ++ tail)) numStop_minus p []
  have h2 : Ev false (.str ['-']) (mk ('-' :: (numText b ++ tail)) (p + (numText a).length) [numPair a])
      (.ok (mk (numText b ++ tail) (p + (numText a).length + 1) [numPair a])) :=
    Ev.str_ok (l := ['-']) matchStr_single_some
  have h3 := numCanon_ok hb hs (p + (numText a).length + 1) [numPair a]
  rw [mk_pos (show p + (numText a).length + 1 + (numText b).length = p + ((numText a).length + 1 + (numText b).length) by omega)] at h3
  exact Ev.seq h1 (sk_none (show NoSkipChar '-' by unfold NoSkipChar; decide)) (Ev.seq h2 (sk_none (numCanon_head hb _)) h3)

/-- `number "-"` fails to continue when the number is followed by something else (a set, or nothing). -/
theorem rangeBody_fail (n : NumTok) (hn : NumCanon n) (rest : Str) (hr : Head (fun c => NumStop c ∧ c ≠ '-' ∧ NoSkipChar c) rest)
    (p : Nat) : Ev false (.seq (.call .number) (.seq (.str ['-']) (.call .number))) (mk (numText n ++ rest) p []) .fail := by
  have h1 := numCanon_ok hn (tail := rest) (hr.mono fun c hc => hc.1) p []
  exact Ev.seq h1 (sk_none (hr.mono fun c hc => hc.2.2)) (Ev.seq_fail (Ev.str_fail (matchStr_single_none (hr.mono fun c hc => hc.2.1))))

/-! ### Allowed modules of a slot -/

def allowedText : AllowedAst → Str
  | .range a b => numText a ++ '-' :: numText b
  | .set [] => []
  | .set (v :: vs) => listText v vs

def allowedPair (al : AllowedAst) : Pair :=
  match al with
  | .range a b => .node .slot_value_range (allowedText al) [numPair a, numPair b]
  | .set vs => .node .slot_value_set (allowedText al) (vs.map numPair)

def AllowedCanon : AllowedAst → Prop
  | .range a b => NumCanon a ∧ NumCanon b
  | .set vs => vs ≠ [] ∧ ∀ v ∈ vs, NumCanon v

theorem setStop_numStop {tail : Str} (h : Head SetStop tail) : Head NumStop tail := h.mono fun _ hc => hc.1

theorem allowed_ok (al : AllowedAst) (h : AllowedCanon al) (tail : Str) (hs : Head SetStop tail) (p : Nat) (o : List Pair) :
    Ev false (.choice (.call .slot_value_range) (.call .slot_value_set)) (mk (allowedText al ++ tail) p o)
      (.ok (mk tail (p + (allowedText al).length) (allowedPair al :: o))) := by
  cases al with
  | range a b =>
    obtain ⟨ha, hb⟩ := h
    have hb' := rangeBody_ok a b ha hb tail (setStop_numStop hs) p
    have hb3 : Ev false (.seq (.call .number) (.seq (.str ['-']) (.call .number))) (mk (allowedText (.range a b) ++ tail) p [])
        (.ok (mk tail (p + (allowedText (.range a b)).length) [numPair b, numPair a])) := by
      have e : p + ((numText a).length + 1 + (numText b).length) = p + (allowedText (.range a b)).length := by
        simp only [allowedText, List.length_append, List.length_cons]; omega
      rw [mk_pos e] at hb'
      simpa only [allowedText, List.append_assoc, List.cons_append] using hb'
    have hb'' : Ev false (ruleDef .slot_value_range).2 (mk (allowedText (.range a b) ++ tail) p [])
        (.ok (mk tail (p + (allowedText (.range a b)).length) [numPair b, numPair a])) := hb3
    have := Ev.call_node (q := .slot_value_range) (ty := .normal) (st := mk (allowedText (.range a b) ++ tail) p o) rfl (by decide) hb''
    refine Ev.choice_l ?_
    simpa only [mk, take_token (allowedText (.range a b)) tail p, List.reverse_cons, List.reverse_nil, List.nil_append,
      List.singleton_append, allowedPair] using this
  | set vs =>
    obtain ⟨hne, hvs⟩ := h
    cases vs with
    | nil => exact (hne rfl).elim
    | cons v vs =>
      have hv := hvs v (List.mem_cons_self ..)
      have hfail : Ev false (.call .slot_value_range) (mk (allowedText (.set (v :: vs)) ++ tail) p o) .fail := by
        have hf : Ev false (.seq (.call .number) (.seq (.str ['-']) (.call .number)))
            (mk (allowedText (.set (v :: vs)) ++ tail) p []) .fail := by
          have := rangeBody_fail v hv (commaNums vs ++ tail)
            (head_commaNums_or vs (by unfold NoSkipChar; decide) (hs.mono fun c hc => ⟨hc.1, hc.2.2.1, hc.2.2.2⟩)) p
          simpa only [allowedText, listText, List.append_assoc] using this
        exact Ev.call_fail (by decide) hf
      have hb := setBody_ok v vs hvs tail hs p
      have := Ev.call_node (q := .slot_value_set) (ty := .normal) (st := mk (allowedText (.set (v :: vs)) ++ tail) p o) rfl (by decide)
        (show Ev false (ruleDef .slot_value_set).2 _ _ from hb)
      refine Ev.choice_r hfail ?_
      simpa only [mk, take_token (listText v vs) tail p, List.reverse_reverse, allowedPair, allowedText] using this

/-! ### Slot lines -/

def kwSlot : Str := ['S', 'l', 'o', 't']
def kwSlotDef : Str := ['S', 'l', 'o', 't', 'D', 'e', 'f', 'i', 'n', 'i', 't', 'i', 'o', 'n']
def kwEndSlotDef : Str := ['E', 'n', 'd', 'S', 'l', 'o', 't', 'D', 'e', 'f', 'i', 'n', 'i', 't', 'i', 'o', 'n']

def slotText (s : SlotStmt) : Str :=
  kwSlot ++ '(' :: (numText s.number ++ ')' :: '=' :: (s.name ++ ' ' :: (numText s.default ++ ' ' :: allowedText s.allowed)))

def slotPair (s : SlotStmt) : Pair :=
  .node .slot (slotText s) [numPair s.number, strPair s.name, numPair s.default, allowedPair s.allowed]

def SlotCanon (s : SlotStmt) : Prop := NumCanon s.number ∧ StrCanon s.name ∧ NumCanon s.default ∧ AllowedCanon s.allowed

theorem allowed_head {al : AllowedAst} (h : AllowedCanon al) (tail : Str) : Head NoSkipChar (allowedText al ++ tail) := by
  cases al with
  | range a b => simpa only [allowedText, List.append_assoc] using numCanon_head h.1 _
  | set vs =>
    cases vs with
    | nil => exact (h.1 rfl).elim
    | cons v vs => simpa only [allowedText, listText, List.append_assoc] using numCanon_head (h.2 v (List.mem_cons_self ..)) _

theorem slot_ok (s : SlotStmt) (h : SlotCanon s) (tail : Str) (hs : Head SetStop tail) (p : Nat) (o : List Pair) :
    Ev false (.call .slot) (mk (slotText s ++ tail) p o) (.ok (mk tail (p + (slotText s).length) (slotPair s :: o))) := by
  obtain ⟨hn, hname, hd, hal⟩ := h
  obtain ⟨number, name, dflt, allowed⟩ := s
  simp only at hn hname hd hal
  have body : Ev false (ruleDef .slot).2 (mk (slotText ⟨number, name, dflt, allowed⟩ ++ tail) p [])
      (.ok (mk tail (p + (slotText ⟨number, name, dflt, allowed⟩).length)
        [allowedPair allowed, numPair dflt, strPair name, numPair number])) := by
    show Ev false (.seq (.insens (kwSlot.map Char.toLower)) (.seq (.str ['(']) (.seq (.call .number) (.seq (.str [')'])
      (.seq (.str ['=']) (.seq (.call .string_literal) (.seq (.call .number)
      (.choice (.call .slot_value_range) (.call .slot_value_set))))))))) _ _
    let A := allowedText allowed ++ tail
    have h1 := insens_lit_ok (a := false) kwSlot ('(' :: (numText number ++ ')' :: '=' :: (name ++ ' ' :: (numText dflt ++ ' ' :: A)))) p []
    have h2 : Ev false (.str ['(']) (mk ('(' :: (numText number ++ ')' :: '=' :: (name ++ ' ' :: (numText dflt ++ ' ' :: A)))) (p + kwSlot.length) [])
        (.ok (mk (numText number ++ ')' :: '=' :: (name ++ ' ' :: (numText dflt ++ ' ' :: A))) (p + kwSlot.length + 1) [])) :=
      Ev.str_ok (l := ['(']) matchStr_single_some
    have h3 := numCanon_ok hn (tail := ')' :: '=' :: (name ++ ' ' :: (numText dflt ++ ' ' :: A))) (show NumStop ')' by decide) (p + kwSlot.length + 1) []
    have h4 : Ev false (.str [')']) (mk (')' :: '=' :: (name ++ ' ' :: (numText dflt ++ ' ' :: A))) (p + kwSlot.length + 1 + (numText number).length) [numPair number])
        (.ok (mk ('=' :: (name ++ ' ' :: (numText dflt ++ ' ' :: A))) (p + kwSlot.length + 1 + (numText number).length + 1) [numPair number])) :=
      Ev.str_ok (l := [')']) matchStr_single_some
    have h5 : Ev false (.str ['=']) (mk ('=' :: (name ++ ' ' :: (numText dflt ++ ' ' :: A))) (p + kwSlot.length + 1 + (numText number).length + 1) [numPair number])
        (.ok (mk (name ++ ' ' :: (numText dflt ++ ' ' :: A)) (p + kwSlot.length + 1 + (numText number).length + 1 + 1) [numPair number])) :=
      Ev.str_ok (l := ['=']) matchStr_single_some
    have h6 := strCanon_ok hname (' ' :: (numText dflt ++ ' ' :: A)) (p + kwSlot.length + 1 + (numText number).length + 1 + 1) [numPair number]
    have s6 := sk_blank (rest := numText dflt ++ ' ' :: A) (p := p + kwSlot.length + 1 + (numText number).length + 1 + 1 + name.length)
      (o := [strPair name, numPair number]) (numCanon_head hd _)
    have h7 := numCanon_ok hd (tail := ' ' :: A) (show NumStop ' ' by decide)
      (p + kwSlot.length + 1 + (numText number).length + 1 + 1 + name.length + 1) [strPair name, numPair number]
    have s7 := sk_blank (rest := A) (p := p + kwSlot.length + 1 + (numText number).length + 1 + 1 + name.length + 1 + (numText dflt).length)
      (o := [numPair dflt, strPair name, numPair number]) (allowed_head hal tail)
    have h8 := allowed_ok allowed hal tail hs
      (p + kwSlot.length + 1 + (numText number).length + 1 + 1 + name.length + 1 + (numText dflt).length + 1)
      [numPair dflt, strPair name, numPair number]
    rw [mk_pos (show p + kwSlot.length + 1 + (numText number).length + 1 + 1 + name.length + 1 + (numText dflt).length + 1 +
        (allowedText allowed).length = p + (slotText ⟨number, name, dflt, allowed⟩).length by
          simp only [slotText, List.length_append, List.length_cons]; omega)] at h8
    have := Ev.seq h1 (sk_none (show NoSkipChar '(' by unfold NoSkipChar; decide))
      (Ev.seq h2 (sk_none (numCanon_head hn _))
        (Ev.seq h3 (sk_none (show NoSkipChar ')' by unfold NoSkipChar; decide))
          (Ev.seq h4 (sk_none (show NoSkipChar '=' by unfold NoSkipChar; decide))
            (Ev.seq h5 (sk_none (strCanon_head hname _))
              (Ev.seq h6 s6 (Ev.seq h7 s7 h8))))))
    simpa only [slotText, List.append_assoc, List.cons_append, A] using this
  have := Ev.call_node (q := .slot) (ty := .normal) (st := mk (slotText ⟨number, name, dflt, allowed⟩ ++ tail) p o) rfl (by decide) body
  simpa only [mk, take_token (slotText ⟨number, name, dflt, allowed⟩) tail p, List.reverse_cons, List.reverse_nil,
    List.nil_append, List.singleton_append, List.cons_append, slotPair] using this

def slotLine (s : SlotStmt) : BlockLine := ⟨slotText s ++ ['\n'], [slotPair s]⟩

theorem setStop_lf : SetStop '\n' := by unfold SetStop NumStop NoSkipChar IsDigit; decide

theorem slotLine_good (s : SlotStmt) (h : SlotCanon s) : (slotLine s).Good (.seq (.call .slot) (.plus .newline)) where
  starts := ⟨'S', _, rfl, by decide⟩
  parses := by
    intro rest p o hrest
    have h1 := slot_ok s h ('\n' :: rest) setStop_lf p o
    have h2 := nls_ok hrest (p + (slotText s).length) (slotPair s :: o)
    rw [mk_pos (show p + (slotText s).length + 1 = p + (slotLine s).text.length by
      simp only [slotLine, List.length_append, List.length_cons, List.length_nil]; omega)] at h2
    have := Ev.seq h1 (sk_lf _ _ _) h2
    simpa only [slotLine, List.append_assoc, List.singleton_append, List.reverse_cons, List.reverse_nil,
      List.nil_append] using this

/-! ### `SlotDefinition` -/

def slotDefText (ss : List SlotStmt) : Str := kwSlotDef ++ '\n' :: (blockText (ss.map slotLine) ++ kwEndSlotDef)

def slotDefPair (ss : List SlotStmt) : Pair := .node .slot_definition (slotDefText ss) (ss.map slotPair)

theorem flatMap_slotLines (ss : List SlotStmt) : (ss.map slotLine).flatMap (·.pairs) = ss.map slotPair := by
  induction ss with
  | nil => rfl
  | cons s ss ih => simp [List.flatMap_cons, slotLine, ih]

theorem slotDef_ok (ss : List SlotStmt) (h : ∀ s ∈ ss, SlotCanon s) (tail : Str) (p : Nat) (o : List Pair) :
    Ev false (.call .slot_definition) (mk (slotDefText ss ++ tail) p o)
      (.ok (mk tail (p + (slotDefText ss).length) (slotDefPair ss :: o))) := by
  have hgood : ∀ m ∈ ss.map slotLine, m.Good (.seq (.call .slot) (.plus .newline)) := by
    intro m hm
    obtain ⟨k, hk, rfl⟩ := List.mem_map.mp hm
    exact slotLine_good k (h k hk)
  have hendStarts : Starts (kwEndSlotDef ++ tail) := ⟨'E', _, rfl, by decide⟩
  have hend : ∀ p o, Ev false (.seq (.call .slot) (.plus .newline)) (mk (kwEndSlotDef ++ tail) p o) .fail := by
    intro p o
    refine Ev.seq_fail (Ev.call_fail (by decide) ?_)
    show Ev false (.seq (.insens (kwSlot.map Char.toLower)) _) _ _
    exact Ev.seq_fail (Ev.insens_fail (matchInsens_clash tail (by decide)))
  have body : Ev false (ruleDef .slot_definition).2 (mk (slotDefText ss ++ tail) p [])
      (.ok (mk tail (p + (slotDefText ss).length) (blockOut (ss.map slotLine) []))) := by
    show Ev false (.seq (.insens (kwSlotDef.map Char.toLower)) (.seq (.plus .newline)
      (.seq (.star (.seq (.call .slot) (.plus .newline))) (.insens (kwEndSlotDef.map Char.toLower))))) _ _
    let B := blockText (ss.map slotLine)
    have h1 := insens_lit_ok (a := false) kwSlotDef ('\n' :: (B ++ (kwEndSlotDef ++ tail))) p []
    have h2 := nls_ok (rest := B ++ (kwEndSlotDef ++ tail)) (starts_block hgood hendStarts) (p + kwSlotDef.length) []
    have h3 := star_block hendStarts hend (ss.map slotLine) (p + kwSlotDef.length + 1) [] hgood
    have h4 := insens_lit_ok (a := false) kwEndSlotDef tail (p + kwSlotDef.length + 1 + B.length) (blockOut (ss.map slotLine) [])
    rw [mk_pos (show p + kwSlotDef.length + 1 + B.length + kwEndSlotDef.length = p + (slotDefText ss).length by
      simp only [slotDefText, List.length_append, List.length_cons, B]; omega)] at h4
    have := Ev.seq h1 (sk_lf _ _ _) (Ev.seq h2 (sk_none (starts_block hgood hendStarts).noSkip)
      (Ev.seq h3 (sk_none hendStarts.noSkip) h4))
    simpa only [slotDefText, List.append_assoc, List.cons_append, B] using this
  have := Ev.call_node (q := .slot_definition) (ty := .normal) (st := mk (slotDefText ss ++ tail) p o) rfl (by decide) body
  have hch : (blockOut (ss.map slotLine) []).reverse = ss.map slotPair := by
    rw [blockOut_eq, List.append_nil, List.reverse_reverse, flatMap_slotLines]
  simpa only [mk, take_token (slotDefText ss) tail p, hch, slotDefPair] using this

theorem slots_pairs : ∀ (ss : List SlotStmt), (∀ s ∈ ss, SlotCanon s) → slots? (ss.map slotPair) = some ss
  | [], _ => rfl
  | s :: ss, h => by
    obtain ⟨hn, hname, hd, hal⟩ := h s (List.mem_cons_self ..)
    have ih := slots_pairs ss (fun m hm => h m (List.mem_cons_of_mem _ hm))
    obtain ⟨number, name, dflt, allowed⟩ := s
    simp only at hn hname hd hal
    cases allowed with
    | range a b =>
      simp [slots?, slotPair, Pair.rule, Pair.children, numTok_numPair hn, numTok_numPair hd, allowedPair,
        numTok_numPair hal.1, numTok_numPair hal.2, ih]
    | set vs =>
      simp [slots?, slotPair, Pair.rule, Pair.children, numTok_numPair hn, numTok_numPair hd, allowedPair,
        numToks_numPairs hal.2, ih]

def slotDefItem (ss : List SlotStmt) : Item := ⟨slotDefText ss, slotDefPair ss, .slots ss⟩

theorem slotDefItem_good (ss : List SlotStmt) (h : ∀ s ∈ ss, SlotCanon s) : (slotDefItem ss).Good where
  head := ⟨'S', _, rfl, by decide⟩
  parses := by
    intro rest p o
    have hm : ∀ kw, clash kw kwSlotDef = true → matchInsens kw (slotDefText ss ++ '\n' :: rest) = none := by
      intro kw hc
      have := matchInsens_clash ('\n' :: (blockText (ss.map slotLine) ++ kwEndSlotDef) ++ '\n' :: rest) hc
      simpa only [slotDefText, List.append_assoc, List.cons_append] using this
    refine Ev.call_silent rfl ?_
    show Ev false (.choice (.call .prm_text) (.choice (.call .ext_user_prm_data) (.choice (.call .module)
      (.choice (.call .slot_definition) _)))) _ _
    refine Ev.choice_r (block_fail rfl (hm _ (by decide)) p o) ?_
    refine Ev.choice_r (block_fail rfl (hm _ (by decide)) p o) ?_
    refine Ev.choice_r (block_fail rfl (hm _ (by decide)) p o) ?_
    exact Ev.choice_l (slotDef_ok ss h ('\n' :: rest) p o)
  ast := by
    have := slots_pairs ss h
    simp [slotDefItem, slotDefPair, stmt?, Pair.rule, Pair.children, this]

end PV.Gsd.Peg
