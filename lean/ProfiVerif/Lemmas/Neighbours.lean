/-
Cyclic neighbours (C02 `neighbours`): an independent, order-free specification of the cyclic
successor / predecessor of an address in a set of addresses, and the proof that
`TokenRing.updateNextPrev` (the model of `update_next_previous`) computes exactly that from the LAS.
-/
import ProfiVerif.Lemmas.TokenRing

namespace PV
namespace TokenRing

/-! ### Specification (independent of the model: plain `filter` / `min?` / `max?` on a list) -/

/-- Cyclic successor of `ts` in the address set listed by `L` (no order or distinctness assumed):
the smallest element above `ts`; if there is none, the smallest element of all (wrap-around);
`ts` itself if `L` is empty. -/
def cycSucc (ts : Nat) (L : List Nat) : Nat :=
  match (L.filter fun a => ts < a).min? with
  | some a => a
  | none =>
    match L.min? with
    | some a => a
    | none => ts

/-- Cyclic predecessor of `ts` in `L`: the largest element below `ts`; if there is none, the largest
element of all; `ts` itself if `L` is empty. -/
def cycPred (ts : Nat) (L : List Nat) : Nat :=
  match (L.filter fun a => a < ts).max? with
  | some a => a
  | none =>
    match L.max? with
    | some a => a
    | none => ts

/-- The same notion as a relation that mentions membership only (so it depends on the *set*). -/
structure IsCycSucc (ts : Nat) (L : List Nat) (n : Nat) : Prop where
  above : (∃ a ∈ L, ts < a) → n ∈ L ∧ ts < n ∧ ∀ a ∈ L, ts < a → n ≤ a
  wrap : (∀ a ∈ L, a ≤ ts) → (∃ a, a ∈ L) → n ∈ L ∧ ∀ a ∈ L, n ≤ a
  alone : (∀ a, a ∉ L) → n = ts

structure IsCycPred (ts : Nat) (L : List Nat) (p : Nat) : Prop where
  below : (∃ a ∈ L, a < ts) → p ∈ L ∧ p < ts ∧ ∀ a ∈ L, a < ts → a ≤ p
  wrap : (∀ a ∈ L, ts ≤ a) → (∃ a, a ∈ L) → p ∈ L ∧ ∀ a ∈ L, a ≤ p
  alone : (∀ a, a ∉ L) → p = ts

theorem cycSucc_spec (ts : Nat) (L : List Nat) : IsCycSucc ts L (cycSucc ts L) := by
  unfold cycSucc
  cases h1 : (L.filter fun a => ts < a).min? with
  | some n =>
    have h := List.min?_eq_some_iff.mp h1
    have hn : n ∈ L ∧ ts < n := by simpa using h.1
    refine ⟨fun _ => ⟨hn.1, hn.2, fun a ha hlt => h.2 a (by simp [ha, hlt])⟩, fun hall _ => ?_, fun hno => ?_⟩
    · have := hall n hn.1; omega
    · exact absurd hn.1 (hno n)
  | none =>
    have hnil := List.min?_eq_none_iff.mp h1
    have hle : ∀ a ∈ L, a ≤ ts := by
      intro a ha
      have : a ∉ L.filter fun a => ts < a := by rw [hnil]; simp
      simp [ha] at this
      exact this
    cases h2 : L.min? with
    | some n =>
      have h := List.min?_eq_some_iff.mp h2
      refine ⟨fun ⟨a, ha, hlt⟩ => ?_, fun _ _ => ⟨h.1, h.2⟩, fun hno => absurd h.1 (hno n)⟩
      have := hle a ha; omega
    | none =>
      have hL := List.min?_eq_none_iff.mp h2
      subst hL
      exact ⟨fun ⟨a, ha, _⟩ => (by cases ha), fun _ ⟨a, ha⟩ => (by cases ha), fun _ => rfl⟩

theorem cycPred_spec (ts : Nat) (L : List Nat) : IsCycPred ts L (cycPred ts L) := by
  unfold cycPred
  cases h1 : (L.filter fun a => a < ts).max? with
  | some n =>
    have h := List.max?_eq_some_iff.mp h1
    have hn : n ∈ L ∧ n < ts := by simpa using h.1
    refine ⟨fun _ => ⟨hn.1, hn.2, fun a ha hlt => h.2 a (by simp [ha, hlt])⟩, fun hall _ => ?_, fun hno => ?_⟩
    · have := hall n hn.1; omega
    · exact absurd hn.1 (hno n)
  | none =>
    have hnil := List.max?_eq_none_iff.mp h1
    have hle : ∀ a ∈ L, ts ≤ a := by
      intro a ha
      have : a ∉ L.filter fun a => a < ts := by rw [hnil]; simp
      simp [ha] at this
      exact this
    cases h2 : L.max? with
    | some n =>
      have h := List.max?_eq_some_iff.mp h2
      refine ⟨fun ⟨a, ha, hlt⟩ => ?_, fun _ _ => ⟨h.1, h.2⟩, fun hno => absurd h.1 (hno n)⟩
      have := hle a ha; omega
    | none =>
      have hL := List.max?_eq_none_iff.mp h2
      subst hL
      exact ⟨fun ⟨a, ha, _⟩ => (by cases ha), fun _ ⟨a, ha⟩ => (by cases ha), fun _ => rfl⟩

/-- The relation determines the neighbour uniquely. -/
theorem isCycSucc_unique (ts : Nat) (L : List Nat) (n m : Nat) (hn : IsCycSucc ts L n) (hm : IsCycSucc ts L m) :
    n = m := by
  by_cases h1 : ∃ a ∈ L, ts < a
  · have a := hn.above h1
    have b := hm.above h1
    have := a.2.2 m b.1 b.2.1
    have := b.2.2 n a.1 a.2.1
    omega
  · have hall : ∀ a ∈ L, a ≤ ts := fun a ha => by
      have : ¬ ts < a := fun hlt => h1 ⟨a, ha, hlt⟩
      omega
    by_cases h2 : ∃ a, a ∈ L
    · have a := hn.wrap hall h2
      have b := hm.wrap hall h2
      have := a.2 m b.1
      have := b.2 n a.1
      omega
    · have hno : ∀ a, a ∉ L := fun a ha => h2 ⟨a, ha⟩
      rw [hn.alone hno, hm.alone hno]

theorem isCycPred_unique (ts : Nat) (L : List Nat) (n m : Nat) (hn : IsCycPred ts L n) (hm : IsCycPred ts L m) :
    n = m := by
  by_cases h1 : ∃ a ∈ L, a < ts
  · have a := hn.below h1
    have b := hm.below h1
    have := a.2.2 m b.1 b.2.1
    have := b.2.2 n a.1 a.2.1
    omega
  · have hall : ∀ a ∈ L, ts ≤ a := fun a ha => by
      have : ¬ a < ts := fun hlt => h1 ⟨a, ha, hlt⟩
      omega
    by_cases h2 : ∃ a, a ∈ L
    · have a := hn.wrap hall h2
      have b := hm.wrap hall h2
      have := a.2 m b.1
      have := b.2 n a.1
      omega
    · have hno : ∀ a, a ∉ L := fun a ha => h2 ⟨a, ha⟩
      rw [hn.alone hno, hm.alone hno]

/-- The relation only looks at membership. -/
theorem isCycSucc_congr (ts : Nat) (L L' : List Nat) (n : Nat) (h : ∀ a, a ∈ L ↔ a ∈ L')
    (hn : IsCycSucc ts L n) : IsCycSucc ts L' n := by
  refine ⟨fun ⟨a, ha, hlt⟩ => ?_, fun hall ⟨a, ha⟩ => ?_, fun hno => hn.alone fun a ha => hno a ((h a).mp ha)⟩
  · have := hn.above ⟨a, (h a).mpr ha, hlt⟩
    exact ⟨(h n).mp this.1, this.2.1, fun b hb => this.2.2 b ((h b).mpr hb)⟩
  · have := hn.wrap (fun b hb => hall b ((h b).mp hb)) ⟨a, (h a).mpr ha⟩
    exact ⟨(h n).mp this.1, fun b hb => this.2 b ((h b).mpr hb)⟩

theorem isCycPred_congr (ts : Nat) (L L' : List Nat) (n : Nat) (h : ∀ a, a ∈ L ↔ a ∈ L')
    (hn : IsCycPred ts L n) : IsCycPred ts L' n := by
  refine ⟨fun ⟨a, ha, hlt⟩ => ?_, fun hall ⟨a, ha⟩ => ?_, fun hno => hn.alone fun a ha => hno a ((h a).mp ha)⟩
  · have := hn.below ⟨a, (h a).mpr ha, hlt⟩
    exact ⟨(h n).mp this.1, this.2.1, fun b hb => this.2.2 b ((h b).mpr hb)⟩
  · have := hn.wrap (fun b hb => hall b ((h b).mp hb)) ⟨a, (h a).mpr ha⟩
    exact ⟨(h n).mp this.1, fun b hb => this.2 b ((h b).mpr hb)⟩

theorem isCycSucc_iff (ts : Nat) (L : List Nat) (n : Nat) : IsCycSucc ts L n ↔ n = cycSucc ts L :=
  ⟨fun h => isCycSucc_unique ts L _ _ h (cycSucc_spec ts L), fun h => h ▸ cycSucc_spec ts L⟩

theorem isCycPred_iff (ts : Nat) (L : List Nat) (n : Nat) : IsCycPred ts L n ↔ n = cycPred ts L :=
  ⟨fun h => isCycPred_unique ts L _ _ h (cycPred_spec ts L), fun h => h ▸ cycPred_spec ts L⟩

/-- `cycSucc` depends on the set of listed addresses only (order and repetitions are irrelevant). -/
theorem cycSucc_congr (ts : Nat) (L L' : List Nat) (h : ∀ a, a ∈ L ↔ a ∈ L') : cycSucc ts L = cycSucc ts L' :=
  (isCycSucc_iff ts L' _).mp (isCycSucc_congr ts L L' _ h (cycSucc_spec ts L))

theorem cycPred_congr (ts : Nat) (L L' : List Nat) (h : ∀ a, a ∈ L ↔ a ∈ L') : cycPred ts L = cycPred ts L' :=
  (isCycPred_iff ts L' _).mp (isCycPred_congr ts L L' _ h (cycPred_spec ts L))

/-- Whether TS itself is listed makes no difference: the neighbours in `L` are the neighbours in
`L ∪ {TS}` (the LAS of a station that is not in the ring does not contain its own address). -/
theorem cycSucc_cons_self (ts : Nat) (L : List Nat) : cycSucc ts (ts :: L) = cycSucc ts L := by
  by_cases hts : ts ∈ L
  · exact cycSucc_congr ts _ _ fun a => by
      simp only [List.mem_cons]
      exact ⟨fun h => h.elim (fun e => e ▸ hts) id, Or.inr⟩
  · symm
    rw [← isCycSucc_iff]
    have hs := cycSucc_spec ts L
    refine ⟨fun ⟨a, ha, hlt⟩ => ?_, fun hall _ => ?_, fun hno => absurd (List.mem_cons_self) (hno ts)⟩
    · have ha' : a ∈ L := by
        simp only [List.mem_cons] at ha
        rcases ha with rfl | ha
        · omega
        · exact ha
      have := hs.above ⟨a, ha', hlt⟩
      refine ⟨List.mem_cons_of_mem _ this.1, this.2.1, fun b hb hbl => ?_⟩
      simp only [List.mem_cons] at hb
      rcases hb with rfl | hb
      · omega
      · exact this.2.2 b hb hbl
    · have hall' : ∀ a ∈ L, a ≤ ts := fun a ha => hall a (List.mem_cons_of_mem _ ha)
      by_cases hne : ∃ a, a ∈ L
      · have := hs.wrap hall' hne
        refine ⟨List.mem_cons_of_mem _ this.1, fun b hb => ?_⟩
        simp only [List.mem_cons] at hb
        rcases hb with rfl | hb
        · exact hall' _ this.1
        · exact this.2 b hb
      · have hno : ∀ a, a ∉ L := fun a ha => hne ⟨a, ha⟩
        rw [hs.alone hno]
        refine ⟨List.mem_cons_self, fun b hb => ?_⟩
        simp only [List.mem_cons] at hb
        rcases hb with rfl | hb
        · omega
        · exact absurd hb (hno b)

theorem cycPred_cons_self (ts : Nat) (L : List Nat) : cycPred ts (ts :: L) = cycPred ts L := by
  by_cases hts : ts ∈ L
  · exact cycPred_congr ts _ _ fun a => by
      simp only [List.mem_cons]
      exact ⟨fun h => h.elim (fun e => e ▸ hts) id, Or.inr⟩
  · symm
    rw [← isCycPred_iff]
    have hs := cycPred_spec ts L
    refine ⟨fun ⟨a, ha, hlt⟩ => ?_, fun hall _ => ?_, fun hno => absurd (List.mem_cons_self) (hno ts)⟩
    · have ha' : a ∈ L := by
        simp only [List.mem_cons] at ha
        rcases ha with rfl | ha
        · omega
        · exact ha
      have := hs.below ⟨a, ha', hlt⟩
      refine ⟨List.mem_cons_of_mem _ this.1, this.2.1, fun b hb hbl => ?_⟩
      simp only [List.mem_cons] at hb
      rcases hb with rfl | hb
      · omega
      · exact this.2.2 b hb hbl
    · have hall' : ∀ a ∈ L, ts ≤ a := fun a ha => hall a (List.mem_cons_of_mem _ ha)
      by_cases hne : ∃ a, a ∈ L
      · have := hs.wrap hall' hne
        refine ⟨List.mem_cons_of_mem _ this.1, fun b hb => ?_⟩
        simp only [List.mem_cons] at hb
        rcases hb with rfl | hb
        · exact hall' _ this.1
        · exact this.2 b hb
      · have hno : ∀ a, a ∉ L := fun a ha => hne ⟨a, ha⟩
        rw [hs.alone hno]
        refine ⟨List.mem_cons_self, fun b hb => ?_⟩
        simp only [List.mem_cons] at hb
        rcases hb with rfl | hb
        · omega
        · exact absurd hb (hno b)

/-! ### Index form for a sorted ring: the neighbours of `S[i]` are `S[i±1 mod |S|]` -/

theorem asc_pairwise (l : List Nat) (h : Asc l) : l.Pairwise (· < ·) := by
  induction l with
  | nil => exact List.Pairwise.nil
  | cons x t ih => exact List.Pairwise.cons (asc_lt x t h) (ih (asc_tail x t h))

theorem asc_getElem_lt (S : List Nat) (h : Asc S) (i j : Nat) (hi : i < S.length) (hj : j < S.length)
    (hij : i < j) : S[i] < S[j] :=
  List.pairwise_iff_getElem.mp (asc_pairwise S h) i j hi hj hij

theorem asc_getElem_le (S : List Nat) (h : Asc S) (i j : Nat) (hi : i < S.length) (hj : j < S.length)
    (hij : i ≤ j) : S[i] ≤ S[j] := by
  by_cases e : i = j
  · subst e; omega
  · have := asc_getElem_lt S h i j hi hj (by omega); omega

/-- In an ascending list the cyclic successor of the `i`-th entry is the `(i+1) mod |S|`-th entry. -/
theorem cycSucc_index (S : List Nat) (h : Asc S) (i : Nat) (hi : i < S.length) :
    cycSucc S[i] S = S[(i + 1) % S.length]'(Nat.mod_lt _ (by omega)) := by
  symm
  rw [← isCycSucc_iff]
  have hmod : (i + 1) % S.length < S.length := Nat.mod_lt _ (by omega)
  by_cases hlast : i + 1 < S.length
  · have e : (i + 1) % S.length = i + 1 := Nat.mod_eq_of_lt hlast
    have hlt : S[i] < S[(i + 1) % S.length] := by
      simp only [e]; exact asc_getElem_lt S h i (i + 1) hi hlast (by omega)
    refine ⟨fun _ => ⟨List.getElem_mem _, hlt, fun a ha hta => ?_⟩, fun hall _ => ?_, fun hno => ?_⟩
    · obtain ⟨j, hj, rfl⟩ := List.mem_iff_getElem.mp ha
      have hji : ¬ j ≤ i := fun hle => by
        have := asc_getElem_le S h j i hj hi hle; omega
      simp only [e]
      exact asc_getElem_le S h (i + 1) j hlast hj (by omega)
    · have := hall _ (List.getElem_mem hmod); omega
    · exact absurd (List.getElem_mem hi) (hno _)
  · have e : (i + 1) % S.length = 0 := by
      have : i + 1 = S.length := by omega
      rw [this]; exact Nat.mod_self _
    have hmax : ∀ a ∈ S, a ≤ S[i] := by
      intro a ha
      obtain ⟨j, hj, rfl⟩ := List.mem_iff_getElem.mp ha
      exact asc_getElem_le S h j i hj hi (by omega)
    refine ⟨fun ⟨a, ha, hlt⟩ => ?_, fun _ _ => ⟨List.getElem_mem _, fun a ha => ?_⟩, fun hno => ?_⟩
    · have := hmax a ha; omega
    · obtain ⟨j, hj, rfl⟩ := List.mem_iff_getElem.mp ha
      simp only [e]
      exact asc_getElem_le S h 0 j (by omega) hj (by omega)
    · exact absurd (List.getElem_mem hi) (hno _)

/-- … and the cyclic predecessor is the `(i-1) mod |S|`-th entry. -/
theorem cycPred_index (S : List Nat) (h : Asc S) (i : Nat) (hi : i < S.length) :
    cycPred S[i] S = S[(i + S.length - 1) % S.length]'(Nat.mod_lt _ (by omega)) := by
  symm
  rw [← isCycPred_iff]
  have hmod : (i + S.length - 1) % S.length < S.length := Nat.mod_lt _ (by omega)
  by_cases hfirst : 0 < i
  · have e : (i + S.length - 1) % S.length = i - 1 := by
      have : i + S.length - 1 = (i - 1) + S.length := by omega
      rw [this, Nat.add_mod_right]; exact Nat.mod_eq_of_lt (by omega)
    have hlt : S[(i + S.length - 1) % S.length] < S[i] := by
      simp only [e]; exact asc_getElem_lt S h (i - 1) i (by omega) hi (by omega)
    refine ⟨fun _ => ⟨List.getElem_mem _, hlt, fun a ha hta => ?_⟩, fun hall _ => ?_, fun hno => ?_⟩
    · obtain ⟨j, hj, rfl⟩ := List.mem_iff_getElem.mp ha
      have hji : ¬ i ≤ j := fun hle => by
        have := asc_getElem_le S h i j hi hj hle; omega
      simp only [e]
      exact asc_getElem_le S h j (i - 1) hj (by omega) (by omega)
    · have := hall _ (List.getElem_mem hmod); omega
    · exact absurd (List.getElem_mem hi) (hno _)
  · have hi0 : i = 0 := by omega
    subst hi0
    have e : (0 + S.length - 1) % S.length = S.length - 1 := by
      rw [Nat.zero_add]; exact Nat.mod_eq_of_lt (by omega)
    have hmin : ∀ a ∈ S, S[0] ≤ a := by
      intro a ha
      obtain ⟨j, hj, rfl⟩ := List.mem_iff_getElem.mp ha
      exact asc_getElem_le S h 0 j hi hj (by omega)
    refine ⟨fun ⟨a, ha, hlt⟩ => ?_, fun _ _ => ⟨List.getElem_mem _, fun a ha => ?_⟩, fun hno => ?_⟩
    · have := hmin a ha; omega
    · obtain ⟨j, hj, rfl⟩ := List.mem_iff_getElem.mp ha
      simp only [e]
      exact asc_getElem_le S h j (S.length - 1) hj (by omega) (by omega)
    · exact absurd (List.getElem_mem hi) (hno _)

/-! ### `update_next_previous` computes the specification -/

theorem activeList_pairwise (r : TokenRing) : r.activeList.Pairwise (· < ·) :=
  List.Pairwise.filter _ List.pairwise_lt_range

theorem mem_activeList (r : TokenRing) (a : Nat) : a ∈ r.activeList ↔ r.isActive a = true := by
  unfold activeList
  simp only [List.mem_filter, List.mem_range]
  exact ⟨fun h => h.2, fun h => ⟨isActive_lt r a h, h⟩⟩

/-- In a list sorted by `R`, `find?` returns an element that is `R`-before every other hit. -/
theorem find?_pairwise {R : Nat → Nat → Prop} (p : Nat → Bool) (l : List Nat) (hl : l.Pairwise R) (a : Nat)
    (h : l.find? p = some a) : a ∈ l ∧ p a = true ∧ ∀ b ∈ l, p b = true → a = b ∨ R a b := by
  induction l with
  | nil => simp at h
  | cons x t ih =>
    rw [List.pairwise_cons] at hl
    rw [List.find?_cons] at h
    cases hp : p x with
    | true =>
      rw [hp] at h
      cases h
      refine ⟨List.mem_cons_self, hp, fun b hb _ => ?_⟩
      simp only [List.mem_cons] at hb
      rcases hb with rfl | hb
      · exact Or.inl rfl
      · exact Or.inr (hl.1 b hb)
    | false =>
      rw [hp] at h
      have := ih hl.2 h
      refine ⟨List.mem_cons_of_mem _ this.1, this.2.1, fun b hb hpb => ?_⟩
      simp only [List.mem_cons] at hb
      rcases hb with rfl | hb
      · rw [hp] at hpb; cases hpb
      · exact this.2.2 b hb hpb

theorem head?_pairwise {R : Nat → Nat → Prop} (l : List Nat) (hl : l.Pairwise R) (a : Nat)
    (h : l.head? = some a) : a ∈ l ∧ ∀ b ∈ l, a = b ∨ R a b := by
  cases l with
  | nil => simp at h
  | cons x t =>
    rw [List.pairwise_cons] at hl
    simp only [List.head?_cons, Option.some.injEq] at h
    subst h
    refine ⟨List.mem_cons_self, fun b hb => ?_⟩
    simp only [List.mem_cons] at hb
    rcases hb with rfl | hb
    · exact Or.inl rfl
    · exact Or.inr (hl.1 b hb)

/-- The successor expression of `update_next_previous` over any ascending list. -/
theorem findSucc_spec (ts : Nat) (l : List Nat) (hl : l.Pairwise (· < ·)) :
    IsCycSucc ts l (match l.find? (fun a => decide (a > ts)) with
      | some a => a
      | none => match l.head? with
        | some a => a
        | none => ts) := by
  cases h1 : l.find? (fun a => decide (a > ts)) with
  | some n =>
    show IsCycSucc ts l n
    have h := find?_pairwise _ l hl n h1
    have hn : ts < n := by simpa using h.2.1
    refine ⟨fun _ => ⟨h.1, hn, fun a ha hlt => ?_⟩, fun hall _ => ?_, fun hno => absurd h.1 (hno n)⟩
    · rcases h.2.2 a ha (by simpa using hlt) with e | e <;> omega
    · have := hall n h.1; omega
  | none =>
    have hnone := List.find?_eq_none.mp h1
    have hle : ∀ a ∈ l, a ≤ ts := fun a ha => by
      have := hnone a ha
      simp at this
      exact this
    show IsCycSucc ts l (match l.head? with
        | some a => a
        | none => ts)
    cases h2 : l.head? with
    | some n =>
      show IsCycSucc ts l n
      have h := head?_pairwise l hl n h2
      refine ⟨fun ⟨a, ha, hlt⟩ => ?_, fun _ _ => ⟨h.1, fun a ha => ?_⟩, fun hno => absurd h.1 (hno n)⟩
      · have := hle a ha; omega
      · rcases h.2 a ha with e | e <;> omega
    | none =>
      have hL : l = [] := by cases l with
        | nil => rfl
        | cons x t => simp at h2
      subst hL
      exact ⟨fun ⟨a, ha, _⟩ => (by cases ha), fun _ ⟨a, ha⟩ => (by cases ha), fun _ => rfl⟩

theorem findPred_spec (ts : Nat) (l : List Nat) (hl : l.Pairwise (· < ·)) :
    IsCycPred ts l (match l.reverse.find? (fun a => decide (a < ts)) with
      | some a => a
      | none => match l.getLast? with
        | some a => a
        | none => ts) := by
  have hr : l.reverse.Pairwise (· > ·) := List.pairwise_reverse.mpr hl
  cases h1 : l.reverse.find? (fun a => decide (a < ts)) with
  | some n =>
    show IsCycPred ts l n
    have h := find?_pairwise _ l.reverse hr n h1
    have hn : n < ts := by simpa using h.2.1
    have hm : n ∈ l := by simpa using h.1
    refine ⟨fun _ => ⟨hm, hn, fun a ha hlt => ?_⟩, fun hall _ => ?_, fun hno => absurd hm (hno n)⟩
    · rcases h.2.2 a (by simpa using ha) (by simpa using hlt) with e | e <;> omega
    · have := hall n hm; omega
  | none =>
    have hnone := List.find?_eq_none.mp h1
    have hle : ∀ a ∈ l, ts ≤ a := fun a ha => by
      have := hnone a (by simpa using ha)
      simp at this
      exact this
    show IsCycPred ts l (match l.getLast? with
        | some a => a
        | none => ts)
    cases h2 : l.getLast? with
    | some n =>
      show IsCycPred ts l n
      have h := head?_pairwise l.reverse hr n (by rw [List.head?_reverse]; exact h2)
      have hm : n ∈ l := by simpa using h.1
      refine ⟨fun ⟨a, ha, hlt⟩ => ?_, fun _ _ => ⟨hm, fun a ha => ?_⟩, fun hno => absurd hm (hno n)⟩
      · have := hle a ha; omega
      · rcases h.2 a (by simpa using ha) with e | e <;> omega
    | none =>
      have hL : l = [] := by cases l with
        | nil => rfl
        | cons x t => simp at h2
      subst hL
      exact ⟨fun ⟨a, ha, _⟩ => (by cases ha), fun _ ⟨a, ha⟩ => (by cases ha), fun _ => rfl⟩

/-- **The neighbour invariant**: NS / PS are the cyclic successor / predecessor of TS among the
addresses currently entered in the LAS. -/
def Nbr (r : TokenRing) : Prop :=
  r.ns = cycSucc r.ts r.activeList ∧ r.ps = cycPred r.ts r.activeList

theorem updateNextPrev_activeList (r : TokenRing) : (updateNextPrev r).activeList = r.activeList := by
  have e : (updateNextPrev r).isActive = r.isActive := funext (updateNextPrev_active r)
  unfold activeList
  rw [e]

/-- `update_next_previous` establishes the invariant from any state. -/
theorem updateNextPrev_nbr (r : TokenRing) : Nbr (updateNextPrev r) := by
  have hl := activeList_pairwise r
  refine ⟨?_, ?_⟩
  · rw [updateNextPrev_activeList, (updateNextPrev_las r).2, ← isCycSucc_iff]
    exact findSucc_spec r.ts r.activeList hl
  · rw [updateNextPrev_activeList, (updateNextPrev_las r).2, ← isCycPred_iff]
    exact findPred_spec r.ts r.activeList hl

theorem updateLas_nbr (r : TokenRing) (sa da : Nat) : Nbr (r.updateLas sa da) := by
  unfold updateLas; exact updateNextPrev_nbr _

/-- Changing only the LAS phase does not affect the invariant. -/
theorem nbr_with_las (r : TokenRing) (l : LasState) (h : Nbr r) : Nbr { r with las := l } := h

theorem new_isActive (ts a : Nat) : (TokenRing.new ts).isActive a = decide (a = ts ∧ a < 128) := by
  unfold isActive
  split
  · rename_i h; simp [TokenRing.new, h]
  · rename_i h; simp [h]

/-- A station that knows nobody but (at most) itself is its own neighbour. -/
theorem nbr_of_alone (r : TokenRing) (hns : r.ns = r.ts) (hps : r.ps = r.ts)
    (hm : ∀ a, a ∈ r.activeList → a = r.ts) : Nbr r := by
  unfold Nbr
  generalize r.activeList = L at hm
  refine ⟨?_, ?_⟩
  · rw [hns, ← isCycSucc_iff]
    refine ⟨fun ⟨a, ha, hlt⟩ => ?_, fun _ ⟨a, ha⟩ => ?_, fun _ => rfl⟩
    · have := hm a ha; omega
    · have e := hm a ha
      subst e
      exact ⟨ha, fun b hb => by have := hm b hb; omega⟩
  · rw [hps, ← isCycPred_iff]
    refine ⟨fun ⟨a, ha, hlt⟩ => ?_, fun _ ⟨a, ha⟩ => ?_, fun _ => rfl⟩
    · have := hm a ha; omega
    · have e := hm a ha
      subst e
      exact ⟨ha, fun b hb => by have := hm b hb; omega⟩

theorem new_nbr (ts : Nat) : Nbr (TokenRing.new ts) := by
  apply nbr_of_alone _ rfl rfl
  intro a ha
  rw [mem_activeList, new_isActive] at ha
  have : a = ts ∧ a < 128 := by simpa using ha
  exact this.1

/-- Every witnessed pass preserves the invariant (in every LAS phase; also the ignored ones). -/
theorem witness_nbr (r : TokenRing) (sa da : Nat) (h : Nbr r) : Nbr (r.witness sa da) := by
  unfold witness
  split
  · exact h
  split
  · exact h
  split
  · split
    · exact nbr_with_las r _ h
    · exact h
  · simp only
    split
    · exact nbr_with_las _ _ (updateLas_nbr r sa da)
    · exact updateLas_nbr r sa da
  · split
    · exact nbr_with_las _ _ (updateLas_nbr r sa da)
    · split
      · exact nbr_with_las r _ h
      · exact h
  · exact updateLas_nbr r sa da

theorem witnessAll_nbr (ps : List (Nat × Nat)) : ∀ (r : TokenRing), Nbr r → Nbr (witnessAll r ps) := by
  induction ps with
  | nil => intro r h; exact h
  | cons p t ih => intro r h; exact ih _ (witness_nbr r p.1 p.2 h)

theorem claimToken_nbr (r : TokenRing) (h : Nbr r) : Nbr r.claimToken := h

theorem setNextStation_nbr (r r' : TokenRing) (a : Nat) (h : r.setNextStation a = some r') : Nbr r' := by
  unfold setNextStation at h
  split at h
  · cases h
  · injection h with h; subst h; exact updateLas_nbr _ _ _

theorem removeStation_nbr (r r' : TokenRing) (a : Nat) (h : r.removeStation a = some r') : Nbr r' := by
  unfold removeStation at h
  split at h
  · cases h
  · injection h with h; subst h; exact updateNextPrev_nbr _

/-- TS never changes. -/
theorem witness_ts (r : TokenRing) (sa da : Nat) : (r.witness sa da).ts = r.ts := by
  unfold witness
  split
  · rfl
  split
  · rfl
  split
  · split <;> rfl
  · simp only
    split
    · exact (updateLas_las r sa da).2
    · exact (updateLas_las r sa da).2
  · split
    · exact (updateLas_las r sa da).2
    · split <;> rfl
  · exact (updateLas_las r sa da).2

theorem witnessAll_ts (ps : List (Nat × Nat)) : ∀ (r : TokenRing), (witnessAll r ps).ts = r.ts := by
  induction ps with
  | nil => intro r; rfl
  | cons p t ih => intro r; exact (ih _).trans (witness_ts r p.1 p.2)

theorem setNextStation_ts (r r' : TokenRing) (a : Nat) (h : r.setNextStation a = some r') : r'.ts = r.ts := by
  unfold setNextStation at h
  split at h
  · cases h
  · injection h with h; subst h; exact (updateLas_las _ _ _).2

theorem removeStation_ts (r r' : TokenRing) (a : Nat) (h : r.removeStation a = some r') : r'.ts = r.ts := by
  unfold removeStation at h
  split at h
  · cases h
  · injection h with h; subst h; exact (updateNextPrev_las _).2

/-! ### All API-call sequences -/

/-- The public mutating operations of `TokenRing`. -/
inductive Op
  | witness (sa da : Nat)
  | claim
  | setNext (a : Nat)
  | remove (a : Nat)

def applyOp (r : TokenRing) : Op → Option TokenRing
  | .witness sa da => some (r.witness sa da)
  | .claim => some r.claimToken
  | .setNext a => r.setNextStation a
  | .remove a => r.removeStation a

/-- Run a sequence of operations (`none` = one of them panicked: bit index ≥ 128). -/
def runOps (r : TokenRing) : List Op → Option TokenRing
  | [] => some r
  | o :: t => match applyOp r o with
    | some r' => runOps r' t
    | none => none

theorem applyOp_nbr (r r' : TokenRing) (o : Op) (h : Nbr r) (e : applyOp r o = some r') :
    Nbr r' ∧ r'.ts = r.ts := by
  cases o with
  | witness sa da => cases e; exact ⟨witness_nbr r sa da h, witness_ts r sa da⟩
  | claim => cases e; exact ⟨h, rfl⟩
  | setNext a => exact ⟨setNextStation_nbr r r' a e, setNextStation_ts r r' a e⟩
  | remove a => exact ⟨removeStation_nbr r r' a e, removeStation_ts r r' a e⟩

theorem runOps_nbr (ops : List Op) : ∀ (r r' : TokenRing), Nbr r → runOps r ops = some r' →
    Nbr r' ∧ r'.ts = r.ts := by
  induction ops with
  | nil => intro r r' h e; cases e; exact ⟨h, rfl⟩
  | cons o t ih =>
    intro r r' h e
    unfold runOps at e
    cases ha : applyOp r o with
    | none => rw [ha] at e; cases e
    | some r1 =>
      rw [ha] at e
      have h1 := applyOp_nbr r r1 o h ha
      have := ih r1 r' h1.1 e
      exact ⟨this.1, by rw [this.2, h1.2]⟩

/-- With LAS = `S` (as a set), the neighbours are those in `S`. -/
theorem nbr_lasIs (r : TokenRing) (S : List Nat) (h : Nbr r) (hl : LasIs r S) (hb : ∀ z ∈ S, z ≤ 125) :
    r.ns = cycSucc r.ts S ∧ r.ps = cycPred r.ts S := by
  have hm : ∀ a, a ∈ r.activeList ↔ a ∈ S := fun a => by
    rw [mem_activeList]; exact lasIs_mem r S hl hb a
  exact ⟨by rw [h.1]; exact cycSucc_congr _ _ _ hm, by rw [h.2]; exact cycPred_congr _ _ _ hm⟩

end TokenRing
end PV
