/-
`toAst` is total on every pair tree the grammar can produce.

`acc r` is, per rule, the regular expression over child rule names that the `toAst` case for `r`
(and so the corresponding `match pair.as_rule()` / `.next().unwrap()` / `assert!` / `unreachable!()`
code of parser.rs) accepts; `.top` where the children are not looked at.  Two halves:

* `acc_checked : checkGrammar acc = true` — the child words of the *generated* grammar lie in `acc`,
  by `decide +kernel` (re-evaluated whenever Grammar.lean is regenerated from gsd.pest);
* `toAst_total : Pair.OK acc p → p.rule = .gsd → ∃ ast, toAst p = some ast` — proved by hand from
  `toAst`'s definition; mentions the grammar only through the rule names `toAst` itself mentions.
-/
import ProfiVerif.Lemmas.PegPost

namespace PV.Gsd.Peg
open Rx

/-! ### Generic peeling lemmas: words of child rule names ↔ child lists -/

theorem ruleWord_cons_inv {cs : List Pair} {x : Rule} {v : List Rule} (h : ruleWord cs = x :: v) :
    ∃ c cs', cs = c :: cs' ∧ c.rule = x ∧ ruleWord cs' = v := by
  cases cs with
  | nil => cases h
  | cons c cs' =>
    simp only [ruleWord, List.map_cons, List.cons.injEq] at h
    exact ⟨c, cs', rfl, h.1, h.2⟩

theorem ruleWord_nil_inv {cs : List Pair} (h : ruleWord cs = []) : cs = [] := by
  cases cs with
  | nil => rfl
  | cons c cs' => cases h

/-- `e` accepts exactly one child, with a rule from `S`. -/
def Single (e : Rx) (S : List Rule) : Prop := ∀ w, Lang e w → ∃ x, w = [x] ∧ x ∈ S

theorem single_sym (r : Rule) : Single (.sym r) [r] := by
  intro w h; cases h; exact ⟨r, rfl, List.mem_singleton.mpr rfl⟩

theorem single_alt {a b : Rx} {A B : List Rule} (ha : Single a A) (hb : Single b B) :
    Single (.alt a b) (A ++ B) := by
  intro w h
  cases h with
  | altL h => obtain ⟨x, hw, hx⟩ := ha w h; exact ⟨x, hw, List.mem_append.mpr (.inl hx)⟩
  | altR h => obtain ⟨x, hw, hx⟩ := hb w h; exact ⟨x, hw, List.mem_append.mpr (.inr hx)⟩

theorem peel {e b : Rx} {S : List Rule} {cs : List Pair} (hs : Single e S)
    (h : Lang (.seq e b) (ruleWord cs)) :
    ∃ c cs', cs = c :: cs' ∧ c.rule ∈ S ∧ Lang b (ruleWord cs') := by
  obtain ⟨u, v, hw, hu, hv⟩ := lang_seq_inv h
  obtain ⟨x, rfl, hx⟩ := hs u hu
  obtain ⟨c, cs', rfl, hc, hv'⟩ := ruleWord_cons_inv (by simpa using hw)
  exact ⟨c, cs', rfl, hc ▸ hx, hv' ▸ hv⟩

theorem peel_opt {e b : Rx} {S : List Rule} {cs : List Pair} (hs : Single e S)
    (hd : ∀ x ∈ S, x ∉ b.firsts) (h : Lang (.seq (Rx.opt e) b) (ruleWord cs)) :
    (Lang b (ruleWord cs) ∧ ∀ c cs', cs = c :: cs' → c.rule ∉ S) ∨
    ∃ c cs', cs = c :: cs' ∧ c.rule ∈ S ∧ Lang b (ruleWord cs') := by
  obtain ⟨u, v, hw, hu, hv⟩ := lang_seq_inv h
  cases lang_alt_inv hu with
  | inl he =>
    have := lang_eps_inv he
    subst this
    simp only [List.nil_append] at hw
    left
    refine ⟨hw ▸ hv, ?_⟩
    intro c cs' hcs hc
    subst hcs
    exact hd _ hc (firsts_spec hv c.rule (ruleWord cs') (by rw [← hw]; rfl))
  | inr he =>
    right
    exact peel hs (hw ▸ Lang.seq he hv)

theorem star_single {e : Rx} {S : List Rule} {cs : List Pair} (hs : Single e S)
    (h : Lang (.star e) (ruleWord cs)) : ∀ c ∈ cs, c.rule ∈ S := by
  have := lang_star_all (P := fun x => x ∈ S) (a := e) (by
    intro u hu x hx
    obtain ⟨y, rfl, hy⟩ := hs u hu
    simp only [List.mem_singleton] at hx
    exact hx ▸ hy) h
  intro c hc
  exact this c.rule (List.mem_map.mpr ⟨c, hc, rfl⟩)

theorem eps_nil {cs : List Pair} (h : Lang .eps (ruleWord cs)) : cs = [] :=
  ruleWord_nil_inv (lang_eps_inv h)

theorem ok_inv {acc : Rule → Rx} {p : Pair} (h : Pair.OK acc p) :
    Lang (acc p.rule) (ruleWord p.children) ∧ ∀ c ∈ p.children, Pair.OK acc c := by
  cases h with
  | node hl hc => exact ⟨hl, hc⟩

/-! ### What `toAst` accepts -/

def num : Rx := .alt (.sym .dec_number) (.sym .hex_number)

def valueRx : Rx :=
  Rx.alts [.sym .string_literal, .sym .number_list, .sym .family_ident, .sym .dec_number, .sym .hex_number]

/-- The statements `stmt?` knows (`gsd`'s children). -/
def stmtRx : Rx :=
  Rx.alts [.sym .prm_text, .sym .ext_user_prm_data, .sym .module, .sym .slot_definition,
    .sym .unit_diag_area, .sym .setting, .sym .unit_diag_type, .sym .version_dl_definition,
    .sym .physical_interface, .sym .jokerblock_type, .sym .any_text, .sym .start, .sym .EOI]

def modItemRx : Rx := Rx.alts [.sym .module_reference, .sym .setting, .sym .data_area]

/-- Per rule: the child words `toAst` (parser.rs) can digest. -/
def acc : Rule → Rx
  | .gsd => .star stmtRx
  | .prm_text => .seq num (.star (.sym .prm_text_value))
  | .prm_text_value => Rx.seqs [num, .sym .string_literal, .eps]
  | .unit_diag_area => Rx.seqs [num, num, .star (.sym .unit_diag_area_value)]
  | .unit_diag_area_value => Rx.seqs [num, .sym .string_literal, .eps]
  | .ext_user_prm_data => Rx.seqs [num, .sym .string_literal, .sym .prm_data_type_name, num,
      Rx.opt (.alt (.sym .prm_data_value_range) (.sym .prm_data_value_set)),
      Rx.opt (.sym .prm_text_ref), Rx.opt (.sym .prm_data_changeable), Rx.opt (.sym .prm_data_visible), .eps]
  | .prm_data_type_name => Rx.seqs [Rx.alts [.sym .identifier, .sym .bit, .sym .bit_area], .eps]
  | .bit => Rx.seqs [num, .eps]
  | .bit_area => Rx.seqs [num, num, .eps]
  | .prm_data_value_range => Rx.seqs [num, num, .eps]
  | .prm_data_value_set => .star num
  | .prm_text_ref => Rx.seqs [num, .eps]
  | .prm_data_changeable => Rx.seqs [num, .eps]
  | .prm_data_visible => Rx.seqs [num, .eps]
  | .module => Rx.seqs [.sym .string_literal, .sym .number_list, .star modItemRx]
  | .module_reference => Rx.seqs [num, .eps]
  | .number_list => .star num
  | .setting => .seq (.sym .identifier) (.alt (Rx.seqs [valueRx, .eps]) (Rx.seqs [num, valueRx, .eps]))
  | .slot_definition => .star (.sym .slot)
  | .slot => Rx.seqs [num, .sym .string_literal, num, .alt (.sym .slot_value_range) (.sym .slot_value_set), .eps]
  | .slot_value_range => Rx.seqs [num, num, .eps]
  | .slot_value_set => .star num
  | _ => .top

/-- **Every child word the generated grammar can produce is one `toAst` digests** — evaluated by the
kernel over the whole (finite) grammar; fails to compile if a change of gsd.pest produces a child
sequence parser.rs does not expect. -/
theorem acc_checked : checkGrammar acc = true := by decide +kernel

/-- The start rule heads a pair. -/
theorem gsd_not_silent : (ruleDef .gsd).1 ≠ .silent := by decide +kernel

abbrev OK := Pair.OK acc

theorem single_num : Single num [.dec_number, .hex_number] := single_alt (single_sym _) (single_sym _)

theorem single_value : Single valueRx [.string_literal, .number_list, .family_ident, .dec_number, .hex_number] :=
  single_alt (single_sym _) (single_alt (single_sym _) (single_alt (single_sym _) (single_alt (single_sym _) (single_sym _))))

/-! ### Leaves -/

def IsNum (p : Pair) : Prop := p.rule ∈ [Rule.dec_number, Rule.hex_number]

theorem numTok_some {p : Pair} (h : IsNum p) : ∃ n, numTok? p = some n := by
  unfold IsNum at h
  simp only [List.mem_cons, List.not_mem_nil, or_false] at h
  unfold numTok?
  rcases h with h | h <;> rw [h] <;> exact ⟨_, rfl⟩

theorem numToks_some : ∀ {ps : List Pair}, (∀ p ∈ ps, IsNum p) → ∃ ns, numToks? ps = some ns
  | [], _ => ⟨[], rfl⟩
  | p :: rest, h => by
    obtain ⟨n, hn⟩ := numTok_some (h p (List.mem_cons_self ..))
    obtain ⟨ns, hns⟩ := numToks_some (ps := rest) (fun q hq => h q (List.mem_cons_of_mem _ hq))
    exact ⟨n :: ns, by simp [numToks?, hn, hns]⟩

theorem strLit_some {p : Pair} (h : p.rule ∈ [Rule.string_literal]) : strLit? p = some p.text := by
  simp only [List.mem_singleton] at h
  simp [strLit?, h]

/-- One number child, nothing else (`bit`, `prm_text_ref`, `module_reference`, …). -/
theorem one_num {cs : List Pair} (h : Lang (Rx.seqs [num, .eps]) (ruleWord cs)) :
    ∃ c, cs = [c] ∧ IsNum c := by
  obtain ⟨c, cs', rfl, hc, h⟩ := peel single_num h
  cases eps_nil h
  exact ⟨c, rfl, hc⟩

theorem two_num {cs : List Pair} (h : Lang (Rx.seqs [num, num, .eps]) (ruleWord cs)) :
    ∃ a b, cs = [a, b] ∧ IsNum a ∧ IsNum b := by
  obtain ⟨a, cs', rfl, ha, h⟩ := peel single_num h
  obtain ⟨b, cs'', rfl, hb, h⟩ := peel single_num h
  cases eps_nil h
  exact ⟨a, b, rfl, ha, hb⟩

theorem star_num {cs : List Pair} (h : Lang (.star num) (ruleWord cs)) : ∀ c ∈ cs, IsNum c :=
  star_single single_num h

/-! ### `value?`, `setting?` -/

theorem value_some {p : Pair} (hok : OK p)
    (h : p.rule ∈ [Rule.string_literal, .number_list, .family_ident, .dec_number, .hex_number]) :
    ∃ v, value? p = some v := by
  obtain ⟨hl, _⟩ := ok_inv hok
  simp only [List.mem_cons, List.not_mem_nil, or_false] at h
  unfold value?
  rcases h with h | h | h | h | h
  · rw [h]; exact ⟨_, rfl⟩
  · rw [h] at hl ⊢
    obtain ⟨ns, hns⟩ := numToks_some (star_num (by simpa only [acc] using hl))
    exact ⟨.list ns, by simp [hns]⟩
  · rw [h]; exact ⟨_, rfl⟩
  · rw [h]; exact ⟨_, rfl⟩
  · rw [h]; exact ⟨_, rfl⟩

theorem setting_some {p : Pair} (hok : OK p) (hr : p.rule = .setting) : ∃ s, setting? p = some s := by
  obtain ⟨hl, hc⟩ := ok_inv hok
  rw [hr] at hl
  simp only [acc] at hl
  obtain ⟨k, cs1, hcs, hk, hl⟩ := peel (single_sym _) hl
  simp only [List.mem_singleton] at hk
  unfold setting?
  rw [hcs] at hc ⊢
  cases lang_alt_inv hl with
  | inl hl =>
    obtain ⟨v, cs2, rfl, hv, hl⟩ := peel single_value hl
    cases eps_nil hl
    obtain ⟨val, hval⟩ := value_some (hc v (by simp)) hv
    simp [hk, hval]
  | inr hl =>
    obtain ⟨ix, cs2, rfl, hix, hl⟩ := peel single_num hl
    obtain ⟨v, cs3, rfl, hv, hl⟩ := peel single_value hl
    cases eps_nil hl
    obtain ⟨n, hn⟩ := numTok_some hix
    obtain ⟨val, hval⟩ := value_some (hc v (by simp)) hv
    simp [hk, hn, hval]

/-! ### `Text(n)="…"` / `Value(n)="…"` lines -/

theorem valueLines_some (rule : Rule) (hacc : acc rule = Rx.seqs [num, .sym .string_literal, .eps]) :
    ∀ {ps : List Pair}, (∀ p ∈ ps, p.rule ∈ [rule] ∧ OK p) → ∃ ls, valueLines? rule ps = some ls
  | [], _ => ⟨[], rfl⟩
  | p :: rest, h => by
    obtain ⟨hr, hok⟩ := h p (List.mem_cons_self ..)
    simp only [List.mem_singleton] at hr
    obtain ⟨hl, _⟩ := ok_inv hok
    rw [hr, hacc] at hl
    obtain ⟨n, cs1, hcs, hn, hl⟩ := peel single_num hl
    obtain ⟨t, cs2, rfl, ht, hl⟩ := peel (single_sym _) hl
    cases eps_nil hl
    obtain ⟨nv, hnv⟩ := numTok_some hn
    obtain ⟨ls, hls⟩ := valueLines_some rule hacc (ps := rest) (fun q hq => h q (List.mem_cons_of_mem _ hq))
    simp [valueLines?, hr, hcs, hnv, strLit_some ht, hls]

/-! ### `ExtUserPrmData` -/

theorem typeName_some {p : Pair} (hok : OK p) (hr : p.rule ∈ [Rule.prm_data_type_name]) :
    ∃ t, typeName? p = some t := by
  simp only [List.mem_singleton] at hr
  obtain ⟨hl, hc⟩ := ok_inv hok
  rw [hr] at hl
  simp only [acc] at hl
  obtain ⟨t, cs1, hcs, ht, hl⟩ :=
    peel (single_alt (single_sym _) (single_alt (single_sym _) (single_sym _))) hl
  cases eps_nil hl
  have hokt := hc t (by simp [hcs])
  obtain ⟨hlt, _⟩ := ok_inv hokt
  unfold typeName?
  simp only [List.cons_append, List.nil_append, List.mem_cons, List.not_mem_nil, or_false] at ht
  rcases ht with ht | ht | ht
  · simp [hr, hcs, ht]
  · rw [ht] at hlt
    obtain ⟨n, hn, hnum⟩ := one_num (by simpa only [acc] using hlt)
    obtain ⟨nv, hnv⟩ := numTok_some hnum
    simp [hr, hcs, ht, hn, hnv]
  · rw [ht] at hlt
    obtain ⟨a, b, hab, ha, hb⟩ := two_num (by simpa only [acc] using hlt)
    obtain ⟨av, hav⟩ := numTok_some ha
    obtain ⟨bv, hbv⟩ := numTok_some hb
    simp [hr, hcs, ht, hab, hav, hbv]

/-- `prm_text_ref?`, `prm_data_changeable?`, `prm_data_visible?`: an optional leading pair of rule `r`
(whose single child is a number) is peeled exactly when the word has one. -/
theorem optNumChild_spec (r : Rule) (hacc : acc r = Rx.seqs [num, .eps]) {b : Rx} {cs : List Pair}
    (hd : r ∉ b.firsts) (hc : ∀ c ∈ cs, OK c) (h : Lang (.seq (Rx.opt (.sym r)) b) (ruleWord cs)) :
    ∃ x cs', optNumChild r cs = some (x, cs') ∧ Lang b (ruleWord cs') ∧ ∀ c ∈ cs', OK c := by
  rcases peel_opt (single_sym r) (by intro x hx; simp only [List.mem_singleton] at hx; exact hx ▸ hd) h with
    ⟨hb, hno⟩ | ⟨c, cs', rfl, hcr, hb⟩
  · cases cs with
    | nil => exact ⟨none, [], rfl, hb, hc⟩
    | cons c cs' =>
      have := hno c cs' rfl
      simp only [List.mem_singleton] at this
      exact ⟨none, c :: cs', by simp [optNumChild, this], hb, hc⟩
  · simp only [List.mem_singleton] at hcr
    obtain ⟨hl, _⟩ := ok_inv (hc c (List.mem_cons_self ..))
    rw [hcr, hacc] at hl
    obtain ⟨n, hn, hnum⟩ := one_num hl
    obtain ⟨nv, hnv⟩ := numTok_some hnum
    exact ⟨some nv, cs', by simp [optNumChild, hcr, hn, hnv], hb, fun q hq => hc q (List.mem_cons_of_mem _ hq)⟩

/-- The optional-constraint step of `extPrm?`, named (definitionally what `extPrm?` does inline). -/
def constraint? (rest : List Pair) : Option (Option PrmConstraintAst × List Pair) :=
  match rest with
  | q :: rest' =>
    if q.rule = .prm_data_value_range then
      match q.children with
      | [a, b] => do
        let a ← numTok? a
        let b ← numTok? b
        pure (some (PrmConstraintAst.range a b), rest')
      | _ => none
    else if q.rule = .prm_data_value_set then do
      let vs ← numToks? q.children
      pure (some (PrmConstraintAst.set vs), rest')
    else some (none, rest)
  | [] => some (none, [])

theorem extPrm?_eq (p : Pair) : extPrm? p =
    match p.children with
    | id :: name :: ty :: dflt :: rest => do
      let id ← numTok? id
      let name ← strLit? name
      let typ ← typeName? ty
      let default ← numTok? dflt
      let (constraint, rest) ← constraint? rest
      let (textRef, rest) ← optNumChild .prm_text_ref rest
      let (changeable, rest) ← optNumChild .prm_data_changeable rest
      let (visible, rest) ← optNumChild .prm_data_visible rest
      if rest.isEmpty then pure { id, name, typ, default, constraint, textRef, changeable, visible } else none
    | _ => none := rfl

theorem constraint_spec {b : Rx} {cs : List Pair}
    (hd : ∀ x ∈ [Rule.prm_data_value_range] ++ [Rule.prm_data_value_set], x ∉ b.firsts) (hc : ∀ c ∈ cs, OK c)
    (h : Lang (.seq (Rx.opt (.alt (.sym .prm_data_value_range) (.sym .prm_data_value_set))) b) (ruleWord cs)) :
    ∃ x cs', constraint? cs = some (x, cs') ∧ Lang b (ruleWord cs') ∧ ∀ c ∈ cs', OK c := by
  rcases peel_opt (single_alt (single_sym _) (single_sym _)) hd h with ⟨hb, hno⟩ | ⟨q, cs5, rfl, hq, hb⟩
  · cases cs with
    | nil => exact ⟨none, [], rfl, hb, hc⟩
    | cons q rest' =>
      have := hno q rest' rfl
      simp only [List.cons_append, List.nil_append, List.mem_cons, List.not_mem_nil, or_false, not_or] at this
      exact ⟨none, q :: rest', by simp [constraint?, this.1, this.2], hb, hc⟩
  · obtain ⟨hlq, _⟩ := ok_inv (hc q (List.mem_cons_self ..))
    have hc5 : ∀ c ∈ cs5, OK c := fun c h => hc c (List.mem_cons_of_mem _ h)
    simp only [List.cons_append, List.nil_append, List.mem_cons, List.not_mem_nil, or_false] at hq
    rcases hq with hq | hq
    · rw [hq] at hlq
      obtain ⟨a, b, hab, ha, hb'⟩ := two_num (by simpa only [acc] using hlq)
      obtain ⟨av, hav⟩ := numTok_some ha
      obtain ⟨bv, hbv⟩ := numTok_some hb'
      exact ⟨some (.range av bv), cs5, by simp [constraint?, hq, hab, hav, hbv], hb, hc5⟩
    · rw [hq] at hlq
      obtain ⟨vs, hvs⟩ := numToks_some (star_num (by simpa only [acc] using hlq))
      exact ⟨some (.set vs), cs5, by simp [constraint?, hq, hvs], hb, hc5⟩

theorem extPrm_some {p : Pair} (hok : OK p) (hr : p.rule = .ext_user_prm_data) : ∃ e, extPrm? p = some e := by
  obtain ⟨hl, hc⟩ := ok_inv hok
  rw [hr] at hl
  simp only [acc] at hl
  obtain ⟨id, cs1, hcs, hid, hl⟩ := peel single_num hl
  obtain ⟨name, cs2, rfl, hname, hl⟩ := peel (single_sym _) hl
  obtain ⟨ty, cs3, rfl, hty, hl⟩ := peel (single_sym _) hl
  obtain ⟨dflt, cs4, rfl, hdflt, hl⟩ := peel single_num hl
  rw [hcs] at hc
  obtain ⟨idv, hidv⟩ := numTok_some hid
  obtain ⟨tyv, htyv⟩ := typeName_some (hc ty (by simp)) hty
  obtain ⟨dv, hdv⟩ := numTok_some hdflt
  have hc4 : ∀ c ∈ cs4, OK c := fun c h => hc c (by simp [h])
  obtain ⟨con, cs5, hcon, hl, hc5⟩ := constraint_spec (by decide) hc4 hl
  obtain ⟨tr, cs6, htr, hl, hc6⟩ := optNumChild_spec .prm_text_ref rfl (by decide) hc5 hl
  obtain ⟨ch, cs7, hch, hl, hc7⟩ := optNumChild_spec .prm_data_changeable rfl (by decide) hc6 hl
  obtain ⟨vi, cs8, hvi, hl, _⟩ := optNumChild_spec .prm_data_visible rfl (by decide) hc7 hl
  cases eps_nil hl
  rw [extPrm?_eq, hcs]
  simp [hidv, strLit_some hname, htyv, hdv, hcon, htr, hch, hvi]

/-! ### `Module` -/

theorem modItems_some : ∀ {ps : List Pair},
    (∀ p ∈ ps, p.rule ∈ [Rule.module_reference, .setting, .data_area] ∧ OK p) → ∃ is, modItems? ps = some is
  | [], _ => ⟨[], rfl⟩
  | p :: rest, h => by
    obtain ⟨hr, hok⟩ := h p (List.mem_cons_self ..)
    obtain ⟨is, his⟩ := modItems_some (ps := rest) (fun q hq => h q (List.mem_cons_of_mem _ hq))
    simp only [List.mem_cons, List.not_mem_nil, or_false] at hr
    unfold modItems?
    rcases hr with hr | hr | hr
    · obtain ⟨hl, _⟩ := ok_inv hok
      rw [hr] at hl
      obtain ⟨n, hn, hnum⟩ := one_num (by simpa only [acc] using hl)
      obtain ⟨nv, hnv⟩ := numTok_some hnum
      simp [hr, hn, hnv, his]
    · obtain ⟨sv, hsv⟩ := setting_some hok hr
      simp [hr, hsv, his]
    · simp [hr, his]

theorem module_some {p : Pair} (hok : OK p) (hr : p.rule = .module) : ∃ m, module? p = some m := by
  obtain ⟨hl, hc⟩ := ok_inv hok
  rw [hr] at hl
  simp only [acc] at hl
  obtain ⟨name, cs1, hcs, hname, hl⟩ := peel (single_sym _) hl
  obtain ⟨cfg, cs2, rfl, hcfg, hl⟩ := peel (single_sym _) hl
  rw [hcs] at hc
  simp only [List.mem_singleton] at hcfg
  obtain ⟨hlc, _⟩ := ok_inv (hc cfg (by simp))
  rw [hcfg] at hlc
  obtain ⟨ns, hns⟩ := numToks_some (star_num (by simpa only [acc] using hlc))
  have hitems := star_single (single_alt (single_sym _) (single_alt (single_sym _) (single_sym _))) hl
  obtain ⟨is, his⟩ := modItems_some (ps := cs2) (fun q hq => ⟨hitems q hq, hc q (by simp [hq])⟩)
  unfold module?
  rw [hcs]
  simp [strLit_some hname, hcfg, hns, his]

/-! ### `SlotDefinition` -/

theorem slots_some : ∀ {ps : List Pair}, (∀ p ∈ ps, p.rule ∈ [Rule.slot] ∧ OK p) → ∃ ss, slots? ps = some ss
  | [], _ => ⟨[], rfl⟩
  | p :: rest, h => by
    obtain ⟨hr, hok⟩ := h p (List.mem_cons_self ..)
    obtain ⟨ss, hss⟩ := slots_some (ps := rest) (fun q hq => h q (List.mem_cons_of_mem _ hq))
    simp only [List.mem_singleton] at hr
    obtain ⟨hl, hc⟩ := ok_inv hok
    rw [hr] at hl
    simp only [acc] at hl
    obtain ⟨n, cs1, hcs, hn, hl⟩ := peel single_num hl
    obtain ⟨name, cs2, rfl, hname, hl⟩ := peel (single_sym _) hl
    obtain ⟨d, cs3, rfl, hd, hl⟩ := peel single_num hl
    obtain ⟨a, cs4, rfl, ha, hl⟩ := peel (single_alt (single_sym _) (single_sym _)) hl
    cases eps_nil hl
    rw [hcs] at hc
    obtain ⟨nv, hnv⟩ := numTok_some hn
    obtain ⟨dv, hdv⟩ := numTok_some hd
    obtain ⟨hla, _⟩ := ok_inv (hc a (by simp))
    simp only [List.cons_append, List.nil_append, List.mem_cons, List.not_mem_nil, or_false] at ha
    unfold slots?
    rcases ha with ha | ha
    · rw [ha] at hla
      obtain ⟨x, y, hxy, hx, hy⟩ := two_num (by simpa only [acc] using hla)
      obtain ⟨xv, hxv⟩ := numTok_some hx
      obtain ⟨yv, hyv⟩ := numTok_some hy
      simp [hr, hcs, hnv, strLit_some hname, hdv, ha, hxy, hxv, hyv, hss]
    · rw [ha] at hla
      obtain ⟨vs, hvs⟩ := numToks_some (star_num (by simpa only [acc] using hla))
      simp [hr, hcs, hnv, strLit_some hname, hdv, ha, hvs, hss]

/-! ### Statements -/

theorem stmt_some {p : Pair} (hok : OK p)
    (hr : p.rule ∈ [Rule.prm_text, .ext_user_prm_data, .module, .slot_definition, .unit_diag_area, .setting,
      .unit_diag_type, .version_dl_definition, .physical_interface, .jokerblock_type, .any_text, .start, .EOI]) :
    ∃ s, stmt? p = some s := by
  obtain ⟨hl, hc⟩ := ok_inv hok
  simp only [List.mem_cons, List.not_mem_nil, or_false] at hr
  unfold stmt?
  rcases hr with hr | hr | hr | hr | hr | hr | hr | hr | hr | hr | hr | hr | hr
  · rw [hr] at hl
    simp only [acc] at hl
    obtain ⟨id, lines, hcs, hid, hl⟩ := peel single_num hl
    obtain ⟨idv, hidv⟩ := numTok_some hid
    have hlines := star_single (single_sym _) hl
    obtain ⟨ls, hls⟩ := valueLines_some .prm_text_value rfl (ps := lines)
      (fun q hq => ⟨hlines q hq, hc q (by simp [hcs, hq])⟩)
    simp [hr, hcs, hidv, hls]
  · obtain ⟨e, he⟩ := extPrm_some hok hr
    simp [hr, he]
  · obtain ⟨m, hm⟩ := module_some hok hr
    simp [hr, hm]
  · rw [hr] at hl
    simp only [acc] at hl
    have hs := star_single (single_sym _) hl
    obtain ⟨ss, hss⟩ := slots_some (ps := p.children) (fun q hq => ⟨hs q hq, hc q hq⟩)
    simp [hr, hss]
  · rw [hr] at hl
    simp only [acc] at hl
    obtain ⟨a, cs1, hcs, ha, hl⟩ := peel single_num hl
    obtain ⟨b, lines, rfl, hb, hl⟩ := peel single_num hl
    obtain ⟨av, hav⟩ := numTok_some ha
    obtain ⟨bv, hbv⟩ := numTok_some hb
    have hlines := star_single (single_sym _) hl
    obtain ⟨ls, hls⟩ := valueLines_some .unit_diag_area_value rfl (ps := lines)
      (fun q hq => ⟨hlines q hq, hc q (by simp [hcs, hq])⟩)
    simp [hr, hcs, hav, hbv, hls]
  · obtain ⟨sv, hsv⟩ := setting_some hok hr
    simp [hr, hsv]
  all_goals simp [hr]

theorem stmts_some : ∀ {ps : List Pair},
    (∀ p ∈ ps, p.rule ∈ [Rule.prm_text, .ext_user_prm_data, .module, .slot_definition, .unit_diag_area, .setting,
      .unit_diag_type, .version_dl_definition, .physical_interface, .jokerblock_type, .any_text, .start, .EOI]
      ∧ OK p) → ∃ ast, stmts? ps = some ast
  | [], _ => ⟨[], rfl⟩
  | p :: rest, h => by
    obtain ⟨hr, hok⟩ := h p (List.mem_cons_self ..)
    obtain ⟨sv, hsv⟩ := stmt_some hok hr
    obtain ⟨more, hmore⟩ := stmts_some (ps := rest) (fun q hq => h q (List.mem_cons_of_mem _ hq))
    simp [stmts?, hsv, hmore]

theorem single_stmt : Single stmtRx
    [Rule.prm_text, .ext_user_prm_data, .module, .slot_definition, .unit_diag_area, .setting,
      .unit_diag_type, .version_dl_definition, .physical_interface, .jokerblock_type, .any_text, .start, .EOI] :=
  single_alt (single_sym _) <| single_alt (single_sym _) <| single_alt (single_sym _) <|
  single_alt (single_sym _) <| single_alt (single_sym _) <| single_alt (single_sym _) <|
  single_alt (single_sym _) <| single_alt (single_sym _) <| single_alt (single_sym _) <|
  single_alt (single_sym _) <| single_alt (single_sym _) <| single_alt (single_sym _) (single_sym _)

/-- **`toAst` is total on `OK` trees headed by `gsd`.** -/
theorem toAst_total {p : Pair} (hok : OK p) (hr : p.rule = .gsd) : ∃ ast, toAst p = some ast := by
  obtain ⟨hl, hc⟩ := ok_inv hok
  rw [hr] at hl
  simp only [acc] at hl
  have hs := star_single single_stmt hl
  obtain ⟨ast, hast⟩ := stmts_some (ps := p.children) (fun q hq => ⟨hs q hq, hc q hq⟩)
  exact ⟨ast, by simp [toAst, hr, hast]⟩

end PV.Gsd.Peg
