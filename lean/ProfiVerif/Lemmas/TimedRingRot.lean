/-
Timed ring with application traffic: the hold-time logic bounds the real rotation time of the
two-station ring.  Helper lemmas (C13 ring-level clause).
-/
import ProfiVerif.Lemmas.TimedRingNSys
import ProfiVerif.Lemmas.TimedRingHold

namespace PV
open StationGap TokenRing

/-- What `Net.poll` did when it reports a regular poll result. -/
theorem Net.poll_inv (n : Net) (i : Nat) (now : Int) (n' : Net) (inc : Bytes) (c : Ctx)
    (h : n.poll i now = (n', inc, some (.ok c))) :
    ∃ st phy rx, n.stations[i]? = some st ∧ st.s.poll st.apps now phy rx = .ok c ∧
      n'.stations = n.stations.set i (upSt st c) := by
  unfold Net.poll at h
  rcases hd : n.bus.deliver i now with ⟨bus, incoming⟩
  rw [hd] at h
  simp only at h
  cases hs : n.stations[i]? with
  | none => rw [hs] at h; simp only at h; cases h
  | some st =>
    rw [hs] at h
    simp only at h
    split at h
    · cases h
    · split at h
      · rename_i m hr
        simp only [Prod.mk.injEq, Option.some.injEq] at h
        obtain ⟨-, -, h3⟩ := h
        rw [hr] at h3; cases h3
      · rename_i c0 hr
        simp only [Prod.mk.injEq, Option.some.injEq] at h
        obtain ⟨h1, -, h3⟩ := h
        rw [hr] at h3
        cases h3
        refine ⟨st, _, _, rfl, hr, ?_⟩
        rw [← h1]
        rfl

/-! ## Time constants -/

/-- Longest telegram time (255 characters). -/
def Cfg.tmax (c : Cfg) : Nat := bitsToTime c.rate (11 * 255)
/-- Longest message cycle as seen by the schedule: telegram, slot time, one poll gap. -/
def Cfg.cyc (c : Cfg) : Nat := c.tmax + c.slot + c.P
/-- An unanswered GAP request: request, slot time, one poll gap. -/
def Cfg.gapT (c : Cfg) : Nat := c.b66 + c.slot + c.P
/-- Token transfer: the token telegram and one poll gap. -/
def Cfg.hand (c : Cfg) : Nat := c.ce 2 + c.P
/-- **Per-station overshoot**: one message cycle, one GAP request, one token transfer. -/
def Cfg.over (c : Cfg) : Nat := c.cyc + c.gapT + c.hand

/-- Latest start of the last transmit-poll of a visit accepted at `acc` with hold deadline at most `Eb`. -/
def qb (cfg : Cfg) (acc Eb : Int) : Int := max Eb (acc + (cfg.b33 : Nat) + (cfg.P : Nat)) + (cfg.cyc : Nat)

/-- Bookkeeping of a station that uses the token of the visit begun at `acc`, deadline at most `Eb`. -/
def UseT (s : Station) (acc Eb : Int) : Prop :=
  visitTime s.st = some acc ∧ lateFlag s.st = true ∧ s.lastTokenTime = acc ∧ s.endTokenHoldTime ≤ Eb

/-- Phase-specific part of the timing invariant (`s` the station whose turn it is, `H` the horizon,
`start` the start of the last transmission). -/
def TPh (cfg : Cfg) (ph : PhaseN) (s : Station) (H start acc Eb : Int) : Prop :=
  match ph with
  | .hold p1 => p1 = acc ∧ visitTime s.st = some acc ∧
      ((s.lastTokenTime = acc ∧ s.endTokenHoldTime ≤ Eb) ∨
       (s.lastTokenTime ≠ acc ∧ s.lastTokenTime + ((s.p.ttrTime : Nat) : Int) ≤ Eb))
  | .holdT => UseT s acc Eb ∧ H ≤ qb cfg acc Eb ∧ acc < start
  | .await _ => UseT s acc Eb ∧ H ≤ qb cfg acc Eb ∧ acc < start
  | .gap _ => s.lastTokenTime = acc ∧ H ≤ qb cfg acc Eb + (cfg.gapT : Nat) ∧ acc < start
  | .pass => s.lastTokenTime = acc ∧ start ≤ qb cfg acc Eb + (cfg.gapT : Nat) ∧ acc < start

/-- **Timing invariant of the two-station ring** (`acc` = when the station whose turn it is accepted the
token, `Eb` = bound of its hold deadline, `TT` = largest target rotation time). -/
structure TInv (cfg : Cfg) (TT : Nat) (n : Net) (v : NView) (acc Eb : Int) : Prop where
  two : n.stations.length = 2
  ttr : ∀ (j : Nat) (st : NetStation), n.stations[j]? = some st → st.s.p.ttrTime ≤ TT
  big : cfg.b33 + cfg.P ≤ TT
  oth : ∃ sy, n.stations[1 - v.x]? = some sy ∧ Eb ≤ sy.s.lastTokenTime + (TT : Int) ∧
    acc ≤ sy.s.lastTokenTime + (TT : Int) + (cfg.over : Nat) ∧ sy.s.lastTokenTime ≤ acc
  seen : acc ≤ n.bus.seen.getD v.x 0
  ph : TPh cfg v.ph v.sx.s v.H v.tr.start acc Eb

theorem LOk.ringState {cfg : Cfg} {M : List Nat} {adr : Nat → Nat} {b : Bus} {H Lo : Int} {j : Nat} {st : NetStation}
    (h : LOk cfg M adr b H Lo j st) : RingState st.s.st ∧ visitTime st.s.st = none ∧ st.s.online = true := by
  obtain ⟨hok, dn, rs, idle, l, -, -, -, -, -, -, -, -, -, -, -, h10⟩ := h
  cases idle with
  | true =>
    simp only [if_true] at h10
    obtain ⟨⟨np, coll, hs⟩, -⟩ := h10
    exact ⟨.inl ⟨_, _, _, hs⟩, by rw [hs]; rfl, hok.son⟩
  | false =>
    simp only [Bool.false_eq_true, if_false] at h10
    exact ⟨.inr (.inl ⟨_, h10.1⟩), by rw [h10.1]; rfl, hok.son⟩

/-- The rotation bound: `TTR + 2·overshoot + bits 33 + P`. -/
def Cfg.rot (c : Cfg) (TT : Nat) : Nat := TT + 2 * c.over + c.b33 + c.P

theorem NInv.xState {cfg : Cfg} {M : List Nat} {adr : Nat → Nat} {n : Net} {v : NView} (h : NInv cfg M adr n v) :
    RingState v.sx.s.st := by
  have hP := h.ph
  unfold PhaseOkN at hP
  cases hph : v.ph with
  | hold p1 => rw [hph] at hP; obtain ⟨⟨d, f, hs⟩, -⟩ := hP; exact .inr (.inr (.inr (.inl ⟨d, f, hs⟩)))
  | holdT => rw [hph] at hP; obtain ⟨-, -, ⟨d, f, hs⟩, -⟩ := hP; exact .inr (.inr (.inr (.inl ⟨d, f, hs⟩)))
  | gap g => rw [hph] at hP; obtain ⟨-, -, hs, -⟩ := hP; exact .inr (.inr (.inl ⟨g, hs⟩))
  | pass => rw [hph] at hP; obtain ⟨-, -, hs, -⟩ := hP; exact .inr (.inl ⟨_, hs⟩)
  | await a => rw [hph] at hP; obtain ⟨-, -, ⟨d, hs⟩, -⟩ := hP; exact .inr (.inr (.inr (.inr ⟨a, d, hs⟩)))

/-- State of the station whose turn it is, by phase: in a visit or not. -/
theorem NInv.xVisit {cfg : Cfg} {M : List Nat} {adr : Nat → Nat} {n : Net} {v : NView} (h : NInv cfg M adr n v) :
    (v.ph.useLike → visitTime v.sx.s.st ≠ none) ∧ (¬ v.ph.useLike → visitTime v.sx.s.st = none) := by
  have hP := h.ph
  unfold PhaseOkN at hP
  cases hph : v.ph with
  | hold p1 =>
    rw [hph] at hP; obtain ⟨⟨d, f, hs⟩, -⟩ := hP
    exact ⟨fun _ => by rw [hs]; simp [visitTime], fun hn => absurd trivial hn⟩
  | holdT =>
    rw [hph] at hP; obtain ⟨-, -, ⟨d, f, hs⟩, -⟩ := hP
    exact ⟨fun _ => by rw [hs]; simp [visitTime], fun hn => absurd trivial hn⟩
  | gap g =>
    rw [hph] at hP; obtain ⟨-, -, hs, -⟩ := hP
    exact ⟨fun hu => absurd hu (by simp [PhaseN.useLike]), fun _ => by rw [hs]; rfl⟩
  | pass =>
    rw [hph] at hP; obtain ⟨-, -, hs, -⟩ := hP
    exact ⟨fun hu => absurd hu (by simp [PhaseN.useLike]), fun _ => by rw [hs]; rfl⟩
  | await a =>
    rw [hph] at hP; obtain ⟨-, -, ⟨d, hs⟩, -⟩ := hP
    exact ⟨fun _ => by rw [hs]; simp [visitTime], fun hn => absurd trivial hn⟩

theorem frameSpec_ne_sendToken (h : Header) (pdu : Bytes) (da sa : UInt8) : frameSpec h pdu ≠ sendToken da sa := by
  intro e
  have := congrArg (fun l => l.head?) e
  unfold frameSpec sendToken at this
  simp only at this
  split at this
  · simp [SD1, SD4] at this
  · split at this
    · simp [SD3, SD4] at this
    · simp [SD2, SD4] at this

theorem tmax_bound (cfg : Cfg) (k : Nat) (hk : k ≤ 255) : bitsToTime cfg.rate (11 * k) ≤ cfg.tmax := by
  unfold Cfg.tmax bitsToTime
  apply Nat.div_le_div_right
  apply Nat.mul_le_mul_right
  omega

theorem qb_ge (cfg : Cfg) (acc Eb : Int) :
    Eb + (cfg.cyc : Nat) ≤ qb cfg acc Eb ∧ acc + (cfg.b33 : Nat) + (cfg.P : Nat) + (cfg.cyc : Nat) ≤ qb cfg acc Eb := by
  unfold qb; omega

/-- **A listener is polled** (two stations): the timing invariant is kept; if it accepts the token, the
time since its previous receipt is at most the rotation bound. -/
theorem rot_stepA {cfg : Cfg} {M : List Nat} {adr : Nat → Nat} {n : Net} {v : NView} (h : NInv cfg M adr n v)
    (hok : cfg.Ok) {TT : Nat} {acc Eb : Int} (t : TInv cfg TT n v acc Eb) (i : Nat) (now : Int)
    (e : EvOkN cfg n v.tl i now) (hix : i ≠ v.x) (n' : Net) (v' : NView) (inc : Bytes) (c : Ctx)
    (hp : n.poll i now = (n', inc, some (.ok c))) (hinv' : NInv cfg M adr n' v') (htl' : v'.tl = now)
    (hcase : c.tx = none ∧ v'.tr = v.tr ∧
      ((v'.ph = v.ph ∧ v'.x = v.x ∧ v'.H = v.H) ∨ (v.ph = .pass ∧ v'.ph = .hold now ∧ v'.x = i ∧ i ≠ v.x))) :
    ∃ acc' Eb', TInv cfg TT n' v' acc' Eb' ∧
      (∀ st, n.stations[i]? = some st → visitTime st.s.st = none → visitTime c.s.st = some now →
        now ≤ st.s.lastTokenTime + ((cfg.rot TT : Nat) : Int)) := by
  obtain ⟨st, phy, rx, hst, hpoll, hset⟩ := Net.poll_inv n i now n' inc c hp
  have hil : i < n.stations.length := e.ilt
  have hfr := (poll_frame st.s st.apps now phy rx c hpoll).1
  have hseen : n'.bus.seen = n.bus.seen.set i now := by
    have := Net.poll_seenN n i now; rw [hp] at this; exact this
  have hlen' : n'.stations.length = 2 := by rw [hset, List.length_set]; exact t.two
  have httr' : ∀ (j : Nat) (st' : NetStation), n'.stations[j]? = some st' → st'.s.p.ttrTime ≤ TT := by
    intro j st' hj
    rw [hset] at hj
    by_cases hji : j = i
    · subst hji
      rw [List.getElem?_set_self hil] at hj
      cases hj
      show c.s.p.ttrTime ≤ TT
      rw [hfr]; exact t.ttr _ _ hst
    · rw [List.getElem?_set_ne (Ne.symm hji)] at hj; exact t.ttr _ _ hj
  have hxl := h.xlt
  have h2 := t.two
  have hiy : 1 - v.x = i := by omega
  obtain ⟨sy, hsy, o1, o2, o3⟩ := t.oth
  rw [hiy, hst] at hsy
  cases hsy
  obtain ⟨st2, hst2, hL⟩ := h.lis i hil hix
  rw [hst] at hst2
  cases hst2
  obtain ⟨hrs, hvn, hon⟩ := hL.ringState
  have rel := poll_holdRel st.s st.apps now phy rx c hon hrs hpoll
  have hk := rel.keep hvn
  obtain ⟨htx, htr, hview⟩ := hcase
  have hgx' := hinv'.gx
  have hxs : v.x < n.bus.seen.length := by rw [h.log.seen]; exact h.xlt
  have his : i < n.bus.seen.length := by rw [h.log.seen]; exact hil
  rcases hview with ⟨hph, hx', hH'⟩ | ⟨hpass, hph', hx', -⟩
  · -- stays a listener
    have hsx' : v'.sx = v.sx := by
      rw [hx', hset, List.getElem?_set_ne hix, h.gx] at hgx'
      exact (Option.some.inj hgx').symm
    refine ⟨acc, Eb, ⟨hlen', httr', t.big, ?_, ?_, ?_⟩, ?_⟩
    · rw [hx', hiy]
      refine ⟨upSt st c, by rw [hset]; exact List.getElem?_set_self hil, ?_, ?_, ?_⟩
      · show Eb ≤ c.s.lastTokenTime + _; rw [hk.1]; exact o1
      · show acc ≤ c.s.lastTokenTime + _ + _; rw [hk.1]; exact o2
      · show c.s.lastTokenTime ≤ acc; rw [hk.1]; exact o3
    · rw [hx', hseen, seen_set_other _ _ _ _ hix]; exact t.seen
    · rw [hph, hsx', hH', htr]; exact t.ph
    · intro st0 hst0 _ hvs
      exfalso
      obtain ⟨st3, hst3, hL3⟩ := hinv'.lis i (by rw [hlen', ← h2]; exact hil) (by rw [hx']; exact hix)
      rw [hset, List.getElem?_set_self hil] at hst3
      cases hst3
      have := hL3.ringState.2.1
      have hc : visitTime c.s.st = none := this
      rw [hc] at hvs; cases hvs
  · -- accepts the token
    have hsx' : v'.sx = upSt st c := by
      rw [hx', hset, List.getElem?_set_self hil] at hgx'
      exact (Option.some.inj hgx').symm
    have hP := h.ph
    unfold PhaseOkN at hP
    rw [hpass] at hP
    obtain ⟨-, hbytes, -, -, -, -, -, -⟩ := hP
    have hlen : v.tr.bytes.length = 3 := by rw [hbytes]; rfl
    have hce : cEnd cfg v.tr = v.tr.start + ((cfg.ce 2 : Nat) : Int) := by unfold cEnd; rw [hlen]
    have hP' := hinv'.ph
    unfold PhaseOkN at hP'
    rw [hph'] at hP'
    obtain ⟨⟨d, f, hcs⟩, -, -, -, -, -, -, -, hlate⟩ := hP'
    rw [htr, hce] at hlate
    have hT := t.ph
    rw [hpass] at hT
    obtain ⟨hLx, hstart, haccs⟩ := hT
    have htl := h.tlt v.tr (by rw [h.txs]; simp)
    have hnow := e.tl
    have hbig := t.big
    have httry := t.ttr _ _ hst
    have hbound : now ≤ max Eb (acc + (cfg.b33 : Nat) + (cfg.P : Nat)) + (cfg.over : Nat) := by
      unfold qb at hstart
      unfold Cfg.over Cfg.hand
      push_cast
      omega
    refine ⟨now, st.s.lastTokenTime + ((st.s.p.ttrTime : Nat) : Int), ⟨hlen', httr', t.big, ?_, ?_, ?_⟩, ?_⟩
    · have hxi : 1 - v'.x = v.x := by rw [hx']; omega
      rw [hxi]
      refine ⟨v.sx, by rw [hset, List.getElem?_set_ne hix]; exact h.gx, ?_, ?_, ?_⟩
      · rw [hLx]; omega
      · rw [hLx]; omega
      · rw [hLx]; omega
    · rw [hx', hseen, seen_set_self _ _ _ his]; exact Int.le_refl _
    · rw [hph', hsx']
      refine ⟨rfl, ?_, .inr ⟨?_, ?_⟩⟩
      · show visitTime c.s.st = some now
        have hc' : v'.sx.s.st = c.s.st := by rw [hsx']; rfl
        rw [hc'] at hcs
        rcases rel.vis with a1 | a2 | a3 | a3
        · rw [a1] at hcs; rw [hcs] at hvn; simp [visitTime] at hvn
        · exact absurd hvn a2.2.1
        · rw [hcs] at a3; simp [visitTime] at a3
        · exact a3.1
      · show c.s.lastTokenTime ≠ now; rw [hk.1]; omega
      · show c.s.lastTokenTime + ((c.s.p.ttrTime : Nat) : Int) ≤ _; rw [hk.1, hfr]; exact Int.le_refl _
    · intro st0 hst0 _ _
      rw [hst] at hst0
      cases hst0
      unfold Cfg.rot
      push_cast
      omega

/-- **The station whose turn it is is polled** (two stations): the timing invariant is kept. -/
theorem rot_stepB {cfg : Cfg} {M : List Nat} {adr : Nat → Nat} {n : Net} {v : NView} (h : NInv cfg M adr n v)
    (hok : cfg.Ok) {TT : Nat} {acc Eb : Int} (t : TInv cfg TT n v acc Eb) (now : Int)
    (e : EvOkN cfg n v.tl v.x now) (n' : Net) (v' : NView) (inc : Bytes) (c : Ctx)
    (hp : n.poll v.x now = (n', inc, some (.ok c))) (hinv' : NInv cfg M adr n' v') (htl' : v'.tl = now)
    (hcase : (c.tx = none ∧ v'.tr = v.tr ∧ v'.ph = v.ph ∧ v'.x = v.x ∧ v'.H = v.H) ∨
      (∃ b, c.tx = some b ∧ v'.tr = { start := now, sender := v.x, bytes := b, dropped := false } ∧ v'.x = v.x ∧
        ((∃ g, v'.ph = .gap g ∧ v.ph.useLike) ∨ (v'.ph = .pass ∧ v.ph ≠ .pass) ∨
         (∃ hd pdu, b = frameSpec hd pdu ∧ hd.lengthByte pdu.length ≤ 249 ∧ (v'.ph = .holdT ∨ ∃ a, v'.ph = .await a) ∧
            v.ph.useLike)))) :
    TInv cfg TT n' v' acc Eb ∧
      (∀ st, n.stations[v.x]? = some st → visitTime st.s.st = none → visitTime c.s.st = some now → False) := by
  obtain ⟨st, phy, rx, hst, hpoll, hset⟩ := Net.poll_inv n v.x now n' inc c hp
  rw [h.gx] at hst
  cases hst
  have hil : v.x < n.stations.length := h.xlt
  have hfr := (poll_frame v.sx.s v.sx.apps now phy rx c hpoll).1
  have hseen : n'.bus.seen = n.bus.seen.set v.x now := by
    have := Net.poll_seenN n v.x now; rw [hp] at this; exact this
  have hlen' : n'.stations.length = 2 := by rw [hset, List.length_set]; exact t.two
  have httr' : ∀ (j : Nat) (st' : NetStation), n'.stations[j]? = some st' → st'.s.p.ttrTime ≤ TT := by
    intro j st' hj
    rw [hset] at hj
    by_cases hji : j = v.x
    · subst hji
      rw [List.getElem?_set_self hil] at hj
      cases hj
      show c.s.p.ttrTime ≤ TT
      rw [hfr]; exact t.ttr _ _ h.gx
    · rw [List.getElem?_set_ne (Ne.symm hji)] at hj; exact t.ttr _ _ hj
  have h2 := t.two
  have rel := poll_holdRel v.sx.s v.sx.apps now phy rx c h.okx.son h.xState hpoll
  have hxs : v.x < n.bus.seen.length := by rw [h.log.seen]; exact h.xlt
  have hacc : acc < now := by have := t.seen; have := e.own; omega
  have hgx' := hinv'.gx
  have hx' : v'.x = v.x := by
    rcases hcase with ⟨-, -, -, hx, -⟩ | ⟨b, -, -, hx, -⟩ <;> exact hx
  have hsx' : v'.sx = upSt v.sx c := by
    rw [hx', hset, List.getElem?_set_self hil] at hgx'
    exact (Option.some.inj hgx').symm
  have hcs : v'.sx.s = c.s := by rw [hsx']; rfl
  have hoth : ∃ sy, n'.stations[1 - v'.x]? = some sy ∧ Eb ≤ sy.s.lastTokenTime + (TT : Int) ∧
      acc ≤ sy.s.lastTokenTime + (TT : Int) + (cfg.over : Nat) ∧ sy.s.lastTokenTime ≤ acc := by
    obtain ⟨sy, hsy, o⟩ := t.oth
    refine ⟨sy, ?_, o⟩
    rw [hx', hset, List.getElem?_set_ne (by omega)]
    exact hsy
  have hseen' : acc ≤ n'.bus.seen.getD v'.x 0 := by
    rw [hx', hseen, seen_set_self _ _ _ hxs]; omega
  have hHnow := h.now_le_H v.x now e
  have hmar := hok.margin
  have hP := h.ph
  have hT := t.ph
  have hP' := hinv'.ph
  unfold PhaseOkN at hP hP'
  -- the bookkeeping of a visit phase after a poll
  have useStep : ∀ (hvis : visitTime v.sx.s.st = some acc)
      (halt : (v.sx.s.lastTokenTime = acc ∧ v.sx.s.endTokenHoldTime ≤ Eb) ∨
        (v.sx.s.lastTokenTime ≠ acc ∧ v.sx.s.lastTokenTime + ((v.sx.s.p.ttrTime : Nat) : Int) ≤ Eb)),
      (c.s.lastTokenTime = acc ∧ c.s.endTokenHoldTime ≤ Eb) ∨
        (c.s.lastTokenTime ≠ acc ∧ c.s.lastTokenTime + ((c.s.p.ttrTime : Nat) : Int) ≤ Eb) := by
    intro hvis halt
    rcases rel.upd acc hvis with hk | ⟨hne, hl, he⟩
    · rw [hk.1, hk.2, hfr]; exact halt
    · rcases halt with ⟨a1, -⟩ | ⟨-, a2⟩
      · exact absurd a1 hne
      · exact .inl ⟨hl, by omega⟩
  rcases hcase with ⟨htx, htr, hph, -, hH'⟩ | ⟨b, htx, htr, -, hkind⟩
  · -- nothing transmitted
    have hcls : ∀ (hvis : visitTime v.sx.s.st = some acc), visitTime c.s.st ≠ none →
        visitTime c.s.st = some acc ∧ (lateFlag v.sx.s.st = true → lateFlag c.s.st = true) := by
      intro hvis hnn
      rcases rel.cls acc hvis with a1 | a2 | a3 | ⟨da, sa, a4⟩
      · rw [a1.1]; exact ⟨hvis, id⟩
      · exact ⟨a2.1, fun _ => a2.2⟩
      · exact absurd a3 hnn
      · rw [htx] at a4; cases a4
    refine ⟨⟨hlen', httr', t.big, hoth, hseen', ?_⟩, ?_⟩
    · rw [hph, hcs, hH', htr]
      rw [hph] at hP'
      cases hv : v.ph with
      | hold p1 =>
        rw [hv] at hT hP'
        obtain ⟨hp1, hvis, halt⟩ := hT
        obtain ⟨⟨d, f, hs⟩, -⟩ := hP'
        rw [hcs] at hs
        exact ⟨hp1, (hcls hvis (by rw [hs]; simp [visitTime])).1, useStep hvis halt⟩
      | holdT =>
        rw [hv] at hT hP'
        obtain ⟨⟨hvis, hfl, hLx, hE⟩, hH, hs0⟩ := hT
        obtain ⟨-, -, ⟨d, f, hs⟩, -⟩ := hP'
        rw [hcs] at hs
        obtain ⟨b1, b2⟩ := hcls hvis (by rw [hs]; simp [visitTime])
        rcases useStep hvis (.inl ⟨hLx, hE⟩) with ⟨u1, u2⟩ | ⟨u1, -⟩
        · exact ⟨⟨b1, b2 hfl, u1, u2⟩, hH, hs0⟩
        · exfalso
          rcases rel.upd acc hvis with hk | ⟨hne, -, -⟩
          · exact u1 (by rw [hk.1]; exact hLx)
          · exact hne hLx
      | await a =>
        rw [hv] at hT hP'
        obtain ⟨⟨hvis, hfl, hLx, hE⟩, hH, hs0⟩ := hT
        obtain ⟨-, -, ⟨d, hs⟩, -⟩ := hP'
        rw [hcs] at hs
        obtain ⟨b1, b2⟩ := hcls hvis (by rw [hs]; simp [visitTime])
        rcases useStep hvis (.inl ⟨hLx, hE⟩) with ⟨u1, u2⟩ | ⟨u1, -⟩
        · exact ⟨⟨b1, b2 hfl, u1, u2⟩, hH, hs0⟩
        · exfalso
          rcases rel.upd acc hvis with hk | ⟨hne, -, -⟩
          · exact u1 (by rw [hk.1]; exact hLx)
          · exact hne hLx
      | gap g =>
        rw [hv] at hT
        obtain ⟨hLx, hH, hs0⟩ := hT
        have hk := rel.keep (h.xVisit.2 (by rw [hv]; simp [PhaseN.useLike]))
        exact ⟨by rw [hk.1]; exact hLx, hH, hs0⟩
      | pass =>
        rw [hv] at hT
        obtain ⟨hLx, hH, hs0⟩ := hT
        have hk := rel.keep (h.xVisit.2 (by rw [hv]; simp [PhaseN.useLike]))
        exact ⟨by rw [hk.1]; exact hLx, hH, hs0⟩
    · intro st0 hst0 hvn hvs
      rw [h.gx] at hst0
      cases hst0
      have hnu : ¬ v.ph.useLike := fun hu => h.xVisit.1 hu hvn
      have hnu' : ¬ v'.ph.useLike := by rw [hph]; exact hnu
      have := hinv'.xVisit.2 hnu'
      rw [hcs, hvs] at this
      cases this
  · -- something transmitted
    have htxn : c.tx ≠ none := by rw [htx]; simp
    have hstart : v'.tr.start = now := by rw [htr]
    -- facts about a visit phase that transmits
    have useTx : v.ph.useLike → visitTime v.sx.s.st = some acc ∧ c.s.lastTokenTime = acc ∧ c.s.endTokenHoldTime ≤ Eb ∧
        now ≤ qb cfg acc Eb ∧
        (now + (cfg.cyc : Nat) ≤ qb cfg acc Eb ∨ (lateFlag v.sx.s.st = true)) := by
      intro hu
      have hq := qb_ge cfg acc Eb
      cases hv : v.ph with
      | hold p1 =>
        rw [hv] at hT hP
        obtain ⟨hp1, hvis, halt⟩ := hT
        obtain ⟨-, -, -, -, -, -, hH, -⟩ := hP
        have hl := rel.recd acc hvis htxn
        refine ⟨hvis, hl, ?_, by omega, .inl (by omega)⟩
        rcases useStep hvis halt with ⟨-, u2⟩ | ⟨u1, -⟩
        · exact u2
        · exact absurd hl u1
      | holdT =>
        rw [hv] at hT
        obtain ⟨⟨hvis, hfl, hLx, hE⟩, hH, hs0⟩ := hT
        have hl := rel.recd acc hvis htxn
        refine ⟨hvis, hl, ?_, by omega, .inr hfl⟩
        rcases useStep hvis (.inl ⟨hLx, hE⟩) with ⟨-, u2⟩ | ⟨u1, -⟩
        · exact u2
        · exact absurd hl u1
      | await a =>
        rw [hv] at hT
        obtain ⟨⟨hvis, hfl, hLx, hE⟩, hH, hs0⟩ := hT
        have hl := rel.recd acc hvis htxn
        refine ⟨hvis, hl, ?_, by omega, .inr hfl⟩
        rcases useStep hvis (.inl ⟨hLx, hE⟩) with ⟨-, u2⟩ | ⟨u1, -⟩
        · exact u2
        · exact absurd hl u1
      | gap g => rw [hv] at hu; exact absurd hu (by simp [PhaseN.useLike])
      | pass => rw [hv] at hu; exact absurd hu (by simp [PhaseN.useLike])
    have hbnd : ∀ st0, n.stations[v.x]? = some st0 → visitTime st0.s.st = none → visitTime c.s.st = some now → False := by
      intro st0 hst0 hvn hvs
      rw [h.gx] at hst0
      cases hst0
      have hnu : ¬ v.ph.useLike := fun hu => h.xVisit.1 hu hvn
      rcases hkind with ⟨g, -, hu⟩ | ⟨hpass, -⟩ | ⟨hd, pdu, -, -, -, hu⟩
      · exact hnu hu
      · have := hinv'.xVisit.2 (by rw [hpass]; simp [PhaseN.useLike])
        rw [hcs, hvs] at this
        cases this
      · exact hnu hu
    refine ⟨⟨hlen', httr', t.big, hoth, hseen', ?_⟩, hbnd⟩
    rw [hcs, hstart]
    rcases hkind with ⟨g, hg, hu⟩ | ⟨hpass, hnp⟩ | ⟨hd, pdu, hb, hlb, hnew, hu⟩
    · -- GAP request
      obtain ⟨-, hl, -, hq, -⟩ := useTx hu
      rw [hg] at hP' ⊢
      obtain ⟨-, -, -, -, -, -, hH', -⟩ := hP'
      rw [hstart] at hH'
      refine ⟨hl, ?_, hacc⟩
      unfold Cfg.gapT
      push_cast
      omega
    · -- token
      rw [hpass]
      by_cases hu : v.ph.useLike
      · obtain ⟨-, hl, -, hq, -⟩ := useTx hu
        exact ⟨hl, by omega, hacc⟩
      · cases hv : v.ph with
        | gap g =>
          rw [hv] at hT
          obtain ⟨hLx, hH, hs0⟩ := hT
          have hk := rel.keep (h.xVisit.2 (by rw [hv]; simp [PhaseN.useLike]))
          exact ⟨by rw [hk.1]; exact hLx, by omega, hacc⟩
        | pass => exact absurd hv hnp
        | hold p1 => rw [hv] at hu; exact absurd trivial hu
        | holdT => rw [hv] at hu; exact absurd trivial hu
        | await a => rw [hv] at hu; exact absurd trivial hu
    · -- application telegram
      obtain ⟨hvis, hl, hE, hq, hcy⟩ := useTx hu
      have hlen : b.length ≤ 255 := by
        rw [hb, frame_length]; unfold Header.telegramLen; simp only; split <;> omega
      have htm := tmax_bound cfg b.length hlen
      have hte : tEnd cfg v'.tr = now + ((bitsToTime cfg.rate (11 * b.length) : Nat) : Int) := by rw [htr]; rfl
      have hvf : visitTime c.s.st = some acc ∧ lateFlag c.s.st = true := by
        rcases rel.cls acc hvis with a1 | a2 | a3 | ⟨da, sa, a4⟩
        · exact absurd a1.2 htxn
        · exact a2
        · exfalso
          have := hinv'.xVisit.1 (by rcases hnew with hn | ⟨a, hn⟩ <;> rw [hn] <;> trivial)
          rw [hcs] at this
          exact this a3
        · rw [htx] at a4
          exact absurd (Option.some.inj a4) (by rw [hb]; exact frameSpec_ne_sendToken hd pdu da sa)
      have hgu : now + (cfg.cyc : Nat) ≤ qb cfg acc Eb := by
        rcases hcy with hcy | hfl
        · exact hcy
        · rcases rel.guard htxn hvf.2 with g1 | g2
          · have := (qb_ge cfg acc Eb).1; omega
          · rw [hfl] at g2; cases g2
      rcases hnew with hn | ⟨a, hn⟩
      · rw [hn] at hP' ⊢
        obtain ⟨-, -, -, -, -, -, hH', -⟩ := hP'
        rw [hte] at hH'
        refine ⟨⟨hvf.1, hvf.2, hl, hE⟩, ?_, hacc⟩
        unfold Cfg.cyc at hgu
        push_cast at hgu
        omega
      · rw [hn] at hP' ⊢
        obtain ⟨-, -, -, -, -, -, hH', -⟩ := hP'
        rw [hte] at hH'
        refine ⟨⟨hvf.1, hvf.2, hl, hE⟩, ?_, hacc⟩
        unfold Cfg.cyc at hgu
        push_cast at hgu
        omega

/-- **One event of the timed two-station ring with application traffic**: the poll returns regularly,
the ring invariant and the timing invariant hold again, and if the polled station accepts the token in this
poll, the time since its previous token receipt (`last_token_time`) is at most the rotation bound. -/
theorem rot_step {cfg : Cfg} {M : List Nat} {adr : Nat → Nat} {n : Net} {v : NView} (h : NInv cfg M adr n v)
    (hok : cfg.Ok) (hP100 : cfg.P ≤ 100000) {TT : Nat} {acc Eb : Int} (t : TInv cfg TT n v acc Eb) (i : Nat) (now : Int)
    (e : EvOkN cfg n v.tl i now) :
    ∃ n' v' inc c acc' Eb', n.poll i now = (n', inc, some (.ok c)) ∧ NInv cfg M adr n' v' ∧ v'.tl = now ∧
      TInv cfg TT n' v' acc' Eb' ∧
      (∀ st, n.stations[i]? = some st → visitTime st.s.st = none → visitTime c.s.st = some now →
        now ≤ st.s.lastTokenTime + ((cfg.rot TT : Nat) : Int)) := by
  obtain ⟨n', v', inc, c, hp, hinv', htl', hcase⟩ := ringN_step h hok hP100 i now e
  by_cases hix : i = v.x
  · subst hix
    have hB := rot_stepB h hok t now e n' v' inc c hp hinv' htl' (by
      rcases hcase with ⟨htx, htr, -, ⟨hph, hx, hH⟩ | ⟨-, -, -, hne⟩⟩ | ⟨b, htx, hit, -, htr, ⟨-, hx⟩, hkind⟩
      · exact .inl ⟨htx, htr, hph, hx, hH⟩
      · exact absurd rfl hne
      · refine .inr ⟨b, htx, htr, hx, ?_⟩
        rcases hkind with ⟨g, -, -, -, hph, hu⟩ | ⟨-, -, hph⟩ | ⟨hd, pdu, hb, -, -, hnew, hfin, hu⟩
        · exact .inl ⟨g, hph, hu⟩
        · refine .inr (.inl ⟨hph, ?_⟩)
          intro hpass
          unfold NView.turn at hit
          rw [hpass] at hit
          exact h.ring.two _ (h.ring.mem v.x h.xlt) hit.symm
        · exact .inr (.inr ⟨hd, pdu, hb, hfin v.sx h.gx _ (scriptsOk_ansOk h.okx.inv.scripts), hnew, hu⟩))
    exact ⟨n', v', inc, c, acc, Eb, hp, hinv', htl', hB.1, fun st hst h1 h2 => (hB.2 st hst h1 h2).elim⟩
  · obtain ⟨acc', Eb', hA1, hA2⟩ := rot_stepA h hok t i now e hix n' v' inc c hp hinv' htl' (by
      rcases hcase with ⟨htx, htr, -, hview⟩ | ⟨b, -, -, -, -, ⟨hiv, -⟩, -⟩
      · exact ⟨htx, htr, hview⟩
      · exact absurd hiv hix)
    exact ⟨n', v', inc, c, acc', Eb', hp, hinv', htl', hA1, hA2⟩

/-- Along a run: every poll returns regularly, and whenever a station accepts the token (its poll takes it
from a state outside a token visit into `UseToken` with `token_time = now`), the time since its previous
token receipt is at most `B`. -/
def RotRun (B : Nat) : Net → List (Nat × Int) → Prop
  | _, [] => True
  | n, (i, now) :: rest =>
    ∃ n' inc c, n.poll i now = (n', inc, some (.ok c)) ∧
      (∀ st, n.stations[i]? = some st → visitTime st.s.st = none → visitTime c.s.st = some now →
        now ≤ st.s.lastTokenTime + (B : Int)) ∧
      RotRun B n' rest

theorem rot_run {cfg : Cfg} (hok : cfg.Ok) (hP100 : cfg.P ≤ 100000) (M : List Nat) (adr : Nat → Nat) (TT : Nat) :
    ∀ (evs : List (Nat × Int)) (n : Net) (v : NView) (acc Eb : Int), NInv cfg M adr n v → TInv cfg TT n v acc Eb →
    SchedN cfg.P n v.tl evs → RotRun (cfg.rot TT) n evs := by
  intro evs
  induction evs with
  | nil => intro _ _ _ _ _ _ _; trivial
  | cons ev rest ih =>
    intro n v acc Eb h t hs
    obtain ⟨i, now⟩ := ev
    obtain ⟨hi, htl, hown, hgap, hrest⟩ := hs
    have e : EvOkN cfg n v.tl i now := ⟨hi, htl, hown, hgap⟩
    obtain ⟨n', v', inc, c, acc', Eb', hp, hinv', htl', ht', hb⟩ := rot_step h hok hP100 t i now e
    have hn' : (n.poll i now).1 = n' := by rw [hp]
    rw [hn', ← htl'] at hrest
    exact ⟨n', inc, c, hp, hb, ih n' v' acc' Eb' hinv' ht' hrest⟩

end PV
