/-
Liveness step behind C06: what one poll of an online station does on a *silent* bus (nothing in the
receive buffer, PHY idle, a known bus-activity stamp `l`).  For every handler of `Model/Station.lean`:
either a telegram is handed to the PHY, or the context stays silent with the same stamp — and when the
poll time is later than `l` by more than every timer (`Late`), the only handlers that may stay silent
are those listed in `Deferred`.  Helper lemmas; the property theorems are in `Props/C06.lean`.
-/
import ProfiVerif.Lemmas.StationInv
import ProfiVerif.Lemmas.StationWho
import ProfiVerif.Lemmas.StationMark

namespace PV

/-- The longest timer a station waits on: token-lost time-out, slot time, synchronisation pause
(`tokenLostTimeout` can be below 33 bit times for degenerate parameters, hence the maximum). -/
def Params.silence (p : Params) : Nat := max p.tokenLostTimeout (max p.slotTime (p.bits 33))

/-- `now` is later than the stamp `l` by more than every timer of the station. -/
def Late (p : Params) (l now : Int) : Prop := l + (p.silence : Nat) < now

theorem Late.sync {p : Params} {l now : Int} (h : Late p l now) : ¬ (now ≤ l + (p.bits 33 : Nat)) := by
  unfold Late Params.silence at h; omega

theorem Late.slot {p : Params} {l now : Int} (h : Late p l now) : now > l + (p.slotTime : Nat) := by
  unfold Late Params.silence at h; omega

theorem Late.lost {p : Params} {l now : Int} (h : Late p l now) : (now - l).natAbs ≥ p.tokenLostTimeout := by
  unfold Late Params.silence at h; omega

theorem Late.after {p : Params} {l now : Int} (h : Late p l now) : l < now := by
  unfold Late at h; omega

theorem Late.mono {p : Params} {l now now2 : Int} (h : Late p l now) (h2 : now ≤ now2) : Late p l now2 := by
  unfold Late at *; omega

/-- Silent context: online, nothing transmitted yet in this poll, empty receive buffer, stamp `l`. -/
structure Sil (c : Ctx) (l : Int) : Prop where
  on : c.s.online = true
  tx : c.tx = none
  rx : c.rx = []
  last : c.s.lastBusActivity = some l

theorem waitSync_some (s : Station) (now l : Int) (h : s.lastBusActivity = some l) :
    waitSyncPause s now = (s, decide (now ≤ l + (s.p.bits 33 : Nat))) := by
  unfold waitSyncPause; rw [getOrInsert_last s now l h]

theorem checkSlot_some (s : Station) (now l : Int) (h : s.lastBusActivity = some l) :
    checkSlotExpired s now = (s, decide (now > l + (s.p.slotTime : Nat))) := by
  unfold checkSlotExpired; rw [getOrInsert_last s now l h]

theorem receiveTelegram_nil : receiveTelegram [] = .done [] [] false := by
  simp [receiveTelegram, deserialize]

theorem receiveAll_nil : receiveAll [] = .done [] [] false := by
  simp [receiveAll, receiveAllFuel, deserialize]

/-! ### Transitions change the FDL state only -/

theorem toPassToken_eq {s s' : Station} {g : Bool} {a : Attempt} (h : toPassToken s g a = some s') :
    s' = { s with st := .passToken g a } := by
  unfold toPassToken at h; split at h <;> first | (cases h; rfl) | cases h
theorem toUseToken_eq {s s' : Station} {d : UseData} (h : toUseToken s d = some s') :
    s' = { s with st := .useToken d false } := by
  unfold toUseToken at h; split at h <;> first | (cases h; rfl) | cases h
theorem toCheckTokenPass_eq {s s' : Station} {a : Attempt} (h : toCheckTokenPass s a = some s') :
    s' = { s with st := .checkTokenPass a } := by
  unfold toCheckTokenPass at h; split at h <;> first | (cases h; rfl) | cases h
theorem toAwaitStatus_eq {s s' : Station} {a : Nat} (h : toAwaitStatus s a = some s') :
    s' = { s with st := .awaitStatus a } := by
  unfold toAwaitStatus at h; split at h <;> first | (cases h; rfl) | cases h
theorem toAwaitData_eq {s s' : Station} {a : Nat} {d : UseData} (h : toAwaitData s a d = some s') :
    s' = { s with st := .awaitData a d } := by
  unfold toAwaitData at h; split at h <;> first | (cases h; rfl) | cases h
theorem toClaimToken_eq {s s' : Station} (h : toClaimToken s = some s') :
    s' = { s with st := .claimToken .firstToken } := by
  unfold toClaimToken at h; split at h <;> first | (cases h; rfl) | cases h
theorem toListenToken_eq {s s' : Station} (h : toListenToken s = some s') :
    s' = { s with st := .listenToken none 0 } := by
  unfold toListenToken at h; split at h <;> first | (cases h; rfl) | cases h

/-! ### Passing the token on -/

/-- `passTokenOn` always transmits the token to the registered successor; the own pass is recorded
in the LAS; the station keeps the token when it is its own successor, otherwise supervises the pass. -/
theorem passTokenOn_sends (c : Ctx) (now : Int) (att : Attempt) (c' : Ctx) (h : passTokenOn c now att = .ok c') :
    c.tx = none ∧
    c'.tx = some (sendToken (UInt8.ofNat c.s.ring.ns) (UInt8.ofNat c.s.p.address)) ∧
    c'.s.p = c.s.p ∧ c'.s.online = c.s.online ∧ c'.apps = c.apps ∧ c'.calls = c.calls ∧ c'.s.gap = c.s.gap ∧
    c'.s.ring = c.s.ring.witness c.s.p.address c.s.ring.ns ∧
    c'.s.st = (if c'.s.ring.ns = c.s.p.address then .useToken ⟨now, none⟩ false else .checkTokenPass att) := by
  unfold passTokenOn at h
  simp only at h
  cases ht : transmit c now (sendToken (UInt8.ofNat c.s.ring.ns) (UInt8.ofNat c.s.p.address)) with
  | panic s => rw [ht] at h; cases h
  | ok c1 =>
    rw [ht] at h
    simp only [Res.bind] at h
    obtain ⟨h0, rfl⟩ := transmit_cases _ _ _ _ ht
    split at h
    · rename_i hns
      obtain ⟨s', hs', rfl⟩ := tr_cases _ _ _ _ h
      have := toUseToken_eq hs'
      subst this
      exact ⟨h0, rfl, rfl, rfl, rfl, rfl, rfl, rfl, (if_pos hns).symm⟩
    · rename_i hns
      obtain ⟨s', hs', rfl⟩ := tr_cases _ _ _ _ h
      have := toCheckTokenPass_eq hs'
      subst this
      exact ⟨h0, rfl, rfl, rfl, rfl, rfl, rfl, rfl, (if_neg hns).symm⟩

/-- Outcome shape of (a part of) a silent poll: parameters and connectivity are kept; either a
telegram was handed to the PHY, or the context is still silent with the same stamp and `D` holds. -/
def Prog (c : Ctx) (l : Int) (D : Ctx → Prop) (r : Res) : Prop :=
  ∀ c', r = .ok c' → c'.s.p = c.s.p ∧ c'.s.online = true ∧ (c'.tx ≠ none ∨ (Sil c' l ∧ D c'))

theorem Prog.panic {c : Ctx} {l : Int} {D : Ctx → Prop} (s : String) : Prog c l D (.panic s) := by
  intro c' h; cases h

theorem Prog.mono {c : Ctx} {l : Int} {D D' : Ctx → Prop} {r : Res} (h : Prog c l D r) (hd : ∀ c', D c' → D' c') :
    Prog c l D' r := by
  intro c' hr
  obtain ⟨h1, h2, h3⟩ := h c' hr
  exact ⟨h1, h2, h3.imp id (fun ⟨a, b⟩ => ⟨a, hd c' b⟩)⟩

/-- `do_pass_token` on a silent bus: waits only for the synchronisation pause, then transmits (a GAP
poll or the token). -/
theorem doPassToken_prog (c : Ctx) (now l : Int) (hs : Sil c l) :
    Prog c l (fun c' => ¬ Late c.s.p l now ∧ c' = c) (doPassToken c now) := by
  intro c' h
  unfold doPassToken at h
  split at h
  · rename_i doGap att hst
    rw [waitSync_some _ _ _ hs.last] at h
    simp only at h
    by_cases hw : now ≤ l + (c.s.p.bits 33 : Nat)
    · rw [if_pos (by simpa using hw)] at h
      cases h
      exact ⟨rfl, hs.on, Or.inr ⟨hs, fun hl => hl.sync hw, rfl⟩⟩
    · rw [if_neg (by simpa using hw)] at h
      have pass : ∀ c0 : Ctx, c0.s.p = c.s.p → c0.s.online = true → passTokenOn c0 now att = .ok c' →
          c'.s.p = c.s.p ∧ c'.s.online = true ∧ (c'.tx ≠ none ∨ (Sil c' l ∧ ¬ Late c.s.p l now ∧ c' = c)) := by
        intro c0 hp ho hp0
        obtain ⟨-, htx, hp', ho', -⟩ := passTokenOn_sends c0 now att c' hp0
        exact ⟨hp'.trans hp, ho'.trans ho, Or.inl (by rw [htx]; simp)⟩
      cases doGap with
      | false =>
        simp only [Bool.false_eq_true, if_false] at h
        exact pass _ rfl hs.on h
      | true =>
        simp only [if_true] at h
        split at h
        · cases h
        · rename_i g hg
          rcases htg : transmitGapPoll (upd { c with s := c.s } fun s => { s with gap := g }) now with ⟨r, o⟩
          rw [htg] at h
          cases r with
          | panic s => cases h
          | ok c2 =>
            rcases transmitGapPoll_kind _ now c2 o htg ((upd_tx _ _).trans hs.tx) with ⟨rfl, rfl⟩ | ⟨a, bytes, rfl, hne, hser, rfl⟩
            · simp only at h
              exact pass (upd c fun s => { s with gap := g }) rfl hs.on h
            · simp only at h
              obtain ⟨s', hs', rfl⟩ := tr_cases _ _ _ _ h
              have := toAwaitStatus_eq hs'
              subst this
              exact ⟨rfl, hs.on, Or.inl (by simp)⟩
  · cases h

/-! ### Claiming -/

/-- The start states whose *late* silent poll may end without a transmission, together with the
state the poll ends in:
* `ClaimToken(Scan)` with the GAP sweep finished → `PassToken(no gap, first)`;
* `ClaimToken(Scan | ScanAwait)` whose sweep position is the last GAP address → `ClaimToken(Scan)` with
  the sweep finished (`Waiting 0`).
(`UseToken` and `AwaitDataResponse` pass the token in the same poll since the repair of finding K3.) -/
def Deferred (s s' : Station) : Prop :=
  (s.st = .claimToken .scan ∧ (∃ r, s.gap = .waiting r) ∧ s'.st = .passToken false .first)
  ∨ ((s.st = .claimToken .scan ∨ ∃ a, s.st = .claimToken (.scanAwait a)) ∧
      ∃ cur, s.gap = .doPoll cur ∧ nextGapPoll s.p.address s.ring.ns s.p.hsa cur = .waiting ∧
        s'.st = .claimToken .scan ∧ s'.gap = .waiting 0)

theorem transmitGapPoll_none (c : Ctx) (now : Int) (c' : Ctx) (h : transmitGapPoll c now = (.ok c', none)) :
    c' = c ∧ ∃ r, c.s.gap = .waiting r := by
  unfold transmitGapPoll at h
  split at h
  · split at h
    · cases h
    · split at h
      · injection h with h1 h2; cases h2
      · cases h
  · rename_i r hg
    cases h; exact ⟨rfl, r, hg⟩

theorem nextGap_waiting (s : Station) (cur : Nat) (g : GapState) (r : Nat) (h : nextGap s cur = some g)
    (hg : g = .waiting r) : nextGapPoll s.p.address s.ring.ns s.p.hsa cur = .waiting ∧ r = 0 := by
  unfold nextGap at h
  split at h
  · cases h; cases hg
  · cases h; cases hg; exact ⟨by assumption, rfl⟩
  · cases h

/-- `await_gap_poll_response` with nothing received: only the slot timer decides. -/
theorem awaitGap_silent (c : Ctx) (now l : Int) (addr : Nat) (hs : Sil c l) (c1 : Ctx) (g : GapPollResponse)
    (h : awaitGapPollResponse c now addr = (.ok c1, g)) :
    c1 = c ∧ c.s.gap = .doPoll addr ∧
      g = (if now > l + (c.s.p.slotTime : Nat) then GapPollResponse.noResponse else .waitingForBus) := by
  unfold awaitGapPollResponse at h
  split at h
  · cases h
  split at h
  · cases h
  rename_i hne hgap
  rw [hs.rx, receiveTelegram_nil] at h
  simp only at h
  rw [checkSlot_some _ _ _ hs.last] at h
  simp only [decide_eq_true_eq] at h
  injection h with h1 h2
  cases h1
  refine ⟨?_, by simpa using hgap, h2.symm⟩
  have hrx := hs.rx
  cases c; simp only at hrx; subst hrx; rfl

theorem claimScan_prog (c : Ctx) (now l : Int) (fuel : Nat) (hs : Sil c l) (hst : c.s.st = .claimToken .scan) :
    Prog c l (fun c' => Late c.s.p l now → Deferred c.s c'.s) (doClaimToken c now (fuel + 1)) := by
  intro c' h
  unfold doClaimToken at h
  rw [hst] at h
  simp only at h
  rw [waitSync_some _ _ _ hs.last] at h
  simp only at h
  by_cases hw : now ≤ l + (c.s.p.bits 33 : Nat)
  · rw [if_pos (by simpa using hw)] at h
    cases h
    exact ⟨rfl, hs.on, Or.inr ⟨hs, fun hl => absurd hw hl.sync⟩⟩
  · rw [if_neg (by simpa using hw)] at h
    split at h
    · rename_i r hgap
      obtain ⟨s', hs', rfl⟩ := tr_cases _ _ _ _ h
      have := toPassToken_eq hs'
      subst this
      exact ⟨rfl, hs.on, Or.inr ⟨⟨hs.on, hs.tx, hs.rx, hs.last⟩, fun _ => Or.inl ⟨hst, ⟨r, hgap⟩, rfl⟩⟩⟩
    · rename_i cur hgap
      split at h
      · cases h
      · rename_i g hg
        rcases htg : transmitGapPoll (upd { c with s := c.s } fun s => { s with gap := g }) now with ⟨r, o⟩
        rw [htg] at h
        cases r with
        | panic s => cases h
        | ok c2 =>
          cases o with
          | some addr =>
            simp only at h
            cases h
            rcases transmitGapPoll_kind _ now c2 _ htg ((upd_tx _ _).trans hs.tx) with ⟨ho, -⟩ | ⟨a, bytes, -, hne, hser, rfl⟩
            · cases ho
            · exact ⟨rfl, hs.on, Or.inl (by simp [upd])⟩
          | none =>
            simp only at h
            cases h
            obtain ⟨rfl, r, hr⟩ := transmitGapPoll_none _ now _ htg
            have hr' : g = .waiting r := hr
            obtain ⟨hn, rfl⟩ := nextGap_waiting c.s cur g r hg hr'
            subst hr'
            exact ⟨rfl, hs.on, Or.inr ⟨⟨hs.on, hs.tx, hs.rx, hs.last⟩,
              fun _ => Or.inr ⟨Or.inl hst, cur, hgap, hn, hst, rfl⟩⟩⟩

/-- The two claim tokens: after the synchronisation pause the self-addressed token is transmitted. -/
theorem claimTok_prog (c : Ctx) (now l : Int) (fuel : Nat) (hs : Sil c l) (step : ClaimStep)
    (hstep : step = .firstToken ∨ step = .secondToken) (hst : c.s.st = .claimToken step) (c' : Ctx)
    (h : doClaimToken c now (fuel + 1) = .ok c') :
    c'.s.p = c.s.p ∧ c'.s.online = true ∧
    ((c'.tx = some (selfToken c.s.p.address) ∧
        c'.s.st = .claimToken (if step = .firstToken then .secondToken else .scan) ∧
        c'.s.gap = .doPoll c.s.p.address ∧ c'.s.ring = c.s.ring.claimToken ∧ c'.apps = c.apps ∧ c'.calls = c.calls) ∨
     (c' = c ∧ now ≤ l + (c.s.p.bits 33 : Nat))) := by
  unfold doClaimToken at h
  rw [hst] at h
  have key : ∀ f : ClaimStep, ((if (waitSyncPause c.s now).2 = true then Res.ok { c with s := (waitSyncPause c.s now).1 } else
        (transmit { c with s := (waitSyncPause c.s now).1 } now
          (sendToken (UInt8.ofNat (waitSyncPause c.s now).1.p.address) (UInt8.ofNat (waitSyncPause c.s now).1.p.address))).bind
          fun c => .ok (upd c fun s => { s with ring := s.ring.claimToken, st := .claimToken f, gap := .doPoll s.p.address })) = .ok c') →
      c'.s.p = c.s.p ∧ c'.s.online = true ∧
      ((c'.tx = some (selfToken c.s.p.address) ∧ c'.s.st = .claimToken f ∧
          c'.s.gap = .doPoll c.s.p.address ∧ c'.s.ring = c.s.ring.claimToken ∧ c'.apps = c.apps ∧ c'.calls = c.calls) ∨
       (c' = c ∧ now ≤ l + (c.s.p.bits 33 : Nat))) := by
    intro f h
    rw [waitSync_some _ _ _ hs.last] at h
    simp only at h
    by_cases hw : now ≤ l + (c.s.p.bits 33 : Nat)
    · rw [if_pos (by simpa using hw)] at h
      cases h
      exact ⟨rfl, hs.on, Or.inr ⟨rfl, hw⟩⟩
    · rw [if_neg (by simpa using hw)] at h
      rw [transmit_ok _ _ _ hs.tx] at h
      simp only [Res.bind] at h
      cases h
      exact ⟨rfl, hs.on, Or.inl ⟨rfl, rfl, rfl, rfl, rfl, rfl⟩⟩
  rcases hstep with rfl | rfl
  · exact key _ h
  · exact key _ h

theorem sil_setSt {c : Ctx} {l : Int} (hs : Sil c l) (st' : FState) : Sil (upd c fun s => { s with st := st' }) l :=
  ⟨hs.on, hs.tx, hs.rx, hs.last⟩

/-- `do_claim_token` on a silent bus. -/
theorem doClaimToken_prog (c : Ctx) (now l : Int) (hs : Sil c l) :
    Prog c l (fun c' => Late c.s.p l now → Deferred c.s c'.s) (doClaimToken c now 2) := by
  cases hst : c.s.st with
  | claimToken step =>
    cases step with
    | firstToken =>
      intro c' h
      obtain ⟨h1, h2, h3⟩ := claimTok_prog c now l 1 hs _ (Or.inl rfl) hst c' h
      rcases h3 with ⟨htx, -⟩ | ⟨rfl, hnl⟩
      · exact ⟨h1, h2, Or.inl (by rw [htx]; simp)⟩
      · exact ⟨h1, h2, Or.inr ⟨hs, fun hl => absurd hnl hl.sync⟩⟩
    | secondToken =>
      intro c' h
      obtain ⟨h1, h2, h3⟩ := claimTok_prog c now l 1 hs _ (Or.inr rfl) hst c' h
      rcases h3 with ⟨htx, -⟩ | ⟨rfl, hnl⟩
      · exact ⟨h1, h2, Or.inl (by rw [htx]; simp)⟩
      · exact ⟨h1, h2, Or.inr ⟨hs, fun hl => absurd hnl hl.sync⟩⟩
    | scan => exact claimScan_prog c now l 1 hs hst
    | scanAwait a =>
      intro c' h
      unfold doClaimToken at h
      rw [hst] at h
      simp only at h
      rcases hag : awaitGapPollResponse c now a with ⟨r, g⟩
      rw [hag] at h
      cases r with
      | panic s => cases h
      | ok c1 =>
        obtain ⟨rfl, hgap, rfl⟩ := awaitGap_silent c now l a hs c1 g hag
        by_cases hsl : now > l + (c1.s.p.slotTime : Nat)
        · rw [if_pos hsl] at h
          simp only at h
          obtain ⟨h1, h2, h3⟩ := claimScan_prog _ now l 0 (sil_setSt hs (.claimToken .scan)) rfl c' h
          refine ⟨h1, h2, h3.imp id (fun ⟨hsil, hd⟩ => ⟨hsil, fun hl => ?_⟩)⟩
          rcases hd hl with ⟨-, ⟨r, hr⟩, -⟩ | ⟨-, cur, hc, hn, hst', hg'⟩
          · simp only [upd] at hr; rw [hgap] at hr; cases hr
          · exact Or.inr ⟨Or.inr ⟨a, hst⟩, cur, hc, hn, hst', hg'⟩
        · rw [if_neg hsl] at h
          simp only at h
          cases h
          exact ⟨rfl, hs.on, Or.inr ⟨hs, fun hl => absurd hl.slot hsl⟩⟩
  | offline | passiveIdle | listenToken _ _ | activeIdle _ _ _ | useToken _ _ | awaitData _ _ | passToken _ _
  | checkTokenPass _ | awaitStatus _ =>
    intro c' h; unfold doClaimToken at h; rw [hst] at h; cases h

/-! ### Listening / idle: the token-lost time-out -/

theorem lost_claim (c : Ctx) (now l : Int) (hs : Sil c l) (hidle : IdleLike c.s.st)
    (hlost : (now - l).natAbs ≥ c.s.p.tokenLostTimeout) :
    handleLostToken c now =
      (c, some (doClaimToken { c with s := { c.s with st := .claimToken .firstToken } } now 2)) := by
  unfold handleLostToken
  rw [getOrInsert_last _ _ _ hs.last]
  simp only
  rw [if_pos hlost]
  have : toClaimToken c.s = some { c.s with st := .claimToken .firstToken } := by
    unfold toClaimToken
    rcases hidle with ⟨a, b, d, h⟩ | ⟨a, b, h⟩ <;> rw [h]
  rw [this]

theorem not_lost (c : Ctx) (now l : Int) (hs : Sil c l) (hlost : ¬ (now - l).natAbs ≥ c.s.p.tokenLostTimeout) :
    handleLostToken c now = (c, none) := by
  unfold handleLostToken
  rw [getOrInsert_last _ _ _ hs.last]
  simp only
  rw [if_neg hlost]

/-- The claim made out of `ListenToken` / `ActiveIdle`: the first self-addressed token goes out as
soon as the synchronisation pause has passed. -/
theorem claimFirst_result (c : Ctx) (now l : Int) (hs : Sil c l) (c' : Ctx)
    (h : doClaimToken { c with s := { c.s with st := .claimToken .firstToken } } now 2 = .ok c') :
    c'.s.p = c.s.p ∧ c'.s.online = true ∧
    ((c'.tx = some (selfToken c.s.p.address) ∧ c'.s.st = .claimToken .secondToken ∧
        c'.s.gap = .doPoll c.s.p.address ∧ c'.s.ring = c.s.ring.claimToken ∧ c'.apps = c.apps ∧ c'.calls = c.calls) ∨
     (Sil c' l ∧ now ≤ l + (c.s.p.bits 33 : Nat))) := by
  have hs' : Sil { c with s := { c.s with st := .claimToken .firstToken } } l := ⟨hs.on, hs.tx, hs.rx, hs.last⟩
  obtain ⟨h1, h2, h3⟩ := claimTok_prog _ now l 1 hs' .firstToken (Or.inl rfl) rfl c' h
  refine ⟨h1, h2, ?_⟩
  rcases h3 with h3 | ⟨rfl, hnl⟩
  · exact Or.inl h3
  · exact Or.inr ⟨hs', hnl⟩

theorem doListenToken_prog (c : Ctx) (now l : Int) (hs : Sil c l) :
    Prog c l (fun _ => ¬ Late c.s.p l now) (doListenToken c now) := by
  intro c' h
  unfold doListenToken at h
  -- destructure the pair BEFORE `split` (otherwise the kernel needs ≈ 60 s for the splitter proof)
  rcases hlt : handleLostToken c now with ⟨c1, o⟩
  rw [hlt] at h
  split at h
  · rename_i sr coll hst
    by_cases hlost : (now - l).natAbs ≥ c.s.p.tokenLostTimeout
    · rw [lost_claim c now l hs (Or.inr ⟨_, _, hst⟩) hlost] at hlt
      cases hlt
      simp only at h
      obtain ⟨h1, h2, h3⟩ := claimFirst_result c now l hs c' h
      exact ⟨h1, h2, h3.imp (fun h => by rw [h.1]; simp) (fun ⟨a, b⟩ => ⟨a, fun hl => hl.sync b⟩)⟩
    · rw [not_lost c now l hs hlost] at hlt
      cases hlt
      have hnl : ¬ Late c.s.p l now := fun hl => hlost hl.lost
      simp only at h
      split at h
      · rename_i src coll' hst'
        rw [waitSync_some _ _ _ hs.last] at h
        simp only at h
        split at h
        · cases h; exact ⟨rfl, hs.on, Or.inr ⟨hs, hnl⟩⟩
        · cases he : encodeOrPanic { c with s := c.s } now (fdlStatusResponseHeader (UInt8.ofNat src) (UInt8.ofNat c.s.p.address)
              (if c.s.ring.readyForRing = true ∧ src = c.s.ring.ps then .masterWithoutToken else .masterNotReady) .ok) [] with
          | panic s => rw [he] at h; cases h
          | ok c1 =>
            rw [he] at h
            simp only [Res.bind] at h
            obtain ⟨bytes, -, -, rfl⟩ := encodeOrPanic_cases _ _ _ _ _ he
            split at h
            · obtain ⟨s', hs', rfl⟩ := tr_cases _ _ _ _ h
              unfold toActiveIdle at hs'
              simp only [markTx, hst'] at hs'
              cases hs'
              exact ⟨rfl, hs.on, Or.inl (by simp)⟩
            · cases h
              exact ⟨rfl, hs.on, Or.inl (by simp [upd])⟩
      · rw [hs.rx, receiveAll_nil] at h
        simp only [foldTelegrams] at h
        cases h
        refine ⟨rfl, hs.on, Or.inr ⟨⟨hs.on, hs.tx, rfl, hs.last⟩, hnl⟩⟩
      · cases h
  · cases h

theorem doActiveIdle_prog (c : Ctx) (now l : Int) (hs : Sil c l) :
    Prog c l (fun _ => ¬ Late c.s.p l now) (doActiveIdle c now) := by
  intro c' h
  unfold doActiveIdle at h
  rcases hlt : handleLostToken c now with ⟨c1, o⟩
  rw [hlt] at h
  split at h
  · rename_i sr np coll hst
    by_cases hlost : (now - l).natAbs ≥ c.s.p.tokenLostTimeout
    · rw [lost_claim c now l hs (Or.inl ⟨_, _, _, hst⟩) hlost] at hlt
      cases hlt
      simp only at h
      obtain ⟨h1, h2, h3⟩ := claimFirst_result c now l hs c' h
      exact ⟨h1, h2, h3.imp (fun h => by rw [h.1]; simp) (fun ⟨a, b⟩ => ⟨a, fun hl => hl.sync b⟩)⟩
    · rw [not_lost c now l hs hlost] at hlt
      cases hlt
      have hnl : ¬ Late c.s.p l now := fun hl => hlost hl.lost
      simp only at h
      split at h
      · rename_i src np' coll' hst'
        rw [waitSync_some _ _ _ hs.last] at h
        simp only at h
        split at h
        · cases h; exact ⟨rfl, hs.on, Or.inr ⟨hs, hnl⟩⟩
        · cases he : encodeOrPanic { c with s := c.s } now (fdlStatusResponseHeader (UInt8.ofNat src) (UInt8.ofNat c.s.p.address)
              .masterInRing .ok) [] with
          | panic s => rw [he] at h; cases h
          | ok c1 =>
            rw [he] at h
            simp only [Res.bind] at h
            obtain ⟨bytes, -, -, rfl⟩ := encodeOrPanic_cases _ _ _ _ _ he
            cases h
            exact ⟨rfl, hs.on, Or.inl (by simp [upd])⟩
      · rw [hs.rx, receiveAll_nil] at h
        simp only [foldTelegrams] at h
        cases h
        refine ⟨rfl, hs.on, Or.inr ⟨⟨hs.on, hs.tx, rfl, hs.last⟩, hnl⟩⟩
      · cases h
  · cases h

/-! ### Waiting for a GAP reply, supervising a token pass -/

theorem doPassToken_prog' (c0 c : Ctx) (now l : Int) (hs : Sil c l) (hp : c.s.p = c0.s.p) :
    Prog c0 l (fun _ => ¬ Late c0.s.p l now) (doPassToken c now) := by
  intro c' h
  obtain ⟨h1, h2, h3⟩ := doPassToken_prog c now l hs c' h
  refine ⟨h1.trans hp, h2, h3.imp id (fun ⟨a, b, _⟩ => ⟨a, by rw [← hp]; exact b⟩)⟩

theorem doAwaitStatusResponse_prog (c : Ctx) (now l : Int) (hs : Sil c l) :
    Prog c l (fun _ => ¬ Late c.s.p l now) (doAwaitStatusResponse c now) := by
  intro c' h
  unfold doAwaitStatusResponse at h
  split at h
  · rename_i a hst
    rcases hag : awaitGapPollResponse c now a with ⟨r, g⟩
    rw [hag] at h
    cases r with
    | panic s => cases h
    | ok c1 =>
      obtain ⟨rfl, hgap, rfl⟩ := awaitGap_silent c now l a hs c1 g hag
      by_cases hsl : now > l + (c1.s.p.slotTime : Nat)
      · rw [if_pos hsl] at h
        simp only at h
        cases htr : tr c1 (fun s => toPassToken s false .first) "transition_pass_token" with
        | panic s => rw [htr] at h; cases h
        | ok c2 =>
          rw [htr] at h
          simp only [Res.bind] at h
          obtain ⟨s', hs', rfl⟩ := tr_cases _ _ _ _ htr
          have := toPassToken_eq hs'
          subst this
          exact doPassToken_prog' c1 { c1 with s := { c1.s with st := .passToken false .first } } now l ⟨hs.on, hs.tx, hs.rx, hs.last⟩ rfl c' h
      · rw [if_neg hsl] at h
        simp only at h
        cases h
        exact ⟨rfl, hs.on, Or.inr ⟨hs, fun hl => absurd hl.slot hsl⟩⟩
  · cases h

theorem doCheckTokenPass_prog (c : Ctx) (now l : Int) (hs : Sil c l) :
    Prog c l (fun _ => ¬ Late c.s.p l now) (doCheckTokenPass c now) := by
  intro c' h
  unfold doCheckTokenPass at h
  split at h
  · rename_i att hst
    rw [checkSlot_some _ _ _ hs.last] at h
    simp only [decide_eq_true_eq] at h
    by_cases hsl : now > l + (c.s.p.slotTime : Nat)
    · rw [if_pos hsl] at h
      have pass : ∀ (c0 : Ctx) (a' : Attempt), Sil c0 l → c0.s.p = c.s.p →
          ((tr c0 (fun s => toPassToken s false a') "transition_pass_token").bind fun c => doPassToken c now) = .ok c' →
          c'.s.p = c.s.p ∧ c'.s.online = true ∧ (c'.tx ≠ none ∨ (Sil c' l ∧ ¬ Late c.s.p l now)) := by
        intro c0 a' hs0 hp0 h
        cases htr : tr c0 (fun s => toPassToken s false a') "transition_pass_token" with
        | panic s => rw [htr] at h; cases h
        | ok c2 =>
          rw [htr] at h
          simp only [Res.bind] at h
          obtain ⟨s', hs', rfl⟩ := tr_cases _ _ _ _ htr
          have := toPassToken_eq hs'
          subst this
          exact doPassToken_prog' c { c0 with s := { c0.s with st := .passToken false a' } } now l ⟨hs0.on, hs0.tx, hs0.rx, hs0.last⟩ hp0 c' h
      cases att with
      | first => exact pass _ _ hs rfl h
      | second => exact pass _ _ hs rfl h
      | third =>
        simp only at h
        split at h
        · simp only [Res.bind] at h; cases h
        · rename_i r hr
          exact pass (upd c fun s => { s with ring := r }) _ ⟨hs.on, hs.tx, hs.rx, hs.last⟩ rfl h
    · rw [if_neg hsl] at h
      rw [hs.rx, receiveAll_nil] at h
      simp only at h
      cases h
      exact ⟨rfl, hs.on, Or.inr ⟨⟨hs.on, hs.tx, rfl, hs.last⟩, fun hl => absurd hl.slot hsl⟩⟩
  · cases h

/-! ### Holding the token: applications -/

theorem appTransmit_sil (c : Ctx) (now l : Int) (hp : Bool) (hs : Sil c l) (c' : Ctx) (b : Bool)
    (h : appTransmit c now hp = (.ok c', b)) :
    c'.s.p = c.s.p ∧ c'.s.online = true ∧ (b = true → c'.tx ≠ none) ∧ (b = false → Sil c' l ∧ c'.s = c.s) := by
  unfold appTransmit at h
  simp only at h
  split at h
  · cases h
  · rename_i script hscr
    split at h
    · injection h with h1 h2
      cases h1; cases h2
      exact ⟨rfl, hs.on, (fun hb => by cases hb), fun _ => ⟨⟨hs.on, hs.tx, hs.rx, hs.last⟩, rfl⟩⟩
    · rename_i hd pdu hans
      split at h
      · cases h
      · rename_i bytes hser
        split at h
        · rename_i addr hexp
          split at h
          · rename_i d fcd hst
            split at h
            · rename_i s' hs'
              injection h with h1 h2
              cases h2
              obtain ⟨-, rfl⟩ := transmit_cases _ _ _ _ h1
              have := toAwaitData_eq hs'
              subst this
              exact ⟨rfl, hs.on, fun _ => by simp, fun hb => by cases hb⟩
            · cases h
          · cases h
        · injection h with h1 h2
          cases h2
          obtain ⟨-, rfl⟩ := transmit_cases _ _ _ _ h1
          exact ⟨rfl, hs.on, fun _ => by simp, fun hb => by cases hb⟩

theorem appsTransmit_sil (now l : Int) (hp : Bool) : ∀ (k : Nat) (c : Ctx), Sil c l → ∀ (c' : Ctx) (b : Bool),
    appsTransmit now hp k c = (.ok c', b) →
    c'.s.p = c.s.p ∧ c'.s.online = true ∧ (b = true → c'.tx ≠ none) ∧ (b = false → Sil c' l ∧ c'.s.gap = c.s.gap) := by
  intro k
  induction k with
  | zero =>
    intro c hs c' b h
    simp only [appsTransmit] at h
    injection h with h1 h2
    cases h1; cases h2
    exact ⟨rfl, hs.on, (fun hb => by cases hb), fun _ => ⟨hs, rfl⟩⟩
  | succ k ih =>
    intro c hs c' b h
    simp only [appsTransmit] at h
    rcases hat : appTransmit c now hp with ⟨r, b1⟩
    rw [hat] at h
    cases r with
    | panic s => simp only at h; cases h
    | ok c1 =>
      obtain ⟨hp1, ho1, ht1, hf1⟩ := appTransmit_sil c now l hp hs c1 b1 hat
      cases b1 with
      | true =>
        simp only at h
        injection h with h1 h2
        cases h1; cases h2
        exact ⟨hp1, ho1, fun _ => ht1 rfl, fun hb => by cases hb⟩
      | false =>
        obtain ⟨hs1, he1⟩ := hf1 rfl
        simp only at h
        split at h
        · rename_i d fcd hst
          split at h
          · injection h with h1 h2
            cases h1; cases h2
            exact ⟨hp1, ho1, (fun hb => by cases hb),
              fun _ => ⟨⟨hs1.on, hs1.tx, hs1.rx, hs1.last⟩, by simp only [upd]; rw [he1]⟩⟩
          · obtain ⟨hp2, ho2, ht2, hf2⟩ := ih _ (by exact ⟨hs1.on, hs1.tx, hs1.rx, hs1.last⟩) c' b h
            refine ⟨hp2.trans hp1, ho2, ht2, fun hb => ?_⟩
            obtain ⟨a, b'⟩ := hf2 hb
            exact ⟨a, by rw [b']; show c1.s.gap = c.s.gap; rw [he1]⟩
        · cases h

/-- End of a token hold: the token (or a GAP poll) goes out in the same poll. -/
theorem passNow_prog (c0 c : Ctx) (now l : Int) (hs : Sil c l) (hp : c.s.p = c0.s.p) :
    Prog c0 l (fun _ => ¬ Late c0.s.p l now) (passNow c now) := by
  intro c' h
  unfold passNow at h
  cases htr : tr c (fun s => toPassToken s true .first) "transition_pass_token" with
  | panic s => rw [htr] at h; cases h
  | ok c2 =>
    rw [htr] at h
    simp only [Res.bind] at h
    obtain ⟨s', hs', rfl⟩ := tr_cases _ _ _ _ htr
    have := toPassToken_eq hs'
    subst this
    exact doPassToken_prog' c0 { c with s := { c.s with st := .passToken true .first } } now l
      ⟨hs.on, hs.tx, hs.rx, hs.last⟩ hp c' h

/-- One message-cycle attempt: an application transmits, or the token is passed on in the same poll. -/
theorem useTokenGo_prog (c : Ctx) (now l : Int) (d : UseData) (hp : Bool) (hs : Sil c l) :
    Prog c l (fun _ => ¬ Late c.s.p l now) (useTokenGo c now d hp) := by
  intro c' h
  unfold useTokenGo at h
  simp only at h
  rcases hat : appsTransmit now hp (upd c fun s => { s with st := .useToken d true }).apps.length
    (upd c fun s => { s with st := .useToken d true }) with ⟨r, b⟩
  rw [hat] at h
  cases r with
  | panic s => simp only at h; cases h
  | ok c1 =>
    obtain ⟨hp1, ho1, ht1, hf1⟩ := appsTransmit_sil now l hp _ _ (sil_setSt hs _) c1 b hat
    cases b with
    | true =>
      simp only at h
      cases h
      exact ⟨hp1, ho1, Or.inl (ht1 rfl)⟩
    | false =>
      simp only at h
      obtain ⟨hs1, -⟩ := hf1 rfl
      exact passNow_prog c c1 now l hs1 hp1 c' h

theorem doUseToken_prog (c : Ctx) (now l : Int) (hs : Sil c l) :
    Prog c l (fun _ => ¬ Late c.s.p l now) (doUseToken c now) := by
  intro c' h
  unfold doUseToken at h
  split at h
  · rename_i d fcd hst
    have hk := holdUpdate_keeps c.s d
    have hce := coreEq_holdUpdate c.s d
    have hs1 : Sil { c with s := holdUpdate c.s d } l :=
      ⟨by show (holdUpdate c.s d).online = true; rw [hce.2.2.1]; exact hs.on, hs.tx, hs.rx,
       by show (holdUpdate c.s d).lastBusActivity = some l; rw [hk.1]; exact hs.last⟩
    have hlast : (holdUpdate c.s d).lastBusActivity = some l := hs1.last
    simp only at h
    rw [waitSync_some _ _ _ hlast] at h
    simp only at h
    rw [hk.2] at h
    by_cases hw : now ≤ l + (c.s.p.bits 33 : Nat)
    · rw [if_pos (by simpa using hw)] at h
      cases h
      exact ⟨hk.2, hs1.on, Or.inr ⟨hs1, fun hl => absurd hw hl.sync⟩⟩
    · rw [if_neg (by simpa using hw)] at h
      have go : ∀ hp, useTokenGo { c with s := holdUpdate c.s d } now d hp = .ok c' →
          c'.s.p = c.s.p ∧ c'.s.online = true ∧ (c'.tx ≠ none ∨ (Sil c' l ∧ ¬ Late c.s.p l now)) := by
        intro hp hgo
        obtain ⟨h1, h2, h3⟩ := useTokenGo_prog _ now l d hp hs1 c' hgo
        exact ⟨h1.trans hk.2, h2, h3.imp id (fun ⟨a, b⟩ => ⟨a, by rw [← hk.2]; exact b⟩)⟩
      split at h
      · exact go _ h
      · split at h
        · exact go _ h
        · exact passNow_prog c { c with s := holdUpdate c.s d } now l hs1 hk.2 c' h
  · cases h

/-! ### Waiting for a data reply -/

/-- Reply time-out: after the slot time with nothing received, the requesting application gets exactly
one `timeout` record and the poll continues as a `UseToken` poll (first cycle done). -/
theorem awaitData_timeout (c : Ctx) (now l : Int) (addr : Nat) (d : UseData) (hs : Sil c l)
    (hst : c.s.st = .awaitData addr d) (happ : c.s.nextApp < c.apps.length)
    (hsl : now > l + (c.s.p.slotTime : Nat)) :
    doAwaitDataResponse c now =
      doUseToken { c with calls := c.calls ++ [.timeout c.s.nextApp addr], s := { c.s with st := .useToken d true } } now := by
  unfold doAwaitDataResponse
  rw [hst]
  simp only
  rw [if_neg (by omega), hs.rx, receiveTelegram_nil]
  simp only
  rw [checkSlot_some _ _ _ hs.last]
  simp only [decide_eq_true_eq]
  rw [if_pos hsl]
  simp only [tr, toUseToken, hst, Res.bind, upd]

theorem awaitData_wait (c : Ctx) (now l : Int) (addr : Nat) (d : UseData) (hs : Sil c l)
    (hst : c.s.st = .awaitData addr d) (happ : c.s.nextApp < c.apps.length)
    (hsl : ¬ now > l + (c.s.p.slotTime : Nat)) : doAwaitDataResponse c now = .ok c := by
  unfold doAwaitDataResponse
  rw [hst]
  simp only
  rw [if_neg (by omega), hs.rx, receiveTelegram_nil]
  simp only
  rw [checkSlot_some _ _ _ hs.last]
  simp only [decide_eq_true_eq]
  rw [if_neg hsl]
  have hrx := hs.rx
  cases c; simp only at hrx; subst hrx; rfl

theorem doAwaitDataResponse_prog (c : Ctx) (now l : Int) (hs : Sil c l) (addr : Nat) (d : UseData)
    (hst : c.s.st = .awaitData addr d) (happ : c.s.nextApp < c.apps.length) :
    Prog c l (fun _ => ¬ Late c.s.p l now) (doAwaitDataResponse c now) := by
  by_cases hsl : now > l + (c.s.p.slotTime : Nat)
  · rw [awaitData_timeout c now l addr d hs hst happ hsl]
    exact doUseToken_prog { c with calls := c.calls ++ [.timeout c.s.nextApp addr], s := { c.s with st := .useToken d true } }
      now l ⟨hs.on, hs.tx, hs.rx, hs.last⟩
  · rw [awaitData_wait c now l addr d hs hst happ hsl]
    intro c' h
    cases h
    exact ⟨rfl, hs.on, Or.inr ⟨hs, fun hl => absurd hl.slot hsl⟩⟩

/-! ### The whole poll -/

theorem dispatch_prog (c : Ctx) (now l : Int) (hs : Sil c l) (hinv : Inv c.s c.apps) :
    Prog c l (fun c' => Late c.s.p l now → Deferred c.s c'.s) (dispatch c now) := by
  unfold dispatch
  cases hst : c.s.st with
  | offline => exact Prog.panic _
  | passiveIdle => exact Prog.panic _
  | listenToken a b => exact (doListenToken_prog c now l hs).mono (fun _ hn hl => absurd hl hn)
  | activeIdle a b d => exact (doActiveIdle_prog c now l hs).mono (fun _ hn hl => absurd hl hn)
  | claimToken a =>
    exact doClaimToken_prog c now l hs
  | useToken d f => exact (doUseToken_prog c now l hs).mono (fun _ hn hl => absurd hl hn)
  | awaitData a d =>
    exact (doAwaitDataResponse_prog c now l hs a d hst (hinv.appWait a d hst)).mono (fun _ hn hl => absurd hl hn)
  | passToken a b => exact (doPassToken_prog c now l hs).mono (fun _ hn hl => absurd hl hn.1)
  | checkTokenPass a => exact (doCheckTokenPass_prog c now l hs).mono (fun _ hn hl => absurd hl hn)
  | awaitStatus a => exact (doAwaitStatusResponse_prog c now l hs).mono (fun _ hn hl => absurd hl hn)

theorem checkBus_nil (s : Station) (now : Int) : checkBusActivity s now 0 = s := by
  unfold checkBusActivity; simp

/-- A poll whose time is not later than the stamp only refreshes the stamp (to the same value). -/
theorem markBus_same (s : Station) (now l : Int) (h : s.lastBusActivity = some l) (hle : now ≤ l) :
    markBusActivity s now = s := by
  unfold markBusActivity
  rw [h]
  simp only [Option.getD_some]
  rw [Int.max_eq_left hle, ← h]

/-- One silent poll at the `poll_inner` level, stated for the context after `pollStart`. -/
theorem pollInner_prog (c : Ctx) (now l : Int) (hs : Sil c l) (hinv : Inv c.s c.apps) (hno : c.s.st ≠ .offline) :
    Prog c l (fun c' => Late c.s.p l now → Deferred c.s c'.s) (pollInner c now false) := by
  have hps : pollStart c = .ok c := by
    unfold pollStart
    cases hst : c.s.st with
    | offline => exact absurd hst hno
    | passiveIdle => exact absurd hst hinv.noPassive
    | _ => rfl
  unfold pollInner
  rw [if_neg (by simp [hs.on]), hps]
  simp only [Res.bind]
  by_cases hle : now ≤ l
  · rw [if_pos (by simp [ongoing, hs.last, hle])]
    intro c' h
    cases h
    simp only [upd]
    rw [markBus_same _ _ _ hs.last hle]
    exact ⟨rfl, hs.on, Or.inr ⟨⟨hs.on, hs.tx, hs.rx, hs.last⟩, fun hl => absurd hl.after (by omega)⟩⟩
  · rw [if_neg (by simp [ongoing, hs.last, hle])]
    have : (upd c fun s => checkBusActivity s now c.rx.length) = c := by
      simp only [upd, hs.rx, List.length_nil, checkBus_nil]
      have hrx := hs.rx
      cases c; simp only at hrx; subst hrx; rfl
    rw [this]
    exact dispatch_prog c now l hs hinv

/-- A station that has just been switched online (state still `Offline`) starts listening. -/
theorem pollInner_prog_offline (c : Ctx) (now l : Int) (hs : Sil c l) (hinv : Inv c.s c.apps) (hoff : c.s.st = .offline) :
    Prog c l (fun _ => ¬ Late c.s.p l now) (pollInner c now false) := by
  have hinv1 : Inv { c.s with st := .listenToken none 0 } c.apps := hinv.setSt hs.on _ (by simp) (by simp) (by simp)
  have hs1 : Sil { c with s := { c.s with st := .listenToken none 0 } } l := ⟨hs.on, hs.tx, hs.rx, hs.last⟩
  have h1 := pollInner_prog _ now l hs1 hinv1 (by simp)
  have heq : pollInner c now false = pollInner { c with s := { c.s with st := .listenToken none 0 } } now false := by
    unfold pollInner
    simp only [hs.on, pollStart, hoff, tr, toListenToken]
    rfl
  rw [heq]
  intro c' h
  obtain ⟨a, b, d⟩ := h1 c' h
  refine ⟨a, b, d.imp id (fun ⟨x, y⟩ => ⟨x, fun hl => ?_⟩)⟩
  rcases y hl with ⟨hu, -⟩ | ⟨hu | hu, -⟩
  · cases hu
  · cases hu
  · obtain ⟨_, hu⟩ := hu; cases hu

/-- **One silent poll** (any poll time): under the invariant the poll returns regularly, keeps the
invariant, parameters and connectivity, and either hands a telegram to the PHY or leaves the context
silent with the same stamp; in the latter case, if the poll was `Late`, start and end state are
related by `Deferred`. -/
theorem silent_step (c : Ctx) (now l : Int) (hinv : Inv c.s c.apps) (hs : Sil c l) :
    ∃ c', pollInner c now false = .ok c' ∧ Inv c'.s c'.apps ∧ c'.apps.length = c.apps.length ∧
      c'.s.online = true ∧ c'.s.p = c.s.p ∧
      (c'.tx ≠ none ∨ (Sil c' l ∧ (Late c.s.p l now → Deferred c.s c'.s))) := by
  obtain ⟨c', hc', hinv', hlen⟩ := pollInner_good c now false hinv hs.tx
  refine ⟨c', hc', hinv', hlen, ?_⟩
  by_cases hoff : c.s.st = .offline
  · obtain ⟨h1, h2, h3⟩ := pollInner_prog_offline c now l hs hinv hoff c' hc'
    exact ⟨h2, h1, h3.imp id (fun ⟨a, b⟩ => ⟨a, fun hl => absurd hl b⟩)⟩
  · obtain ⟨h1, h2, h3⟩ := pollInner_prog c now l hs hinv hoff c' hc'
    exact ⟨h2, h1, h3⟩

/-! ### Counting polls -/

/-- Upper bound on the number of `Late` silent polls a station needs until it transmits. -/
def pollsToTx (s : Station) : Nat :=
  match s.st with
  | .claimToken .scan | .claimToken (.scanAwait _) =>
    match s.gap with
    | .waiting _ => 2
    | .doPoll cur => if nextGapPoll s.p.address s.ring.ns s.p.hsa cur = .waiting then 3 else 1
  | _ => 1

theorem pollsToTx_le (s : Station) : 1 ≤ pollsToTx s ∧ pollsToTx s ≤ 3 := by
  unfold pollsToTx
  repeat' split
  all_goals omega

/-- A deferred poll strictly lowers the bound. -/
theorem deferred_lt {s s' : Station} (h : Deferred s s') : pollsToTx s' < pollsToTx s := by
  rcases h with ⟨hs, ⟨r, hr⟩, hs'⟩ | ⟨hs, cur, hc, hn, hs', hg'⟩
  · simp [pollsToTx, hs, hr, hs']
  · rcases hs with hs | ⟨a, hs⟩
    · simp [pollsToTx, hs, hc, hn, hs', hg']
    · simp [pollsToTx, hs, hc, hn, hs', hg']

/-- Some poll of the silent-bus schedule `ts` (nothing arrives between the polls, PHY idle) returns
regularly with a telegram handed to the PHY, all earlier polls having returned regularly. -/
def TransmitsWithin (s : Station) (apps : Apps) (rx : Bytes) : List Int → Prop
  | [] => False
  | t :: ts => ∃ c, s.poll apps t false rx = .ok c ∧ (c.tx ≠ none ∨ TransmitsWithin c.s c.apps c.rx ts)

theorem transmitsWithin_append (ts ts' : List Int) : ∀ (s : Station) (apps : Apps) (rx : Bytes),
    TransmitsWithin s apps rx ts → TransmitsWithin s apps rx (ts ++ ts') := by
  induction ts with
  | nil => intro s apps rx h; cases h
  | cons t ts ih =>
    intro s apps rx h
    obtain ⟨c, hc, h⟩ := h
    exact ⟨c, hc, h.imp id (ih _ _ _)⟩

/-- Late phase: `pollsToTx` late polls suffice. -/
theorem late_polls_transmit (p : Params) (l : Int) : ∀ (n : Nat) (late : List Int) (s : Station) (apps : Apps),
    Inv s apps → s.online = true → s.lastBusActivity = some l → s.p = p →
    (∀ t ∈ late, Late p l t) → pollsToTx s ≤ n → n ≤ late.length → TransmitsWithin s apps [] late := by
  intro n
  induction n with
  | zero => intro late s apps _ _ _ _ _ hr _; have := (pollsToTx_le s).1; omega
  | succ n ih =>
    intro late s apps hinv hon hl hp hlate hr hn
    cases late with
    | nil => simp at hn
    | cons t ts =>
      obtain ⟨c', hc', hinv', -, hon', hp', h⟩ := silent_step { s := s, apps := apps, rx := [] } t l hinv ⟨hon, rfl, rfl, hl⟩
      refine ⟨c', hc', ?_⟩
      rcases h with h | ⟨hs', hd⟩
      · exact Or.inl h
      · right
        have hlt := deferred_lt (hd (by rw [hp]; exact hlate t (by simp)))
        rw [hs'.rx]
        exact ih ts c'.s c'.apps hinv' hon' hs'.last (hp'.trans hp) (fun t' ht' => hlate t' (by simp [ht']))
          (by simp only at hlt; omega) (by simp at hn; omega)

/-- Early phase: polls at arbitrary earlier times either transmit or leave the station silent with the
same stamp. -/
theorem pre_polls (p : Params) (l : Int) (rest : List Int) : ∀ (pre : List Int) (s : Station) (apps : Apps),
    Inv s apps → s.online = true → s.lastBusActivity = some l → s.p = p →
    (∀ (s' : Station) (apps' : Apps), Inv s' apps' → s'.online = true → s'.lastBusActivity = some l → s'.p = p →
      TransmitsWithin s' apps' [] rest) →
    TransmitsWithin s apps [] (pre ++ rest) := by
  intro pre
  induction pre with
  | nil => intro s apps hinv hon hl hp hrest; exact hrest s apps hinv hon hl hp
  | cons t ts ih =>
    intro s apps hinv hon hl hp hrest
    obtain ⟨c', hc', hinv', -, hon', hp', h⟩ := silent_step { s := s, apps := apps, rx := [] } t l hinv ⟨hon, rfl, rfl, hl⟩
    refine ⟨c', hc', ?_⟩
    rcases h with h | ⟨hs', -⟩
    · exact Or.inl h
    · right
      rw [hs'.rx]
      exact ih c'.s c'.apps hinv' hon' hs'.last (hp'.trans hp) hrest

/-! ### Exact results for the three recovery mechanisms -/

/-- A poll later than the stamp goes straight to the state handler. -/
theorem pollInner_dispatch (c : Ctx) (now l : Int) (hs : Sil c l) (hinv : Inv c.s c.apps) (hno : c.s.st ≠ .offline)
    (hlt : l < now) : pollInner c now false = dispatch c now := by
  have hps : pollStart c = .ok c := by
    unfold pollStart
    cases hst : c.s.st with
    | offline => exact absurd hst hno
    | passiveIdle => exact absurd hst hinv.noPassive
    | _ => rfl
  unfold pollInner
  rw [if_neg (by simp [hs.on]), hps]
  simp only [Res.bind]
  rw [if_neg (by simp [ongoing, hs.last]; omega)]
  have : (upd c fun s => checkBusActivity s now c.rx.length) = c := by
    simp only [upd, hs.rx, List.length_nil, checkBus_nil]
    have hrx := hs.rx
    cases c; simp only at hrx; subst hrx; rfl
  rw [this]

/-- Token-lost time-out reached in `ListenToken` / `ActiveIdle`: the poll is the first claim step. -/
theorem idle_claims (c : Ctx) (now l : Int) (hs : Sil c l) (hidle : IdleLike c.s.st)
    (hlost : (now - l).natAbs ≥ c.s.p.tokenLostTimeout) :
    dispatch c now = doClaimToken { c with s := { c.s with st := .claimToken .firstToken } } now 2 := by
  -- the claim result is made opaque and `handleLostToken` is rewritten to a constructor pair BEFORE the
  -- iota steps (kernel: 52 s otherwise)
  have hlc := lost_claim c now l hs hidle hlost
  generalize doClaimToken { c with s := { c.s with st := .claimToken .firstToken } } now 2 = X at hlc ⊢
  unfold dispatch
  rcases hidle with ⟨a, b, d, hst⟩ | ⟨a, b, hst⟩
  · rw [hst]
    simp only
    unfold doActiveIdle
    rw [hlc, hst]
  · rw [hst]
    simp only
    unfold doListenToken
    rw [hlc, hst]

/-- Slot expired in `CheckTokenPass` with nothing received, synchronisation pause over: the poll is
`passTokenOn` from `PassToken(no gap, next attempt)` — after removing NS from the LAS at the third expiry. -/
theorem check_expired (c : Ctx) (now l : Int) (hs : Sil c l) (att : Attempt) (hst : c.s.st = .checkTokenPass att)
    (hsl : now > l + (c.s.p.slotTime : Nat)) (hsy : l + (c.s.p.bits 33 : Nat) < now) :
    doCheckTokenPass c now =
      match att with
      | .first => passTokenOn { c with s := { c.s with st := .passToken false .second } } now .second
      | .second => passTokenOn { c with s := { c.s with st := .passToken false .third } } now .third
      | .third =>
        match c.s.ring.removeStation c.s.ring.ns with
        | none => .panic "remove_station index"
        | some r => passTokenOn { c with s := { c.s with ring := r, st := .passToken false .first } } now .first := by
  have pass : ∀ (s0 : Station) (a' : Attempt), s0.lastBusActivity = some l → s0.p = c.s.p →
      doPassToken { c with s := { s0 with st := .passToken false a' } } now =
        passTokenOn { c with s := { s0 with st := .passToken false a' } } now a' := by
    intro s0 a' hl0 hp0
    unfold doPassToken
    simp only
    rw [waitSync_some _ _ _ (by exact hl0)]
    simp only
    rw [if_neg (by simp only [decide_eq_true_eq]; rw [hp0]; omega)]
    simp
  unfold doCheckTokenPass
  simp only [hst]
  rw [checkSlot_some _ _ _ hs.last]
  simp only [decide_eq_true_eq]
  rw [if_pos hsl]
  cases att with
  | first => simp only [tr, toPassToken, hst, Res.bind]; exact pass c.s _ hs.last rfl
  | second => simp only [tr, toPassToken, hst, Res.bind]; exact pass c.s _ hs.last rfl
  | third =>
    simp only
    cases hr : c.s.ring.removeStation c.s.ring.ns with
    | none => simp only [Res.bind]
    | some r =>
      simp only [tr, toPassToken, upd, hst, Res.bind]
      exact pass { c.s with ring := r } _ hs.last rfl

theorem removeStation_inactive (r r' : TokenRing) (a : Nat) (h : r.removeStation a = some r') : r'.isActive a = false := by
  unfold TokenRing.removeStation at h
  by_cases ha : a ≥ 128
  · rw [if_pos ha] at h; exact absurd h (by simp)
  · rw [if_neg ha] at h
    have h' := Option.some.inj h
    rw [← h', TokenRing.updateNextPrev_active]
    unfold TokenRing.isActive
    rw [dif_pos (by omega)]
    simp only [Vector.getElem_ofFn, if_true]

/-- Only `transmit_telegram` calls are recorded while the token is held. -/
def OnlyTransmitCalls (extra : List AppCall) : Prop := ∀ x ∈ extra, ∃ i hp a, x = AppCall.transmit i hp a

theorem appTransmit_calls (c : Ctx) (now : Int) (hp : Bool) (c' : Ctx) (b : Bool)
    (h : appTransmit c now hp = (.ok c', b)) : ∃ extra, c'.calls = c.calls ++ extra ∧ OnlyTransmitCalls extra := by
  have one : ∀ i a, OnlyTransmitCalls [AppCall.transmit i hp a] := by
    intro i a x hx; simp at hx; exact ⟨i, hp, a, hx⟩
  unfold appTransmit at h
  simp only at h
  split at h
  · cases h
  · split at h
    · injection h with h1 h2; cases h1; exact ⟨_, rfl, one _ _⟩
    · split at h
      · cases h
      · split at h
        · split at h
          · split at h
            · injection h with h1 h2
              obtain ⟨-, rfl⟩ := transmit_cases _ _ _ _ h1
              exact ⟨_, rfl, one _ _⟩
            · cases h
          · cases h
        · injection h with h1 h2
          obtain ⟨-, rfl⟩ := transmit_cases _ _ _ _ h1
          exact ⟨_, rfl, one _ _⟩

theorem OnlyTransmitCalls.append {a b : List AppCall} (ha : OnlyTransmitCalls a) (hb : OnlyTransmitCalls b) :
    OnlyTransmitCalls (a ++ b) := by
  intro x hx
  rcases List.mem_append.mp hx with h | h
  · exact ha x h
  · exact hb x h

theorem appsTransmit_calls (now : Int) (hp : Bool) : ∀ (k : Nat) (c c' : Ctx) (b : Bool),
    appsTransmit now hp k c = (.ok c', b) → ∃ extra, c'.calls = c.calls ++ extra ∧ OnlyTransmitCalls extra := by
  intro k
  induction k with
  | zero =>
    intro c c' b h
    simp only [appsTransmit] at h
    injection h with h1 h2; cases h1
    exact ⟨[], by simp, fun x hx => by cases hx⟩
  | succ k ih =>
    intro c c' b h
    simp only [appsTransmit] at h
    rcases hat : appTransmit c now hp with ⟨r, b1⟩
    rw [hat] at h
    cases r with
    | panic s => simp only at h; cases h
    | ok c1 =>
      obtain ⟨e1, he1, ho1⟩ := appTransmit_calls c now hp c1 b1 hat
      cases b1 with
      | true =>
        simp only at h
        injection h with h1 h2; cases h1
        exact ⟨e1, he1, ho1⟩
      | false =>
        simp only at h
        split at h
        · split at h
          · injection h with h1 h2; cases h1
            exact ⟨e1, he1, ho1⟩
          · obtain ⟨e2, he2, ho2⟩ := ih _ c' b h
            exact ⟨e1 ++ e2, by rw [he2]; simp only [upd]; rw [he1, List.append_assoc], ho1.append ho2⟩
        · cases h

theorem passNow_calls (c : Ctx) (now : Int) (c' : Ctx) (h : passNow c now = .ok c') : c'.calls = c.calls := by
  unfold passNow at h
  cases htr : tr c (fun s => toPassToken s true .first) "transition_pass_token" with
  | panic s => rw [htr] at h; cases h
  | ok c2 =>
    rw [htr] at h
    simp only [Res.bind] at h
    rw [doPassToken_calls c2 now c' h, tr_calls _ _ _ _ htr]

theorem useTokenGo_calls (c : Ctx) (now : Int) (d : UseData) (hp : Bool) (c' : Ctx) (h : useTokenGo c now d hp = .ok c') :
    ∃ extra, c'.calls = c.calls ++ extra ∧ OnlyTransmitCalls extra := by
  unfold useTokenGo at h
  simp only at h
  rcases hat : appsTransmit now hp (upd c fun s => { s with st := .useToken d true }).apps.length
    (upd c fun s => { s with st := .useToken d true }) with ⟨r, b⟩
  rw [hat] at h
  cases r with
  | panic s => simp only at h; cases h
  | ok c1 =>
    obtain ⟨e, he, ho⟩ := appsTransmit_calls now hp _ _ c1 b hat
    cases b with
    | true => simp only at h; cases h; exact ⟨e, he, ho⟩
    | false =>
      simp only at h
      exact ⟨e, (passNow_calls c1 now c' h).trans he, ho⟩

theorem doUseToken_calls (c : Ctx) (now : Int) (c' : Ctx) (h : doUseToken c now = .ok c') :
    ∃ extra, c'.calls = c.calls ++ extra ∧ OnlyTransmitCalls extra := by
  unfold doUseToken at h
  split at h
  · simp only at h
    split at h
    · cases h; exact ⟨[], by simp, fun x hx => by cases hx⟩
    · split at h
      · exact useTokenGo_calls { c with s := (waitSyncPause (holdUpdate c.s _) now).1 } now _ _ c' h
      · split at h
        · exact useTokenGo_calls { c with s := (waitSyncPause (holdUpdate c.s _) now).1 } now _ _ c' h
        · exact ⟨[], by rw [passNow_calls _ now c' h]; simp, fun x hx => by cases hx⟩
  · cases h

/-! ### The polls that stay silent although `Late`: exact results -/

theorem nextGap_of_waiting (s : Station) (cur : Nat)
    (hn : nextGapPoll s.p.address s.ring.ns s.p.hsa cur = .waiting) : nextGap s cur = some (.waiting 0) := by
  unfold nextGap; rw [hn]

/-- `ClaimToken(Scan)` with the sweep finished: the poll only moves to `PassToken(no gap, first)`. -/
theorem claim_scan_done (c : Ctx) (now l : Int) (fuel : Nat) (hs : Sil c l) (hsy : l + (c.s.p.bits 33 : Nat) < now)
    (hst : c.s.st = .claimToken .scan) (r : Nat) (hg : c.s.gap = .waiting r) :
    doClaimToken c now (fuel + 1) = .ok { c with s := { c.s with st := .passToken false .first } } := by
  unfold doClaimToken
  simp only [hst]
  rw [waitSync_some _ _ _ hs.last]
  simp only
  rw [if_neg (by simp only [decide_eq_true_eq]; omega)]
  simp only [hg, tr, toPassToken, hst]

/-- `ClaimToken(Scan)` at the last GAP address: the poll only finishes the sweep. -/
theorem claim_scan_last (c : Ctx) (now l : Int) (fuel : Nat) (hs : Sil c l) (hsy : l + (c.s.p.bits 33 : Nat) < now)
    (hst : c.s.st = .claimToken .scan) (cur : Nat) (hg : c.s.gap = .doPoll cur)
    (hn : nextGapPoll c.s.p.address c.s.ring.ns c.s.p.hsa cur = .waiting) :
    doClaimToken c now (fuel + 1) = .ok { c with s := { c.s with gap := .waiting 0 } } := by
  unfold doClaimToken
  simp only [hst]
  rw [waitSync_some _ _ _ hs.last]
  simp only
  rw [if_neg (by simp only [decide_eq_true_eq]; omega)]
  simp only [hg, nextGap_of_waiting c.s cur hn, upd, transmitGapPoll]
  rw [hst]

/-- `ClaimToken(ScanAwait a)` at the last GAP address after the slot time: no reply, sweep finished. -/
theorem claim_await_last (c : Ctx) (now l : Int) (hs : Sil c l) (hsy : l + (c.s.p.bits 33 : Nat) < now)
    (hsl : l + (c.s.p.slotTime : Nat) < now)
    (a : Nat) (hst : c.s.st = .claimToken (.scanAwait a)) (hg : c.s.gap = .doPoll a) (hne : a ≠ c.s.p.address)
    (hn : nextGapPoll c.s.p.address c.s.ring.ns c.s.p.hsa a = .waiting) :
    doClaimToken c now 2 = .ok { c with s := { c.s with st := .claimToken .scan, gap := .waiting 0 } } := by
  have hag : awaitGapPollResponse c now a = (.ok c, .noResponse) := by
    unfold awaitGapPollResponse
    rw [if_neg hne, if_neg (by rw [hg]; simp), hs.rx, receiveTelegram_nil]
    simp only
    rw [checkSlot_some _ _ _ hs.last]
    simp only [decide_eq_true_eq]
    rw [if_pos (by omega)]
    have hrx := hs.rx
    cases c; simp only at hrx; subst hrx; rfl
  have h1 := claim_scan_last (upd c fun s => { s with st := .claimToken .scan }) now l 0
    (sil_setSt hs _) hsy rfl a hg hn
  unfold doClaimToken
  simp only [hst, hag]
  rw [h1]
  rfl

/-- Every `Late` poll of a station with bound 1 transmits; with a larger bound it does not. -/
theorem late_noTx_of_bound (c : Ctx) (now l : Int) (hs : Sil c l) (hinv : Inv c.s c.apps) (hlate : Late c.s.p l now)
    (hb : 2 ≤ pollsToTx c.s) (c' : Ctx) (h : pollInner c now false = .ok c') : c'.tx = none := by
  have hsy : l + (c.s.p.bits 33 : Nat) < now := by have := hlate.sync; omega
  have hsl : l + (c.s.p.slotTime : Nat) < now := by have := hlate.slot; omega
  have hno : c.s.st ≠ .offline := by
    intro h0; simp [pollsToTx, h0] at hb
  rw [pollInner_dispatch c now l hs hinv hno hlate.after] at h
  unfold dispatch at h
  unfold pollsToTx at hb
  cases hst : c.s.st with
  | claimToken step =>
    rw [hst] at h hb
    simp only at h
    cases step with
    | firstToken => simp at hb
    | secondToken => simp at hb
    | scan =>
      simp only at hb
      cases hg : c.s.gap with
      | waiting r =>
        rw [claim_scan_done c now l 1 hs hsy hst r hg] at h
        cases h; exact hs.tx
      | doPoll cur =>
        rw [hg] at hb
        simp only at hb
        split at hb
        · rename_i hn
          rw [claim_scan_last c now l 1 hs hsy hst cur hg hn] at h
          cases h; exact hs.tx
        · omega
    | scanAwait a =>
      obtain ⟨hg, hne⟩ := hinv.await2 a hst
      rw [hg] at hb
      simp only at hb
      split at hb
      · rename_i hn
        rw [claim_await_last c now l hs hsy hsl a hst hg hne hn] at h
        cases h; exact hs.tx
      · omega
  | offline | passiveIdle | listenToken _ _ | activeIdle _ _ _ | useToken _ _ | awaitData _ _ | passToken _ _
  | checkTokenPass _ | awaitStatus _ => rw [hst] at hb; simp at hb

/-! ### Unknown stamp: the first poll initialises it to `now` -/

/-- The context with the stamp initialised to `now`. -/
def stamped (c : Ctx) (now : Int) : Ctx := { c with s := { c.s with lastBusActivity := some now } }

theorem getOrInsert_stamped (s : Station) (now : Int) (h : s.lastBusActivity = none) :
    getOrInsertLast s now = getOrInsertLast { s with lastBusActivity := some now } now := by
  unfold getOrInsertLast; rw [h]

theorem waitSync_stamped (s : Station) (now : Int) (h : s.lastBusActivity = none) :
    waitSyncPause s now = waitSyncPause { s with lastBusActivity := some now } now := by
  unfold waitSyncPause; rw [getOrInsert_stamped s now h]

theorem checkSlot_stamped (s : Station) (now : Int) (h : s.lastBusActivity = none) :
    checkSlotExpired s now = checkSlotExpired { s with lastBusActivity := some now } now := by
  unfold checkSlotExpired; rw [getOrInsert_stamped s now h]

theorem markRx_stamped (s : Station) (now : Int) (h : s.lastBusActivity = none) :
    markRx s now = markRx { s with lastBusActivity := some now } now := by
  unfold markRx markBusActivity
  simp [h]

theorem doPassToken_stamped (c : Ctx) (now : Int) (h : c.s.lastBusActivity = none) :
    doPassToken c now = doPassToken (stamped c now) now := by
  unfold doPassToken stamped
  simp only [waitSync_stamped c.s now h]

theorem awaitGap_stamped (c : Ctx) (now : Int) (a : Nat) (h : c.s.lastBusActivity = none) :
    awaitGapPollResponse c now a = awaitGapPollResponse (stamped c now) now a := by
  unfold awaitGapPollResponse stamped
  simp only [checkSlot_stamped c.s now h, markRx_stamped c.s now h]

theorem doClaimToken_stamped (c : Ctx) (now : Int) (fuel : Nat) (h : c.s.lastBusActivity = none) :
    doClaimToken c now fuel = doClaimToken (stamped c now) now fuel := by
  cases fuel with
  | zero => unfold doClaimToken; rfl
  | succ fuel =>
    have hag := awaitGap_stamped c now
    unfold doClaimToken
    unfold stamped at hag ⊢
    simp only [waitSync_stamped c.s now h, hag _ h]

theorem handleLost_stamped (c : Ctx) (now : Int) (h : c.s.lastBusActivity = none) :
    handleLostToken c now = handleLostToken (stamped c now) now := by
  unfold handleLostToken stamped
  simp only [getOrInsert_stamped c.s now h]

theorem doListenToken_stamped (c : Ctx) (now : Int) (h : c.s.lastBusActivity = none) :
    doListenToken c now = doListenToken (stamped c now) now := by
  have hh := handleLost_stamped c now h
  unfold doListenToken
  -- `rw` + `rfl` (argument-wise comparison) instead of `simp only [hh]` (kernel: 118 s)
  rw [hh]
  rfl

theorem doActiveIdle_stamped (c : Ctx) (now : Int) (h : c.s.lastBusActivity = none) :
    doActiveIdle c now = doActiveIdle (stamped c now) now := by
  have hh := handleLost_stamped c now h
  unfold doActiveIdle
  rw [hh]
  rfl

theorem holdUpdate_stamped (s : Station) (d : UseData) (now : Int) :
    holdUpdate { s with lastBusActivity := some now } d = { (holdUpdate s d) with lastBusActivity := some now } := by
  unfold holdUpdate; split <;> rfl

theorem doUseToken_stamped (c : Ctx) (now : Int) (h : c.s.lastBusActivity = none) :
    doUseToken c now = doUseToken (stamped c now) now := by
  unfold doUseToken stamped
  simp only [holdUpdate_stamped]
  split
  · rename_i d fcd hst
    rw [waitSync_stamped (holdUpdate c.s d) now (by rw [(holdUpdate_keeps c.s d).1]; exact h)]
  · rfl

theorem doAwaitData_stamped (c : Ctx) (now : Int) (h : c.s.lastBusActivity = none) :
    doAwaitDataResponse c now = doAwaitDataResponse (stamped c now) now := by
  unfold doAwaitDataResponse stamped
  simp only [checkSlot_stamped c.s now h, markRx_stamped c.s now h]

theorem doCheckTokenPass_stamped (c : Ctx) (now : Int) (h : c.s.lastBusActivity = none) :
    doCheckTokenPass c now = doCheckTokenPass (stamped c now) now := by
  unfold doCheckTokenPass stamped
  simp only [checkSlot_stamped c.s now h]

theorem doAwaitStatus_stamped (c : Ctx) (now : Int) (h : c.s.lastBusActivity = none) :
    doAwaitStatusResponse c now = doAwaitStatusResponse (stamped c now) now := by
  have hag := awaitGap_stamped c now
  unfold doAwaitStatusResponse
  unfold stamped at hag ⊢
  simp only [hag _ h]

theorem dispatch_stamped (c : Ctx) (now : Int) (h : c.s.lastBusActivity = none) :
    dispatch c now = dispatch (stamped c now) now := by
  unfold dispatch
  rw [← doListenToken_stamped c now h, ← doClaimToken_stamped c now 2 h, ← doUseToken_stamped c now h,
    ← doAwaitData_stamped c now h, ← doPassToken_stamped c now h, ← doCheckTokenPass_stamped c now h,
    ← doActiveIdle_stamped c now h, ← doAwaitStatus_stamped c now h]
  rfl

/-- A silent poll of a station that has not yet registered any bus activity (e.g. the first poll after
`set_online`): it behaves as if the stamp were `now`; unless it transmits, the stamp is `now` afterwards. -/
theorem silent_step_none (c : Ctx) (now : Int) (hinv : Inv c.s c.apps) (hon : c.s.online = true) (htx : c.tx = none)
    (hrx : c.rx = []) (hl : c.s.lastBusActivity = none) :
    ∃ c', pollInner c now false = .ok c' ∧ Inv c'.s c'.apps ∧ c'.apps.length = c.apps.length ∧
      c'.s.online = true ∧ c'.s.p = c.s.p ∧ (c'.tx ≠ none ∨ Sil c' now) := by
  obtain ⟨c', hc', hinv', hlen⟩ := pollInner_good c now false hinv htx
  refine ⟨c', hc', hinv', hlen, ?_⟩
  have main : ∀ c1 : Ctx, Inv c1.s c1.apps → c1.s.online = true → c1.tx = none → c1.rx = [] → c1.s.lastBusActivity = none →
      c1.s.st ≠ .offline → pollInner c1 now false = .ok c' →
      c'.s.online = true ∧ c'.s.p = c1.s.p ∧ (c'.tx ≠ none ∨ Sil c' now) := by
    intro c1 hi1 ho1 ht1 hr1 hl1 hno1 h1
    have hps : pollStart c1 = .ok c1 := by
      unfold pollStart
      cases hst : c1.s.st with
      | offline => exact absurd hst hno1
      | passiveIdle => exact absurd hst hi1.noPassive
      | _ => rfl
    unfold pollInner at h1
    rw [if_neg (by simp [ho1]), hps] at h1
    simp only [Res.bind] at h1
    rw [if_neg (by simp [ongoing, hl1])] at h1
    have : (upd c1 fun s => checkBusActivity s now c1.rx.length) = c1 := by
      simp only [upd, hr1, List.length_nil, checkBus_nil]
      cases c1; simp only at hr1; subst hr1; rfl
    rw [this, dispatch_stamped c1 now hl1] at h1
    have hs : Sil (stamped c1 now) now := ⟨ho1, ht1, hr1, rfl⟩
    have hinvs : Inv (stamped c1 now).s (stamped c1 now).apps := hi1.congr rfl rfl rfl rfl rfl rfl
    obtain ⟨a, b, d⟩ := dispatch_prog (stamped c1 now) now now hs hinvs c' h1
    exact ⟨b, a, d.imp id (fun x => x.1)⟩
  by_cases hoff : c.s.st = .offline
  · have heq : pollInner c now false = pollInner { c with s := { c.s with st := .listenToken none 0 } } now false := by
      unfold pollInner
      simp only [hon, pollStart, hoff, tr, toListenToken]
      rfl
    rw [heq] at hc'
    exact main { c with s := { c.s with st := .listenToken none 0 } }
      (hinv.setSt hon (.listenToken none 0) (by simp) (by simp) (by simp)) hon htx hrx hl (by simp) hc'
  · exact main c hinv hon htx hrx hl hoff hc'

/-- Schedule form from an unknown stamp: the first poll `t0` fixes the stamp. -/
theorem fresh_polls (s : Station) (apps : Apps) (t0 : Int) (rest : List Int) (hinv : Inv s apps) (hon : s.online = true)
    (hl : s.lastBusActivity = none)
    (hrest : ∀ (s' : Station) (apps' : Apps), Inv s' apps' → s'.online = true → s'.lastBusActivity = some t0 → s'.p = s.p →
      TransmitsWithin s' apps' [] rest) :
    TransmitsWithin s apps [] (t0 :: rest) := by
  obtain ⟨c', hc', hinv', -, hon', hp', h⟩ := silent_step_none { s := s, apps := apps, rx := [] } t0 hinv hon rfl rfl hl
  refine ⟨c', hc', h.imp id (fun hs' => ?_)⟩
  rw [hs'.rx]
  exact hrest c'.s c'.apps hinv' hon' hs'.last hp'

end PV
