/-
Event sequences of the control machine of property C07 (`offline_online`):

* `lost_run`   : while no request is answered (every request lost), a live peripheral is visited
                 `mr + 1 - retry` more times without an event, the next visit raises `Offline` — once —
                 and from then on no event is raised;
* `back_online`: from every invariant control state with an offline peripheral, the fault-free
                 continuation raises `Online`, then `Configured`, then only `DataExchanged` /
                 `Diagnostics`, the first two within 8 visits.
-/
import ProfiVerif.Lemmas.DpLiveCert

namespace PV.Live
open PV PV.Dp

/-! ## Runs with events -/

/-- `n` steps with the same abstract environment step. -/
def crunN (mr : Nat) (iz : Bool) (e : AEnv) : Nat → Ctl → Ctl × List PEvent
  | 0, c => (c, [])
  | n + 1, c =>
    let r := cstep mr iz c e
    let r2 := crunN mr iz e n r.1
    (r2.1, r.2.toList ++ r2.2)

theorem crunN_add (mr : Nat) (iz : Bool) (e : AEnv) (a b : Nat) (c : Ctl) :
    crunN mr iz e (a + b) c =
      ((crunN mr iz e b (crunN mr iz e a c).1).1, (crunN mr iz e a c).2 ++ (crunN mr iz e b (crunN mr iz e a c).1).2) := by
  induction a generalizing c with
  | zero => simp [crunN]
  | succ a ih =>
    rw [Nat.add_right_comm]
    simp only [crunN]
    rw [ih]
    simp [List.append_assoc]

theorem crunN_fst (mr : Nat) (iz : Bool) : ∀ (n : Nat) (c : Ctl),
    (crunN mr iz (.visit false .ok) n c).1 = iterQ mr iz n c := by
  intro n
  induction n with
  | zero => intro c; rfl
  | succ n ih => intro c; simp only [crunN, iterQ]; exact ih _

/-! ## No reply at all -/

def lost : AEnv := .visit false .lossReq

theorem reqOf_live {st : PState} (h : st ≠ .offline) (dn fl : Bool) (rc : RCls) :
    ∃ k, reqOf st dn fl rc = some k := by
  cases st <;> first | exact absurd rfl h | exact ⟨_, rfl⟩

theorem cvisit_lost_live {iz : Bool} {c : Core} {rc : RCls} (h : rc ≠ .over) (hs : c.st ≠ .offline) :
    ∃ c', cvisit iz c rc false .lossReq = (c', .inc, none) ∧ c'.st = c.st := by
  obtain ⟨k, hk⟩ := reqOf_live hs c.dn c.fl rc
  cases rc with
  | over => exact absurd rfl h
  | zero => exact ⟨{ c with fl := flAfter c.st c.dn c.fl .zero }, by simp [cvisit, hk], rfl⟩
  | pos => exact ⟨{ c with fl := flAfter c.st c.dn c.fl .pos }, by simp [cvisit, hk], rfl⟩

/-- A live peripheral whose requests are all lost: `k` visits without an event while the retry
counter stays within the limit. -/
theorem lost_live {mr : Nat} {iz : Bool} : ∀ (k : Nat) (c : Ctl), c.core.st ≠ .offline → c.retry + k ≤ mr + 1 →
    ∃ c', crunN mr iz lost k c = (c', []) ∧ c'.core.st = c.core.st ∧ c'.retry = c.retry + k := by
  intro k
  induction k with
  | zero => intro c _ _; exact ⟨c, rfl, rfl, rfl⟩
  | succ k ih =>
    intro c hs hr
    have hno : rcls mr c.retry ≠ .over := by
      rcases rcls_cases mr c.retry with ⟨_, hc⟩ | ⟨_, _, hc⟩ | ⟨h1, _⟩
      · rw [hc]; decide
      · rw [hc]; decide
      · omega
    obtain ⟨c1, h1, h2⟩ := cvisit_lost_live (iz := iz) hno hs
    have hstep : cstep mr iz c lost = (⟨c1, c.retry + 1⟩, none) := by
      simp only [cstep, lost, cstepCore, h1, RAct.apply]
    obtain ⟨c', h3, h4, h5⟩ := ih ⟨c1, c.retry + 1⟩ (by simpa [h2] using hs) (by simp only; omega)
    refine ⟨c', ?_, by rw [h4]; exact h2, by rw [h5]; simp only; omega⟩
    simp only [crunN, hstep, h3, Option.toList, List.nil_append]

/-- An offline peripheral whose probes are all lost: no event, ever. -/
theorem lost_offline {mr : Nat} (hmr : 1 ≤ mr) {iz : Bool} : ∀ (k : Nat) (c : Ctl),
    c.core.st = .offline → c.retry ≤ 1 →
    ∃ c', crunN mr iz lost k c = (c', []) ∧ c'.core.st = .offline ∧ c'.retry ≤ 1 := by
  intro k
  induction k with
  | zero => intro c h1 h2; exact ⟨c, rfl, h1, h2⟩
  | succ k ih =>
    intro c hs hr
    obtain ⟨⟨st, fcb, dn, fl, ss, mem, dp⟩, r⟩ := c
    simp only at hs hr
    subst hs
    have hcase : r = 0 ∨ r = 1 := by omega
    rcases hcase with rfl | rfl
    · have hstep : cstep mr iz ⟨⟨.offline, fcb, dn, fl, ss, mem, dp⟩, 0⟩ lost =
          (⟨⟨.offline, fcb, dn, fl, ss, mem, dp⟩, 1⟩, none) := by
        simp [cstep, lost, cstepCore, rcls_zero, cvisit, reqOf, flAfter, isDX, RAct.apply]
      obtain ⟨c', h3, h4, h5⟩ := ih ⟨⟨.offline, fcb, dn, fl, ss, mem, dp⟩, 1⟩ rfl (Nat.le_refl 1)
      exact ⟨c', by simp only [crunN, hstep, h3, Option.toList, List.nil_append], h4, h5⟩
    · have hc : rcls mr 1 = .pos := rcls_pos (Nat.le_refl 1) hmr
      have hstep : cstep mr iz ⟨⟨.offline, fcb, dn, fl, ss, mem, dp⟩, 1⟩ lost =
          (⟨⟨.offline, fcb, dn, fl, ss, mem, dp⟩, 0⟩, none) := by
        simp [cstep, lost, cstepCore, hc, cvisit, reqOf, RAct.apply]
      obtain ⟨c', h3, h4, h5⟩ := ih ⟨⟨.offline, fcb, dn, fl, ss, mem, dp⟩, 0⟩ rfl (Nat.zero_le 1)
      exact ⟨c', by simp only [crunN, hstep, h3, Option.toList, List.nil_append], h4, h5⟩

/-- **A peripheral that stops answering**: from a live peripheral with retry count `r ≤ mr + 1`, the
visits `1 … mr + 1 - r` raise no event (and the peripheral stays live), visit `mr + 2 - r` raises
`Offline`, and no later visit raises anything: exactly one `Offline` event. -/
theorem lost_run {mr : Nat} (hmr : 1 ≤ mr) {iz : Bool} {c : Ctl} (hs : c.core.st ≠ .offline)
    (hr : c.retry ≤ mr + 1) (n : Nat) :
    ∃ c', crunN mr iz lost n c = (c', if mr + 2 - c.retry ≤ n then [.offline] else []) ∧
      (c'.core.st = .offline ↔ mr + 2 - c.retry ≤ n) := by
  by_cases hn : mr + 2 - c.retry ≤ n
  · obtain ⟨m, rfl⟩ : ∃ m, n = (mr + 1 - c.retry) + (1 + m) := ⟨n - (mr + 2 - c.retry), by omega⟩
    obtain ⟨c1, h1, h2, h3⟩ := lost_live (mr := mr) (iz := iz) (mr + 1 - c.retry) c hs (by omega)
    have h3' : c1.retry = mr + 1 := by omega
    have hstep : cstep mr iz c1 lost = (⟨offC c1.core, 0⟩, some .offline) := by
      simp only [cstep, lost, cstepCore, rcls_over (show mr < c1.retry by omega)]
      rfl
    obtain ⟨c2, h4, h5, _⟩ := lost_offline hmr (iz := iz) m ⟨offC c1.core, 0⟩ rfl (by simp)
    refine ⟨c2, ?_, ?_⟩
    · rw [if_pos hn, crunN_add, h1, crunN_add]
      simp only [crunN, hstep, h4, Option.toList, List.nil_append, List.append_nil]
    · simp [h5, hn]
  · obtain ⟨c1, h1, h2, h3⟩ := lost_live (mr := mr) (iz := iz) n c hs (by omega)
    refine ⟨c1, by rw [if_neg hn, h1], ?_⟩
    rw [h2]; simp [hs, hn]

/-! ## Back online -/

/-- Follow the fault-free run for `n` visits with the retry limit 1, checking that the retry counter
never exceeds 1 *before* a visit (then the run is the same for every limit ≥ 1).  Result: the events and
the final state. -/
def evRun (iz : Bool) : Nat → Ctl → Option (List PEvent × Ctl)
  | 0, c => some ([], c)
  | n + 1, c =>
    if c.retry ≤ 1 then
      let r := cstep 1 iz c (.visit false .ok)
      match evRun iz n r.1 with
      | some (evs, c') => some (r.2.toList ++ evs, c')
      | none => none
    else none

theorem cstep_small {mr : Nat} (hmr : 1 ≤ mr) (iz : Bool) {c : Ctl} (h : c.retry ≤ 1) (e : AEnv) :
    cstep mr iz c e = cstep 1 iz c e := by
  have : rcls mr c.retry = rcls 1 c.retry := by
    have hc : c.retry = 0 ∨ c.retry = 1 := by omega
    rcases hc with h0 | h0 <;> rw [h0]
    · rw [rcls_zero, rcls_zero]
    · rw [rcls_pos (Nat.le_refl 1) hmr, rcls_pos (Nat.le_refl 1) (Nat.le_refl 1)]
  simp only [cstep, this]

theorem evRun_sound {mr : Nat} (hmr : 1 ≤ mr) (iz : Bool) : ∀ (n : Nat) (c : Ctl) (evs : List PEvent) (c' : Ctl),
    evRun iz n c = some (evs, c') → crunN mr iz (.visit false .ok) n c = (c', evs) := by
  intro n
  induction n with
  | zero => intro c evs c' h; simp only [evRun, Option.some.injEq, Prod.mk.injEq] at h; obtain ⟨rfl, rfl⟩ := h; rfl
  | succ n ih =>
    intro c evs c' h
    unfold evRun at h
    by_cases hr : c.retry ≤ 1
    · rw [if_pos hr] at h
      simp only at h
      cases hrec : evRun iz n (cstep 1 iz c (.visit false .ok)).1 with
      | none => rw [hrec] at h; cases h
      | some x =>
        obtain ⟨evs1, c1⟩ := x
        rw [hrec] at h
        simp only [Option.some.injEq, Prod.mk.injEq] at h
        obtain ⟨rfl, rfl⟩ := h
        simp only [crunN, cstep_small hmr iz hr]
        rw [ih _ _ _ hrec]
    · rw [if_neg hr] at h; cases h

def isDxEvent : PEvent → Bool
  | .dataExchanged => true
  | .diagnostics => true
  | _ => false

/-- Certificate: 8 fault-free visits from an offline peripheral raise `Online`, `Configured`, then only
data-exchange events, and end in a steady state with retry count 0. -/
def backCert (iz : Bool) (c : Core) (r : Nat) : Bool :=
  match evRun iz 8 ⟨c, r⟩ with
  | some (e1 :: e2 :: rest, c') =>
    e1 == .online && e2 == .configured && rest.all isDxEvent && steady c'.core && c'.retry == 0
  | _ => false

def checkBack (iz : Bool) : Bool :=
  (coresOf .offline).all fun c =>
    (!jinvCore iz c .zero || backCert iz c 0) && (!jinvCore iz c .pos || backCert iz c 1)

/-- A visit in a steady state raises a data-exchange event. -/
def checkSteadyEv (iz : Bool) : Bool :=
  (coresOf .dataExchange).all fun c => !steady c ||
    (match (cvisit iz c .zero false .ok).2.2 with
     | some e => isDxEvent e
     | none => false)

set_option maxRecDepth 1000000 in
theorem table_back_f : checkBack false = true := by decide +kernel
set_option maxRecDepth 1000000 in
theorem table_back_t : checkBack true = true := by decide +kernel
set_option maxRecDepth 1000000 in
theorem table_steadyEv_f : checkSteadyEv false = true := by decide +kernel
set_option maxRecDepth 1000000 in
theorem table_steadyEv_t : checkSteadyEv true = true := by decide +kernel

theorem steady_events {mr : Nat} {iz : Bool} : ∀ (n : Nat) (d : Core), steady d = true →
    ∀ e ∈ (crunN mr iz (.visit false .ok) n ⟨d, 0⟩).2, isDxEvent e = true := by
  intro n
  induction n with
  | zero => intro d _ e he; simp [crunN] at he
  | succ n ih =>
    intro d hd e he
    obtain ⟨h1, h2⟩ := steady_next (iz := iz) hd
    have hst : d.st = .dataExchange := by
      unfold steady at hd
      simp only [Bool.and_eq_true, beq_iff_eq] at hd
      exact hd.1.1.1
    have htab : checkSteadyEv iz = true := by
      cases iz
      · exact table_steadyEv_f
      · exact table_steadyEv_t
    unfold checkSteadyEv at htab
    have h3 := List.all_eq_true.mp htab d (hst ▸ mem_coresOf d)
    rw [hd] at h3
    simp only [Bool.not_true, Bool.false_or] at h3
    have hstep : cstep mr iz ⟨d, 0⟩ (.visit false .ok) =
        (⟨(nextC iz d .zero).1, 0⟩, (cvisit iz d .zero false .ok).2.2) := by
      simp only [cstep, cstepCore, rcls_zero]
      have : (cvisit iz d .zero false .ok).2.1 = .reset := h1
      rw [this]; rfl
    simp only [crunN, hstep, List.mem_append] at he
    rcases he with he | he
    · cases hev : (cvisit iz d .zero false .ok).2.2 with
      | none => rw [hev] at he; simp at he
      | some e' =>
        rw [hev] at he h3
        simp only [Option.toList, List.mem_singleton] at he
        subst he; exact h3
    · exact ih _ h2 e he

/-- **A peripheral that answers again**: from every invariant control state with an offline
peripheral, for every retry limit ≥ 1, the events of `n ≥ 8` fault-free visits are `Online`,
`Configured`, then only `DataExchanged` / `Diagnostics`. -/
theorem back_online {mr : Nat} (hmr : 1 ≤ mr) {iz : Bool} {c : Ctl} (h : jinv mr iz c = true)
    (hs : c.core.st = .offline) {n : Nat} (hn : 8 ≤ n) :
    ∃ rest, (crunN mr iz (.visit false .ok) n c).2 = .online :: .configured :: rest ∧
      ∀ e ∈ rest, isDxEvent e = true := by
  obtain ⟨c, r⟩ := c
  simp only at hs
  unfold jinv at h
  simp only [Bool.and_eq_true, decide_eq_true_eq, Bool.or_eq_true, bne_iff_ne, ne_eq] at h
  obtain ⟨⟨hj, _⟩, hoff⟩ := h
  have hr : r ≤ 1 := by
    rcases hoff with h | h
    · exact absurd hs h
    · exact h
  have htab : checkBack iz = true := by
    cases iz
    · exact table_back_f
    · exact table_back_t
  unfold checkBack at htab
  have h3 := List.all_eq_true.mp htab c (hs ▸ mem_coresOf c)
  simp only [Bool.and_eq_true, Bool.or_eq_true, Bool.not_eq_true'] at h3
  have hcert : backCert iz c r = true := by
    have hc : r = 0 ∨ r = 1 := by omega
    rcases hc with rfl | rfl
    · rw [rcls_zero] at hj
      rcases h3.1 with h | h
      · rw [hj] at h; cases h
      · exact h
    · rw [rcls_pos (Nat.le_refl 1) hmr] at hj
      rcases h3.2 with h | h
      · rw [hj] at h; cases h
      · exact h
  unfold backCert at hcert
  cases hev : evRun iz 8 ⟨c, r⟩ with
  | none => rw [hev] at hcert; cases hcert
  | some x =>
    obtain ⟨evs, c'⟩ := x
    rw [hev] at hcert
    match evs, hcert, hev with
    | e1 :: e2 :: rest, hcert, hev =>
      simp only [Bool.and_eq_true, beq_iff_eq, List.all_eq_true] at hcert
      obtain ⟨⟨⟨⟨rfl, rfl⟩, hrest⟩, hst⟩, hr0⟩ := hcert
      have hrun := evRun_sound hmr iz 8 _ _ _ hev
      obtain ⟨m, rfl⟩ : ∃ m, n = 8 + m := ⟨n - 8, by omega⟩
      rw [crunN_add, hrun]
      have hc' : c' = ⟨c'.core, 0⟩ := by
        obtain ⟨cc, rr⟩ := c'
        simp only at hr0
        rw [hr0]
      refine ⟨rest ++ (crunN mr iz (.visit false .ok) m c').2, by simp, ?_⟩
      intro e he
      rcases List.mem_append.mp he with he | he
      · exact hrest e he
      · rw [hc'] at he
        exact steady_events m _ hst e he

end PV.Live
