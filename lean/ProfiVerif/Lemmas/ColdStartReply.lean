/-
Cold start of two stations, the first answered GAP request: the listener registers the request addressed to it,
answers after the synchronisation pause, and the claimant receives the reply with arbitrary lag.  Helper lemmas
(work towards phases (b)/(c); C02).
-/
import ProfiVerif.Lemmas.ColdStartDuo
import ProfiVerif.Lemmas.AwaitReply

namespace PV
open StationGap TokenRing

/-! ## Phase Q0: the request to the listener is on the bus, the listener has not registered it yet -/

/-- The GAP request of `x` (address `aL`) to the listener (address `aH`), sent at `r`. -/
def rqTx (x aL aH : Nat) (r : Int) : Transmission :=
  { start := r, sender := x, bytes := statusRequestBytes aH aL, dropped := false }

/-- **Request on the bus, not yet registered**: the claimant `x` awaits the reply (stamp `r + bits 66`); the log is
the lone transmitter's, its last entry the request to the listener's address, none before it addressed to the
listener; the listener `y` satisfies the listener condition with the request among the transmissions it has not
consumed yet, and was last polled before the end of the request. -/
structure HQ0 (cfg : Cfg) (G : Nat) (n : Net) (x y : Nat) (stx sty : NetStation) (r : Int) (r0 : TokenRing)
    (hd : List Telegram) (dn rs : List Transmission) (lY : Int) (coll : Nat) (tl : Int) : Prop where
  solo : Solo cfg n x stx (r + (cfg.b66 : Nat))
  stx_st : AwaitSt stx.s.st sty.s.p.address
  stx_gap : stx.s.gap = .doPoll sty.s.p.address
  logR : LoneLogR cfg stx.s.p.address x n.bus
  rsne : rs.getLast? = some (rqTx x stx.s.p.address sty.s.p.address r)
  others : ∀ t ∈ rs.dropLast, t.bytes = tokenBytes stx.s.p.address stx.s.p.address ∨
    ∃ g, g < 126 ∧ g ≠ sty.s.p.address ∧ t.bytes = statusRequestBytes g stx.s.p.address
  gy : n.stations[y]? = some sty
  yx : y ≠ x
  ys : y < n.bus.seen.length
  yl : y < n.stations.length
  lis : LLOkX cfg G stx.s.p.address n.bus (r + (cfg.b66 : Nat) + (cfg.slot : Nat) + (cfg.P : Nat)) y sty r0 hd none dn rs lY coll
  early : n.bus.seen.getD y 0 < r + ((cfg.ce 5 : Nat) : Int)
  py : sty.s.p.rate = cfg.rate ∧ sty.s.p.slotBits = cfg.slotBits
  pbx : stx.s.pendingBytes = 0
  starts : ∀ t ∈ n.bus.txs, t.start ≤ tl
  seens : n.bus.seen.getD x 0 ≤ tl ∧ n.bus.seen.getD y 0 ≤ tl
  view : RingView [stx.s.p.address] stx.s.p.address stx.s.ring

theorem mem_dropLast_cons {α : Type} (a t : α) (l : List α) (h : t ∈ l.dropLast) : t ∈ (a :: l).dropLast := by
  cases l with
  | nil => cases h
  | cons b l' => exact List.mem_cons_of_mem _ h

theorem mem_dropLast_of_drop {α : Type} (t : α) : ∀ (k : Nat) (l : List α), t ∈ (l.drop k).dropLast → t ∈ l.dropLast := by
  intro k
  induction k with
  | zero => intro l h; simpa using h
  | succ k ih =>
    intro l h
    cases l with
    | nil => cases h
    | cons a l' => exact mem_dropLast_cons a t l' (ih l' (by simpa using h))

theorem mem_dropLast_of_take {α : Type} (t : α) : ∀ (l : List α) (k : Nat), k < l.length → t ∈ l.take k → t ∈ l.dropLast := by
  intro l
  induction l with
  | nil => intro k hk; simp at hk
  | cons a l' ih =>
    intro k hk ht
    cases k with
    | zero => simp at ht
    | succ k =>
      have hk' : k < l'.length := by simpa using hk
      rw [List.take_succ_cons] at ht
      cases l' with
      | nil => simp at hk'
      | cons b l'' =>
        rcases List.mem_cons.1 ht with rfl | ht
        · exact List.mem_cons_self ..
        · exact List.mem_cons_of_mem _ (ih k hk' ht)

theorem cEnd_rq (cfg : Cfg) (x aL aH : Nat) (r : Int) : cEnd cfg (rqTx x aL aH r) = r + ((cfg.ce 5 : Nat) : Int) := by
  unfold cEnd rqTx
  simp only [statusRequestBytes_length]

/-- **Phase Q0, the claimant is polled**: its slot time has not run out; nothing happens. -/
theorem hq0_claimant {cfg : Cfg} {G : Nat} {n : Net} {x y : Nat} {stx sty : NetStation} {r : Int} {r0 : TokenRing}
    {hd : List Telegram} {dn rs : List Transmission} {lY : Int} {coll : Nat} {tl : Int}
    (h : HQ0 cfg G n x y stx sty r r0 hd dn rs lY coll tl) (hok : cfg.Ok) (now : Int) (htl : tl ≤ now)
    (hown : n.bus.seen.getD x 0 < now) (hgy : now ≤ n.bus.seen.getD y 0 + (cfg.P : Nat)) :
    ∃ n' c, n.poll x now = (n', [], some (.ok c)) ∧ c.tx = none ∧ HQ0 cfg G n' x y stx sty r r0 hd dn rs lY coll now := by
  have hr := hok.rate
  have hmar := hok.margin
  have hc5 := cfg.ce5 hr
  have hs := h.solo
  have hearly := h.early
  have hno : stx.s.st ≠ .offline ∧ stx.s.st ≠ .passiveIdle := h.stx_st.awake
  have hup : upSt stx { s := stx.s, apps := stx.apps, rx := [] } = stx := by unfold upSt; rw [← hs.rx]
  have hxy : x ≠ y := Ne.symm h.yx
  -- the poll
  have hpoll : ∃ n', n.poll x now = (n', [], some (.ok { s := stx.s, apps := stx.apps, rx := [] })) ∧
      Solo cfg n' x stx (r + (cfg.b66 : Nat)) ∧ n'.bus.seen.getD x 0 = now := by
    by_cases hle : now ≤ r + (cfg.b66 : Nat)
    · exact solo_ongoing hs hr now hown hle hno.1 hno.2
    · have hdw : dispatch { s := stx.s, apps := stx.apps, rx := [] } now = .ok { s := stx.s, apps := stx.apps, rx := [] } := by
        exact await_dispatch_partial _ now (r + (cfg.b66 : Nat)) sty.s.p.address [] false h.stx_st hs.stamp h.stx_gap
          (AwaitSt.gapne hs.inv h.stx_st).2 receiveTelegram_nil (by rw [hs.slot]; omega)
      obtain ⟨n', hp, hS, hseen⟩ := solo_step hs hr now hown (by omega) _ hno.1 hno.2 hdw (r + (cfg.b66 : Nat)) hs.son rfl rfl
        hs.stamp (Int.le_refl _) (fun b hb => by cases hb)
      rw [hup] at hS
      exact ⟨n', hp, hS, hseen⟩
  obtain ⟨n', hp, hS, hseen⟩ := hpoll
  obtain ⟨hbus, st0, hst0, hset, -⟩ := Net.poll_bus n x now n' [] _ hp
  rw [hs.deliver hr now (Int.le_of_lt hown)] at hbus
  simp only at hbus
  rw [hs.gx] at hst0
  cases hst0
  rw [hup] at hset
  have hsy : n'.bus.seen.getD y 0 = n.bus.seen.getD y 0 := by rw [hbus]; exact seen_set_other n.bus x y now hxy
  refine ⟨n', _, hp, rfl, ⟨hS, h.stx_st, h.stx_gap, ?_, h.rsne, h.others, ?_, h.yx, ?_, ?_, ?_, ?_, ?_, ?_, ?_, ?_, h.view⟩⟩
  · rw [hbus]
    exact ⟨h.logR.rate, h.logR.corrupt, h.logR.chained, h.logR.live, h.logR.own, h.logR.kinds⟩
  · rw [hset, List.getElem?_set_ne hxy]; exact h.gy
  · rw [hbus]; simp only [List.length_set]; exact h.ys
  · rw [hset, List.length_set]; exact h.yl
  · rw [hbus]; exact h.lis.other x now hxy
  · rw [hsy]; exact hearly
  · exact h.py
  · exact h.pbx
  · rw [hbus]; exact fun t ht => Int.le_trans (h.starts t ht) htl
  · rw [hseen, hsy]; exact ⟨Int.le_refl _, Int.le_trans h.seens.2 htl⟩

/-! ## Phase Q1: the listener has registered the request and waits for the synchronisation pause -/

/-- **Request registered** at `h1`: the listener `y` has consumed everything, remembers the requester and will
answer after the pause; the claimant still awaits the reply. -/
structure HQ1 (cfg : Cfg) (n : Net) (x y : Nat) (stx sty : NetStation) (r h1 : Int) (coll : Nat) (tl : Int) : Prop where
  solo : Solo cfg n x stx (r + (cfg.b66 : Nat))
  stx_st : AwaitSt stx.s.st sty.s.p.address
  stx_gap : stx.s.gap = .doPoll sty.s.p.address
  soloY : Solo cfg n y sty h1
  sty_st : sty.s.st = .listenToken (some stx.s.p.address) coll
  yx : y ≠ x
  reg : r + ((cfg.ce 5 : Nat) : Int) ≤ h1 ∧ h1 < r + ((cfg.ce 5 : Nat) : Int) + (cfg.P : Nat)
  ywait : n.bus.seen.getD y 0 ≤ h1 + (cfg.b33 : Nat) ∧ h1 ≤ n.bus.seen.getD y 0
  tto : cfg.slot + 3 * cfg.P + cfg.ce 0 + 2 ≤ sty.s.p.tokenLostTimeout
  allx : ∀ t ∈ n.bus.txs, t.sender = x
  pbx : stx.s.pendingBytes = 0
  starts : ∀ t ∈ n.bus.txs, t.start ≤ tl
  seens : n.bus.seen.getD x 0 ≤ tl ∧ n.bus.seen.getD y 0 ≤ tl
  view : RingView [stx.s.p.address] stx.s.p.address stx.s.ring

/-- **Phase Q0, the listener is polled**: it consumes what has arrived; if the request has arrived completely it
is registered (phase Q1), otherwise phase Q0 goes on. -/
theorem hq0_listener {cfg : Cfg} {G : Nat} {n : Net} {x y : Nat} {stx sty : NetStation} {r : Int} {r0 : TokenRing}
    {hd : List Telegram} {dn rs : List Transmission} {lY : Int} {coll : Nat} {tl : Int}
    (h : HQ0 cfg G n x y stx sty r r0 hd dn rs lY coll tl) (hok : cfg.Ok) (hG : cfg.slot + 3 * cfg.P ≤ G) (now : Int)
    (htl : tl ≤ now) (hown : n.bus.seen.getD y 0 < now) (hgy : now ≤ n.bus.seen.getD y 0 + (cfg.P : Nat)) :
    ∃ n' inc c, n.poll y now = (n', inc, some (.ok c)) ∧ c.tx = none ∧
      ((∃ hd' dn' rs' lY', HQ0 cfg G n' x y stx (upSt sty c) r r0 hd' dn' rs' lY' coll now ∧
          hd' ++ rs'.map telOf = hd ++ rs.map telOf) ∨
       (HQ1 cfg n' x y stx (upSt sty c) r now coll now ∧
          (upSt sty c).s.ring = hearAll stx.s.p.address (hd ++ rs.map telOf) r0)) := by
  have hr := hok.rate
  have hmar := hok.margin
  have hc5 := cfg.ce5 hr
  have hc0 := cfg.ce_pos hr 0
  have hs := h.solo
  have haL : stx.s.p.address < 126 := by have := hs.inv.addr; have := hs.inv.hsa; omega
  have hL := h.lis
  have htxs : n.bus.txs = dn ++ rs := hL.2.2.2.2.2.2.2.1
  have hrsne : rs ≠ [] := by intro e; have := h.rsne; rw [e] at this; cases this
  have hlastT : n.bus.txs.getLast? = some (rqTx x stx.s.p.address sty.s.p.address r) := by
    rw [htxs, List.getLast?_append, h.rsne]; rfl
  obtain ⟨inc, c, hdv, hpoll, htx, hp, hres⟩ := llisten_stepR hL h.logR hr haL h.yx h.ys now hown
    (by have := h.early; omega) (fun t ht => Int.le_trans (h.starts t ht) htl)
    (by
      intro t ht
      rw [hlastT] at ht
      have := Option.some.inj ht
      subst this
      rw [cEnd_rq]
      omega)
  obtain ⟨hon, hal, -⟩ := hL
  have hpoll' : sty.s.poll sty.apps now (Bus.transmitting { n.bus with seen := n.bus.seen.set y now } y now) (sty.rx ++ inc) = .ok c := by
    rw [transmitting_seen]; exact hpoll
  have hpe := Net.poll_eq n y now sty _ inc c h.gy hal hon hdv hpoll'
  rw [htx] at hpe
  have hsx : ({ n.bus with seen := n.bus.seen.set y now } : Bus).seen.getD x 0 = n.bus.seen.getD x 0 :=
    seen_set_other n.bus y x now h.yx
  have haddr : (upSt sty c).s.p.address = sty.s.p.address := by show c.s.p.address = _; rw [hp]
  have hsoloX : Solo cfg { bus := { n.bus with seen := n.bus.seen.set y now }, stations := n.stations.set y (upSt sty c) } x stx
      (r + (cfg.b66 : Nat)) :=
    ⟨hs.rate, hs.drops, hs.corrupt, hs.chained, hs.live, hs.pos, (by simp only; rw [hsx]; exact hs.done), hs.ends,
      by simp only [List.length_set]; exact hs.xl, by simp only [List.length_set]; exact hs.xs,
      by simp only; rw [List.getElem?_set_ne h.yx]; exact hs.gx, hs.online, hs.alive, hs.inv, hs.son, hs.rx, hs.stamp,
      hs.prate, hs.pslot⟩
  have hlogR' : LoneLogR cfg stx.s.p.address x { n.bus with seen := n.bus.seen.set y now } :=
    ⟨h.logR.rate, h.logR.corrupt, h.logR.chained, h.logR.live, h.logR.own, h.logR.kinds⟩
  have hseensNew : ({ n.bus with seen := n.bus.seen.set y now } : Bus).seen.getD x 0 ≤ now ∧
      ({ n.bus with seen := n.bus.seen.set y now } : Bus).seen.getD y 0 ≤ now := by
    rw [hsx, seen_set_self _ _ _ h.ys]
    exact ⟨Int.le_trans h.seens.1 htl, Int.le_refl _⟩
  have hposrs : ∀ t ∈ rs, 0 < t.bytes.length := fun t ht => (h.logR.wire haL t (by rw [htxs]; exact List.mem_append_right _ ht)).2.2.1
  have hcrs : CChained cfg rs := by
    have := h.logR.chained
    rw [htxs] at this
    exact (List.pairwise_append.1 this).2.1
  refine ⟨_, inc, c, hpe, htx, ?_⟩
  -- the listener condition after the poll tells whether the request is complete
  have stillQ0 : ∀ (hd' : List Telegram) (dn' rs' : List Transmission) (lY' : Int),
      LLOkX cfg G stx.s.p.address { n.bus with seen := n.bus.seen.set y now }
        (r + (cfg.b66 : Nat) + (cfg.slot : Nat) + (cfg.P : Nat)) y (upSt sty c) r0 hd' none dn' rs' lY' coll →
      rs'.getLast? = some (rqTx x stx.s.p.address sty.s.p.address r) →
      (∀ t ∈ rs'.dropLast, t.bytes = tokenBytes stx.s.p.address stx.s.p.address ∨
        ∃ g, g < 126 ∧ g ≠ sty.s.p.address ∧ t.bytes = statusRequestBytes g stx.s.p.address) →
      CChained cfg rs' → (∀ t ∈ rs', 0 < t.bytes.length) →
      HQ0 cfg G { bus := { n.bus with seen := n.bus.seen.set y now }, stations := n.stations.set y (upSt sty c) } x y stx
        (upSt sty c) r r0 hd' dn' rs' lY' coll now := by
    intro hd' dn' rs' lY' hX hlast hoth hch hpos
    have hearly' : ({ n.bus with seen := n.bus.seen.set y now } : Bus).seen.getD y 0 < r + ((cfg.ce 5 : Nat) : Int) := by
      have hhead := hX.2.2.2.2.2.2.2.2.2.2.2.1
      have := rs_end_after cfg rs' _ hch hpos hhead (rqTx x stx.s.p.address sty.s.p.address r) (List.mem_of_getLast? hlast)
      rw [cEnd_rq] at this
      exact this
    exact ⟨hsoloX, by rw [haddr]; exact h.stx_st, by rw [haddr]; exact h.stx_gap, hlogR', by rw [haddr]; exact hlast,
      by rw [haddr]; exact hoth, List.getElem?_set_self h.yl, h.yx, by simp only [List.length_set]; exact h.ys,
      by simp only [List.length_set]; exact h.yl, hX, hearly', by show c.s.p.rate = _ ∧ c.s.p.slotBits = _; rw [hp]; exact h.py,
      h.pbx, fun t ht => Int.le_trans (h.starts t ht) htl, hseensNew, h.view⟩
  rcases hres with hX | ⟨k, d, hk1, hdm, hfl, hlastd, hX⟩
  · exact .inl ⟨hd, dn, rs, _, stillQ0 hd dn rs _ hX h.rsne h.others hcrs hposrs, rfl⟩
  · by_cases hdr : rs.drop k = []
    · -- the request has been consumed: registered
      right
      obtain ⟨pre, t, hdpt⟩ := hlastd hdr
      have hrsk : rs.take k = rs := take_of_drop_nil rs k hdr
      have ht : t = reqTel sty.s.p.address stx.s.p.address := by
        have e1 : (d.map Prod.fst).getLast? = ((rs.take k).map telOf).getLast? := by rw [hdm]
        rw [hdpt, hrsk] at e1
        simp only [List.map_append, List.map_cons, List.map_nil, List.getLast?_append, List.getLast?_singleton,
          Option.some_or, List.getLast?_map, h.rsne, Option.map_some] at e1
        have := Option.some.inj e1
        rw [this]
        have hH126 : sty.s.p.address < 126 := by
          have := hs.inv.gap _ h.stx_gap; have := hs.inv.hsa; omega
        exact telOf_req _ _ _ (by omega) (by omega) rfl
      have hreg : lastReg sty.s.p.address d = some stx.s.p.address := by
        unfold lastReg
        rw [hdpt, List.getLast?_append, List.getLast?_singleton]
        simp only [Option.some_or]
        rw [ht, regSr_req _ _ _ (by have := hs.inv.gap _ h.stx_gap; have := hs.inv.hsa; omega) (by omega)]
        simp
      rw [hreg, hdr] at hX
      obtain ⟨x1, x2, x3, x4, x5, x6, x7, x8, x9, x10, x11, x12, x13, x14, x15, x16⟩ := hX
      have hdn' : ({ n.bus with seen := n.bus.seen.set y now } : Bus).txs = dn ++ rs.take k := by
        have := x8; simpa using this
      refine ⟨⟨hsoloX, by rw [haddr]; exact h.stx_st, by rw [haddr]; exact h.stx_gap, ?_, x15, h.yx, ?_,
        (by rw [seen_set_self _ _ _ h.ys]; omega), ?_, ?_, h.pbx,
        fun t ht => Int.le_trans (h.starts t ht) htl, hseensNew, h.view⟩, by rw [x7, hdm, hrsk]⟩
      · refine ⟨hs.rate, hs.drops, hs.corrupt, hs.chained, hs.live, hs.pos, ?_, ?_, by simp only [List.length_set]; exact h.yl,
          by simp only [List.length_set]; exact h.ys, List.getElem?_set_self h.yl, x1, x2, x3, x4, ?_, x13,
          by show c.s.p.rate = _; rw [hp]; exact h.py.1, by show c.s.p.slotBits = _; rw [hp]; exact h.py.2⟩
        · intro o ho
          right
          have : o ∈ dn ++ rs.take k := by rw [← hdn']; exact ho
          exact x9 o (by simpa using this)
        · intro o ho hso
          exfalso
          have := h.logR.own o ho
          rw [this] at hso
          exact h.yx hso.symm
        · have := x10; simpa [arrived] using this
      · have hnowge : r + ((cfg.ce 5 : Nat) : Int) ≤ now := by
          have hm : rqTx x stx.s.p.address sty.s.p.address r ∈ dn ++ rs.take k := by
            rw [hrsk]; exact List.mem_append_right _ (List.mem_of_getLast? h.rsne)
          have := x9 _ (by simpa using hm)
          rw [cEnd_rq, seen_set_self _ _ _ h.ys] at this
          exact this
        have := h.early
        exact ⟨hnowge, by omega⟩
      · have := x6; omega
      · exact h.logR.own
    · -- the request is still incomplete
      left
      have hklt : k < rs.length := by
        rcases Nat.lt_or_ge k rs.length with h' | h'
        · exact h'
        · exact absurd (List.drop_eq_nil_of_le h') hdr
      have hlast' : (rs.drop k).getLast? = some (rqTx x stx.s.p.address sty.s.p.address r) := by
        rw [List.getLast?_drop, if_neg (by omega)]; exact h.rsne
      have hnone : lastReg sty.s.p.address d = none := by
        unfold lastReg
        cases hg : d.getLast? with
        | none => rfl
        | some p =>
          obtain ⟨t, fl⟩ := p
          simp only
          have hmem : t ∈ d.map Prod.fst := List.mem_map_of_mem (f := Prod.fst) (List.mem_of_getLast? hg)
          rw [hdm] at hmem
          obtain ⟨t', ht', e⟩ := List.mem_map.1 hmem
          have hdl := mem_dropLast_of_take t' rs k hklt ht'
          have hk' := h.others t' hdl
          have hlt : LoneTel stx.s.p.address sty.s.p.address (telOf t') := by
            rcases hk' with hb | ⟨g, hg1, hg2, hb⟩
            · have e2 : telOf t' = tokTel [stx.s.p.address] stx.s.p.address :=
                telOf_token t' _ [stx.s.p.address] (by rw [cycSucc_single]; exact hb)
              rw [e2]; unfold tokTel; rw [cycSucc_single]; exact .inl rfl
            · rw [telOf_req t' g _ (by omega) (by omega) hb]; exact .inr ⟨g, by omega, hg2, rfl⟩
          rw [← e]
          exact hlt.regSr_none (by omega) fl
      rw [hnone] at hX
      refine ⟨_, _, _, _, stillQ0 _ _ _ _ hX hlast' (fun t ht => h.others t (mem_dropLast_of_drop t k rs ht)) ?_ ?_,
        by rw [hdm, List.append_assoc, ← List.map_append, List.take_append_drop]⟩
      · have : rs = rs.take k ++ rs.drop k := (List.take_append_drop _ _).symm
        rw [this] at hcrs
        exact (List.pairwise_append.1 hcrs).2.1
      · exact fun t ht => hposrs t (List.mem_of_mem_drop ht)

/-- Another station was polled without transmitting: `Solo` is untouched. -/
theorem Solo.otherPoll {cfg : Cfg} {n n' : Net} {x : Nat} {st : NetStation} {l : Int} (h : Solo cfg n x st l) (i : Nat) (now : Int)
    (sti : NetStation) (hix : i ≠ x) (hbus : n'.bus = { n.bus with seen := n.bus.seen.set i now })
    (hset : n'.stations = n.stations.set i sti) : Solo cfg n' x st l := by
  refine ⟨by rw [hbus]; exact h.rate, by rw [hbus]; exact h.drops, by rw [hbus]; exact h.corrupt, by rw [hbus]; exact h.chained,
    by rw [hbus]; exact h.live, by rw [hbus]; exact h.pos, ?_, by rw [hbus]; exact h.ends,
    by rw [hset, List.length_set]; exact h.xl, by rw [hbus]; simp only [List.length_set]; exact h.xs,
    by rw [hset, List.getElem?_set_ne hix]; exact h.gx, h.online, h.alive, h.inv, h.son, h.rx, h.stamp, h.prate, h.pslot⟩
  rw [hbus]
  simp only
  rw [seen_set_other _ _ _ _ hix]
  exact h.done

/-- The reply of the listener `y` (address `aH`) to `aL`, sent at `q`. -/
def rpTx (y aL aH : Nat) (state : ResponseState) (q : Int) : Transmission :=
  { start := q, sender := y, bytes := statusResponseBytes aL aH state, dropped := false }

/-- **Phase Q1, the claimant is polled**: its slot time has not run out; nothing happens. -/
theorem hq1_claimant {cfg : Cfg} {n : Net} {x y : Nat} {stx sty : NetStation} {r h1 : Int} {coll : Nat} {tl : Int}
    (h : HQ1 cfg n x y stx sty r h1 coll tl) (hok : cfg.Ok) (now : Int) (htl : tl ≤ now)
    (hown : n.bus.seen.getD x 0 < now) (hgy : now ≤ n.bus.seen.getD y 0 + (cfg.P : Nat)) :
    ∃ n' c, n.poll x now = (n', [], some (.ok c)) ∧ c.tx = none ∧ HQ1 cfg n' x y stx sty r h1 coll now := by
  have hr := hok.rate
  have hmar := hok.margin
  have hc5 := cfg.ce5 hr
  have hs := h.solo
  have hreg := h.reg
  have hyw := h.ywait
  have hno : stx.s.st ≠ .offline ∧ stx.s.st ≠ .passiveIdle := h.stx_st.awake
  have hup : upSt stx { s := stx.s, apps := stx.apps, rx := [] } = stx := by unfold upSt; rw [← hs.rx]
  have hxy : x ≠ y := Ne.symm h.yx
  have hpoll : ∃ n', n.poll x now = (n', [], some (.ok { s := stx.s, apps := stx.apps, rx := [] })) ∧
      Solo cfg n' x stx (r + (cfg.b66 : Nat)) ∧ n'.bus.seen.getD x 0 = now := by
    by_cases hle : now ≤ r + (cfg.b66 : Nat)
    · exact solo_ongoing hs hr now hown hle hno.1 hno.2
    · have hdw : dispatch { s := stx.s, apps := stx.apps, rx := [] } now = .ok { s := stx.s, apps := stx.apps, rx := [] } := by
        exact await_dispatch_partial _ now (r + (cfg.b66 : Nat)) sty.s.p.address [] false h.stx_st hs.stamp h.stx_gap
          (AwaitSt.gapne hs.inv h.stx_st).2 receiveTelegram_nil (by rw [hs.slot]; omega)
      obtain ⟨n', hp, hS, hseen⟩ := solo_step hs hr now hown (by omega) _ hno.1 hno.2 hdw (r + (cfg.b66 : Nat)) hs.son rfl rfl
        hs.stamp (Int.le_refl _) (fun b hb => by cases hb)
      rw [hup] at hS
      exact ⟨n', hp, hS, hseen⟩
  obtain ⟨n', hp, hS, hseen⟩ := hpoll
  obtain ⟨hbus, st0, hst0, hset, -⟩ := Net.poll_bus n x now n' [] _ hp
  rw [hs.deliver hr now (Int.le_of_lt hown)] at hbus
  simp only at hbus
  rw [hs.gx] at hst0
  cases hst0
  rw [hup] at hset
  have hsy : n'.bus.seen.getD y 0 = n.bus.seen.getD y 0 := by rw [hbus]; exact seen_set_other n.bus x y now hxy
  have hsY := h.soloY
  refine ⟨n', _, hp, rfl, ⟨hS, h.stx_st, h.stx_gap, ?_, h.sty_st, h.yx, h.reg, by rw [hsy]; exact hyw, h.tto, ?_, h.pbx, ?_, ?_, h.view⟩⟩
  · exact hsY.otherPoll x now stx hxy hbus hset
  · rw [hbus]; exact h.allx
  · rw [hbus]; exact fun t ht => Int.le_trans (h.starts t ht) htl
  · rw [hseen, hsy]; exact ⟨Int.le_refl _, Int.le_trans h.seens.2 htl⟩

/-! ## Phase Q2: the reply is on the bus, the claimant receives it -/

/-- **Reply on the bus** (sent by `y` at `q`, report `state`): the listener is done (`Solo`, stamp `q + bits 66`); the
claimant `x` (stamp `lX`) still awaits: its buffer holds exactly what has arrived of the reply, which is
incomplete, and the next character arrives before its slot time runs out. -/
structure HQ2 (cfg : Cfg) (n : Net) (x y : Nat) (stx sty : NetStation) (r q : Int) (state : ResponseState) (lX : Int)
    (coll : Nat) (tl : Int) : Prop where
  soloY : Solo cfg n y sty (q + (cfg.b66 : Nat))
  sty_st : sty.s.st = .listenToken none coll ∨ sty.s.st = .activeIdle none none 0
  qtl : q ≤ tl
  tto : cfg.slot + 3 * cfg.P + cfg.ce 0 + 2 ≤ sty.s.p.tokenLostTimeout
  ymw : state = .masterWithoutToken → sty.s.st = .activeIdle none none 0 ∧ sty.s.ring.ps = stx.s.p.address ∧
    sty.s.ring.readyForRing = true
  gx : n.stations[x]? = some stx
  xl : x < n.stations.length
  xs : x < n.bus.seen.length
  xon : stx.online = true ∧ stx.dead = false ∧ Inv stx.s stx.apps ∧ stx.s.online = true ∧
    stx.s.p.rate = cfg.rate ∧ stx.s.p.slotBits = cfg.slotBits
  stx_st : AwaitSt stx.s.st sty.s.p.address
  stx_gap : stx.s.gap = .doPoll sty.s.p.address
  yx : y ≠ x
  split : ∃ dnx, n.bus.txs = dnx ++ [rpTx y stx.s.p.address sty.s.p.address state q] ∧
    ∀ o ∈ dnx, o.sender = x ∧ cEnd cfg o ≤ r + (cfg.b66 : Nat) + 1
  rxX : stx.rx = arrived cfg [rpTx y stx.s.p.address sty.s.p.address state q] (n.bus.seen.getD x 0)
  pendX : stx.s.pendingBytes ≤ (arrived cfg [rpTx y stx.s.p.address sty.s.p.address state q] (n.bus.seen.getD x 0)).length
  headX : cvis cfg (rpTx y stx.s.p.address sty.s.p.address state q) (n.bus.seen.getD x 0) < 6
  stampX : stx.s.lastBusActivity = some lX
  lXge : r + (cfg.b66 : Nat) ≤ lX
  qlate : r + (cfg.b66 : Nat) < q
  qearly : q < r + ((cfg.ce 5 : Nat) : Int) + (cfg.b33 : Nat) + 2 * (cfg.P : Nat)
  pbok : lX = r + (cfg.b66 : Nat) ∨ lX ≤ n.bus.seen.getD x 0
  slotok : q + ((cfg.ce (cvis cfg (rpTx y stx.s.p.address sty.s.p.address state q) (n.bus.seen.getD x 0)) : Nat) : Int) ≤
    lX + (cfg.slot : Nat)
  starts : ∀ t ∈ n.bus.txs, t.start ≤ tl
  seens : n.bus.seen.getD x 0 ≤ tl ∧ n.bus.seen.getD y 0 ≤ tl
  view : RingView [stx.s.p.address] stx.s.p.address stx.s.ring

theorem tokenLost_false (s : Station) (now l : Int) (hl : s.lastBusActivity = some l) (h1 : l ≤ now)
    (h2 : now < l + (s.p.tokenLostTimeout : Nat)) : ¬ TokenLost s now := by
  unfold TokenLost
  rw [hl]
  simp only [Option.getD_some]
  omega

/-- **Phase Q1, the listener is polled**: before the end of its synchronisation pause nothing happens; at the first
poll after it, it sends the status reply (phase Q2). -/
theorem hq1_listener {cfg : Cfg} {n : Net} {x y : Nat} {stx sty : NetStation} {r h1 : Int} {coll : Nat} {tl : Int}
    (h : HQ1 cfg n x y stx sty r h1 coll tl) (hok : cfg.Ok) (now : Int) (htl : tl ≤ now)
    (hown : n.bus.seen.getD y 0 < now) (hgy : now ≤ n.bus.seen.getD y 0 + (cfg.P : Nat))
    :
    ∃ n' c, n.poll y now = (n', [], some (.ok c)) ∧
      ((c.tx = none ∧ upSt sty c = sty ∧ HQ1 cfg n' x y stx (upSt sty c) r h1 coll now) ∨
       (c.tx = some (statusResponseBytes stx.s.p.address sty.s.p.address (listenReport sty.s stx.s.p.address)) ∧
          h1 + (cfg.b33 : Nat) < now ∧ now ≤ h1 + (cfg.b33 : Nat) + (cfg.P : Nat) ∧
          HQ2 cfg n' x y stx (upSt sty c) r now (listenReport sty.s stx.s.p.address) (r + (cfg.b66 : Nat)) coll now)) := by
  have hr := hok.rate
  have hmar := hok.margin
  have hc5 := cfg.ce5 hr
  have hc0 := cfg.ce_pos hr 0
  have hs := h.solo
  have hsY := h.soloY
  have hreg := h.reg
  obtain ⟨hyw1, hyw2⟩ := h.ywait
  have htto := h.tto
  have hno : sty.s.st ≠ .offline ∧ sty.s.st ≠ .passiveIdle := by rw [h.sty_st]; simp
  have hxy : x ≠ y := Ne.symm h.yx
  have hb33 : sty.s.p.bits 33 = cfg.b33 := hsY.b33
  have hlt : h1 < now := by omega
  have hnlt : now < h1 + (sty.s.p.tokenLostTimeout : Nat) := by omega
  have htl0 : ¬ TokenLost sty.s now := tokenLost_false sty.s now h1 hsY.stamp (by omega) hnlt
  have hupY : upSt sty { s := sty.s, apps := sty.apps, rx := [] } = sty := by unfold upSt; rw [← hsY.rx]
  have hdelY := hsY.deliver hr now (Int.le_of_lt hown)
  have hxl : x < n.stations.length := hs.xl
  by_cases hw : now ≤ h1 + (cfg.b33 : Nat)
  · -- still within the synchronisation pause
    have hdw : dispatch { s := sty.s, apps := sty.apps, rx := [] } now = .ok { s := sty.s, apps := sty.apps, rx := [] } := by
      unfold dispatch
      simp only [h.sty_st]
      rw [C12.listen_reply_waits { s := sty.s, apps := sty.apps, rx := [] } now stx.s.p.address coll h.sty_st htl0
        (by rw [syncOver_iff]; simp only [hsY.stamp, Option.getD_some]; rw [hb33]; omega)]
      rw [stamped_of_some _ now h1 hsY.stamp]
    obtain ⟨n', hp, hS, hseen⟩ := solo_step hsY hr now hown hlt _ hno.1 hno.2 hdw h1 hsY.son rfl rfl hsY.stamp (Int.le_refl _)
      (fun b hb => by cases hb)
    obtain ⟨hbus, st0, hst0, hset, -⟩ := Net.poll_bus n y now n' [] _ hp
    rw [hdelY] at hbus
    simp only at hbus
    rw [hsY.gx] at hst0
    cases hst0
    refine ⟨n', _, hp, .inl ⟨rfl, hupY, ?_⟩⟩
    rw [hupY] at hS hset ⊢
    have hsxx : n'.bus.seen.getD x 0 = n.bus.seen.getD x 0 := by rw [hbus]; exact seen_set_other n.bus y x now h.yx
    exact ⟨hs.otherPoll y now sty h.yx hbus hset, h.stx_st, h.stx_gap, hS, h.sty_st, h.yx, h.reg,
      by rw [hseen]; omega, h.tto, by rw [hbus]; exact h.allx, h.pbx,
      by rw [hbus]; exact fun t ht => Int.le_trans (h.starts t ht) htl,
      by rw [hseen, hsxx]; exact ⟨Int.le_trans h.seens.1 htl, Int.le_refl _⟩, h.view⟩
  · -- the reply
    have hdr : dispatch { s := sty.s, apps := sty.apps, rx := [] } now = .ok
        { s := { (markTx (StationGap.stamped sty.s now) now 6) with
            st := if sty.s.ring.readyForRing = true then FState.activeIdle none none 0 else FState.listenToken none coll },
          apps := sty.apps, rx := [],
          tx := some (statusResponseBytes stx.s.p.address sty.s.p.address (listenReport sty.s stx.s.p.address)) } := by
      unfold dispatch
      simp only [h.sty_st]
      rw [C12.listen_reply { s := sty.s, apps := sty.apps, rx := [] } now stx.s.p.address coll h.sty_st rfl htl0
        (by rw [syncOver_iff]; simp only [hsY.stamp, Option.getD_some]; rw [hb33]; omega)]
    have hst' : ({ (markTx (StationGap.stamped sty.s now) now 6) with
        st := if sty.s.ring.readyForRing = true then FState.activeIdle none none 0 else FState.listenToken none coll } : Station).lastBusActivity
        = some (now + (cfg.b66 : Nat)) := by
      unfold markTx
      simp only [StationGap.stamped_p]
      rw [show sty.s.p.bits (11 * 6) = cfg.b66 from hsY.bits 66]
    obtain ⟨cR, hdr', k1, k2, k3, k4, k5, k6, k7, k8⟩ : ∃ cR : Ctx, dispatch { s := sty.s, apps := sty.apps, rx := [] } now = .ok cR ∧
        cR.s.online = true ∧ cR.s.p = sty.s.p ∧ cR.rx = [] ∧ cR.s.lastBusActivity = some (now + (cfg.b66 : Nat)) ∧
        cR.tx = some (statusResponseBytes stx.s.p.address sty.s.p.address (listenReport sty.s stx.s.p.address)) ∧
        (cR.s.st = .listenToken none coll ∨ cR.s.st = .activeIdle none none 0) ∧
        (sty.s.ring.readyForRing = true → cR.s.st = .activeIdle none none 0) ∧ cR.s.ring = sty.s.ring :=
      ⟨_, hdr, hsY.son, rfl, rfl, hst', rfl, (by
        show (if sty.s.ring.readyForRing = true then _ else _) = _ ∨ (if sty.s.ring.readyForRing = true then _ else _) = _
        cases sty.s.ring.readyForRing
        · exact .inl rfl
        · exact .inr rfl), (by
        intro hrd
        show (if sty.s.ring.readyForRing = true then _ else _) = _
        rw [if_pos hrd]), rfl⟩
    obtain ⟨n', hp, hS, hseen⟩ := solo_step hsY hr now hown hlt cR hno.1 hno.2 hdr' (now + (cfg.b66 : Nat)) k1 k2 k3 k4
      (by omega) (fun b hb => by
        rw [k5] at hb
        cases hb
        rw [statusResponseBytes_length]
        refine ⟨by omega, ?_⟩
        show now + ((cfg.ce 5 : Nat) : Int) ≤ _
        omega)
    obtain ⟨hbus, st0, hst0, hset, -⟩ := Net.poll_bus n y now n' [] cR hp
    rw [hdelY, k5] at hbus
    simp only at hbus
    rw [hsY.gx] at hst0
    cases hst0
    have haddrY : (upSt sty cR).s.p.address = sty.s.p.address := by show cR.s.p.address = _; rw [k2]
    refine ⟨n', cR, hp, .inr ⟨k5, by omega, by omega, ?_⟩⟩
    have hrate : 0 < n.bus.rate := by rw [hsY.rate]; exact hr
    obtain ⟨old', e1, e2, e3, e4, e5, e6⟩ := Bus.send_txs { n.bus with seen := n.bus.seen.set y now } y now
      (statusResponseBytes stx.s.p.address sty.s.p.address (listenReport sty.s stx.s.p.address)) hsY.drops hrate
    have hsxx : n'.bus.seen.getD x 0 = n.bus.seen.getD x 0 := by
      rw [hbus, e4]; exact seen_set_other n.bus y x now h.yx
    have hv0 : cvis cfg (rpTx y stx.s.p.address sty.s.p.address (listenReport sty.s stx.s.p.address) now) (n.bus.seen.getD x 0) = 0 := by
      apply cvis_zero
      unfold rpTx
      simp only
      have := h.seens.1
      omega
    have hymw : listenReport sty.s stx.s.p.address = .masterWithoutToken → cR.s.st = .activeIdle none none 0 ∧
        cR.s.ring.ps = stx.s.p.address ∧ cR.s.ring.readyForRing = true := by
      intro hmw
      unfold listenReport at hmw
      split at hmw
      · rename_i hc
        rw [k8]
        exact ⟨k7 hc.1, hc.2.symm, hc.1⟩
      · cases hmw
    refine ⟨hS, k6, Int.le_refl _, by show _ ≤ cR.s.p.tokenLostTimeout; rw [k2]; exact htto, hymw,
      by rw [hset, List.getElem?_set_ne h.yx]; exact hs.gx, by rw [hset, List.length_set]; exact hs.xl,
      by rw [hbus, e4]; simp only [List.length_set]; exact hs.xs,
      ⟨hs.online, hs.alive, hs.inv, hs.son, hs.prate, hs.pslot⟩, by rw [haddrY]; exact h.stx_st, by rw [haddrY]; exact h.stx_gap,
      h.yx, ?_, ?_, ?_, ?_, hs.stamp, Int.le_refl _, by omega, by omega, .inl rfl, ?_, ?_, ?_, h.view⟩
    · rw [haddrY]
      refine ⟨old', by rw [hbus, e1]; rfl, ?_⟩
      intro o ho
      have hm := e2 o ho
      exact ⟨h.allx o hm, hs.ends o hm (h.allx o hm)⟩
    · rw [haddrY, hsxx]
      unfold arrived
      simp only [List.map_cons, List.map_nil, List.flatten_cons, List.flatten_nil, List.append_nil]
      rw [hv0, List.take_zero]; exact hs.rx
    · rw [h.pbx]; exact Nat.zero_le _
    · rw [haddrY, hsxx, hv0]; omega
    · rw [haddrY, hsxx, hv0]
      omega
    · rw [hbus, e1]
      intro t ht
      rcases List.mem_append.1 ht with ht | ht
      · exact Int.le_trans (h.starts t (e2 t ht)) htl
      · simp only [List.mem_singleton] at ht; subst ht; exact Int.le_refl _
    · rw [hseen, hsxx]; exact ⟨Int.le_trans h.seens.1 htl, Int.le_refl _⟩

/-! ### The claimant while the reply arrives -/

/-- The status reply as a telegram. -/
def rpTel (aL aH : Nat) (state : ResponseState) : Telegram :=
  .data (fdlStatusResponseHeader (UInt8.ofNat aL) (UInt8.ofNat aH) state .ok) []

theorem statusResponse_frame (aL aH : Nat) (state : ResponseState) :
    statusResponseBytes aL aH state = (rpTel aL aH state).wire := by
  have h1 := statusResponse_serialize aL aH state
  have h2 := serialize_ok (fdlStatusResponseHeader (UInt8.ofNat aL) (UInt8.ofNat aH) state .ok) []
    (by simp [Header.lengthByte, Header.saps, fdlStatusResponseHeader])
  rw [h1] at h2
  cases h2
  rfl

theorem rpTel_valid (aL aH : Nat) (state : ResponseState) (h1 : aL < 128) (h2 : aH < 128) : (rpTel aL aH state).Valid := by
  unfold rpTel Telegram.Valid
  refine ⟨?_, ?_, by simp [Header.lengthByte, Header.saps, fdlStatusResponseHeader]⟩
  · simp [fdlStatusResponseHeader, UInt8.lt_iff_toNat_lt]; omega
  · simp [fdlStatusResponseHeader, UInt8.lt_iff_toNat_lt]; omega

theorem replyOf_rpTel (aL aH : Nat) (state : ResponseState) (h1 : aL < 128) (h2 : aH < 128) :
    replyOf aL aH (rpTel aL aH state) = some (state, .ok) := by
  unfold replyOf rpTel
  have e1 : (fdlStatusResponseHeader (UInt8.ofNat aL) (UInt8.ofNat aH) state .ok).sa.toNat = aH := u8n aH (by omega)
  have e2 : (fdlStatusResponseHeader (UInt8.ofNat aL) (UInt8.ofNat aH) state .ok).da.toNat = aL := u8n aL (by omega)
  show (if (fdlStatusResponseHeader (UInt8.ofNat aL) (UInt8.ofNat aH) state .ok).sa.toNat = aH ∧
      (fdlStatusResponseHeader (UInt8.ofNat aL) (UInt8.ofNat aH) state .ok).da.toNat = aL then _ else _) = _
  rw [if_pos ⟨e1, e2⟩]
  rfl

theorem rpTx_len (y aL aH : Nat) (state : ResponseState) (q : Int) : (rpTx y aL aH state q).bytes.length = 6 := by
  unfold rpTx; simp only [statusResponseBytes_length]

/-- **Phase Q2, the listener is polled**: it has gone back to listening without a pending request; nothing happens. -/
theorem hq2_listener {cfg : Cfg} {n : Net} {x y : Nat} {stx sty : NetStation} {r q : Int} {state : ResponseState} {lX : Int}
    {coll : Nat} {tl : Int} (h : HQ2 cfg n x y stx sty r q state lX coll tl) (hok : cfg.Ok) (now : Int) (htl : tl ≤ now)
    (hown : n.bus.seen.getD y 0 < now) (hgx : now ≤ n.bus.seen.getD x 0 + (cfg.P : Nat)) :
    ∃ n' c, n.poll y now = (n', [], some (.ok c)) ∧ c.tx = none ∧ HQ2 cfg n' x y stx sty r q state lX coll now := by
  have hr := hok.rate
  have hc5 := cfg.ce5 hr
  have hsY := h.soloY
  have htto := h.tto
  have hhead := h.headX
  have hxs : n.bus.seen.getD x 0 < q + ((cfg.ce 5 : Nat) : Int) := by
    by_cases h' : n.bus.seen.getD x 0 < q + ((cfg.ce 5 : Nat) : Int)
    · exact h'
    · have h' : q + ((cfg.ce 5 : Nat) : Int) ≤ n.bus.seen.getD x 0 := by omega
      have := (cvis_spec cfg (rpTx y stx.s.p.address sty.s.p.address state q) (n.bus.seen.getD x 0) 5
        (by rw [rpTx_len]; omega)).2 h'
      omega
  obtain ⟨n', c, hp, htx, hS, hseen⟩ : ∃ n' c, n.poll y now = (n', [], some (.ok c)) ∧ c.tx = none ∧
      Solo cfg n' y sty (q + (cfg.b66 : Nat)) ∧ n'.bus.seen.getD y 0 = now := by
    rcases h.sty_st with e | e
    · exact lone_listen_wait hsY hok coll e now hown (by omega)
    · exact lone_idle_wait hsY hok none 0 e now hown (by omega)
  obtain ⟨hbus, st0, hst0, hset, -⟩ := Net.poll_bus n y now n' [] c hp
  rw [htx, hsY.deliver hr now (Int.le_of_lt hown)] at hbus
  simp only at hbus
  rw [hsY.gx] at hst0
  cases hst0
  have hxy : x ≠ y := Ne.symm h.yx
  have hsxx : n'.bus.seen.getD x 0 = n.bus.seen.getD x 0 := by rw [hbus]; exact seen_set_other n.bus y x now h.yx
  refine ⟨n', c, hp, htx, hS, h.sty_st, Int.le_trans h.qtl htl, h.tto, h.ymw,
    by rw [hset, List.getElem?_set_ne h.yx]; exact h.gx, by rw [hset, List.length_set]; exact h.xl,
    by rw [hbus]; simp only [List.length_set]; exact h.xs, h.xon, h.stx_st, h.stx_gap, h.yx,
    by rw [hbus]; exact h.split, by rw [hsxx]; exact h.rxX, by rw [hsxx]; exact h.pendX, by rw [hsxx]; exact h.headX,
    h.stampX, h.lXge, h.qlate, h.qearly, by rw [hsxx]; exact h.pbok, by rw [hsxx]; exact h.slotok,
    by rw [hbus]; exact fun t ht => Int.le_trans (h.starts t ht) htl,
    by rw [hseen, hsxx]; exact ⟨Int.le_trans h.seens.1 htl, Int.le_refl _⟩, h.view⟩

/-- **Reply received**: the claimant `x` has consumed the (non-admitting) reply and goes on with its GAP scan; the
listener `y` listens again; both are up to date with the log, whose last entry is the reply. -/
structure HQ3 (cfg : Cfg) (n : Net) (x y : Nat) (stx sty : NetStation) (q lx : Int) (coll : Nat) (state : ResponseState) : Prop where
  soloX : Solo cfg n x stx lx
  soloY : Solo cfg n y sty (q + (cfg.b66 : Nat))
  stx_st : stx.s.st = .claimToken .scan ∨ stx.s.st = .passToken false .first
  stx_gap : stx.s.gap = .doPoll sty.s.p.address
  sty_st : sty.s.st = .listenToken none coll ∨ sty.s.st = .activeIdle none none 0
  ymw : state = .masterWithoutToken → sty.s.st = .activeIdle none none 0 ∧ sty.s.ring.ps = stx.s.p.address ∧
    sty.s.ring.readyForRing = true
  tto : cfg.slot + 3 * cfg.P + cfg.ce 0 + 2 ≤ sty.s.p.tokenLostTimeout
  yx : y ≠ x
  last : ∃ dnx, n.bus.txs = dnx ++ [rpTx y stx.s.p.address sty.s.p.address state q] ∧
    (∀ o ∈ dnx, o.sender = x) ∧
    (Admits state .ok → stx.s.ring.ns = sty.s.p.address ∧ stx.s.ring.isActive sty.s.p.address = true ∧
      ∀ M', IsRing M' → (∀ z, z ∈ M' ↔ z = sty.s.p.address ∨ z = stx.s.p.address) → RingView M' stx.s.p.address stx.s.ring)

/-- The claimant's context after consuming a non-admitting reply. -/
def replyCtxG (s : Station) (apps : Apps) (now : Int) (rg : TokenRing) : Ctx :=
  { s := { (markRx s now) with ring := rg, st := afterAwait s.st }, apps := apps, rx := [] }

theorem markRx_stamp (s : Station) (now l : Int) (hl : s.lastBusActivity = some l) (hle : l ≤ now) :
    (markRx s now).lastBusActivity = some now := by
  unfold markRx markBusActivity
  simp only [hl, Option.getD_some]
  rw [Int.max_eq_right hle]

/-- **Phase Q2, the claimant is polled**: while the reply is incomplete it keeps waiting (its slot time restarts with
every character); once the reply is complete it consumes it and goes on scanning. -/
theorem hq2_claimant {cfg : Cfg} {n : Net} {x y : Nat} {stx sty : NetStation} {r q : Int} {state : ResponseState} {lX : Int}
    {coll : Nat} {tl : Int} (h : HQ2 cfg n x y stx sty r q state lX coll tl) (hok : cfg.Ok) (now : Int) (htl : tl ≤ now)
    (hown : n.bus.seen.getD x 0 < now) :
    ∃ n' inc c, n.poll x now = (n', inc, some (.ok c)) ∧ c.tx = none ∧ c.s.p = stx.s.p ∧
      ((∃ lX', HQ2 cfg n' x y (upSt stx c) sty r q state lX' coll now) ∨
       (q + ((cfg.ce 5 : Nat) : Int) ≤ now ∧ HQ3 cfg n' x y (upSt stx c) sty q now coll state)) := by
  have hr := hok.rate
  have hmar := hok.margin
  have hc5 := cfg.ce5 hr
  have hc0 := cfg.ce_pos hr 0
  have hsY := h.soloY
  have hqlate := h.qlate
  have hqtl := h.qtl
  obtain ⟨hon, hal, hinv, hson, hprate, hpslot⟩ := h.xon
  obtain ⟨dnx, htxs0, hdnx⟩ := h.split
  have hxy : x ≠ y := Ne.symm h.yx
  have haL : stx.s.p.address < 126 := by have := hinv.addr; have := hinv.hsa; omega
  have haH : sty.s.p.address < 126 := by have := hinv.gap _ h.stx_gap; have := hinv.hsa; omega
  have hneA : sty.s.p.address ≠ stx.s.p.address := (AwaitSt.gapne hinv h.stx_st).2
  have hslotT : stx.s.p.slotTime = cfg.slot := by
    unfold Params.slotTime Cfg.slot Params.bits; rw [hprate, hpslot]
  obtain ⟨rp, hrp⟩ : ∃ rp, rp = rpTx y stx.s.p.address sty.s.p.address state q := ⟨_, rfl⟩
  have htxs : n.bus.txs = dnx ++ [rp] := by rw [hrp]; exact htxs0
  have hrxX : stx.rx = arrived cfg [rp] (n.bus.seen.getD x 0) := by rw [hrp]; exact h.rxX
  have hpendX : stx.s.pendingBytes ≤ (arrived cfg [rp] (n.bus.seen.getD x 0)).length := by rw [hrp]; exact h.pendX
  have hslotok : q + ((cfg.ce (cvis cfg rp (n.bus.seen.getD x 0)) : Nat) : Int) ≤ lX + (cfg.slot : Nat) := by
    rw [hrp]; exact h.slotok
  have hheadX : cvis cfg rp (n.bus.seen.getD x 0) < 6 := by rw [hrp]; exact h.headX
  have hlen : rp.bytes.length = 6 := by rw [hrp]; exact rpTx_len ..
  have hstart : rp.start = q := by rw [hrp]; rfl
  have hsender : rp.sender = y := by rw [hrp]; rfl
  have hb : rp.bytes = (rpTel stx.s.p.address sty.s.p.address state).wire := by
    rw [hrp]; exact statusResponse_frame ..
  have hsn : n.bus.seen.getD x 0 ≤ now := Int.le_of_lt hown
  have hbc : n.bus.Chained n.bus.txs := by
    unfold Bus.Chained
    have := hsY.chained
    unfold CChained at this
    refine this.imp ?_
    intro o t hot
    unfold Bus.txEnd
    rw [byteEnd_cfg n.bus cfg hsY.rate]; exact hot
  obtain ⟨inc, hdv, hcat⟩ : ∃ inc, n.bus.deliver x now = ({ n.bus with seen := n.bus.seen.set x now }, inc) ∧
      arrived cfg [rp] (n.bus.seen.getD x 0) ++ inc = arrived cfg [rp] now := by
    refine ⟨_, Bus.deliver_chained n.bus (by rw [hsY.rate]; exact hr) hsY.corrupt x now hbc hsY.live, ?_⟩
    rw [htxs, List.map_append, List.flatten_append,
      seg_done cfg hr n.bus hsY.rate x _ now hsn dnx (fun o ho => .inl (hdnx o ho).1), List.nil_append]
    exact arrived_extend cfg hr n.bus hsY.rate x _ now hsn [rp] (List.pairwise_singleton _ _)
      (fun t ht => by simp only [List.mem_singleton] at ht; subst ht; rw [hlen]; omega)
      (fun t ht => by simp only [List.mem_singleton] at ht; subst ht; rw [hsender]; exact h.yx)
  have hphy : n.bus.transmitting x now = false := by
    unfold Bus.transmitting
    cases hf : n.bus.txs.reverse.find? (fun t => decide (t.sender = x)) with
    | none => rfl
    | some t =>
      have hmem : t ∈ n.bus.txs := List.mem_reverse.1 (List.mem_of_find?_eq_some hf)
      have hs : t.sender = x := by simpa using List.find?_some hf
      rw [htxs] at hmem
      rcases List.mem_append.1 hmem with hm | hm
      · have := (hdnx t hm).2
        simp only [decide_eq_false_iff_not]
        unfold Bus.txEnd
        rw [byteEnd_cfg n.bus cfg hsY.rate]
        unfold cEnd at this
        omega
      · simp only [List.mem_singleton] at hm; subst hm; rw [hsender] at hs; exact absurd hs h.yx
  have hrx' : stx.rx ++ inc = arrived cfg [rp] now := by rw [hrxX]; exact hcat
  have hA : ∀ a, arrived cfg [rp] a = rp.bytes.take (cvis cfg rp a) := by
    intro a
    unfold arrived
    simp only [List.map_cons, List.map_nil, List.flatten_cons, List.flatten_nil, List.append_nil]
  have hlate : ∀ l0, stx.s.lastBusActivity = some l0 → l0 < now := by
    intro l0 hl0; rw [h.stampX] at hl0; cases hl0; rcases h.pbok with e | e <;> omega
  have hno : stx.s.st ≠ .offline ∧ stx.s.st ≠ .passiveIdle := h.stx_st.awake
  obtain ⟨f1, f2, f3, f4, f5, -⟩ := checkBA_fields stx.s now (arrived cfg [rp] now).length
  have hpd := poll_dispatch stx.s stx.apps now (arrived cfg [rp] now) hson hno.1 hno.2 hlate
  obtain ⟨l1, hl1, hle1, hcase⟩ := checkBA_stamp stx.s now (arrived cfg [rp] now).length hlate (.inr ⟨lX, h.stampX⟩)
  have hV6 := cvis_le cfg rp now
  have hlenA : (arrived cfg [rp] now).length = cvis cfg rp now := by rw [hA, List.length_take, hlen]; omega
  have hlenS : (arrived cfg [rp] (n.bus.seen.getD x 0)).length = cvis cfg rp (n.bus.seen.getD x 0) := by
    rw [hA, List.length_take, hlen]; omega
  have hmono := cvis_mono cfg rp _ now hsn
  have hstream : arrived cfg [rp] now ++ rp.bytes.drop (cvis cfg rp now) =
      streamOf [rpTel stx.s.p.address sty.s.p.address state] := by
    rw [hA, List.take_append_drop, hb]; simp [streamOf]
  have hvalid := rpTel_valid stx.s.p.address sty.s.p.address state (by omega) (by omega)
  have hwl : (rpTel stx.s.p.address sty.s.p.address state).wire.length = 6 := by rw [← hb]; exact hlen
  obtain ⟨hpart, hfull⟩ := C16.receiveTelegram_stream (rpTel stx.s.p.address sty.s.p.address state) []
    (arrived cfg [rp] now) (rp.bytes.drop (cvis cfg rp now)) hstream hvalid
  obtain ⟨c', hc', hinv', -⟩ := pollInner_good { s := stx.s, apps := stx.apps, rx := arrived cfg [rp] now } now false hinv rfl
  have hc'' : stx.s.poll stx.apps now false (arrived cfg [rp] now) = .ok c' := hc'
  have hl1ge : r + (cfg.b66 : Nat) ≤ l1 := by
    rcases hcase with ⟨_, e⟩ | ⟨_, e⟩
    · omega
    · rw [h.stampX] at e; cases e; exact h.lXge
  by_cases hV : cvis cfg rp now < 6
  · -- the reply is still incomplete
    have hrec := hpart (by rw [hlenA, hwl]; exact hV)
    have hw_slot : now ≤ l1 + (cfg.slot : Nat) ∧
        q + ((cfg.ce (cvis cfg rp now) : Nat) : Int) ≤ l1 + (cfg.slot : Nat) := by
      rcases hcase with ⟨_, e⟩ | ⟨hnn, e⟩
      · refine ⟨by omega, ?_⟩
        rw [e]
        cases hv : cvis cfg rp now with
        | zero => omega
        | succ k =>
          have := (cvis_spec cfg rp now k (by rw [hlen]; omega)).1 (by omega)
          have := cfg.ce_step hr k
          omega
      · rw [h.stampX] at e; cases e
        have e2 : cvis cfg rp now = cvis cfg rp (n.bus.seen.getD x 0) := by omega
        rw [e2]
        refine ⟨?_, hslotok⟩
        have : ¬ (rp.start + ((cfg.ce (cvis cfg rp (n.bus.seen.getD x 0)) : Nat) : Int) ≤ now) := by
          intro hc
          have := (cvis_spec cfg rp now _ (by rw [hlen]; exact hheadX)).2 hc
          omega
        omega
    have hd : dispatch { s := checkBusActivity stx.s now (arrived cfg [rp] now).length, apps := stx.apps, rx := arrived cfg [rp] now } now = .ok { s := checkBusActivity stx.s now (arrived cfg [rp] now).length, apps := stx.apps, rx := arrived cfg [rp] now } := by
      exact await_dispatch_partial _ now l1 sty.s.p.address (arrived cfg [rp] now) false
        (by show AwaitSt (checkBusActivity stx.s now _).st _; rw [f1]; exact h.stx_st) hl1
        (by show (checkBusActivity stx.s now _).gap = _; rw [f5]; exact h.stx_gap)
        (by show _ ≠ (checkBusActivity stx.s now _).p.address; rw [f2]; exact hneA) hrec
        (by show now ≤ l1 + (((checkBusActivity stx.s now _).p.slotTime : Nat) : Int); rw [f2, hslotT]; exact hw_slot.1)
    rw [hpd, hd] at hc''
    cases hc''
    have hpoll : stx.s.poll stx.apps now (Bus.transmitting { n.bus with seen := n.bus.seen.set x now } x now) (stx.rx ++ inc) =
        .ok { s := checkBusActivity stx.s now (arrived cfg [rp] now).length, apps := stx.apps, rx := arrived cfg [rp] now } := by
      rw [transmitting_seen, hphy, hrx', hpd]; exact hd
    have hpe := Net.poll_eq n x now stx _ inc _ h.gx hal hon hdv hpoll
    obtain ⟨n', hpe', hbus, hstn⟩ : ∃ n', n.poll x now = (n', inc, some (.ok { s := checkBusActivity stx.s now (arrived cfg [rp] now).length, apps := stx.apps, rx := arrived cfg [rp] now })) ∧
        n'.bus = { n.bus with seen := n.bus.seen.set x now } ∧
        n'.stations = n.stations.set x (upSt stx { s := checkBusActivity stx.s now (arrived cfg [rp] now).length, apps := stx.apps, rx := arrived cfg [rp] now }) := ⟨_, hpe, rfl, rfl⟩
    have hseen : n'.bus.seen.getD x 0 = now := by rw [hbus]; exact seen_set_self _ _ _ h.xs
    have hsy : n'.bus.seen.getD y 0 = n.bus.seen.getD y 0 := by rw [hbus]; exact seen_set_other n.bus x y now hxy
    have haddr : (upSt stx { s := checkBusActivity stx.s now (arrived cfg [rp] now).length, apps := stx.apps, rx := arrived cfg [rp] now }).s.p.address = stx.s.p.address := by
      show (checkBusActivity stx.s now _).p.address = _; rw [f2]
    have hlenle : (arrived cfg [rp] (n.bus.seen.getD x 0)).length ≤ (arrived cfg [rp] now).length := by
      rw [← hcat, List.length_append]; omega
    refine ⟨n', inc, _, hpe', rfl, f2, .inl ⟨l1, ?_⟩⟩
    refine ⟨hsY.otherPoll x now _ hxy hbus hstn, h.sty_st, Int.le_trans h.qtl htl, h.tto,
      (fun hm => by rw [haddr]; exact h.ymw hm),
      by rw [hstn]; exact List.getElem?_set_self h.xl, by rw [hstn, List.length_set]; exact h.xl,
      by rw [hbus]; simp only [List.length_set]; exact h.xs,
      ⟨hon, hal, hinv', by show (checkBusActivity stx.s now _).online = true; rw [f4]; exact hson,
        by show (checkBusActivity stx.s now _).p.rate = _; rw [f2]; exact hprate,
        by show (checkBusActivity stx.s now _).p.slotBits = _; rw [f2]; exact hpslot⟩,
      by show AwaitSt (checkBusActivity stx.s now _).st _; rw [f1]; exact h.stx_st,
      by show (checkBusActivity stx.s now _).gap = _; rw [f5]; exact h.stx_gap, h.yx,
      ⟨dnx, by rw [haddr, hbus]; exact htxs0, hdnx⟩, ?_, ?_, ?_, hl1, hl1ge, h.qlate, h.qearly, .inr (by rw [hseen]; exact hle1), ?_,
      by rw [hbus]; exact fun t ht => Int.le_trans (h.starts t ht) htl,
      by rw [hseen, hsy]; exact ⟨Int.le_refl _, Int.le_trans h.seens.2 htl⟩, (by show RingView [(checkBusActivity stx.s now _).p.address] (checkBusActivity stx.s now _).p.address (checkBusActivity stx.s now _).ring; rw [f3, f2]; exact h.view)⟩
    · rw [haddr, hseen, ← hrp]; rfl
    · rw [haddr, hseen, ← hrp]
      show (checkBusActivity stx.s now _).pendingBytes ≤ _
      unfold checkBusActivity
      split
      · exact Nat.le_refl _
      · omega
    · rw [haddr, hseen, ← hrp]; exact hV
    · rw [haddr, hseen, ← hrp]; exact hw_slot.2
  · -- the reply is complete
    have hV6' : cvis cfg rp now = 6 := by omega
    obtain ⟨b2, hrec, hb2⟩ := hfull (by rw [hlenA, hwl]; omega)
    have hb2' : b2 = [] := List.eq_nil_of_length_eq_zero (by
      have := congrArg List.length hb2
      simp only [streamOf, List.map_nil, List.flatten_nil, List.length_nil, List.length_append] at this
      omega)
    subst hb2'
    have hqe : q + ((cfg.ce 5 : Nat) : Int) ≤ now := by
      have := (cvis_spec cfg rp now 5 (by rw [hlen]; omega)).1 (by omega)
      omega
    obtain ⟨rg, hrgA, hd⟩ : ∃ rg : TokenRing, (Admits state .ok → rg.ns = sty.s.p.address ∧ rg.isActive sty.s.p.address = true ∧
          ∀ M', IsRing M' → (∀ z, z ∈ M' ↔ z = sty.s.p.address ∨ z = stx.s.p.address) → RingView M' stx.s.p.address rg) ∧
        dispatch { s := checkBusActivity stx.s now (arrived cfg [rp] now).length, apps := stx.apps, rx := arrived cfg [rp] now } now = .ok (replyCtxG (checkBusActivity stx.s now (arrived cfg [rp] now).length) stx.apps now rg) := by
      have hstC : AwaitSt (checkBusActivity stx.s now (arrived cfg [rp] now).length).st sty.s.p.address := by rw [f1]; exact h.stx_st
      have hgC : (checkBusActivity stx.s now (arrived cfg [rp] now).length).gap = .doPoll sty.s.p.address := by rw [f5]; exact h.stx_gap
      have hneC : sty.s.p.address ≠ (checkBusActivity stx.s now (arrived cfg [rp] now).length).p.address := by rw [f2]; exact hneA
      have hrC : replyOf (checkBusActivity stx.s now (arrived cfg [rp] now).length).p.address sty.s.p.address
          (rpTel stx.s.p.address sty.s.p.address state) = some (state, .ok) := by
        rw [f2]; exact replyOf_rpTel _ _ state (by omega) (by omega)
      by_cases hadm : Admits state .ok
      · obtain ⟨rr, h1, h2, h3, h4, h5, h6⟩ := await_dispatch_admit { s := checkBusActivity stx.s now (arrived cfg [rp] now).length, apps := stx.apps, rx := arrived cfg [rp] now } now sty.s.p.address [] (rpTel stx.s.p.address sty.s.p.address state) _ true [] state hstC hgC hneC hrec hrC hadm.2 (by omega)
          (by show (checkBusActivity stx.s now _).ring.ts = (checkBusActivity stx.s now _).p.address; rw [f3, f2]; exact h.view.ts)
          (by show (checkBusActivity stx.s now _).p.address < 128; rw [f2]; omega)
        have h1' : (checkBusActivity stx.s now (arrived cfg [rp] now).length).ring.setNextStation sty.s.p.address = some rr := h1
        rw [f3] at h1'
        refine ⟨rr, fun _ => ⟨h2, h5, ?_⟩, h6⟩
        intro M' hM' hmem
        have hbt : Between stx.s.p.address (cycSucc stx.s.p.address [stx.s.p.address]) sty.s.p.address := by
          rw [cycSucc_single]; unfold Between; exact ⟨hneA, by simp⟩
        have vk := AbstractRing.viewOk_setNext [stx.s.p.address] M' stx.s.p.address sty.s.p.address stx.s.ring rr
          ⟨h.view.ts, h.view.valid, h.view.las, h.view.nbr⟩ (List.mem_singleton.2 rfl) hbt
          (fun z => by rw [hmem z]; simp) h1'
        exact ⟨hM', (hmem _).2 (.inr rfl), vk.ts, vk.valid, vk.las, vk.nbr⟩
      · refine ⟨(checkBusActivity stx.s now (arrived cfg [rp] now).length).ring, fun hh => absurd hh hadm, ?_⟩
        exact await_dispatch_reply { s := checkBusActivity stx.s now (arrived cfg [rp] now).length, apps := stx.apps, rx := arrived cfg [rp] now } now sty.s.p.address [] (rpTel stx.s.p.address sty.s.p.address state) _ true [] state .ok hstC hgC hneC hrec hrC hadm
    obtain ⟨cR, hdr, k1, k2, k3, k4, k5, k6, k7, k8⟩ : ∃ cR : Ctx, dispatch { s := checkBusActivity stx.s now (arrived cfg [rp] now).length, apps := stx.apps, rx := arrived cfg [rp] now } now = .ok cR ∧ cR.s.online = true ∧ cR.s.p = stx.s.p ∧ cR.rx = [] ∧
        cR.s.lastBusActivity = some now ∧ cR.tx = none ∧ cR.s.st = afterAwait stx.s.st ∧ cR.s.gap = stx.s.gap ∧ cR.s.ring = rg := by
      refine ⟨_, hd, ?_, ?_, rfl, ?_, rfl, ?_, ?_, rfl⟩
      · show (markRx (checkBusActivity stx.s now _) now).online = true
        unfold markRx markBusActivity; exact f4.trans hson
      · show (markRx (checkBusActivity stx.s now _) now).p = _
        unfold markRx markBusActivity; exact f2
      · show (markRx (checkBusActivity stx.s now _) now).lastBusActivity = _
        exact markRx_stamp _ now l1 hl1 hle1
      · show afterAwait (checkBusActivity stx.s now _).st = _
        rw [f1]
      · show (markRx (checkBusActivity stx.s now _) now).gap = _
        unfold markRx markBusActivity; exact f5
    rw [hpd, hdr] at hc''
    have hcc : cR = c' := by injection hc''
    rw [← hcc] at hinv'
    have hpoll : stx.s.poll stx.apps now (Bus.transmitting { n.bus with seen := n.bus.seen.set x now } x now) (stx.rx ++ inc) =
        .ok cR := by
      rw [transmitting_seen, hphy, hrx', hpd]; exact hdr
    have hpe := Net.poll_eq n x now stx _ inc cR h.gx hal hon hdv hpoll
    rw [k5] at hpe
    obtain ⟨n', hpe', hbus, hstn⟩ : ∃ n', n.poll x now = (n', inc, some (.ok cR)) ∧
        n'.bus = { n.bus with seen := n.bus.seen.set x now } ∧ n'.stations = n.stations.set x (upSt stx cR) := ⟨_, hpe, rfl, rfl⟩
    have hseen : n'.bus.seen.getD x 0 = now := by rw [hbus]; exact seen_set_self _ _ _ h.xs
    have haddr : (upSt stx cR).s.p.address = stx.s.p.address := by show cR.s.p.address = _; rw [k2]
    refine ⟨n', inc, cR, hpe', k5, k2, .inr ⟨hqe, ?_⟩⟩
    have hst3 : cR.s.st = .claimToken .scan ∨ cR.s.st = .passToken false .first := by
      rw [k6]
      rcases h.stx_st with e | e <;> rw [e]
      · exact .inl rfl
      · exact .inr rfl
    refine ⟨?_, hsY.otherPoll x now _ hxy hbus hstn, hst3, by show cR.s.gap = _; rw [k7]; exact h.stx_gap, h.sty_st,
      (fun hm => by rw [haddr]; exact h.ymw hm), h.tto, h.yx,
      ⟨dnx, by rw [haddr, hbus]; exact htxs0, fun o ho => (hdnx o ho).1,
        fun ha => by
          show cR.s.ring.ns = _ ∧ cR.s.ring.isActive _ = true ∧ ∀ M', IsRing M' → _ → RingView M' (upSt stx cR).s.p.address cR.s.ring
          rw [k8, haddr]; exact hrgA ha⟩⟩
    refine ⟨by rw [hbus]; exact hsY.rate, by rw [hbus]; exact hsY.drops, by rw [hbus]; exact hsY.corrupt,
      by rw [hbus]; exact hsY.chained, by rw [hbus]; exact hsY.live, by rw [hbus]; exact hsY.pos, ?_, ?_,
      by rw [hstn, List.length_set]; exact h.xl, by rw [hbus]; simp only [List.length_set]; exact h.xs,
      by rw [hstn]; exact List.getElem?_set_self h.xl, hon, hal, hinv', k1, k3, k4,
      by show cR.s.p.rate = _; rw [k2]; exact hprate, by show cR.s.p.slotBits = _; rw [k2]; exact hpslot⟩
    · intro o ho
      rw [hseen]
      rw [hbus] at ho
      have ho' : o ∈ dnx ++ [rp] := by rw [← htxs]; exact ho
      rcases List.mem_append.1 ho' with hm | hm
      · exact .inl (hdnx o hm).1
      · simp only [List.mem_singleton] at hm; subst hm
        right; unfold cEnd; rw [hlen, hstart]; exact hqe
    · intro o ho hso
      rw [hbus] at ho
      have ho' : o ∈ dnx ++ [rp] := by rw [← htxs]; exact ho
      rcases List.mem_append.1 ho' with hm | hm
      · have := (hdnx o hm).2; omega
      · simp only [List.mem_singleton] at hm; subst hm; rw [hsender] at hso; exact absurd hso h.yx

/-! ## The run from the request to the reception of the reply -/

theorem Net.poll_params (n : Net) (i : Nat) (now : Int) (n' : Net) (inc : Bytes) (c : Ctx) (st : NetStation)
    (h : n.poll i now = (n', inc, some (.ok c))) (hg : n.stations[i]? = some st) : c.s.p = st.s.p := by
  obtain ⟨-, st0, hst0, -, hpoll0⟩ := Net.poll_bus n i now n' inc c h
  rw [hg] at hst0; cases hst0
  exact (poll_frame _ _ _ _ _ c hpoll0).1

theorem listenReport_notReady (s : Station) (src : Nat) (h : s.ring.readyForRing = false) :
    listenReport s src = .masterNotReady := by
  unfold listenReport
  rw [h]
  simp

/-- The three phases of an answered GAP request; `T`: everything the listener will have heard when it registers the
request. -/
def HQ (cfg : Cfg) (G : Nat) (n : Net) (x y : Nat) (stx sty : NetStation) (r : Int) (r0 : TokenRing) (T : List Telegram)
    (state : ResponseState) (coll : Nat) (tl : Int) : Prop :=
  (∃ hd dn rs lY, HQ0 cfg G n x y stx sty r r0 hd dn rs lY coll tl ∧ hd ++ rs.map telOf = T) ∨
  (∃ h1, HQ1 cfg n x y stx sty r h1 coll tl ∧ listenReport sty.s stx.s.p.address = state) ∨
  (∃ q lX, HQ2 cfg n x y stx sty r q state lX coll tl)

theorem HQ.info {cfg : Cfg} {G : Nat} {n : Net} {x y : Nat} {stx sty : NetStation} {r : Int} {r0 : TokenRing}
    {T : List Telegram} {state : ResponseState} {coll : Nat} {tl : Int} (h : HQ cfg G n x y stx sty r r0 T state coll tl) :
    n.stations[x]? = some stx ∧ n.stations[y]? = some sty ∧ x < n.stations.length ∧ y < n.stations.length ∧ y ≠ x := by
  rcases h with ⟨hd, dn, rs, lY, h, -⟩ | ⟨h1, h, -⟩ | ⟨q, lX, h⟩
  · exact ⟨h.solo.gx, h.gy, h.solo.xl, h.yl, h.yx⟩
  · exact ⟨h.solo.gx, h.soloY.gx, h.solo.xl, h.soloY.xl, h.yx⟩
  · exact ⟨h.gx, h.soloY.gx, h.xl, h.soloY.xl, h.yx⟩

/-- Run from the GAP request to the reception of the reply: the listener `y` transmits nothing but the reply with the
report `state`; the requester `x` transmits nothing; `x` has consumed the reply by `B` (`HQ3`: if the report admits
the listener, it is `x`'s next station and `x`'s view is that of the two-station ring). -/
def RplRun (cfg : Cfg) (x y aL aH : Nat) (state : ResponseState) (B : Int) : Net → List (Nat × Int) → Prop
  | _, [] => True
  | n, (i, now) :: rest =>
    ∃ n' inc c, n.poll i now = (n', inc, some (.ok c)) ∧
      ((i = y ∧ (c.tx = none ∨ c.tx = some (statusResponseBytes aL aH state)) ∧ RplRun cfg x y aL aH state B n' rest) ∨
       (i = x ∧ c.tx = none ∧ (RplRun cfg x y aL aH state B n' rest ∨
          (now ≤ B ∧ ∃ stx sty q coll, HQ3 cfg n' x y stx sty q now coll state ∧ stx.s.p.address = aL ∧ sty.s.p.address = aH))))

/-- **The first answered GAP request**: from the request on the bus, under any schedule that polls every station at
least every `P`, the listener registers it, waits for the synchronisation pause and sends its report (`state`: what
`listenReport` yields once it has heard everything up to the request); the requester (in `ClaimToken(ScanAwait)` or
`AwaitStatusResponse`) waits (its slot time never runs out), receives the reply in whatever pieces it arrives, and
goes on (adopting the listener if the report admits it), at the latest `2 · ce 5 + bits 33 + 3 P` after the start of
the request. -/
theorem reply_run {cfg : Cfg} (hok : cfg.Ok) (G : Nat) (hG : cfg.slot + 3 * cfg.P ≤ G) (x y : Nat) (r : Int) (r0 : TokenRing)
    (T : List Telegram) (aL aH : Nat) (state : ResponseState)
    (hrep : ∀ s : Station, s.ring = hearAll aL T r0 → listenReport s aL = state) :
    ∀ (evs : List (Nat × Int)) (n : Net) (stx sty : NetStation) (coll : Nat) (tl : Int),
    HQ cfg G n x y stx sty r r0 T state coll tl → n.stations.length = 2 → stx.s.p.address = aL → sty.s.p.address = aH →
    SchedN cfg.P n tl evs →
    RplRun cfg x y aL aH state (r + 2 * ((cfg.ce 5 : Nat) : Int) + (cfg.b33 : Nat) + 3 * (cfg.P : Nat)) n evs := by
  intro evs
  induction evs with
  | nil => intro _ _ _ _ _ _ _ _ _ _; trivial
  | cons ev rest ih =>
    intro n stx sty coll tl hq hN haL haH hs
    obtain ⟨i, now⟩ := ev
    obtain ⟨hi, htl, hown, hgap, hrest⟩ := hs
    obtain ⟨hgx0, hgy0, hxl, hyl, hyx⟩ := hq.info
    have hgx := hgap x hxl
    have hgy := hgap y hyl
    have hixy : i = x ∨ i = y := by omega
    have hlenOf : ∀ n' inc c, n.poll i now = (n', inc, some (.ok c)) → n'.stations.length = 2 := by
      intro n' inc c hp
      have := Net.poll_len n i now; rw [hp] at this; simp only at this; rw [this]; exact hN
    rcases hixy with rfl | rfl
    · -- the claimant
      rcases hq with ⟨hd, dn, rs, lY, h, hT⟩ | ⟨h1, h, hnr1⟩ | ⟨q, lX, h⟩
      · obtain ⟨n', c, hp, htx, h'⟩ := hq0_claimant h hok now htl hown hgy
        have hn' : (n.poll i now).1 = n' := by rw [hp]
        rw [hn'] at hrest
        exact ⟨n', [], c, hp, .inr ⟨rfl, htx, .inl (ih n' stx sty coll now (.inl ⟨hd, dn, rs, lY, h', hT⟩)
          (hlenOf _ _ _ hp) haL haH hrest)⟩⟩
      · obtain ⟨n', c, hp, htx, h'⟩ := hq1_claimant h hok now htl hown hgy
        have hn' : (n.poll i now).1 = n' := by rw [hp]
        rw [hn'] at hrest
        exact ⟨n', [], c, hp, .inr ⟨rfl, htx, .inl (ih n' stx sty coll now (.inr (.inl ⟨h1, h', hnr1⟩))
          (hlenOf _ _ _ hp) haL haH hrest)⟩⟩
      · obtain ⟨n', inc, c, hp, htx, hpp, h'⟩ := hq2_claimant h hok now htl hown
        have hn' : (n.poll i now).1 = n' := by rw [hp]
        rw [hn'] at hrest
        have haL' : (upSt stx c).s.p.address = aL := by show c.s.p.address = _; rw [hpp]; exact haL
        refine ⟨n', inc, c, hp, .inr ⟨rfl, htx, ?_⟩⟩
        rcases h' with ⟨lX', h'⟩ | ⟨hqe, h3⟩
        · exact .inl (ih n' (upSt stx c) sty coll now (.inr (.inr ⟨q, lX', h'⟩)) (hlenOf _ _ _ hp) haL' haH hrest)
        · refine .inr ⟨?_, upSt stx c, sty, q, coll, h3, haL', haH⟩
          have hc5 := cfg.ce5 hok.rate
          have hhead := h.headX
          have hqearly := h.qearly
          have hxs : n.bus.seen.getD i 0 < q + ((cfg.ce 5 : Nat) : Int) := by
            by_cases h' : n.bus.seen.getD i 0 < q + ((cfg.ce 5 : Nat) : Int)
            · exact h'
            · have h' : q + ((cfg.ce 5 : Nat) : Int) ≤ n.bus.seen.getD i 0 := by omega
              have := (cvis_spec cfg (rpTx y stx.s.p.address sty.s.p.address state q) (n.bus.seen.getD i 0) 5
                (by rw [rpTx_len]; omega)).2 h'
              omega
          omega
    · -- the listener
      rcases hq with ⟨hd, dn, rs, lY, h, hT⟩ | ⟨h1, h, hnr1⟩ | ⟨q, lX, h⟩
      · obtain ⟨n', inc, c, hp, htx, h'⟩ := hq0_listener h hok hG now htl hown hgy
        have hn' : (n.poll i now).1 = n' := by rw [hp]
        rw [hn'] at hrest
        have hpp := Net.poll_params n i now n' inc c sty hp hgy0
        have haH' : (upSt sty c).s.p.address = aH := by show c.s.p.address = _; rw [hpp]; exact haH
        refine ⟨n', inc, c, hp, .inl ⟨rfl, .inl htx, ?_⟩⟩
        rcases h' with ⟨hd', dn', rs', lY', h', hT'⟩ | ⟨h', hring⟩
        · exact ih n' stx (upSt sty c) coll now (.inl ⟨hd', dn', rs', lY', h', hT'.trans hT⟩) (hlenOf _ _ _ hp) haL haH' hrest
        · refine ih n' stx (upSt sty c) coll now (.inr (.inl ⟨now, h', ?_⟩)) (hlenOf _ _ _ hp) haL haH' hrest
          rw [haL]; exact hrep _ (by rw [hring, hT, haL])
      · obtain ⟨n', c, hp, h'⟩ := hq1_listener h hok now htl hown hgy
        have hn' : (n.poll i now).1 = n' := by rw [hp]
        rw [hn'] at hrest
        have hpp := Net.poll_params n i now n' [] c sty hp hgy0
        have haH' : (upSt sty c).s.p.address = aH := by show c.s.p.address = _; rw [hpp]; exact haH
        rcases h' with ⟨htx, hsame, h'⟩ | ⟨htx, -, -, h'⟩
        · refine ⟨n', [], c, hp, .inl ⟨rfl, .inl htx, ?_⟩⟩
          exact ih n' stx (upSt sty c) coll now (.inr (.inl ⟨h1, h', by rw [hsame]; exact hnr1⟩)) (hlenOf _ _ _ hp) haL haH' hrest
        · refine ⟨n', [], c, hp, .inl ⟨rfl, .inr ?_, ?_⟩⟩
          · rw [htx, hnr1, haL, haH]
          · rw [hnr1] at h'
            exact ih n' stx (upSt sty c) coll now (.inr (.inr ⟨now, _, h'⟩)) (hlenOf _ _ _ hp) haL haH' hrest
      · obtain ⟨n', c, hp, htx, h'⟩ := hq2_listener h hok now htl hown hgx
        have hn' : (n.poll i now).1 = n' := by rw [hp]
        rw [hn'] at hrest
        exact ⟨n', [], c, hp, .inl ⟨rfl, .inl htx, ih n' stx sty coll now (.inr (.inr ⟨q, lX, h'⟩))
          (hlenOf _ _ _ hp) haL haH hrest⟩⟩

end PV
