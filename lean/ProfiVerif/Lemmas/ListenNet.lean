/-
Cold start / late joiner on the bus: a station in `ListenToken` that overhears a lone transmitter with arbitrary
lag.  Net-level listener lemma (work in progress towards phases (b), (c)).  Helper lemmas (C02).
-/
import ProfiVerif.Lemmas.ListenLearn

namespace PV
open StationGap TokenRing

/-- The log of a lone transmitter `x` (address `aL`) that never addresses `me`: fault-free, non-overlapping, all
transmissions by `x`, each a self-addressed token or a GAP request to an address other than `me`. -/
structure LoneLog (cfg : Cfg) (aL me x : Nat) (b : Bus) : Prop where
  rate : b.rate = cfg.rate
  corrupt : b.corrupt = []
  chained : CChained cfg b.txs
  live : ∀ t ∈ b.txs, t.dropped = false
  own : ∀ t ∈ b.txs, t.sender = x
  kinds : ∀ t ∈ b.txs, t.bytes = tokenBytes aL aL ∨ ∃ g, g < 126 ∧ g ≠ me ∧ t.bytes = statusRequestBytes g aL

theorem LoneLog.busChained {cfg : Cfg} {aL me x : Nat} {b : Bus} (h : LoneLog cfg aL me x b) : b.Chained b.txs := by
  unfold Bus.Chained
  have := h.chained
  unfold CChained at this
  refine this.imp ?_
  intro o t hot
  unfold Bus.txEnd
  rw [byteEnd_cfg b cfg h.rate]; exact hot

theorem LoneLog.wire {cfg : Cfg} {aL me x : Nat} {b : Bus} (h : LoneLog cfg aL me x b) (haL : aL < 126) (t : Transmission)
    (ht : t ∈ b.txs) : t.bytes = (telOf t).wire ∧ (telOf t).Valid ∧ 0 < t.bytes.length ∧ LoneTel aL me (telOf t) := by
  rcases h.kinds t ht with hb | ⟨g, hg, hgm, hb⟩
  · have e : telOf t = tokTel [aL] aL := telOf_token t aL [aL] (by rw [cycSucc_single]; exact hb)
    rw [e]
    refine ⟨by rw [tokTel_wire, cycSucc_single]; exact hb, trivial, by rw [hb]; show 0 < 3; omega, .inl ?_⟩
    unfold tokTel; rw [cycSucc_single]
  · have e : telOf t = reqTel g aL := telOf_req t g aL (by omega) (by omega) hb
    rw [e]
    exact ⟨by rw [reqTel_wire]; exact hb, reqTel_valid g aL (by omega) (by omega),
      by rw [hb, statusRequestBytes_length]; omega, .inr ⟨g, by omega, hgm, rfl⟩⟩

/-- What the bus hands to a listener of the lone transmitter. -/
theorem lone_deliver {cfg : Cfg} {aL me x : Nat} {b : Bus} (hlog : LoneLog cfg aL me x b) (hr : 0 < cfg.rate) (haL : aL < 126)
    (j : Nat) (hjx : j ≠ x) (now : Int) (dn rs : List Transmission) (h1 : b.txs = dn ++ rs)
    (h2 : ∀ o ∈ dn, cEnd cfg o ≤ b.seen.getD j 0) (hsn : b.seen.getD j 0 ≤ now) :
    ∃ inc, b.deliver j now = ({ b with seen := b.seen.set j now }, inc) ∧
      arrived cfg rs (b.seen.getD j 0) ++ inc = arrived cfg rs now := by
  have hc := hlog.chained
  rw [h1] at hc
  have hcrs : CChained cfg rs := (List.pairwise_append.1 hc).2.1
  have hpos : ∀ t ∈ b.txs, 0 < t.bytes.length := fun t ht => (hlog.wire haL t ht).2.2.1
  refine ⟨_, Bus.deliver_chained b (by rw [hlog.rate]; exact hr) hlog.corrupt j now hlog.busChained hlog.live, ?_⟩
  rw [h1, List.map_append, List.flatten_append,
    seg_done cfg hr b hlog.rate j _ now hsn dn (fun o ho =>
      .inr ⟨hpos o (by rw [h1]; exact List.mem_append_left _ ho), h2 o ho⟩),
    List.nil_append]
  exact arrived_extend cfg hr b hlog.rate j _ now hsn rs hcrs
    (fun t ht => hpos t (by rw [h1]; exact List.mem_append_right _ ht))
    (fun t ht => by rw [hlog.own t (by rw [h1]; exact List.mem_append_right _ ht)]; exact Ne.symm hjx)

theorem lone_phy {cfg : Cfg} {aL me x : Nat} {b : Bus} (hlog : LoneLog cfg aL me x b) (j : Nat) (hjx : j ≠ x) (now : Int) :
    b.transmitting j now = false := by
  unfold Bus.transmitting
  cases hf : b.txs.reverse.find? (fun t => decide (t.sender = j)) with
  | none => rfl
  | some t =>
    exfalso
    have hmem : t ∈ b.txs := List.mem_reverse.1 (List.mem_of_find?_eq_some hf)
    have hs : t.sender = j := by simpa using List.find?_some hf
    rw [hlog.own t hmem] at hs
    exact hjx hs.symm

/-- **The listener condition in `ListenToken`** for station `j` (record `st`): the log splits into `dn` (completely
delivered) and `rs` (not yet consumed); its buffer holds exactly what has arrived of `rs`, the head of `rs` is
incomplete; it listens, the next character arrives before its token-lost time-out, and its ring view is what the
telegrams `hd` consumed so far made of `r0`. -/
def LLOk (cfg : Cfg) (G aL : Nat) (b : Bus) (H : Int) (j : Nat) (st : NetStation) (r0 : TokenRing) (hd : List Telegram) : Prop :=
  st.online = true ∧ st.dead = false ∧ Inv st.s st.apps ∧ st.s.online = true ∧ aL ≠ st.s.p.address ∧
  G + cfg.ce 0 + 2 ≤ st.s.p.tokenLostTimeout ∧ st.s.ring = hearAll aL hd r0 ∧
  ∃ (dn rs : List Transmission) (l : Int) (coll : Nat),
    b.txs = dn ++ rs ∧ (∀ o ∈ dn, cEnd cfg o ≤ b.seen.getD j 0) ∧
    st.rx = arrived cfg rs (b.seen.getD j 0) ∧ st.s.pendingBytes ≤ (arrived cfg rs (b.seen.getD j 0)).length ∧
    (∀ t rest, rs = t :: rest → cvis cfg t (b.seen.getD j 0) < t.bytes.length) ∧
    st.s.lastBusActivity = some l ∧ l ≤ b.seen.getD j 0 ∧ st.s.st = .listenToken none coll ∧
    nextArr cfg H rs (b.seen.getD j 0) < l + (st.s.p.tokenLostTimeout : Nat)

/-- **One poll of a listening station that overhears the lone transmitter**: the bus hands over `inc`, the poll
returns regularly and transmits nothing, and the listener condition holds again (with the telegrams consumed in
this poll appended to `hd`). -/
theorem llisten_step {cfg : Cfg} {G aL x : Nat} {b : Bus} {H : Int} {j : Nat} {st : NetStation} {r0 : TokenRing}
    {hd : List Telegram} (hL : LLOk cfg G aL b H j st r0 hd) (hlog : LoneLog cfg aL st.s.p.address x b) (hr : 0 < cfg.rate)
    (haL : aL < 126) (hjx : j ≠ x) (hjl : j < b.seen.length) (now : Int) (hsn : b.seen.getD j 0 < now) (hnowH : now ≤ H)
    (hstart : ∀ t ∈ b.txs, t.start ≤ now)
    (hH : ∀ t, b.txs.getLast? = some t → H ≤ cEnd cfg t + (G : Nat)) :
    ∃ inc c hd', b.deliver j now = ({ b with seen := b.seen.set j now }, inc) ∧
      st.s.poll st.apps now (b.transmitting j now) (st.rx ++ inc) = .ok c ∧ c.tx = none ∧ c.s.p = st.s.p ∧
      LLOk cfg G aL { b with seen := b.seen.set j now } H j (upSt st c) r0 hd' := by
  obtain ⟨hon, hal, hinv, hson, hne, htto, hring, dn, rs, l, coll, h1, h2, h4, h5, h6, h7, h8, hst, h10⟩ := hL
  have hc0 := cfg.ce_pos hr 0
  have hphy := lone_phy hlog j hjx now
  obtain ⟨inc, hdv, hcat⟩ := lone_deliver hlog hr haL j hjx now dn rs h1 h2 (Int.le_of_lt hsn)
  have hc := hlog.chained
  rw [h1] at hc
  have hcrs : CChained cfg rs := (List.pairwise_append.1 hc).2.1
  have hw : ∀ t ∈ rs, t.bytes = (telOf t).wire ∧ (telOf t).Valid ∧ 0 < t.bytes.length := fun t ht => by
    have := hlog.wire haL t (by rw [h1]; exact List.mem_append_right _ ht)
    exact ⟨this.1, this.2.1, this.2.2.1⟩
  obtain ⟨k, b', d, ret, hrec, hk, hdm, hfl, hfull, hb', hhead, hnil, hlastflag, hd0⟩ := consume cfg hr telOf rs now hcrs hw
  have hl' : l < now := by omega
  have hrx' : st.rx ++ inc = arrived cfg rs now := by rw [h4]; exact hcat
  have hto : 0 < st.s.p.tokenLostTimeout := by omega
  obtain ⟨f1, f2, f3, f4, -⟩ := checkBA_fields st.s now (arrived cfg rs now).length
  have hlate : ∀ l0, st.s.lastBusActivity = some l0 → l0 < now := by intro l0 hl0; rw [h7] at hl0; cases hl0; exact hl'
  by_cases hdn : d = []
  · -- no complete telegram
    have hk0 := hd0 hdn
    subst hk0
    simp only [List.drop_zero] at hb' hhead
    subst hdn
    rw [hb'] at hrec
    have hhead' : ∀ t rest, rs = t :: rest → cvis cfg t now < t.bytes.length ∧ ∀ t' ∈ rest, cvis cfg t' now = 0 :=
      fun t rest hrs => ⟨(hhead t rest hrs).1, (hhead t rest hrs).2.2⟩
    have hlen : (arrived cfg rs (b.seen.getD j 0)).length ≤ (arrived cfg rs now).length := by
      rw [← hcat, List.length_append]; omega
    have hnonew : ¬ st.s.pendingBytes < (arrived cfg rs now).length → now < nextArr cfg H rs (b.seen.getD j 0) := by
      intro hnn
      have hinc : inc = [] := by
        have := congrArg List.length hcat
        rw [List.length_append] at this
        exact List.eq_nil_of_length_eq_zero (by omega)
      unfold nextArr
      cases rs with
      | nil => simp only; omega
      | cons t rest =>
        simp only
        obtain ⟨hlt, hz⟩ := hhead' t rest rfl
        have hlt0 : cvis cfg t (b.seen.getD j 0) < t.bytes.length := by
          have := cvis_mono cfg t _ now (Int.le_of_lt hsn); omega
        have hveq : cvis cfg t now = cvis cfg t (b.seen.getD j 0) := by
          have e1 : arrived cfg (t :: rest) now = t.bytes.take (cvis cfg t now) := by
            rw [arrived_cons, arrived_nil_of_zero cfg rest now hz, List.append_nil]
          have hz0 : ∀ t' ∈ rest, cvis cfg t' (b.seen.getD j 0) = 0 := fun t' ht' => by
            have := cvis_mono cfg t' _ now (Int.le_of_lt hsn); have := hz t' ht'; omega
          have e2 : arrived cfg (t :: rest) (b.seen.getD j 0) = t.bytes.take (cvis cfg t (b.seen.getD j 0)) := by
            rw [arrived_cons, arrived_nil_of_zero cfg rest _ hz0, List.append_nil]
          rw [hinc, List.append_nil, e1, e2] at hcat
          have := congrArg List.length hcat
          rw [List.length_take, List.length_take] at this
          omega
        have : ¬ (t.start + ((cfg.ce (cvis cfg t (b.seen.getD j 0)) : Nat) : Int) ≤ now) := by
          intro hc'
          have := (cvis_spec cfg t now _ hlt0).2 hc'
          omega
        omega
    have hpollb := listen_poll_batch st.s st.apps now (arrived cfg rs now) (arrived cfg rs now) [] ret coll l hson hst h7 hl'
      (by
        by_cases hnew : st.s.pendingBytes < (arrived cfg rs now).length
        · exact .inl hnew
        · right; have := hnonew hnew; omega) hto hrec
    simp only [foldTelegrams] at hpollb
    have hlast := checkBA_last st.s now (arrived cfg rs now).length hlate
    refine ⟨inc, _, hd, hdv, by rw [hphy, hrx']; exact hpollb, rfl, f2, ?_⟩
    refine ⟨hon, hal, ?_, by show (checkBusActivity st.s now _).online = true; rw [f4]; exact hson,
      by show aL ≠ (checkBusActivity st.s now _).p.address; rw [f2]; exact hne,
      by show _ ≤ (checkBusActivity st.s now _).p.tokenLostTimeout; rw [f2]; exact htto,
      by show (checkBusActivity st.s now _).ring = _; rw [f3]; exact hring,
      dn, rs, if (arrived cfg rs now).length > st.s.pendingBytes then now else l, coll, h1, ?_⟩
    · obtain ⟨c', hc', hinv', -⟩ := pollInner_good { s := st.s, apps := st.apps, rx := arrived cfg rs now } now false hinv rfl
      have : st.s.poll st.apps now false (arrived cfg rs now) = .ok c' := hc'
      rw [hpollb] at this
      cases this
      exact hinv'
    rw [getD_set_self b j now hjl]
    refine ⟨fun o ho => by have := h2 o ho; omega, rfl, ?_, fun t rest hrs => (hhead' t rest hrs).1, ?_, ?_,
      by show (checkBusActivity st.s now _).st = _; rw [f1]; exact hst, ?_⟩
    · show (checkBusActivity st.s now _).pendingBytes ≤ _
      unfold checkBusActivity; split
      · exact Nat.le_refl _
      · omega
    · show (checkBusActivity st.s now _).lastBusActivity = _
      rw [hlast]; split <;> simp [h7]
    · split <;> omega
    · show nextArr cfg H rs now < _ + (((checkBusActivity st.s now _).p.tokenLostTimeout : Nat) : Int)
      rw [f2]
      by_cases hnew : (arrived cfg rs now).length > st.s.pendingBytes
      · rw [if_pos hnew]
        cases rs with
        | nil => simp [arrived] at hnew
        | cons t rest =>
          have := nextArr_after cfg hr H t rest now (hhead' t rest rfl).1 (hstart t (by rw [h1]; simp))
          omega
      · rw [if_neg hnew]
        have hlt := hnonew (by omega)
        have heq : nextArr cfg H rs now = nextArr cfg H rs (b.seen.getD j 0) := by
          unfold nextArr at hlt ⊢
          cases rs with
          | nil => rfl
          | cons t rest =>
            simp only at hlt ⊢
            have hlt0 : cvis cfg t (b.seen.getD j 0) < t.bytes.length := by
              have := cvis_mono cfg t _ now (Int.le_of_lt hsn); have := (hhead' t rest rfl).1; omega
            have h' : ¬ (cvis cfg t (b.seen.getD j 0) < cvis cfg t now) := fun hh => by
              have := (cvis_spec cfg t now _ hlt0).1 hh; omega
            have := cvis_mono cfg t _ now (Int.le_of_lt hsn)
            have e : cvis cfg t now = cvis cfg t (b.seen.getD j 0) := by omega
            rw [e]
        rw [heq]; exact h10
  · -- at least one complete telegram: new bytes have arrived
    have hk1 : 1 ≤ k := by
      cases k with
      | zero =>
        simp only [List.take_zero, List.map_nil, List.map_eq_nil_iff] at hdm
        exact absurd hdm hdn
      | succ k => omega
    have hnew : st.s.pendingBytes < (arrived cfg rs now).length := by
      cases rs with
      | nil => simp only [List.length_nil] at hk; omega
      | cons t0 rest =>
        have hmem0 : t0 ∈ (t0 :: rest).take k := by
          cases k with
          | zero => omega
          | succ k' => rw [List.take_succ_cons]; exact List.mem_cons_self ..
        have hf0 := hfull t0 hmem0
        have hlt0 := h6 t0 rest rfl
        rw [arrived_length] at h5 ⊢
        rw [arrivedLen_cons] at h5 ⊢
        have := arrivedLen_mono cfg rest _ now (Int.le_of_lt hsn)
        omega
    have hpollb := listen_poll_batch st.s st.apps now (arrived cfg rs now) b' d ret coll l hson hst h7 hl' (.inl hnew) hto hrec
    obtain ⟨l1, hl1, hle1, -⟩ := checkBA_stamp st.s now (arrived cfg rs now).length hlate (.inl hnew)
    have hall : ∀ y ∈ d, LoneTel aL (checkBusActivity st.s now (arrived cfg rs now).length).p.address y.1 := by
      intro y hy
      rw [f2]
      have : y.1 ∈ (rs.take k).map telOf := by rw [← hdm]; exact List.mem_map_of_mem hy
      obtain ⟨t', ht', e⟩ := List.mem_map.1 this
      rw [← e]
      exact (hlog.wire haL t' (by rw [h1]; exact List.mem_append_right _ (List.mem_of_mem_take ht'))).2.2.2
    have hfold := foldListen_lone now aL coll (by omega) d
      { s := checkBusActivity st.s now (arrived cfg rs now).length, apps := st.apps, rx := b' } l1 hdn
      (by rw [f4]; exact hson) (by rw [f1]; exact hst) hl1 hle1 (by rw [f2]; exact hne) hall
    have hpoll : st.s.poll st.apps now false (arrived cfg rs now) = .ok
        { s := heardS aL (checkBusActivity st.s now (arrived cfg rs now).length) now (d.map Prod.fst), apps := st.apps, rx := b' } := by
      rw [hpollb, hfold]
    have hsplit : rs = rs.take k ++ rs.drop k := (List.take_append_drop _ _).symm
    refine ⟨inc, _, hd ++ d.map Prod.fst, hdv, by rw [hphy, hrx']; exact hpoll, rfl, f2, ?_⟩
    refine ⟨hon, hal, ?_, by show (checkBusActivity st.s now _).online = true; rw [f4]; exact hson,
      by show aL ≠ (checkBusActivity st.s now _).p.address; rw [f2]; exact hne,
      by show _ ≤ (checkBusActivity st.s now _).p.tokenLostTimeout; rw [f2]; exact htto,
      by show hearAll aL (d.map Prod.fst) (checkBusActivity st.s now _).ring = _; rw [f3, hring, hearAll_append],
      dn ++ rs.take k, rs.drop k, now, coll, by rw [List.append_assoc, List.take_append_drop]; exact h1, ?_⟩
    · obtain ⟨c', hc', hinv', -⟩ := pollInner_good { s := st.s, apps := st.apps, rx := arrived cfg rs now } now false hinv rfl
      have : st.s.poll st.apps now false (arrived cfg rs now) = .ok c' := hc'
      rw [hpoll] at this
      cases this
      exact hinv'
    rw [getD_set_self b j now hjl]
    refine ⟨?_, hb', Nat.zero_le _, fun t rest hrs => (hhead t rest hrs).1, rfl, Int.le_refl _,
      by show (checkBusActivity st.s now _).st = _; rw [f1]; exact hst, ?_⟩
    · intro o ho
      rcases List.mem_append.1 ho with ho | ho
      · have := h2 o ho; omega
      · have hfo := hfull o ho
        have hpo := (hw o (List.mem_of_mem_take ho)).2.2
        have := (cvis_spec cfg o now (o.bytes.length - 1) (by omega)).1 (by omega)
        unfold cEnd; exact this
    · show nextArr cfg H (rs.drop k) now < now + (((checkBusActivity st.s now _).p.tokenLostTimeout : Nat) : Int)
      rw [f2]
      cases hdr : rs.drop k with
      | nil =>
        unfold nextArr
        simp only
        have hrsk : rs.take k = rs := take_of_drop_nil rs k hdr
        have hrsne : rs ≠ [] := by intro e; rw [e] at hk; simp only [List.length_nil] at hk; omega
        obtain ⟨tl, htl⟩ : ∃ tl, rs.getLast? = some tl := by
          cases hg : rs.getLast? with
          | none => exact absurd (List.getLast?_eq_none_iff.1 hg) hrsne
          | some tl => exact ⟨tl, rfl⟩
        have hHb := hH tl (by rw [h1, List.getLast?_append, htl]; rfl)
        have hmem : tl ∈ rs := List.mem_of_getLast? htl
        have hfo := hfull tl (by rw [hrsk]; exact hmem)
        have hpo := (hw tl hmem).2.2
        have := (cvis_spec cfg tl now (tl.bytes.length - 1) (by omega)).1 (by omega)
        unfold cEnd at hHb
        omega
      | cons t rest =>
        have := nextArr_after cfg hr H t rest now (hhead t rest hdr).1
          (hstart t (by rw [h1]; apply List.mem_append_right; apply List.mem_of_mem_drop (i := k); rw [hdr]; simp))
        omega

end PV
