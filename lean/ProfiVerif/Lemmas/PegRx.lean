/-
Regular expressions over rule names (the words are the rule names of the children of a pest pair),
Brzozowski derivatives, and the soundness half of derivative matching:
`(derivs w e).nullable → Lang e w`.  Grammar-independent (only the type `Rule` is used).
-/
import ProfiVerif.Model.Gsd.Peg

namespace PV.Gsd.Peg

inductive Rx where
  | empty | eps | top
  | sym (r : Rule)
  | seq (a b : Rx)
  | alt (a b : Rx)
  | star (a : Rx)
  deriving DecidableEq, Repr, Inhabited

/-- The language of a regular expression (`top` = every word). -/
inductive Lang : Rx → List Rule → Prop
  | eps : Lang .eps []
  | top (w : List Rule) : Lang .top w
  | sym (r : Rule) : Lang (.sym r) [r]
  | seq {a b : Rx} {u v : List Rule} : Lang a u → Lang b v → Lang (.seq a b) (u ++ v)
  | altL {a b : Rx} {w : List Rule} : Lang a w → Lang (.alt a b) w
  | altR {a b : Rx} {w : List Rule} : Lang b w → Lang (.alt a b) w
  | starNil {a : Rx} : Lang (.star a) []
  | starCons {a : Rx} {u v : List Rule} : Lang a u → Lang (.star a) v → Lang (.star a) (u ++ v)

namespace Rx

def nullable : Rx → Bool
  | .empty => false
  | .eps => true
  | .top => true
  | .sym _ => false
  | .seq a b => a.nullable && b.nullable
  | .alt a b => a.nullable || b.nullable
  | .star _ => true

/-- Sequence with the obvious simplifications (keeps the set of derivatives small). -/
def mkSeq (a b : Rx) : Rx :=
  if a = .empty then .empty
  else if b = .empty then .empty
  else if a = .eps then b
  else if b = .eps then a
  else .seq a b

def mkAlt (a b : Rx) : Rx :=
  if a = .empty then b
  else if b = .empty then a
  else if a = b then a
  else .alt a b

def deriv (c : Rule) : Rx → Rx
  | .empty => .empty
  | .eps => .empty
  | .top => .top
  | .sym r => if r = c then .eps else .empty
  | .seq a b => if a.nullable then mkAlt (mkSeq (a.deriv c) b) (b.deriv c) else mkSeq (a.deriv c) b
  | .alt a b => mkAlt (a.deriv c) (b.deriv c)
  | .star a => mkSeq (a.deriv c) (.star a)

def derivs (w : List Rule) (e : Rx) : Rx := w.foldl (fun e c => e.deriv c) e

@[simp] theorem derivs_nil (e : Rx) : derivs [] e = e := rfl
@[simp] theorem derivs_cons (c : Rule) (w : List Rule) (e : Rx) : derivs (c :: w) e = derivs w (e.deriv c) := rfl
theorem derivs_append (u v : List Rule) (e : Rx) : derivs (u ++ v) e = derivs v (derivs u e) := by
  simp [derivs, List.foldl_append]

/-- `seqs [a, b, …]`, `alts [a, b, …]` for writing expressions down. -/
def seqs : List Rx → Rx
  | [] => .eps
  | [e] => e
  | e :: rest => .seq e (seqs rest)

def alts : List Rx → Rx
  | [] => .empty
  | [e] => e
  | e :: rest => .alt e (alts rest)

def opt (e : Rx) : Rx := .alt .eps e

end Rx

open Rx

theorem lang_of_nullable : ∀ e : Rx, e.nullable = true → Lang e []
  | .empty, h => by simp [nullable] at h
  | .eps, _ => .eps
  | .top, _ => .top []
  | .sym _, h => by simp [nullable] at h
  | .seq a b, h => by
    simp only [nullable, Bool.and_eq_true] at h
    exact Lang.seq (u := []) (v := []) (lang_of_nullable a h.1) (lang_of_nullable b h.2)
  | .alt a b, h => by
    simp only [nullable, Bool.or_eq_true] at h
    cases h with
    | inl h => exact .altL (lang_of_nullable a h)
    | inr h => exact .altR (lang_of_nullable b h)
  | .star _, _ => .starNil

theorem lang_empty {w : List Rule} (h : Lang .empty w) : False := by cases h

theorem lang_mkSeq {a b : Rx} {w : List Rule} (h : Lang (mkSeq a b) w) : Lang (.seq a b) w := by
  unfold mkSeq at h
  split at h
  · exact (lang_empty h).elim
  split at h
  · exact (lang_empty h).elim
  split at h
  · next ha => subst ha; exact Lang.seq (u := []) .eps h
  split at h
  · next hb => subst hb; have := Lang.seq (v := []) h .eps; simpa using this
  · exact h

theorem lang_mkAlt {a b : Rx} {w : List Rule} (h : Lang (mkAlt a b) w) : Lang (.alt a b) w := by
  unfold mkAlt at h
  split at h
  · exact .altR h
  split at h
  · exact .altL h
  split at h
  · exact .altL h
  · exact h

theorem lang_deriv (c : Rule) : ∀ (e : Rx) (w : List Rule), Lang (e.deriv c) w → Lang e (c :: w)
  | .empty, _, h => (lang_empty h).elim
  | .eps, _, h => (lang_empty h).elim
  | .top, w, _ => .top _
  | .sym r, w, h => by
    simp only [deriv] at h
    split at h
    · next hr => subst hr; cases h; exact .sym _
    · exact (lang_empty h).elim
  | .seq a b, w, h => by
    simp only [deriv] at h
    split at h
    · next hn =>
      cases lang_mkAlt h with
      | altL h1 =>
        cases lang_mkSeq h1 with
        | seq hu hv => exact Lang.seq (u := c :: _) (lang_deriv c a _ hu) hv
      | altR h2 => exact Lang.seq (u := []) (lang_of_nullable a hn) (lang_deriv c b _ h2)
    · cases lang_mkSeq h with
      | seq hu hv => exact Lang.seq (u := c :: _) (lang_deriv c a _ hu) hv
  | .alt a b, w, h => by
    simp only [deriv] at h
    cases lang_mkAlt h with
    | altL h1 => exact .altL (lang_deriv c a _ h1)
    | altR h2 => exact .altR (lang_deriv c b _ h2)
  | .star a, w, h => by
    simp only [deriv] at h
    cases lang_mkSeq h with
    | seq hu hv => exact Lang.starCons (u := c :: _) (lang_deriv c a _ hu) hv

/-- Soundness of derivative matching. -/
theorem lang_of_derivs : ∀ (w : List Rule) (e : Rx), (derivs w e).nullable = true → Lang e w
  | [], e, h => lang_of_nullable e h
  | c :: w, e, h => lang_deriv c e w (lang_of_derivs w (e.deriv c) h)

/-! ### Inversion lemmas used by the per-rule `toAst` proofs -/

theorem lang_sym_inv {r : Rule} {w : List Rule} (h : Lang (.sym r) w) : w = [r] := by cases h; rfl

theorem lang_eps_inv {w : List Rule} (h : Lang .eps w) : w = [] := by cases h; rfl

theorem lang_seq_inv {a b : Rx} {w : List Rule} (h : Lang (.seq a b) w) :
    ∃ u v, w = u ++ v ∧ Lang a u ∧ Lang b v := by
  cases h with
  | seq hu hv => exact ⟨_, _, rfl, hu, hv⟩

theorem lang_alt_inv {a b : Rx} {w : List Rule} (h : Lang (.alt a b) w) : Lang a w ∨ Lang b w := by
  cases h with
  | altL h => exact .inl h
  | altR h => exact .inr h

/-- A word of `(a)*` is a concatenation of words of `a`: every element satisfies whatever every
one-letter-or-longer word of `a` guarantees for its letters. -/
theorem lang_star_all {a : Rx} {P : Rule → Prop} (ha : ∀ u, Lang a u → ∀ x ∈ u, P x) :
    ∀ {w : List Rule}, Lang (.star a) w → ∀ x ∈ w, P x := by
  intro w h
  generalize he : Rx.star a = e at h
  induction h with
  | starNil => intro x hx; cases hx
  | starCons hu _ _ ih2 =>
    cases he
    intro x hx
    rcases List.mem_append.mp hx with hx | hx
    · exact ha _ hu x hx
    · exact ih2 rfl x hx
  | eps => cases he
  | top => cases he
  | sym => cases he
  | seq => cases he
  | altL => cases he
  | altR => cases he

/-! ### First letters (to show that the branch `toAst` takes by looking at the next child is the
branch the word took) -/

theorem Rule.mem_all (r : Rule) : r ∈ Rule.all := by cases r <;> decide

def Rx.firsts : Rx → List Rule
  | .empty => []
  | .eps => []
  | .top => Rule.all
  | .sym r => [r]
  | .seq a b => if a.nullable then a.firsts ++ b.firsts else a.firsts
  | .alt a b => a.firsts ++ b.firsts
  | .star a => a.firsts

theorem nullable_of_lang {e : Rx} {w : List Rule} (h : Lang e w) : w = [] → e.nullable = true := by
  induction h with
  | eps => intro _; rfl
  | top => intro _; rfl
  | sym => intro h; cases h
  | seq _ _ ih1 ih2 =>
    intro h
    obtain ⟨h1, h2⟩ := List.append_eq_nil_iff.mp h
    simp [nullable, ih1 h1, ih2 h2]
  | altL _ ih => intro h; simp [nullable, ih h]
  | altR _ ih => intro h; simp [nullable, ih h]
  | starNil => intro _; rfl
  | starCons => intro _; rfl

theorem firsts_spec {e : Rx} {w : List Rule} (h : Lang e w) :
    ∀ (x : Rule) (v : List Rule), w = x :: v → x ∈ e.firsts := by
  induction h with
  | eps => intro x v h; cases h
  | top => intro x v _; exact Rule.mem_all x
  | sym r => intro x v h; cases h; simp [Rx.firsts]
  | @seq a b u v' hu _ ih1 ih2 =>
    intro x t h
    simp only [Rx.firsts]
    cases u with
    | nil =>
      have hn := nullable_of_lang hu rfl
      simp only [hn, if_true]
      exact List.mem_append.mpr (.inr (ih2 x t (by simpa using h)))
    | cons y u' =>
      have hy : y = x := by simpa using congrArg List.head? h
      have := ih1 y u' rfl
      subst hy
      split
      · exact List.mem_append.mpr (.inl this)
      · exact this
  | altL _ ih => intro x v h; exact List.mem_append.mpr (.inl (ih x v h))
  | altR _ ih => intro x v h; exact List.mem_append.mpr (.inr (ih x v h))
  | starNil => intro x v h; cases h
  | @starCons a u v' _ _ ih1 ih2 =>
    intro x t h
    cases u with
    | nil => exact ih2 x t (by simpa using h)
    | cons y u' =>
      have hy : y = x := by simpa using congrArg List.head? h
      subst hy
      exact ih1 y u' rfl

end PV.Gsd.Peg
