/-
Helper lemmas for the LAS (C02): pointwise semantics of LAS updates and the effect of one full
token rotation.
-/
import ProfiVerif.Model.TokenRing

namespace PV
namespace TokenRing

/-- Pointwise effect of a witnessed/own token pass on one LAS bit. -/
def passBit (sa da a : Nat) (old : Bool) : Bool :=
  if a = sa then true else if inPassGap sa da a then false else old

/-- Token passes of one rotation through the stations `l` (ascending), the last one wrapping to `first`. -/
def rotGo (first : Nat) : List Nat → List (Nat × Nat)
  | [] => []
  | [x] => [(x, first)]
  | x :: y :: t => (x, y) :: rotGo first (y :: t)

/-- One full rotation of the ring `S` (ascending list of member addresses). -/
def rotation (S : List Nat) : List (Nat × Nat) :=
  match S with
  | [] => []
  | s0 :: _ => rotGo s0 S

def bitAfter (ps : List (Nat × Nat)) (a : Nat) (old : Bool) : Bool :=
  ps.foldl (fun b p => passBit p.1 p.2 a b) old

/-- Strictly ascending. -/
def Asc : List Nat → Prop
  | [] => True
  | [_] => True
  | x :: y :: t => x < y ∧ Asc (y :: t)

theorem asc_tail (x : Nat) (l : List Nat) (h : Asc (x :: l)) : Asc l := by
  cases l with
  | nil => trivial
  | cons y t => exact h.2

theorem asc_lt (x : Nat) (l : List Nat) (h : Asc (x :: l)) : ∀ z ∈ l, x < z := by
  induction l generalizing x with
  | nil => intro z hz; cases hz
  | cons y t ih =>
    intro z hz
    simp at hz
    rcases hz with rfl | hz
    · exact h.1
    · have := ih y h.2 z hz; have := h.1; omega

theorem bitAfter_rotGo (first : Nat) (t : List Nat) :
    ∀ (x : Nat), Asc (x :: t) → first ≤ x → ∀ (a : Nat) (old : Bool),
      bitAfter (rotGo first (x :: t)) a old =
        if a ≥ x then decide (a ∈ x :: t) else if a < first then false else old := by
  induction t with
  | nil =>
    intro x hasc hf a old
    simp only [rotGo, bitAfter, List.foldl, passBit, inPassGap]
    have hda : ¬ (first > x) := by omega
    simp only [hda, if_false]
    by_cases h1 : a = x
    · simp [h1]
    · by_cases h2 : x ≤ a
      · have : a ≥ x := h2
        simp [h1, h2, this]
      · have h3 : ¬ a ≥ x := h2
        by_cases h4 : a < first
        · simp [h1, h2, h3, h4]
        · simp [h1, h2, h3, h4]
  | cons y t' ih =>
    intro x hasc hf a old
    have hxy : x < y := hasc.1
    have hlt := asc_lt y t' hasc.2
    simp only [rotGo, bitAfter, List.foldl]
    have := ih y hasc.2 (by omega) a (passBit x y a old)
    simp only [bitAfter] at this
    rw [this]
    simp only [passBit, inPassGap, hxy, if_true]
    by_cases c1 : a ≥ y
    · have : a ≥ x := by omega
      have hne : a ≠ x := by omega
      simp [c1, this, hne]
    · by_cases c2 : a ≥ x
      · have hnf : ¬ a < first := by omega
        by_cases c3 : a = x
        · subst c3
          have e : ¬ (y ≤ a) := by omega
          simp [c1, e, hnf]
        · have hny : a ≠ y := by omega
          have hnt : a ∉ t' := fun hm => by have := hlt a hm; omega
          have hlt2 : a < y := by omega
          simp [c1, c2, c3, hnf, hny, hnt, hlt2]
      · have hne : a ≠ x := by omega
        by_cases c4 : a < first
        · simp [c1, c2, c4]
        · have : ¬ (x ≤ a) := by omega
          simp [c1, c2, c4, hne, this]

/-- After one full rotation of ring `S` every LAS bit equals membership in `S`, whatever it was before. -/
theorem bitAfter_rotation (S : List Nat) (hS : S ≠ []) (hasc : Asc S) (a : Nat) (old : Bool) :
    bitAfter (rotation S) a old = decide (a ∈ S) := by
  cases S with
  | nil => exact absurd rfl hS
  | cons s0 t =>
    simp only [rotation]
    rw [bitAfter_rotGo s0 t s0 hasc (by omega) a old]
    by_cases h : a ≥ s0
    · simp [h]
    · have h1 : a < s0 := by omega
      have hne : a ≠ s0 := by omega
      have hnt : a ∉ t := fun hm => by have := asc_lt s0 t hasc a hm; omega
      simp [h, h1, hne, hnt]

theorem isActive_lt (r : TokenRing) (a : Nat) (h : r.isActive a = true) : a < 128 := by
  unfold isActive at h
  split at h
  · assumption
  · cases h

/-- `update_next_previous` does not touch the LAS. -/
theorem updateNextPrev_active (r : TokenRing) (a : Nat) : (updateNextPrev r).isActive a = r.isActive a := by
  simp [updateNextPrev, isActive]

theorem updateNextPrev_las (r : TokenRing) : (updateNextPrev r).las = r.las ∧ (updateNextPrev r).ts = r.ts := by
  simp [updateNextPrev]

theorem updateLas_active (r : TokenRing) (sa da a : Nat) (ha : a < 128) :
    (r.updateLas sa da).isActive a = passBit sa da a (r.isActive a) := by
  unfold updateLas
  rw [updateNextPrev_active]
  simp [isActive, ha, passBit]

theorem updateLas_las (r : TokenRing) (sa da : Nat) : (r.updateLas sa da).las = r.las ∧ (r.updateLas sa da).ts = r.ts := by
  unfold updateLas
  exact updateNextPrev_las _

/-- Guards: passes from or to addresses above 125 are ignored. -/
theorem witness_ignores_invalid (r : TokenRing) (sa da : Nat) (h : sa > 125 ∨ da > 125) : r.witness sa da = r := by
  unfold witness
  rcases h with h | h
  · simp [h]
  · by_cases h2 : sa > 125 <;> simp [h, h2]


/-- Witness a sequence of token passes. -/
def witnessAll (r : TokenRing) (ps : List (Nat × Nat)) : TokenRing :=
  ps.foldl (fun r p => r.witness p.1 p.2) r

/-- The LAS equals the set `S` (as a list). -/
def LasIs (r : TokenRing) (S : List Nat) : Prop := ∀ a, a < 128 → r.isActive a = decide (a ∈ S)

theorem witness_discovery (r : TokenRing) (sa da : Nat) (hd : r.las = .discovery)
    (hsa : sa ≤ 125) (hda : da ≤ 125) :
    (∀ a, a < 128 → (r.witness sa da).isActive a = passBit sa da a (r.isActive a)) ∧
    (r.witness sa da).las = (if da ≤ sa then .verification else .discovery) ∧ (r.witness sa da).ts = r.ts := by
  have hu := updateLas_las r sa da
  unfold witness
  rw [if_neg (by omega), if_neg (by omega), hd]
  simp only
  by_cases hw : da ≤ sa
  · simp only [hw, if_true]
    refine ⟨fun a ha => ?_, by simp, hu.2⟩
    show (r.updateLas sa da).isActive a = _
    exact updateLas_active r sa da a ha
  · simp only [hw, if_false]
    exact ⟨fun a ha => updateLas_active r sa da a ha, by rw [hu.1, hd], hu.2⟩

theorem rotGo_bounds (first : Nat) (l : List Nat) (hf : first ≤ 125) (hl : ∀ z ∈ l, z ≤ 125) :
    ∀ p ∈ rotGo first l, p.1 ≤ 125 ∧ p.2 ≤ 125 := by
  induction l with
  | nil => intro p hp; simp [rotGo] at hp
  | cons x t ih =>
    cases t with
    | nil =>
      intro p hp
      simp [rotGo] at hp
      subst hp
      exact ⟨hl x (by simp), hf⟩
    | cons y t' =>
      intro p hp
      simp only [rotGo, List.mem_cons] at hp
      rcases hp with rfl | hp
      · exact ⟨hl x (by simp), hl y (by simp)⟩
      · exact ih (fun z hz => hl z (by simp [hz])) p (by simpa [rotGo] using hp)

/-- In a rotation only the last pass wraps (`da ≤ sa`). -/
theorem rotGo_discovery (first : Nat) (t : List Nat) :
    ∀ (x : Nat) (r : TokenRing), Asc (x :: t) → first ≤ x → first ≤ 125 → (∀ z ∈ x :: t, z ≤ 125) →
      r.las = .discovery →
      (∀ a, a < 128 → (witnessAll r (rotGo first (x :: t))).isActive a = bitAfter (rotGo first (x :: t)) a (r.isActive a)) ∧
      (witnessAll r (rotGo first (x :: t))).las = .verification ∧ (witnessAll r (rotGo first (x :: t))).ts = r.ts := by
  induction t with
  | nil =>
    intro x r _ hf hf1 hb hd
    have hw := witness_discovery r x first hd (hb x (by simp)) hf1
    simp only [rotGo, witnessAll, List.foldl, bitAfter]
    refine ⟨hw.1, ?_, hw.2.2⟩
    rw [hw.2.1, if_pos hf]
  | cons y t' ih =>
    intro x r hasc hf hf1 hb hd
    have hxy : x < y := hasc.1
    have hw := witness_discovery r x y hd (hb x (by simp)) (hb y (by simp))
    have hd' : (r.witness x y).las = .discovery := by rw [hw.2.1, if_neg (by omega)]
    have := ih y (r.witness x y) hasc.2 (by omega) hf1 (fun z hz => hb z (by simp [hz])) hd'
    simp only [rotGo, witnessAll, List.foldl, bitAfter] at this ⊢
    refine ⟨fun a ha => ?_, this.2.1, by rw [this.2.2, hw.2.2]⟩
    rw [this.1 a ha, hw.1 a ha]

/-- **Discovery.** A station in `Discovery` that witnesses one full rotation of the ring `S` knows
exactly `S` afterwards — whatever stale entries its LAS held — and starts verifying. -/
theorem discovery_learns (r : TokenRing) (S : List Nat) (hS : S ≠ []) (hasc : Asc S) (hb : ∀ z ∈ S, z ≤ 125)
    (hd : r.las = .discovery) :
    LasIs (witnessAll r (rotation S)) S ∧ (witnessAll r (rotation S)).las = .verification := by
  cases S with
  | nil => exact absurd rfl hS
  | cons s0 t =>
    have h := rotGo_discovery s0 t s0 r hasc (by omega) (hb s0 (by simp)) hb hd
    simp only [rotation]
    refine ⟨fun a ha => ?_, h.2.1⟩
    rw [h.1 a ha]
    have := bitAfter_rotation (s0 :: t) (by simp) hasc a (r.isActive a)
    simpa [rotation] using this


theorem verifyLas_true (r : TokenRing) (sa da : Nat) (h1 : r.isActive sa = true) (h2 : r.isActive da = true)
    (hb : ∀ a, a < 128 → (if da > sa then sa + 1 ≤ a ∧ a < da else sa + 1 ≤ a ∨ a < da) → r.isActive a = false) :
    r.verifyLas sa da = true := by
  unfold verifyLas
  simp only [h1, h2, Bool.and_self, Bool.true_and]
  by_cases hw : da > sa
  · simp only [hw, if_true] at hb ⊢
    rw [List.all_eq_true]
    intro a ha
    have ha' : a < 128 := by simpa using ha
    by_cases hc : sa + 1 ≤ a ∧ a < da
    · simp [hb a ha' hc]
    · simp [hc]
  · simp only [hw, if_false] at hb ⊢
    rw [List.all_eq_true]
    intro a ha
    have ha' : a < 128 := by simpa using ha
    by_cases hc : sa + 1 ≤ a ∨ a < da
    · simp [hb a ha' hc]
    · simp [hc]

theorem lasIs_mem (r : TokenRing) (S : List Nat) (h : LasIs r S) (hb : ∀ z ∈ S, z ≤ 125) (a : Nat) :
    r.isActive a = true ↔ a ∈ S := by
  constructor
  · intro ha
    have := h a (isActive_lt r a ha)
    rw [ha] at this
    simpa using this.symm
  · intro ha
    have := h a (by have := hb a ha; omega)
    simpa [ha] using this

/-- **Verification.** A station in `Verification` whose LAS is exactly `S` and that witnesses one more
rotation of `S` finds every pass consistent and declares the LAS valid at the wrap — the "two
identical rotations". -/
theorem rotGo_verification (S : List Nat) (first : Nat) (hfS : first ∈ S) (hmin : ∀ z ∈ S, first ≤ z)
    (hb : ∀ z ∈ S, z ≤ 125) (t : List Nat) :
    ∀ (x : Nat) (r : TokenRing), Asc (x :: t) → (∀ z ∈ x :: t, z ∈ S) → (∀ z ∈ S, z < x ∨ z ∈ x :: t) →
      LasIs r S → r.las = .verification →
      witnessAll r (rotGo first (x :: t)) = { r with las := .valid } := by
  induction t with
  | nil =>
    intro x r _ hsub hcov hl hv
    have hx : x ∈ S := hsub x (by simp)
    have hfx : first ≤ x := hmin x hx
    simp only [rotGo, witnessAll, List.foldl]
    unfold witness
    rw [if_neg (by have := hb x hx; omega), if_neg (by have := hb first hfS; omega), hv]
    have hver : r.verifyLas x first = true := by
      apply verifyLas_true
      · exact (lasIs_mem r S hl hb x).mpr hx
      · exact (lasIs_mem r S hl hb first).mpr hfS
      · intro a ha hc
        have hng : ¬ (first > x) := by omega
        simp only [hng, if_false] at hc
        cases hact : r.isActive a with
        | false => rfl
        | true =>
          have hm := (lasIs_mem r S hl hb a).mp hact
          rcases hc with hc | hc
          · rcases hcov a hm with h | h
            · omega
            · simp at h; omega
          · have := hmin a hm; omega
    simp [hver, hfx]
  | cons y t' ih =>
    intro x r hasc hsub hcov hl hv
    have hxy : x < y := hasc.1
    have hx : x ∈ S := hsub x (by simp)
    have hy : y ∈ S := hsub y (by simp)
    have hlt := asc_lt y t' hasc.2
    simp only [rotGo, witnessAll, List.foldl]
    have hstep : r.witness x y = r := by
      unfold witness
      rw [if_neg (by have := hb x hx; omega), if_neg (by have := hb y hy; omega), hv]
      have hver : r.verifyLas x y = true := by
        apply verifyLas_true
        · exact (lasIs_mem r S hl hb x).mpr hx
        · exact (lasIs_mem r S hl hb y).mpr hy
        · intro a ha hc
          simp only [hxy, if_true] at hc
          cases hact : r.isActive a with
          | false => rfl
          | true =>
            have hm := (lasIs_mem r S hl hb a).mp hact
            rcases hcov a hm with h | h
            · omega
            · simp at h
              rcases h with h | h | h
              · omega
              · omega
              · have := hlt a h; omega
      have : ¬ (y ≤ x) := by omega
      simp [hver, this]
    rw [hstep]
    have := ih y r hasc.2 (fun z hz => hsub z (by simp [hz]))
      (fun z hz => by
        rcases hcov z hz with h | h
        · left; omega
        · simp at h
          rcases h with h | h | h
          · left; omega
          · right; simp [h]
          · right; simp [h]) hl hv
    simpa [witnessAll] using this


theorem witness_valid (r : TokenRing) (sa da : Nat) (hv : r.las = .valid) (hsa : sa ≤ 125) (hda : da ≤ 125) :
    r.witness sa da = r.updateLas sa da := by
  unfold witness
  rw [if_neg (by omega), if_neg (by omega), hv]

/-- **Stability.** In `Valid` with LAS = `S`, further rotations of `S` change nothing. -/
theorem rotGo_valid (S : List Nat) (first : Nat) (hfS : first ∈ S) (hmin : ∀ z ∈ S, first ≤ z)
    (hb : ∀ z ∈ S, z ≤ 125) (t : List Nat) :
    ∀ (x : Nat) (r : TokenRing), Asc (x :: t) → (∀ z ∈ x :: t, z ∈ S) → (∀ z ∈ S, z < x ∨ z ∈ x :: t) →
      LasIs r S → r.las = .valid →
      LasIs (witnessAll r (rotGo first (x :: t))) S ∧ (witnessAll r (rotGo first (x :: t))).las = .valid := by
  induction t with
  | nil =>
    intro x r _ hsub hcov hl hv
    have hx : x ∈ S := hsub x (by simp)
    have hfx : first ≤ x := hmin x hx
    simp only [rotGo, witnessAll, List.foldl]
    rw [witness_valid r x first hv (hb x hx) (hb first hfS)]
    refine ⟨fun a ha => ?_, by rw [(updateLas_las r x first).1, hv]⟩
    rw [updateLas_active r x first a ha, hl a ha]
    unfold passBit inPassGap
    have hng : ¬ (first > x) := by omega
    simp only [hng, if_false]
    by_cases h1 : a = x
    · simp [h1, hx]
    · by_cases h2 : x ≤ a ∨ a < first
      · have : a ∉ S := by
          intro hm
          rcases h2 with h2 | h2
          · rcases hcov a hm with h | h
            · omega
            · simp at h; omega
          · have := hmin a hm; omega
        simp [h1, h2, this]
      · simp [h1, h2]
  | cons y t' ih =>
    intro x r hasc hsub hcov hl hv
    have hxy : x < y := hasc.1
    have hx : x ∈ S := hsub x (by simp)
    have hy : y ∈ S := hsub y (by simp)
    have hlt := asc_lt y t' hasc.2
    simp only [rotGo, witnessAll, List.foldl]
    rw [witness_valid r x y hv (hb x hx) (hb y hy)]
    have hl' : LasIs (r.updateLas x y) S := by
      intro a ha
      rw [updateLas_active r x y a ha, hl a ha]
      unfold passBit inPassGap
      simp only [hxy, if_true]
      by_cases h1 : a = x
      · simp [h1, hx]
      · by_cases h2 : x ≤ a ∧ a < y
        · have : a ∉ S := by
            intro hm
            rcases hcov a hm with h | h
            · omega
            · simp at h
              rcases h with h | h | h
              · omega
              · omega
              · have := hlt a h; omega
          simp [h1, h2, this]
        · simp [h1, h2]
    have hv' : (r.updateLas x y).las = .valid := by rw [(updateLas_las r x y).1, hv]
    have := ih y (r.updateLas x y) hasc.2 (fun z hz => hsub z (by simp [hz]))
      (fun z hz => by
        rcases hcov z hz with h | h
        · left; omega
        · simp at h
          rcases h with h | h | h
          · left; omega
          · right; simp [h]
          · right; simp [h]) hl' hv'
    simpa [witnessAll] using this

end TokenRing
end PV
