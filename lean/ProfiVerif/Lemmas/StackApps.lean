/-
FDL ∘ LiveList / FDL ∘ DpScanner: the station model (`Model/Station.lean`) with ONE application that
is the live-list or the DP-scanner model (`Model/LiveList.lean`, `Model/Scanner.lean`, both instances
of `Apps.App` over the shared `Sweep` state) instead of an answer script.

Same construction as `Model/Stack.lean` (FDL ∘ DP), with one difference: `handle_timeout` of these
applications CHANGES their state (`current_address_done = true`), and `do_await_data_response` asks
the application again in the same poll right after the time-out (`C15.ask_after_timeout_same_poll`).
A poll that starts in `AwaitDataResponse` can only ask after a time-out, so the one-element script of
such a poll is the answer the application gives AFTER the time-out (`preState`).  As in
`Model/Stack.lean`, the replay checks at the `transmit_telegram` record that the answer the station
used is what the application returns there (`.mismatch` otherwise, proved unreachable).

Results: `apps_log_is_contract_history` (the callbacks of every composed run are a history of
`Lemmas/Apps.lean`: never `.refused`) and `apps_run_total` (every run is regular).
-/
import ProfiVerif.Lemmas.Apps
import ProfiVerif.Lemmas.StackTotal

namespace PV.StackApps
open PV PV.Apps

variable {ε : Type}

/-! ## The composed system -/

structure State (ε : Type) where
  s : Station
  a : Sweep ε
  rx : Bytes

inductive Res (α : Type)
  | ok (a : α)
  | stationPanic (site : String)
  | appPanic
  | mismatch

@[inline] def Res.bind {α β : Type} (r : Res α) (f : α → Res β) : Res β :=
  match r with
  | .ok a => f a
  | .stationPanic s => .stationPanic s
  | .appPanic => .appPanic
  | .mismatch => .mismatch

theorem bind_ok {α β : Type} {r : Res α} {f : α → Res β} {b : β} (h : r.bind f = .ok b) :
    ∃ a, r = .ok a ∧ f a = .ok b := by
  cases r <;> simp only [Res.bind] at h <;> first | exact ⟨_, rfl, h⟩ | cases h

/-- What the application answers to `transmit_telegram`: the request `hdr q own` (empty PDU) to the
cursor address `q`, or nothing.  (`hdr` = `fdlStatusRequestHeader` for the live list,
`Scanner.diagRequestHeader` for the scanner: `LiveList.transmit` / `Scanner.transmit`.) -/
def answer (hdr : UInt8 → UInt8 → Header) (own : UInt8) (a : Sweep ε) : AppAnswer :=
  match a.transmit with
  | (_, some q) => .send (hdr (UInt8.ofNat q) own) []
  | (_, none) => .decline

def callback (A : App ε) (hdr : UInt8 → UInt8 → Header) (own : UInt8) (a : Sweep ε) : AppCall → Res (Sweep ε × Op)
  | .transmit _ _ ans =>
    match a.transmit with
    | (a', some q) => if ans = .send (hdr (UInt8.ofNat q) own) [] then .ok (a', .tx) else .mismatch
    | (a', none) => if ans = .decline then .ok (a', .tx) else .mismatch
  | .reply _ x t =>
    match A.reply a x t with
    | .ok a' => .ok (a', .reply x t)
    | .panic => .appPanic
  | .timeout _ x =>
    match a.handleTimeout A.lost x with
    | .ok a' => .ok (a', .timeout x)
    | .panic => .appPanic

def replay (A : App ε) (hdr : UInt8 → UInt8 → Header) (own : UInt8) : Sweep ε → List AppCall → Res (Sweep ε × List Op)
  | a, [] => .ok (a, [])
  | a, c :: rest =>
    (callback A hdr own a c).bind fun r1 =>
    (replay A hdr own r1.1 rest).bind fun r2 => .ok (r2.1, r1.2 :: r2.2)

/-- The application state in which it would be asked in this poll: after the time-out if the station
awaits a reply (then only a time-out can precede the question), else the current one. -/
def preState (A : App ε) (k : State ε) : Sweep ε :=
  match k.s.st with
  | .awaitData x _ =>
    match k.a.handleTimeout A.lost x with
    | .ok a' => a'
    | .panic => k.a
  | _ => k.a

def own8 (k : State ε) : UInt8 := UInt8.ofNat k.s.p.address

def poll (A : App ε) (hdr : UInt8 → UInt8 → Header) (k : State ε) (now : Int) (phy : Bool) (arrived : Bytes) :
    Res (State ε × List Op) :=
  match k.s.poll [[answer hdr (own8 k) (preState A k)]] now phy (k.rx ++ arrived) with
  | .panic site => .stationPanic site
  | .ok c => (replay A hdr (own8 k) k.a c.calls).bind fun r => .ok ({ s := c.s, a := r.1, rx := c.rx }, r.2)

inductive Call
  | poll (now : Int) (phy : Bool) (arrived : Bytes)
  | setOnline
  | setOffline
  | take

def step (A : App ε) (hdr : UInt8 → UInt8 → Header) (k : State ε) : Call → Res (State ε × List Op)
  | .poll now phy arrived => poll A hdr k now phy arrived
  | .setOnline => .ok ({ k with s := k.s.setOnline }, [])
  | .setOffline => .ok ({ k with s := k.s.setOffline }, [])
  | .take => .ok ({ k with a := k.a.takeLastEvent.1 }, [.take])

def run (A : App ε) (hdr : UInt8 → UInt8 → Header) (k : State ε) : List Call → Res (State ε × List Op)
  | [] => .ok (k, [])
  | c :: rest => (step A hdr k c).bind fun r1 => (run A hdr r1.1 rest).bind fun r2 => .ok (r2.1, r1.2 ++ r2.2)

def init (p : Params) : State ε := { s := Station.new p, a := Sweep.init, rx := [] }

/-- What the composition needs to know about the request builder. -/
structure HdrOk (hdr : UInt8 → UInt8 → Header) : Prop where
  expects : ∀ da sa, expectsReplyOf (hdr da sa) = some da
  len : ∀ da sa, (hdr da sa).lengthByte 0 ≤ 249

theorem llHdr_ok : HdrOk fdlStatusRequestHeader :=
  ⟨fun _ _ => rfl, fun _ _ => by simp [Header.lengthByte, Header.saps, fdlStatusRequestHeader]⟩

theorem scHdr_ok : HdrOk Scanner.diagRequestHeader :=
  ⟨fun _ _ => rfl, fun _ _ => by simp [Header.lengthByte, Header.saps, Scanner.diagRequestHeader, SAP_SLAVE_DIAGNOSIS, SAP_MASTER_MS0]⟩

/-! ## Histories -/

theorem grun_append {A : App ε} {own : Nat} {R : Nat → Bool} : ∀ (l1 l2 : List Op) (g g1 : Ghost ε),
    grun A own R g l1 = .ok g1 → grun A own R g (l1 ++ l2) = grun A own R g1 l2 := by
  intro l1
  induction l1 with
  | nil => intro l2 g g1 h; simp only [grun, Apps.Res.ok.injEq] at h; subst h; rfl
  | cons x xs ih =>
    intro l2 g g1 h
    simp only [grun, List.cons_append] at h ⊢
    cases hs : gstep A own R g x with
    | ok g' => rw [hs] at h; simp only; exact ih l2 g' g1 h
    | panic => rw [hs] at h; cases h
    | refused => rw [hs] at h; cases h

structure Link (A : App ε) (R : Nat → Bool) (k : State ε) (g : Ghost ε) : Prop where
  a : g.s = k.a
  out : ∀ x d, k.s.st = .awaitData x d → g.out = some x
  inv : Apps.Inv A R g
  addr : k.s.p.address < 256

theorem ofNat_toNat_lt {q : Nat} (h : q < 256) : (UInt8.ofNat q).toNat = q := by
  simp [UInt8.toNat_ofNat, Nat.mod_eq_of_lt h]

theorem allowed_of_valid {own x : Nat} {t : Telegram} (hv : validReplyB own x t = true) :
    Apps.replyAllowed own x t = true := by
  cases t with
  | token da sa => simp [validReplyB] at hv
  | sc => rfl
  | data hd pdu =>
    simp only [validReplyB, Bool.and_eq_true, decide_eq_true_eq] at hv
    obtain ⟨⟨e1, e2⟩, e3⟩ := hv
    simp only [Apps.replyAllowed, e1, e2, beq_self_eq_true, Bool.true_and]
    cases hfc : hd.fc with
    | response st stt => rfl
    | request f r => rw [hfc] at e3; simp at e3

/-- One `transmit_telegram` callback of the replay is a `tx` step. -/
theorem callback_tx {A : App ε} {hdr : UInt8 → UInt8 → Header} (hh : HdrOk hdr) {own8 : UInt8} {own : Nat} {R : Nat → Bool}
    {g : Ghost ε} (hI : Struct g) {i : Nat} {hp : Bool} {ans : AppAnswer} {a' : Sweep ε} {x : Op}
    (h : callback A hdr own8 g.s (.transmit i hp ans) = .ok (a', x)) :
    x = .tx ∧ ∃ g', gstep A own R g .tx = .ok g' ∧ g'.s = a' ∧
      (∀ hd pdu b8, ans = .send hd pdu → expectsReplyOf hd = some b8 → g'.out = some b8.toNat) := by
  simp only [callback] at h
  rcases ht : g.s.transmit with ⟨s1, o⟩
  rw [ht] at h
  cases o with
  | none =>
    simp only at h
    by_cases ha : ans = .decline
    · rw [if_pos ha] at h
      simp only [Res.ok.injEq, Prod.mk.injEq] at h
      obtain ⟨rfl, rfl⟩ := h
      refine ⟨rfl, { g with s := s1, out := none, idle := true }, by simp only [gstep, ht], rfl, ?_⟩
      intro hd pdu b8 he; rw [ha] at he; cases he
    · rw [if_neg ha] at h; cases h
  | some q =>
    simp only at h
    by_cases ha : ans = .send (hdr (UInt8.ofNat q) own8) []
    · rw [if_pos ha] at h
      simp only [Res.ok.injEq, Prod.mk.injEq] at h
      obtain ⟨rfl, rfl⟩ := h
      refine ⟨rfl, { g with s := s1, out := some q, lastProbe := some (q, false), idle := false },
        by simp only [gstep, ht], rfl, ?_⟩
      intro hd pdu b8 he hb
      rw [ha] at he
      cases he
      rw [hh.expects] at hb
      cases hb
      -- the probe is the cursor, ≤ 125
      have hq : q ≤ 125 := by
        unfold Sweep.transmit at ht
        split at ht
        · cases ht
        · simp only [Prod.mk.injEq, Option.some.injEq] at ht
          rw [← ht.2]; exact hI.cur
      simp only
      rw [ofNat_toNat_lt (by omega)]
    · rw [if_neg ha] at h; cases h

theorem replay_asks {A : App ε} (hS : A.Spec) {hdr : UInt8 → UInt8 → Header} (hh : HdrOk hdr) {own8 : UInt8} {own : Nat}
    {R : Nat → Bool} : ∀ (new : List AppCall), AskRun new → ∀ (g : Ghost ε) (a' : Sweep ε) (l : List Op),
    Apps.Inv A R g → replay A hdr own8 g.s new = .ok (a', l) →
    ∃ g', grun A own R g l = .ok g' ∧ g'.s = a' ∧ Apps.Inv A R g' ∧ (new = [] → g' = g) ∧
      (∀ pre i hp hd pdu b8, new = pre ++ [.transmit i hp (.send hd pdu)] → expectsReplyOf hd = some b8 →
        g'.out = some b8.toNat) := by
  intro new
  induction new with
  | nil =>
    intro _ g a' l hI h
    simp only [replay, Res.ok.injEq, Prod.mk.injEq] at h
    obtain ⟨rfl, rfl⟩ := h
    refine ⟨g, rfl, rfl, hI, fun _ => rfl, ?_⟩
    intro pre i hp hd pdu b8 he
    simp at he
  | cons c rest ih =>
    intro har g a' l hI h
    simp only [replay] at h
    obtain ⟨⟨a1, x⟩, h1, h⟩ := bind_ok h
    obtain ⟨⟨a2, xs⟩, h2, h⟩ := bind_ok h
    simp only [Res.ok.injEq, Prod.mk.injEq] at h
    obtain ⟨rfl, rfl⟩ := h
    obtain ⟨i, hp, ans, rfl⟩ := har c (List.mem_cons_self ..)
    obtain ⟨rfl, g1, hg1, ha1, hout1⟩ := callback_tx (own := own) (R := R) hh hI.st h1
    have hI1 : Apps.Inv A R g1 :=
      ⟨struct_step hS hI.st _ g1 hg1, track_step hS hI.st hI.tr _ g1 hg1, ev_step hS hI.st hI.ev _ g1 hg1⟩
    subst ha1
    obtain ⟨g2, hg2, ha2, hI2, hnil, hout2⟩ :=
      ih (fun r hr => har r (List.mem_cons_of_mem _ hr)) g1 a2 xs hI1 h2
    refine ⟨g2, ?_, ha2, hI2, (by intro he; cases he), ?_⟩
    · simp only [grun, hg1]
      exact hg2
    · intro pre j hp' hd pdu b8 he hb
      cases pre with
      | nil =>
        simp only [List.nil_append, List.cons.injEq] at he
        obtain ⟨he1, he2⟩ := he
        cases he1
        rw [hnil he2]
        exact hout1 hd pdu b8 rfl hb
      | cons y ys =>
        simp only [List.cons_append, List.cons.injEq] at he
        exact hout2 ys j hp' hd pdu b8 he.2 hb

theorem inv_step' {A : App ε} (hS : A.Spec) {own : Nat} {R : Nat → Bool} {g g' : Ghost ε} (hI : Apps.Inv A R g)
    (op : Op) (h : gstep A own R g op = .ok g') : Apps.Inv A R g' :=
  ⟨struct_step hS hI.st op g' h, track_step hS hI.st hI.tr op g' h, ev_step hS hI.st hI.ev op g' h⟩

/-- **One composed poll**: the callbacks are accepted by the history relation, the link is kept. -/
theorem link_poll {A : App ε} (hS : A.Spec) {hdr : UInt8 → UInt8 → Header} (hh : HdrOk hdr) {R : Nat → Bool}
    {k k' : State ε} {g : Ghost ε} {now : Int} {phy : Bool} {arrived : Bytes} {l : List Op}
    (hL : Link A R k g) (h : poll A hdr k now phy arrived = .ok (k', l)) :
    ∃ g', grun A k.s.p.address R g l = .ok g' ∧ Link A R k' g' ∧ k'.s.p = k.s.p := by
  simp only [poll] at h
  cases hp : k.s.poll [[answer hdr (own8 k) (preState A k)]] now phy (k.rx ++ arrived) with
  | panic site => rw [hp] at h; cases h
  | ok c =>
    rw [hp] at h
    simp only at h
    obtain ⟨⟨a', l'⟩, hrep, h⟩ := bind_ok h
    simp only [Res.ok.injEq, Prod.mk.injEq] at h
    obtain ⟨rfl, rfl⟩ := h
    have hfr := (poll_frame _ _ _ _ _ _ hp).1
    have haddr : c.s.p.address < 256 := by rw [hfr]; exact hL.addr
    rw [← hL.a] at hrep
    rcases poll_calls _ _ _ _ _ _ hp with ⟨hc, hkeep⟩ | ⟨-, -, har, hlink⟩ | ⟨-, x, d, hst, hcase⟩
    · rw [hc] at hrep
      simp only [replay, Res.ok.injEq, Prod.mk.injEq] at hrep
      obtain ⟨rfl, rfl⟩ := hrep
      refine ⟨g, rfl, ⟨rfl, ?_, hL.inv, haddr⟩, hfr⟩
      intro x d hst
      exact hL.out x d (hkeep x d hst).1
    · obtain ⟨g', hg', ha', hI', -, hout⟩ := replay_asks (own := k.s.p.address) hS hh _ har g a' l' hL.inv hrep
      refine ⟨g', hg', ⟨ha', ?_, hI', haddr⟩, hfr⟩
      intro x d hst
      obtain ⟨pre, hp', hd, pdu, a8, e1, e2, e3⟩ := hlink x d hst
      rw [hout pre _ hp' hd pdu a8 e1 e2, e3]
    · have hout := hL.out x d hst
      rcases hcase with ⟨tg, hv, hc, hs'⟩ | ⟨new, hc, har, hlink⟩
      · rw [hc] at hrep
        simp only [replay] at hrep
        obtain ⟨⟨a1, y⟩, h1, hrep⟩ := bind_ok hrep
        simp only [Res.bind, Res.ok.injEq, Prod.mk.injEq] at hrep
        obtain ⟨rfl, rfl⟩ := hrep
        simp only [callback] at h1
        cases hr : A.reply g.s x tg with
        | panic => rw [hr] at h1; cases h1
        | ok a2 =>
          rw [hr] at h1
          simp only [Res.ok.injEq, Prod.mk.injEq] at h1
          obtain ⟨rfl, rfl⟩ := h1
          have hal := allowed_of_valid hv
          have hnr : ¬ (g.out ≠ some x ∨ Apps.replyAllowed k.s.p.address x tg = false) := by
            intro hc
            rcases hc with hc | hc
            · exact hc hout
            · rw [hal] at hc; cases hc
          have hg' : gstep A k.s.p.address R g (.reply x tg) =
              .ok (g.afterCallback R x a2 (A.accepts tg) (A.good tg) (A.bit (g.s.stations.getD x false) tg == A.accepts tg)) := by
            simp only [gstep, if_neg hnr, hr]
          refine ⟨_, by simp only [grun, hg'], ⟨rfl, ?_, inv_step' hS hL.inv _ hg', haddr⟩, hfr⟩
          intro x' d' hst'; rw [hs'] at hst'; cases hst'
      · rw [hc] at hrep
        simp only [replay] at hrep
        obtain ⟨⟨a1, y⟩, h1, hrep⟩ := bind_ok hrep
        obtain ⟨⟨a2, ys⟩, h2, hrep⟩ := bind_ok hrep
        simp only [Res.ok.injEq, Prod.mk.injEq] at hrep
        obtain ⟨rfl, rfl⟩ := hrep
        simp only [callback] at h1
        cases hr : g.s.handleTimeout A.lost x with
        | panic => rw [hr] at h1; cases h1
        | ok a3 =>
          rw [hr] at h1
          simp only [Res.ok.injEq, Prod.mk.injEq] at h1
          obtain ⟨rfl, rfl⟩ := h1
          have hnr : ¬ (g.out ≠ some x) := by intro hc; exact hc hout
          have hg1 : gstep A k.s.p.address R g (.timeout x) = .ok (g.afterCallback R x a3 false true true) := by
            simp only [gstep, if_neg hnr, hr]
          have hI1 := inv_step' hS hL.inv _ hg1
          obtain ⟨g', hg', ha', hI', hnil, hout'⟩ :=
            replay_asks (own := k.s.p.address) hS hh _ har (g.afterCallback R x a3 false true true) a2 ys hI1 h2
          refine ⟨g', by simp only [grun, hg1]; exact hg', ⟨ha', ?_, hI', haddr⟩, hfr⟩
          intro x' d' hst'
          obtain ⟨pre, hp', hd, pdu, b8, e1, e2, e3⟩ := hlink x' d' hst'
          rw [hout' pre _ hp' hd pdu b8 e1 e2, e3]

theorem link_step {A : App ε} (hS : A.Spec) {hdr : UInt8 → UInt8 → Header} (hh : HdrOk hdr) {R : Nat → Bool}
    {k k' : State ε} {g : Ghost ε} (c : Call) {l : List Op} (hL : Link A R k g) (h : step A hdr k c = .ok (k', l)) :
    ∃ g', grun A k.s.p.address R g l = .ok g' ∧ Link A R k' g' ∧ k'.s.p = k.s.p := by
  cases c with
  | poll now phy arrived => exact link_poll hS hh hL h
  | setOnline =>
    simp only [step, Res.ok.injEq, Prod.mk.injEq] at h
    obtain ⟨rfl, rfl⟩ := h
    exact ⟨g, rfl, ⟨hL.a, hL.out, hL.inv, hL.addr⟩, rfl⟩
  | setOffline =>
    simp only [step, Res.ok.injEq, Prod.mk.injEq] at h
    obtain ⟨rfl, rfl⟩ := h
    have h3 := setOffline_fields k.s
    refine ⟨g, rfl, ⟨hL.a, ?_, hL.inv, ?_⟩, h3.1⟩
    · intro x d hst
      simp only at hst
      rw [h3.2.2.1] at hst; cases hst
    · simp only; rw [h3.1]; exact hL.addr
  | take =>
    simp only [step, Res.ok.injEq, Prod.mk.injEq] at h
    obtain ⟨rfl, rfl⟩ := h
    have hg' : gstep A k.s.p.address R g .take =
        .ok { g with s := g.s.takeLastEvent.1, dirty := false, evs := fun w => pendFor A w g.s ++ g.evs w } := rfl
    refine ⟨_, by simp only [grun, hg'], ⟨by simp only [hL.a], ?_, inv_step' hS hL.inv _ hg', hL.addr⟩, rfl⟩
    intro x d hst
    exact hL.out x d hst

theorem link_run {A : App ε} (hS : A.Spec) {hdr : UInt8 → UInt8 → Header} (hh : HdrOk hdr) {R : Nat → Bool} :
    ∀ (calls : List Call) (k k' : State ε) (g : Ghost ε) (l : List Op), Link A R k g →
    run A hdr k calls = .ok (k', l) →
    ∃ g', grun A k.s.p.address R g l = .ok g' ∧ Link A R k' g' ∧ k'.s.p = k.s.p := by
  intro calls
  induction calls with
  | nil =>
    intro k k' g l hL h
    simp only [run, Res.ok.injEq, Prod.mk.injEq] at h
    obtain ⟨rfl, rfl⟩ := h
    exact ⟨g, rfl, hL, rfl⟩
  | cons c rest ih =>
    intro k k' g l hL h
    simp only [run] at h
    obtain ⟨⟨k1, l1⟩, h1, h⟩ := bind_ok h
    obtain ⟨⟨k2, l2⟩, h2, h⟩ := bind_ok h
    simp only [Res.ok.injEq, Prod.mk.injEq] at h
    obtain ⟨rfl, rfl⟩ := h
    obtain ⟨g1, hg1, hL1, hp1⟩ := link_step hS hh c hL h1
    obtain ⟨g2, hg2, hL2, hp2⟩ := ih k1 k2 g1 l2 hL1 h2
    refine ⟨g2, ?_, hL2, hp2.trans hp1⟩
    rw [grun_append _ _ _ _ hg1, ← hp1]
    exact hg2

/-- **`apps_log_is_contract_history`.**  The station model with the live-list / DP-scanner model as
its only application, from the initial state through ANY sequence of polls (any bytes, PHY flags,
times), `set_online` / `set_offline` and `take_last_event` calls: if the run is regular (it always is:
`apps_run_total`), the callbacks the station made, interleaved with the `take_last_event` calls, are a
history of `Lemmas/Apps.lean` — `grun` never refuses — ending in the application's state.  So every
theorem of C18 holds of the composed system with no assumption about the FDL layer. -/
theorem apps_log_is_contract_history {A : App ε} (hS : A.Spec) {hdr : UInt8 → UInt8 → Header} (hh : HdrOk hdr)
    (R : Nat → Bool) (p : Params) (hp : p.address < 256) (calls : List Call) {k' : State ε} {l : List Op}
    (h : run A hdr (init p) calls = .ok (k', l)) :
    ∃ g, grun A p.address R Ghost.init l = .ok g ∧ g.s = k'.a := by
  have hL : Link A R (init p : State ε) Ghost.init :=
    ⟨rfl, (by intro x d hst; simp [init, Station.new] at hst), inv_init A R, hp⟩
  obtain ⟨g, hg, hL', -⟩ := link_run hS hh calls _ k' _ l hL h
  exact ⟨g, hg, hL'.a⟩

/-! ## Totality -/

theorem answer_ok {hdr : UInt8 → UInt8 → Header} (hh : HdrOk hdr) (o8 : UInt8) (a : Sweep ε) :
    ScriptsOk [[answer hdr o8 a]] := by
  intro script hs ans ha h pdu he
  simp only [List.mem_singleton] at hs
  subst hs
  simp only [List.mem_singleton] at ha
  subst ha
  unfold answer at he
  rcases ht : a.transmit with ⟨s1, o⟩
  rw [ht] at he
  cases o with
  | none => cases he
  | some q =>
    simp only [AppAnswer.send.injEq] at he
    obtain ⟨rfl, rfl⟩ := he
    exact hh.len _ _

/-- Asking the application and comparing with its own answer. -/
theorem callback_answer (A : App ε) (hdr : UInt8 → UInt8 → Header) (o8 : UInt8) (a : Sweep ε) (i : Nat) (hp : Bool) :
    callback A hdr o8 a (.transmit i hp (answer hdr o8 a)) = .ok (a.transmit.1, .tx) := by
  rcases ht : a.transmit with ⟨s1, o⟩
  cases o <;> simp [callback, answer, ht]

theorem replay_one {A : App ε} {hdr : UInt8 → UInt8 → Header} {o8 : UInt8} {a a' : Sweep ε} {c : AppCall} {x : Op}
    (h : callback A hdr o8 a c = .ok (a', x)) : replay A hdr o8 a [c] = .ok (a', [x]) := by
  simp only [replay, h, Res.bind]

theorem replay_two {A : App ε} {hdr : UInt8 → UInt8 → Header} {o8 : UInt8} {a a1 a2 : Sweep ε} {c1 c2 : AppCall} {x1 x2 : Op}
    (h1 : callback A hdr o8 a c1 = .ok (a1, x1)) (h2 : callback A hdr o8 a1 c2 = .ok (a2, x2)) :
    replay A hdr o8 a [c1, c2] = .ok (a2, [x1, x2]) := by
  simp only [replay, h1, h2, Res.bind]

theorem shape_asks {calls : List AppCall} {hp : Bool} {a : AppAnswer} (har : AskRun calls)
    (hsh : calls = [] ∨ (∃ i, calls = [.transmit i hp a]) ∨ (∃ i x t, calls = [.reply i x t]) ∨
      (∃ i x, calls = [.timeout i x]) ∨ (∃ i x j, calls = [.timeout i x, .transmit j hp a])) :
    calls = [] ∨ ∃ i, calls = [.transmit i hp a] := by
  rcases hsh with h | h | ⟨i, x, t, h⟩ | ⟨i, x, h⟩ | ⟨i, x, j, h⟩
  · exact .inl h
  · exact .inr h
  · obtain ⟨_, _, _, he⟩ := har _ (by rw [h]; exact List.mem_cons_self ..); cases he
  · obtain ⟨_, _, _, he⟩ := har _ (by rw [h]; exact List.mem_cons_self ..); cases he
  · obtain ⟨_, _, _, he⟩ := har _ (by rw [h]; exact List.mem_cons_self ..); cases he

theorem shape_timeout {calls new : List AppCall} {j x : Nat} {hp : Bool} {a : AppAnswer} (hc : calls = .timeout j x :: new)
    (hsh : calls = [] ∨ (∃ i, calls = [.transmit i hp a]) ∨ (∃ i x t, calls = [.reply i x t]) ∨
      (∃ i x, calls = [.timeout i x]) ∨ (∃ i x j, calls = [.timeout i x, .transmit j hp a])) :
    new = [] ∨ ∃ i, new = [.transmit i hp a] := by
  rw [hc] at hsh
  rcases hsh with h | ⟨i, h⟩ | ⟨i, x', t, h⟩ | ⟨i, x', h⟩ | ⟨i, x', j', h⟩
  · cases h
  · cases h
  · cases h
  · simp only [List.cons.injEq] at h; exact .inl h.2
  · simp only [List.cons.injEq] at h; exact .inr ⟨j', h.2⟩

/-- **One composed poll is regular.** -/
theorem poll_total {A : App ε} (hS : A.Spec) {hdr : UInt8 → UInt8 → Header} (hh : HdrOk hdr) {R : Nat → Bool}
    {k : State ε} {g : Ghost ε} (now : Int) (phy : Bool) (arrived : Bytes) (hL : Link A R k g) (hSt : PV.Inv k.s [[]]) :
    ∃ k' l, poll A hdr k now phy arrived = .ok (k', l) ∧ PV.Inv k'.s [[]] := by
  have hsk : ScriptsOk [[]] := by
    intro sc hsc ans ha; simp only [List.mem_singleton] at hsc; subst hsc; cases ha
  have hInv : PV.Inv k.s [[answer hdr (own8 k) (preState A k)]] := hSt.setApps rfl (answer_ok hh _ _)
  obtain ⟨c, hc, hic, hlc⟩ := pollInner_good
    { s := k.s, apps := [[answer hdr (own8 k) (preState A k)]], rx := k.rx ++ arrived } now phy hInv rfl
  have hp : k.s.poll [[answer hdr (own8 k) (preState A k)]] now phy (k.rx ++ arrived) = .ok c := hc
  have hS' : PV.Inv c.s [[]] := hic.setApps (by rw [hlc]; rfl) hsk
  have fin : ∀ a' l, replay A hdr (own8 k) k.a c.calls = .ok (a', l) →
      ∃ k' l, poll A hdr k now phy arrived = .ok (k', l) ∧ PV.Inv k'.s [[]] := by
    intro a' l hr
    refine ⟨{ s := c.s, a := a', rx := c.rx }, l, ?_, hS'⟩
    simp only [poll, hp, hr, Res.bind]
  have hsh := poll_shape _ _ _ _ _ _ hp
  rcases poll_calls _ _ _ _ _ _ hp with ⟨h0, -⟩ | ⟨-, ⟨d, fcd, hst⟩, har, -⟩ | ⟨-, x, d, hst, hcase⟩
  · rw [h0] at fin; exact fin k.a [] rfl
  · -- token visit: the application is asked in its current state
    have hpre : preState A k = k.a := by simp only [preState, hst]
    rcases shape_asks har hsh with h0 | ⟨i, h0⟩
    · rw [h0] at fin; exact fin k.a [] rfl
    · rw [h0, hpre] at fin
      exact fin _ _ (replay_one (callback_answer A hdr (own8 k) k.a i _))
  · have hout := hL.out x d hst
    obtain ⟨-, -, -, old, hold⟩ := hL.inv.st.out_bit hout
    rw [hL.a] at hold
    rcases hcase with ⟨tg, hv, hcc, -⟩ | ⟨new, hcc, har, -⟩
    · -- the reply
      obtain ⟨e, he, -⟩ := hS.reply_ok k.a x tg old hold
      rw [hcc] at fin
      have hcb : callback A hdr (own8 k) k.a (.reply k.s.nextApp x tg) =
          .ok ({ k.a with done := true, pending := e, stations := k.a.stations.set x (A.bit old tg) }, .reply x tg) := by
        simp only [callback, he]
      exact fin _ _ (replay_one hcb)
    · -- the time-out; if the application is asked in the same poll, it is asked in the state after it
      have hto := timeout_ok A.lost k.a x old hold
      obtain ⟨a1, hto⟩ : ∃ a1, k.a.handleTimeout A.lost x = .ok a1 := ⟨_, hto⟩
      have hpre : preState A k = a1 := by simp only [preState, hst, hto]
      have hcb : callback A hdr (own8 k) k.a (.timeout k.s.nextApp x) = .ok (a1, .timeout x) := by
        simp only [callback, hto]
      rcases shape_timeout hcc hsh with h0 | ⟨i, h0⟩
      · rw [hcc, h0] at fin
        exact fin _ _ (replay_one hcb)
      · rw [hcc, h0, hpre] at fin
        exact fin _ _ (replay_two hcb (callback_answer A hdr (own8 k) _ i _))

theorem step_total {A : App ε} (hS : A.Spec) {hdr : UInt8 → UInt8 → Header} (hh : HdrOk hdr) {R : Nat → Bool}
    {k : State ε} {g : Ghost ε} (c : Call) (hL : Link A R k g) (hSt : PV.Inv k.s [[]]) :
    ∃ k' l g', step A hdr k c = .ok (k', l) ∧ grun A k.s.p.address R g l = .ok g' ∧ Link A R k' g' ∧
      PV.Inv k'.s [[]] ∧ k'.s.p = k.s.p := by
  have lift : ∀ k' l, step A hdr k c = .ok (k', l) → PV.Inv k'.s [[]] →
      ∃ k' l g', step A hdr k c = .ok (k', l) ∧ grun A k.s.p.address R g l = .ok g' ∧ Link A R k' g' ∧
        PV.Inv k'.s [[]] ∧ k'.s.p = k.s.p := by
    intro k' l hs hi
    obtain ⟨g', hg', hL', hp'⟩ := link_step hS hh c hL hs
    exact ⟨k', l, g', hs, hg', hL', hi, hp'⟩
  cases c with
  | poll now phy arrived =>
    obtain ⟨k', l, hp, hi⟩ := poll_total hS hh now phy arrived hL hSt
    exact lift k' l hp hi
  | setOnline =>
    refine lift _ _ rfl ?_
    exact ⟨hSt.addr, hSt.hsa, hSt.ring, fun ho => by simp [Station.setOnline] at ho, hSt.gap, hSt.await1, hSt.await2,
      hSt.app, hSt.appWait, hSt.scripts, hSt.noPassive⟩
  | setOffline => exact lift _ _ rfl (inv_new _ _ hSt.addr hSt.hsa hSt.scripts)
  | take => exact lift _ _ rfl hSt

theorem run_total_from {A : App ε} (hS : A.Spec) {hdr : UInt8 → UInt8 → Header} (hh : HdrOk hdr) {R : Nat → Bool} :
    ∀ (calls : List Call) (k : State ε) (g : Ghost ε), Link A R k g → PV.Inv k.s [[]] →
    ∃ k' l g', run A hdr k calls = .ok (k', l) ∧ grun A k.s.p.address R g l = .ok g' ∧ Link A R k' g' ∧
      k'.s.p = k.s.p := by
  intro calls
  induction calls with
  | nil => intro k g hL _; exact ⟨k, [], g, rfl, rfl, hL, rfl⟩
  | cons c rest ih =>
    intro k g hL hSt
    obtain ⟨k1, l1, g1, hs, hg1, hL1, hS1, hp1⟩ := step_total hS hh c hL hSt
    obtain ⟨k2, l2, g2, hr, hg2, hL2, hp2⟩ := ih k1 g1 hL1 hS1
    refine ⟨k2, l1 ++ l2, g2, by simp only [run, hs, hr, Res.bind], ?_, hL2, hp2.trans hp1⟩
    rw [grun_append _ _ _ _ hg1, ← hp1]
    exact hg2

/-- **`apps_run_total`**: the station model with the live-list / DP-scanner model as its application is
total — for every parameter set `ParametersBuilder` produces and EVERY sequence of polls (any bytes,
PHY flags, times), `set_online` / `set_offline` and `take_last_event` calls, the run is regular: the
station reaches none of its panic sites, the application does not panic (its `.get(addr).unwrap()`
always finds the address the station hands in), the composition is well defined — and the callbacks
made are a contract history ending in the application's state. -/
theorem apps_run_total {A : App ε} (hS : A.Spec) {hdr : UInt8 → UInt8 → Header} (hh : HdrOk hdr) (R : Nat → Bool)
    (p : Params) (h1 : p.address < p.hsa) (h2 : p.hsa ≤ 126) (calls : List Call) :
    ∃ k' l g, run A hdr (init p : State ε) calls = .ok (k', l) ∧ grun A p.address R Ghost.init l = .ok g ∧
      g.s = k'.a ∧ Apps.Inv A R g := by
  have hL : Link A R (init p : State ε) Ghost.init :=
    ⟨rfl, (by intro x d hst; simp [init, Station.new] at hst), inv_init A R, by show p.address < 256; omega⟩
  have hSt : PV.Inv (init p : State ε).s [[]] := inv_new p [[]] h1 h2 (by
    intro sc hsc ans ha; simp only [List.mem_singleton] at hsc; subst hsc; cases ha)
  obtain ⟨k', l, g, hr, hg, hL', -⟩ := run_total_from hS hh calls _ _ hL hSt
  exact ⟨k', l, g, hr, hg, hL'.a, hL'.inv⟩

end PV.StackApps
