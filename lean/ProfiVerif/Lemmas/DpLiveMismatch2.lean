/-
Ident-number / parameter-length mismatch (property C07, `mismatch_cycle_ident`): the reference slave
rejects `Set_Prm` (still acknowledging it), answers `Chk_Cfg` with "SAP not enabled", the master
retransmits until the retry limit is exceeded, declares the peripheral offline and starts over.
-/
import ProfiVerif.Lemmas.DpLiveMismatch
import ProfiVerif.Lemmas.DpLiveNRun

namespace PV.Live
open PV PV.Dp

/-- The conclusions of `rx_ctl` for the peripheral that just transmitted. -/
def RxFacts (j : PJ) (t : Telegram) (p2 : Peripheral) (ev : Option PEvent) : Prop :=
  PInv j.fp p2 ∧
  p2.state = (mrx (j.p.piI.length == 0) j.p.state j.p.diagNeeded
      (flAfter j.p.state j.p.diagNeeded j.p.diagInFlight (rcls j.fp.maxRetry j.p.retry)) (viewOf j.p.piI.length t)).st ∧
  p2.fcb = (if (mrx (j.p.piI.length == 0) j.p.state j.p.diagNeeded
      (flAfter j.p.state j.p.diagNeeded j.p.diagInFlight (rcls j.fp.maxRetry j.p.retry)) (viewOf j.p.piI.length t)).cycled
      then cycA j.p.fcb else j.p.fcb) ∧
  p2.retry = (if (mrx (j.p.piI.length == 0) j.p.state j.p.diagNeeded
      (flAfter j.p.state j.p.diagNeeded j.p.diagInFlight (rcls j.fp.maxRetry j.p.retry)) (viewOf j.p.piI.length t)).reset
      then 0 else j.p.retry + 1) ∧
  ev = (mrx (j.p.piI.length == 0) j.p.state j.p.diagNeeded
      (flAfter j.p.state j.p.diagNeeded j.p.diagInFlight (rcls j.fp.maxRetry j.p.retry)) (viewOf j.p.piI.length t)).ev ∧
  p2.address = j.p.address ∧ p2.opts = j.p.opts ∧ p2.piI.length = j.p.piI.length ∧ p2.piQ = j.p.piQ

/-- A fault-free visit with a request (new for the slave, or a retransmission), for any slave
configuration the master's options agree with. -/
theorem exchange_gen {j : PJ} (hfp : FpOk j.fp) (hop : j.op ≠ .stop) (hI : PInv j.fp j.p) {c : SlaveCfg}
    (hmat : Matched j.p c) (hda : c.address = j.s.cfg.address) (hr : j.p.retry ≤ j.fp.maxRetry) {k : ReqK}
    (hq : reqOf j.p.state j.p.diagNeeded j.p.diagInFlight (rcls j.fp.maxRetry j.p.retry) = some k) :
    ∃ h pdu, IsReq k c j.p.fcb h pdu ∧
      (isRetransmission j.s.stored j.p.fcb = false →
        ∀ t, (j.s.serve h pdu).2.telegram = some t → RxOk t →
          ∃ p2 ev, j.visit false .ok =
              some ({ j with p := p2, s := { (j.s.serve h pdu).1 with stored := storedAfter j.p.fcb, last := (j.s.serve h pdu).2 } }, ev) ∧
            RxFacts j t p2 ev) ∧
      (isRetransmission j.s.stored j.p.fcb = true →
        ∀ t, j.s.last.telegram = some t → RxOk t →
          ∃ p2 ev, j.visit false .ok = some ({ j with p := p2 }, ev) ∧ RxFacts j t p2 ev) := by
  obtain ⟨h, pdu, htx, hreq, hI'⟩ := next_request hfp hop hI hmat hr hq
  obtain ⟨hda', hfc⟩ := isReq_fc hreq
  have hda2 : h.da = j.s.cfg.address := by rw [hda', hda]
  refine ⟨h, pdu, hreq, ?_, ?_⟩
  · intro hfresh t htel ht
    have hrecv := receive_serve (pdu := pdu) hda2 hfc hfresh
    obtain ⟨p2, ev, hrx, hI2, f1, f2, f3, f4, f5, f6, f7, f8, f9, f10⟩ := rx_ctl hI' ht
    refine ⟨p2, ev, ?_, hI2, f1, f3, f4, f5, f7, f8, f10, f9⟩
    have := visit_exchange (j := j) htx (by rw [hrecv]; exact htel) hrx
    rw [hrecv] at this; exact this
  · intro hre t htel ht
    have hrecv := receive_repeat (pdu := pdu) hda2 hfc hre
    obtain ⟨p2, ev, hrx, hI2, f1, f2, f3, f4, f5, f6, f7, f8, f9, f10⟩ := rx_ctl hI' ht
    refine ⟨p2, ev, ?_, hI2, f1, f3, f4, f5, f7, f8, f10, f9⟩
    have := visit_exchange (j := j) htx (by rw [hrecv]; exact htel) hrx
    rw [hrecv] at this; exact this

/-- Address agrees, the master has parameters and a configuration to send, but the slave rejects the
`Set_Prm` (other ident number or other parameter length). -/
structure PrmMismatch (j : PJ) : Prop where
  fp : FpOk j.fp
  op : j.op ≠ .stop
  pinv : PInv j.fp j.p
  addr : j.p.address = j.s.cfg.address
  identLt : j.p.opts.ident < 65536
  prm : ∃ up, j.p.opts.userPrm = some up ∧ (up.length ≠ j.s.cfg.prmLen ∨ j.p.opts.ident ≠ j.s.cfg.ident)
  cfg : ∃ c, j.p.opts.config = some c

def believed2 (j : PJ) (up c : Bytes) : SlaveCfg :=
  { address := j.s.cfg.address, ident := j.p.opts.ident, prmLen := up.length, config := c,
    inLen := j.p.piI.length, outLen := j.p.piQ.length }

theorem PrmMismatch.matched {j : PJ} (h : PrmMismatch j) {up c : Bytes} (hu : j.p.opts.userPrm = some up)
    (hc : j.p.opts.config = some c) : Matched j.p (believed2 j up c) :=
  ⟨h.addr, ⟨up, hu, rfl⟩, rfl, h.identLt, hc, rfl, rfl⟩

theorem PrmMismatch.next {j : PJ} (hm : PrmMismatch j) {p2 : Peripheral} {s2 : Slave} (hI2 : PInv j.fp p2)
    (ha : p2.address = j.p.address) (ho : p2.opts = j.p.opts) (hs : s2.cfg = j.s.cfg) :
    PrmMismatch { j with p := p2, s := s2 } :=
  ⟨hm.fp, hm.op, hI2, by simp only [ha, hs]; exact hm.addr, by simp only [ho]; exact hm.identLt,
   by simp only [ho, hs]; exact hm.prm, by simp only [ho]; exact hm.cfg⟩

theorem serve_cfg_eq (s : Slave) (h : Header) (pdu : Bytes) : (s.serve h pdu).1.cfg = s.cfg := by
  unfold Slave.serve
  repeat' split
  all_goals rfl

theorem serve_setprm_bad (s : Slave) {h : Header} {pdu : Bytes} (h1 : h.dsap = some 61) (h2 : h.ssap = some 62)
    (h3 : ¬ (pdu.length = 7 + s.cfg.prmLen ∧ (pdu.getD 4 0).toNat * 256 + (pdu.getD 5 0).toNat = s.cfg.ident)) :
    s.serve h pdu = ({ s with prmFault := true, state := .waitPrm }, .sc) := by
  unfold Slave.serve
  rw [if_neg (by simp [h1]), if_pos ⟨h1, h2⟩, if_neg h3]

theorem serve_chkcfg_waitprm (s : Slave) {h : Header} (pdu : Bytes) (h1 : h.dsap = some 62) (h2 : h.ssap = some 62)
    (h3 : s.state = .waitPrm) : s.serve h pdu = (s, s.rs h) := by
  unfold Slave.serve
  rw [if_neg (by simp [h1]), if_neg (by simp [h1]), if_pos ⟨h1, h2⟩, if_pos h3]

/-- The reply "SAP not enabled". -/
def isRs (r : SReply) : Prop := ∃ hdr, r = .data hdr [] ∧ hdr.fc = .response .slave .sapNotEnabled

theorem rs_reply {r : SReply} (h : isRs r) : ∃ t, r.telegram = some t ∧ RxOk t ∧ t ≠ .sc := by
  obtain ⟨hdr, rfl, hfc⟩ := h
  exact ⟨.data hdr [], rfl, ⟨_, _, hfc⟩, by simp⟩

/-- The master in `WaitForConfig` ignores anything but a short confirmation. -/
theorem mrx_cfg_reject {iz dn fl : Bool} {v : View} (h : v ≠ .sc) :
    mrx iz .waitForConfig dn fl v = ⟨.waitForConfig, dn, false, false, none⟩ := by
  cases v <;> first | exact absurd rfl h | rfl

theorem cycA_fcv {f : FrameCountBit} (h : f ≠ .inactive) : (cycA f).fcv = true := by
  cases f <;> first | exact absurd rfl h | rfl

/-- Visit 1: probe answered, `Online`. -/
theorem prmm_probe {j : PJ} (hm : PrmMismatch j) (hp : Probing j) :
    ∃ j', j.visit false .ok = some (j', some .online) ∧ PrmMismatch j' ∧ j'.fp = j.fp ∧
      j'.p.state = .waitForParam ∧ j'.p.retry = 0 ∧ isRetransmission j'.s.stored j'.p.fcb = false ∧
      j'.p.fcb.fcv = true := by
  obtain ⟨up, hu, _⟩ := hm.prm
  obtain ⟨c, hc⟩ := hm.cfg
  have hq : reqOf j.p.state j.p.diagNeeded j.p.diagInFlight (rcls j.fp.maxRetry j.p.retry) = some .diag := by
    simp [reqOf, hp.state, hp.retry, rcls_zero]
  obtain ⟨h, pdu, hreq, hex, _⟩ := exchange_gen hm.fp hm.op hm.pinv (hm.matched hu hc) rfl (by rw [hp.retry]; omega) hq
  obtain ⟨_, h1, h2, _⟩ := hreq
  have hserve := serve_diag j.s pdu h1 h2
  obtain ⟨cv, hview⟩ := viewOf_acc (n := j.p.piI.length) (t := .data (replyHeader j.s h (some 62) (some 60) .dataLow) j.s.diagPdu)
    ⟨.slave, .dataLow, rfl⟩ (diagReply_accepts j.s h)
  obtain ⟨p2, ev, hvis, hI2, e1, e2, e3, e4, e5, e6, _, _⟩ :=
    hex hp.fresh (.data (replyHeader j.s h (some 62) (some 60) .dataLow) j.s.diagPdu) (by rw [hserve]; rfl) ⟨.slave, .dataLow, rfl⟩
  rw [hview, hp.state] at e1 e2 e3 e4
  simp only [mrx, if_true] at e1 e2 e3 e4
  subst e4
  rw [hserve] at hvis
  refine ⟨_, hvis, hm.next hI2 e5 e6 rfl, rfl, e1, e3, ?_, ?_⟩
  · simp only [e2]; exact fresh_after_cycle _
  · simp only [e2]; exact cycA_fcv hm.pinv.fcb

/-- Visit 2: `Set_Prm` is rejected by the slave (`Prm_Fault`, stays in `Wait_Prm`) but acknowledged: the
master moves on to `WaitForConfig`. -/
theorem prmm_setprm {j : PJ} (hm : PrmMismatch j) (hst : j.p.state = .waitForParam) (hr : j.p.retry = 0)
    (hf : isRetransmission j.s.stored j.p.fcb = false) :
    ∃ j', j.visit false .ok = some (j', none) ∧ PrmMismatch j' ∧ j'.fp = j.fp ∧
      j'.p.state = .waitForConfig ∧ j'.p.retry = 0 ∧ isRetransmission j'.s.stored j'.p.fcb = false ∧
      j'.s.state = .waitPrm ∧ j'.p.fcb.fcv = true := by
  obtain ⟨up, hu, hbad⟩ := hm.prm
  obtain ⟨c, hc⟩ := hm.cfg
  have hq : reqOf j.p.state j.p.diagNeeded j.p.diagInFlight (rcls j.fp.maxRetry j.p.retry) = some .setPrm := by
    simp [reqOf, hst]
  obtain ⟨h, pdu, hreq, hex, _⟩ := exchange_gen hm.fp hm.op hm.pinv (hm.matched hu hc) rfl (by rw [hr]; omega) hq
  obtain ⟨_, h1, h2, _, h4, h5⟩ := hreq
  have hno : ¬ (pdu.length = 7 + j.s.cfg.prmLen ∧ (pdu.getD 4 0).toNat * 256 + (pdu.getD 5 0).toNat = j.s.cfg.ident) := by
    rintro ⟨a, b⟩
    simp only [believed2] at h4 h5
    rcases hbad with hb | hb
    · omega
    · exact hb (by rw [← h5, b])
  have hserve := serve_setprm_bad j.s h1 h2 hno
  obtain ⟨p2, ev, hvis, hI2, e1, e2, e3, e4, e5, e6, _, _⟩ := hex hf .sc (by rw [hserve]; rfl) trivial
  rw [hst] at e1 e2 e3 e4
  simp only [viewOf, mrx, if_true] at e1 e2 e3 e4
  subst e4
  rw [hserve] at hvis
  refine ⟨_, hvis, hm.next hI2 e5 e6 rfl, rfl, e1, e3, ?_, rfl, ?_⟩
  · simp only [e2]; exact fresh_after_cycle _
  · simp only [e2]; exact cycA_fcv hm.pinv.fcb

/-- Visit 3: `Chk_Cfg` reaches a slave in `Wait_Prm`: "SAP not enabled"; the master ignores the reply. -/
theorem prmm_chkcfg {j : PJ} (hm : PrmMismatch j) (hst : j.p.state = .waitForConfig) (hr : j.p.retry = 0)
    (hf : isRetransmission j.s.stored j.p.fcb = false) (hs : j.s.state = .waitPrm) (hfcv : j.p.fcb.fcv = true) :
    ∃ j', j.visit false .ok = some (j', none) ∧ PrmMismatch j' ∧ j'.fp = j.fp ∧
      j'.p.state = .waitForConfig ∧ j'.p.retry = 1 ∧ isRetransmission j'.s.stored j'.p.fcb = true ∧
      isRs j'.s.last := by
  obtain ⟨up, hu, _⟩ := hm.prm
  obtain ⟨c, hc⟩ := hm.cfg
  have hq : reqOf j.p.state j.p.diagNeeded j.p.diagInFlight (rcls j.fp.maxRetry j.p.retry) = some .chkCfg := by
    simp [reqOf, hst]
  obtain ⟨h, pdu, hreq, hex, _⟩ := exchange_gen hm.fp hm.op hm.pinv (hm.matched hu hc) rfl (by rw [hr]; omega) hq
  obtain ⟨_, h1, h2, hfc, _⟩ := hreq
  have hserve := serve_chkcfg_waitprm j.s pdu h1 h2 hs
  have hrs : isRs (j.s.rs h) := ⟨_, rfl, rfl⟩
  obtain ⟨t, htel, hok, hne⟩ := rs_reply hrs
  obtain ⟨p2, ev, hvis, hI2, e1, e2, e3, e4, e5, e6, _, _⟩ := hex hf t (by rw [hserve]; exact htel) hok
  rw [hst, mrx_cfg_reject (viewOf_not_sc hok hne)] at e1 e2 e3 e4
  simp only [Bool.false_eq_true, if_false, hr] at e1 e2 e3 e4
  subst e4
  rw [hserve] at hvis
  refine ⟨_, hvis, hm.next hI2 e5 e6 rfl, rfl, e1, e3, ?_, hrs⟩
  simp only [e2]
  -- the master repeats the frame count bit the slave has just stored
  rw [isRetransmission_after]; exact hfcv

/-- A retransmission of `Chk_Cfg`: the slave repeats "SAP not enabled", the master ignores it again. -/
theorem prmm_retx {j : PJ} (hm : PrmMismatch j) (hst : j.p.state = .waitForConfig) (hr : j.p.retry ≤ j.fp.maxRetry)
    (hre : isRetransmission j.s.stored j.p.fcb = true) (hrs : isRs j.s.last) :
    ∃ j', j.visit false .ok = some (j', none) ∧ PrmMismatch j' ∧ j'.fp = j.fp ∧
      j'.p.state = .waitForConfig ∧ j'.p.retry = j.p.retry + 1 ∧ isRetransmission j'.s.stored j'.p.fcb = true ∧
      isRs j'.s.last := by
  obtain ⟨up, hu, _⟩ := hm.prm
  obtain ⟨c, hc⟩ := hm.cfg
  have hq : reqOf j.p.state j.p.diagNeeded j.p.diagInFlight (rcls j.fp.maxRetry j.p.retry) = some .chkCfg := by
    simp [reqOf, hst]
  obtain ⟨h, pdu, hreq, _, hex⟩ := exchange_gen hm.fp hm.op hm.pinv (hm.matched hu hc) rfl hr hq
  obtain ⟨t, htel, hok, hne⟩ := rs_reply hrs
  obtain ⟨p2, ev, hvis, hI2, e1, e2, e3, e4, e5, e6, _, _⟩ := hex hre t htel hok
  rw [hst, mrx_cfg_reject (viewOf_not_sc hok hne)] at e1 e2 e3 e4
  simp only [Bool.false_eq_true, if_false] at e1 e2 e3 e4
  subst e4
  refine ⟨_, hvis, hm.next hI2 e5 e6 rfl, rfl, e1, e3, ?_, hrs⟩
  simp only [e2]; exact hre

/-- `k` retransmissions in a row. -/
theorem prmm_stutter : ∀ (k : Nat) {j : PJ}, PrmMismatch j → j.p.state = .waitForConfig →
    j.p.retry + k ≤ j.fp.maxRetry + 1 → isRetransmission j.s.stored j.p.fcb = true → isRs j.s.last →
    ∃ j', j.quiet k = some (j', []) ∧ PrmMismatch j' ∧ j'.fp = j.fp ∧ j'.p.state = .waitForConfig ∧
      j'.p.retry = j.p.retry + k := by
  intro k
  induction k with
  | zero => intro j hm hst _ _ _; exact ⟨j, rfl, hm, rfl, hst, rfl⟩
  | succ k ih =>
    intro j hm hst hr hre hrs
    obtain ⟨j1, hv, hm1, hfp1, a1, b1, c1, d1⟩ := prmm_retx hm hst (by omega) hre hrs
    obtain ⟨j2, hq, hm2, hfp2, a2, b2⟩ := ih hm1 a1 (by rw [b1, hfp1]; omega) c1 d1
    refine ⟨j2, by simp only [PJ.quiet, hv, hq, Option.toList, List.nil_append], hm2, by rw [hfp2, hfp1], a2, by rw [b2, b1]; omega⟩

/-- The retry limit is exceeded: the peripheral is declared offline, the frame count bit reset. -/
theorem prmm_offline {j : PJ} (hm : PrmMismatch j) (hr : j.fp.maxRetry < j.p.retry) :
    ∃ j', j.visit false .ok = some (j', some .offline) ∧ PrmMismatch j' ∧ j'.fp = j.fp ∧ Probing j' := by
  obtain ⟨up, hu, _⟩ := hm.prm
  obtain ⟨c, hc⟩ := hm.cfg
  obtain ⟨p'', hafter, hI''⟩ := tx_pinv (tx_spec hm.fp hm.op hm.pinv) hm.pinv
  rcases tx_ctl hm.fp hm.op hm.pinv (hm.matched hu hc) with ⟨_, htx⟩ | ⟨h1, _⟩ | ⟨h1, _⟩
  · rw [htx] at hafter
    simp only [PTx.after, Option.some.injEq] at hafter
    subst hafter
    refine ⟨{ j with p := { j.p with state := .offline, fcb := .first, retry := 0 } }, ?_, hm.next hI'' rfl rfl rfl, rfl,
      ⟨rfl, rfl, by simp [isRetransmission, FrameCountBit.fcv]⟩⟩
    unfold PJ.visit; simp only [htx]
  · omega
  · omega

/-- **One round of an ident / parameter-length mismatch**: probe (`Online`), `Set_Prm` (rejected by the
slave, acknowledged), `Chk_Cfg` and its `max_retry_limit` retransmissions (all answered "SAP not
enabled"), and the visit that declares the peripheral `Offline` — `max_retry_limit + 4` visits. -/
theorem prmm_round {j : PJ} (hm : PrmMismatch j) (hp : Probing j) :
    ∃ j', j.quiet (j.fp.maxRetry + 4) = some (j', [.online, .offline]) ∧ PrmMismatch j' ∧ Probing j' ∧ j'.fp = j.fp := by
  obtain ⟨j1, v1, m1, f1, a1, b1, c1, d1⟩ := prmm_probe hm hp
  obtain ⟨j2, v2, m2, f2, a2, b2, c2, s2, d2⟩ := prmm_setprm m1 a1 b1 c1
  obtain ⟨j3, v3, m3, f3, a3, b3, c3, r3⟩ := prmm_chkcfg m2 a2 b2 c2 s2 d2
  have hfp3 : j3.fp = j.fp := by rw [f3, f2, f1]
  obtain ⟨j4, q4, m4, f4, a4, b4⟩ := prmm_stutter j.fp.maxRetry m3 a3 (by rw [b3, hfp3]; omega) c3 r3
  obtain ⟨j5, v5, m5, f5, p5⟩ := prmm_offline m4 (by rw [b4, b3, f4, hfp3]; omega)
  refine ⟨j5, ?_, m5, p5, by rw [f5, f4, hfp3]⟩
  have h3 : j.quiet 3 = some (j3, [.online]) := by simp [PJ.quiet, v1, v2, v3]
  have h1 : j4.quiet 1 = some (j5, [.offline]) := by simp [PJ.quiet, v5]
  have h34 := quiet_add 3 j.fp.maxRetry h3 q4
  have := quiet_add (3 + j.fp.maxRetry) 1 h34 h1
  rw [show j.fp.maxRetry + 4 = 3 + j.fp.maxRetry + 1 by omega]
  simpa using this

end PV.Live
