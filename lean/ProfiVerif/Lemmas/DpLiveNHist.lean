/-
Master-level histories of a master with several peripherals (property C07): every environment step
projects to runs of the individual slots' pairs (`multi_projection`), so the per-pair theorems (invariant,
liveness, offline / online) lift to the multi-peripheral master.
-/
import ProfiVerif.Lemmas.DpLiveNAny

namespace PV.Live
open PV PV.Dp

inductive NEnv
  | turn (now : Int) (mid : Option Nat) (d : Delivery)
  | power (l : Nat)
  | fault (l : Nat) (ext : Bytes)
  | diagReq (l : Nat)
  | piq (l : Nat) (bs : Bytes)
  | inputs (l : Nat) (bs : Bytes)
  deriving Repr

def NEnv.WellFormed : NEnv → Prop
  | .turn now _ d => timeB now ∧ ∀ t, d = .sub t → RxOk t
  | _ => True

def JointN.step (J : JointN) : NEnv → Option JointN
  | .turn now mid d =>
    match J.turn now mid d with
    | .ok J' _ => some J'
    | _ => none
  | .power l => some { J with ss := J.ss.set l (J.ss.getD l default).power }
  | .fault l ext => some { J with ss := J.ss.set l ((J.ss.getD l default).reportFault ext) }
  | .diagReq l => some { J with m := midDiag J.m (some l) }
  | .piq l bs => some { J with m := (J.m.writePiQ l bs).getD J.m }
  | .inputs l bs => some { J with ss := J.ss.set l ((J.ss.getD l default).setInputs bs) }

def JointN.mrun (J : JointN) : List NEnv → Option JointN
  | [] => some J
  | e :: es =>
    match J.step e with
    | some J' => J'.mrun es
    | none => none

theorem run_append : ∀ (a b : List PEnv) {j j1 j2 : PJ} {e1 e2 : List PEvent}, j.run a = some (j1, e1) →
    j1.run b = some (j2, e2) → j.run (a ++ b) = some (j2, e1 ++ e2) := by
  intro a
  induction a with
  | nil =>
    intro b j j1 j2 e1 e2 h1 h2
    simp only [PJ.run, Option.some.injEq, Prod.mk.injEq] at h1
    obtain ⟨rfl, rfl⟩ := h1
    simpa using h2
  | cons x a ih =>
    intro b j j1 j2 e1 e2 h1 h2
    simp only [List.cons_append, PJ.run] at h1 ⊢
    cases hs : j.step x with
    | none => rw [hs] at h1; cases h1
    | some y =>
      obtain ⟨jy, ev⟩ := y
      rw [hs] at h1
      simp only at h1 ⊢
      cases hr : jy.run a with
      | none => rw [hr] at h1; cases h1
      | some z =>
        obtain ⟨jz, evs⟩ := z
        rw [hr] at h1
        simp only [Option.some.injEq, Prod.mk.injEq] at h1
        obtain ⟨rfl, rfl⟩ := h1
        rw [ih b hr h2]
        simp [List.append_assoc]

theorem slotRun_trans {fp : FdlParams} {ps0 ps1 ps2 : List Peripheral} {ss0 ss1 ss2 : List Slave} {l : Nat}
    {a b : List PEnv} (h1 : SlotRun fp ps0 ss0 ps1 ss1 l a) (h2 : SlotRun fp ps1 ss1 ps2 ss2 l b) :
    SlotRun fp ps0 ss0 ps2 ss2 l (a ++ b) := by
  obtain ⟨w1, e1, r1⟩ := h1
  obtain ⟨w2, e2, r2⟩ := h2
  refine ⟨?_, e1 ++ e2, run_append a b r1 r2⟩
  intro e he
  rcases List.mem_append.mp he with h | h
  · exact w1 e h
  · exact w2 e h

theorem writePiQ_dense {m : Master} {ps : List Peripheral} {k i : Nat} (hs : m.slots = denseSlots ps k) (bs : Bytes) :
    (m.writePiQ i bs).getD m =
      (if h : i < ps.length then
        (if bs.length = ps[i].piQ.length then { m with slots := denseSlots (ps.set i { ps[i] with piQ := bs }) k } else m)
       else m) := by
  unfold Master.writePiQ Master.peripheral?
  by_cases hi : i < ps.length
  · have hget : m.slots.getD i none = some ps[i] := by
      rw [hs]; simp [denseSlots, List.getD_eq_getElem?_getD, List.getElem?_append_left, hi]
    rw [hget, dif_pos hi]
    by_cases hl : bs.length = ps[i].piQ.length
    · simp only [hl, if_true, Option.getD_some, hs, set_dense k hi]
    · simp only [hl, if_false, Option.getD_none]
  · have hget : m.slots.getD i none = none := by
      rw [hs]
      simp only [denseSlots, List.getD_eq_getElem?_getD]
      by_cases h2 : i < ps.length + k
      · rw [List.getElem?_append_right (by simp; omega)]
        simp only [List.getElem?_replicate]
        split <;> rfl
      · rw [List.getElem?_eq_none (by simp; omega)]; rfl
    rw [hget, dif_neg hi]; rfl

theorem run_single {j j' : PJ} {e : PEnv} {ev : Option PEvent} (h : j.step e = some (j', ev)) :
    j.run [e] = some (j', ev.toList ++ []) := by
  simp only [PJ.run, h]

/-- A step on one slot's pair only: the others are untouched. -/
theorem ngood_one_slot {J J' : JointN} {ps ps' : List Peripheral} {k l0 : Nat} (hN : NGood J ps k)
    (hfp : J'.fp = J.fp) (hslots : J'.m.slots = denseSlots ps' k) (hop : J'.m.op = .operate)
    (hl1 : ps'.length = ps.length) (hl2 : J'.ss.length = J.ss.length)
    (hcy : J'.m.cycle = J.m.cycle) (hgc : J'.m.lastGc = J.m.lastGc)
    (hoth : ∀ l, l ≠ l0 → ps'.getD l default = ps.getD l default ∧ J'.ss.getD l default = J.ss.getD l default)
    (e : PEnv) (he : e.WellFormed)
    (hstep : l0 < ps.length → ∃ ev, (pjAt J.fp ps J.ss l0).step e = some (pjAt J.fp ps' J'.ss l0, ev)) :
    NGood J' ps' k ∧ ∀ l, l < ps.length → SlotRun J.fp ps J.ss ps' J'.ss l (if l = l0 then [e] else []) := by
  have hruns : ∀ l, l < ps.length → SlotRun J.fp ps J.ss ps' J'.ss l (if l = l0 then [e] else []) := by
    intro l hl
    by_cases h : l = l0
    · subst h
      rw [if_pos rfl]
      obtain ⟨ev, hs⟩ := hstep hl
      exact ⟨by intro e' he'; simp at he'; subst he'; exact he, ev.toList ++ [], run_single hs⟩
    · rw [if_neg h]
      exact slotRun_same (hoth l h).1 (hoth l h).2
  refine ⟨ngood_of_runs hN hfp hslots hop hl1 hl2 (fun l hl => ⟨_, hruns l hl⟩) (by rw [hcy]; exact hN.cycle)
    (by rw [hgc]; exact hN.gc), hruns⟩

/-- The steps slot `l` undergoes in an environment step that is not a turn. -/
def NEnv.slotSteps : NEnv → Nat → List PEnv
  | .turn _ _ _, _ => []
  | .power l0, l => if l = l0 then [.power] else []
  | .fault l0 ext, l => if l = l0 then [.fault ext] else []
  | .diagReq l0, l => if l = l0 then [.diagReq] else []
  | .piq l0 bs, l => if l = l0 then [.piq bs] else []
  | .inputs l0 bs, l => if l = l0 then [.inputs bs] else []

theorem stepN_env {J : JointN} {ps : List Peripheral} {k : Nat} (hN : NGood J ps k) (e : NEnv)
    (hne : ∀ now mid d, e ≠ .turn now mid d) :
    ∃ J' ps', J.step e = some J' ∧ NGood J' ps' k ∧ J'.fp = J.fp ∧ ps'.length = ps.length ∧
      J'.m.cycle = J.m.cycle ∧
      ∀ l, l < ps.length → SlotRun J.fp ps J.ss ps' J'.ss l (e.slotSteps l) := by
  cases e with
  | turn now mid d => exact absurd rfl (hne now mid d)
  | power l0 =>
    obtain ⟨h1, h2⟩ := ngood_one_slot (J' := { J with ss := J.ss.set l0 (J.ss.getD l0 default).power }) (l0 := l0) hN rfl hN.slots hN.op rfl
      (by simp) rfl rfl (fun l h => ⟨rfl, getDS_set_ne _ h⟩) .power trivial
      (by intro hl; exact ⟨none, by simp only [PJ.step, pjAt, getDS_set_eq _ (show l0 < J.ss.length by rw [hN.len]; exact hl)]⟩)
    exact ⟨_, ps, rfl, h1, rfl, rfl, rfl, h2⟩
  | fault l0 ext =>
    obtain ⟨h1, h2⟩ := ngood_one_slot (J' := { J with ss := J.ss.set l0 ((J.ss.getD l0 default).reportFault ext) }) (l0 := l0) hN rfl hN.slots hN.op rfl
      (by simp) rfl rfl (fun l h => ⟨rfl, getDS_set_ne _ h⟩) (.fault ext) trivial
      (by intro hl; exact ⟨none, by simp only [PJ.step, pjAt, getDS_set_eq _ (show l0 < J.ss.length by rw [hN.len]; exact hl)]⟩)
    exact ⟨_, ps, rfl, h1, rfl, rfl, rfl, h2⟩
  | inputs l0 bs =>
    obtain ⟨h1, h2⟩ := ngood_one_slot (J' := { J with ss := J.ss.set l0 ((J.ss.getD l0 default).setInputs bs) }) (l0 := l0) hN rfl hN.slots hN.op rfl
      (by simp) rfl rfl (fun l h => ⟨rfl, getDS_set_ne _ h⟩) (.inputs bs) trivial
      (by intro hl; exact ⟨none, by simp only [PJ.step, pjAt, getDS_set_eq _ (show l0 < J.ss.length by rw [hN.len]; exact hl)]⟩)
    exact ⟨_, ps, rfl, h1, rfl, rfl, rfl, h2⟩
  | diagReq l0 =>
    have hm := master_applyMid (m := J.m) hN.slots (some l0)
    obtain ⟨h1, h2⟩ := ngood_one_slot (J' := { J with m := midDiag J.m (some l0) }) (ps' := applyMid ps (some l0)) (l0 := l0) hN rfl
      (by simp only [hm]) (by simp only [hm]; exact hN.op) (applyMid_length _ _) rfl (by simp only [hm]) (by simp only [hm])
      (fun l h => ⟨by rw [applyMid_getD, if_neg (by intro hc; exact h (Option.some.inj hc.1).symm)], rfl⟩) .diagReq trivial
      (by intro hl; exact ⟨none, by simp only [PJ.step, pjAt, applyMid_getD, hl, and_self, if_true, reqDiag]⟩)
    exact ⟨_, _, rfl, h1, rfl, applyMid_length _ _, by simp only [hm], h2⟩
  | piq l0 bs =>
    have hw := writePiQ_dense (m := J.m) (i := l0) hN.slots bs
    by_cases hi : l0 < ps.length
    · rw [dif_pos hi] at hw
      by_cases hl : bs.length = ps[l0].piQ.length
      · rw [if_pos hl] at hw
        obtain ⟨h1, h2⟩ := ngood_one_slot (J' := { J with m := (J.m.writePiQ l0 bs).getD J.m }) (ps' := ps.set l0 { ps[l0] with piQ := bs }) (l0 := l0) hN rfl
          (by simp only [hw]) (by simp only [hw]; exact hN.op) (by simp) rfl (by simp only [hw]) (by simp only [hw])
          (fun l h => ⟨getD_set_ne _ h, rfl⟩) (.piq bs) trivial
          (by intro _; exact ⟨none, by
                simp only [PJ.step, pjAt, getD_set_eq _ hi, getD_getElem hi, hl, if_true]⟩)
        exact ⟨_, _, rfl, h1, rfl, by simp, by simp only [hw], h2⟩
      · rw [if_neg hl] at hw
        obtain ⟨h1, h2⟩ := ngood_one_slot (J' := { J with m := (J.m.writePiQ l0 bs).getD J.m }) (ps' := ps) (l0 := l0) hN rfl
          (by simp only [hw]; exact hN.slots) (by simp only [hw]; exact hN.op) rfl rfl (by simp only [hw]) (by simp only [hw])
          (fun l h => ⟨rfl, rfl⟩) (.piq bs) trivial
          (by intro _; exact ⟨none, by simp only [PJ.step, pjAt, getD_getElem hi, hl, if_false]⟩)
        exact ⟨_, _, rfl, h1, rfl, rfl, by simp only [hw], h2⟩
    · rw [dif_neg hi] at hw
      obtain ⟨h1, h2⟩ := ngood_one_slot (J' := { J with m := (J.m.writePiQ l0 bs).getD J.m }) (ps' := ps) (l0 := l0) hN rfl
        (by simp only [hw]; exact hN.slots) (by simp only [hw]; exact hN.op) rfl rfl (by simp only [hw]) (by simp only [hw])
        (fun l h => ⟨rfl, rfl⟩) (.piq bs) trivial (by intro h; exact absurd h hi)
      exact ⟨_, _, rfl, h1, rfl, rfl, by simp only [hw], h2⟩

/-- **Projection of a master-level history to the slots**: after any well-formed history the master is
still well-formed (`NGood`: in particular every pair good and within the joint invariant), and every
slot's pair went through a run of its own environment steps. -/
theorem multi_projection_aux {k : Nat} : ∀ (H : List NEnv), (∀ e ∈ H, e.WellFormed) →
    ∀ {J : JointN} {ps : List Peripheral}, NGood J ps k →
    ∃ J' ps', J.mrun H = some J' ∧ NGood J' ps' k ∧ J'.fp = J.fp ∧ ps'.length = ps.length ∧
      ∀ l, l < ps.length → ∃ es, SlotRun J.fp ps J.ss ps' J'.ss l es := by
  intro H
  induction H with
  | nil => intro _ J ps hN; exact ⟨J, ps, rfl, hN, rfl, rfl, fun l _ => ⟨[], slotRun_nil _ _ _ _⟩⟩
  | cons e H ih =>
    intro hw J ps hN
    have hstep : ∃ J1 ps1, J.step e = some J1 ∧ NGood J1 ps1 k ∧ J1.fp = J.fp ∧ ps1.length = ps.length ∧
        ∀ l, l < ps.length → ∃ es, SlotRun J.fp ps J.ss ps1 J1.ss l es := by
      by_cases ht : ∃ now mid d, e = .turn now mid d
      · obtain ⟨now, mid, d, rfl⟩ := ht
        have hwe : (NEnv.turn now mid d).WellFormed := hw _ (by simp)
        obtain ⟨hnow, hd⟩ := hwe
        obtain ⟨J1, o, ps1, h1, h2, h3, h4, h5⟩ := turnN_any hN hnow mid hd
        exact ⟨J1, ps1, by simp only [JointN.step, h1], h2, h3, h4, fun l hl => let ⟨es, r, _⟩ := h5 l hl; ⟨es, r⟩⟩
      · obtain ⟨J1, ps1, h1, h2, h3, h4, _, h5⟩ := stepN_env hN e (by intro now mid d hc; exact ht ⟨now, mid, d, hc⟩)
        exact ⟨J1, ps1, h1, h2, h3, h4, fun l hl => ⟨_, h5 l hl⟩⟩
    obtain ⟨J1, ps1, h1, hN1, hfp1, hl1, hr1⟩ := hstep
    obtain ⟨J2, ps2, h2, hN2, hfp2, hl2, hr2⟩ := ih (fun e' he' => hw e' (by simp [he'])) hN1
    refine ⟨J2, ps2, by simp only [JointN.mrun, h1, h2], hN2, by rw [hfp2, hfp1], by rw [hl2, hl1], ?_⟩
    intro l hl
    obtain ⟨a, ra⟩ := hr1 l hl
    obtain ⟨b, rb⟩ := hr2 l (by rw [hl1]; exact hl)
    rw [hfp1] at rb
    exact ⟨a ++ b, slotRun_trans ra rb⟩

end PV.Live
