/-
A silent slave among several (property C07): turns whose delivery depends on the station addressed
(`turnF`), a slave that never answers (`df a = lossReq` for its address `a`) while the others are served
in any way: the silent slot's pair sees nothing but lost requests — `replicate v (visit false lossReq)`.
-/
import ProfiVerif.Lemmas.DpLiveNHist

namespace PV.Live
open PV PV.Dp

/-- The address a reply is expected from in the turn that starts now (`none`: no telegram, or a
broadcast). -/
def JointN.expecting (J : JointN) (now : Int) : Option UInt8 :=
  match Master.transmit J.fp now false J.m with
  | .send _ h _ => expectsReplyOf h
  | _ => none

/-- One turn under a fault plan by address: what happens to the exchange depends on who is addressed. -/
def JointN.turnF (J : JointN) (now : Int) (df : UInt8 → Delivery) : TurnResN :=
  J.turn now none (match J.expecting now with | some a => df a | none => .ok)

def JointN.runF (J : JointN) : List (Int × (UInt8 → Delivery)) → Option JointN
  | [] => some J
  | (now, df) :: rest =>
    match J.turnF now df with
    | .ok J' _ => J'.runF rest
    | _ => none

theorem turn_expect {J J' : JointN} {now : Int} {mid : Option Nat} {d : Delivery} {o : TurnObs}
    (h : J.turn now mid d = .ok J' o) : o.expect = J.expecting now := by
  unfold JointN.turn at h
  unfold JointN.expecting
  cases ht : Master.transmit J.fp now false J.m with
  | panic => rw [ht] at h; cases h
  | hang => rw [ht] at h; cases h
  | none m' =>
    rw [ht] at h
    simp only [TurnResN.ok.injEq] at h
    rw [← h.2]
  | send m' hd pdu =>
    rw [ht] at h
    simp only at h
    cases hs : hd.serialize pdu with
    | panic => rw [hs] at h; cases h
    | ok bytes =>
      rw [hs] at h
      simp only at h
      cases d with
      | lossReq => simp only [TurnResN.ok.injEq] at h; rw [← h.2]
      | ok =>
        simp only at h
        cases he : expectsReplyOf hd with
        | none => rw [he] at h; simp only [TurnResN.ok.injEq] at h; rw [← h.2]; first | rfl | simp [*]
        | some a =>
          rw [he] at h
          simp only at h
          split at h
          · simp only [TurnResN.ok.injEq] at h; rw [← h.2]; first | rfl | simp [*]
          · split at h
            · cases h
            · simp only [TurnResN.ok.injEq] at h; rw [← h.2]; first | rfl | simp [*]
      | lossRep =>
        simp only at h
        cases he : expectsReplyOf hd with
        | none => rw [he] at h; simp only [TurnResN.ok.injEq] at h; rw [← h.2]; first | rfl | simp [*]
        | some a =>
          rw [he] at h
          simp only at h
          split at h
          · simp only [TurnResN.ok.injEq] at h; rw [← h.2]; first | rfl | simp [*]
          · split at h
            · cases h
            · simp only [TurnResN.ok.injEq] at h; rw [← h.2]; first | rfl | simp [*]
      | sub t0 =>
        simp only at h
        cases he : expectsReplyOf hd with
        | none => rw [he] at h; simp only [TurnResN.ok.injEq] at h; rw [← h.2]; first | rfl | simp [*]
        | some a =>
          rw [he] at h
          simp only at h
          split at h
          · simp only [TurnResN.ok.injEq] at h; rw [← h.2]; first | rfl | simp [*]
          · split at h
            · cases h
            · simp only [TurnResN.ok.injEq] at h; rw [← h.2]; first | rfl | simp [*]

/-- A fault plan is well-formed: times in range, substituted replies are well-formed responses. -/
def PlanOk (F : List (Int × (UInt8 → Delivery))) : Prop :=
  ∀ x ∈ F, timeB x.1 ∧ ∀ b t, x.2 b = .sub t → RxOk t

/-- **The silent slot sees only lost requests.**  Whatever happens to the other slots, if every exchange
addressed to slave `l` is lost, the pair of slot `l` goes through `v` visits with lost requests and
nothing else, for some `v`. -/
theorem silent_slot {k : Nat} : ∀ (F : List (Int × (UInt8 → Delivery))), PlanOk F →
    ∀ {J : JointN} {ps : List Peripheral}, NGood J ps k → ∀ {l : Nat}, l < ps.length →
    (∀ x ∈ F, x.2 (J.ss.getD l default).cfg.address = .lossReq) →
    ∃ J' ps' v, J.runF F = some J' ∧ NGood J' ps' k ∧ J'.fp = J.fp ∧ ps'.length = ps.length ∧
      SlotRun J.fp ps J.ss ps' J'.ss l (List.replicate v (.visit false .lossReq)) := by
  intro F
  induction F with
  | nil => intro _ J ps hN l _ _; exact ⟨J, ps, 0, rfl, hN, rfl, rfl, slotRun_nil _ _ _ _⟩
  | cons x F ih =>
    intro hok J ps hN l hl hsil
    obtain ⟨now, df⟩ := x
    obtain ⟨hnow, hsub⟩ := hok (now, df) (by simp)
    have hd : ∀ t, (match J.expecting now with | some a => df a | none => Delivery.ok) = .sub t → RxOk t := by
      intro t ht
      cases he : J.expecting now with
      | none => rw [he] at ht; cases ht
      | some a => rw [he] at ht; exact hsub a t ht
    obtain ⟨J1, o, ps1, h1, hN1, hfp1, hl1, hsl⟩ := turnN_any hN hnow none hd
    obtain ⟨es, hr, a, b, rfl, ha, hb⟩ := hsl l hl
    have hb' : b = [] := by
      rcases hb with h | ⟨_, h⟩
      · exact h
      · cases h
    subst hb'
    -- the slot's steps in this turn: nothing, or one lost request
    have hes : a ++ [] = [] ∨ a ++ [] = [.visit false .lossReq] := by
      rcases ha with h | h | ⟨h, hexp⟩
      · left; simp [h]
      · right; simp [h]
      · right
        have he := turn_expect h1
        rw [hexp] at he
        have haddr : (ps.getD l default).address = (J.ss.getD l default).cfg.address := (hN.ok l hl).1.m.addr
        have hdl : (match J.expecting now with | some a => df a | none => Delivery.ok) = .lossReq := by
          rw [← he]; simp only; rw [haddr]; exact hsil (now, df) (by simp)
        rw [h, hdl]; simp
    have hcfg : (J1.ss.getD l default).cfg = (J.ss.getD l default).cfg := (slotOk_run (hN.ok l hl) hr).2
    obtain ⟨J2, ps2, v, h2, hN2, hfp2, hl2, hr2⟩ := ih (fun y hy => hok y (by simp [hy])) hN1 (l := l) (by rw [hl1]; exact hl)
      (by intro y hy; rw [hcfg]; exact hsil y (by simp [hy]))
    rw [hfp1] at hr2
    have hrun : J.runF ((now, df) :: F) = some J2 := by
      simp only [JointN.runF, JointN.turnF, h1, h2]
    rcases hes with h | h
    · rw [h] at hr
      exact ⟨J2, ps2, v, hrun, hN2, by rw [hfp2, hfp1], by rw [hl2, hl1], by simpa using slotRun_trans hr hr2⟩
    · rw [h] at hr
      refine ⟨J2, ps2, v + 1, hrun, hN2, by rw [hfp2, hfp1], by rw [hl2, hl1], ?_⟩
      have := slotRun_trans hr hr2
      rw [List.replicate_succ]
      simpa using this

end PV.Live
