/-
Timed ring, N stations, layer 3 (continued): the invariant `NInv` of the stable N-station ring on the
byte-accurate bus and its preservation by every event.  Helper lemmas.
-/
import ProfiVerif.Lemmas.TimedRingNStep

namespace PV
open StationGap TokenRing

/-- What the invariant talks about: `x` the station whose turn it is (record `sx`), the log `pre ++ [tr]`,
its phase, the horizon `H` (the next transmission starts no later), the lower bound `Lo` (and later than
this), the time `tl` of the last event. -/
structure NView where
  x : Nat
  sx : NetStation
  pre : List Transmission
  tr : Transmission
  ph : Phase
  H : Int
  Lo : Int
  tl : Int

/-- Phase-specific part (`seen j` = last poll time of station `j`). -/
def PhaseOkN (cfg : Cfg) (M : List Nat) (adr : Nat → Nat) (N : Nat) (v : NView) (seen : Nat → Int) : Prop :=
  match v.ph with
  | .hold p1 =>
    (∃ d f, v.sx.s.st = .useToken d f) ∧ v.sx.s.lastBusActivity = some p1 ∧ (∃ a, v.tr.bytes = tokenBytes (adr v.x) a) ∧
    cEnd cfg v.tr ≤ p1 ∧ p1 ≤ seen v.x ∧ seen v.x ≤ p1 + (cfg.b33 : Nat) ∧
    v.H = p1 + (cfg.b33 : Nat) + (cfg.P : Nat) ∧ v.Lo = p1 + (cfg.b33 : Nat) ∧ p1 ≤ cEnd cfg v.tr + (cfg.P : Nat)
  | .gap g =>
    v.tr.sender = v.x ∧ v.tr.bytes = statusRequestBytes g (adr v.x) ∧ v.sx.s.st = .awaitStatus g ∧
    v.sx.s.lastBusActivity = some (v.tr.start + (cfg.b66 : Nat)) ∧ v.tr.start ≤ seen v.x ∧
    seen v.x ≤ v.tr.start + (cfg.b66 : Nat) + (cfg.slot : Nat) ∧
    v.H = v.tr.start + (cfg.b66 : Nat) + (cfg.slot : Nat) + (cfg.P : Nat) ∧
    v.Lo = v.tr.start + (cfg.b66 : Nat) + (cfg.slot : Nat)
  | .pass =>
    v.tr.sender = v.x ∧ v.tr.bytes = tokenBytes (cycSucc (adr v.x) M) (adr v.x) ∧ v.sx.s.st = .checkTokenPass .first ∧
    v.sx.s.lastBusActivity = some (v.tr.start + (cfg.b33 : Nat)) ∧ v.tr.start ≤ seen v.x ∧
    v.H = cEnd cfg v.tr + 2 * (cfg.P : Nat) + (cfg.b33 : Nat) ∧ v.Lo = cEnd cfg v.tr + (cfg.b33 : Nat) ∧
    ∀ s, s < N → adr s = cycSucc (adr v.x) M → seen s < cEnd cfg v.tr

/-- **The invariant of the stable N-station ring.** -/
structure NInv (cfg : Cfg) (M : List Nat) (adr : Nat → Nat) (n : Net) (v : NView) : Prop where
  ring : RingCfg M adr n.stations.length
  xlt : v.x < n.stations.length
  gx : n.stations[v.x]? = some v.sx
  okx : StOkN cfg M v.sx (adr v.x)
  log : LogOk cfg M adr n.stations.length n.bus
  txs : n.bus.txs = v.pre ++ [v.tr]
  doneX : ∀ o ∈ n.bus.txs, o.sender = v.x ∨ cEnd cfg o ≤ n.bus.seen.getD v.x 0
  ownX : ∀ l, v.sx.s.lastBusActivity = some l → ∀ o ∈ n.bus.txs, o.sender = v.x → cEnd cfg o ≤ l + 1
  lis : ∀ j, j < n.stations.length → j ≠ v.x → ∃ st, n.stations[j]? = some st ∧ LOk cfg M adr n.bus v.H v.Lo j st
  tls : ∀ j, j < n.stations.length → n.bus.seen.getD j 0 ≤ v.tl
  tlt : ∀ t ∈ n.bus.txs, t.start ≤ v.tl
  pbx : v.sx.s.pendingBytes = 0
  rxx : v.sx.rx = []
  ph : PhaseOkN cfg M adr n.stations.length v (fun j => n.bus.seen.getD j 0)

/-- Schedule conditions of one event. -/
structure EvOkN (cfg : Cfg) (n : Net) (tl : Int) (i : Nat) (now : Int) : Prop where
  ilt : i < n.stations.length
  tl : tl ≤ now
  own : n.bus.seen.getD i 0 < now
  gap : ∀ j, j < n.stations.length → now ≤ n.bus.seen.getD j 0 + (cfg.P : Nat)

theorem NInv.last {cfg : Cfg} {M : List Nat} {adr : Nat → Nat} {n : Net} {v : NView} (h : NInv cfg M adr n v) :
    n.bus.txs.getLast? = some v.tr := by rw [h.txs]; simp

/-- The horizon is never further than `gmax` behind the end of the last transmission. -/
theorem NInv.horizon {cfg : Cfg} {M : List Nat} {adr : Nat → Nat} {n : Net} {v : NView} (h : NInv cfg M adr n v)
    (hok : cfg.Ok) : v.H ≤ cEnd cfg v.tr + (cfg.gmax : Nat) := by
  have hP := h.ph
  have hc5 := cfg.ce5 hok.rate
  unfold PhaseOkN at hP
  unfold Cfg.gmax
  cases hph : v.ph with
  | hold p1 =>
    rw [hph] at hP
    obtain ⟨-, -, -, -, -, -, hH, -, hp⟩ := hP
    omega
  | gap g =>
    rw [hph] at hP
    obtain ⟨-, hb, -, -, -, -, hH, -⟩ := hP
    have hlen : v.tr.bytes.length = 6 := by rw [hb]; exact statusRequestBytes_length _ _
    unfold cEnd
    rw [hlen]
    show v.H ≤ v.tr.start + ((cfg.ce 5 : Nat) : Int) + _
    omega
  | pass =>
    rw [hph] at hP
    obtain ⟨-, -, -, -, -, hH, -, -⟩ := hP
    omega

end PV
