/-
Timed ring, N stations, layer 3 (continued): the invariant `NInv` of the stable N-station ring on the
byte-accurate bus and its preservation by every event.  Helper lemmas.
-/
import ProfiVerif.Lemmas.TimedRingNStep

namespace PV
open StationGap TokenRing

/-- Phases of the station whose turn it is: `hold p1` it accepted the token at `p1`; `holdT` it has sent an
application telegram that expects no reply and keeps the token; `await a` it has sent an application request to
`a` and waits for the reply; `gap g` it has sent a GAP request to `g`; `pass` it has passed the token on. -/
inductive PhaseN
  | hold (p1 : Int)
  | holdT
  | gap (g : Nat)
  | pass
  | await (a : Nat)

/-- Phases in which the station holds the token for application traffic. -/
def PhaseN.useLike : PhaseN → Prop
  | .hold _ | .holdT | .await _ => True
  | _ => False

/-- Predicted end of a transmission (what the sender stamps). -/
def tEnd (cfg : Cfg) (t : Transmission) : Int := t.start + ((bitsToTime cfg.rate (11 * t.bytes.length) : Nat) : Int)

theorem tEnd_cEnd (cfg : Cfg) (hr : 0 < cfg.rate) (t : Transmission) (hn : 0 < t.bytes.length) :
    tEnd cfg t ≤ cEnd cfg t ∧ cEnd cfg t ≤ tEnd cfg t + 1 := by
  unfold tEnd cEnd Cfg.ce bitsToTime
  have e : 11 * (t.bytes.length - 1 + 1) * 1000000 = 11 * t.bytes.length * 1000000 := by
    have : t.bytes.length - 1 + 1 = t.bytes.length := by omega
    rw [this]
  rw [e]
  have h1 := Cfg.floor_le_ceil cfg.rate (11 * t.bytes.length * 1000000) hr
  have h2 := Cfg.ceil_le_floor_succ cfg.rate (11 * t.bytes.length * 1000000) hr
  omega

/-- An application telegram. -/
def IsAppTx (t : Transmission) : Prop := ∃ h pdu, t.bytes = frameSpec h pdu

/-- What the invariant talks about: `x` the station whose turn it is (record `sx`), the log `pre ++ [tr]`,
its phase, the horizon `H` (the next transmission starts no later), the lower bound `Lo` (and later than
this), the time `tl` of the last event. -/
structure NView where
  x : Nat
  sx : NetStation
  pre : List Transmission
  tr : Transmission
  ph : PhaseN
  H : Int
  Lo : Int
  tl : Int

/-- Phase-specific part (`seen j` = last poll time of station `j`). -/
def PhaseOkN (cfg : Cfg) (M : List Nat) (adr : Nat → Nat) (N : Nat) (v : NView) (seen : Nat → Int) : Prop :=
  match v.ph with
  | .hold p1 =>
    (∃ d f, v.sx.s.st = .useToken d f) ∧ v.sx.s.lastBusActivity = some p1 ∧ (∃ a, v.tr.bytes = tokenBytes (adr v.x) a) ∧
    cEnd cfg v.tr ≤ p1 ∧ p1 ≤ seen v.x ∧ seen v.x ≤ p1 + (cfg.b33 : Nat) ∧
    v.H = p1 + (cfg.b33 : Nat) + (cfg.P : Nat) ∧ v.Lo = p1 + (cfg.b33 : Nat) ∧ p1 ≤ cEnd cfg v.tr + (cfg.P : Nat)
  | .gap g =>
    v.tr.sender = v.x ∧ v.tr.bytes = statusRequestBytes g (adr v.x) ∧ v.sx.s.st = .awaitStatus g ∧
    v.sx.s.lastBusActivity = some (v.tr.start + (cfg.b66 : Nat)) ∧ v.tr.start ≤ seen v.x ∧
    seen v.x ≤ v.tr.start + (cfg.b66 : Nat) + (cfg.slot : Nat) ∧
    v.H = v.tr.start + (cfg.b66 : Nat) + (cfg.slot : Nat) + (cfg.P : Nat) ∧
    v.Lo = v.tr.start + (cfg.b66 : Nat) + (cfg.slot : Nat)
  | .holdT =>
    v.tr.sender = v.x ∧ IsAppTx v.tr ∧ (∃ d f, v.sx.s.st = .useToken d f) ∧
    v.sx.s.lastBusActivity = some (tEnd cfg v.tr) ∧ v.tr.start ≤ seen v.x ∧ seen v.x ≤ tEnd cfg v.tr + (cfg.b33 : Nat) ∧
    v.H = tEnd cfg v.tr + (cfg.b33 : Nat) + (cfg.P : Nat) ∧ v.Lo = tEnd cfg v.tr + (cfg.b33 : Nat)
  | .await a =>
    v.tr.sender = v.x ∧ IsAppTx v.tr ∧ (∃ d, v.sx.s.st = .awaitData a d) ∧
    v.sx.s.lastBusActivity = some (tEnd cfg v.tr) ∧ v.tr.start ≤ seen v.x ∧ seen v.x ≤ tEnd cfg v.tr + (cfg.slot : Nat) ∧
    v.H = tEnd cfg v.tr + (cfg.slot : Nat) + (cfg.P : Nat) ∧ v.Lo = tEnd cfg v.tr + (cfg.slot : Nat)
  | .pass =>
    v.tr.sender = v.x ∧ v.tr.bytes = tokenBytes (cycSucc (adr v.x) M) (adr v.x) ∧ v.sx.s.st = .checkTokenPass .first ∧
    v.sx.s.lastBusActivity = some (v.tr.start + (cfg.b33 : Nat)) ∧ v.tr.start ≤ seen v.x ∧
    v.H = cEnd cfg v.tr + 2 * (cfg.P : Nat) + (cfg.b33 : Nat) ∧ v.Lo = cEnd cfg v.tr + (cfg.b33 : Nat) ∧
    ∀ s, s < N → adr s = cycSucc (adr v.x) M → seen s < cEnd cfg v.tr

/-- **The invariant of the stable N-station ring.** -/
structure NInv (cfg : Cfg) (M : List Nat) (adr : Nat → Nat) (n : Net) (v : NView) : Prop where
  ring : RingCfg M adr n.stations.length
  xlt : v.x < n.stations.length
  gx : n.stations[v.x]? = some v.sx
  okx : StOkN cfg M v.sx (adr v.x)
  log : LogOk cfg M adr n.stations.length n.bus
  txs : n.bus.txs = v.pre ++ [v.tr]
  doneX : ∀ o ∈ n.bus.txs, o.sender = v.x ∨ cEnd cfg o ≤ n.bus.seen.getD v.x 0
  ownX : ∀ l, v.sx.s.lastBusActivity = some l → ∀ o ∈ n.bus.txs, o.sender = v.x → cEnd cfg o ≤ l + 1
  lis : ∀ j, j < n.stations.length → j ≠ v.x → ∃ st, n.stations[j]? = some st ∧ LOk cfg M adr n.bus v.H v.Lo j st
  tls : ∀ j, j < n.stations.length → n.bus.seen.getD j 0 ≤ v.tl
  tlt : ∀ t ∈ n.bus.txs, t.start ≤ v.tl
  pbx : v.sx.s.pendingBytes = 0
  rxx : v.sx.rx = []
  ph : PhaseOkN cfg M adr n.stations.length v (fun j => n.bus.seen.getD j 0)

/-- Schedule conditions of one event. -/
structure EvOkN (cfg : Cfg) (n : Net) (tl : Int) (i : Nat) (now : Int) : Prop where
  ilt : i < n.stations.length
  tl : tl ≤ now
  own : n.bus.seen.getD i 0 < now
  gap : ∀ j, j < n.stations.length → now ≤ n.bus.seen.getD j 0 + (cfg.P : Nat)

theorem NInv.last {cfg : Cfg} {M : List Nat} {adr : Nat → Nat} {n : Net} {v : NView} (h : NInv cfg M adr n v) :
    n.bus.txs.getLast? = some v.tr := by rw [h.txs]; simp

/-- The horizon is never further than `gmax` behind the end of the last transmission. -/
theorem NInv.horizon {cfg : Cfg} {M : List Nat} {adr : Nat → Nat} {n : Net} {v : NView} (h : NInv cfg M adr n v)
    (hok : cfg.Ok) : v.H ≤ cEnd cfg v.tr + (cfg.gmax : Nat) := by
  have hP := h.ph
  have hc5 := cfg.ce5 hok.rate
  unfold PhaseOkN at hP
  unfold Cfg.gmax
  cases hph : v.ph with
  | hold p1 =>
    rw [hph] at hP
    obtain ⟨-, -, -, -, -, -, hH, -, hp⟩ := hP
    omega
  | gap g =>
    rw [hph] at hP
    obtain ⟨-, hb, -, -, -, -, hH, -⟩ := hP
    have hlen : v.tr.bytes.length = 6 := by rw [hb]; exact statusRequestBytes_length _ _
    unfold cEnd
    rw [hlen]
    show v.H ≤ v.tr.start + ((cfg.ce 5 : Nat) : Int) + _
    omega
  | pass =>
    rw [hph] at hP
    obtain ⟨-, -, -, -, -, hH, -, -⟩ := hP
    omega
  | holdT =>
    rw [hph] at hP
    obtain ⟨hs, ⟨h0, pdu, hb⟩, -, -, -, -, hH, -⟩ := hP
    have hpos := (TxKind.wire h.ring (h.log.kinds v.tr (by rw [h.txs]; simp))).2.2
    have := (tEnd_cEnd cfg hok.rate v.tr hpos).1
    omega
  | await a =>
    rw [hph] at hP
    obtain ⟨hs, ⟨h0, pdu, hb⟩, -, -, -, -, hH, -⟩ := hP
    have hpos := (TxKind.wire h.ring (h.log.kinds v.tr (by rw [h.txs]; simp))).2.2
    have := (tEnd_cEnd cfg hok.rate v.tr hpos).1
    omega

/-- Address of the station whose turn it is to transmit next. -/
def NView.turn (v : NView) (M : List Nat) (adr : Nat → Nat) : Nat :=
  match v.ph with | .pass => cycSucc (adr v.x) M | _ => adr v.x

/-- Outcome of one event: the poll returns regularly and the invariant holds again; either nothing was
transmitted (same last transmission, same turn; the phase is unchanged or — the token was accepted — a fresh
`hold`), or the station whose turn it is transmitted `b`, later than 33 bit times after the end of the
previous transmission (after an own application telegram: not earlier than 33 bit times after its predicted
end, i.e. up to the 1 µs rounding): a GAP request to a non-member (turn stays), the token to the successor
(turn passes on), or an application telegram from one of its scripts (turn stays). -/
def NStepOut (cfg : Cfg) (M : List Nat) (adr : Nat → Nat) (n : Net) (v : NView) (i : Nat) (now : Int) : Prop :=
  ∃ n' v' inc c, n.poll i now = (n', inc, some (.ok c)) ∧ NInv cfg M adr n' v' ∧ v'.tl = now ∧
    ((c.tx = none ∧ v'.tr = v.tr ∧ v'.turn M adr = v.turn M adr ∧
        ((v'.ph = v.ph ∧ v'.x = v.x ∧ v'.H = v.H) ∨ (v.ph = .pass ∧ v'.ph = .hold now ∧ v'.x = i ∧ i ≠ v.x))) ∨
     (∃ b, c.tx = some b ∧ adr i = v.turn M adr ∧
        (cEnd cfg v.tr + (cfg.b33 : Nat) < now ∨ (v.ph = .holdT ∧ cEnd cfg v.tr + (cfg.b33 : Nat) ≤ now)) ∧
        v'.tr = { start := now, sender := i, bytes := b, dropped := false } ∧ (i = v.x ∧ v'.x = v.x) ∧
        ((∃ g, b = statusRequestBytes g (adr i) ∧ g ∉ M ∧ v'.turn M adr = adr i ∧ v'.ph = .gap g ∧ v.ph.useLike) ∨
         (b = tokenBytes (cycSucc (adr i) M) (adr i) ∧ v'.turn M adr = cycSucc (adr i) M ∧ v'.ph = .pass) ∨
         (∃ h pdu, b = frameSpec h pdu ∧ AppP h pdu ∧ v'.turn M adr = adr i ∧ (v'.ph = .holdT ∨ ∃ a, v'.ph = .await a) ∧
            (∀ st, n.stations[i]? = some st → ∀ P : Header → Bytes → Prop, AnsOk P st.apps → P h pdu) ∧ v.ph.useLike))))

theorem LogOk.seenSet {cfg : Cfg} {M : List Nat} {adr : Nat → Nat} {n : Nat} {b : Bus} (h : LogOk cfg M adr n b) (i : Nat) (now : Int) :
    LogOk cfg M adr n { b with seen := b.seen.set i now } :=
  ⟨h.rate, h.corrupt, h.drops, by simp [h.seen], h.chained, h.live, h.kinds⟩

/-- `now ≤ H` at every event: the next transmission is not overdue. -/
theorem NInv.now_le_H {cfg : Cfg} {M : List Nat} {adr : Nat → Nat} {n : Net} {v : NView} (h : NInv cfg M adr n v)
    (i : Nat) (now : Int) (e : EvOkN cfg n v.tl i now) : now ≤ v.H := by
  have hP := h.ph
  have hgx := e.gap v.x h.xlt
  unfold PhaseOkN at hP
  cases hph : v.ph with
  | hold p1 =>
    rw [hph] at hP
    obtain ⟨-, -, -, -, -, hs, hH, -, -⟩ := hP
    simp only at hs
    omega
  | gap g =>
    rw [hph] at hP
    obtain ⟨-, -, -, -, -, hs, hH, -⟩ := hP
    simp only at hs
    omega
  | holdT =>
    rw [hph] at hP
    obtain ⟨-, -, -, -, -, hs, hH, -⟩ := hP
    simp only at hs
    omega
  | await a =>
    rw [hph] at hP
    obtain ⟨-, -, -, -, -, hs, hH, -⟩ := hP
    simp only at hs
    omega
  | pass =>
    rw [hph] at hP
    obtain ⟨-, -, -, -, -, hH, -, hs⟩ := hP
    obtain ⟨s, hs1, hs2, -⟩ := h.ring.succ_idx v.x h.xlt
    have := hs s hs1 hs2
    have := e.gap s hs1
    simp only at *
    omega

/-- A listener `j` is polled and stays a listener. -/
theorem stepL_stay {cfg : Cfg} {M : List Nat} {adr : Nat → Nat} {n : Net} {v : NView} (h : NInv cfg M adr n v)
    (hok : cfg.Ok) (j : Nat) (hjx : j ≠ v.x) (now : Int) (e : EvOkN cfg n v.tl j now) (st : NetStation)
    (hst : n.stations[j]? = some st) (hLold : LOk cfg M adr n.bus v.H v.Lo j st) (inc : Bytes) (c : Ctx)
    (hd : n.bus.deliver j now = ({ n.bus with seen := n.bus.seen.set j now }, inc))
    (hp : st.s.poll st.apps now (n.bus.transmitting j now) (st.rx ++ inc) = .ok c) (htx : c.tx = none)
    (hL : LOk cfg M adr { n.bus with seen := n.bus.seen.set j now } v.H v.Lo j (upSt st c)) :
    NStepOut cfg M adr n v j now := by
  have hp' : st.s.poll st.apps now (Bus.transmitting { n.bus with seen := n.bus.seen.set j now } j now) (st.rx ++ inc) = .ok c := by
    rw [transmitting_seen]; exact hp
  have hpe := Net.poll_eq n j now st _ inc c hst hLold.1.alive hLold.1.online hd hp'
  rw [htx] at hpe
  have hjl : j < n.stations.length := e.ilt
  have hjs : j < n.bus.seen.length := by rw [h.log.seen]; exact hjl
  have htl := e.tl
  have hown := e.own
  refine ⟨_, { v with tl := now }, inc, c, hpe, ?_, rfl, .inl ⟨htx, rfl, rfl, .inl ⟨rfl, rfl, rfl⟩⟩⟩
  refine ⟨by simp only [List.length_set]; exact h.ring, by simp only [List.length_set]; exact h.xlt, ?_, h.okx,
    by simp only [List.length_set]; exact h.log.seenSet j now, h.txs, ?_, h.ownX, ?_, ?_, ?_, h.pbx, h.rxx, ?_⟩
  · simp only; rw [List.getElem?_set_ne hjx]; exact h.gx
  · intro o ho
    simp only
    rw [seen_set_other _ _ _ _ hjx]
    exact h.doneX o ho
  · intro j' hj' hj'x
    simp only [List.length_set] at hj'
    by_cases hjj : j' = j
    · rw [hjj]
      exact ⟨upSt st c, List.getElem?_set_self hjl, hL⟩
    · obtain ⟨st', hst', hL'⟩ := h.lis j' hj' hj'x
      refine ⟨st', by simp only; rw [List.getElem?_set_ne (Ne.symm hjj)]; exact hst', hL'.other j now (Ne.symm hjj)⟩
  · intro j' hj'
    simp only [List.length_set] at hj'
    simp only
    by_cases hjj : j' = j
    · subst hjj; rw [seen_set_self _ _ _ hjs]; exact Int.le_refl _
    · rw [seen_set_other _ _ _ _ (Ne.symm hjj)]; exact Int.le_trans (h.tls j' hj') htl
  · intro t ht; exact Int.le_trans (h.tlt t ht) htl
  · -- the phase facts: only `seen j` changed
    have hP := h.ph
    unfold PhaseOkN at hP ⊢
    simp only [List.length_set]
    cases hph : v.ph with
    | hold p1 =>
      rw [hph] at hP
      simp only at hP ⊢
      rw [seen_set_other _ _ _ _ hjx]
      exact hP
    | gap g =>
      rw [hph] at hP
      simp only at hP ⊢
      rw [seen_set_other _ _ _ _ hjx]
      exact hP
    | holdT =>
      rw [hph] at hP
      simp only at hP ⊢
      rw [seen_set_other _ _ _ _ hjx]
      exact hP
    | await a =>
      rw [hph] at hP
      simp only at hP ⊢
      rw [seen_set_other _ _ _ _ hjx]
      exact hP
    | pass =>
      rw [hph] at hP
      simp only at hP ⊢
      rw [seen_set_other _ _ _ _ hjx]
      obtain ⟨a1, a2, a3, a4, a5, a6, a7, a8⟩ := hP
      refine ⟨a1, a2, a3, a4, a5, a6, a7, ?_⟩
      intro s hs hsa
      by_cases hsj : s = j
      · subst hsj
        rw [seen_set_self _ _ _ hjs]
        -- the token for `s` is the last transmission and `s` is still a listener: it is incomplete
        obtain ⟨hokS, dn, rs, idle, l, h1, h2, h3, h4, h5, h0, h6, h7, h8, h9, hF, h10⟩ := hL
        simp only at h1 h2 h6 hF
        rw [seen_set_self _ _ _ hjs] at h2 h6
        have hrsne := hF ⟨v.tr, adr v.x, h.last, by rw [a2, hsa]⟩
        have hc := h.log.chained
        rw [h1] at hc
        have hcrs : CChained cfg rs := (List.pairwise_append.1 hc).2.1
        have hposrs : ∀ t ∈ rs, 0 < t.bytes.length := fun t ht =>
          (TxKind.wire h.ring (h.log.kinds t (by rw [h1]; exact List.mem_append_right _ ht))).2.2
        have hafter := rs_end_after cfg rs now hcrs hposrs h6
        have hlast := h.last
        rw [h1, List.getLast?_append] at hlast
        cases hg : rs.getLast? with
        | none => exact absurd (List.getLast?_eq_none_iff.1 hg) hrsne
        | some t2 =>
          rw [hg] at hlast
          have : t2 = v.tr := by simpa using hlast
          subst this
          exact hafter _ (List.mem_of_getLast? hg)
      · rw [seen_set_other _ _ _ _ (Ne.symm hsj)]
        exact a8 s hs hsa

/-- A listener `j` is polled and accepts the token: it becomes the station whose turn it is; the previous
one becomes a (supervising) listener. -/
theorem stepL_accept {cfg : Cfg} {M : List Nat} {adr : Nat → Nat} {n : Net} {v : NView} (h : NInv cfg M adr n v)
    (hok : cfg.Ok) (j : Nat) (hjx : j ≠ v.x) (now : Int) (e : EvOkN cfg n v.tl j now) (st : NetStation)
    (hst : n.stations[j]? = some st) (hLold : LOk cfg M adr n.bus v.H v.Lo j st) (inc : Bytes) (c : Ctx)
    (hd : n.bus.deliver j now = ({ n.bus with seen := n.bus.seen.set j now }, inc))
    (hp : st.s.poll st.apps now (n.bus.transmitting j now) (st.rx ++ inc) = .ok c) (htx : c.tx = none)
    (htok : ∃ t a, n.bus.txs.getLast? = some t ∧ t.bytes = tokenBytes (adr j) a)
    (hokS : StOkN cfg M (upSt st c) (adr j)) (hcst : c.s.st = .useToken ⟨now, none⟩ false)
    (hcl : c.s.lastBusActivity = some now) (hcp : c.s.pendingBytes = 0) (hcr : c.rx = [])
    (hdone : ∀ o ∈ n.bus.txs, o.sender = j ∨ cEnd cfg o ≤ now)
    (hown : ∀ o ∈ n.bus.txs, o.sender = j → cEnd cfg o ≤ now + 1) :
    NStepOut cfg M adr n v j now := by
  have hp' : st.s.poll st.apps now (Bus.transmitting { n.bus with seen := n.bus.seen.set j now } j now) (st.rx ++ inc) = .ok c := by
    rw [transmitting_seen]; exact hp
  have hpe := Net.poll_eq n j now st _ inc c hst hLold.1.alive hLold.1.online hd hp'
  rw [htx] at hpe
  have hjl : j < n.stations.length := e.ilt
  have hjs : j < n.bus.seen.length := by rw [h.log.seen]; exact hjl
  have htl := e.tl
  have hgj := e.gap j hjl
  have hmar := hok.margin
  have hc2 := cfg.ce2 hok.rate
  have haj := h.ring.lt j hjl
  have hax := h.ring.lt v.x h.xlt
  -- the phase is `pass` and `j` is the successor
  obtain ⟨t, a, hlt, hbt⟩ := htok
  have htr : t = v.tr := by rw [h.last] at hlt; exact (Option.some.inj hlt).symm
  subst htr
  have hP := h.ph
  unfold PhaseOkN at hP
  cases hph : v.ph with
  | hold p1 =>
    exfalso
    rw [hph] at hP
    obtain ⟨-, -, ⟨a', ha'⟩, -⟩ := hP
    rw [ha'] at hbt
    have := h.ring.ring.bound _ (h.ring.mem j hjl)
    have e1 : UInt8.ofNat (adr v.x) = UInt8.ofNat (adr j) := by
      unfold tokenBytes sendToken at hbt; simp only [List.cons.injEq, and_true, true_and] at hbt; exact hbt.1
    have e2 := congrArg UInt8.toNat e1
    rw [u8n _ (by omega), u8n _ (by omega)] at e2
    exact hjx (h.ring.inj j v.x hjl h.xlt e2.symm)
  | gap g =>
    exfalso
    rw [hph] at hP
    obtain ⟨-, hb, -⟩ := hP
    rw [hb] at hbt
    exact statusRequest_ne_token _ _ _ _ hbt
  | holdT =>
    exfalso
    rw [hph] at hP
    obtain ⟨-, ⟨h0, pdu, hb⟩, -⟩ := hP
    rw [hb] at hbt
    exact frameSpec_ne_token _ _ _ _ hbt
  | await a0 =>
    exfalso
    rw [hph] at hP
    obtain ⟨-, ⟨h0, pdu, hb⟩, -⟩ := hP
    rw [hb] at hbt
    exact frameSpec_ne_token _ _ _ _ hbt
  | pass =>
    rw [hph] at hP
    obtain ⟨a1, a2, a3, a4, a5, a6, a7, a8⟩ := hP
    simp only at a5 a8
    have hsm := h.ring.ring.bound _ (cycSucc_mem _ M (h.ring.mem v.x h.xlt))
    have hsucc : cycSucc (adr v.x) M = adr j := by
      rw [a2] at hbt
      have e1 : UInt8.ofNat (cycSucc (adr v.x) M) = UInt8.ofNat (adr j) := by
        unfold tokenBytes sendToken at hbt; simp only [List.cons.injEq, and_true, true_and] at hbt; exact hbt.1
      have e2 := congrArg UInt8.toNat e1
      rw [u8n _ (by omega), u8n _ (by omega)] at e2
      exact e2
    have hlen : v.tr.bytes.length = 3 := by rw [a2]; rfl
    have hce : cEnd cfg v.tr = v.tr.start + ((cfg.ce 2 : Nat) : Int) := by unfold cEnd; rw [hlen]
    have hsj : n.bus.seen.getD j 0 < v.tr.start + ((cfg.ce 2 : Nat) : Int) := by
      have := a8 j hjl hsucc.symm
      rw [hce] at this
      exact this
    have hend : cEnd cfg v.tr ≤ now := by
      rcases hdone v.tr (by rw [h.txs]; simp) with hs | hs
      · exact absurd (a1.symm.trans hs) (Ne.symm hjx)
      · exact hs
    refine ⟨_, { x := j, sx := upSt st c, pre := v.pre, tr := v.tr, ph := .hold now,
                 H := now + (cfg.b33 : Nat) + (cfg.P : Nat), Lo := now + (cfg.b33 : Nat), tl := now },
      inc, c, hpe, ?_, rfl, .inl ⟨htx, rfl, ?_, .inr ⟨hph, rfl, rfl, hjx⟩⟩⟩
    · refine ⟨by simp only [List.length_set]; exact h.ring, by simp only [List.length_set]; exact hjl,
        List.getElem?_set_self hjl, hokS, by simp only [List.length_set]; exact h.log.seenSet j now, h.txs, ?_, ?_, ?_, ?_, ?_,
        hcp, hcr, ?_⟩
      · intro o ho
        simp only
        rw [seen_set_self _ _ _ hjs]
        exact hdone o ho
      · intro l hl o ho hs
        have hl' : c.s.lastBusActivity = some l := hl
        rw [hcl] at hl'; cases hl'
        exact hown o ho hs
      · intro j' hj' hj'j
        simp only [List.length_set] at hj'
        by_cases hjx' : j' = v.x
        · -- the previous holder: a supervising listener that has everything
          rw [hjx']
          refine ⟨v.sx, by simp only; rw [List.getElem?_set_ne hjx]; exact h.gx, h.okx, n.bus.txs, [], false,
            v.tr.start + (cfg.b33 : Nat), by simp, ?_⟩
          simp only
          rw [seen_set_other _ _ _ _ hjx]
          refine ⟨h.doneX, (fun t ht => by cases ht), h.rxx, (by rw [h.pbx]; exact Nat.zero_le _), h.ownX _ a4,
            (fun t rest hrs => by cases hrs), a4, .inr ⟨(fun t ht => by cases ht), (by rw [hce] at hend; omega)⟩,
            (fun t ht => by cases ht), ?_, ?_⟩
          · intro hex
            exfalso
            obtain ⟨t', a', hlt', hbt'⟩ := hex
            have : t' = v.tr := by rw [h.last] at hlt'; exact (Option.some.inj hlt').symm
            subst this
            rw [a2] at hbt'
            have e1 : UInt8.ofNat (cycSucc (adr v.x) M) = UInt8.ofNat (adr v.x) := by
              unfold tokenBytes sendToken at hbt'; simp only [List.cons.injEq, and_true, true_and] at hbt'; exact hbt'.1
            have e2 := congrArg UInt8.toNat e1
            rw [u8n _ (by omega), u8n _ (by omega)] at e2
            exact h.ring.two _ (h.ring.mem v.x h.xlt) e2
          · simp only [Bool.false_eq_true, if_false]
            refine ⟨a3, ?_⟩
            unfold nextArr
            simp only
            omega
        · obtain ⟨st', hst', hL'⟩ := h.lis j' hj' hjx'
          refine ⟨st', by simp only; rw [List.getElem?_set_ne (Ne.symm hj'j)]; exact hst', ?_⟩
          exact (hL'.other j now (Ne.symm hj'j)).mono (by rw [a6, hce]; simp only; omega) (by rw [a7]; simp only; omega)
      · intro j' hj'
        simp only [List.length_set] at hj'
        simp only
        by_cases hjj : j' = j
        · rw [hjj, seen_set_self _ _ _ hjs]; exact Int.le_refl _
        · rw [seen_set_other _ _ _ _ (Ne.symm hjj)]; exact Int.le_trans (h.tls j' hj') htl
      · intro t ht; exact Int.le_trans (h.tlt t ht) htl
      · unfold PhaseOkN
        simp only
        rw [seen_set_self _ _ _ hjs]
        unfold upSt
        simp only
        refine ⟨⟨_, _, hcst⟩, hcl, ⟨a, hbt⟩, hend, Int.le_refl _, by omega, trivial, trivial, by omega⟩
    · unfold NView.turn
      simp only [hph, hsucc]

/-- **An event on a listening station.** -/
theorem stepL {cfg : Cfg} {M : List Nat} {adr : Nat → Nat} {n : Net} {v : NView} (h : NInv cfg M adr n v)
    (hok : cfg.Ok) (j : Nat) (hjx : j ≠ v.x) (now : Int) (e : EvOkN cfg n v.tl j now) :
    NStepOut cfg M adr n v j now := by
  obtain ⟨st, hst, hL⟩ := h.lis j e.ilt hjx
  have hnowH := h.now_le_H j now e
  have hH := h.horizon hok
  obtain ⟨inc, c, hd, hp, htx, hcase⟩ := listener_step hL hok h.ring h.log e.ilt now e.own hnowH
    (fun t ht => Int.le_trans (h.tlt t ht) e.tl)
    (fun t ht => by rw [h.last] at ht; cases ht; exact hH)
  rcases hcase with hL' | ⟨htok, hokS, a1, a2, a3, a4, a5, a6⟩
  · exact stepL_stay h hok j hjx now e st hst hL inc c hd hp htx hL'
  · exact stepL_accept h hok j hjx now e st hst hL inc c hd hp htx htok hokS a1 a2 a3 a4 a5 a6


/-! ## Events on the station whose turn it is -/

/-- Nothing is delivered to the station whose turn it is. -/
theorem NInv.deliverX {cfg : Cfg} {M : List Nat} {adr : Nat → Nat} {n : Net} {v : NView} (h : NInv cfg M adr n v)
    (hok : cfg.Ok) (now : Int) (hsn : n.bus.seen.getD v.x 0 ≤ now) :
    n.bus.deliver v.x now = ({ n.bus with seen := n.bus.seen.set v.x now }, []) := by
  obtain ⟨inc, hd, hcat⟩ := listener_deliver h.ring h.log hok.rate v.x now n.bus.txs [] (by simp) h.doneX
    (fun t ht => by cases ht) hsn
  simp only [arrived, List.map_nil, List.flatten_nil, List.nil_append] at hcat
  rw [hd, hcat]

def NView.setX (v : NView) (c : Ctx) (now : Int) : NView := { v with sx := upSt v.sx c, tl := now }

/-- A poll of the station whose turn it is that transmits nothing and keeps its phase and stamp. -/
theorem ninv_quiet_x {cfg : Cfg} {M : List Nat} {adr : Nat → Nat} {n : Net} {v : NView} (h : NInv cfg M adr n v)
    (hok : cfg.Ok) (now : Int) (e : EvOkN cfg n v.tl v.x now) (c : Ctx)
    (hp : v.sx.s.poll v.sx.apps now (n.bus.transmitting v.x now) [] = .ok c)
    (htx : c.tx = none) (h1 : c.s.p = v.sx.s.p) (h2 : c.s.ring = v.sx.s.ring) (h3 : c.s.online = true)
    (h4 : c.s.pendingBytes = 0) (h5 : c.rx = []) (h6 : c.s.lastBusActivity = v.sx.s.lastBusActivity)
    (h7 : AnsOk AppP c.apps)
    (hph : PhaseOkN cfg M adr n.stations.length (v.setX c now)
      (fun j => ({ n.bus with seen := n.bus.seen.set v.x now } : Bus).seen.getD j 0)) :
    NStepOut cfg M adr n v v.x now := by
  have hd := h.deliverX hok now (Int.le_of_lt e.own)
  have hp' : v.sx.s.poll v.sx.apps now (Bus.transmitting { n.bus with seen := n.bus.seen.set v.x now } v.x now)
      (v.sx.rx ++ []) = .ok c := by rw [transmitting_seen, h.rxx]; exact hp
  have hpe := Net.poll_eq n v.x now v.sx _ [] c h.gx h.okx.alive h.okx.online hd hp'
  rw [htx] at hpe
  have hxs : v.x < n.bus.seen.length := by rw [h.log.seen]; exact h.xlt
  have htl := e.tl
  refine ⟨_, v.setX c now, [], c, hpe, ?_, rfl, .inl ⟨htx, rfl, rfl, .inl ⟨rfl, rfl, rfl⟩⟩⟩
  unfold NView.setX at hph ⊢
  refine ⟨by simp only [List.length_set]; exact h.ring, by simp only [List.length_set]; exact h.xlt,
    List.getElem?_set_self h.xlt, h.okx.step now _ _ c hp' h1 (by rw [h2]; exact h.okx.view) h3 h7,
    by simp only [List.length_set]; exact h.log.seenSet v.x now, h.txs, ?_, ?_, ?_, ?_, ?_, h4, h5, ?_⟩
  · intro o ho
    simp only
    rw [seen_set_self _ _ _ hxs]
    exact (h.doneX o ho).imp id (fun hh => by have := e.own; omega)
  · intro l hl o ho hs
    have hl' : c.s.lastBusActivity = some l := hl
    rw [h6] at hl'
    exact h.ownX l hl' o ho hs
  · intro j hj hjx
    simp only [List.length_set] at hj
    obtain ⟨st', hst', hL'⟩ := h.lis j hj hjx
    exact ⟨st', by simp only; rw [List.getElem?_set_ne (Ne.symm hjx)]; exact hst', hL'.other v.x now (Ne.symm hjx)⟩
  · intro j hj
    simp only [List.length_set] at hj
    simp only
    by_cases hjj : j = v.x
    · rw [hjj, seen_set_self _ _ _ hxs]; exact Int.le_refl _
    · rw [seen_set_other _ _ _ _ (Ne.symm hjj)]; exact Int.le_trans (h.tls j hj) htl
  · intro t ht; exact Int.le_trans (h.tlt t ht) htl
  · simp only [List.length_set]; exact hph

def NView.sendX (v : NView) (c : Ctx) (pre' : List Transmission) (b : Bytes) (ph' : PhaseN) (H' Lo' : Int) (now : Int) : NView :=
  { x := v.x, sx := upSt v.sx c, pre := pre', tr := { start := now, sender := v.x, bytes := b, dropped := false },
    ph := ph', H := H', Lo := Lo', tl := now }

/-- A poll of the station whose turn it is that transmits `b`. -/
theorem ninv_send_x {cfg : Cfg} {M : List Nat} {adr : Nat → Nat} {n : Net} {v : NView} (h : NInv cfg M adr n v)
    (hok : cfg.Ok) (hP100 : cfg.P ≤ 100000) (now : Int) (e : EvOkN cfg n v.tl v.x now) (c : Ctx) (b : Bytes)
    (ph' : PhaseN) (H' Lo' : Int)
    (hp : v.sx.s.poll v.sx.apps now (n.bus.transmitting v.x now) [] = .ok c)
    (htx : c.tx = some b) (h1 : c.s.p = v.sx.s.p) (h2 : RingView M (adr v.x) c.s.ring) (h3 : c.s.online = true)
    (h4 : c.s.pendingBytes = 0) (h5 : c.rx = []) (h7 : AnsOk AppP c.apps) (hbl : 0 < b.length)
    (hkind : TxKind M adr n.stations.length { start := now, sender := v.x, bytes := b, dropped := false })
    (hq1 : v.Lo < now) (hLo : v.Lo ≤ Lo') (hends : ∀ o ∈ n.bus.txs, cEnd cfg o ≤ now)
    (hnotok : ∀ j, j < n.stations.length → j ≠ v.x → ∀ a, v.tr.bytes ≠ tokenBytes (adr j) a)
    (hown' : ∀ l, c.s.lastBusActivity = some l → now ≤ l ∧ now + ((cfg.ce (b.length - 1) : Nat) : Int) ≤ l + 1)
    (hph : ∀ pre', PhaseOkN cfg M adr n.stations.length (v.sendX c pre' b ph' H' Lo' now)
      (fun j => ({ n.bus with seen := n.bus.seen.set v.x now } : Bus).seen.getD j 0)) :
    ∃ n' pre', n.poll v.x now = (n', [], some (.ok c)) ∧ NInv cfg M adr n' (v.sendX c pre' b ph' H' Lo' now) := by
  have hr := hok.rate
  have hd := h.deliverX hok now (Int.le_of_lt e.own)
  have hp' : v.sx.s.poll v.sx.apps now (Bus.transmitting { n.bus with seen := n.bus.seen.set v.x now } v.x now)
      (v.sx.rx ++ []) = .ok c := by rw [transmitting_seen, h.rxx]; exact hp
  have hpe := Net.poll_eq n v.x now v.sx _ [] c h.gx h.okx.alive h.okx.online hd hp'
  rw [htx] at hpe
  have hxs : v.x < n.bus.seen.length := by rw [h.log.seen]; exact h.xlt
  have htl := e.tl
  have hnowH := h.now_le_H v.x now e
  have hrate : 0 < n.bus.rate := by rw [h.log.rate]; exact hr
  obtain ⟨old', e1, e2, e3, e4, e5, e6⟩ := Bus.send_txs { n.bus with seen := n.bus.seen.set v.x now } v.x now b h.log.drops hrate
  have hspec := Bus.send_spec { n.bus with seen := n.bus.seen.set v.x now } v.x now b h.log.drops
  refine ⟨_, old', hpe, ?_⟩
  have hphs := hph old'
  unfold NView.sendX at hphs ⊢
  have hmem : ∀ o ∈ old', o ∈ n.bus.txs := fun o ho => e2 o ho
  have hsub : old'.Sublist n.bus.txs := by
    have : (Bus.send { n.bus with seen := n.bus.seen.set v.x now } v.x now b).txs =
        (n.bus.txs.filter fun t => decide (n.bus.txEnd t + 100000 > now)) ++
          [({ start := now, sender := v.x, bytes := b, dropped := false } : Transmission)] := by
      rw [hspec]
      simp only [List.filter_append, List.filter_cons, List.filter_nil]
      have : decide (Bus.txEnd { n.bus with seen := n.bus.seen.set v.x now }
          ({ start := now, sender := v.x, bytes := b, dropped := false } : Transmission) + 100000 > now) = true := by
        have := Bus.byteEnd_pos n.bus hrate (b.length - 1)
        unfold Bus.txEnd
        simp only [decide_eq_true_eq]
        show now + n.bus.byteEnd (b.length - 1) + 100000 > now
        omega
      rw [if_pos this]
      rfl
    rw [e1] at this
    have hh := List.append_inj_left' this rfl
    rw [hh]
    exact List.filter_sublist
  refine ⟨by simp only [List.length_set]; exact h.ring, by simp only [List.length_set]; exact h.xlt,
    List.getElem?_set_self h.xlt, h.okx.step now _ _ c hp' h1 h2 h3 h7, ?_, e1, ?_, ?_, ?_, ?_, ?_,
    h4, h5, ?_⟩
  · -- the new log
    simp only [List.length_set]
    refine ⟨e3.trans h.log.rate, e5.trans h.log.corrupt, e6, by rw [e4]; simp [h.log.seen], ?_, ?_, ?_⟩
    · rw [e1]
      unfold CChained
      rw [List.pairwise_append]
      refine ⟨List.Pairwise.sublist hsub h.log.chained, List.pairwise_singleton _ _, ?_⟩
      intro o ho t ht
      simp only [List.mem_singleton] at ht
      subst ht
      exact hends o (hmem o ho)
    · intro t ht
      rw [e1] at ht
      rcases List.mem_append.1 ht with ht | ht
      · exact h.log.live t (hmem t ht)
      · simp only [List.mem_singleton] at ht; subst ht; rfl
    · intro t ht
      rw [e1] at ht
      rcases List.mem_append.1 ht with ht | ht
      · exact h.log.kinds t (hmem t ht)
      · simp only [List.mem_singleton] at ht; subst ht; exact hkind
  · intro o ho
    rw [e1] at ho
    rw [e4]
    simp only
    rw [seen_set_self _ _ _ hxs]
    rcases List.mem_append.1 ho with ho | ho
    · exact .inr (hends o (hmem o ho))
    · simp only [List.mem_singleton] at ho; subst ho; exact .inl rfl
  · intro l hl o ho hs
    obtain ⟨hl1, hl2⟩ := hown' l hl
    rw [e1] at ho
    rcases List.mem_append.1 ho with ho | ho
    · have := hends o (hmem o ho); omega
    · simp only [List.mem_singleton] at ho; subst ho; unfold cEnd; simp only; exact hl2
  · intro j hj hjx
    simp only [List.length_set] at hj
    obtain ⟨st', hst', hL'⟩ := h.lis j hj hjx
    refine ⟨st', by simp only; rw [List.getElem?_set_ne (Ne.symm hjx)]; exact hst', ?_⟩
    have hLo' := (hL'.other v.x now (Ne.symm hjx))
    refine LOk.send (b := { n.bus with seen := n.bus.seen.set v.x now }) hLo' h.ring (h.log.seenSet v.x now) hr v.x
      (Ne.symm hjx) now b hbl hq1 hnowH hLo ?_ ?_ hP100 ?_ ?_ e4
    · simp only; rw [seen_set_other _ _ _ _ (Ne.symm hjx)]; exact Int.le_trans (h.tls j hj) htl
    · simp only; rw [seen_set_other _ _ _ _ (Ne.symm hjx)]; exact e.gap j hj
    · intro t ht a
      have hl := h.last
      simp only at ht
      rw [hl] at ht
      cases ht
      exact hnotok j hj hjx a
    · show (Bus.send { n.bus with seen := n.bus.seen.set v.x now } v.x now b).txs = _
      rw [hspec]
  · intro j hj
    simp only [List.length_set] at hj
    rw [e4]
    simp only
    by_cases hjj : j = v.x
    · rw [hjj, seen_set_self _ _ _ hxs]; exact Int.le_refl _
    · rw [seen_set_other _ _ _ _ (Ne.symm hjj)]; exact Int.le_trans (h.tls j hj) htl
  · intro t ht
    rw [e1] at ht
    rcases List.mem_append.1 ht with ht | ht
    · exact Int.le_trans (h.tlt t (hmem t ht)) htl
    · simp only [List.mem_singleton] at ht; subst ht; exact Int.le_refl _
  · simp only [List.length_set]
    rw [e4]
    exact hphs

theorem NInv.phyX {cfg : Cfg} {M : List Nat} {adr : Nat → Nat} {n : Net} {v : NView} (h : NInv cfg M adr n v)
    (l now : Int) (hl : v.sx.s.lastBusActivity = some l) (hlt : l < now) : n.bus.transmitting v.x now = false :=
  transmitting_listener cfg M adr _ n.bus h.log v.x l now (h.ownX l hl) hlt


/-- Phase `hold`, polled before the end of the synchronisation pause. -/
theorem stepNX_hold_wait {cfg : Cfg} {M : List Nat} {adr : Nat → Nat} {n : Net} {v : NView} (h : NInv cfg M adr n v)
    (hok : cfg.Ok) (p1 : Int) (hph : v.ph = .hold p1) (now : Int) (e : EvOkN cfg n v.tl v.x now)
    (hw : now ≤ p1 + (cfg.b33 : Nat)) : NStepOut cfg M adr n v v.x now := by
  have hP := h.ph
  unfold PhaseOkN at hP
  rw [hph] at hP
  obtain ⟨⟨d, f, hst⟩, hlx, htok, hend, hp1, hsx, hH, hLo, hp1P⟩ := hP
  simp only at hp1 hsx
  have hown := e.own
  have hxs : v.x < n.bus.seen.length := by rw [h.log.seen]; exact h.xlt
  have hphy := h.phyX p1 now hlx (by omega)
  obtain ⟨s', hp, hce, hl', hpb'⟩ := holder_poll_waits v.sx.s v.sx.apps now p1 d f h.okx.son hst hlx
    (by rw [h.okx.b33]; exact hw)
  refine ninv_quiet_x h hok now e { s := s', apps := v.sx.apps, rx := [] } (by rw [hphy]; exact hp) rfl hce.1 hce.2.1
    (hce.2.2.1.trans h.okx.son) (hpb'.trans h.pbx) rfl (hl'.trans hlx.symm) h.okx.apps ?_
  unfold PhaseOkN NView.setX upSt
  simp only [hph]
  rw [seen_set_self _ _ _ hxs]
  exact ⟨⟨d, f, hce.2.2.2.2.1.trans hst⟩, hl', htok, hend, by omega, hw, hH, hLo, hp1P⟩

/-- Phase `holdT` (own application telegram sent, no reply expected), polled before the end of the
synchronisation pause. -/
theorem stepNX_holdT_wait {cfg : Cfg} {M : List Nat} {adr : Nat → Nat} {n : Net} {v : NView} (h : NInv cfg M adr n v)
    (hok : cfg.Ok) (hph : v.ph = .holdT) (now : Int) (e : EvOkN cfg n v.tl v.x now)
    (hw : now ≤ tEnd cfg v.tr + (cfg.b33 : Nat)) : NStepOut cfg M adr n v v.x now := by
  have hP := h.ph
  unfold PhaseOkN at hP
  rw [hph] at hP
  obtain ⟨hs1, happ, ⟨d, f, hst⟩, hlx, hq, hsx, hH, hLo⟩ := hP
  simp only at hq hsx
  have hown := e.own
  have hxs : v.x < n.bus.seen.length := by rw [h.log.seen]; exact h.xlt
  have hpoll : ∃ s', v.sx.s.poll v.sx.apps now (n.bus.transmitting v.x now) [] = .ok { s := s', apps := v.sx.apps, rx := [] } ∧
      CoreEq s' v.sx.s ∧ s'.lastBusActivity = some (tEnd cfg v.tr) ∧ s'.pendingBytes = v.sx.s.pendingBytes := by
    by_cases hle : now ≤ tEnd cfg v.tr
    · exact ⟨v.sx.s, poll_ongoing v.sx.s v.sx.apps now _ [] h.okx.son (by rw [hst]; simp) (by rw [hst]; simp) _ hlx hle,
        ⟨rfl, rfl, rfl, rfl, rfl, rfl⟩, hlx, rfl⟩
    · rw [h.phyX _ now hlx (by omega)]
      exact holder_poll_waits v.sx.s v.sx.apps now _ d f h.okx.son hst hlx (by rw [h.okx.b33]; exact hw)
  obtain ⟨s', hp, hce, hl', hpb'⟩ := hpoll
  refine ninv_quiet_x h hok now e { s := s', apps := v.sx.apps, rx := [] } hp rfl hce.1 hce.2.1
    (hce.2.2.1.trans h.okx.son) (hpb'.trans h.pbx) rfl (hl'.trans hlx.symm) h.okx.apps ?_
  unfold PhaseOkN NView.setX upSt
  simp only [hph]
  rw [seen_set_self _ _ _ hxs]
  exact ⟨hs1, happ, ⟨d, f, hce.2.2.2.2.1.trans hst⟩, hl', by omega, hw, hH, hLo⟩

/-- Phase `gap`, polled before the slot time has expired. -/
theorem stepNX_gap_wait {cfg : Cfg} {M : List Nat} {adr : Nat → Nat} {n : Net} {v : NView} (h : NInv cfg M adr n v)
    (hok : cfg.Ok) (g : Nat) (hph : v.ph = .gap g) (now : Int) (e : EvOkN cfg n v.tl v.x now)
    (hw : now ≤ v.tr.start + (cfg.b66 : Nat) + (cfg.slot : Nat)) : NStepOut cfg M adr n v v.x now := by
  have hP := h.ph
  unfold PhaseOkN at hP
  rw [hph] at hP
  obtain ⟨hs1, hb, hst, hlx, hq, hsx, hH, hLo⟩ := hP
  simp only at hq hsx
  have hown := e.own
  have hxs : v.x < n.bus.seen.length := by rw [h.log.seen]; exact h.xlt
  have hpoll : v.sx.s.poll v.sx.apps now (n.bus.transmitting v.x now) [] = .ok { s := v.sx.s, apps := v.sx.apps, rx := [] } := by
    by_cases hle : now ≤ v.tr.start + (cfg.b66 : Nat)
    · exact poll_ongoing v.sx.s v.sx.apps now _ [] h.okx.son (by rw [hst]; simp) (by rw [hst]; simp) _ hlx hle
    · rw [h.phyX _ now hlx (by omega)]
      exact await_poll_waitsA v.sx.s v.sx.apps now _ g h.okx.inv h.okx.son hst hlx (by omega) (by rw [h.okx.slot]; omega)
  refine ninv_quiet_x h hok now e _ hpoll rfl rfl rfl h.okx.son h.pbx rfl rfl h.okx.apps ?_
  unfold PhaseOkN NView.setX upSt
  simp only [hph]
  rw [seen_set_self _ _ _ hxs]
  exact ⟨hs1, hb, hst, hlx, by omega, hw, hH, hLo⟩

/-- Phase `await`, polled before the slot time has expired. -/
theorem stepNX_await_wait {cfg : Cfg} {M : List Nat} {adr : Nat → Nat} {n : Net} {v : NView} (h : NInv cfg M adr n v)
    (hok : cfg.Ok) (a : Nat) (hph : v.ph = .await a) (now : Int) (e : EvOkN cfg n v.tl v.x now)
    (hw : now ≤ tEnd cfg v.tr + (cfg.slot : Nat)) : NStepOut cfg M adr n v v.x now := by
  have hP := h.ph
  unfold PhaseOkN at hP
  rw [hph] at hP
  obtain ⟨hs1, happ, ⟨d, hst⟩, hlx, hq, hsx, hH, hLo⟩ := hP
  simp only at hq hsx
  have hown := e.own
  have hxs : v.x < n.bus.seen.length := by rw [h.log.seen]; exact h.xlt
  have hpoll : v.sx.s.poll v.sx.apps now (n.bus.transmitting v.x now) [] = .ok { s := v.sx.s, apps := v.sx.apps, rx := [] } := by
    by_cases hle : now ≤ tEnd cfg v.tr
    · exact poll_ongoing v.sx.s v.sx.apps now _ [] h.okx.son (by rw [hst]; simp) (by rw [hst]; simp) _ hlx hle
    · rw [h.phyX _ now hlx (by omega)]
      exact awaitD_poll_waitsA v.sx.s v.sx.apps now _ a d h.okx.inv h.okx.son hst hlx (by omega) (by rw [h.okx.slot]; omega)
  refine ninv_quiet_x h hok now e _ hpoll rfl rfl rfl h.okx.son h.pbx rfl rfl h.okx.apps ?_
  unfold PhaseOkN NView.setX upSt
  simp only [hph]
  rw [seen_set_self _ _ _ hxs]
  exact ⟨hs1, happ, ⟨d, hst⟩, hlx, by omega, hw, hH, hLo⟩

/-- Phase `pass`, the supervising sender is polled: the successor has not even seen the complete token. -/
theorem stepNX_pass {cfg : Cfg} {M : List Nat} {adr : Nat → Nat} {n : Net} {v : NView} (h : NInv cfg M adr n v)
    (hok : cfg.Ok) (hph : v.ph = .pass) (now : Int) (e : EvOkN cfg n v.tl v.x now) : NStepOut cfg M adr n v v.x now := by
  have hP := h.ph
  unfold PhaseOkN at hP
  rw [hph] at hP
  obtain ⟨hs1, hb, hst, hlx, hq, hH, hLo, hsucc⟩ := hP
  simp only at hq hsucc
  have hown := e.own
  have hmar := hok.margin
  have hc2 := cfg.ce2 hok.rate
  have hxs : v.x < n.bus.seen.length := by rw [h.log.seen]; exact h.xlt
  have hlen : v.tr.bytes.length = 3 := by rw [hb]; rfl
  have hce : cEnd cfg v.tr = v.tr.start + ((cfg.ce 2 : Nat) : Int) := by unfold cEnd; rw [hlen]
  obtain ⟨s, hs1', hs2, hsx⟩ := h.ring.succ_idx v.x h.xlt
  have hss := hsucc s hs1' hs2
  rw [hce] at hss
  have hgs := e.gap s hs1'
  have hpoll : ∃ c', v.sx.s.poll v.sx.apps now (n.bus.transmitting v.x now) [] = .ok c' ∧ c'.tx = none ∧ c'.s = v.sx.s ∧
      c'.apps = v.sx.apps ∧ c'.rx = [] := by
    by_cases hle : now ≤ v.tr.start + (cfg.b33 : Nat)
    · exact ⟨_, poll_ongoing v.sx.s v.sx.apps now _ [] h.okx.son (by rw [hst]; simp) (by rw [hst]; simp) _ hlx hle,
        rfl, rfl, rfl, rfl⟩
    · rw [h.phyX _ now hlx (by omega)]
      obtain ⟨c', hc', htx', hs', ha', hr'⟩ := check_poll_partialA v.sx.s v.sx.apps now [] .first _ h.okx.inv h.okx.son hst hlx (by omega)
        (.inr (by rw [h.okx.slot]; omega)) receiveAll_nil
      simp only [List.length_nil, checkBus_nil] at hs'
      exact ⟨c', hc', htx', hs', ha', hr'⟩
  obtain ⟨c', hc', htx', hs', ha', hr'⟩ := hpoll
  refine ninv_quiet_x h hok now e c' hc' htx' (by rw [hs']) (by rw [hs']) (by rw [hs']; exact h.okx.son)
    (by rw [hs']; exact h.pbx) hr' (by rw [hs']) (by rw [ha']; exact h.okx.apps) ?_
  unfold PhaseOkN NView.setX upSt
  simp only [hph, hs']
  rw [seen_set_self _ _ _ hxs]
  refine ⟨hs1, hb, hst, hlx, by omega, hH, hLo, ?_⟩
  intro s' hs'1 hs'2
  have hne : s' ≠ v.x := by
    intro e'; rw [e'] at hs'2; exact h.ring.two _ (h.ring.mem v.x h.xlt) hs'2.symm
  rw [seen_set_other _ _ _ _ (Ne.symm hne)]
  exact hsucc s' hs'1 hs'2

theorem bitsN_11_3 (p : Params) : p.bits (11 * 3) = p.bits 33 := rfl
theorem bitsN_11_6 (p : Params) : p.bits (11 * 6) = p.bits 66 := rfl

theorem nextGapPoll_between (ts ns hsa cur a : Nat) (h : nextGapPoll ts ns hsa cur = .poll a) (hne : ns ≠ ts) :
    Between ts ns a := by
  unfold nextGapPoll at h
  by_cases h0 : hsa = 0
  · rw [if_pos h0] at h; cases h
  rw [if_neg h0] at h
  by_cases h1 : cur ≠ hsa - 1 ∧ cur ≥ 255
  · rw [if_pos h1] at h; cases h
  rw [if_neg h1] at h
  simp only at h
  generalize (if cur = hsa - 1 then 0 else cur + 1) = nx at h
  unfold Between
  by_cases h2 : ns > ts
  · simp only [h2, if_true, decide_eq_true_eq] at h
    by_cases hg : nx > ts ∧ nx < ns
    · rw [if_pos hg] at h; cases h
      refine ⟨by omega, ?_⟩
      rw [if_pos (by omega)]; exact hg
    · rw [if_neg hg] at h; cases h
  · by_cases h3 : ns < ts
    · simp only [h2, h3, if_true, if_false, decide_eq_true_eq] at h
      by_cases hg : nx > ts ∨ nx < ns
      · rw [if_pos hg] at h; cases h
        refine ⟨by omega, ?_⟩
        rw [if_neg (by omega), if_pos h3]; exact hg
      · rw [if_neg hg] at h; cases h
    · omega

/-- The station whose turn it is passes the token (from `hold` directly, or after an unanswered GAP request). -/
theorem stepNX_token {cfg : Cfg} {M : List Nat} {adr : Nat → Nat} {n : Net} {v : NView} (h : NInv cfg M adr n v)
    (hok : cfg.Ok) (hP100 : cfg.P ≤ 100000) (now : Int) (e : EvOkN cfg n v.tl v.x now) (c : Ctx)
    (hp : v.sx.s.poll v.sx.apps now (n.bus.transmitting v.x now) [] = .ok c)
    (htx : c.tx = some (tokenBytes v.sx.s.ring.ns v.sx.s.p.address))
    (hring : c.s.ring = v.sx.s.ring.witness v.sx.s.p.address v.sx.s.ring.ns)
    (hst : c.s.st = (if (v.sx.s.ring.witness v.sx.s.p.address v.sx.s.ring.ns).ns = v.sx.s.p.address
                then FState.useToken ⟨now, none⟩ false else FState.checkTokenPass .first))
    (hlast : c.s.lastBusActivity = some (now + (v.sx.s.p.bits (11 * 3) : Nat)))
    (h1 : c.s.p = v.sx.s.p) (h3 : c.s.online = true) (h4 : c.s.pendingBytes = 0) (h5 : c.rx = []) (h7 : AnsOk AppP c.apps)
    (hq1 : v.Lo < now) (hends : ∀ o ∈ n.bus.txs, cEnd cfg o ≤ now)
    (hnotok : ∀ j, j < n.stations.length → j ≠ v.x → ∀ a, v.tr.bytes ≠ tokenBytes (adr j) a)
    (hturn : v.turn M adr = adr v.x)
    (hsync : cEnd cfg v.tr + (cfg.b33 : Nat) < now ∨ (v.ph = .holdT ∧ cEnd cfg v.tr + (cfg.b33 : Nat) ≤ now)) :
    NStepOut cfg M adr n v v.x now := by
  have hc2 := cfg.ce2 hok.rate
  have hc0 := cfg.ce_pos hok.rate 2
  have hxs : v.x < n.bus.seen.length := by rw [h.log.seen]; exact h.xlt
  have hns : v.sx.s.ring.ns = cycSucc (adr v.x) M := h.okx.view.ns.1
  have hview' : RingView M (adr v.x) (v.sx.s.ring.witness (adr v.x) (cycSucc (adr v.x) M)) := h.okx.view.witness
  rw [h.okx.addr, hns] at htx hring hst
  have hst' : c.s.st = .checkTokenPass .first := by
    rw [hst, hview'.ns.1, if_neg (h.ring.two _ (h.ring.mem v.x h.xlt))]
  have hlast' : c.s.lastBusActivity = some (now + (cfg.b33 : Nat)) := by
    rw [hlast, bitsN_11_3, h.okx.bits]; rfl
  have hLo : v.Lo ≤ now + ((cfg.ce 2 : Nat) : Int) + (cfg.b33 : Nat) := by omega
  obtain ⟨n', pre', hn', hinv'⟩ := ninv_send_x h hok hP100 now e c _ .pass
    (now + ((cfg.ce 2 : Nat) : Int) + 2 * (cfg.P : Nat) + (cfg.b33 : Nat)) (now + ((cfg.ce 2 : Nat) : Int) + (cfg.b33 : Nat))
    hp htx h1 (by rw [hring]; exact hview') h3 h4 h5 h7 (by show 0 < 3; omega)
    ⟨v.x, h.xlt, rfl, .inl rfl⟩ hq1 hLo hends hnotok
    (by
      intro l hl
      rw [hlast'] at hl
      cases hl
      refine ⟨by omega, ?_⟩
      show now + ((cfg.ce 2 : Nat) : Int) ≤ _
      omega)
    (by
      intro pre'
      unfold PhaseOkN NView.sendX upSt
      simp only
      rw [seen_set_self _ _ _ hxs]
      refine ⟨trivial, trivial, hst', hlast', Int.le_refl _, rfl, rfl, ?_⟩
      intro s hs hsa
      have hne : s ≠ v.x := by
        intro e'; rw [e'] at hsa; exact h.ring.two _ (h.ring.mem v.x h.xlt) hsa.symm
      rw [seen_set_other _ _ _ _ (Ne.symm hne)]
      have := h.tls s hs
      have := e.tl
      show _ < now + ((cfg.ce 2 : Nat) : Int)
      omega)
  refine ⟨n', _, [], c, hn', hinv', rfl, .inr ⟨_, htx, hturn.symm, hsync, rfl, ⟨rfl, rfl⟩, .inr (.inl ⟨rfl, ?_, rfl⟩)⟩⟩
  unfold NView.turn NView.sendX
  rfl

theorem tokenBytes_adr_inj (a b c d : Nat) (ha : a < 256) (hc : c < 256) (h : tokenBytes a b = tokenBytes c d) : a = c := by
  unfold tokenBytes sendToken at h
  simp only [List.cons.injEq, and_true, true_and] at h
  have e1 := congrArg UInt8.toNat h.1
  rw [u8n a ha, u8n c hc] at e1
  exact e1


theorem scriptsOk_ansOk {apps : Apps} (h : ScriptsOk apps) : AnsOk (fun hd pdu => hd.lengthByte pdu.length ≤ 249) apps := h

/-- **The station whose turn it is transmits** (after the synchronisation pause of a hold, or when it gives
up on an unanswered application request): an application telegram of one of its scripts, a GAP request to a
non-member, or the token to its successor. -/
theorem stepNX_emit {cfg : Cfg} {M : List Nat} {adr : Nat → Nat} {n : Net} {v : NView} (h : NInv cfg M adr n v)
    (hok : cfg.Ok) (hP100 : cfg.P ≤ 100000) (now : Int) (e : EvOkN cfg n v.tl v.x now) (c : Ctx)
    (hp : v.sx.s.poll v.sx.apps now (n.bus.transmitting v.x now) [] = .ok c) (hinvc : Inv c.s c.apps)
    (hout : UseOut v.sx.s v.sx.apps c now) (huse : v.ph.useLike)
    (hq1 : v.Lo < now) (hends : ∀ o ∈ n.bus.txs, cEnd cfg o ≤ now)
    (hnotok : ∀ j, j < n.stations.length → j ≠ v.x → ∀ a, v.tr.bytes ≠ tokenBytes (adr j) a)
    (hturn : v.turn M adr = adr v.x)
    (hsync : cEnd cfg v.tr + (cfg.b33 : Nat) < now ∨ (v.ph = .holdT ∧ cEnd cfg v.tr + (cfg.b33 : Nat) ≤ now)) :
    NStepOut cfg M adr n v v.x now := by
  obtain ⟨o1, o4, o5, o6, oans, o7⟩ := hout
  have hxs : v.x < n.bus.seen.length := by rw [h.log.seen]; exact h.xlt
  have hc5 := cfg.ce5 hok.rate
  have hr := hok.rate
  have h7 : AnsOk AppP c.apps := oans AppP h.okx.apps
  rcases o7 with ⟨⟨hd, pdu, bytes, hP, hser, htx, hlast, hstc⟩, hring⟩ | ⟨g, cur, hcur, hna, htx, hst', hring, hlast⟩ |
      ⟨htx, hring, hst', hlast⟩
  · -- application telegram
    have hlb : hd.lengthByte pdu.length ≤ 249 := hP _ (scriptsOk_ansOk h.okx.inv.scripts)
    have happP : AppP hd pdu := hP AppP h.okx.apps
    have hbytes : bytes = frameSpec hd pdu := by
      have := serialize_ok hd pdu hlb
      rw [hser] at this
      cases this; rfl
    subst hbytes
    have hpos : 0 < (frameSpec hd pdu).length := by
      rw [frame_length]; unfold Header.telegramLen; simp only; split <;> omega
    have hlast' : c.s.lastBusActivity = some (now + ((bitsToTime cfg.rate (11 * (frameSpec hd pdu).length) : Nat) : Int)) := by
      rw [hlast, h.okx.bits]
    have hte := tEnd_cEnd cfg hr { start := now, sender := v.x, bytes := frameSpec hd pdu, dropped := false } hpos
    unfold tEnd cEnd at hte
    simp only at hte
    have hkind : TxKind M adr n.stations.length { start := now, sender := v.x, bytes := frameSpec hd pdu, dropped := false } :=
      ⟨v.x, h.xlt, rfl, .inr (.inr ⟨hd, pdu, rfl, happP, hlb⟩)⟩
    have hown' : ∀ l, c.s.lastBusActivity = some l → now ≤ l ∧
        now + ((cfg.ce ((frameSpec hd pdu).length - 1) : Nat) : Int) ≤ l + 1 := by
      intro l hl
      rw [hlast'] at hl
      cases hl
      exact ⟨by omega, hte.2⟩
    have hfin : ∀ st, n.stations[v.x]? = some st → ∀ P : Header → Bytes → Prop, AnsOk P st.apps → P hd pdu := by
      intro st hst P hPa
      rw [h.gx] at hst
      cases hst
      exact hP P hPa
    rcases hstc with ⟨hexp, d', f', hst'⟩ | ⟨a8, hexp, d', hst'⟩
    · obtain ⟨n', pre', hn', hinv'⟩ := ninv_send_x h hok hP100 now e c _ .holdT
        (now + ((bitsToTime cfg.rate (11 * (frameSpec hd pdu).length) : Nat) : Int) + (cfg.b33 : Nat) + (cfg.P : Nat))
        (now + ((bitsToTime cfg.rate (11 * (frameSpec hd pdu).length) : Nat) : Int) + (cfg.b33 : Nat))
        hp htx o4 (by rw [hring]; exact h.okx.view) (o5.trans h.okx.son) (o6.trans h.pbx) o1 h7 hpos hkind hq1 (by omega)
        hends hnotok hown'
        (by
          intro pre'
          unfold PhaseOkN NView.sendX upSt tEnd
          simp only
          rw [seen_set_self _ _ _ hxs]
          exact ⟨trivial, ⟨hd, pdu, rfl⟩, ⟨d', f', hst'⟩, hlast', Int.le_refl _, by omega, trivial, trivial⟩)
      refine ⟨n', _, [], c, hn', hinv', rfl, .inr ⟨_, htx, hturn.symm, hsync, rfl, ⟨rfl, rfl⟩, .inr (.inr ⟨hd, pdu, rfl, happP, ?_, .inl rfl, hfin, huse⟩)⟩⟩
      unfold NView.turn NView.sendX
      rfl
    · obtain ⟨n', pre', hn', hinv'⟩ := ninv_send_x h hok hP100 now e c _ (.await a8.toNat)
        (now + ((bitsToTime cfg.rate (11 * (frameSpec hd pdu).length) : Nat) : Int) + (cfg.slot : Nat) + (cfg.P : Nat))
        (now + ((bitsToTime cfg.rate (11 * (frameSpec hd pdu).length) : Nat) : Int) + (cfg.slot : Nat))
        hp htx o4 (by rw [hring]; exact h.okx.view) (o5.trans h.okx.son) (o6.trans h.pbx) o1 h7 hpos hkind hq1 (by omega)
        hends hnotok hown'
        (by
          intro pre'
          unfold PhaseOkN NView.sendX upSt tEnd
          simp only
          rw [seen_set_self _ _ _ hxs]
          exact ⟨trivial, ⟨hd, pdu, rfl⟩, ⟨d', hst'⟩, hlast', Int.le_refl _, by omega, trivial, trivial⟩)
      refine ⟨n', _, [], c, hn', hinv', rfl, .inr ⟨_, htx, hturn.symm, hsync, rfl, ⟨rfl, rfl⟩,
        .inr (.inr ⟨hd, pdu, rfl, happP, ?_, .inr ⟨_, rfl⟩, hfin, huse⟩)⟩⟩
      unfold NView.turn NView.sendX
      rfl
  · -- GAP request
    have hns : v.sx.s.ring.ns = cycSucc (adr v.x) M := h.okx.view.ns.1
    rw [h.okx.addr, hns] at hcur
    rw [h.okx.addr] at hna htx
    have hbtw := nextGapPoll_between _ _ _ _ _ hcur (h.ring.two _ (h.ring.mem v.x h.xlt))
    have hgM : g ∉ M := fun hm =>
      no_member_between (adr v.x) _ M (cycSucc_spec _ M) (h.ring.mem v.x h.xlt) g hm hbtw
    have hg126 : g < 126 := by
      have h1 := (hinvc.await1 g hst').1
      have h2 := hinvc.gap g h1
      have h3 := hinvc.hsa
      omega
    have hlast' : c.s.lastBusActivity = some (now + (cfg.b66 : Nat)) := by
      rw [hlast, bitsN_11_6, h.okx.bits]; rfl
    obtain ⟨n', pre', hn', hinv'⟩ := ninv_send_x h hok hP100 now e c _ (.gap g)
      (now + (cfg.b66 : Nat) + (cfg.slot : Nat) + (cfg.P : Nat)) (now + (cfg.b66 : Nat) + (cfg.slot : Nat))
      hp htx o4 (by rw [hring]; exact h.okx.view) (o5.trans h.okx.son) (o6.trans h.pbx) o1 h7
      (by rw [statusRequestBytes_length]; omega)
      ⟨v.x, h.xlt, rfl, .inr (.inl ⟨g, hg126, hgM, rfl⟩)⟩ hq1 (by omega) hends hnotok
      (by
        intro l hl
        rw [hlast'] at hl
        cases hl
        refine ⟨by omega, ?_⟩
        rw [statusRequestBytes_length]
        show now + ((cfg.ce 5 : Nat) : Int) ≤ _
        omega)
      (by
        intro pre'
        unfold PhaseOkN NView.sendX upSt
        simp only
        rw [seen_set_self _ _ _ hxs]
        exact ⟨trivial, trivial, hst', hlast', Int.le_refl _, by omega, trivial, trivial⟩)
    refine ⟨n', _, [], c, hn', hinv', rfl, .inr ⟨_, htx, hturn.symm, hsync, rfl, ⟨rfl, rfl⟩, .inl ⟨g, rfl, hgM, ?_, rfl, huse⟩⟩⟩
    unfold NView.turn NView.sendX
    rfl
  · exact stepNX_token h hok hP100 now e c hp htx hring hst' hlast o4 (o5.trans h.okx.son)
      (o6.trans h.pbx) o1 h7 hq1 hends hnotok hturn hsync

/-- Phase `hold`, the first poll after the synchronisation pause. -/
theorem stepNX_hold_go {cfg : Cfg} {M : List Nat} {adr : Nat → Nat} {n : Net} {v : NView} (h : NInv cfg M adr n v)
    (hok : cfg.Ok) (hP100 : cfg.P ≤ 100000) (p1 : Int) (hph : v.ph = .hold p1) (now : Int) (e : EvOkN cfg n v.tl v.x now)
    (hgo : p1 + (cfg.b33 : Nat) < now) : NStepOut cfg M adr n v v.x now := by
  have hP := h.ph
  unfold PhaseOkN at hP
  rw [hph] at hP
  obtain ⟨⟨d, f, hst⟩, hlx, ⟨a0, htok⟩, hend, hp1, hsx, hH, hLo, hp1P⟩ := hP
  simp only at hp1 hsx
  have hown := e.own
  have hphy := h.phyX p1 now hlx (by omega)
  have hax := h.ring.lt v.x h.xlt
  obtain ⟨c, hp, hinvc, -, hout⟩ := holder_poll_outA v.sx.s v.sx.apps now p1 d f h.okx.inv h.okx.son hst hlx
    (by rw [h.okx.b33]; exact hgo)
  have hends : ∀ o ∈ n.bus.txs, cEnd cfg o ≤ now := by
    intro o ho
    rcases h.doneX o ho with hs | hs
    · have := h.ownX p1 hlx o ho hs; omega
    · omega
  have hnotok : ∀ j, j < n.stations.length → j ≠ v.x → ∀ a, v.tr.bytes ≠ tokenBytes (adr j) a := by
    intro j hj hjx a hb
    rw [htok] at hb
    have haj := h.ring.lt j hj
    exact hjx (h.ring.inj j v.x hj h.xlt (tokenBytes_adr_inj _ _ _ _ (by omega) (by omega) hb).symm)
  have hturn : v.turn M adr = adr v.x := by unfold NView.turn; rw [hph]
  exact stepNX_emit h hok hP100 now e c (by rw [hphy]; exact hp) hinvc hout (by rw [hph]; trivial) (by omega) hends hnotok hturn (.inl (by omega))

/-- Phase `holdT`, the first poll after the synchronisation pause following the own application telegram. -/
theorem stepNX_holdT_go {cfg : Cfg} {M : List Nat} {adr : Nat → Nat} {n : Net} {v : NView} (h : NInv cfg M adr n v)
    (hok : cfg.Ok) (hP100 : cfg.P ≤ 100000) (hph : v.ph = .holdT) (now : Int) (e : EvOkN cfg n v.tl v.x now)
    (hgo : tEnd cfg v.tr + (cfg.b33 : Nat) < now) : NStepOut cfg M adr n v v.x now := by
  have hP := h.ph
  unfold PhaseOkN at hP
  rw [hph] at hP
  obtain ⟨hs1, ⟨h0, pdu, hb⟩, ⟨d, f, hst⟩, hlx, hq, hsx, hH, hLo⟩ := hP
  simp only at hq hsx
  have hown := e.own
  have hphy := h.phyX _ now hlx (by omega)
  have hpos := (TxKind.wire h.ring (h.log.kinds v.tr (by rw [h.txs]; simp))).2.2
  have hte := tEnd_cEnd cfg hok.rate v.tr hpos
  obtain ⟨c, hp, hinvc, -, hout⟩ := holder_poll_outA v.sx.s v.sx.apps now _ d f h.okx.inv h.okx.son hst hlx
    (by rw [h.okx.b33]; exact hgo)
  have hends : ∀ o ∈ n.bus.txs, cEnd cfg o ≤ now := by
    intro o ho
    rcases h.doneX o ho with hs | hs
    · have := h.ownX _ hlx o ho hs; omega
    · omega
  have hnotok : ∀ j, j < n.stations.length → j ≠ v.x → ∀ a, v.tr.bytes ≠ tokenBytes (adr j) a := by
    intro j hj hjx a hbt
    rw [hb] at hbt
    exact frameSpec_ne_token _ _ _ _ hbt
  have hturn : v.turn M adr = adr v.x := by unfold NView.turn; rw [hph]
  exact stepNX_emit h hok hP100 now e c (by rw [hphy]; exact hp) hinvc hout (by rw [hph]; trivial) (by omega) hends hnotok hturn
    (.inr ⟨hph, by omega⟩)

/-- Phase `await`, the first poll after the slot time has expired: the application gets its time-out and the
token visit continues in the same poll. -/
theorem stepNX_await_timeout {cfg : Cfg} {M : List Nat} {adr : Nat → Nat} {n : Net} {v : NView} (h : NInv cfg M adr n v)
    (hok : cfg.Ok) (hP100 : cfg.P ≤ 100000) (a : Nat) (hph : v.ph = .await a) (now : Int) (e : EvOkN cfg n v.tl v.x now)
    (hex : tEnd cfg v.tr + (cfg.slot : Nat) < now) : NStepOut cfg M adr n v v.x now := by
  have hP := h.ph
  unfold PhaseOkN at hP
  rw [hph] at hP
  obtain ⟨hs1, ⟨h0, pdu, hb⟩, ⟨d, hst⟩, hlx, hq, hsx, hH, hLo⟩ := hP
  simp only at hq hsx
  have hown := e.own
  have hmar := hok.margin
  have hphy := h.phyX _ now hlx (by omega)
  have hpos := (TxKind.wire h.ring (h.log.kinds v.tr (by rw [h.txs]; simp))).2.2
  have hte := tEnd_cEnd cfg hok.rate v.tr hpos
  obtain ⟨c, hp, hinvc, -, hout⟩ := awaitD_poll_timeoutA v.sx.s v.sx.apps now _ a d h.okx.inv h.okx.son hst hlx
    (by rw [h.okx.slot]; exact hex) (by rw [h.okx.b33, h.okx.slot]; omega)
  have hends : ∀ o ∈ n.bus.txs, cEnd cfg o ≤ now := by
    intro o ho
    rcases h.doneX o ho with hs | hs
    · have := h.ownX _ hlx o ho hs; omega
    · omega
  have hnotok : ∀ j, j < n.stations.length → j ≠ v.x → ∀ a, v.tr.bytes ≠ tokenBytes (adr j) a := by
    intro j hj hjx a hbt
    rw [hb] at hbt
    exact frameSpec_ne_token _ _ _ _ hbt
  have hturn : v.turn M adr = adr v.x := by unfold NView.turn; rw [hph]
  exact stepNX_emit h hok hP100 now e c (by rw [hphy]; exact hp) hinvc hout (by rw [hph]; trivial) (by omega) hends hnotok hturn
    (.inl (by omega))

/-- Phase `gap`, the first poll after the slot time has expired: the token goes to the successor. -/
theorem stepNX_gap_timeout {cfg : Cfg} {M : List Nat} {adr : Nat → Nat} {n : Net} {v : NView} (h : NInv cfg M adr n v)
    (hok : cfg.Ok) (hP100 : cfg.P ≤ 100000) (g : Nat) (hph : v.ph = .gap g) (now : Int) (e : EvOkN cfg n v.tl v.x now)
    (hex : v.tr.start + (cfg.b66 : Nat) + (cfg.slot : Nat) < now) : NStepOut cfg M adr n v v.x now := by
  have hP := h.ph
  unfold PhaseOkN at hP
  rw [hph] at hP
  obtain ⟨hs1, hb, hst, hlx, hq, hsx, hH, hLo⟩ := hP
  simp only at hq hsx
  have hown := e.own
  have hmar := hok.margin
  have hc5 := cfg.ce5 hok.rate
  have hlen : v.tr.bytes.length = 6 := by rw [hb]; exact statusRequestBytes_length _ _
  have hce : cEnd cfg v.tr = v.tr.start + ((cfg.ce 5 : Nat) : Int) := by unfold cEnd; rw [hlen]
  have hphy := h.phyX _ now hlx (by omega)
  obtain ⟨c, hp, hinvc, o1, o2, o4, o5, o6, htx, hring, hst', hlast⟩ := await_poll_timeoutA v.sx.s v.sx.apps now _ g
    h.okx.inv h.okx.son hst hlx (by rw [h.okx.slot]; exact hex) (by rw [h.okx.b33, h.okx.slot]; omega)
  have hends : ∀ o ∈ n.bus.txs, cEnd cfg o ≤ now := by
    intro o ho
    rcases h.doneX o ho with hs | hs
    · have := h.ownX _ hlx o ho hs; omega
    · omega
  have hnotok : ∀ j, j < n.stations.length → j ≠ v.x → ∀ a, v.tr.bytes ≠ tokenBytes (adr j) a := by
    intro j hj hjx a hbt
    rw [hb] at hbt
    exact statusRequest_ne_token _ _ _ _ hbt
  have hturn : v.turn M adr = adr v.x := by unfold NView.turn; rw [hph]
  exact stepNX_token h hok hP100 now e c (by rw [hphy]; exact hp) htx hring hst' hlast o4 (o5.trans h.okx.son)
    (o6.trans h.pbx) o1 (by rw [o2]; exact h.okx.apps) (by omega) hends hnotok hturn (.inl (by rw [hce]; omega))

/-- **One event** of the stable N-station ring (with application traffic). -/
theorem ringN_step {cfg : Cfg} {M : List Nat} {adr : Nat → Nat} {n : Net} {v : NView} (h : NInv cfg M adr n v)
    (hok : cfg.Ok) (hP100 : cfg.P ≤ 100000) (i : Nat) (now : Int) (e : EvOkN cfg n v.tl i now) :
    NStepOut cfg M adr n v i now := by
  by_cases hix : i = v.x
  · subst hix
    cases hph : v.ph with
    | hold p1 =>
      by_cases hw : now ≤ p1 + (cfg.b33 : Nat)
      · exact stepNX_hold_wait h hok p1 hph now e hw
      · exact stepNX_hold_go h hok hP100 p1 hph now e (by omega)
    | holdT =>
      by_cases hw : now ≤ tEnd cfg v.tr + (cfg.b33 : Nat)
      · exact stepNX_holdT_wait h hok hph now e hw
      · exact stepNX_holdT_go h hok hP100 hph now e (by omega)
    | gap g =>
      by_cases hw : now ≤ v.tr.start + (cfg.b66 : Nat) + (cfg.slot : Nat)
      · exact stepNX_gap_wait h hok g hph now e hw
      · exact stepNX_gap_timeout h hok hP100 g hph now e (by omega)
    | await a =>
      by_cases hw : now ≤ tEnd cfg v.tr + (cfg.slot : Nat)
      · exact stepNX_await_wait h hok a hph now e hw
      · exact stepNX_await_timeout h hok hP100 a hph now e (by omega)
    | pass => exact stepNX_pass h hok hph now e
  · exact stepL h hok i hix now e

/-! ## Whole runs -/

theorem Net.poll_len (n : Net) (i : Nat) (now : Int) : (n.poll i now).1.stations.length = n.stations.length := by
  unfold Net.poll
  rcases n.bus.deliver i now with ⟨bus, inc⟩
  simp only
  cases n.stations[i]? with
  | none => rfl
  | some st =>
    simp only
    split
    · rfl
    · split <;> simp

theorem Net.poll_seenN (n : Net) (i : Nat) (now : Int) : (n.poll i now).1.bus.seen = n.bus.seen.set i now := by
  unfold Net.poll
  rcases hd : n.bus.deliver i now with ⟨bus, inc⟩
  have hs : bus.seen = n.bus.seen.set i now := by
    have : (n.bus.deliver i now).1.seen = n.bus.seen.set i now := rfl
    rw [hd] at this
    exact this
  simp only
  cases n.stations[i]? with
  | none => exact hs
  | some st =>
    simp only
    split
    · exact hs
    · split
      · exact hs
      · rename_i c _
        cases c.tx with
        | none => exact hs
        | some b => exact hs

/-- The schedule: events `(station, time)` in time order, every station's own poll times strictly increasing,
at every event no station unpolled for more than `P`. -/
def SchedN (P : Nat) : Net → Int → List (Nat × Int) → Prop
  | _, _, [] => True
  | n, tl, (i, now) :: rest =>
    i < n.stations.length ∧ tl ≤ now ∧ n.bus.seen.getD i 0 < now ∧
    (∀ j, j < n.stations.length → now ≤ n.bus.seen.getD j 0 + (P : Nat)) ∧ SchedN P (n.poll i now).1 now rest

/-- The same as a condition on poll times only (`seen`: last poll times, `N`: number of stations). -/
def SchedNT (P N : Nat) : List Int → Int → List (Nat × Int) → Prop
  | _, _, [] => True
  | seen, tl, (i, now) :: rest =>
    i < N ∧ tl ≤ now ∧ seen.getD i 0 < now ∧ (∀ j, j < N → now ≤ seen.getD j 0 + (P : Nat)) ∧
    SchedNT P N (seen.set i now) now rest

theorem schedN_of_times (P : Nat) : ∀ (evs : List (Nat × Int)) (n : Net) (tl : Int),
    SchedNT P n.stations.length n.bus.seen tl evs → SchedN P n tl evs := by
  intro evs
  induction evs with
  | nil => intro _ _ _; trivial
  | cons ev rest ih =>
    intro n tl h
    obtain ⟨i, now⟩ := ev
    obtain ⟨h1, h2, h3, h4, h5⟩ := h
    exact ⟨h1, h2, h3, h4, ih _ now (by rw [Net.poll_seenN, Net.poll_len]; exact h5)⟩

/-- What a run of the stable ring WITH application traffic looks like (`turn`: address of the station whose
turn it is, `lastEnd` / `lastSender`: end and sender of the last transmission): every poll returns regularly;
only the station whose turn it is transmits; every transmission starts at least 33 bit times after the end of
the previous one — strictly later if the previous one came from another station (after an own application
telegram a station goes by its predicted end, which may be 1 µs early); it is a GAP request to a non-member
(turn stays), the token to the cyclic successor (turn passes on), or an application telegram satisfying
`AppP` (turn stays).  Nobody claims, retries or replies. -/
def GoodRunA (cfg : Cfg) (M : List Nat) (adr : Nat → Nat) : Net → Nat → Int → Nat → List (Nat × Int) → Prop
  | _, _, _, _, [] => True
  | n, turn, lastEnd, lastSender, (i, now) :: rest =>
    ∃ n' inc c, n.poll i now = (n', inc, some (.ok c)) ∧
      ((c.tx = none ∧ GoodRunA cfg M adr n' turn lastEnd lastSender rest) ∨
       (∃ b, c.tx = some b ∧ adr i = turn ∧ lastEnd + (cfg.b33 : Nat) ≤ now ∧
          (lastSender ≠ i → lastEnd + (cfg.b33 : Nat) < now) ∧
          ((∃ g, b = statusRequestBytes g (adr i) ∧ g ∉ M ∧
              GoodRunA cfg M adr n' (adr i) (now + (cfg.ce (b.length - 1) : Nat)) i rest) ∨
           (b = tokenBytes (TokenRing.cycSucc (adr i) M) (adr i) ∧
              GoodRunA cfg M adr n' (TokenRing.cycSucc (adr i) M) (now + (cfg.ce (b.length - 1) : Nat)) i rest) ∨
           (∃ h pdu, b = frameSpec h pdu ∧ AppP h pdu ∧
              GoodRunA cfg M adr n' (adr i) (now + (cfg.ce (b.length - 1) : Nat)) i rest))))

theorem NInv.holdT_sender {cfg : Cfg} {M : List Nat} {adr : Nat → Nat} {n : Net} {v : NView} (h : NInv cfg M adr n v)
    (hph : v.ph = .holdT) : v.tr.sender = v.x := by
  have hP := h.ph
  unfold PhaseOkN at hP
  rw [hph] at hP
  exact hP.1

theorem ringA_run {cfg : Cfg} (hok : cfg.Ok) (hP100 : cfg.P ≤ 100000) (M : List Nat) (adr : Nat → Nat) :
    ∀ (evs : List (Nat × Int)) (n : Net) (v : NView), NInv cfg M adr n v → SchedN cfg.P n v.tl evs →
    GoodRunA cfg M adr n (v.turn M adr) (cEnd cfg v.tr) v.tr.sender evs := by
  intro evs
  induction evs with
  | nil => intro _ _ _ _; trivial
  | cons ev rest ih =>
    intro n v h hs
    obtain ⟨i, now⟩ := ev
    obtain ⟨hi, htl, hown, hgap, hrest⟩ := hs
    have e : EvOkN cfg n v.tl i now := ⟨hi, htl, hown, hgap⟩
    obtain ⟨n', v', inc, c, hp, hinv', htl', hcase⟩ := ringN_step h hok hP100 i now e
    have hn' : (n.poll i now).1 = n' := by rw [hp]
    rw [hn', ← htl'] at hrest
    have ih' := ih n' v' hinv' hrest
    refine ⟨n', inc, c, hp, ?_⟩
    rcases hcase with ⟨htx, htr, hnx, -⟩ | ⟨b, htx, hit, hsync, htr, -, hkind⟩
    · left
      rw [hnx, htr] at ih'
      exact ⟨htx, ih'⟩
    · right
      have hend : cEnd cfg v'.tr = now + ((cfg.ce (b.length - 1) : Nat) : Int) := by rw [htr]; rfl
      have hsnd : v'.tr.sender = i := by rw [htr]
      rw [hend, hsnd] at ih'
      have hs1 : cEnd cfg v.tr + (cfg.b33 : Nat) ≤ now := by rcases hsync with h1 | ⟨-, h1⟩ <;> omega
      have hs2 : v.tr.sender ≠ i → cEnd cfg v.tr + (cfg.b33 : Nat) < now := by
        intro hne
        rcases hsync with h1 | ⟨hph, -⟩
        · exact h1
        · exfalso
          have hsx := h.holdT_sender hph
          have hturn : v.turn M adr = adr v.x := by unfold NView.turn; rw [hph]
          rw [hturn] at hit
          exact hne (hsx.trans (h.ring.inj i v.x hi h.xlt hit).symm)
      refine ⟨b, htx, hit, hs1, hs2, ?_⟩
      rcases hkind with ⟨g, hb, hg, hnx, -⟩ | ⟨hb, hnx, -⟩ | ⟨hd, pdu, hb, hA, hnx, -, -⟩
      · left; rw [hnx] at ih'; exact ⟨g, hb, hg, ih'⟩
      · right; left; rw [hnx] at ih'; exact ⟨hb, ih'⟩
      · right; right; rw [hnx] at ih'; exact ⟨hd, pdu, hb, hA, ih'⟩

/-- The net after a run. -/
def Net.afterN (n : Net) (evs : List (Nat × Int)) : Net := evs.foldl (fun n e => (n.poll e.1 e.2).1) n

theorem ringN_inv_run {cfg : Cfg} (hok : cfg.Ok) (hP100 : cfg.P ≤ 100000) (M : List Nat) (adr : Nat → Nat) :
    ∀ (evs : List (Nat × Int)) (n : Net) (v : NView), NInv cfg M adr n v → SchedN cfg.P n v.tl evs →
    ∃ v', NInv cfg M adr (n.afterN evs) v' := by
  intro evs
  induction evs with
  | nil => intro n v h _; exact ⟨v, h⟩
  | cons ev rest ih =>
    intro n v h hs
    obtain ⟨i, now⟩ := ev
    obtain ⟨hi, htl, hown, hgap, hrest⟩ := hs
    have e : EvOkN cfg n v.tl i now := ⟨hi, htl, hown, hgap⟩
    obtain ⟨n', v', inc, c, hp, hinv', htl', -⟩ := ringN_step h hok hP100 i now e
    have hn' : (n.poll i now).1 = n' := by rw [hp]
    rw [hn', ← htl'] at hrest
    obtain ⟨v'', h1⟩ := ih n' v' hinv' hrest
    refine ⟨v'', ?_⟩
    show NInv cfg M adr (Net.afterN (n.poll i now).1 rest) v''
    rw [hn']; exact h1

/-- Silence bound: at every event the end of the last transmission lies at most `Tslot + 2P + bits 33` back. -/
theorem ringN_silence {cfg : Cfg} {M : List Nat} {adr : Nat → Nat} {n : Net} {v : NView} (h : NInv cfg M adr n v)
    (hok : cfg.Ok) (i : Nat) (now : Int) (e : EvOkN cfg n v.tl i now) : now ≤ cEnd cfg v.tr + (cfg.gmax : Nat) :=
  Int.le_trans (h.now_le_H i now e) (h.horizon hok)

/-! ### Without applications -/

/-- No station has an application. -/
def NoApps (n : Net) : Prop := ∀ st ∈ n.stations, st.apps = []

theorem NoApps.poll {n : Net} (h : NoApps n) (i : Nat) (now : Int) : NoApps (n.poll i now).1 := by
  unfold Net.poll
  rcases n.bus.deliver i now with ⟨bus, inc⟩
  simp only
  cases hst : n.stations[i]? with
  | none => exact h
  | some st =>
    simp only
    have hsa : st.apps = [] := h st (List.mem_of_getElem? hst)
    split
    · exact h
    · split
      · rename_i m hm
        intro st' hst'
        rcases List.mem_or_eq_of_mem_set hst' with hm' | rfl
        · exact h st' hm'
        · exact hsa
      · rename_i c hc
        intro st' hst'
        rcases List.mem_or_eq_of_mem_set hst' with hm' | rfl
        · exact h st' hm'
        · have := (poll_frame st.s st.apps now _ _ c hc).2
          rw [hsa] at this
          exact List.eq_nil_of_length_eq_zero this

/-- What a run of the stable ring WITHOUT applications looks like (`turn`: ADDRESS of the station whose turn it
is, `lastEnd`: end of the last transmission): every poll returns regularly; only the station whose turn it is
transmits; every transmission starts later than 33 bit times after the end of the previous one; it is a GAP
request to an address that is not a member (the turn stays) or the token to the cyclic successor in the
ascending member list (the turn passes to it).  Nobody claims, retries or replies. -/
def GoodRunN (cfg : Cfg) (M : List Nat) (adr : Nat → Nat) : Net → Nat → Int → List (Nat × Int) → Prop
  | _, _, _, [] => True
  | n, turn, lastEnd, (i, now) :: rest =>
    ∃ n' inc c, n.poll i now = (n', inc, some (.ok c)) ∧
      ((c.tx = none ∧ GoodRunN cfg M adr n' turn lastEnd rest) ∨
       (∃ b, c.tx = some b ∧ adr i = turn ∧ lastEnd + (cfg.b33 : Nat) < now ∧
          ((∃ g, b = statusRequestBytes g (adr i) ∧ g ∉ M ∧
              GoodRunN cfg M adr n' (adr i) (now + (cfg.ce (b.length - 1) : Nat)) rest) ∨
           (b = tokenBytes (TokenRing.cycSucc (adr i) M) (adr i) ∧
              GoodRunN cfg M adr n' (TokenRing.cycSucc (adr i) M) (now + (cfg.ce (b.length - 1) : Nat)) rest))))

/-- The phase is none of the application phases. -/
def PhaseN.plain : PhaseN → Prop
  | .holdT => False
  | .await _ => False
  | _ => True

theorem ringN_run {cfg : Cfg} (hok : cfg.Ok) (hP100 : cfg.P ≤ 100000) (M : List Nat) (adr : Nat → Nat) :
    ∀ (evs : List (Nat × Int)) (n : Net) (v : NView), NInv cfg M adr n v → NoApps n → v.ph.plain →
    SchedN cfg.P n v.tl evs → GoodRunN cfg M adr n (v.turn M adr) (cEnd cfg v.tr) evs := by
  intro evs
  induction evs with
  | nil => intro _ _ _ _ _ _; trivial
  | cons ev rest ih =>
    intro n v h hna hpl hs
    obtain ⟨i, now⟩ := ev
    obtain ⟨hi, htl, hown, hgap, hrest⟩ := hs
    have e : EvOkN cfg n v.tl i now := ⟨hi, htl, hown, hgap⟩
    obtain ⟨n', v', inc, c, hp, hinv', htl', hcase⟩ := ringN_step h hok hP100 i now e
    have hn' : (n.poll i now).1 = n' := by rw [hp]
    have hna' : NoApps n' := by rw [← hn']; exact hna.poll i now
    rw [hn', ← htl'] at hrest
    refine ⟨n', inc, c, hp, ?_⟩
    rcases hcase with ⟨htx, htr, hnx, hph⟩ | ⟨b, htx, hit, hsync, htr, -, hkind⟩
    · left
      have hpl' : v'.ph.plain := by
        rcases hph with ⟨hph, -, -⟩ | ⟨-, hph, -, -⟩
        · rw [hph]; exact hpl
        · rw [hph]; trivial
      have ih' := ih n' v' hinv' hna' hpl' hrest
      rw [hnx, htr] at ih'
      exact ⟨htx, ih'⟩
    · right
      have hend : cEnd cfg v'.tr = now + ((cfg.ce (b.length - 1) : Nat) : Int) := by rw [htr]; rfl
      have hs1 : cEnd cfg v.tr + (cfg.b33 : Nat) < now := by
        rcases hsync with h1 | ⟨hph, -⟩
        · exact h1
        · rw [hph] at hpl; exact absurd hpl (by simp [PhaseN.plain])
      refine ⟨b, htx, hit, hs1, ?_⟩
      rcases hkind with ⟨g, hb, hg, hnx, hph, -⟩ | ⟨hb, hnx, hph⟩ | ⟨hd, pdu, hb, hA, hnx, -, hfin, -⟩
      · left
        have ih' := ih n' v' hinv' hna' (by rw [hph]; trivial) hrest
        rw [hnx, hend] at ih'
        exact ⟨g, hb, hg, ih'⟩
      · right
        have ih' := ih n' v' hinv' hna' (by rw [hph]; trivial) hrest
        rw [hnx, hend] at ih'
        exact ⟨hb, ih'⟩
      · exfalso
        obtain ⟨st, hst⟩ : ∃ st, n.stations[i]? = some st := ⟨_, List.getElem?_eq_getElem hi⟩
        have hsa := hna st (List.mem_of_getElem? hst)
        exact hfin st hst (fun _ _ => False) (by rw [hsa]; intro s hs; cases hs)

end PV
