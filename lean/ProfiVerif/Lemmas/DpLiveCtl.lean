/-
The finite control abstraction of the joint master / reference-slave model of `Model/Dp/Live.lean`
(property C07).

`Core` is everything liveness depends on except the retry counter: peripheral state, frame count bit,
`diag_needed`; slave state, the slave's retransmission memory *relative to the master's bit*
(`mem = some k`: the master's next request carries the stored frame count, so the slave will repeat its
previous reply, which is of kind `k`; `none`: the next request is a new one for the slave), the
slave's pending-report bit.  `Ctl` adds the retry counter; the retry limit and "the slave has no
inputs" are static parameters.  The step function looks at the counter only through its class
(`zero / pos / over`) and changes it only by `reset / inc`, so invariants that do not mention the
counter are checked on `Core` alone.

Everything here is computable and small: the tables of `Lemmas/DpLiveTable*.lean` evaluate these
functions in the kernel.  `Lemmas/DpLive.lean` proves that the real model steps commute with them.
-/
import ProfiVerif.Model.Dp.Live

namespace PV.Live
open PV PV.Dp

/-- Kind of a slave reply, as far as the master's control flow can tell. -/
inductive RK
  | silent
  | sc
  /-- "SAP not enabled", no SAPs -/
  | rs
  /-- data-exchange reply of the right length, status DL / DH -/
  | dxLow
  | dxHigh
  /-- diagnostics reply without Prm_Fault / Cfg_Fault, status DL -/
  | diag (prmReq notReady : Bool)
  | other
  deriving DecidableEq, Repr, Inhabited

/-- Outcome of the master's evaluation of the flags of an accepted diagnostics reply (in the order
of the code). -/
inductive DFlags
  | prmFault | cfgFault | prmReq | ready | notReady
  deriving DecidableEq, Repr, Inhabited

/-- Class of a response status. -/
inductive SCls
  | rs | okLow | high | other
  deriving DecidableEq, Repr, Inhabited

/-- A reply as the master's `receive_reply` sees it. -/
inductive View
  | sc
  /-- accepted by `handle_diagnostics_response` (DSAP 62, SSAP 60, ≥ 6 bytes) -/
  | diag (f : DFlags) (c : SCls)
  /-- any other response; `shape`: status OK/DL/DH, no SAPs, length of the input image -/
  | data (c : SCls) (shape : Bool)
  deriving DecidableEq, Repr, Inhabited

inductive AD
  | ok | lossReq | lossRep | sub (v : View)
  deriving DecidableEq, Repr, Inhabited

inductive AEnv
  | visit (mid : Bool) (d : AD)
  | power | fault | diagReq | noop
  deriving DecidableEq, Repr, Inhabited

inductive ReqK
  | diag | setPrm | chkCfg | dx
  deriving DecidableEq, Repr, Inhabited

inductive RCls
  | zero | pos | over
  deriving DecidableEq, Repr, Inhabited

inductive RAct
  | reset | inc | keep
  deriving DecidableEq, Repr, Inhabited

structure Core where
  st : PState
  fcb : FrameCountBit
  dn : Bool
  /-- `diag_in_flight` -/
  fl : Bool
  ss : SState
  mem : Option RK
  dp : Bool
  deriving DecidableEq, Repr, Inhabited

structure Ctl where
  core : Core
  retry : Nat
  deriving DecidableEq, Repr, Inhabited

/-- `FrameCountBit::cycle` (total; the master never holds `Inactive`). -/
def cycA : FrameCountBit → FrameCountBit
  | .first => .low | .high => .low | .low => .high | .inactive => .inactive

/-- The view of a reply of kind `k` (for a slave whose input length is the master's). -/
def RK.view : RK → Option View
  | .silent => none
  | .sc => some .sc
  | .rs => some (.data .rs false)
  | .dxLow => some (.data .okLow true)
  | .dxHigh => some (.data .high true)
  | .diag pr nr => some (.diag (if pr then .prmReq else if nr then .notReady else .ready) .okLow)
  | .other => none

def AD.deliver (d : AD) (k : RK) : Option View :=
  match d with
  | .ok => k.view
  | .lossReq => none
  | .lossRep => none
  | .sub v => if k = .silent then none else some v

def isDX (st : PState) : Bool := st == .preDataExchange || st == .dataExchange

/-- `diag_in_flight` after `transmit_telegram` chose the service: a new request follows
`diag_needed`, a retransmission repeats the service that went unanswered (/repo c18fdc1); the field
is only written in `PreDataExchange` / `DataExchange`. -/
def flAfter (st : PState) (dn fl : Bool) (rc : RCls) : Bool :=
  if isDX st then (if rc = .zero then dn else fl) else fl

/-- The request the master sends (`none`: it declines). -/
def reqOf (st : PState) (dn fl : Bool) (rc : RCls) : Option ReqK :=
  match st with
  | .offline => if rc = .zero then some .diag else none
  | .waitForParam => some .setPrm
  | .waitForConfig => some .chkCfg
  | .validateConfig => some .diag
  | .preDataExchange | .dataExchange => some (if flAfter st dn fl rc then .diag else .dx)

/-- The reference slave serving a new request (matching configuration). -/
def sserve (inZero : Bool) (ss : SState) (dp : Bool) : ReqK → SState × Bool × RK
  | .diag => (ss, false, .diag (ss == .waitPrm) (ss != .dataExch))
  | .setPrm => (if ss = .dataExch then .dataExch else .waitCfg, dp, .sc)
  | .chkCfg => if ss = .waitPrm then (ss, dp, .rs) else (.dataExch, dp, .sc)
  | .dx =>
    if ss = .dataExch then (ss, dp, if dp then .dxHigh else if inZero then .sc else .dxLow)
    else (ss, dp, .rs)

/-- Result of `receive_reply`: new state, new `diag_needed`, whether the frame count bit was cycled,
whether the retry counter was reset, the event. -/
structure MRx where
  st : PState
  dn : Bool
  cycled : Bool
  reset : Bool
  ev : Option PEvent
  deriving DecidableEq, Repr, Inhabited

/-- `receive_reply` on control: `dn` is `diag_needed` at that moment, `inflight` is `diag_in_flight`. -/
def mrx (inZero : Bool) (st : PState) (dn inflight : Bool) (v : View) : MRx :=
  match st with
  | .offline =>
    match v with
    | .diag _ _ => ⟨.waitForParam, dn, true, true, some .online⟩
    | _ => ⟨st, dn, false, false, none⟩
  | .waitForParam =>
    match v with
    | .sc => ⟨.waitForConfig, dn, true, true, none⟩
    | _ => ⟨st, dn, false, false, none⟩
  | .waitForConfig =>
    match v with
    | .sc => ⟨.validateConfig, dn, true, true, none⟩
    | _ => ⟨st, dn, false, false, none⟩
  | .validateConfig =>
    match v with
    | .diag .prmFault _ => ⟨.offline, dn, true, true, some .parameterError⟩
    | .diag .cfgFault _ => ⟨.offline, dn, true, true, some .configError⟩
    | .diag .prmReq _ => ⟨.waitForParam, dn, true, true, none⟩
    | .diag .ready _ => ⟨.preDataExchange, dn, true, true, some .configured⟩
    | .diag .notReady _ => ⟨st, dn, true, true, none⟩
    | _ => ⟨st, dn, false, true, none⟩
  | .preDataExchange | .dataExchange =>
    if inflight then
      match v with
      | .diag _ _ => ⟨st, false, true, true, some .diagnostics⟩
      | _ => ⟨st, dn, false, false, none⟩
    else
      match v with
      | .sc => if inZero then ⟨.dataExchange, dn, true, true, some .dataExchanged⟩ else ⟨st, dn, true, true, none⟩
      | .diag _ c =>
        ⟨if c = .rs then .validateConfig else st, if c = .high then true else dn, true, true, none⟩
      | .data c shape =>
        if c = .rs then ⟨.validateConfig, dn, true, true, none⟩
        else if shape && (c == .okLow || c == .high) then
          ⟨.dataExchange, if c = .high then true else dn, true, true, some .dataExchanged⟩
        else ⟨st, if c = .high then true else dn, true, true, none⟩

/-- The slave's reaction to a request of kind `k`: repeat the stored reply (`mem = some _`) or serve.
Result: slave state, pending bit, reply kind, and the memory relative to the *unchanged* master bit. -/
def sreact (inZero : Bool) (ss : SState) (dp : Bool) (mem : Option RK) (fcv : Bool) (k : ReqK) :
    SState × Bool × RK × Option RK :=
  match mem with
  | some k0 => (ss, dp, k0, some k0)
  | none =>
    match sserve inZero ss dp k with
    | (ss1, dp1, rk) => (ss1, dp1, rk, if fcv then some rk else none)

/-- One visit on control. -/
def cvisit (inZero : Bool) (c : Core) (rc : RCls) (mid : Bool) (d : AD) : Core × RAct × Option PEvent :=
  match rc with
  | .over => ({ c with st := .offline, fcb := .first, mem := none }, .reset, some .offline)
  | _ =>
    match reqOf c.st c.dn c.fl rc with
    | none => (c, .reset, none)
    | some k =>
      let dn1 := c.dn || mid
      let fl1 := flAfter c.st c.dn c.fl rc
      match d with
      | .lossReq => ({ c with dn := dn1, fl := fl1 }, .inc, none)
      | _ =>
        match sreact inZero c.ss c.dp c.mem c.fcb.fcv k with
        | (ss', dp', rk, mem1) =>
          match d.deliver rk with
          | none => ({ c with dn := dn1, fl := fl1, ss := ss', dp := dp', mem := mem1 }, .inc, none)
          | some v =>
            match mrx inZero c.st dn1 fl1 v with
            | ⟨st', dn', cycled, reset, ev⟩ =>
              ({ st := st', fcb := if cycled then cycA c.fcb else c.fcb, dn := dn', fl := fl1, ss := ss',
                 dp := dp', mem := if cycled then none else mem1 },
               if reset then .reset else .inc, ev)

def cstepCore (inZero : Bool) (c : Core) (rc : RCls) : AEnv → Core × RAct × Option PEvent
  | .visit mid d => cvisit inZero c rc mid d
  | .power => ({ c with ss := .waitPrm, mem := none, dp := false }, .keep, none)
  | .fault => ({ c with dp := true }, .keep, none)
  | .diagReq => ({ c with dn := true }, .keep, none)
  | .noop => (c, .keep, none)

def rcls (mr r : Nat) : RCls := if r > mr then .over else if r = 0 then .zero else .pos

def RAct.apply : RAct → Nat → Nat
  | .reset, _ => 0
  | .inc, r => r + 1
  | .keep, r => r

def cstep (mr : Nat) (inZero : Bool) (c : Ctl) (e : AEnv) : Ctl × Option PEvent :=
  let r := cstepCore inZero c.core (rcls mr c.retry) e
  ({ core := r.1, retry := r.2.1.apply c.retry }, r.2.2)

/-- The fault-free visit. -/
def cquiet (mr : Nat) (inZero : Bool) (c : Ctl) : Ctl := (cstep mr inZero c (.visit false .ok)).1

def Ctl.running (c : Ctl) : Bool := c.core.st == .dataExchange

end PV.Live

namespace PV.Live
open PV PV.Dp

/-! ## The joint invariant on control

`jinvCore` is a *joint* invariant of master and slave: besides the master-side facts (`fcb` is never
`Inactive`; it is `First` only while the peripheral is offline) it says that whenever the master's next
request would be taken for a retransmission by the slave (`mem = some k`), it *is* the retransmission
of the request the slave stored the reply `k` for, and that a slave waiting for its configuration is
never believed to be configured.  It is inductive under every environment step (`Lemmas/DpLiveTable`),
holds initially, and — unlike the mere product of a master-side and a slave-side invariant, see
`C07.live_from_everywhere_full_false` — suffices for liveness. -/

/-- The flags of a stored diagnostics reply are those of the slave's present state. -/
def diagOk (ss : SState) (pr nr : Bool) : Bool := pr == (ss == .waitPrm) && nr == (ss != .dataExch)

/-- The stored reply `k` is what the slave (in state `ss`) answered to the request the master
(state `st`, `diag_in_flight = fl`) is about to repeat. -/
def allowed (inZero : Bool) (st : PState) (fl : Bool) (ss : SState) (k : RK) : Bool :=
  match st, k with
  | .offline, .diag pr nr => diagOk ss pr nr
  | .waitForParam, .sc => ss != .waitPrm
  | .waitForConfig, .sc => ss == .dataExch
  | .waitForConfig, .rs => ss == .waitPrm
  | .validateConfig, .diag pr nr => diagOk ss pr nr
  | .preDataExchange, .diag pr nr => fl && diagOk ss pr nr
  | .dataExchange, .diag pr nr => fl && diagOk ss pr nr
  | .preDataExchange, .rs => !fl && ss != .dataExch
  | .dataExchange, .rs => !fl && ss != .dataExch
  | .preDataExchange, .sc => !fl && ss == .dataExch && inZero
  | .dataExchange, .sc => !fl && ss == .dataExch && inZero
  | .preDataExchange, .dxLow => !fl && ss == .dataExch && !inZero
  | .dataExchange, .dxLow => !fl && ss == .dataExch && !inZero
  | .preDataExchange, .dxHigh => !fl && ss == .dataExch
  | .dataExchange, .dxHigh => !fl && ss == .dataExch
  | _, _ => false

def jinvCore (inZero : Bool) (c : Core) (rc : RCls) : Bool :=
  c.fcb != .inactive && (c.fcb != .first || c.st == .offline) &&
  (c.ss != .waitCfg || c.st == .offline || c.st == .waitForParam || c.st == .waitForConfig) &&
  (match c.mem with
   | none => true
   | some k => c.fcb.fcv && allowed inZero c.st c.fl c.ss k &&
               (rc != .zero || c.st == .validateConfig || c.st == .offline))

def jinv (mr : Nat) (inZero : Bool) (c : Ctl) : Bool :=
  jinvCore inZero c.core (rcls mr c.retry) && decide (c.retry ≤ mr + 1) &&
  (c.core.st != .offline || decide (c.retry ≤ 1))

/-- A fresh master (`Peripheral::new`) and a slave after power-on. -/
def Core.init : Core :=
  { st := .offline, fcb := .first, dn := false, fl := false, ss := .waitPrm, mem := none, dp := false }

/-! ## Liveness certificate on `Core`

The run of fault-free visits is followed symbolically in the retry limit: a visit either resets the
retry counter (a *plain* step) or increments it; in the latter case the next visit — a retransmission
with the same frame count bit — is answered by the slave with the same stored reply, so the joint
state does not change any more except for the counter (`stutter`), until the limit is exceeded, the
peripheral is declared offline and the bit is reset (`offC`).  `chain` follows the run from retry
count 0 and returns (plain steps, stutter episodes, final core); every assumption it makes about the
run is *checked* by evaluation, so its soundness lemma needs no invariant. -/

def nextC (inZero : Bool) (c : Core) (rc : RCls) : Core × RAct :=
  let r := cvisit inZero c rc false .ok
  (r.1, r.2.1)

/-- The core after the visit that declares the peripheral offline. -/
def offC (c : Core) : Core := { c with st := .offline, fcb := .first, mem := none }

/-- Data exchange with a configured slave and synchronised frame count: closed under visits. -/
def steady (c : Core) : Bool :=
  c.st == .dataExchange && c.ss == .dataExch && c.mem == none && c.fcb != .inactive

/-- Visits with an incrementing counter do not change the core any more. -/
def stutter (inZero : Bool) (c : Core) : Bool := nextC inZero c .pos == (c, .inc)

def chain (inZero : Bool) : Nat → Core → Option (Nat × Nat × Core)
  | 0, _ => none
  | fuel + 1, c =>
    if steady c then some (0, 0, c) else
    let n := nextC inZero c .zero
    match n.2 with
    | .reset =>
      match chain inZero fuel n.1 with
      | some (a, b, d) => some (a + 1, b, d)
      | none => none
    | .inc =>
      if stutter inZero n.1 then
        match chain inZero fuel (offC n.1) with
        | some (a, b, d) => some (a, b + 1, d)
        | none => none
      else none
    | .keep => none

/-- Bound check for a chain result: `a + b (mr + 2) ≤ mr + slack` for every `mr ≥ 1`, decided
without `mr`: at most one stutter episode, which then leaves `slack - 2` plain steps; without one,
`slack + 1` plain steps. -/
def withinSlack (slack : Nat) : Option (Nat × Nat × Core) → Bool
  | some (a, b, _) => (b == 0 && decide (a ≤ slack + 1)) || (b == 1 && decide (a + 2 ≤ slack))
  | none => false

/-- The certificate for a start in class `rc` (retry count `r`), to be running within `mr + 8`
visits:
* `over`: one visit, then the chain from `offC c` (no stutter, ≤ 7 plain steps);
* `zero`: the chain from `c`;
* `pos`: a plain step and the chain behind it, or a stutter episode (`≤ mr + 1` visits since
  `r ≥ 1`) and the chain from `offC` (no stutter, ≤ 7 plain steps). -/
def liveCert (inZero : Bool) (c : Core) (rc : RCls) : Bool :=
  match rc with
  | .over =>
    (match chain inZero 12 (offC c) with | some (a, b, _) => b == 0 && decide (a ≤ 7) | none => false)
  | .zero => withinSlack 8 (chain inZero 12 c)
  | .pos =>
    let n := nextC inZero c .pos
    match n.2 with
    | .reset => withinSlack 7 (chain inZero 12 n.1)
    | .inc =>
      stutter inZero n.1 &&
      (match chain inZero 12 (offC n.1) with | some (a, b, _) => b == 0 && decide (a ≤ 7) | none => false)
    | .keep => false

/-! ## Enumeration of the control states -/

def allPState : List PState :=
  [.offline, .waitForParam, .waitForConfig, .validateConfig, .preDataExchange, .dataExchange]
def allFcb : List FrameCountBit := [.first, .high, .low, .inactive]
def allSState : List SState := [.waitPrm, .waitCfg, .dataExch]
def allRK : List RK :=
  [.silent, .sc, .rs, .dxLow, .dxHigh, .diag false false, .diag false true, .diag true false,
   .diag true true, .other]
def allBool : List Bool := [false, true]
def allRCls : List RCls := [.zero, .pos, .over]
def allDFlags : List DFlags := [.prmFault, .cfgFault, .prmReq, .ready, .notReady]
def allSCls : List SCls := [.rs, .okLow, .high, .other]
def allView : List View :=
  [.sc] ++ (allDFlags.flatMap fun f => allSCls.map fun c => View.diag f c)
  ++ (allSCls.flatMap fun c => allBool.map fun b => View.data c b)
def allAD : List AD := [.ok, .lossReq, .lossRep] ++ allView.map AD.sub
def allAEnv : List AEnv :=
  (allBool.flatMap fun mid => allAD.map fun d => AEnv.visit mid d) ++ [.power, .fault, .diagReq, .noop]

def coresOf (st : PState) : List Core :=
  allFcb.flatMap fun fcb => allBool.flatMap fun dn =>
  allBool.flatMap fun fl => allSState.flatMap fun ss => ([none] ++ allRK.map some).flatMap fun mem =>
  allBool.map fun dp => { st, fcb, dn, fl, ss, mem, dp }

def allCore : List Core := allPState.flatMap coresOf

/-- The classes the retry counter can be in after an action, from class `rc` (`mr ≥ 1`). -/
def succCls (rc : RCls) : RAct → List RCls
  | .reset => [.zero]
  | .keep => [rc]
  | .inc => match rc with
    | .zero => [.pos]
    | .pos => [.pos, .over]
    | .over => []

end PV.Live
