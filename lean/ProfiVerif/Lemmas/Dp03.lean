/-
Ghost invariant for C03 (bring-up automaton S0..S4 per slot against the peripheral state) and the
wire-level facts about the requests, on top of `Lemmas/Dp08.lean`.
-/
import ProfiVerif.Lemmas.Dp08

set_option linter.unusedSimpArgs false

namespace PV.Dp
open PV

/-- Bring-up automaton `s` of a slot against the state of its peripheral. -/
structure J3 (x : SG) (p : Peripheral) : Prop where
  off : p.state = .offline → x.s = 0
  prm : p.state = .waitForParam → 1 ≤ x.s
  cfg : p.state = .waitForConfig → x.s = 2
  val : p.state = .validateConfig → x.s = 3 ∨ x.s = 4
  dx : (p.state = .preDataExchange ∨ p.state = .dataExchange) → x.s = 4

structure Inv3 (g : G) : Prop where
  slot : ∀ (i : Nat) (p : Peripheral), g.m.slots[i]? = some (some p) → J3 (g.sg i) p
  /-- while the reply to a Set_Prm request is outstanding the automaton is in S1 -/
  await : ∀ a, g.out = some a → ∀ i p, g.m.cur = some (i, p) → p.state = .waitForParam → (g.sg i).s = 1

theorem j3_ghost_irrelevant {x x' : SG} {p : Peripheral} (hJ : J3 x p) (h : x'.s = x.s) : J3 x' p :=
  ⟨by rw [h]; exact hJ.off, by rw [h]; exact hJ.prm, by rw [h]; exact hJ.cfg, by rw [h]; exact hJ.val,
   by rw [h]; exact hJ.dx⟩

theorem j3_same_state {x : SG} {p p' : Peripheral} (hJ : J3 x p) (h : p'.state = p.state) : J3 x p' :=
  ⟨by rw [h]; exact hJ.off, by rw [h]; exact hJ.prm, by rw [h]; exact hJ.cfg, by rw [h]; exact hJ.val,
   by rw [h]; exact hJ.dx⟩

theorem inv3_init {fp : FdlParams} {slots : List (Option Peripheral)} (h : InitOk fp slots) (gr : Bool) :
    Inv3 (G.init slots gr) := by
  refine ⟨?_, by intro a ha; cases ha⟩
  intro i p hi
  have hs := (h.fresh i p hi).2.1
  exact ⟨fun _ => rfl, (by rw [hs]; intro h; cases h), (by rw [hs]; intro h; cases h), (by rw [hs]; intro h; cases h),
    (by rw [hs]; intro h; rcases h with h | h <;> cases h)⟩

/-- `f &&& 2^k = 0` iff bit `k` of `f` is clear, in div/mod form. -/
theorem and_pow_zero_iff (f : UInt16) (k : Nat) (hk : k < 16) :
    f &&& UInt16.ofNat (2 ^ k) = 0 ↔ f.toNat / 2 ^ k % 2 = 0 := by
  rw [← UInt16.toNat_inj, UInt16.toNat_and]
  have h2 : (UInt16.ofNat (2 ^ k)).toNat = 2 ^ k := by
    rw [UInt16.toNat_ofNat']
    exact Nat.mod_eq_of_lt (Nat.pow_lt_pow_right (by decide) hk)
  rw [h2, UInt16.toNat_zero]
  have key : f.toNat &&& 2 ^ k = 0 ↔ f.toNat.testBit k = false := by
    constructor
    · intro h
      have := congrArg (fun n => Nat.testBit n k) h
      simpa [Nat.testBit_and, Nat.testBit_two_pow_self] using this
    · intro h
      apply Nat.eq_of_testBit_eq
      intro i
      rw [Nat.testBit_and, Nat.testBit_two_pow, Nat.zero_testBit]
      by_cases hki : k = i
      · subst hki; simp [h]
      · simp [hki]
  rw [key, Nat.testBit_eq_decide_div_mod_eq]
  have : f.toNat / 2 ^ k % 2 < 2 := Nat.mod_lt _ (by decide)
  simp only [decide_eq_false_iff_not]
  omega

theorem readyFlags_iff (t : Telegram) :
    readyFlags t = true ↔ (flagsOf t &&& PARAMETER_FAULT = 0 ∧ flagsOf t &&& CONFIGURATION_FAULT = 0 ∧
      flagsOf t &&& PARAMETER_REQUIRED = 0 ∧ flagsOf t &&& STATION_NOT_READY = 0) := by
  simp only [readyFlags, Bool.and_eq_true, beq_iff_eq, and_assoc]

theorem j3_send {fp : FdlParams} {op : OpState} {x : SG} {p p' : Peripheral} {h : Header} {pdu : Bytes}
    (hJ : J3 x p) (hs : TxSpec fp op p (.send p' h pdu)) :
    J3 (sgSend h p' x) p' ∧ (p'.state = .waitForParam → (sgSend h p' x).s = 1) := by
  obtain ⟨hk, hst, _⟩ := send_kind_snap hs
  have hs' : (sgSend h p' x).s = if p.state = .waitForParam then 1 else x.s := by
    simp only [sgSend, hk]
    cases hps : p.state <;> simp [kindOfSnap]
    · have := hJ.prm hps; omega
    · split <;> simp
    · split <;> simp
  constructor
  · refine ⟨?_, ?_, ?_, ?_, ?_⟩ <;> (rw [hst, hs']; intro hh)
    · rw [hh]; simpa using hJ.off hh
    · simp [hh]
    · rw [hh]; simpa using hJ.cfg hh
    · rw [hh]; simpa using hJ.val hh
    · rcases hh with hh | hh <;> (rw [hh]; simpa using hJ.dx (by simp [hh]))
  · intro hh; rw [hs']; rw [hst] at hh; simp [hh]

/-- The automaton after a reply, given that the ghost `last` service is the one the state implies. -/
theorem j3_reply {x : SG} {p p' : Peripheral} {t : Telegram} {ev : Option PEvent}
    (hJ : J3 x p) (hs : RxSpec p t p' ev) {k : RKind} {f : FrameCountBit} (hl : x.last = some (k, f))
    (hk : k = kindOfSnap p.state x.snapDiag)
    (hinf : (p.state = .preDataExchange ∨ p.state = .dataExchange) → p.diagInFlight = x.snapDiag)
    (hprm : p.state = .waitForParam → x.s = 1) :
    J3 (sgReply t p p' x) p' := by
  have hs' : (sgReply t p p' x).s =
      if p'.state = .offline then 0
      else if acceptable k p.piI.length t then bringUp k t x.s else x.s := by
    simp only [sgReply, hl]
  cases hs
  case offAcc hst ha =>
    have h0 := hJ.off hst
    refine ⟨?_, ?_, ?_, ?_, ?_⟩ <;> (rw [hs']; simp [hk, hst, kindOfSnap, acceptable, ha, bringUp, h0])
  case offRej hst ha => exact j3_ghost_irrelevant hJ (by rw [hs']; simp [hk, hst, kindOfSnap, acceptable, ha, hJ.off hst])
  case prmSc hst =>
    have h1 := hprm hst
    refine ⟨?_, ?_, ?_, ?_, ?_⟩ <;> (rw [hs']; simp [hk, hst, kindOfSnap, acceptable, bringUp, h1])
  case prmRej hst hne =>
    refine j3_ghost_irrelevant hJ ?_
    rw [hs']; simp [hk, hst, kindOfSnap, acceptable, hne]
  case cfgSc hst =>
    have h2 := hJ.cfg hst
    refine ⟨?_, ?_, ?_, ?_, ?_⟩ <;> (rw [hs']; simp [hk, hst, kindOfSnap, acceptable, bringUp, h2])
  case cfgRej hst hne =>
    refine j3_ghost_irrelevant hJ ?_
    rw [hs']; simp [hk, hst, kindOfSnap, acceptable, hne]
  case valRej hst ha =>
    refine j3_same_state (j3_ghost_irrelevant hJ ?_) rfl
    rw [hs']; simp [hk, hst, kindOfSnap, acceptable, ha]
  case valPrmFault hst ha h1 =>
    refine ⟨?_, ?_, ?_, ?_, ?_⟩ <;> (rw [hs']; simp)
  case valCfgFault hst ha h1 h2 =>
    refine ⟨?_, ?_, ?_, ?_, ?_⟩ <;> (rw [hs']; simp)
  case valPrmReq hst ha h1 h2 h3 =>
    have hv := hJ.val hst
    have hr : readyFlags t = false := by
      cases hrf : readyFlags t with
      | false => rfl
      | true => exact absurd ((readyFlags_iff t).mp hrf).2.2.1 h3
    refine ⟨?_, ?_, ?_, ?_, ?_⟩ <;>
      (rw [hs']; simp only [hk, hst, kindOfSnap, acceptable, ha, bringUp, hr]; rcases hv with hv | hv <;> simp [hv])
  case valReady hst ha h1 h2 h3 h4 =>
    have hv := hJ.val hst
    have hr : readyFlags t = true := (readyFlags_iff t).mpr ⟨h1, h2, h3, h4⟩
    refine ⟨?_, ?_, ?_, ?_, ?_⟩ <;>
      (rw [hs']; simp only [hk, hst, kindOfSnap, acceptable, ha, bringUp, hr]; rcases hv with hv | hv <;> simp [hv])
  case valNotReady hst ha h1 h2 h3 h4 =>
    have hv := hJ.val hst
    have hr : readyFlags t = false := by
      cases hrf : readyFlags t with
      | false => rfl
      | true => exact absurd ((readyFlags_iff t).mp hrf).2.2.2 h4
    refine ⟨?_, ?_, ?_, ?_, ?_⟩ <;>
      (rw [hs']; simp only [hk, hst, kindOfSnap, acceptable, ha, bringUp, hr]; rcases hv with hv | hv <;> simp [hv, hst])
  case dxDiagAcc hst hd ha =>
    have h4 := hJ.dx hst
    have hsd : x.snapDiag = true := by rw [← hinf hst]; exact hd
    refine ⟨?_, ?_, ?_, ?_, ?_⟩ <;>
      (rw [hs']; rcases hst with hst | hst <;> simp [hk, hst, hsd, kindOfSnap, acceptable, ha, bringUp, h4])
  case dxDiagRej hst hd ha =>
    refine j3_ghost_irrelevant hJ ?_
    have hsd : x.snapDiag = true := by rw [← hinf hst]; exact hd
    rw [hs']; rcases hst with hst | hst <;> simp [hk, hst, hsd, kindOfSnap, acceptable, ha, hJ.dx (by simp [hst])]
  case dxScData hst hd _ =>
    have h4 := hJ.dx hst
    have hsd : x.snapDiag = false := by rw [← hinf hst]; exact hd
    have hkk : k = .dx := by rw [hk]; rcases hst with hst | hst <;> simp [hst, hsd, kindOfSnap]
    refine ⟨?_, ?_, ?_, ?_, ?_⟩ <;>
      (rw [hs', hkk]; simp only [bringUp]; rcases hst with hst | hst <;> simp [hst, h4])
  case dxScOk hst hd _ =>
    have h4 := hJ.dx hst
    have hsd : x.snapDiag = false := by rw [← hinf hst]; exact hd
    have hkk : k = .dx := by rw [hk]; rcases hst with hst | hst <;> simp [hst, hsd, kindOfSnap]
    refine ⟨?_, ?_, ?_, ?_, ?_⟩ <;>
      (rw [hs', hkk]; simp only [bringUp]; rcases hst with hst | hst <;> simp [hst, h4])
  case dxSapNotEnabled _ _ _ hst hd _ =>
    have h4 := hJ.dx hst
    have hsd : x.snapDiag = false := by rw [← hinf hst]; exact hd
    have hkk : k = .dx := by rw [hk]; rcases hst with hst | hst <;> simp [hst, hsd, kindOfSnap]
    refine ⟨?_, ?_, ?_, ?_, ?_⟩ <;>
      (rw [hs', hkk]; simp only [bringUp]; rcases hst with hst | hst <;> simp [hst, h4])
  case dxOther _ _ _ _ hst hd _ _ _ =>
    have h4 := hJ.dx hst
    have hsd : x.snapDiag = false := by rw [← hinf hst]; exact hd
    have hkk : k = .dx := by rw [hk]; rcases hst with hst | hst <;> simp [hst, hsd, kindOfSnap]
    refine ⟨?_, ?_, ?_, ?_, ?_⟩ <;>
      (rw [hs', hkk]; simp only [bringUp]; rcases hst with hst | hst <;> simp [hst, h4])
  case dxSaps _ _ _ _ hst hd _ _ _ =>
    have h4 := hJ.dx hst
    have hsd : x.snapDiag = false := by rw [← hinf hst]; exact hd
    have hkk : k = .dx := by rw [hk]; rcases hst with hst | hst <;> simp [hst, hsd, kindOfSnap]
    refine ⟨?_, ?_, ?_, ?_, ?_⟩ <;>
      (rw [hs', hkk]; simp only [bringUp]; rcases hst with hst | hst <;> simp [hst, h4])
  case dxLen _ _ _ _ hst hd _ _ _ _ _ =>
    have h4 := hJ.dx hst
    have hsd : x.snapDiag = false := by rw [← hinf hst]; exact hd
    have hkk : k = .dx := by rw [hk]; rcases hst with hst | hst <;> simp [hst, hsd, kindOfSnap]
    refine ⟨?_, ?_, ?_, ?_, ?_⟩ <;>
      (rw [hs', hkk]; simp only [bringUp]; rcases hst with hst | hst <;> simp [hst, h4])
  case dxData _ _ _ _ hst hd _ _ _ _ _ =>
    have h4 := hJ.dx hst
    have hsd : x.snapDiag = false := by rw [← hinf hst]; exact hd
    have hkk : k = .dx := by rw [hk]; rcases hst with hst | hst <;> simp [hst, hsd, kindOfSnap]
    refine ⟨?_, ?_, ?_, ?_, ?_⟩ <;>
      (rw [hs', hkk]; simp only [bringUp]; rcases hst with hst | hst <;> simp [hst, h4])

theorem inv3_step {fp : FdlParams} (hfp : FpOk fp) {g g' : G} (hI : Inv fp g) (h8 : Inv8 g) (h3 : Inv3 g) (op : Op)
    (h : gstep fp g op = .ok g') (hu : g'.tainted = false) : Inv3 g' := by
  have hu0 := tainted_mono op h hu
  cases op with
  | resetAddr slot a =>
    simp only [gstep] at h
    split at h
    · cases h
    · cases hw : g.m.resetAddress slot a with
      | none => rw [hw] at h; cases h
      | some m' =>
        rw [hw] at h
        simp only [Res3.ok.injEq] at h; subst h
        unfold Master.resetAddress Master.peripheral? at hw
        cases hs : g.m.slots.getD slot none with
        | none => rw [hs] at hw; cases hw
        | some p =>
          rw [hs] at hw
          simp only [Option.some.injEq] at hw; subst hw
          have hj : g.m.slots[slot]? = some (some p) := by
            rw [List.getD_eq_getElem?_getD] at hs
            cases hh : g.m.slots[slot]? with
            | none => rw [hh] at hs; cases hs
            | some x => rw [hh] at hs; simp only [Option.getD_some] at hs; rw [hs]
          simp only [Bool.or_eq_false_iff] at hu
          refine ⟨?_, ?_⟩
          · refine set_pres (fun j p => J3 (g.sg j) p) (fun j p => J3 (g.upd slot (fun _ => {}) j) p) h3.slot ?_ ?_
            · rw [upd_same]
              exact ⟨fun _ => rfl, (by intro h; cases h), (by intro h; cases h), (by intro h; cases h),
                (by intro h; rcases h with h | h <;> cases h)⟩
            · intro j q hjq hJ; rw [upd_other _ _ hjq]; exact hJ
          · intro a' ha' j q hq hst
            rw [cur_of_set hj { g.m with slots := g.m.slots.set slot (some (p.resetAddress a)) } rfl rfl] at hq
            cases hc : g.m.cur with
            | none => rw [hc] at hq; cases hq
            | some ip =>
              obtain ⟨i0, p0⟩ := ip
              rw [hc] at hq
              simp only [Option.map_some, Option.some.injEq] at hq
              have ho : g.out = some a' := ha'
              by_cases hij : i0 = slot
              · -- the freshly reset peripheral is Offline, not waiting for parameters
                exfalso
                simp only [hij, if_true, Prod.mk.injEq] at hq
                obtain ⟨-, rfl⟩ := hq
                simp [Peripheral.resetAddress] at hst
              · simp only [hij, if_false, Prod.mk.injEq] at hq
                obtain ⟨rfl, rfl⟩ := hq
                show (g.upd slot (fun _ => {}) i0).s = 1
                rw [upd_other _ _ hij]
                exact h3.await a' ho i0 p0 hc hst
  | tx now hp =>
    have hdec : ∀ {m'}, Declined fp g.m m' → ∀ (i : Nat) (p : Peripheral), m'.slots[i]? = some (some p) → J3 (g.sg i) p :=
      fun hD => declined_pres hD (fun i p => J3 (g.sg i) p) (fun i p hJ _ => j3_same_state hJ rfl) h3.slot
    cases tx_form hfp hI h with
    | gc => exact ⟨h3.slot, by intro a ha; cases ha⟩
    | idle m' hD => exact ⟨hdec hD, by intro a ha; cases ha⟩
    | send m1 i p p' hd pdu hD hM1 hc hts =>
      have h1 := hdec hD
      have hi := cur_slot hc
      have hsend := j3_send (h1 i p hi) hts
      refine ⟨?_, ?_⟩
      · refine set_pres (fun j p => J3 (g.sg j) p) (fun j p => J3 (g.upd i (sgSend hd p') j) p) h1 ?_ ?_
        · rw [upd_same]; exact hsend.1
        · intro j q hj hJ; rw [upd_other _ _ hj]; exact hJ
      · intro a _ j q hcq hst
        have := cur_set (p' := p') hc ({} : Events)
        simp only [G.polled] at hcq
        rw [this] at hcq
        simp only [Option.some.injEq, Prod.mk.injEq] at hcq
        obtain ⟨rfl, rfl⟩ := hcq
        show (g.upd i (sgSend hd p') i).s = 1
        rw [upd_same]; exact hsend.2 hst
    | off m1 index i p hD hM1 hcy hc =>
      have h1 := hdec hD
      refine ⟨?_, by intro a ha; cases ha⟩
      have hs : (afterDecline m1 index i p { p with state := .offline, fcb := .first, retry := 0 } (some .offline)).slots
          = m1.slots.set i (some { p with state := .offline, fcb := .first, retry := 0 }) := by
        simp only [afterDecline]; cases nextSlot m1.slots index <;> rfl
      show ∀ (j : Nat) (q : Peripheral), (afterDecline m1 index i p _ (some .offline)).slots[j]? = some (some q) →
        J3 (g.upd i sgOffline j) q
      rw [hs]
      refine set_pres (fun j p => J3 (g.sg j) p) (fun j p => J3 (g.upd i sgOffline j) p) h1 ?_ ?_
      · rw [upd_same]
        exact ⟨fun _ => rfl, (by intro h; cases h), (by intro h; cases h), (by intro h; cases h),
          (by intro h; rcases h with h | h <;> cases h)⟩
      · intro j q hj hJ; rw [upd_other _ _ hj]; exact hJ
  | reply a t =>
    have hst : Stale g a g' → Inv3 g' := by
      rintro ⟨_, _, _, _, _, _, _, rfl⟩
      exact ⟨h3.slot, by intro a ha; cases ha⟩
    rcases reply_cases hI h with hdel | hs
    case inr => exact hst hs
    obtain ⟨index, i, p, p', ev, ho, hcy, hc, hpa, hal, hspec, rfl⟩ := hdel
    have hi := (curSlot_spec hc).2.2.1
    have hcur : g.m.cur = some (i, p) := by simp [Master.cur, hcy, hc]
    have hA := h8.await a ho i p hcur hpa
    have hJ8 := h8.slot i p hi
    obtain ⟨k, hl⟩ := hA.last
    obtain ⟨hst, _⟩ := hJ8.snap hA.notFirst k p.fcb hl rfl
    have hk := (hJ8.kind k p.fcb hl).1
    refine ⟨?_, by intro a ha; cases ha⟩
    show ∀ (j : Nat) (q : Peripheral), (afterReply g.m index i p p' ev).slots[j]? = some (some q) →
      J3 (g.upd i (sgReply t p p') j) q
    refine set_pres (fun j p => J3 (g.sg j) p) (fun j q => J3 (g.upd i (sgReply t p p') j) q) h3.slot ?_ ?_
    · rw [upd_same]
      exact j3_reply (h3.slot i p hi) hspec hl (by rw [hk, hst]) hA.inflight (h3.await a ho i p hcur)
    · intro j q hj hJ; rw [upd_other _ _ hj]; exact hJ
  | timeout a =>
    simp only [gstep] at h
    split at h
    · cases h
    · simp only [Res3.ok.injEq] at h; subst h
      exact ⟨h3.slot, by intro a ha; cases ha⟩
  | take =>
    simp only [gstep, Master.takeLastEvents, Res3.ok.injEq] at h
    subst h
    cases hev : g.m.lastEvents.peripheral with
    | none => exact ⟨h3.slot, h3.await⟩
    | some he =>
      cases hsv : g.staleEv with
      | true => simp only [↓reduceIte]; exact ⟨h3.slot, h3.await⟩
      | false =>
      simp only [Bool.false_eq_true, ↓reduceIte]
      refine ⟨?_, ?_⟩
      · intro j q hq
        show J3 (g.upd he.index (sgTake he.ev) j) q
        by_cases hj : j = he.index
        · subst hj; rw [upd_same]; exact j3_ghost_irrelevant (h3.slot _ q hq) rfl
        · rw [upd_other _ _ hj]; exact h3.slot j q hq
      · intro a ha j q hq hst
        have := h3.await a ha j q hq hst
        show (g.upd he.index (sgTake he.ev) j).s = 1
        by_cases hj : j = he.index
        · subst hj; rw [upd_same]; exact this
        · rw [upd_other _ _ hj]; exact this
  | writeQ slot bs =>
    simp only [gstep] at h
    cases hw : g.m.writePiQ slot bs with
    | none => rw [hw] at h; cases h
    | some m' =>
      rw [hw] at h
      simp only [Res3.ok.injEq] at h; subst h
      unfold Master.writePiQ Master.peripheral? at hw
      cases hs : g.m.slots.getD slot none with
      | none => rw [hs] at hw; cases hw
      | some p =>
        rw [hs] at hw
        simp only at hw
        split at hw
        · simp only [Option.some.injEq] at hw; subst hw
          have hj : g.m.slots[slot]? = some (some p) := by
            rw [List.getD_eq_getElem?_getD] at hs
            cases hh : g.m.slots[slot]? with
            | none => rw [hh] at hs; cases hs
            | some x => rw [hh] at hs; simp only [Option.getD_some] at hs; rw [hs]
          refine ⟨?_, ?_⟩
          · refine set_pres (fun j p => J3 (g.sg j) p) (fun j p => J3 (g.sg j) p) h3.slot ?_ (fun _ _ _ h => h)
            exact j3_same_state (h3.slot slot p hj) rfl
          · intro a ha j q hq hst
            rw [cur_of_set hj { g.m with slots := g.m.slots.set slot (some { p with piQ := bs }) } rfl rfl] at hq
            cases hc : g.m.cur with
            | none => rw [hc] at hq; cases hq
            | some ip =>
              obtain ⟨i0, p0⟩ := ip
              rw [hc] at hq
              simp only [Option.map_some, Option.some.injEq] at hq
              by_cases hij : i0 = slot
              · subst hij
                have := cur_slot hc
                rw [hj] at this
                simp only [Option.some.injEq] at this
                subst this
                simp only [if_true, Prod.mk.injEq] at hq
                obtain ⟨rfl, rfl⟩ := hq
                exact h3.await a ha i0 p hc hst
              · simp only [hij, if_false, Prod.mk.injEq] at hq
                obtain ⟨rfl, rfl⟩ := hq
                exact h3.await a ha i0 p0 hc hst
        · cases hw
  | diagReq slot =>
    simp only [gstep] at h
    cases hw : g.m.requestDiagnostics slot with
    | none => rw [hw] at h; cases h
    | some m' =>
      rw [hw] at h
      simp only [Res3.ok.injEq] at h; subst h
      unfold Master.requestDiagnostics Master.peripheral? at hw
      cases hs : g.m.slots.getD slot none with
      | none => rw [hs] at hw; cases hw
      | some p =>
        rw [hs] at hw
        simp only [Option.some.injEq] at hw; subst hw
        have hj : g.m.slots[slot]? = some (some p) := by
          rw [List.getD_eq_getElem?_getD] at hs
          cases hh : g.m.slots[slot]? with
          | none => rw [hh] at hs; cases hs
          | some x => rw [hh] at hs; simp only [Option.getD_some] at hs; rw [hs]
        refine ⟨?_, ?_⟩
        · refine set_pres (fun j p => J3 (g.sg j) p)
            (fun j p => J3 (g.upd slot (fun x => { x with diagReq := true }) j) p) h3.slot ?_ ?_
          · rw [upd_same]
            exact j3_same_state (j3_ghost_irrelevant (h3.slot slot p hj) rfl) rfl
          · intro j q hjq hJ; rw [upd_other _ _ hjq]; exact hJ
        · intro a ha j q hq hst
          rw [cur_of_set hj { g.m with slots := g.m.slots.set slot (some { p with diagNeeded := true }) } rfl rfl] at hq
          cases hc : g.m.cur with
          | none => rw [hc] at hq; cases hq
          | some ip =>
            obtain ⟨i0, p0⟩ := ip
            rw [hc] at hq
            simp only [Option.map_some, Option.some.injEq] at hq
            by_cases hij : i0 = slot
            · subst hij
              have := cur_slot hc
              rw [hj] at this
              simp only [Option.some.injEq] at this
              subst this
              simp only [if_true, Prod.mk.injEq] at hq
              obtain ⟨rfl, rfl⟩ := hq
              show (g.upd i0 (fun x => { x with diagReq := true }) i0).s = 1
              rw [upd_same]
              exact h3.await a ha i0 p hc hst
            · simp only [hij, if_false, Prod.mk.injEq] at hq
              obtain ⟨rfl, rfl⟩ := hq
              show (g.upd slot (fun x => { x with diagReq := true }) i0).s = 1
              rw [upd_other _ _ hij]
              exact h3.await a ha i0 p0 hc hst

end PV.Dp
