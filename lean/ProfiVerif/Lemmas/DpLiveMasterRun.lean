/-
Sequences of `transmit_telegram` turns of a `DpMaster` with ONE peripheral (slot 0) against the reference
slave (property C07, master level):

* `quietTurns_visits`: in any sequence of fault-free turns at arbitrary (in-range) times, the turns that
  are not global-control broadcasts are visits of the peripheral or cycle-closing turns, the closing
  turns alternate with visits: `nonBroadcast ≤ 2 · visits + 1`; the joint state of peripheral and slave
  after the sequence is the one after that many visits (`PJ.quiet`);
* `mrun_good`: along any master-level history (turns with any delivery fault and mid-request user call,
  power cycle, fault report, user calls) the master stays a well-formed single-peripheral master and the
  peripheral / slave pair stays good and satisfies the joint invariant.
-/
import ProfiVerif.Lemmas.DpLiveMaster
import ProfiVerif.Lemmas.DpLiveRuns

namespace PV.Live
open PV PV.Dp

/-- Fault-free turns at the given times: the final joint state and what each turn put on the bus. -/
def Joint.quietTurns (J : Joint) : List Int → Option (Joint × List TurnObs)
  | [] => some (J, [])
  | now :: rest =>
    match J.turn now false .ok with
    | .ok J' o =>
      match J'.quietTurns rest with
      | some (J'', os) => some (J'', o :: os)
      | none => none
    | _ => none

/-- A global-control broadcast: something was sent and no reply is expected. -/
def TurnObs.isBroadcast (o : TurnObs) : Bool := o.tx.isSome && o.expect.isNone

/-- Number of turns that are not broadcasts. -/
def nonBroadcast (os : List TurnObs) : Nat := (os.filter fun o => !o.isBroadcast).length

/-- The peripheral / slave pair of a single-peripheral joint state. -/
def Joint.pj (J : Joint) (p : Peripheral) : PJ := ⟨J.fp, .operate, p, J.s⟩

/-- 1 if the cycle is completed (the next non-broadcast turn only closes it), else 0. -/
def Joint.closing (J : Joint) : Nat := if J.m.cycle = .completed then 1 else 0

structure MGood (J : Joint) (p : Peripheral) : Prop where
  single : Single J.m p
  slot : J.slot = 0
  good : Good (J.pj p)
  addr : J.s.cfg.address ≠ 127
  gc : ∀ t, J.m.lastGc = some t → timeB t

theorem MGood.good' {J : Joint} {p : Peripheral} (h : MGood J p) : Good ⟨J.fp, J.m.op, p, J.s⟩ := by
  have := h.good; unfold Joint.pj at this; rw [h.single.op]; exact this

/-- One turn under any delivery, as a step of the peripheral / slave pair. -/
theorem turn_pj {J : Joint} {p : Peripheral} (hM : MGood J p) {now : Int} (hnow : timeB now) (mid : Bool)
    {d : Delivery} (hd : ∀ t, d = .sub t → RxOk t) :
    ∃ J' o p', J.turn now mid d = .ok J' o ∧ MGood J' p' ∧ J'.fp = J.fp ∧
      ((o.isBroadcast = true ∧ J'.closing = J.closing ∧
          J'.pj p' = (if mid then { J.pj p with p := reqDiag p } else J.pj p)) ∨
       (o.isBroadcast = false ∧ J.closing = 1 ∧ J'.closing = 0 ∧ J'.pj p' = J.pj p) ∨
       (o.isBroadcast = false ∧ J.closing = 0 ∧ ∃ ev, (J.pj p).visit mid d = some (J'.pj p', ev))) := by
  obtain ⟨J', o, hturn, hk⟩ := turn_single hM.single hM.slot hM.good' hM.addr hnow hM.gc mid hd
  have hop := hM.single.op
  cases hk with
  | gc m' o p' hS' hp' hcy hexp htx hgc =>
    refine ⟨_, o, p', hturn, ⟨hS', hM.slot, ?_, hM.addr, ?_⟩, rfl, Or.inl ⟨?_, ?_, ?_⟩⟩
    · subst hp'
      cases mid with
      | false => exact hM.good
      | true =>
        obtain ⟨j', ev, h1, h2, _⟩ := step_sim hM.good (e := .diagReq) trivial
        simp only [PJ.step, Option.some.injEq, Prod.mk.injEq] at h1
        rw [← h1.1] at h2; exact h2
    · intro t ht; simp only at ht; rw [hgc] at ht; cases ht; exact hnow
    · simp [TurnObs.isBroadcast, hexp, htx]
    · simp only [Joint.closing, hcy]
    · subst hp'; cases mid <;> rfl
  | close m' hS' hc hc' hgc =>
    refine ⟨_, _, p, hturn, ⟨hS', hM.slot, hM.good, hM.addr, ?_⟩, rfl, Or.inr (Or.inl ⟨rfl, ?_, ?_, rfl⟩)⟩
    · intro t ht; simp only at ht; rw [hgc] at ht; exact hM.gc t ht
    · simp [Joint.closing, hc]
    · simp [Joint.closing, hc']
  | visit m' s' o p' ev hS' hc hvis hev hcy hgc hobs =>
    have hvis' : (J.pj p).visit mid d = some (⟨J.fp, .operate, p', s'⟩, ev) := by
      unfold Joint.pj; rw [← hop]; exact hvis
    obtain ⟨j', ev', h1, h2, _, _, h5, _⟩ := visit_sim hM.good mid hd
    rw [hvis'] at h1
    simp only [Option.some.injEq, Prod.mk.injEq] at h1
    obtain ⟨rfl, rfl⟩ := h1
    refine ⟨_, o, p', hturn, ⟨hS', hM.slot, h2, ?_, ?_⟩, rfl, Or.inr (Or.inr ⟨?_, ?_, ev, hvis'⟩)⟩
    · have : s'.cfg = J.s.cfg := h5
      simp only; rw [this]; exact hM.addr
    · intro t ht; simp only at ht; rw [hgc] at ht; exact hM.gc t ht
    · rcases hobs with h | h
      · simp [TurnObs.isBroadcast, h]
      · cases he : o.expect with
        | none => rw [he] at h; cases h
        | some a => simp [TurnObs.isBroadcast, he]
    · simp [Joint.closing, hc]

/-- **Fault-free master turns are visits.**  After any sequence of fault-free turns (times within
±2^62 µs, otherwise arbitrary — broadcasts may fall anywhere), the pair is in the state after `v`
fault-free visits, where the number of non-broadcast turns is at most `2 v + 1` (at most `2 v` if the
sequence starts with the cycle index on the peripheral). -/
theorem quietTurns_visits : ∀ (nows : List Int), (∀ t ∈ nows, timeB t) → ∀ {J : Joint} {p : Peripheral}, MGood J p →
    ∃ J' os p' v evs, J.quietTurns nows = some (J', os) ∧ MGood J' p' ∧ J'.fp = J.fp ∧ os.length = nows.length ∧
      (J.pj p).quiet v = some (J'.pj p', evs) ∧ nonBroadcast os + J'.closing ≤ 2 * v + J.closing := by
  intro nows
  induction nows with
  | nil => intro _ J p hM; exact ⟨J, [], p, 0, [], rfl, hM, rfl, rfl, rfl, by simp [nonBroadcast]⟩
  | cons now rest ih =>
    intro ht J p hM
    obtain ⟨J1, o, p1, hturn, hM1, hfp1, hkind⟩ :=
      turn_pj hM (ht now (by simp)) false (d := .ok) (by intro t h; cases h)
    obtain ⟨J2, os, p2, v, evs, hq, hM2, hfp2, hlen, hquiet, hcount⟩ := ih (fun t h => ht t (by simp [h])) hM1
    have hrun : J.quietTurns (now :: rest) = some (J2, o :: os) := by
      simp only [Joint.quietTurns, hturn, hq]
    rcases hkind with ⟨hb, hcl, hpj⟩ | ⟨hb, hc0, hc1, hpj⟩ | ⟨hb, hc0, ev, hvis⟩
    · simp only [Bool.false_eq_true, if_false] at hpj
      refine ⟨J2, o :: os, p2, v, evs, hrun, hM2, by rw [hfp2, hfp1], by simp [hlen], by rw [← hpj]; exact hquiet, ?_⟩
      have : nonBroadcast (o :: os) = nonBroadcast os := by simp [nonBroadcast, hb]
      rw [this, ← hcl]; exact hcount
    · refine ⟨J2, o :: os, p2, v, evs, hrun, hM2, by rw [hfp2, hfp1], by simp [hlen], by rw [← hpj]; exact hquiet, ?_⟩
      have : nonBroadcast (o :: os) = nonBroadcast os + 1 := by simp [nonBroadcast, hb]
      rw [this, hc0]; rw [hc1] at hcount; omega
    · refine ⟨J2, o :: os, p2, v + 1, ev.toList ++ evs, hrun, hM2, by rw [hfp2, hfp1], by simp [hlen], ?_, ?_⟩
      · simp only [PJ.quiet, hvis, hquiet]
      · have : nonBroadcast (o :: os) = nonBroadcast os + 1 := by simp [nonBroadcast, hb]
        rw [this, hc0]
        have : J1.closing ≤ 1 := by unfold Joint.closing; split <;> omega
        omega

/-! ## Master-level histories -/

inductive JEnv
  | turn (now : Int) (mid : Bool) (d : Delivery)
  | power
  | fault (ext : Bytes)
  | diagReq
  | piq (bs : Bytes)
  | inputs (bs : Bytes)
  deriving Repr

/-- Times in range; a substituted reply is a well-formed response (FDL contract). -/
def JEnv.WellFormed : JEnv → Prop
  | .turn now _ d => timeB now ∧ ∀ t, d = .sub t → RxOk t
  | _ => True

def Joint.step (J : Joint) : JEnv → Option Joint
  | .turn now mid d =>
    match J.turn now mid d with
    | .ok J' _ => some J'
    | _ => none
  | .power => some { J with s := J.s.power }
  | .fault ext => some { J with s := J.s.reportFault ext }
  | .diagReq => some { J with m := (J.m.requestDiagnostics J.slot).getD J.m }
  | .piq bs => some { J with m := (J.m.writePiQ J.slot bs).getD J.m }
  | .inputs bs => some { J with s := J.s.setInputs bs }

def Joint.mrun (J : Joint) : List JEnv → Option Joint
  | [] => some J
  | e :: es =>
    match J.step e with
    | some J' => J'.mrun es
    | none => none

theorem single_writePiQ {m : Master} {p : Peripheral} (hS : Single m p) (bs : Bytes) :
    ∃ p', Single ((m.writePiQ 0 bs).getD m) p' ∧
      p' = (if bs.length = p.piQ.length then { p with piQ := bs } else p) := by
  obtain ⟨k, hk⟩ := hS.slots
  by_cases hl : bs.length = p.piQ.length
  · refine ⟨{ p with piQ := bs }, ?_, by rw [if_pos hl]⟩
    have : m.writePiQ 0 bs = some { m with slots := singleSlots { p with piQ := bs } k } := by
      simp [Master.writePiQ, Master.peripheral?, hk, singleSlots, hl]
    rw [this]; exact ⟨⟨k, rfl⟩, hS.op, hS.cycle⟩
  · refine ⟨p, ?_, by rw [if_neg hl]⟩
    have : m.writePiQ 0 bs = none := by
      simp [Master.writePiQ, Master.peripheral?, hk, singleSlots, hl]
    rw [this]; exact hS

/-- Every master-level environment step keeps the single-peripheral master well-formed, the pair good and
within the joint invariant. -/
theorem mstep_good {J : Joint} {p : Peripheral} (hM : MGood J p)
    (hj : jinv J.fp.maxRetry (J.s.cfg.inLen == 0) (ctl (J.pj p)) = true) {e : JEnv} (he : e.WellFormed) :
    ∃ J' p', J.step e = some J' ∧ MGood J' p' ∧ J'.fp = J.fp ∧ J'.s.cfg = J.s.cfg ∧
      jinv J'.fp.maxRetry (J'.s.cfg.inLen == 0) (ctl (J'.pj p')) = true := by
  -- every case is a step (or no step) of the pair
  have key : ∀ (pe : PEnv), pe.WellFormed → ∀ (j' : PJ), (J.pj p).step pe = some (j', (((J.pj p).step pe).map (·.2)).getD none) →
      Good j' ∧ j'.fp = J.fp ∧ j'.s.cfg = J.s.cfg ∧ jinv J.fp.maxRetry (J.s.cfg.inLen == 0) (ctl j') = true := by
    intro pe hpe j' hstep
    obtain ⟨j1, ev, h1, h2, h3, _, h5, h6⟩ := step_sim hM.good hpe
    rw [h1] at hstep
    simp only [Option.some.injEq, Prod.mk.injEq] at hstep
    obtain ⟨rfl, _⟩ := hstep
    refine ⟨h2, h3, h5, ?_⟩
    rw [Prod.ext_iff] at h6
    have h6' : ctl j1 = (cstep J.fp.maxRetry (J.s.cfg.inLen == 0) (ctl (J.pj p)) (absEnv J.s.cfg.inLen pe)).1 := h6.1
    have := jinv_step hM.good.fp.retry_lo hj (absEnv J.s.cfg.inLen pe)
    rw [h6']; exact this
  cases e with
  | turn now mid d =>
    obtain ⟨hnow, hd⟩ := he
    obtain ⟨J', o, p', hturn, hM', hfp, hkind⟩ := turn_pj hM hnow mid hd
    have hstep : J.step (.turn now mid d) = some J' := by simp only [Joint.step, hturn]
    rcases hkind with ⟨_, _, hpj⟩ | ⟨_, _, _, hpj⟩ | ⟨_, _, ev, hvis⟩
    · cases mid with
      | false =>
        simp only [Bool.false_eq_true, if_false] at hpj
        have hs : J'.s.cfg = J.s.cfg := by
          have := congrArg (fun j => j.s.cfg) hpj; exact this
        exact ⟨J', p', hstep, hM', hfp, hs, by rw [hfp, hs, hpj]; exact hj⟩
      | true =>
        simp only [if_true] at hpj
        obtain ⟨hg, _, hc, hji⟩ := key .diagReq trivial { J.pj p with p := reqDiag p } rfl
        have hs : J'.s.cfg = J.s.cfg := by
          have := congrArg (fun j => j.s.cfg) hpj; exact this
        exact ⟨J', p', hstep, hM', hfp, hs, by rw [hfp, hs, hpj]; exact hji⟩
    · have hs : J'.s.cfg = J.s.cfg := by
        have := congrArg (fun j => j.s.cfg) hpj; exact this
      exact ⟨J', p', hstep, hM', hfp, hs, by rw [hfp, hs, hpj]; exact hj⟩
    · have hw : (PEnv.visit mid d).WellFormed := by
        cases d <;> first | trivial | exact hd _ rfl
      obtain ⟨hg, _, hc, hji⟩ := key (.visit mid d) hw (J'.pj p') (by simp only [PJ.step, hvis]; rfl)
      have hc' : J'.s.cfg = J.s.cfg := hc
      exact ⟨J', p', hstep, hM', hfp, hc', by rw [hfp, hc']; exact hji⟩
  | power =>
    obtain ⟨hg, _, hc, hji⟩ := key .power trivial { J.pj p with s := J.s.power } rfl
    exact ⟨_, p, rfl, ⟨hM.single, hM.slot, hg, by simp only; exact hM.addr, hM.gc⟩, rfl, rfl, hji⟩
  | fault ext =>
    obtain ⟨hg, _, hc, hji⟩ := key (.fault ext) trivial { J.pj p with s := J.s.reportFault ext } rfl
    exact ⟨_, p, rfl, ⟨hM.single, hM.slot, hg, by simp only [Slave.reportFault]; exact hM.addr, hM.gc⟩, rfl, rfl, hji⟩
  | diagReq =>
    obtain ⟨hg, _, hc, hji⟩ := key .diagReq trivial { J.pj p with p := reqDiag p } rfl
    obtain ⟨h1, h2⟩ := single_reqDiag hM.single
    refine ⟨_, reqDiag p, rfl, ⟨?_, hM.slot, hg, hM.addr, ?_⟩, rfl, rfl, hji⟩
    · simp only [hM.slot, h1]; exact h2
    · simp only [hM.slot, h1]; exact hM.gc
  | piq bs =>
    obtain ⟨p', hS', hp'⟩ := single_writePiQ hM.single bs
    obtain ⟨hg, _, hc, hji⟩ := key (.piq bs) trivial
      { J.pj p with p := if bs.length = p.piQ.length then { p with piQ := bs } else p } rfl
    refine ⟨_, p', rfl, ⟨by simp only [hM.slot]; exact hS', hM.slot, by rw [hp']; exact hg, hM.addr, ?_⟩, rfl, rfl,
      by rw [hp']; exact hji⟩
    simp only [hM.slot]
    intro t ht
    apply hM.gc t
    rw [← ht]
    unfold Master.writePiQ
    split <;> (try split) <;> rfl
  | inputs bs =>
    obtain ⟨hg, _, hc, hji⟩ := key (.inputs bs) trivial { J.pj p with s := J.s.setInputs bs } rfl
    have hcfg : (J.s.setInputs bs).cfg = J.s.cfg := by unfold Slave.setInputs; split <;> rfl
    exact ⟨_, p, rfl, ⟨hM.single, hM.slot, hg, by simp only [hcfg]; exact hM.addr, hM.gc⟩, rfl, hcfg,
      by simp only [hcfg]; exact hji⟩

theorem mrun_good : ∀ (es : List JEnv), (∀ e ∈ es, e.WellFormed) → ∀ {J : Joint} {p : Peripheral}, MGood J p →
    jinv J.fp.maxRetry (J.s.cfg.inLen == 0) (ctl (J.pj p)) = true →
    ∃ J' p', J.mrun es = some J' ∧ MGood J' p' ∧ J'.fp = J.fp ∧
      jinv J'.fp.maxRetry (J'.s.cfg.inLen == 0) (ctl (J'.pj p')) = true := by
  intro es
  induction es with
  | nil => intro _ J p hM hj; exact ⟨J, p, rfl, hM, rfl, hj⟩
  | cons e es ih =>
    intro hw J p hM hj
    obtain ⟨J1, p1, h1, hM1, hfp1, _, hj1⟩ := mstep_good hM hj (hw e (by simp))
    obtain ⟨J2, p2, h2, hM2, hfp2, hj2⟩ := ih (fun e' he' => hw e' (by simp [he'])) hM1 hj1
    exact ⟨J2, p2, by simp only [Joint.mrun, h1, h2], hM2, by rw [hfp2, hfp1], hj2⟩

end PV.Live
