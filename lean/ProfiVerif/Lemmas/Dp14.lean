/-
Ghost invariants for C14: exact event accounting (`produced` = `taken` ++ pending) and the
life-cycle automaton of the taken events against the peripheral state.
-/
import ProfiVerif.Lemmas.Dp08

set_option linter.unusedSimpArgs false

namespace PV.Dp
open PV

/-- Life-cycle state of slot `i` including the event that is still waiting in `last_events`. -/
def lcEff (g : G) (i : Nat) : Option Nat :=
  match g.m.lastEvents.peripheral with
  | some he => if he.index = i then lcStep (g.sg i).lc he.ev else some (g.sg i).lc
  | none => some (g.sg i).lc

/-- … unless that event is stale (it belongs to an incarnation that `reset_address()` has replaced):
then it does not count. -/
def lcNow (g : G) (i : Nat) : Option Nat := if g.staleEv then some (g.sg i).lc else lcEff g i

/-- Life-cycle value against the peripheral state. -/
structure LcOk (v : Nat) (p : Peripheral) : Prop where
  le : v ≤ 2
  off : p.state = .offline ↔ v = 0
  dx : (p.state = .preDataExchange ∨ p.state = .dataExchange) → v = 2

structure Inv14 (g : G) : Prop where
  /-- nothing is pending when no callback ran since the last `take_last_events` -/
  clean : g.dirty = false → g.m.lastEvents.peripheral = none
  /-- none lost, none duplicated -/
  exact : g.collected = true → g.produced = g.taken ++ g.m.lastEvents.peripheral.toList
  lc : g.collected = true → ∀ (i : Nat) (p : Peripheral), g.m.slots[i]? = some (some p) →
    ∃ v, lcNow g i = some v ∧ LcOk v p

theorem lcOk_same {v : Nat} {p p' : Peripheral} (h : LcOk v p) (hs : p'.state = p.state) : LcOk v p' :=
  ⟨h.le, by rw [hs]; exact h.off, by rw [hs]; exact h.dx⟩

theorem inv14_init {fp : FdlParams} {slots : List (Option Peripheral)} (h : InitOk fp slots) (gr : Bool) :
    Inv14 (G.init slots gr) := by
  refine ⟨fun _ => rfl, fun _ => rfl, ?_⟩
  intro _ i p hi
  have hs := (h.fresh i p hi).2.1
  refine ⟨0, rfl, by omega, by simp [hs], ?_⟩
  rw [hs]; intro hh; rcases hh with hh | hh <;> cases hh

/-- Event and state change of `receive_reply` against the life-cycle automaton. -/
theorem rx_lc {p p' : Peripheral} {t : Telegram} {ev : Option PEvent} (h : RxSpec p t p' ev)
    {v : Nat} (hv : LcOk v p) :
    ∃ v', (match ev with | some e => lcStep v e | none => some v) = some v' ∧ LcOk v' p' := by
  have hle := hv.le
  cases h
  case offAcc hs _ =>
    have := hv.off.mp hs; subst this
    exact ⟨1, rfl, by omega, by simp, by simp⟩
  case offRej hs _ => exact ⟨v, rfl, hv⟩
  case prmSc hs =>
    exact ⟨v, rfl, hle, by simp; intro h0; exact absurd (hv.off.mpr h0) (by simp [hs]), by simp⟩
  case prmRej hs _ => exact ⟨v, rfl, hv⟩
  case cfgSc hs =>
    exact ⟨v, rfl, hle, by simp; intro h0; exact absurd (hv.off.mpr h0) (by simp [hs]), by simp⟩
  case cfgRej hs _ => exact ⟨v, rfl, hv⟩
  case valRej hs _ => exact ⟨v, rfl, lcOk_same hv rfl⟩
  case valPrmFault hs _ _ =>
    have h0 : v ≠ 0 := fun h0 => absurd (hv.off.mpr h0) (by simp [hs])
    refine ⟨0, ?_, by omega, by simp, by simp⟩
    have : v = 1 ∨ v = 2 := by omega
    rcases this with rfl | rfl <;> rfl
  case valCfgFault hs _ _ _ =>
    have h0 : v ≠ 0 := fun h0 => absurd (hv.off.mpr h0) (by simp [hs])
    refine ⟨0, ?_, by omega, by simp, by simp⟩
    have : v = 1 ∨ v = 2 := by omega
    rcases this with rfl | rfl <;> rfl
  case valPrmReq hs _ _ _ _ =>
    exact ⟨v, rfl, hle, by simp; intro h0; exact absurd (hv.off.mpr h0) (by simp [hs]), by simp⟩
  case valReady hs _ _ _ _ _ =>
    have h0 : v ≠ 0 := fun h0 => absurd (hv.off.mpr h0) (by simp [hs])
    refine ⟨2, ?_, by omega, by simp, by simp⟩
    have : v = 1 ∨ v = 2 := by omega
    rcases this with rfl | rfl <;> rfl
  case valNotReady hs _ _ _ _ _ =>
    exact ⟨v, rfl, hle, by simp [hs]; intro h0; exact absurd (hv.off.mpr h0) (by simp [hs]), by simp [hs]⟩
  case dxDiagAcc hs _ _ =>
    have h2 := hv.dx hs; subst h2
    refine ⟨2, rfl, by omega, ?_, fun _ => rfl⟩
    rcases hs with hs | hs <;> simp [hs]
  case dxDiagRej hs _ _ => exact ⟨v, rfl, hv⟩
  case dxScData hs _ _ =>
    have h2 := hv.dx hs; subst h2
    refine ⟨2, rfl, by omega, ?_, fun _ => rfl⟩
    rcases hs with hs | hs <;> simp [hs]
  case dxScOk hs _ _ =>
    have h2 := hv.dx hs; subst h2
    exact ⟨2, rfl, by omega, by simp, fun _ => rfl⟩
  case dxSapNotEnabled hs _ _ =>
    have h2 := hv.dx hs; subst h2
    exact ⟨2, rfl, by omega, by simp, by simp⟩
  case dxOther hs _ _ _ _ =>
    have h2 := hv.dx hs; subst h2
    refine ⟨2, rfl, by omega, ?_, fun _ => rfl⟩
    rcases hs with hs | hs <;> simp [hs]
  case dxSaps hs _ _ _ _ =>
    have h2 := hv.dx hs; subst h2
    refine ⟨2, rfl, by omega, ?_, fun _ => rfl⟩
    rcases hs with hs | hs <;> simp [hs]
  case dxLen hs _ _ _ _ _ _ =>
    have h2 := hv.dx hs; subst h2
    refine ⟨2, rfl, by omega, ?_, fun _ => rfl⟩
    rcases hs with hs | hs <;> simp [hs]
  case dxData hs _ _ _ _ _ _ =>
    have h2 := hv.dx hs; subst h2
    exact ⟨2, rfl, by omega, by simp, fun _ => rfl⟩

theorem lcEff_none {g : G} (h : g.m.lastEvents.peripheral = none) (i : Nat) : lcEff g i = some (g.sg i).lc := by
  simp [lcEff, h]

theorem lcNow_none {g : G} (h : g.m.lastEvents.peripheral = none) (i : Nat) : lcNow g i = some (g.sg i).lc := by
  unfold lcNow; rw [lcEff_none h]; split <;> rfl

theorem lcNow_fresh {g : G} (h : g.staleEv = false) (i : Nat) : lcNow g i = lcEff g i := by
  unfold lcNow; rw [h]; rfl

theorem toList_none {α : Type} {o : Option α} (h : o = none) : o.toList = [] := by subst h; rfl

theorem inv14_step {fp : FdlParams} (hfp : FpOk fp) {g g' : G} (hI : Inv fp g) (h4 : Inv14 g) (op : Op)
    (h : gstep fp g op = .ok g') : Inv14 g' := by
  -- what `collected` gives for the state before a callback
  have before : (g.collected && !g.dirty) = true →
      g.m.lastEvents.peripheral = none ∧ g.produced = g.taken ∧
      ∀ (i : Nat) (p : Peripheral), g.m.slots[i]? = some (some p) → LcOk (g.sg i).lc p := by
    intro hc
    simp only [Bool.and_eq_true, Bool.not_eq_true'] at hc
    have hn := h4.clean hc.2
    refine ⟨hn, by have := h4.exact hc.1; rw [hn] at this; simpa using this, ?_⟩
    intro i p hi
    obtain ⟨v, hv, hok⟩ := h4.lc hc.1 i p hi
    rw [lcNow_none hn] at hv
    simp only [Option.some.injEq] at hv
    rw [hv]; exact hok
  cases op with
  | tx now hp =>
    cases tx_form hfp hI h with
    | gc =>
      refine ⟨(by intro hd; cases hd), ?_, ?_⟩
      · intro hc
        obtain ⟨_, hp, _⟩ := before hc
        show g.produced = g.taken ++ _
        rw [hp]; simp [G.polled]
      · intro hc i p hi
        obtain ⟨_, _, hl⟩ := before hc
        exact ⟨(g.sg i).lc, by simp [lcNow, lcEff, G.polled], hl i p hi⟩
    | idle m' hD _ hn =>
      refine ⟨(by intro hd; cases hd), ?_, ?_⟩
      · intro hc
        obtain ⟨_, hp, _⟩ := before hc
        show g.produced = g.taken ++ m'.lastEvents.peripheral.toList
        rw [hp, hn]; simp
      · intro hc i p hi
        obtain ⟨_, _, hl⟩ := before hc
        have := declined_pres hD (fun i p => LcOk (g.sg i).lc p) (fun i p hJ _ => lcOk_same hJ rfl) hl i p hi
        exact ⟨(g.sg i).lc, by simp [lcNow, lcEff, G.polled, hn], this⟩
    | send m1 i p p' hd pdu hD hM1 hc hts =>
      refine ⟨(by intro hd; cases hd), ?_, ?_⟩
      · intro hcc
        obtain ⟨_, hp, _⟩ := before hcc
        show g.produced = g.taken ++ _
        rw [hp]; simp [G.polled]
      · intro hcc
        obtain ⟨_, _, hl⟩ := before hcc
        have h1 := declined_pres hD (fun i p => LcOk (g.sg i).lc p) (fun i p hJ _ => lcOk_same hJ rfl) hl
        have hi := cur_slot hc
        have hst : p'.state = p.state := (send_kind_snap hts).2.1
        have key := set_pres (slots := m1.slots) (i := i) (q := p') (fun j p => LcOk (g.sg j).lc p)
          (fun j p => LcOk (g.upd i (sgSend hd p') j).lc p) h1
          (by rw [upd_same]; simp only [sgSend]; exact lcOk_same (h1 i p hi) hst)
          (by intro j q hj hJ; rw [upd_other _ _ hj]; exact hJ)
        intro j q hq
        exact ⟨_, by simp [lcNow, lcEff, G.polled], key j q hq⟩
    | off m1 index i p hD hM1 hcy hc hret =>
      have hev : (afterDecline m1 index i p { p with state := .offline, fcb := .first, retry := 0 } (some .offline)).lastEvents.peripheral
          = some { index := i, address := p.address, ev := .offline } := by
        unfold afterDecline; cases nextSlot m1.slots index <;> rfl
      have hs : (afterDecline m1 index i p { p with state := .offline, fcb := .first, retry := 0 } (some .offline)).slots
          = m1.slots.set i (some { p with state := .offline, fcb := .first, retry := 0 }) := by
        simp only [afterDecline]; cases nextSlot m1.slots index <;> rfl
      refine ⟨(by intro hd; cases hd), ?_, ?_⟩
      · intro hcc
        obtain ⟨_, hp, _⟩ := before hcc
        show g.produced ++ _ = g.taken ++ (afterDecline m1 index i p _ (some .offline)).lastEvents.peripheral.toList
        rw [hp, hev]; rfl
      · intro hcc
        obtain ⟨_, _, hl⟩ := before hcc
        have h1 := declined_pres hD (fun i p => LcOk (g.sg i).lc p) (fun i p hJ _ => lcOk_same hJ rfl) hl
        have hi := (curSlot_spec hc).2.2.1
        have hP := hM1.pinv i p hi
        have hlive : p.state ≠ .offline := by
          intro hs0; have := hP.off_retry hs0; have := hfp.retry_lo; omega
        have hlc := h1 i p hi
        have hv0 : (g.sg i).lc ≠ 0 := fun h0 => hlive (hlc.off.mpr h0)
        intro j q hq
        simp only [G.polled] at hq
        rw [hs, List.getElem?_set] at hq
        by_cases hij : i = j
        · subst hij
          simp only [(curSlot_spec hc).2.1, if_true, Option.some.injEq] at hq
          subst hq
          refine ⟨0, ?_, by omega, by simp, by simp⟩
          simp only [lcNow, Bool.false_eq_true, ↓reduceIte, lcEff, G.polled, hev, if_true, upd_same, sgOffline]
          have hle := hlc.le
          have : (g.sg i).lc = 1 ∨ (g.sg i).lc = 2 := by omega
          rcases this with h12 | h12 <;> rw [h12] <;> rfl
        · simp only [hij, if_false] at hq
          refine ⟨(g.sg j).lc, ?_, h1 j q hq⟩
          simp only [lcNow, Bool.false_eq_true, ↓reduceIte, lcEff, G.polled, hev, hij, if_false]
          rw [upd_other _ _ (fun h => hij h.symm)]
  | reply a t =>
    have hst : Stale g a g' → Inv14 g' := by
      rintro ⟨_, _, _, _, _, _, _, rfl⟩
      exact ⟨h4.clean, h4.exact, h4.lc⟩
    rcases reply_cases hI h with hdel | hs
    case inr => exact hst hs
    obtain ⟨index, i, p, p', ev, ho, hcy, hc, hpa, hal, hspec, rfl⟩ := hdel
    have hi := (curSlot_spec hc).2.2.1
    refine ⟨(by intro hd; cases hd), ?_, ?_⟩
    · intro hcc
      obtain ⟨_, hp, _⟩ := before hcc
      show g.produced ++ _ = g.taken ++ (afterReply g.m index i p p' ev).lastEvents.peripheral.toList
      rw [hp]; simp only [afterReply]
    · intro hcc
      obtain ⟨_, _, hl⟩ := before hcc
      obtain ⟨v', hv', hok'⟩ := rx_lc hspec (hl i p hi)
      intro j q hq
      simp only [afterReply] at hq
      rw [List.getElem?_set] at hq
      by_cases hij : i = j
      · subst hij
        simp only [(curSlot_spec hc).2.1, if_true, Option.some.injEq] at hq
        subst hq
        refine ⟨v', ?_, hok'⟩
        simp only [lcNow, Bool.false_eq_true, ↓reduceIte, lcEff, afterReply, upd_same, sgReply]
        cases ev with
        | none => simpa using hv'
        | some e => simpa using hv'
      · simp only [hij, if_false] at hq
        refine ⟨(g.sg j).lc, ?_, hl j q hq⟩
        simp only [lcNow, Bool.false_eq_true, ↓reduceIte, lcEff, afterReply]
        rw [upd_other _ _ (fun h => hij h.symm)]
        cases ev with
        | none => rfl
        | some e => simp [hij]
  | resetAddr slot a =>
    simp only [gstep] at h
    split at h
    · cases h
    · cases hw : g.m.resetAddress slot a with
      | none => rw [hw] at h; cases h
      | some m' =>
        rw [hw] at h
        simp only [Res3.ok.injEq] at h; subst h
        unfold Master.resetAddress Master.peripheral? at hw
        cases hs : g.m.slots.getD slot none with
        | none => rw [hs] at hw; cases hw
        | some p =>
          rw [hs] at hw
          simp only [Option.some.injEq] at hw; subst hw
          have hj : g.m.slots[slot]? = some (some p) := by
            rw [List.getD_eq_getElem?_getD] at hs
            cases hh : g.m.slots[slot]? with
            | none => rw [hh] at hs; cases hs
            | some x => rw [hh] at hs; simp only [Option.getD_some] at hs; rw [hs]
          refine ⟨h4.clean, h4.exact, ?_⟩
          intro hcc i q hq
          simp only at hq
          rw [List.getElem?_set] at hq
          -- the life-cycle value the fresh ghost reports for slot `i` without counting a stale event
          have plain : ∀ (i : Nat) (q : Peripheral), slot ≠ i → g.m.slots[i]? = some (some q) →
              (g.staleEv = true ∨ ∀ he, g.m.lastEvents.peripheral = some he → he.index ≠ i) → LcOk (g.sg i).lc q := by
            intro i q _ hq hor
            obtain ⟨v, hv, hok⟩ := h4.lc hcc i q hq
            rcases hor with hs | hne
            · simp only [lcNow, hs, if_true, Option.some.injEq] at hv
              rw [hv]; exact hok
            · cases hsv : g.staleEv with
              | true =>
                simp only [lcNow, hsv, if_true, Option.some.injEq] at hv
                rw [hv]; exact hok
              | false =>
                rw [lcNow_fresh hsv] at hv
                simp only [lcEff] at hv
                cases hev : g.m.lastEvents.peripheral with
                | none => rw [hev] at hv; simp only [Option.some.injEq] at hv; rw [hv]; exact hok
                | some he =>
                  rw [hev] at hv
                  simp only [if_neg (hne he hev), Option.some.injEq] at hv
                  rw [hv]; exact hok
          cases hnew : (g.staleEv || resetStaleEv g slot) with
          | true =>
            -- the pending event (if any) is stale: it does not count
            simp only [lcNow, hnew, if_true]
            by_cases hij : slot = i
            · subst hij
              have hl : slot < g.m.slots.length := by
                rcases Nat.lt_or_ge slot g.m.slots.length with h | h
                · exact h
                · rw [List.getElem?_eq_none h] at hj; cases hj
              simp only [hl, if_true, Option.some.injEq] at hq
              subst hq
              exact ⟨0, by simp [G.upd], by omega, by simp [Peripheral.resetAddress], by simp [Peripheral.resetAddress]⟩
            · simp only [hij, if_false] at hq
              have hne : ¬ i = slot := fun h => hij h.symm
              refine ⟨(g.sg i).lc, by simp [G.upd, hne], plain i q hij hq ?_⟩
              simp only [Bool.or_eq_true] at hnew
              rcases hnew with hs | hr
              · exact .inl hs
              · right
                intro he hhe hidx
                simp only [resetStaleEv, hhe, beq_iff_eq] at hr
                exact hij (hr.symm.trans hidx)
          | false =>
            simp only [Bool.or_eq_false_iff] at hnew
            have hpend : ∀ he, g.m.lastEvents.peripheral = some he → he.index ≠ slot := by
              intro he hhe hidx
              have h2 := hnew.2
              simp [resetStaleEv, hhe, hidx] at h2
            simp only [lcNow, hnew.1, Bool.false_or, hnew.2, Bool.false_eq_true, if_false]
            by_cases hij : slot = i
            · subst hij
              have hl : slot < g.m.slots.length := by
                rcases Nat.lt_or_ge slot g.m.slots.length with h | h
                · exact h
                · rw [List.getElem?_eq_none h] at hj; cases hj
              simp only [hl, if_true, Option.some.injEq] at hq
              subst hq
              refine ⟨0, ?_, by omega, by simp [Peripheral.resetAddress], by simp [Peripheral.resetAddress]⟩
              simp only [lcEff]
              cases hev : g.m.lastEvents.peripheral with
              | none => simp [G.upd]
              | some he => simp [G.upd, hpend he hev]
            · simp only [hij, if_false] at hq
              obtain ⟨v, hv, hok⟩ := h4.lc hcc i q hq
              refine ⟨v, ?_, hok⟩
              have hne : ¬ i = slot := fun h => hij h.symm
              rw [lcNow_fresh hnew.1] at hv
              simp only [lcEff] at hv ⊢
              cases hev : g.m.lastEvents.peripheral with
              | none => rw [hev] at hv; simpa [G.upd, hne] using hv
              | some he => rw [hev] at hv; simpa [G.upd, hne] using hv
  | timeout a =>
    simp only [gstep] at h
    split at h
    · cases h
    · simp only [Res3.ok.injEq] at h; subst h
      exact ⟨h4.clean, h4.exact, h4.lc⟩
  | take =>
    simp only [gstep, Master.takeLastEvents, Res3.ok.injEq] at h
    subst h
    refine ⟨fun _ => rfl, ?_, ?_⟩
    · intro hcc
      have := h4.exact hcc
      show g.produced = (g.taken ++ g.m.lastEvents.peripheral.toList) ++ []
      rw [this]; simp
    · intro hcc i p hi
      obtain ⟨v, hv, hok⟩ := h4.lc hcc i p hi
      refine ⟨v, ?_, hok⟩
      -- nothing is pending afterwards
      rw [lcNow_none rfl]
      cases hev : g.m.lastEvents.peripheral with
      | none =>
        rw [lcNow_none hev] at hv
        simpa using hv
      | some he =>
        cases hsv : g.staleEv with
        | true =>
          -- a stale event is handed out but not counted
          simp only [lcNow, hsv, if_true] at hv
          simpa using hv
        | false =>
          rw [lcNow_fresh hsv] at hv
          simp only [lcEff, hev] at hv
          by_cases hj : he.index = i
          · subst hj
            rw [if_pos rfl] at hv
            simp [G.upd, sgTake, hv]
          · rw [if_neg hj] at hv
            simp only [Option.some.injEq] at hv
            have : ¬ i = he.index := fun h => hj h.symm
            simp [G.upd, this, hv]
  | writeQ slot bs =>
    simp only [gstep] at h
    cases hw : g.m.writePiQ slot bs with
    | none => rw [hw] at h; cases h
    | some m' =>
      rw [hw] at h
      simp only [Res3.ok.injEq] at h; subst h
      unfold Master.writePiQ Master.peripheral? at hw
      cases hs : g.m.slots.getD slot none with
      | none => rw [hs] at hw; cases hw
      | some p =>
        rw [hs] at hw
        simp only at hw
        split at hw
        · simp only [Option.some.injEq] at hw; subst hw
          have hj : g.m.slots[slot]? = some (some p) := by
            rw [List.getD_eq_getElem?_getD] at hs
            cases hh : g.m.slots[slot]? with
            | none => rw [hh] at hs; cases hs
            | some x => rw [hh] at hs; simp only [Option.getD_some] at hs; rw [hs]
          refine ⟨h4.clean, h4.exact, ?_⟩
          intro hcc i q hq
          simp only at hq
          rw [List.getElem?_set] at hq
          by_cases hij : slot = i
          · subst hij
            have hl : slot < g.m.slots.length := by
              rcases Nat.lt_or_ge slot g.m.slots.length with h | h
              · exact h
              · rw [List.getElem?_eq_none h] at hj; cases hj
            simp only [hl, if_true, Option.some.injEq] at hq
            subst hq
            obtain ⟨v, hv, hok⟩ := h4.lc hcc slot p hj
            exact ⟨v, hv, lcOk_same hok rfl⟩
          · simp only [hij, if_false] at hq
            exact h4.lc hcc i q hq
        · cases hw
  | diagReq slot =>
    simp only [gstep] at h
    cases hw : g.m.requestDiagnostics slot with
    | none => rw [hw] at h; cases h
    | some m' =>
      rw [hw] at h
      simp only [Res3.ok.injEq] at h; subst h
      unfold Master.requestDiagnostics Master.peripheral? at hw
      cases hs : g.m.slots.getD slot none with
      | none => rw [hs] at hw; cases hw
      | some p =>
        rw [hs] at hw
        simp only [Option.some.injEq] at hw; subst hw
        have hj : g.m.slots[slot]? = some (some p) := by
          rw [List.getD_eq_getElem?_getD] at hs
          cases hh : g.m.slots[slot]? with
          | none => rw [hh] at hs; cases hs
          | some x => rw [hh] at hs; simp only [Option.getD_some] at hs; rw [hs]
        have hlc' : ∀ j, (g.upd slot (fun x => { x with diagReq := true }) j).lc = (g.sg j).lc := by
          intro j; by_cases hjs : j = slot
          · subst hjs; simp [G.upd]
          · simp [G.upd, hjs]
        refine ⟨h4.clean, h4.exact, ?_⟩
        intro hcc i q hq
        simp only at hq
        rw [List.getElem?_set] at hq
        by_cases hij : slot = i
        · subst hij
          have hl : slot < g.m.slots.length := by
            rcases Nat.lt_or_ge slot g.m.slots.length with h | h
            · exact h
            · rw [List.getElem?_eq_none h] at hj; cases hj
          simp only [hl, if_true, Option.some.injEq] at hq
          subst hq
          obtain ⟨v, hv, hok⟩ := h4.lc hcc slot p hj
          exact ⟨v, (by
            simp only [lcNow, lcEff] at hv ⊢
            cases hev : g.m.lastEvents.peripheral with
            | none => rw [hev] at hv; simp only [hlc']; exact hv
            | some he => rw [hev] at hv; simp only [hlc']; exact hv), lcOk_same hok rfl⟩
        · simp only [hij, if_false] at hq
          obtain ⟨v, hv, hok⟩ := h4.lc hcc i q hq
          exact ⟨v, (by
            simp only [lcNow, lcEff] at hv ⊢
            cases hev : g.m.lastEvents.peripheral with
            | none => rw [hev] at hv; simp only [hlc']; exact hv
            | some he => rw [hev] at hv; simp only [hlc']; exact hv), hok⟩


/-! ## Order of the turns within one poll -/

def occupied (slots : List (Option Peripheral)) (j : Nat) : Bool :=
  match slots[j]? with
  | some (some _) => true
  | _ => false

/-- Occupied slots in `[a, a + n)`, ascending. -/
def occFrom (slots : List (Option Peripheral)) (a : Nat) : Nat → List Nat
  | 0 => []
  | n + 1 => if occupied slots a then a :: occFrom slots (a + 1) n else occFrom slots (a + 1) n

/-- Occupied slots in `[a, b)`, ascending. -/
def occIn (slots : List (Option Peripheral)) (a b : Nat) : List Nat := occFrom slots a (b - a)

theorem occFrom_empty (slots : List (Option Peripheral)) : ∀ (n a : Nat),
    (∀ k, a ≤ k → k < a + n → occupied slots k = false) → occFrom slots a n = [] := by
  intro n
  induction n with
  | zero => intro a _; rfl
  | succ n ih =>
    intro a h
    simp only [occFrom, h a (Nat.le_refl _) (by omega), Bool.false_eq_true, if_false]
    exact ih (a + 1) (fun k h1 h2 => h k (by omega) (by omega))

/-- `occIn a c = a :: occIn b c` when `a` is occupied, nothing is occupied strictly between `a` and `b`, `b ≤ c`. -/
theorem occIn_cons (slots : List (Option Peripheral)) {a b c : Nat} (ha : occupied slots a = true) (hab : a < b)
    (hbc : b ≤ c) (hgap : ∀ k, a < k → k < b → occupied slots k = false) :
    occIn slots a c = a :: occIn slots b c := by
  unfold occIn
  have e : c - a = (c - (a + 1)) + 1 := by omega
  rw [e]
  simp only [occFrom, ha, if_true, List.cons.injEq, true_and]
  -- skip the empty stretch (a, b)
  have key : ∀ (d x : Nat), x + d = b → a < x → occFrom slots x (c - x) = occFrom slots b (c - b) := by
    intro d
    induction d with
    | zero => intro x hx _; have : x = b := by omega
              subst this; rfl
    | succ d ih =>
      intro x hx hax
      have e2 : c - x = (c - (x + 1)) + 1 := by omega
      rw [e2]
      simp only [occFrom, hgap x hax (by omega), Bool.false_eq_true, if_false]
      exact ih (x + 1) (by omega) (by omega)
  exact key (b - (a + 1)) (a + 1) (by omega) (by omega)

theorem occupied_set (slots : List (Option Peripheral)) {i : Nat} {p0 q : Peripheral}
    (hi : slots[i]? = some (some p0)) (j : Nat) : occupied (slots.set i (some q)) j = occupied slots j := by
  unfold occupied
  rw [List.getElem?_set]
  by_cases hij : i = j
  · subst hij
    have hl : i < slots.length := by
      rcases Nat.lt_or_ge i slots.length with h | h
      · exact h
      · rw [List.getElem?_eq_none h] at hi; cases hi
    simp only [hl, if_true, hi]
  · simp [hij]

theorem occFrom_congr {s1 s2 : List (Option Peripheral)} (h : ∀ j, occupied s1 j = occupied s2 j) :
    ∀ (n a : Nat), occFrom s1 a n = occFrom s2 a n := by
  intro n
  induction n with
  | zero => intro a; rfl
  | succ n ih => intro a; simp only [occFrom, h a, ih (a + 1)]

/-- Loop iterations that move on, with the slots whose `transmit_telegram` was invoked. -/
inductive ReachV (fp : FdlParams) : Master → Master → List Nat → Prop
  | refl (m : Master) : ReachV fp m m []
  | step {m m' m'' : Master} {index i : Nat} {vs : List Nat} :
      m.cycle = .dx index → m.visit fp index = .next i m' → ReachV fp m' m'' vs → ReachV fp m m'' (i :: vs)

theorem txLoop_reachV (fp : FdlParams) : ∀ (fuel : Nat) (m : Master),
    Master.txLoop fp fuel m = .hang ∨
      ∃ m1 vs, ReachV fp m m1 vs ∧ final fp m1 = some (Master.txLoop fp fuel m) := by
  intro fuel
  induction fuel with
  | zero => intro m; left; rfl
  | succ fuel ih =>
    intro m
    unfold Master.txLoop
    cases hc : m.cycle with
    | completed => right; exact ⟨m, [], .refl m, by simp [final, hc]⟩
    | dx index =>
      simp only
      cases hv : m.visit fp index with
      | panic => right; exact ⟨m, [], .refl m, by simp [final, hc, hv]⟩
      | empty m' => right; exact ⟨m, [], .refl m, by simp [final, hc, hv]⟩
      | send i m' h pdu => right; exact ⟨m, [], .refl m, by simp [final, hc, hv]⟩
      | event i m' => right; exact ⟨m, [], .refl m, by simp [final, hc, hv]⟩
      | last i m' => right; exact ⟨m, [], .refl m, by simp [final, hc, hv]⟩
      | next i m' =>
        simp only
        rcases ih m' with h | ⟨m1, vs, hr, hf⟩
        · left; exact h
        · right; exact ⟨m1, i :: vs, .step hc hv hr, hf⟩

theorem curSlot_occupied {slots : List (Option Peripheral)} {index i : Nat} {p : Peripheral}
    (h : curSlot slots index = some (i, p)) :
    occupied slots i = true ∧ ∀ k, index ≤ k → k < i → occupied slots k = false := by
  obtain ⟨_, _, h3, h4⟩ := curSlot_spec h
  refine ⟨by simp [occupied, h3], ?_⟩
  intro k h1 h2
  simp [occupied, h4 k h1 h2]

/-- The slots visited by the moving-on iterations: starting with the pointer at the occupied slot
`o`, they are exactly the occupied slots from `o` up to (excluding) the slot `o1` the pointer ends
at, ascending, none skipped, none twice; occupancy never changes. -/
theorem reachV_order {fp : FdlParams} (hfp : FpOk fp) {m m1 : Master} {vs : List Nat}
    (hr : ReachV fp m m1 vs) : MInv fp m → ∀ (index o : Nat) (p : Peripheral), m.cycle = .dx index →
      curSlot m.slots index = some (o, p) →
      (∀ j, occupied m1.slots j = occupied m.slots j) ∧
      (vs = [] → m1 = m) ∧
      (vs ≠ [] → ∃ o1 p1, m1.cycle = .dx o1 ∧ curSlot m1.slots o1 = some (o1, p1) ∧ o < o1 ∧
        vs = occIn m.slots o o1) := by
  induction hr with
  | refl m =>
    intro _ index o p _ _
    exact ⟨fun _ => rfl, fun _ => rfl, fun h => absurd rfl h⟩
  | @step m m' m'' index' i vs hc hv hrest ih =>
    intro hM index o p hcy hcur
    rw [hcy] at hc
    simp only [Cycle.dx.injEq] at hc
    subst hc
    obtain ⟨p0, n, hcs, hns, _, hm', hM'⟩ := next_inv hfp hM hv
    rw [hcur] at hcs
    simp only [Option.some.injEq, Prod.mk.injEq] at hcs
    obtain ⟨rfl, rfl⟩ := hcs
    have hi := (curSlot_spec hcur).2.2.1
    obtain ⟨hon, hnl, q, hcn⟩ := nextSlot_gt hcur hns
    have hocc' : ∀ j, occupied m'.slots j = occupied m.slots j := by
      intro j; rw [hm']; exact occupied_set m.slots hi j
    -- the pointer of m' sits exactly at the occupied slot n
    have hcn' : ∃ q', curSlot m'.slots n = some (n, q') := by
      rw [hm']
      simp only
      rw [curSlot_set hi, hcn]
      simp only [Option.map_some]
      by_cases hno : n = o
      · omega
      · exact ⟨q, by simp [hno]⟩
    obtain ⟨q', hcn''⟩ := hcn'
    have hcy' : m'.cycle = .dx n := by rw [hm']
    obtain ⟨hocc, hnil, hcons⟩ := ih hM' n n q' hcy' hcn''
    have hgap : ∀ k, o < k → k < n → occupied m.slots k = false := by
      -- nothing occupied strictly between the pointer slot and the next one
      intro k h1 h2
      unfold nextSlot at hns
      rw [hcur] at hns
      simp only at hns
      cases hd : curSlot m.slots (o + 1) with
      | none => rw [hd] at hns; cases hns
      | some jq =>
        rw [hd] at hns
        simp only [Option.map_some, Option.some.injEq] at hns
        have := (curSlot_occupied (p := jq.2) (i := jq.1) (by rw [hd])).2 k (by omega) (by omega)
        exact this
    have hoo := (curSlot_occupied hcur).1
    refine ⟨fun j => (hocc j).trans (hocc' j), (by intro h; cases h), fun _ => ?_⟩
    cases vs with
    | nil =>
      have := hnil rfl
      subst this
      refine ⟨n, q', hcy', hcn'', hon, ?_⟩
      rw [occIn_cons m.slots hoo hon (Nat.le_refl _) hgap]
      simp [occIn, occFrom]
    | cons v vs' =>
      obtain ⟨o1, p1, h1, h2, h3, h4⟩ := hcons (by simp)
      refine ⟨o1, p1, h1, h2, by omega, ?_⟩
      rw [occIn_cons m.slots hoo hon (by omega) hgap, h4]
      simp only [occIn]
      rw [occFrom_congr hocc']


theorem occFrom_snoc (slots : List (Option Peripheral)) : ∀ (n a : Nat), occupied slots (a + n) = true →
    occFrom slots a (n + 1) = occFrom slots a n ++ [a + n] := by
  intro n
  induction n with
  | zero =>
    intro a h
    have h' : occupied slots a = true := by simpa using h
    simp [occFrom, h']
  | succ n ih =>
    intro a h
    have e : a + (n + 1) = (a + 1) + n := by omega
    rw [e] at h
    have := ih (a + 1) h
    rw [occFrom, this]
    by_cases ho : occupied slots a = true
    · simp [occFrom, ho, e]
    · simp [occFrom, ho, e]

theorem occIn_snoc (slots : List (Option Peripheral)) {a b : Nat} (hab : a ≤ b) (hb : occupied slots b = true) :
    occIn slots a (b + 1) = occIn slots a b ++ [b] := by
  unfold occIn
  have e1 : b + 1 - a = (b - a) + 1 := by omega
  have e2 : b = a + (b - a) := by omega
  rw [e1, occFrom_snoc slots (b - a) a (by rw [← e2]; exact hb), ← e2]

theorem reachV_reach {fp : FdlParams} {m m1 : Master} {vs : List Nat} (h : ReachV fp m m1 vs) : Reach fp m m1 := by
  induction h with
  | refl => exact .refl _
  | step h1 h2 _ ih => exact .step h1 h2 ih

/-- The slots on which one run of the `transmit_telegram` loop invokes `Peripheral::transmit_telegram`:
starting with the cycle index at the occupied slot `o`, they are exactly the occupied slots from `o`
up to the slot `e` that ends the loop — ascending, none skipped, none twice — and the peripheral in
`e` decides the outcome (telegram / Offline event / end of the cycle). -/
theorem poll_turns {fp : FdlParams} (hfp : FpOk fp) {m : Master} (hM : MInv fp m) {index o : Nat} {p : Peripheral}
    (hcy : m.cycle = .dx index) (hc : curSlot m.slots index = some (o, p)) :
    ∃ m1 vs index1 e pe, ReachV fp m m1 vs ∧ m1.cycle = .dx index1 ∧ curSlot m1.slots index1 = some (e, pe) ∧
      vs ++ [e] = occIn m.slots o (e + 1) ∧ (∀ j, occupied m1.slots j = occupied m.slots j) ∧
      (match pe.transmit fp m1.op with
       | .send p' h pdu =>
         Master.txLoop fp (m.slots.length + 1) m =
           .send { m1 with slots := m1.slots.set e (some p'), lastEvents := {} } h pdu
       | .decline p' ev =>
         Master.txLoop fp (m.slots.length + 1) m = .none (afterDecline m1 index1 e pe p' ev) ∧
         (ev = none → nextSlot m1.slots index1 = none)
       | .panic => False) := by
  have hnh := txLoop_no_hang hfp (m.slots.length + 1) m hM (by omega) (by intro i _; omega)
  rcases txLoop_reachV fp (m.slots.length + 1) m with hh | ⟨m1, vs, hr, hf⟩
  · exact absurd hh hnh
  · obtain ⟨hocc, hnil, hcons⟩ := reachV_order hfp hr hM index o p hcy hc
    have hM1 : MInv fp m1 := by
      -- ReachV projects to Reach
      exact reach_minv hfp (reachV_reach hr) hM
    -- pointer of m1
    have hptr : ∃ index1 e pe, m1.cycle = .dx index1 ∧ curSlot m1.slots index1 = some (e, pe) ∧
        vs ++ [e] = occIn m.slots o (e + 1) := by
      cases hvs : vs with
      | nil =>
        have := hnil hvs; subst this
        refine ⟨index, o, p, hcy, hc, ?_⟩
        have hoo := (curSlot_occupied hc).1
        simp [occIn, occFrom, hoo]
      | cons v vs' =>
        obtain ⟨o1, p1, h1, h2, h3, h4⟩ := hcons (by rw [hvs]; simp)
        refine ⟨o1, o1, p1, h1, h2, ?_⟩
        have ho1 : occupied m.slots o1 = true := by rw [← hocc]; exact (curSlot_occupied h2).1
        rw [occIn_snoc m.slots (by omega) ho1, ← hvs, h4]
    obtain ⟨index1, e, pe, hcy1, hc1, hvse⟩ := hptr
    refine ⟨m1, vs, index1, e, pe, hr, hcy1, hc1, hvse, hocc, ?_⟩
    unfold final at hf
    rw [hcy1] at hf
    simp only at hf
    rw [visit_eq hM1, hc1] at hf
    simp only at hf
    cases ht : pe.transmit fp m1.op with
    | panic =>
      have hi := (curSlot_spec hc1).2.2.1
      have := tx_spec hfp (by rw [hM1.op]; decide : m1.op ≠ .stop) (hM1.pinv e pe hi)
      rw [ht] at this; cases this
    | send p' h pdu =>
      rw [ht] at hf
      simp only [Option.some.injEq] at hf
      simp only; exact hf.symm
    | decline p' ev =>
      rw [ht] at hf
      simp only
      cases ev with
      | some ev' =>
        simp only [Option.some.injEq] at hf
        exact ⟨hf.symm, by intro h; cases h⟩
      | none =>
        simp only at hf
        cases hn : nextSlot m1.slots index1 with
        | some n => rw [hn] at hf; cases hf
        | none =>
          rw [hn] at hf
          simp only [Option.some.injEq] at hf
          exact ⟨hf.symm, fun _ => rfl⟩

/-- When the loop ends without a telegram (the last peripheral visited declined, with or without
an Offline event), `cycle_completed` is reported exactly when no occupied slot follows it — then the
cycle index wraps to 0; otherwise the index moves to the next occupied slot.  (`afterDecline` is the
master state the loop leaves; without event it only ends the loop when nothing follows, `poll_turns`.) -/
theorem afterDecline_cycle (m1 : Master) (index1 e : Nat) (pe p' : Peripheral) (ev : Option PEvent)
    (hend : ev = none → nextSlot m1.slots index1 = none) :
    ((afterDecline m1 index1 e pe p' ev).lastEvents.cycleCompleted = true ↔ nextSlot m1.slots index1 = none) ∧
    (nextSlot m1.slots index1 = none → (afterDecline m1 index1 e pe p' ev).cycle = .dx 0) ∧
    (∀ n, nextSlot m1.slots index1 = some n → (afterDecline m1 index1 e pe p' ev).cycle = .dx n) := by
  unfold afterDecline
  cases hn : nextSlot m1.slots index1 with
  | none => cases ev <;> simp
  | some n =>
    cases ev with
    | none => rw [hend rfl] at hn; cases hn
    | some e' => simp

/-- `receive_reply` ends the turn of the addressed peripheral: the cycle index moves to the next
occupied slot, or — if none follows — the cycle is completed and `cycle_completed` is reported. -/
theorem afterReply_cycle (m : Master) (index i : Nat) (p p' : Peripheral) (ev : Option PEvent) :
    ((afterReply m index i p p' ev).lastEvents.cycleCompleted = true ↔ nextSlot m.slots index = none) ∧
    (nextSlot m.slots index = none → (afterReply m index i p p' ev).cycle = .completed) ∧
    (∀ n, nextSlot m.slots index = some n → (afterReply m index i p p' ev).cycle = .dx n) := by
  unfold afterReply
  cases hn : nextSlot m.slots index <;> simp

/-- `nextSlot` is the next occupied slot: nothing occupied lies between. -/
theorem nextSlot_is_next {slots : List (Option Peripheral)} {index i n : Nat} {p : Peripheral}
    (hc : curSlot slots index = some (i, p)) (hn : nextSlot slots index = some n) :
    i < n ∧ occupied slots n = true ∧ ∀ k, i < k → k < n → occupied slots k = false := by
  obtain ⟨h1, _, q, hq⟩ := nextSlot_gt hc hn
  refine ⟨h1, (curSlot_occupied hq).1, ?_⟩
  intro k hk1 hk2
  unfold nextSlot at hn
  rw [hc] at hn
  simp only at hn
  cases hd : curSlot slots (i + 1) with
  | none => rw [hd] at hn; cases hn
  | some jq =>
    rw [hd] at hn
    simp only [Option.map_some, Option.some.injEq] at hn
    exact (curSlot_occupied (p := jq.2) (i := jq.1) (by rw [hd])).2 k (by omega) (by omega)

/-- No occupied slot follows when `nextSlot` is `none`. -/
theorem nextSlot_none_last {slots : List (Option Peripheral)} {index i : Nat} {p : Peripheral}
    (hc : curSlot slots index = some (i, p)) (hn : nextSlot slots index = none) :
    ∀ k, i < k → occupied slots k = false := by
  intro k hk
  unfold nextSlot at hn
  rw [hc] at hn
  simp only at hn
  cases hd : curSlot slots (i + 1) with
  | some jq => rw [hd] at hn; simp at hn
  | none =>
    by_cases hkl : k < slots.length
    · have := firstFrom_none slots 0 (i + 1) hd k (Nat.zero_le _) (by omega) (by omega)
      simp only [Nat.sub_zero] at this
      simp [occupied, this]
    · have : slots[k]? = none := List.getElem?_eq_none (by omega)
      simp [occupied, this]


end PV.Dp
