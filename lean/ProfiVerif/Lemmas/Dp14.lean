/-
Ghost invariants for C14: exact event accounting (`produced` = `taken` ++ pending) and the
life-cycle automaton of the taken events against the peripheral state.
-/
import ProfiVerif.Lemmas.Dp08

set_option linter.unusedSimpArgs false

namespace PV.Dp
open PV

/-- Life-cycle state of slot `i` including the event that is still waiting in `last_events`. -/
def lcEff (g : G) (i : Nat) : Option Nat :=
  match g.m.lastEvents.peripheral with
  | some he => if he.index = i then lcStep (g.sg i).lc he.ev else some (g.sg i).lc
  | none => some (g.sg i).lc

/-- Life-cycle value against the peripheral state. -/
structure LcOk (v : Nat) (p : Peripheral) : Prop where
  le : v ≤ 2
  off : p.state = .offline ↔ v = 0
  dx : (p.state = .preDataExchange ∨ p.state = .dataExchange) → v = 2

structure Inv14 (g : G) : Prop where
  /-- nothing is pending when no callback ran since the last `take_last_events` -/
  clean : g.dirty = false → g.m.lastEvents.peripheral = none
  /-- none lost, none duplicated -/
  exact : g.collected = true → g.produced = g.taken ++ g.m.lastEvents.peripheral.toList
  lc : g.collected = true → ∀ (i : Nat) (p : Peripheral), g.m.slots[i]? = some (some p) →
    ∃ v, lcEff g i = some v ∧ LcOk v p

theorem lcOk_same {v : Nat} {p p' : Peripheral} (h : LcOk v p) (hs : p'.state = p.state) : LcOk v p' :=
  ⟨h.le, by rw [hs]; exact h.off, by rw [hs]; exact h.dx⟩

theorem inv14_init {fp : FdlParams} {slots : List (Option Peripheral)} (h : InitOk fp slots) (gr : Bool) :
    Inv14 (G.init slots gr) := by
  refine ⟨fun _ => rfl, fun _ => rfl, ?_⟩
  intro _ i p hi
  have hs := (h.fresh i p hi).2.1
  refine ⟨0, rfl, by omega, by simp [hs], ?_⟩
  rw [hs]; intro hh; rcases hh with hh | hh <;> cases hh

/-- Event and state change of `receive_reply` against the life-cycle automaton. -/
theorem rx_lc {p p' : Peripheral} {t : Telegram} {ev : Option PEvent} (h : RxSpec p t p' ev)
    {v : Nat} (hv : LcOk v p) :
    ∃ v', (match ev with | some e => lcStep v e | none => some v) = some v' ∧ LcOk v' p' := by
  have hle := hv.le
  cases h
  case offAcc hs _ =>
    have := hv.off.mp hs; subst this
    exact ⟨1, rfl, by omega, by simp, by simp⟩
  case offRej hs _ => exact ⟨v, rfl, hv⟩
  case prmSc hs =>
    exact ⟨v, rfl, hle, by simp; intro h0; exact absurd (hv.off.mpr h0) (by simp [hs]), by simp⟩
  case prmRej hs _ => exact ⟨v, rfl, hv⟩
  case cfgSc hs =>
    exact ⟨v, rfl, hle, by simp; intro h0; exact absurd (hv.off.mpr h0) (by simp [hs]), by simp⟩
  case cfgRej hs _ => exact ⟨v, rfl, hv⟩
  case valRej hs _ => exact ⟨v, rfl, lcOk_same hv rfl⟩
  case valPrmFault hs _ _ =>
    have h0 : v ≠ 0 := fun h0 => absurd (hv.off.mpr h0) (by simp [hs])
    refine ⟨0, ?_, by omega, by simp, by simp⟩
    have : v = 1 ∨ v = 2 := by omega
    rcases this with rfl | rfl <;> rfl
  case valCfgFault hs _ _ _ =>
    have h0 : v ≠ 0 := fun h0 => absurd (hv.off.mpr h0) (by simp [hs])
    refine ⟨0, ?_, by omega, by simp, by simp⟩
    have : v = 1 ∨ v = 2 := by omega
    rcases this with rfl | rfl <;> rfl
  case valPrmReq hs _ _ _ _ =>
    exact ⟨v, rfl, hle, by simp; intro h0; exact absurd (hv.off.mpr h0) (by simp [hs]), by simp⟩
  case valReady hs _ _ _ _ _ =>
    have h0 : v ≠ 0 := fun h0 => absurd (hv.off.mpr h0) (by simp [hs])
    refine ⟨2, ?_, by omega, by simp, by simp⟩
    have : v = 1 ∨ v = 2 := by omega
    rcases this with rfl | rfl <;> rfl
  case valNotReady hs _ _ _ _ _ =>
    exact ⟨v, rfl, hle, by simp [hs]; intro h0; exact absurd (hv.off.mpr h0) (by simp [hs]), by simp [hs]⟩
  case dxDiagAcc hs _ _ =>
    have h2 := hv.dx hs; subst h2
    refine ⟨2, rfl, by omega, ?_, fun _ => rfl⟩
    rcases hs with hs | hs <;> simp [hs]
  case dxDiagRej hs _ _ => exact ⟨v, rfl, hv⟩
  case dxScData hs _ _ =>
    have h2 := hv.dx hs; subst h2
    refine ⟨2, rfl, by omega, ?_, fun _ => rfl⟩
    rcases hs with hs | hs <;> simp [hs]
  case dxScOk hs _ _ =>
    have h2 := hv.dx hs; subst h2
    exact ⟨2, rfl, by omega, by simp, fun _ => rfl⟩
  case dxSapNotEnabled hs _ _ =>
    have h2 := hv.dx hs; subst h2
    exact ⟨2, rfl, by omega, by simp, by simp⟩
  case dxOther hs _ _ _ _ =>
    have h2 := hv.dx hs; subst h2
    refine ⟨2, rfl, by omega, ?_, fun _ => rfl⟩
    rcases hs with hs | hs <;> simp [hs]
  case dxSaps hs _ _ _ _ =>
    have h2 := hv.dx hs; subst h2
    refine ⟨2, rfl, by omega, ?_, fun _ => rfl⟩
    rcases hs with hs | hs <;> simp [hs]
  case dxLen hs _ _ _ _ _ _ =>
    have h2 := hv.dx hs; subst h2
    refine ⟨2, rfl, by omega, ?_, fun _ => rfl⟩
    rcases hs with hs | hs <;> simp [hs]
  case dxData hs _ _ _ _ _ _ =>
    have h2 := hv.dx hs; subst h2
    exact ⟨2, rfl, by omega, by simp, fun _ => rfl⟩

theorem lcEff_none {g : G} (h : g.m.lastEvents.peripheral = none) (i : Nat) : lcEff g i = some (g.sg i).lc := by
  simp [lcEff, h]

theorem toList_none {α : Type} {o : Option α} (h : o = none) : o.toList = [] := by subst h; rfl

theorem inv14_step {fp : FdlParams} (hfp : FpOk fp) {g g' : G} (hI : Inv fp g) (h4 : Inv14 g) (op : Op)
    (h : gstep fp g op = .ok g') : Inv14 g' := by
  -- what `collected` gives for the state before a callback
  have before : (g.collected && !g.dirty) = true →
      g.m.lastEvents.peripheral = none ∧ g.produced = g.taken ∧
      ∀ (i : Nat) (p : Peripheral), g.m.slots[i]? = some (some p) → LcOk (g.sg i).lc p := by
    intro hc
    simp only [Bool.and_eq_true, Bool.not_eq_true'] at hc
    have hn := h4.clean hc.2
    refine ⟨hn, by have := h4.exact hc.1; rw [hn] at this; simpa using this, ?_⟩
    intro i p hi
    obtain ⟨v, hv, hok⟩ := h4.lc hc.1 i p hi
    rw [lcEff_none hn] at hv
    simp only [Option.some.injEq] at hv
    rw [hv]; exact hok
  cases op with
  | tx now hp =>
    cases tx_form hfp hI h with
    | gc =>
      refine ⟨(by intro hd; cases hd), ?_, ?_⟩
      · intro hc
        obtain ⟨_, hp, _⟩ := before hc
        show g.produced = g.taken ++ _
        rw [hp]; simp [G.polled]
      · intro hc i p hi
        obtain ⟨_, _, hl⟩ := before hc
        exact ⟨(g.sg i).lc, by simp [lcEff, G.polled], hl i p hi⟩
    | idle m' hD _ hn =>
      refine ⟨(by intro hd; cases hd), ?_, ?_⟩
      · intro hc
        obtain ⟨_, hp, _⟩ := before hc
        show g.produced = g.taken ++ m'.lastEvents.peripheral.toList
        rw [hp, hn]; simp
      · intro hc i p hi
        obtain ⟨_, _, hl⟩ := before hc
        have := declined_pres hD (fun i p => LcOk (g.sg i).lc p) (fun i p hJ _ => lcOk_same hJ rfl) hl i p hi
        exact ⟨(g.sg i).lc, by simp [lcEff, G.polled, hn], this⟩
    | send m1 i p p' hd pdu hD hM1 hc hts =>
      refine ⟨(by intro hd; cases hd), ?_, ?_⟩
      · intro hcc
        obtain ⟨_, hp, _⟩ := before hcc
        show g.produced = g.taken ++ _
        rw [hp]; simp [G.polled]
      · intro hcc
        obtain ⟨_, _, hl⟩ := before hcc
        have h1 := declined_pres hD (fun i p => LcOk (g.sg i).lc p) (fun i p hJ _ => lcOk_same hJ rfl) hl
        have hi := cur_slot hc
        have hst : p'.state = p.state := (send_kind_snap hts).2.1
        have key := set_pres (slots := m1.slots) (i := i) (q := p') (fun j p => LcOk (g.sg j).lc p)
          (fun j p => LcOk (g.upd i (sgSend hd p') j).lc p) h1
          (by rw [upd_same]; simp only [sgSend]; exact lcOk_same (h1 i p hi) hst)
          (by intro j q hj hJ; rw [upd_other _ _ hj]; exact hJ)
        intro j q hq
        exact ⟨_, by simp [lcEff, G.polled], key j q hq⟩
    | off m1 index i p hD hM1 hcy hc hret =>
      have hev : (afterDecline m1 index i p { p with state := .offline, fcb := .first, retry := 0 } (some .offline)).lastEvents.peripheral
          = some { index := i, address := p.address, ev := .offline } := by
        unfold afterDecline; cases nextSlot m1.slots index <;> rfl
      have hs : (afterDecline m1 index i p { p with state := .offline, fcb := .first, retry := 0 } (some .offline)).slots
          = m1.slots.set i (some { p with state := .offline, fcb := .first, retry := 0 }) := by
        simp only [afterDecline]; cases nextSlot m1.slots index <;> rfl
      refine ⟨(by intro hd; cases hd), ?_, ?_⟩
      · intro hcc
        obtain ⟨_, hp, _⟩ := before hcc
        show g.produced ++ _ = g.taken ++ (afterDecline m1 index i p _ (some .offline)).lastEvents.peripheral.toList
        rw [hp, hev]; rfl
      · intro hcc
        obtain ⟨_, _, hl⟩ := before hcc
        have h1 := declined_pres hD (fun i p => LcOk (g.sg i).lc p) (fun i p hJ _ => lcOk_same hJ rfl) hl
        have hi := (curSlot_spec hc).2.2.1
        have hP := hM1.pinv i p hi
        have hlive : p.state ≠ .offline := by
          intro hs0; have := hP.off_retry hs0; have := hfp.retry_lo; omega
        have hlc := h1 i p hi
        have hv0 : (g.sg i).lc ≠ 0 := fun h0 => hlive (hlc.off.mpr h0)
        intro j q hq
        simp only [G.polled] at hq
        rw [hs, List.getElem?_set] at hq
        by_cases hij : i = j
        · subst hij
          simp only [(curSlot_spec hc).2.1, if_true, Option.some.injEq] at hq
          subst hq
          refine ⟨0, ?_, by omega, by simp, by simp⟩
          simp only [lcEff, G.polled, hev, if_true, upd_same, sgOffline]
          have hle := hlc.le
          have : (g.sg i).lc = 1 ∨ (g.sg i).lc = 2 := by omega
          rcases this with h12 | h12 <;> rw [h12] <;> rfl
        · simp only [hij, if_false] at hq
          refine ⟨(g.sg j).lc, ?_, h1 j q hq⟩
          simp only [lcEff, G.polled, hev, hij, if_false]
          rw [upd_other _ _ (fun h => hij h.symm)]
  | reply a t =>
    obtain ⟨index, i, p, p', ev, ho, hcy, hc, hpa, hal, hspec, rfl⟩ := reply_form hI h
    have hi := (curSlot_spec hc).2.2.1
    refine ⟨(by intro hd; cases hd), ?_, ?_⟩
    · intro hcc
      obtain ⟨_, hp, _⟩ := before hcc
      show g.produced ++ _ = g.taken ++ (afterReply g.m index i p p' ev).lastEvents.peripheral.toList
      rw [hp]; simp only [afterReply]
    · intro hcc
      obtain ⟨_, _, hl⟩ := before hcc
      obtain ⟨v', hv', hok'⟩ := rx_lc hspec (hl i p hi)
      intro j q hq
      simp only [afterReply] at hq
      rw [List.getElem?_set] at hq
      by_cases hij : i = j
      · subst hij
        simp only [(curSlot_spec hc).2.1, if_true, Option.some.injEq] at hq
        subst hq
        refine ⟨v', ?_, hok'⟩
        simp only [lcEff, afterReply, upd_same, sgReply]
        cases ev with
        | none => simpa using hv'
        | some e => simpa using hv'
      · simp only [hij, if_false] at hq
        refine ⟨(g.sg j).lc, ?_, hl j q hq⟩
        simp only [lcEff, afterReply]
        rw [upd_other _ _ (fun h => hij h.symm)]
        cases ev with
        | none => rfl
        | some e => simp [hij]
  | timeout a =>
    simp only [gstep] at h
    split at h
    · cases h
    · simp only [Res3.ok.injEq] at h; subst h
      exact ⟨h4.clean, h4.exact, h4.lc⟩
  | take =>
    simp only [gstep, Master.takeLastEvents, Res3.ok.injEq] at h
    subst h
    refine ⟨fun _ => rfl, ?_, ?_⟩
    · intro hcc
      have := h4.exact hcc
      show g.produced = (g.taken ++ g.m.lastEvents.peripheral.toList) ++ []
      rw [this]; simp
    · intro hcc i p hi
      obtain ⟨v, hv, hok⟩ := h4.lc hcc i p hi
      refine ⟨v, ?_, hok⟩
      simp only [lcEff]
      cases hev : g.m.lastEvents.peripheral with
      | none =>
        rw [lcEff_none hev] at hv
        simpa using hv
      | some he =>
        simp only [lcEff, hev] at hv
        by_cases hj : he.index = i
        · subst hj
          rw [if_pos rfl] at hv
          simp [G.upd, sgTake, hv]
        · rw [if_neg hj] at hv
          simp only [Option.some.injEq] at hv
          have : ¬ i = he.index := fun h => hj h.symm
          simp [G.upd, this, hv]
  | writeQ slot bs =>
    simp only [gstep] at h
    cases hw : g.m.writePiQ slot bs with
    | none => rw [hw] at h; cases h
    | some m' =>
      rw [hw] at h
      simp only [Res3.ok.injEq] at h; subst h
      unfold Master.writePiQ Master.peripheral? at hw
      cases hs : g.m.slots.getD slot none with
      | none => rw [hs] at hw; cases hw
      | some p =>
        rw [hs] at hw
        simp only at hw
        split at hw
        · simp only [Option.some.injEq] at hw; subst hw
          have hj : g.m.slots[slot]? = some (some p) := by
            rw [List.getD_eq_getElem?_getD] at hs
            cases hh : g.m.slots[slot]? with
            | none => rw [hh] at hs; cases hs
            | some x => rw [hh] at hs; simp only [Option.getD_some] at hs; rw [hs]
          refine ⟨h4.clean, h4.exact, ?_⟩
          intro hcc i q hq
          simp only at hq
          rw [List.getElem?_set] at hq
          by_cases hij : slot = i
          · subst hij
            have hl : slot < g.m.slots.length := by
              rcases Nat.lt_or_ge slot g.m.slots.length with h | h
              · exact h
              · rw [List.getElem?_eq_none h] at hj; cases hj
            simp only [hl, if_true, Option.some.injEq] at hq
            subst hq
            obtain ⟨v, hv, hok⟩ := h4.lc hcc slot p hj
            exact ⟨v, hv, lcOk_same hok rfl⟩
          · simp only [hij, if_false] at hq
            exact h4.lc hcc i q hq
        · cases hw
  | diagReq slot =>
    simp only [gstep] at h
    cases hw : g.m.requestDiagnostics slot with
    | none => rw [hw] at h; cases h
    | some m' =>
      rw [hw] at h
      simp only [Res3.ok.injEq] at h; subst h
      unfold Master.requestDiagnostics Master.peripheral? at hw
      cases hs : g.m.slots.getD slot none with
      | none => rw [hs] at hw; cases hw
      | some p =>
        rw [hs] at hw
        simp only [Option.some.injEq] at hw; subst hw
        have hj : g.m.slots[slot]? = some (some p) := by
          rw [List.getD_eq_getElem?_getD] at hs
          cases hh : g.m.slots[slot]? with
          | none => rw [hh] at hs; cases hs
          | some x => rw [hh] at hs; simp only [Option.getD_some] at hs; rw [hs]
        have hlc' : ∀ j, (g.upd slot (fun x => { x with diagReq := true }) j).lc = (g.sg j).lc := by
          intro j; by_cases hjs : j = slot
          · subst hjs; simp [G.upd]
          · simp [G.upd, hjs]
        refine ⟨h4.clean, h4.exact, ?_⟩
        intro hcc i q hq
        simp only at hq
        rw [List.getElem?_set] at hq
        by_cases hij : slot = i
        · subst hij
          have hl : slot < g.m.slots.length := by
            rcases Nat.lt_or_ge slot g.m.slots.length with h | h
            · exact h
            · rw [List.getElem?_eq_none h] at hj; cases hj
          simp only [hl, if_true, Option.some.injEq] at hq
          subst hq
          obtain ⟨v, hv, hok⟩ := h4.lc hcc slot p hj
          exact ⟨v, (by
            simp only [lcEff] at hv ⊢
            cases hev : g.m.lastEvents.peripheral with
            | none => rw [hev] at hv; simp only [hlc']; exact hv
            | some he => rw [hev] at hv; simp only [hlc']; exact hv), lcOk_same hok rfl⟩
        · simp only [hij, if_false] at hq
          obtain ⟨v, hv, hok⟩ := h4.lc hcc i q hq
          exact ⟨v, (by
            simp only [lcEff] at hv ⊢
            cases hev : g.m.lastEvents.peripheral with
            | none => rw [hev] at hv; simp only [hlc']; exact hv
            | some he => rw [hev] at hv; simp only [hlc']; exact hv), hok⟩


end PV.Dp
