/-
A concrete run of the composed system FDL ∘ DP from the initial state, used by the non-vacuity
examples of `Props/C03Stack.lean` … `Props/C14Stack.lean`: station 2 (HSA 3) claims the token on a
silent bus and the master brings the peripheral at address 7 up to data exchange — every request is
asked for by the station model, every reply goes through its receive path and admission filter.
-/
import ProfiVerif.Lemmas.StackTotal

namespace PV.Stack.Ex
open PV PV.Dp PV.Stack

def params : Params :=
  { address := 2, rate := 500000, slotBits := 200, ttrBits := 20000, gapWait := 10, hsa := 3, maxRetry := 1, minTsdrBits := 11 }
def fp : FdlParams := { address := 2, slotUs := 400, maxRetry := 1, minTsdr := 11, watchdog := some (1, 10) }
def opts : Options := { ident := 0x80b1, sync := false, freeze := true, groups := 3, userPrm := some [1, 2, 3], config := some [0x11, 0x21] }
def slots : List (Option Peripheral) := [none, some (Peripheral.new 7 opts [0] [0, 0] 16)]

theorem fp_ok : FpOk fp := ⟨by decide, by decide, by decide, by decide⟩

theorem init_ok : InitOk fp slots where
  len := by decide
  fresh := by
    intro i q hi
    have : q = Peripheral.new 7 opts [0] [0, 0] 16 := by
      match i, hi with
      | 1, hi => simpa [slots] using hi.symm
    subst this
    exact ⟨pinv_new _ _ _ _ _ _ (by intro up h; simp [opts] at h; subst h; decide)
      (by intro c h; simp [opts] at h; subst h; decide) (by decide) (by decide), rfl, rfl, rfl, rfl, rfl⟩

/-- Wire bytes: diagnostics response with PRM_REQ / STATION_NOT_READY (before parameterisation), the
short confirmation, a clean diagnostics response, a Data_Exchange response with one input byte. -/
def diagNotReady : Bytes := [162, 130, 135, 8, 62, 60, 2, 5, 0, 255, 128, 177, 194, 22]
def sc : Bytes := [229]
def diagReady : Bytes := [162, 130, 135, 8, 62, 60, 0, 4, 0, 2, 128, 177, 194, 22]
def dxReply : Bytes := [104, 4, 4, 104, 2, 7, 8, 66, 83, 22]

def calls : List Call :=
  [.setOnline, .poll 0 false [], .poll 100000 false [], .poll 101000 false [], .poll 102000 false [],
   .poll 103000 false [], .poll 104000 false [], .poll 105000 false [], .poll 106000 false [], .poll 107000 false [],
   .poll 108000 false diagNotReady, .poll 109000 false [], .poll 110000 false [], .poll 111000 false [],
   .poll 112000 false [], .poll 113000 false sc, .poll 114000 false [], .poll 115000 false [],
   .poll 116000 false sc, .poll 117000 false [], .poll 118000 false [], .poll 119000 false diagReady,
   .poll 120000 false [], .poll 121000 false [], .take, .writeQ 1 [5, 6], .poll 122000 false dxReply, .poll 123000 false [],
   .poll 124000 false []]

theorem times_ok : TimesOk 0 calls := by simp [calls, TimesOk]

/-- Walk a history and test a predicate on every step `(g, op, g')`. -/
def anyStep (f : G → Op → G → Bool) (g : G) : List Op → Bool
  | [] => false
  | op :: rest =>
    match gstep fp g op with
    | .ok g' => f g op g' || anyStep f g' rest
    | _ => false

/-- Does the composed run make a master call on which `f` holds? -/
def runHas (f : G → Op → G → Bool) : Bool :=
  match run fp (init params slots false) calls with
  | .ok (_, l) => anyStep f (G.init slots false) (l.map toOp)
  | _ => false

end PV.Stack.Ex
