/-
Table `checkInductive` of property C07 (see `Lemmas/DpLiveTable.lean`) for a slave with inputs, split by
peripheral state so that each kernel evaluation stays short.
-/
import ProfiVerif.Lemmas.DpLiveTable

namespace PV.Live
open PV PV.Dp

set_option maxRecDepth 1000000

theorem ind_f_off : checkInductive false .offline = true := by decide +kernel
theorem ind_f_prm : checkInductive false .waitForParam = true := by decide +kernel
theorem ind_f_cfg : checkInductive false .waitForConfig = true := by decide +kernel
theorem ind_f_val : checkInductive false .validateConfig = true := by decide +kernel
theorem ind_f_pre : checkInductive false .preDataExchange = true := by decide +kernel
theorem ind_f_dx : checkInductive false .dataExchange = true := by decide +kernel

end PV.Live
