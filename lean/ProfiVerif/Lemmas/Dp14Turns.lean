/-
C14 `turn_order` / `cycle_completed_once` over WHOLE histories.

A *visit* is one invocation of `Peripheral::transmit_telegram` by the loop of the master's
`transmit_telegram` (`txVisits` mirrors the loop and lists the slots, in order).  A *turn* is a maximal
run of consecutive visits of the same slot within a pass (the request and its retransmissions: while
a request is outstanding or unanswered the cycle index stays on the slot, and the next poll visits it
again).  A *pass* ends when a callback reports `cycle_completed`.

`Turns` keeps the turns of the current pass and the completed passes; `trun` runs a history with this
bookkeeping next to `grun`.  Theorem `turn_order`: after every contract history (any replies,
time-outs, user calls incl. `reset_address`, polls at any time, also while a request is outstanding)
every completed pass consists of exactly the occupied slots, each once, in ascending order; the
current pass is the ascending list of the occupied slots before the cycle index (plus the slot under
the index once its turn has begun).  Since a pass is closed exactly at a `cycle_completed` report,
there is exactly one report per pass (`cycle_completed_once`).
-/
import ProfiVerif.Lemmas.Dp14

namespace PV.Dp
open PV

/-! ## Lists of occupied slots -/

theorem mem_occFrom (slots : List (Option Peripheral)) : ∀ (n a x : Nat), x ∈ occFrom slots a n →
    a ≤ x ∧ x < a + n ∧ occupied slots x = true := by
  intro n
  induction n with
  | zero => intro a x h; cases h
  | succ n ih =>
    intro a x h
    simp only [occFrom] at h
    by_cases ho : occupied slots a = true
    · rw [if_pos ho] at h
      rcases List.mem_cons.mp h with rfl | h
      · exact ⟨Nat.le_refl _, by omega, ho⟩
      · obtain ⟨h1, h2, h3⟩ := ih (a + 1) x h
        exact ⟨by omega, by omega, h3⟩
    · rw [if_neg ho] at h
      obtain ⟨h1, h2, h3⟩ := ih (a + 1) x h
      exact ⟨by omega, by omega, h3⟩

theorem occIn_snoc_false (slots : List (Option Peripheral)) {a b : Nat} (hab : a ≤ b) (hb : occupied slots b = false) :
    occIn slots a (b + 1) = occIn slots a b := by
  unfold occIn
  have e1 : b + 1 - a = (b - a) + 1 := by omega
  rw [e1]
  generalize hn : b - a = n
  have hb' : occupied slots (a + n) = false := by rw [← hn]; have : a + (b - a) = b := by omega
                                                  rw [this]; exact hb
  clear hn hab hb e1
  induction n generalizing a with
  | zero => simp only [Nat.add_zero] at hb'; simp [occFrom, hb']
  | succ n ih =>
    have e : a + (n + 1) = (a + 1) + n := by omega
    rw [e] at hb'
    have := ih (a := a + 1) hb'
    by_cases ho : occupied slots a = true
    · rw [occFrom, if_pos ho, this]; simp [occFrom, ho]
    · rw [occFrom, if_neg ho, this]; simp [occFrom, ho]

/-- All occupied slots, ascending. -/
def occAll (slots : List (Option Peripheral)) : List Nat := occIn slots 0 slots.length

theorem occupied_lt {slots : List (Option Peripheral)} {j : Nat} (h : occupied slots j = true) : j < slots.length := by
  rcases Nat.lt_or_ge j slots.length with hl | hl
  · exact hl
  · simp [occupied, List.getElem?_eq_none hl] at h

/-- Nothing occupied from `b` on: the occupied slots below `b` are all of them. -/
theorem occIn_all (slots : List (Option Peripheral)) {b : Nat} (hlast : ∀ k, b ≤ k → occupied slots k = false) :
    occIn slots 0 b = occAll slots := by
  -- both are `occIn 0 (max b len)`: extend by unoccupied positions
  have ext : ∀ (d c : Nat), (∀ k, c ≤ k → occupied slots k = false) → occIn slots 0 (c + d) = occIn slots 0 c := by
    intro d
    induction d with
    | zero => intro c _; rfl
    | succ d ih =>
      intro c h
      have : c + (d + 1) = (c + d) + 1 := by omega
      rw [this, occIn_snoc_false slots (Nat.zero_le _) (h _ (by omega))]
      exact ih c h
  unfold occAll
  rcases Nat.le_total b slots.length with hle | hle
  · have := ext (slots.length - b) b hlast
    rw [show b + (slots.length - b) = slots.length by omega] at this
    exact this.symm
  · have h2 : ∀ k, slots.length ≤ k → occupied slots k = false := by
      intro k hk
      cases ho : occupied slots k with
      | false => rfl
      | true => have := occupied_lt ho; omega
    have := ext (b - slots.length) slots.length h2
    rw [show slots.length + (b - slots.length) = b by omega] at this
    exact this

/-! ## Turns: consecutive visits of the same slot count once -/

/-- Record a visit of slot `v`; `pass` lists the turns of the current pass, newest first. -/
def addVisit (v : Nat) : List Nat → List Nat
  | [] => [v]
  | w :: r => if w = v then w :: r else v :: w :: r

def addVisits (pass : List Nat) (vs : List Nat) : List Nat := vs.foldl (fun acc v => addVisit v acc) pass

theorem addVisit_new {L : List Nat} {v : Nat} (h : ∀ x ∈ L, x < v) : addVisit v L.reverse = (L ++ [v]).reverse := by
  rw [List.reverse_append]
  cases hr : L.reverse with
  | nil => rfl
  | cons w r =>
    have hw : w ∈ L := by
      have : w ∈ L.reverse := by rw [hr]; exact List.mem_cons_self ..
      exact List.mem_reverse.mp this
    have : w ≠ v := by have := h w hw; omega
    simp [addVisit, this]

theorem addVisit_same {L : List Nat} {v : Nat} : addVisit v (L ++ [v]).reverse = (L ++ [v]).reverse := by
  rw [List.reverse_append]
  simp [addVisit]

theorem addVisits_occFrom (slots : List (Option Peripheral)) : ∀ (n a : Nat),
    addVisits (occIn slots 0 a).reverse (occFrom slots a n) = (occIn slots 0 (a + n)).reverse := by
  intro n
  induction n with
  | zero => intro a; rfl
  | succ n ih =>
    intro a
    have e : a + (n + 1) = (a + 1) + n := by omega
    by_cases ho : occupied slots a = true
    · simp only [occFrom, if_pos ho, addVisits, List.foldl_cons]
      have hlt : ∀ x ∈ occIn slots 0 a, x < a := by
        intro x hx
        have := mem_occFrom slots _ _ _ hx
        omega
      rw [addVisit_new hlt, ← occIn_snoc slots (Nat.zero_le _) ho, e]
      exact ih (a + 1)
    · have ho' : occupied slots a = false := by simpa using ho
      simp only [occFrom, if_neg ho]
      rw [e, ← ih (a + 1), occIn_snoc_false slots (Nat.zero_le _) ho']

/-- The visits of one poll — the occupied slots from `o` to `e`, ascending — added to a pass that holds
the occupied slots before `o`, with or without `o` itself (its turn may have begun in an earlier poll). -/
theorem addVisits_turn (slots : List (Option Peripheral)) {o e : Nat} (ho : occupied slots o = true) (hoe : o ≤ e)
    {pass : List Nat} (hp : pass = (occIn slots 0 o).reverse ∨ pass = (occIn slots 0 (o + 1)).reverse) :
    addVisits pass (occIn slots o (e + 1)) = (occIn slots 0 (e + 1)).reverse := by
  have e1 : e + 1 - o = (e - o) + 1 := by omega
  have hfirst : addVisit o pass = (occIn slots 0 (o + 1)).reverse := by
    rcases hp with hp | hp
    · rw [hp, occIn_snoc slots (Nat.zero_le _) ho]
      apply addVisit_new
      intro x hx
      have := mem_occFrom slots _ _ _ hx
      omega
    · rw [hp, occIn_snoc slots (Nat.zero_le _) ho]
      exact addVisit_same
  unfold occIn at *
  rw [e1]
  simp only [occFrom, if_pos ho, addVisits, List.foldl_cons]
  have := addVisits_occFrom slots (e - o) (o + 1)
  unfold occIn addVisits at this
  simp only [Nat.sub_zero] at this hfirst ⊢
  rw [hfirst, this]
  have : o + 1 + (e - o) = e + 1 := by omega
  rw [this]

/-! ## The visits of one `transmit_telegram` -/

/-- The slots on which the loop of `transmit_telegram` invokes `Peripheral::transmit_telegram`, in
order (mirrors `Master.txLoop`). -/
def txVisits (fp : FdlParams) : Nat → Master → List Nat
  | 0, _ => []
  | fuel + 1, m =>
    match m.cycle with
    | .completed => []
    | .dx index =>
      match m.visit fp index with
      | .panic => []
      | .empty _ => []
      | .send i _ _ _ => [i]
      | .event i _ => [i]
      | .last i _ => [i]
      | .next i m' => i :: txVisits fp fuel m'

/-- … of `Master.transmit`: none when stopped or when the global-control telegram is sent. -/
def visits (fp : FdlParams) (now : Int) (hp : Bool) (m : Master) : List Nat :=
  if m.op = .stop then [] else
  match (if hp then some false else gcDue fp now m.lastGc) with
  | some false => txVisits fp (m.slots.length + 1) m
  | _ => []

/-- The visit that ends the loop, if it is one. -/
def lastVisit (fp : FdlParams) (m : Master) : List Nat :=
  match m.cycle with
  | .completed => []
  | .dx index =>
    match m.visit fp index with
    | .send i _ _ _ => [i]
    | .event i _ => [i]
    | .last i _ => [i]
    | _ => []

theorem txVisits_reachV (fp : FdlParams) : ∀ (fuel : Nat) (m : Master),
    Master.txLoop fp fuel m = .hang ∨
      ∃ m1 vs, ReachV fp m m1 vs ∧ final fp m1 = some (Master.txLoop fp fuel m) ∧
        txVisits fp fuel m = vs ++ lastVisit fp m1 := by
  intro fuel
  induction fuel with
  | zero => intro m; left; rfl
  | succ fuel ih =>
    intro m
    unfold Master.txLoop txVisits
    cases hc : m.cycle with
    | completed => right; exact ⟨m, [], .refl m, by simp [final, hc], by simp [lastVisit, hc]⟩
    | dx index =>
      simp only
      cases hv : m.visit fp index with
      | panic => right; exact ⟨m, [], .refl m, by simp [final, hc, hv], by simp [lastVisit, hc, hv]⟩
      | empty m' => right; exact ⟨m, [], .refl m, by simp [final, hc, hv], by simp [lastVisit, hc, hv]⟩
      | send i m' h pdu => right; exact ⟨m, [], .refl m, by simp [final, hc, hv], by simp [lastVisit, hc, hv]⟩
      | event i m' => right; exact ⟨m, [], .refl m, by simp [final, hc, hv], by simp [lastVisit, hc, hv]⟩
      | last i m' => right; exact ⟨m, [], .refl m, by simp [final, hc, hv], by simp [lastVisit, hc, hv]⟩
      | next i m' =>
        simp only
        rcases ih m' with h | ⟨m1, vs, hr, hf, hvs⟩
        · left; exact h
        · right; exact ⟨m1, i :: vs, .step hc hv hr, hf, by rw [hvs]; rfl⟩

/-- `poll_turns` with the visit list: with the cycle index at the occupied slot `o`, the loop visits
exactly the occupied slots from `o` up to the slot `e` that ends it. -/
theorem poll_visits {fp : FdlParams} (hfp : FpOk fp) {m : Master} (hM : MInv fp m) {index o : Nat} {p : Peripheral}
    (hcy : m.cycle = .dx index) (hc : curSlot m.slots index = some (o, p)) :
    ∃ m1 index1 e pe, MInv fp m1 ∧ m1.cycle = .dx index1 ∧ curSlot m1.slots index1 = some (e, pe) ∧ o ≤ e ∧
      ((index1 = index ∧ e = o) ∨ index1 = e) ∧ m1.slots.length = m.slots.length ∧
      txVisits fp (m.slots.length + 1) m = occIn m.slots o (e + 1) ∧ (∀ j, occupied m1.slots j = occupied m.slots j) ∧
      (match pe.transmit fp m1.op with
       | .send p' h pdu =>
         Master.txLoop fp (m.slots.length + 1) m =
           .send { m1 with slots := m1.slots.set e (some p'), lastEvents := {} } h pdu
       | .decline p' ev =>
         Master.txLoop fp (m.slots.length + 1) m = .none (afterDecline m1 index1 e pe p' ev) ∧
         (ev = none → nextSlot m1.slots index1 = none)
       | .panic => False) := by
  have hnh := txLoop_no_hang hfp (m.slots.length + 1) m hM (by omega) (by intro i _; omega)
  rcases txVisits_reachV fp (m.slots.length + 1) m with hh | ⟨m1, vs, hr, hf, hvis⟩
  · exact absurd hh hnh
  · obtain ⟨hocc, hnil, hcons⟩ := reachV_order hfp hr hM index o p hcy hc
    have hM1 : MInv fp m1 := reach_minv hfp (reachV_reach hr) hM
    have hlen : m1.slots.length = m.slots.length := (reach_declined hfp (reachV_reach hr) hM).len
    have hptr : ∃ index1 e pe, m1.cycle = .dx index1 ∧ curSlot m1.slots index1 = some (e, pe) ∧ o ≤ e ∧
        ((index1 = index ∧ e = o) ∨ index1 = e) ∧ vs ++ [e] = occIn m.slots o (e + 1) := by
      cases hvs : vs with
      | nil =>
        have := hnil hvs; subst this
        refine ⟨index, o, p, hcy, hc, Nat.le_refl _, .inl ⟨rfl, rfl⟩, ?_⟩
        have hoo := (curSlot_occupied hc).1
        simp [occIn, occFrom, hoo]
      | cons v vs' =>
        obtain ⟨o1, p1, h1, h2, h3, h4⟩ := hcons (by rw [hvs]; simp)
        refine ⟨o1, o1, p1, h1, h2, by omega, .inr rfl, ?_⟩
        have ho1 : occupied m.slots o1 = true := by rw [← hocc]; exact (curSlot_occupied h2).1
        rw [occIn_snoc m.slots (by omega) ho1, ← hvs, h4]
    obtain ⟨index1, e, pe, hcy1, hc1, hoe, hidx, hvse⟩ := hptr
    have hi := (curSlot_spec hc1).2.2.1
    have hts := tx_spec hfp (by rw [hM1.op]; decide : m1.op ≠ .stop) (hM1.pinv e pe hi)
    -- the last visit is `e`
    have hlast : lastVisit fp m1 = [e] := by
      unfold final at hf
      unfold lastVisit
      rw [hcy1] at hf ⊢
      simp only at hf ⊢
      rw [visit_eq hM1, hc1] at hf ⊢
      simp only at hf ⊢
      cases ht : pe.transmit fp m1.op with
      | panic => rw [ht] at hts; cases hts
      | send p' h pdu => rfl
      | decline p' ev =>
        cases ev with
        | some ev' => rfl
        | none =>
          rw [ht] at hf
          simp only at hf ⊢
          cases hn : nextSlot m1.slots index1 with
          | some n => rw [hn] at hf; cases hf
          | none => rfl
    refine ⟨m1, index1, e, pe, hM1, hcy1, hc1, hoe, hidx, hlen, by rw [hvis, hlast, hvse], hocc, ?_⟩
    unfold final at hf
    rw [hcy1] at hf
    simp only at hf
    rw [visit_eq hM1, hc1] at hf
    simp only at hf
    cases ht : pe.transmit fp m1.op with
    | panic => rw [ht] at hts; cases hts
    | send p' h pdu =>
      rw [ht] at hf
      simp only [Option.some.injEq] at hf
      simp only; exact hf.symm
    | decline p' ev =>
      rw [ht] at hf
      simp only
      cases ev with
      | some ev' =>
        simp only [Option.some.injEq] at hf
        exact ⟨hf.symm, by intro h; cases h⟩
      | none =>
        simp only at hf
        cases hn : nextSlot m1.slots index1 with
        | some n => rw [hn] at hf; cases hf
        | none =>
          rw [hn] at hf
          simp only [Option.some.injEq] at hf
          exact ⟨hf.symm, fun _ => rfl⟩

/-- No peripheral at or behind the cycle index: no visit, the cycle is reported complete at once. -/
theorem poll_visits_empty {fp : FdlParams} {m : Master} (hM : MInv fp m) {index : Nat}
    (hcy : m.cycle = .dx index) (hc : curSlot m.slots index = none) :
    txVisits fp (m.slots.length + 1) m = [] ∧
    Master.txLoop fp (m.slots.length + 1) m = .none { m with cycle := .dx 0, lastEvents := { cycleCompleted := true } } := by
  unfold txVisits Master.txLoop
  simp only [hcy, visit_eq hM, hc, and_self]

/-! ## Histories with turn bookkeeping -/

/-- Did the callback that led to `g'` report `cycle_completed`?  Every `transmit_telegram` and every
delivered reply writes `last_events` afresh; nothing else reports. -/
def reported (g' : G) : Bool :=
  match g'.o with
  | .gc _ _ => g'.m.lastEvents.cycleCompleted
  | .sent _ _ _ => g'.m.lastEvents.cycleCompleted
  | .idle => g'.m.lastEvents.cycleCompleted
  | .replied _ _ => g'.m.lastEvents.cycleCompleted
  | _ => false

structure Turns where
  /-- turns of the current pass, newest first -/
  pass : List Nat := []
  /-- the completed passes (each newest turn first), newest pass first -/
  done : List (List Nat) := []

def tstep (fp : FdlParams) (g : G) (op : Op) (g' : G) (t : Turns) : Turns :=
  let pass' := match op with
    | .tx now hp => addVisits t.pass (visits fp now hp g.m)
    | _ => t.pass
  if reported g' then { pass := [], done := pass' :: t.done } else { t with pass := pass' }

def trun (fp : FdlParams) : G → Turns → List Op → Res3 (G × Turns)
  | g, t, [] => .ok (g, t)
  | g, t, op :: ops =>
    match gstep fp g op with
    | .ok g' => trun fp g' (tstep fp g op g' t) ops
    | .panic => .panic
    | .hang => .hang
    | .refused => .refused

theorem trun_grun (fp : FdlParams) : ∀ (ops : List Op) (g : G) (t : Turns) (g' : G) (t' : Turns),
    trun fp g t ops = .ok (g', t') → grun fp g ops = .ok g' := by
  intro ops
  induction ops with
  | nil => intro g t g' t' h; simp only [trun, Res3.ok.injEq, Prod.mk.injEq] at h; rw [h.1]; rfl
  | cons op ops ih =>
    intro g t g' t' h
    simp only [trun, grun] at h ⊢
    cases hs : gstep fp g op with
    | ok g1 => rw [hs] at h; exact ih _ _ _ _ h
    | panic => rw [hs] at h; cases h
    | hang => rw [hs] at h; cases h
    | refused => rw [hs] at h; cases h

/-- The current pass: with the cycle index at the occupied slot `o`, its turns are the occupied slots
before `o`, plus `o` itself once its turn has begun (always, while its request is outstanding). -/
structure Open (slots : List (Option Peripheral)) (cycle : Cycle) (out : Bool) (pass : List Nat) : Prop where
  compl : cycle = .completed → pass = []
  idx : ∀ index, cycle = .dx index → index = 0 ∨ ∃ p, curSlot slots index = some (index, p)
  none_ : ∀ index, cycle = .dx index → curSlot slots index = none → pass = []
  some_ : ∀ index o p, cycle = .dx index → curSlot slots index = some (o, p) →
      (pass = (occIn slots 0 o).reverse ∨ pass = (occIn slots 0 (o + 1)).reverse) ∧
      (out = true → pass = (occIn slots 0 (o + 1)).reverse)

structure TInv (occ0 : List Nat) (g : G) (t : Turns) : Prop where
  done : ∀ P ∈ t.done, P = (occAll g.m.slots).reverse
  open_ : Open g.m.slots g.m.cycle g.out.isSome t.pass
  /-- occupancy never changes (Operate: no `add`) -/
  occ : occAll g.m.slots = occ0

theorem occIn_congr {s1 s2 : List (Option Peripheral)} (h : ∀ j, occupied s1 j = occupied s2 j) (a b : Nat) :
    occIn s1 a b = occIn s2 a b := occFrom_congr h _ _

theorem occAll_congr {s1 s2 : List (Option Peripheral)} (h : ∀ j, occupied s1 j = occupied s2 j)
    (hl : s1.length = s2.length) : occAll s1 = occAll s2 := by
  unfold occAll; rw [hl]; exact occIn_congr h _ _

theorem occIn_before {slots : List (Option Peripheral)} {index o : Nat} {p : Peripheral}
    (hc : curSlot slots index = some (o, p)) : occIn slots index o = [] := by
  unfold occIn
  apply occFrom_empty
  intro k h1 h2
  exact (curSlot_occupied hc).2 k h1 (by have := (curSlot_spec hc).1; omega)

/-- Nothing occupied in `[a, b)`: the occupied slots below `b` are those below `a`. -/
theorem occIn_gap (slots : List (Option Peripheral)) {a b : Nat} (hab : a ≤ b)
    (hgap : ∀ k, a ≤ k → k < b → occupied slots k = false) : occIn slots 0 b = occIn slots 0 a := by
  obtain ⟨d, rfl⟩ : ∃ d, b = a + d := ⟨b - a, by omega⟩
  clear hab
  induction d with
  | zero => rfl
  | succ d ih =>
    have : a + (d + 1) = (a + d) + 1 := by omega
    rw [this, occIn_snoc_false slots (Nat.zero_le _) (hgap _ (by omega) (by omega))]
    exact ih (fun k h1 h2 => hgap k h1 (by omega))

theorem occAll_nil {slots : List (Option Peripheral)} (hc : curSlot slots 0 = none) : occAll slots = [] := by
  have hall : ∀ k, 0 ≤ k → occupied slots k = false := by
    intro k _
    by_cases hk : k < slots.length
    · have := firstFrom_none slots 0 0 hc k (Nat.zero_le _) (Nat.zero_le _) (by omega)
      simp only [Nat.sub_zero] at this
      simp [occupied, this]
    · simp [occupied, List.getElem?_eq_none (Nat.le_of_not_lt hk)]
  rw [← occIn_all slots hall]
  rfl

theorem open_start (slots : List (Option Peripheral)) : Open slots (.dx 0) false [] where
  compl := by intro h; cases h
  idx := by intro index h; cases h; exact .inl rfl
  none_ := by intro _ _ _; rfl
  some_ := by
    intro index o p h hc
    cases h
    refine ⟨.inl ?_, by intro h; cases h⟩
    rw [occIn_before hc]; rfl

theorem open_at {slots : List (Option Peripheral)} {n : Nat} {q : Peripheral} {pass : List Nat}
    (hc : curSlot slots n = some (n, q)) (hp : pass = (occIn slots 0 n).reverse) : Open slots (.dx n) false pass where
  compl := by intro h; cases h
  idx := by intro index h; cases h; exact .inr ⟨q, hc⟩
  none_ := by intro index h hn; cases h; rw [hc] at hn; cases hn
  some_ := by
    intro index o p h hc'
    cases h
    rw [hc] at hc'
    cases hc'
    exact ⟨.inl hp, by intro h; cases h⟩

theorem open_turn {slots : List (Option Peripheral)} {index e : Nat} {q : Peripheral} {pass : List Nat} (b : Bool)
    (hc : curSlot slots index = some (e, q)) (hi : index = 0 ∨ index = e)
    (hp : pass = (occIn slots 0 (e + 1)).reverse) : Open slots (.dx index) b pass where
  compl := by intro h; cases h
  idx := by
    intro index' h
    cases h
    rcases hi with hi | hi
    · exact .inl hi
    · right; subst hi; exact ⟨q, hc⟩
  none_ := by intro index' h hn; cases h; rw [hc] at hn; cases hn
  some_ := by
    intro index' o p h hc'
    cases h
    rw [hc] at hc'
    cases hc'
    exact ⟨.inr hp, fun _ => hp⟩

/-- Replacing the peripheral in an occupied slot changes nothing about the pass. -/
theorem open_set {slots : List (Option Peripheral)} {cycle : Cycle} {out : Bool} {pass : List Nat}
    (h : Open slots cycle out pass) {k : Nat} {p0 q : Peripheral} (hk : slots[k]? = some (some p0)) :
    Open (slots.set k (some q)) cycle out pass := by
  have hocc := occupied_set slots (q := q) hk
  have hcs : ∀ index, curSlot (slots.set k (some q)) index =
      (curSlot slots index).map fun jp => if jp.1 = k then (jp.1, q) else jp := curSlot_set hk
  have hfst : ∀ index o p, curSlot (slots.set k (some q)) index = some (o, p) → ∃ p', curSlot slots index = some (o, p') := by
    intro index o p hc
    rw [hcs] at hc
    cases hcur : curSlot slots index with
    | none => rw [hcur] at hc; cases hc
    | some jp =>
      rw [hcur] at hc
      simp only [Option.map_some, Option.some.injEq] at hc
      obtain ⟨j, p'⟩ := jp
      refine ⟨p', ?_⟩
      have : j = o := by
        by_cases hjk : j = k
        · simp only [hjk, if_true] at hc; rw [hjk]; exact (Prod.mk.inj hc).1
        · simp only [hjk, if_false] at hc; exact (Prod.mk.inj hc).1
      rw [this]
  refine ⟨h.compl, ?_, ?_, ?_⟩
  · intro index hcy
    rcases h.idx index hcy with h0 | ⟨p, hp⟩
    · exact .inl h0
    · right
      rw [hcs, hp]
      simp only [Option.map_some]
      by_cases hik : index = k
      · exact ⟨q, by simp [hik]⟩
      · exact ⟨p, by simp [hik]⟩
  · intro index hcy hn
    rw [hcs] at hn
    cases hcur : curSlot slots index with
    | none => exact h.none_ index hcy hcur
    | some jp => rw [hcur] at hn; cases hn
  · intro index o p hcy hc
    obtain ⟨p', hp'⟩ := hfst index o p hc
    have := h.some_ index o p' hcy hp'
    rw [occIn_congr hocc, occIn_congr hocc]
    exact this

theorem open_weaken {slots : List (Option Peripheral)} {cycle : Cycle} {out : Bool} {pass : List Nat}
    (h : Open slots cycle out pass) : Open slots cycle false pass :=
  ⟨h.compl, h.idx, h.none_, fun index o p hcy hc => ⟨(h.some_ index o p hcy hc).1, by intro h; cases h⟩⟩

/-! ## One step -/

theorem tinv_of {occ0 : List Nat} {g' : G} {slots : List (Option Peripheral)} {t : Turns} {pass' : List Nat} {rep : Bool}
    (hd : ∀ P ∈ t.done, P = (occAll slots).reverse) (h0 : occAll slots = occ0)
    (hoc : occAll g'.m.slots = occAll slots)
    (hrep : rep = true → pass' = (occAll slots).reverse ∧ Open g'.m.slots g'.m.cycle g'.out.isSome [])
    (hnrep : rep = false → Open g'.m.slots g'.m.cycle g'.out.isSome pass') :
    TInv occ0 g' (if rep then { pass := [], done := pass' :: t.done } else { t with pass := pass' }) := by
  cases rep with
  | true =>
    obtain ⟨h1, h2⟩ := hrep rfl
    refine ⟨?_, h2, hoc.trans h0⟩
    intro P hP
    rw [hoc]
    simp only [if_true] at hP
    rcases List.mem_cons.mp hP with rfl | hP
    · exact h1
    · exact hd P hP
  | false =>
    refine ⟨?_, hnrep rfl, hoc.trans h0⟩
    intro P hP
    rw [hoc]
    exact hd P hP

/-- A step that neither moves the cycle nor reports: the bookkeeping is untouched. -/
theorem tinv_quiet {fp : FdlParams} {occ0 : List Nat} {g g' : G} {t : Turns} (op : Op) (hT : TInv occ0 g t)
    (hnt : ∀ now hp, op ≠ .tx now hp) (hrep : reported g' = false)
    (hopen : Open g'.m.slots g'.m.cycle g'.out.isSome t.pass) (hoc : occAll g'.m.slots = occAll g.m.slots) :
    TInv occ0 g' (tstep fp g op g' t) := by
  have hp : (match op with | .tx now hp => addVisits t.pass (visits fp now hp g.m) | _ => t.pass) = t.pass := by
    cases op with
    | tx now hp => exact absurd rfl (hnt now hp)
    | _ => rfl
  unfold tstep
  simp only [hp]
  exact tinv_of hT.done hT.occ hoc (by intro h; rw [hrep] at h; cases h) (fun _ => hopen)

/-- Closing a `transmit_telegram` step: only the master, the contract automaton and the observable
result of the successor state matter. -/
theorem tinv_close {fp : FdlParams} {occ0 : List Nat} {g g' : G} {t : Turns} {now : Int} {hp : Bool} (hT : TInv occ0 g t) {vs : List Nat}
    (hv : visits fp now hp g.m = vs)
    (ho : g'.o = .idle ∨ (∃ i h pdu, g'.o = .sent i h pdu) ∨ ∃ h pdu, g'.o = .gc h pdu)
    (hoc : occAll g'.m.slots = occAll g.m.slots)
    (hrep : g'.m.lastEvents.cycleCompleted = true →
      addVisits t.pass vs = (occAll g.m.slots).reverse ∧ Open g'.m.slots g'.m.cycle g'.out.isSome [])
    (hnrep : g'.m.lastEvents.cycleCompleted = false → Open g'.m.slots g'.m.cycle g'.out.isSome (addVisits t.pass vs)) :
    TInv occ0 g' (tstep fp g (.tx now hp) g' t) := by
  have hr : reported g' = g'.m.lastEvents.cycleCompleted := by
    unfold reported
    rcases ho with ho | ⟨i, h, pdu, ho⟩ | ⟨h, pdu, ho⟩ <;> rw [ho]
  unfold tstep
  simp only [hv, hr]
  exact tinv_of hT.done hT.occ hoc hrep hnrep

theorem tinv_step {fp : FdlParams} (hfp : FpOk fp) {occ0 : List Nat} {g g' : G} {t : Turns} (hI : Inv fp g) (hT : TInv occ0 g t) (op : Op)
    (h : gstep fp g op = .ok g') : TInv occ0 g' (tstep fp g op g' t) := by
  cases op with
  | timeout a =>
    simp only [gstep] at h
    split at h
    · cases h
    · cases h
      exact tinv_quiet _ hT (by intro _ _ h; cases h) rfl (open_weaken hT.open_) rfl
  | take =>
    simp only [gstep, Master.takeLastEvents] at h
    cases h
    exact tinv_quiet _ hT (by intro _ _ h; cases h) rfl hT.open_ rfl
  | writeQ slot bs =>
    simp only [gstep] at h
    cases hw : g.m.writePiQ slot bs with
    | none => rw [hw] at h; cases h
    | some m' =>
      rw [hw] at h
      cases h
      unfold Master.writePiQ Master.peripheral? at hw
      cases hp : g.m.slots.getD slot none with
      | none => rw [hp] at hw; cases hw
      | some p =>
        rw [hp] at hw
        simp only at hw
        split at hw
        · cases hw
          have hk : g.m.slots[slot]? = some (some p) := by
            rw [List.getD_eq_getElem?_getD] at hp
            cases hq : g.m.slots[slot]? with
            | none => rw [hq] at hp; cases hp
            | some x => rw [hq] at hp; simp only [Option.getD_some] at hp; rw [hp]
          exact tinv_quiet _ hT (by intro _ _ h; cases h) rfl (open_set hT.open_ hk)
            (occAll_congr (occupied_set _ hk) (by simp))
        · cases hw
  | diagReq slot =>
    simp only [gstep] at h
    cases hw : g.m.requestDiagnostics slot with
    | none => rw [hw] at h; cases h
    | some m' =>
      rw [hw] at h
      cases h
      unfold Master.requestDiagnostics Master.peripheral? at hw
      cases hp : g.m.slots.getD slot none with
      | none => rw [hp] at hw; cases hw
      | some p =>
        rw [hp] at hw
        cases hw
        have hk : g.m.slots[slot]? = some (some p) := by
          rw [List.getD_eq_getElem?_getD] at hp
          cases hq : g.m.slots[slot]? with
          | none => rw [hq] at hp; cases hp
          | some x => rw [hq] at hp; simp only [Option.getD_some] at hp; rw [hp]
        exact tinv_quiet _ hT (by intro _ _ h; cases h) rfl (open_set hT.open_ hk)
          (occAll_congr (occupied_set _ hk) (by simp))
  | resetAddr slot a =>
    simp only [gstep] at h
    split at h
    · cases h
    · cases hw : g.m.resetAddress slot a with
      | none => rw [hw] at h; cases h
      | some m' =>
        rw [hw] at h
        cases h
        unfold Master.resetAddress Master.peripheral? at hw
        cases hp : g.m.slots.getD slot none with
        | none => rw [hp] at hw; cases hw
        | some p =>
          rw [hp] at hw
          cases hw
          have hk : g.m.slots[slot]? = some (some p) := by
            rw [List.getD_eq_getElem?_getD] at hp
            cases hq : g.m.slots[slot]? with
            | none => rw [hq] at hp; cases hp
            | some x => rw [hq] at hp; simp only [Option.getD_some] at hp; rw [hp]
          exact tinv_quiet _ hT (by intro _ _ h; cases h) rfl (open_set hT.open_ hk)
            (occAll_congr (occupied_set _ hk) (by simp))
  | reply a t' =>
    rcases reply_cases hI h with hdel | ⟨_, _, _, _, _, _, _, rfl⟩
    · obtain ⟨index, i, p, p', ev, ho, hcy, hc, hpa, hal, hspec, rfl⟩ := hdel
      have hi := (curSlot_spec hc).2.2.1
      have hocc := occupied_set g.m.slots (q := p') hi
      have hB := (hT.open_.some_ index i p hcy hc).2 (by rw [ho]; rfl)
      obtain ⟨hrep, hnone, hsome⟩ := afterReply_cycle g.m index i p p' ev
      have hslots : (afterReply g.m index i p p' ev).slots = g.m.slots.set i (some p') := rfl
      unfold tstep
      simp only [reported]
      refine tinv_of hT.done hT.occ (by rw [hslots]; exact occAll_congr hocc (by simp)) ?_ ?_
      · intro hr
        have hn := hrep.mp hr
        refine ⟨?_, ?_⟩
        · rw [hB]
          congr 1
          exact occIn_all g.m.slots (fun k hk => nextSlot_none_last hc hn k (by omega))
        · simp only
          rw [hnone hn]
          exact ⟨fun _ => rfl, (by intro _ h; cases h), (by intro _ h; cases h), (by intro _ _ _ h; cases h)⟩
      · intro hr
        cases hn : nextSlot g.m.slots index with
        | none => rw [hrep.mpr hn] at hr; cases hr
        | some n =>
          obtain ⟨hin, hon, hgap⟩ := nextSlot_is_next hc hn
          obtain ⟨_, _, q, hq⟩ := nextSlot_gt hc hn
          simp only
          rw [hsome n hn, hslots]
          have hq' : curSlot (g.m.slots.set i (some p')) n = some (n, q) := by
            rw [curSlot_set hi, hq]
            have : ¬ n = i := by omega
            simp [this]
          refine open_at hq' ?_
          rw [hB, occIn_congr hocc]
          congr 1
          exact (occIn_gap g.m.slots (by omega) (fun k h1 h2 => hgap k (by omega) h2)).symm
    · exact tinv_quiet _ hT (by intro _ _ h; cases h) rfl (open_weaken hT.open_) rfl
  | tx now hp =>
    simp only [gstep] at h
    cases hto : timeOk g now with
    | false => simp [hto] at h
    | true =>
      simp only [hto, Bool.not_true, Bool.false_eq_true, if_false] at h
      have hnow := timeOk_bound hto
      have hdue := gcDue_ok hfp hnow hI.gcT
      have hop := hI.m.op
      by_cases hg : hp = false ∧ gcDue fp now g.m.lastGc = some true
      · -- global control: no visit, no report, the cycle does not move
        obtain ⟨hp0, hg1⟩ := hg
        have ht : Master.transmit fp now hp g.m =
            .send { g.m with lastGc := some now, lastEvents := {} } (gcHeader fp) [0x00, 0x00] := by
          unfold Master.transmit
          simp only [hop, reduceCtorEq, if_false, hp0, Bool.false_eq_true, hg1, gcPdu]
          rw [gcHeader_serialize fp _ rfl]
        rw [ht] at h
        simp only [gcHeader, if_true, Res3.ok.injEq] at h
        subst h
        have hv : visits fp now hp g.m = [] := by
          unfold visits
          simp only [hop, reduceCtorEq, if_false, hp0, Bool.false_eq_true, hg1]
        refine tinv_close hT hv (.inr (.inr ⟨_, _, rfl⟩)) rfl (by intro h; cases h) ?_
        intro _
        exact open_weaken hT.open_
      · have hh : hp = true ∨ gcDue fp now g.m.lastGc = some false := by
          cases hp with
          | true => left; rfl
          | false =>
            right
            rw [hdue] at hg ⊢
            simp only [true_and, Option.some.injEq] at hg ⊢
            simpa using hg
        have hloop : Master.transmit fp now hp g.m = Master.txLoop fp (g.m.slots.length + 1) g.m := by
          unfold Master.transmit
          simp only [hop, reduceCtorEq, if_false]
          rcases hh with hh | hh
          · simp [hh]
          · cases hp with
            | true => simp
            | false => simp [hh]
        have hv : visits fp now hp g.m = txVisits fp (g.m.slots.length + 1) g.m := by
          unfold visits
          simp only [hop, reduceCtorEq, if_false]
          rcases hh with hh | hh
          · simp [hh]
          · cases hp with
            | true => simp
            | false => simp [hh]
        rw [hloop] at h
        -- the successor state after a poll without telegram, whatever events it carries
        have none_case : ∀ (m' : Master) (vs : List Nat), Master.txLoop fp (g.m.slots.length + 1) g.m = .none m' →
            txVisits fp (g.m.slots.length + 1) g.m = vs → occAll m'.slots = occAll g.m.slots →
            (m'.lastEvents.cycleCompleted = true →
              addVisits t.pass vs = (occAll g.m.slots).reverse ∧ Open m'.slots m'.cycle false []) →
            (m'.lastEvents.cycleCompleted = false → Open m'.slots m'.cycle false (addVisits t.pass vs)) →
            TInv occ0 g' (tstep fp g (.tx now hp) g' t) := by
          intro m' vs hl hvs hoc hr hn
          rw [hl] at h
          simp only at h
          cases hev : m'.lastEvents.peripheral with
          | none =>
            rw [hev] at h
            simp only [Res3.ok.injEq] at h
            subst h
            exact tinv_close hT (hv.trans hvs) (.inl rfl) hoc hr hn
          | some he =>
            rw [hev] at h
            simp only [Res3.ok.injEq] at h
            subst h
            exact tinv_close hT (hv.trans hvs) (.inl rfl) hoc hr hn
        cases hcy : g.m.cycle with
        | completed =>
          refine none_case { g.m with cycle := .dx 0, lastEvents := {} } []
            (by unfold Master.txLoop; simp only [hcy]) (by unfold txVisits; simp only [hcy]) rfl
            (by intro h; cases h) ?_
          intro _
          have hp0 : t.pass = [] := hT.open_.compl hcy
          simp only [addVisits, List.foldl_nil, hp0]
          exact open_start _
        | dx index =>
          cases hc : curSlot g.m.slots index with
          | none =>
            obtain ⟨hvs, hl⟩ := poll_visits_empty hI.m hcy hc
            have hp0 : t.pass = [] := hT.open_.none_ index hcy hc
            have hidx0 : index = 0 := by
              rcases hT.open_.idx index hcy with h0 | ⟨p, hp⟩
              · exact h0
              · rw [hc] at hp; cases hp
            refine none_case _ [] hl hvs rfl ?_ (by intro h; cases h)
            intro _
            simp only [addVisits, List.foldl_nil, hp0]
            refine ⟨?_, open_start _⟩
            rw [hidx0] at hc
            rw [occAll_nil hc]; rfl
          | some op' =>
            obtain ⟨o, p⟩ := op'
            obtain ⟨m1, index1, e, pe, hM1, hcy1, hc1, hoe, hidx1, hlen1, hvis, hocc1, hres⟩ := poll_visits hfp hI.m hcy hc
            have hpass : addVisits t.pass (occIn g.m.slots o (e + 1)) = (occIn g.m.slots 0 (e + 1)).reverse :=
              addVisits_turn g.m.slots (curSlot_occupied hc).1 hoe (hT.open_.some_ index o p hcy hc).1
            have hi1 := (curSlot_spec hc1).2.2.1
            have hts := tx_spec hfp (by rw [hM1.op]; decide : m1.op ≠ .stop) (hM1.pinv e pe hi1)
            have hocc2 : ∀ q j, occupied (m1.slots.set e (some q)) j = occupied g.m.slots j :=
              fun q j => (occupied_set m1.slots hi1 j).trans (hocc1 j)
            have hoc2 : ∀ q, occAll (m1.slots.set e (some q)) = occAll g.m.slots :=
              fun q => occAll_congr (hocc2 q) (by simp [hlen1])
            cases ht : pe.transmit fp m1.op with
            | panic => rw [ht] at hres; exact hres.elim
            | send p' hd pdu =>
              rw [ht] at hres hts
              simp only at hres
              rw [hres] at h
              obtain ⟨hk, hex, -⟩ := send_header hts
              have hcur' : Master.cur { m1 with slots := m1.slots.set e (some p'), lastEvents := {} } = some (e, p') :=
                cur_set (m := m1) (p := pe) (by simp [Master.cur, hcy1, hc1]) {}
              simp only [hk, if_false, hcur', hex, Res3.ok.injEq] at h
              subst h
              refine tinv_close hT (hv.trans hvis) (.inr (.inl ⟨_, _, _, rfl⟩)) (hoc2 p') (by intro h; cases h) ?_
              intro _
              simp only
              rw [hcy1]
              have hcs : curSlot (m1.slots.set e (some p')) index1 = some (e, p') := by
                rw [curSlot_set hi1, hc1]; simp
              refine open_turn _ hcs ?_ ?_
              · rcases hidx1 with ⟨h1, h2⟩ | h1
                · rcases hT.open_.idx index hcy with h0 | ⟨p0, hp0⟩
                  · left; rw [h1]; exact h0
                  · right
                    rw [hc] at hp0
                    simp only [Option.some.injEq, Prod.mk.injEq] at hp0
                    rw [h1, h2]; exact hp0.1.symm
                · exact .inr h1
              · rw [hpass, occIn_congr (hocc2 p')]
            | decline p' ev =>
              rw [ht] at hres
              obtain ⟨hres, hend⟩ := hres
              obtain ⟨hrep, hwrap, hnext⟩ := afterDecline_cycle m1 index1 e pe p' ev hend
              have hslots : (afterDecline m1 index1 e pe p' ev).slots = m1.slots.set e (some p') := by
                unfold afterDecline
                cases nextSlot m1.slots index1 <;> cases ev <;> rfl
              refine none_case _ _ hres hvis (by rw [hslots]; exact hoc2 p') ?_ ?_
              · intro hr
                have hn := hrep.mp hr
                refine ⟨?_, by rw [hwrap hn]; exact open_start _⟩
                rw [hpass]
                congr 1
                refine occIn_all g.m.slots (fun k hk => ?_)
                rw [← hocc1]
                exact nextSlot_none_last hc1 hn k (by omega)
              · intro hr
                cases hn : nextSlot m1.slots index1 with
                | none => rw [hrep.mpr hn] at hr; cases hr
                | some n =>
                  obtain ⟨hin, hon, hgap⟩ := nextSlot_is_next hc1 hn
                  obtain ⟨_, _, q, hq⟩ := nextSlot_gt hc1 hn
                  rw [hnext n hn, hslots]
                  have hq' : curSlot (m1.slots.set e (some p')) n = some (n, q) := by
                    rw [curSlot_set hi1, hq]
                    have : ¬ n = e := by omega
                    simp [this]
                  refine open_at hq' ?_
                  rw [hpass, occIn_congr (hocc2 p')]
                  congr 1
                  refine (occIn_gap g.m.slots (by omega) (fun k h1 h2 => ?_)).symm
                  rw [← hocc1]
                  exact hgap k (by omega) h2

/-! ## Whole histories -/

theorem tinv_init (slots : List (Option Peripheral)) (gr : Bool) : TInv (occAll slots) (G.init slots gr) {} :=
  ⟨(by intro P hP; cases hP), open_start _, rfl⟩

theorem tinv_run {fp : FdlParams} (hfp : FpOk fp) {occ0 : List Nat} : ∀ (ops : List Op) (g : G) (t : Turns) (g' : G) (t' : Turns),
    Inv fp g → TInv occ0 g t → trun fp g t ops = .ok (g', t') → TInv occ0 g' t' := by
  intro ops
  induction ops with
  | nil =>
    intro g t g' t' _ hT h
    simp only [trun, Res3.ok.injEq, Prod.mk.injEq] at h
    rw [← h.1, ← h.2]; exact hT
  | cons op ops ih =>
    intro g t g' t' hI hT h
    simp only [trun] at h
    cases hs : gstep fp g op with
    | ok g1 =>
      rw [hs] at h
      exact ih g1 _ g' t' (inv_step hfp hI op hs) (tinv_step hfp hI hT op hs) h
    | panic => rw [hs] at h; cases h
    | hang => rw [hs] at h; cases h
    | refused => rw [hs] at h; cases h

/-- The bookkeeping run succeeds exactly when the plain run does. -/
theorem trun_of_grun (fp : FdlParams) : ∀ (ops : List Op) (g : G) (t : Turns) (g' : G),
    grun fp g ops = .ok g' → ∃ t', trun fp g t ops = .ok (g', t') := by
  intro ops
  induction ops with
  | nil => intro g t g' h; simp only [grun, Res3.ok.injEq] at h; exact ⟨t, by rw [← h]; rfl⟩
  | cons op ops ih =>
    intro g t g' h
    simp only [grun, trun] at h ⊢
    cases hs : gstep fp g op with
    | ok g1 => rw [hs] at h; exact ih g1 _ g' h
    | panic => rw [hs] at h; cases h
    | hang => rw [hs] at h; cases h
    | refused => rw [hs] at h; cases h

/-- Reports of `cycle_completed` along a history. -/
def reports (fp : FdlParams) : G → List Op → Nat
  | _, [] => 0
  | g, op :: ops =>
    match gstep fp g op with
    | .ok g' => (if reported g' then 1 else 0) + reports fp g' ops
    | _ => 0

theorem done_length (fp : FdlParams) : ∀ (ops : List Op) (g : G) (t : Turns) (g' : G) (t' : Turns),
    trun fp g t ops = .ok (g', t') → t'.done.length = t.done.length + reports fp g ops := by
  intro ops
  induction ops with
  | nil => intro g t g' t' h; simp only [trun, Res3.ok.injEq, Prod.mk.injEq] at h; rw [← h.2]; rfl
  | cons op ops ih =>
    intro g t g' t' h
    simp only [trun, reports] at h ⊢
    cases hs : gstep fp g op with
    | ok g1 =>
      rw [hs] at h
      simp only
      rw [ih g1 _ g' t' h]
      unfold tstep
      cases reported g1 <;> simp <;> omega
    | panic => rw [hs] at h; cases h
    | hang => rw [hs] at h; cases h
    | refused => rw [hs] at h; cases h

theorem count_occFrom (slots : List (Option Peripheral)) (j : Nat) : ∀ (n a : Nat),
    (occFrom slots a n).count j = if a ≤ j ∧ j < a + n ∧ occupied slots j = true then 1 else 0 := by
  intro n
  induction n with
  | zero =>
    intro a
    have : ¬ (a ≤ j ∧ j < a + 0 ∧ occupied slots j = true) := by omega
    rw [if_neg this]; rfl
  | succ n ih =>
    intro a
    have key : (occFrom slots (a + 1) n).count j = if a + 1 ≤ j ∧ j < a + 1 + n ∧ occupied slots j = true then 1 else 0 :=
      ih (a + 1)
    simp only [occFrom]
    by_cases hja : a = j
    · subst hja
      have e1 : ¬ (a + 1 ≤ a ∧ a < a + 1 + n ∧ occupied slots a = true) := by omega
      rw [if_neg e1] at key
      by_cases ho : occupied slots a = true
      · rw [if_pos ho, List.count_cons_self, key, if_pos ⟨Nat.le_refl _, by omega, ho⟩]
      · rw [if_neg ho, key, if_neg (fun h => ho h.2.2)]
    · have hcnt : (if occupied slots a = true then a :: occFrom slots (a + 1) n else occFrom slots (a + 1) n).count j =
          (occFrom slots (a + 1) n).count j := by
        split
        · exact List.count_cons_of_ne (by intro h; exact hja h)
        · rfl
      rw [hcnt, key]
      by_cases hc : a + 1 ≤ j ∧ j < a + 1 + n ∧ occupied slots j = true
      · rw [if_pos hc, if_pos ⟨by omega, by omega, hc.2.2⟩]
      · rw [if_neg hc, if_neg (fun h => hc ⟨by omega, by omega, h.2.2⟩)]

theorem count_occAll (slots : List (Option Peripheral)) (j : Nat) :
    (occAll slots).count j = if occupied slots j = true then 1 else 0 := by
  unfold occAll occIn
  rw [count_occFrom]
  by_cases ho : occupied slots j = true
  · have := occupied_lt ho
    rw [if_pos ⟨Nat.zero_le _, by omega, ho⟩, if_pos ho]
  · rw [if_neg (fun h => ho h.2.2), if_neg ho]

end PV.Dp
