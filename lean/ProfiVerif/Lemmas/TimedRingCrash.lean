/-
Timed ring: the successor of a station stops for good (is never polled again) after the station has passed
the token to it.  The survivor repeats the pass twice, removes the successor from its LAS and keeps the token.
Helper lemmas (C06 ring-level clause, two stations).
-/
import ProfiVerif.Lemmas.TimedRingNSys

namespace PV
open StationGap TokenRing

/-- **The poll that gives up on a token pass** (first poll later than stamp + slot time, nothing received):
after the first and second expiry the token goes to the same NS again, after the third NS is removed from
the LAS and the token goes to the new NS (or is kept when the station is alone now). -/
theorem check_poll_timeoutA (s : Station) (apps : Apps) (now l : Int) (att : Attempt) (hinv : Inv s apps)
    (hon : s.online = true) (hst : s.st = .checkTokenPass att) (hl : s.lastBusActivity = some l)
    (hexp : l + (s.p.slotTime : Nat) < now) (h33 : s.p.bits 33 ≤ s.p.slotTime) :
    ∃ c', s.poll apps now false [] = .ok c' ∧ Inv c'.s c'.apps ∧ c'.rx = [] ∧ c'.apps = apps ∧ c'.s.p = s.p ∧
      c'.s.online = s.online ∧ c'.s.pendingBytes = s.pendingBytes ∧
      ∃ r next, (match att with
          | .first => r = s.ring ∧ next = Attempt.second
          | .second => r = s.ring ∧ next = Attempt.third
          | .third => s.ring.removeStation s.ring.ns = some r ∧ next = Attempt.first) ∧
        c'.tx = some (tokenBytes r.ns s.p.address) ∧ c'.s.ring = r.witness s.p.address r.ns ∧
        c'.s.st = (if (r.witness s.p.address r.ns).ns = s.p.address
                    then FState.useToken ⟨now, none⟩ false else FState.checkTokenPass next) ∧
        c'.s.lastBusActivity = some (now + (s.p.bits (11 * 3) : Nat)) := by
  obtain ⟨c', hc', hinv', hlen⟩ := pollInner_good { s := s, apps := apps, rx := [] } now false hinv rfl
  have hc'' : s.poll apps now false [] = .ok c' := hc'
  rw [poll_dispatch s apps now [] hon (by rw [hst]; simp) (by rw [hst]; simp)
    (by intro l' hl'; rw [hl] at hl'; cases hl'; omega)] at hc''
  simp only [List.length_nil, checkBus_nil] at hc''
  unfold dispatch at hc''
  simp only [hst] at hc''
  unfold doCheckTokenPass at hc''
  simp only [hst] at hc''
  rw [checkSlot_some _ _ _ hl] at hc''
  simp only [decide_eq_true_eq] at hc''
  rw [if_pos (by omega)] at hc''
  have fin : ∀ (c0 : Ctx) (nx : Attempt), c0.s.st = .passToken false nx → c0.tx = none → c0.rx = [] → c0.apps = apps →
      c0.s.p = s.p → c0.s.online = s.online → c0.s.pendingBytes = s.pendingBytes →
      c0.s.lastBusActivity = some l → doPassToken c0 now = .ok c' →
      c'.rx = [] ∧ c'.apps = apps ∧ c'.s.p = s.p ∧ c'.s.online = s.online ∧ c'.s.pendingBytes = s.pendingBytes ∧
        c'.tx = some (tokenBytes c0.s.ring.ns s.p.address) ∧ c'.s.ring = c0.s.ring.witness s.p.address c0.s.ring.ns ∧
        c'.s.st = (if (c0.s.ring.witness s.p.address c0.s.ring.ns).ns = s.p.address
                    then FState.useToken ⟨now, none⟩ false else FState.checkTokenPass nx) ∧
        c'.s.lastBusActivity = some (now + (s.p.bits (11 * 3) : Nat)) := by
    intro c0 nx e1 e2 e3 e4 e5 e6 e7 e8 hp
    obtain ⟨a1, a2, -, a4, a5, a6, a7⟩ := doPassToken_exact c0 c' now l false nx e1 e2 e8 (by rw [e5]; omega) hp
    rcases a7 with ⟨_, _, hf, -⟩ | ⟨b1, b2, b3, b4⟩
    · cases hf
    · rw [e5] at b1 b2 b3 b4
      exact ⟨a1.trans e3, a2.trans e4, a4.trans e5, a5.trans e6, a6.trans e7, b1, b2, b3, b4⟩
  cases att with
  | first =>
    simp only [tr, toPassToken, hst, Res.bind] at hc''
    obtain ⟨a1, a2, a3, a4, a5, a6, a7, a8, a9⟩ := fin _ .second rfl rfl rfl rfl rfl rfl rfl hl hc''
    exact ⟨c', hc', hinv', a1, a2, a3, a4, a5, s.ring, .second, ⟨rfl, rfl⟩, a6, a7, a8, a9⟩
  | second =>
    simp only [tr, toPassToken, hst, Res.bind] at hc''
    obtain ⟨a1, a2, a3, a4, a5, a6, a7, a8, a9⟩ := fin _ .third rfl rfl rfl rfl rfl rfl rfl hl hc''
    exact ⟨c', hc', hinv', a1, a2, a3, a4, a5, s.ring, .third, ⟨rfl, rfl⟩, a6, a7, a8, a9⟩
  | third =>
    simp only at hc''
    cases hr : s.ring.removeStation s.ring.ns with
    | none => rw [hr] at hc''; cases hc''
    | some r =>
      rw [hr] at hc''
      simp only [tr, toPassToken, hst, Res.bind, upd] at hc''
      obtain ⟨a1, a2, a3, a4, a5, a6, a7, a8, a9⟩ := fin _ .first rfl rfl rfl rfl rfl rfl rfl hl hc''
      exact ⟨c', hc', hinv', a1, a2, a3, a4, a5, r, .first, ⟨rfl, rfl⟩, a6, a7, a8, a9⟩

/-- **Crash invariant**: station `x` (record `sx`) supervises its `att`-th pass of the token, sent at `s`; every
transmission of another station has been delivered to it completely; nothing is pending. -/
structure CInv (cfg : Cfg) (M : List Nat) (adr : Nat → Nat) (n : Net) (x : Nat) (sx : NetStation) (att : Attempt)
    (s : Int) : Prop where
  ring : RingCfg M adr n.stations.length
  xlt : x < n.stations.length
  gx : n.stations[x]? = some sx
  okx : StOkN cfg M sx (adr x)
  log : LogOk cfg M adr n.stations.length n.bus
  doneX : ∀ o ∈ n.bus.txs, o.sender = x ∨ cEnd cfg o ≤ n.bus.seen.getD x 0
  ownX : ∀ o ∈ n.bus.txs, o.sender = x → cEnd cfg o ≤ s + (cfg.b33 : Nat) + 1
  pbx : sx.s.pendingBytes = 0
  rxx : sx.rx = []
  st : sx.s.st = .checkTokenPass att
  stamp : sx.s.lastBusActivity = some (s + (cfg.b33 : Nat))
  seenlo : s ≤ n.bus.seen.getD x 0
  seenhi : n.bus.seen.getD x 0 ≤ s + (cfg.b33 : Nat) + (cfg.slot : Nat)

/-- The ring invariant in phase `pass` gives the crash invariant for the passing station. -/
theorem CInv.ofNInv {cfg : Cfg} {M : List Nat} {adr : Nat → Nat} {n : Net} {v : NView} (h : NInv cfg M adr n v)
    (hph : v.ph = .pass) (hseen : n.bus.seen.getD v.x 0 ≤ v.tr.start + (cfg.b33 : Nat) + (cfg.slot : Nat)) :
    CInv cfg M adr n v.x v.sx .first v.tr.start := by
  have hP := h.ph
  unfold PhaseOkN at hP
  rw [hph] at hP
  obtain ⟨-, -, hst, hlx, hq, -, -, -⟩ := hP
  exact ⟨h.ring, h.xlt, h.gx, h.okx, h.log, h.doneX, fun o ho hs => h.ownX _ hlx o ho hs, h.pbx, h.rxx, hst, hlx, hq, hseen⟩

theorem CInv.deliver {cfg : Cfg} {M : List Nat} {adr : Nat → Nat} {n : Net} {x : Nat} {sx : NetStation} {att : Attempt}
    {s : Int} (h : CInv cfg M adr n x sx att s) (hok : cfg.Ok) (now : Int) (hsn : n.bus.seen.getD x 0 ≤ now) :
    n.bus.deliver x now = ({ n.bus with seen := n.bus.seen.set x now }, []) := by
  obtain ⟨inc, hd, hcat⟩ := listener_deliver h.ring h.log hok.rate x now n.bus.txs [] (by simp) h.doneX
    (fun t ht => by cases ht) hsn
  simp only [arrived, List.map_nil, List.flatten_nil, List.nil_append] at hcat
  rw [hd, hcat]

/-- **The survivor is polled before its slot time has run out**: nothing happens. -/
theorem crash_wait {cfg : Cfg} {M : List Nat} {adr : Nat → Nat} {n : Net} {x : Nat} {sx : NetStation} {att : Attempt}
    {s : Int} (h : CInv cfg M adr n x sx att s) (hok : cfg.Ok) (now : Int) (hown : n.bus.seen.getD x 0 < now)
    (hw : now ≤ s + (cfg.b33 : Nat) + (cfg.slot : Nat)) :
    ∃ n' c, n.poll x now = (n', [], some (.ok c)) ∧ c.tx = none ∧ CInv cfg M adr n' x sx att s := by
  have hxs : x < n.bus.seen.length := by rw [h.log.seen]; exact h.xlt
  have hd := h.deliver hok now (Int.le_of_lt hown)
  have hpoll : ∃ c', sx.s.poll sx.apps now (n.bus.transmitting x now) [] = .ok c' ∧ c'.tx = none ∧ c'.s = sx.s ∧
      c'.apps = sx.apps ∧ c'.rx = [] := by
    by_cases hle : now ≤ s + (cfg.b33 : Nat)
    · exact ⟨_, poll_ongoing sx.s sx.apps now _ [] h.okx.son (by rw [h.st]; simp) (by rw [h.st]; simp) _ h.stamp hle,
        rfl, rfl, rfl, rfl⟩
    · rw [transmitting_listener cfg M adr _ n.bus h.log x (s + (cfg.b33 : Nat)) now h.ownX (by omega)]
      obtain ⟨c', hc', htx', hs', ha', hr'⟩ := check_poll_partialA sx.s sx.apps now [] att _ h.okx.inv h.okx.son h.st h.stamp
        (by omega) (.inr (by rw [h.okx.slot]; omega)) receiveAll_nil
      simp only [List.length_nil, checkBus_nil] at hs'
      exact ⟨c', hc', htx', hs', ha', hr'⟩
  obtain ⟨c, hc, htx, hs', ha', hr'⟩ := hpoll
  have hp' : sx.s.poll sx.apps now (Bus.transmitting { n.bus with seen := n.bus.seen.set x now } x now)
      (sx.rx ++ []) = .ok c := by rw [transmitting_seen, h.rxx]; exact hc
  have hpe := Net.poll_eq n x now sx _ [] c h.gx h.okx.alive h.okx.online hd hp'
  rw [htx] at hpe
  have hsame : ({ sx with s := c.s, apps := c.apps, rx := c.rx } : NetStation) = sx := by
    rw [hs', ha', hr', ← h.rxx]
  rw [hsame] at hpe
  refine ⟨_, c, hpe, htx, ?_⟩
  refine ⟨by simp only [List.length_set]; exact h.ring, by simp only [List.length_set]; exact h.xlt,
    List.getElem?_set_self h.xlt, h.okx, by simp only [List.length_set]; exact h.log.seenSet x now, ?_, h.ownX, h.pbx, h.rxx,
    h.st, h.stamp, ?_, ?_⟩
  · intro o ho
    simp only
    rw [seen_set_self _ _ _ hxs]
    exact (h.doneX o ho).imp id (fun hh => by omega)
  · simp only; rw [seen_set_self _ _ _ hxs]; have := h.seenlo; omega
  · simp only; rw [seen_set_self _ _ _ hxs]; exact hw

/-- **The survivor's slot time has run out after its first or second pass**: it sends the same token to the same
(dead) successor again and supervises the next attempt. -/
theorem crash_resend {cfg : Cfg} {M : List Nat} {adr : Nat → Nat} {n : Net} {x : Nat} {sx : NetStation} {att : Attempt}
    {s : Int} (h : CInv cfg M adr n x sx att s) (hok : cfg.Ok) (hatt : att ≠ .third) (now : Int)
    (hown : n.bus.seen.getD x 0 < now) (hexp : s + (cfg.b33 : Nat) + (cfg.slot : Nat) < now) :
    ∃ n' c next, n.poll x now = (n', [], some (.ok c)) ∧
      c.tx = some (tokenBytes (cycSucc (adr x) M) (adr x)) ∧
      ((att = .first ∧ next = .second) ∨ (att = .second ∧ next = .third)) ∧
      CInv cfg M adr n' x (upSt sx c) next now := by
  have hr := hok.rate
  have hmar := hok.margin
  have hc2 := cfg.ce2 hr
  have hxs : x < n.bus.seen.length := by rw [h.log.seen]; exact h.xlt
  have hd := h.deliver hok now (Int.le_of_lt hown)
  have hphy := transmitting_listener cfg M adr _ n.bus h.log x (s + (cfg.b33 : Nat)) now h.ownX (by omega)
  obtain ⟨c, hc, hinvc, c1, c2, c3, c4, c5, r, next, hrn, htx, hring, hst, hlast⟩ :=
    check_poll_timeoutA sx.s sx.apps now _ att h.okx.inv h.okx.son h.st h.stamp (by rw [h.okx.slot]; omega)
      (by rw [h.okx.b33, h.okx.slot]; omega)
  have hr' : r = sx.s.ring ∧ ((att = .first ∧ next = .second) ∨ (att = .second ∧ next = .third)) := by
    cases att with
    | first => exact ⟨hrn.1, .inl ⟨rfl, hrn.2⟩⟩
    | second => exact ⟨hrn.1, .inr ⟨rfl, hrn.2⟩⟩
    | third => exact absurd rfl hatt
  obtain ⟨hre, hnext⟩ := hr'
  subst hre
  have hns : sx.s.ring.ns = cycSucc (adr x) M := h.okx.view.ns.1
  have hview' : RingView M (adr x) (sx.s.ring.witness (adr x) (cycSucc (adr x) M)) := h.okx.view.witness
  rw [h.okx.addr, hns] at htx hring hst
  have hst' : c.s.st = .checkTokenPass next := by
    rw [hst, hview'.ns.1, if_neg (h.ring.two _ (h.ring.mem x h.xlt))]
  have hlast' : c.s.lastBusActivity = some (now + (cfg.b33 : Nat)) := by
    rw [hlast, bitsN_11_3, h.okx.bits]; rfl
  have hp' : sx.s.poll sx.apps now (Bus.transmitting { n.bus with seen := n.bus.seen.set x now } x now)
      (sx.rx ++ []) = .ok c := by rw [transmitting_seen, h.rxx, hphy]; exact hc
  have hpe := Net.poll_eq n x now sx _ [] c h.gx h.okx.alive h.okx.online hd hp'
  rw [htx] at hpe
  have hrate : 0 < n.bus.rate := by rw [h.log.rate]; exact hr
  obtain ⟨old', e1, e2, e3, e4, e5, e6⟩ := Bus.send_txs { n.bus with seen := n.bus.seen.set x now } x now
    (tokenBytes (cycSucc (adr x) M) (adr x)) h.log.drops hrate
  have hspec := Bus.send_spec { n.bus with seen := n.bus.seen.set x now } x now (tokenBytes (cycSucc (adr x) M) (adr x)) h.log.drops
  have hmem : ∀ o ∈ old', o ∈ n.bus.txs := fun o ho => e2 o ho
  have hends : ∀ o ∈ n.bus.txs, cEnd cfg o ≤ now := by
    intro o ho
    rcases h.doneX o ho with hs | hs
    · have := h.ownX o ho hs; omega
    · omega
  have hsub : old'.Sublist n.bus.txs := by
    have : (Bus.send { n.bus with seen := n.bus.seen.set x now } x now (tokenBytes (cycSucc (adr x) M) (adr x))).txs =
        (n.bus.txs.filter fun t => decide (n.bus.txEnd t + 100000 > now)) ++
          [({ start := now, sender := x, bytes := tokenBytes (cycSucc (adr x) M) (adr x), dropped := false } : Transmission)] := by
      rw [hspec]
      simp only [List.filter_append, List.filter_cons, List.filter_nil]
      have : decide (Bus.txEnd { n.bus with seen := n.bus.seen.set x now }
          ({ start := now, sender := x, bytes := tokenBytes (cycSucc (adr x) M) (adr x), dropped := false } : Transmission) + 100000 > now) = true := by
        have := Bus.byteEnd_pos n.bus hrate ((tokenBytes (cycSucc (adr x) M) (adr x)).length - 1)
        unfold Bus.txEnd
        simp only [decide_eq_true_eq]
        show now + n.bus.byteEnd ((tokenBytes (cycSucc (adr x) M) (adr x)).length - 1) + 100000 > now
        omega
      rw [if_pos this]
      rfl
    rw [e1] at this
    have hh := List.append_inj_left' this rfl
    rw [hh]
    exact List.filter_sublist
  refine ⟨_, c, next, hpe, htx, hnext, ?_⟩
  refine ⟨by simp only [List.length_set]; exact h.ring, by simp only [List.length_set]; exact h.xlt,
    List.getElem?_set_self h.xlt,
    h.okx.step now _ _ c hp' c3 (by rw [hring]; exact hview') (c4.trans h.okx.son) (by rw [c2]; exact h.okx.apps), ?_, ?_, ?_,
    c5.trans h.pbx, c1, hst', hlast', ?_, ?_⟩
  · simp only [List.length_set]
    refine ⟨e3.trans h.log.rate, e5.trans h.log.corrupt, e6, by rw [e4]; simp [h.log.seen], ?_, ?_, ?_⟩
    · rw [e1]
      unfold CChained
      rw [List.pairwise_append]
      refine ⟨List.Pairwise.sublist hsub h.log.chained, List.pairwise_singleton _ _, ?_⟩
      intro o ho t ht
      simp only [List.mem_singleton] at ht
      subst ht
      exact hends o (hmem o ho)
    · intro t ht
      rw [e1] at ht
      rcases List.mem_append.1 ht with ht | ht
      · exact h.log.live t (hmem t ht)
      · simp only [List.mem_singleton] at ht; subst ht; rfl
    · intro t ht
      rw [e1] at ht
      rcases List.mem_append.1 ht with ht | ht
      · exact h.log.kinds t (hmem t ht)
      · simp only [List.mem_singleton] at ht; subst ht; exact ⟨x, h.xlt, rfl, .inl rfl⟩
  · intro o ho
    rw [e1] at ho
    rw [e4]
    simp only
    rw [seen_set_self _ _ _ hxs]
    rcases List.mem_append.1 ho with ho | ho
    · exact .inr (hends o (hmem o ho))
    · simp only [List.mem_singleton] at ho; subst ho; exact .inl rfl
  · intro o ho hs
    rw [e1] at ho
    rcases List.mem_append.1 ho with ho | ho
    · have := hends o (hmem o ho); omega
    · simp only [List.mem_singleton] at ho; subst ho
      unfold cEnd
      show now + ((cfg.ce (3 - 1) : Nat) : Int) ≤ _
      show now + ((cfg.ce 2 : Nat) : Int) ≤ _
      omega
  · rw [e4]; simp only; rw [seen_set_self _ _ _ hxs]; exact Int.le_refl _
  · rw [e4]; simp only; rw [seen_set_self _ _ _ hxs]; omega

theorem removeStation_active (r r' : TokenRing) (a b : Nat) (h : r.removeStation a = some r') :
    r'.isActive b = (if b = a then false else r.isActive b) := by
  unfold TokenRing.removeStation at h
  by_cases ha : a ≥ 128
  · rw [if_pos ha] at h; exact absurd h (by simp)
  · rw [if_neg ha] at h
    have h' := Option.some.inj h
    rw [← h', TokenRing.updateNextPrev_active]
    unfold TokenRing.isActive
    by_cases hb : b < 128
    · rw [dif_pos hb, dif_pos hb]
      simp only [Vector.getElem_ofFn]
      rfl
    · rw [dif_neg hb, dif_neg hb]
      split <;> rfl

theorem removeStation_las (r r' : TokenRing) (a : Nat) (h : r.removeStation a = some r') : r'.las = r.las := by
  unfold TokenRing.removeStation at h
  split at h
  · cases h
  · injection h with h; subst h; exact (TokenRing.updateNextPrev_las _).1

/-- In a ring of two, removing the successor leaves the station alone: its ring view is that of the
one-member ring. -/
theorem alone_after_remove {M : List Nat} {adr : Nat → Nat} (hR : RingCfg M adr 2) (x : Nat) (hx : x < 2) (r r' : TokenRing)
    (hv : RingView M (adr x) r) (h : r.removeStation (cycSucc (adr x) M) = some r') :
    RingView [adr x] (adr x) r' := by
  have hax := hR.ring.bound _ (hR.mem x hx)
  have hne := hR.two _ (hR.mem x hx)
  have hlas : TokenRing.LasIs r' [adr x] := by
    intro a ha
    rw [removeStation_active r r' _ a h, hv.las a ha]
    by_cases hay : a = cycSucc (adr x) M
    · rw [if_pos hay]
      simp only [List.mem_singleton]
      rw [hay]
      exact (decide_eq_false hne).symm
    · rw [if_neg hay]
      simp only [List.mem_singleton]
      by_cases hm : a ∈ M
      · obtain ⟨i, hi, e⟩ := hR.surj a hm
        obtain ⟨j, hj, ej⟩ := hR.surj _ (cycSucc_mem _ M (hR.mem x hx))
        have hjx : j ≠ x := by intro e'; rw [e'] at ej; exact hne ej.symm
        have hij : i ≠ j := by intro e'; rw [e', ej] at e; exact hay e.symm
        have hix : i = x := by omega
        rw [← e, hix]
        simp [hR.mem x hx]
      · have : a ≠ adr x := by intro e; rw [e] at hm; exact hm (hR.mem x hx)
        simp [hm, this]
  exact ⟨⟨by simp, trivial, by intro z hz; simp only [List.mem_singleton] at hz; rw [hz]; exact hax⟩, by simp,
    (removeStation_ts r r' _ h).trans hv.ts, (removeStation_las r r' _ h).trans hv.valid, hlas, removeStation_nbr r r' _ h⟩

theorem cycSucc_single (a : Nat) : cycSucc a [a] = a := by
  unfold cycSucc
  simp

/-- **The survivor's slot time has run out after its third pass**: it removes the dead successor from its LAS,
sends the token to itself and uses it — it is alone in the ring. -/
theorem crash_final {cfg : Cfg} {M : List Nat} {adr : Nat → Nat} {n : Net} {x : Nat} {sx : NetStation}
    {s : Int} (h : CInv cfg M adr n x sx .third s) (hok : cfg.Ok) (hN : n.stations.length = 2) (now : Int)
    (hown : n.bus.seen.getD x 0 < now) (hexp : s + (cfg.b33 : Nat) + (cfg.slot : Nat) < now) :
    ∃ n' c, n.poll x now = (n', [], some (.ok c)) ∧ c.tx = some (tokenBytes (adr x) (adr x)) ∧
      c.s.st = .useToken ⟨now, none⟩ false ∧ RingView [adr x] (adr x) c.s.ring ∧ Inv c.s c.apps ∧
      n'.stations[x]? = some (upSt sx c) := by
  have hmar := hok.margin
  have hd := h.deliver hok now (Int.le_of_lt hown)
  have hphy := transmitting_listener cfg M adr _ n.bus h.log x (s + (cfg.b33 : Nat)) now h.ownX (by omega)
  obtain ⟨c, hc, hinvc, c1, c2, c3, c4, c5, r, next, hrn, htx, hring, hst, hlast⟩ :=
    check_poll_timeoutA sx.s sx.apps now _ .third h.okx.inv h.okx.son h.st h.stamp (by rw [h.okx.slot]; omega)
      (by rw [h.okx.b33, h.okx.slot]; omega)
  obtain ⟨hrem, -⟩ := hrn
  have hns : sx.s.ring.ns = cycSucc (adr x) M := h.okx.view.ns.1
  rw [hns] at hrem
  have hR2 : RingCfg M adr 2 := by rw [← hN]; exact h.ring
  have hv1 := alone_after_remove hR2 x (by rw [← hN]; exact h.xlt) _ r h.okx.view hrem
  have hrns : r.ns = adr x := by rw [hv1.ns.1, cycSucc_single]
  rw [h.okx.addr, hrns] at htx hring hst
  have hv2 : RingView [adr x] (adr x) (r.witness (adr x) (adr x)) := by
    have := hv1.witness
    rw [cycSucc_single] at this
    exact this
  have hst' : c.s.st = .useToken ⟨now, none⟩ false := by
    rw [hst, hv2.ns.1, cycSucc_single, if_pos rfl]
  have hp' : sx.s.poll sx.apps now (Bus.transmitting { n.bus with seen := n.bus.seen.set x now } x now)
      (sx.rx ++ []) = .ok c := by rw [transmitting_seen, h.rxx, hphy]; exact hc
  have hpe := Net.poll_eq n x now sx _ [] c h.gx h.okx.alive h.okx.online hd hp'
  refine ⟨_, c, hpe, htx, hst', by rw [hring]; exact hv2, hinvc, ?_⟩
  exact List.getElem?_set_self h.xlt

/-! ## Whole runs of the survivor -/

/-- All polls of station `x` return regularly. -/
def SoloRun (x : Nat) : Net → List Int → Prop
  | _, [] => True
  | n, now :: rest => ∃ n' inc c, n.poll x now = (n', inc, some (.ok c)) ∧ SoloRun x n' rest

/-- A live station that satisfies the station invariant is polled regularly whatever the bus delivers (C05). -/
theorem solo_regular (x : Nat) : ∀ (evs : List Int) (n : Net) (st : NetStation), n.stations[x]? = some st → st.dead = false →
    st.online = true → Inv st.s st.apps → SoloRun x n evs := by
  intro evs
  induction evs with
  | nil => intro _ _ _ _ _ _; trivial
  | cons now rest ih =>
    intro n st hst hal hon hinv
    have hxl : x < n.stations.length := by
      rcases Nat.lt_or_ge x n.stations.length with h | h
      · exact h
      · rw [List.getElem?_eq_none_iff.2 h] at hst; cases hst
    rcases hd : n.bus.deliver x now with ⟨bus, inc⟩
    obtain ⟨c, hc, hinv', -⟩ := pollInner_good { s := st.s, apps := st.apps, rx := st.rx ++ inc } now
      (bus.transmitting x now) hinv rfl
    have hp := Net.poll_eq n x now st bus inc c hst hal hon hd hc
    exact ⟨_, inc, c, hp, ih _ { st with s := c.s, apps := c.apps, rx := c.rx } (List.getElem?_set_self hxl) hal hon hinv'⟩

def Attempt.num : Attempt → Nat
  | .first => 1
  | .second => 2
  | .third => 3

/-- One recovery period: the token (33 bit), the slot time, one poll gap. -/
def Cfg.retry (c : Cfg) : Nat := c.b33 + c.slot + c.P

/-- Poll times of the survivor: increasing, gaps at most `P`. -/
def SchedXT (P : Nat) : Int → List Int → Prop
  | _, [] => True
  | prev, now :: rest => prev < now ∧ now ≤ prev + (P : Int) ∧ SchedXT P now rest

/-- **Run of the survivor** (`k` = number of the pass it supervises, `s0` = start of its first pass): every poll
returns regularly and receives nothing; while it has not recovered, every poll happens no later than
`s0 + k·(bits 33 + Tslot + P)`; a poll either transmits nothing, or repeats the token to the dead successor
(`k < 3`), or (`k = 3`) sends the token to the station itself, which is then alone in its ring view and uses
the token; from then on every poll returns regularly. -/
def CrashRun (cfg : Cfg) (M : List Nat) (adr : Nat → Nat) (x : Nat) (s0 : Int) : Nat → Net → List Int → Prop
  | _, _, [] => True
  | k, n, now :: rest =>
    ∃ n' c, n.poll x now = (n', [], some (.ok c)) ∧ now ≤ s0 + ((k * cfg.retry : Nat) : Int) ∧
      ((c.tx = none ∧ CrashRun cfg M adr x s0 k n' rest) ∨
       (k < 3 ∧ c.tx = some (tokenBytes (cycSucc (adr x) M) (adr x)) ∧ CrashRun cfg M adr x s0 (k + 1) n' rest) ∨
       (k = 3 ∧ c.tx = some (tokenBytes (adr x) (adr x)) ∧ c.s.st = .useToken ⟨now, none⟩ false ∧
          RingView [adr x] (adr x) c.s.ring ∧ SoloRun x n' rest))

theorem crash_run {cfg : Cfg} (hok : cfg.Ok) (M : List Nat) (adr : Nat → Nat) (x : Nat) (s0 : Int) :
    ∀ (evs : List Int) (n : Net) (sx : NetStation) (att : Attempt) (s : Int), CInv cfg M adr n x sx att s →
    n.stations.length = 2 → s ≤ s0 + (((att.num - 1) * cfg.retry : Nat) : Int) →
    SchedXT cfg.P (n.bus.seen.getD x 0) evs → CrashRun cfg M adr x s0 att.num n evs := by
  intro evs
  induction evs with
  | nil => intro _ _ _ _ _ _ _ _; trivial
  | cons now rest ih =>
    intro n sx att s h hN hs hsch
    obtain ⟨hlt, hle, hrest⟩ := hsch
    have hxs : x < n.bus.seen.length := by rw [h.log.seen]; exact h.xlt
    have hseen' : ∀ n' inc r, n.poll x now = (n', inc, r) → n'.bus.seen.getD x 0 = now := by
      intro n' inc r hp
      have := Net.poll_seenN n x now
      rw [hp] at this
      simp only at this
      rw [this, seen_set_self _ _ _ hxs]
    have hlen' : ∀ n' inc r, n.poll x now = (n', inc, r) → n'.stations.length = 2 := by
      intro n' inc r hp
      have := Net.poll_len n x now
      rw [hp] at this
      simp only at this
      rw [this]; exact hN
    have hhi := h.seenhi
    have hk : 1 ≤ att.num := by cases att <;> simp [Attempt.num]
    have hmul : ((att.num * cfg.retry : Nat) : Int) = (((att.num - 1) * cfg.retry : Nat) : Int) + (cfg.retry : Nat) := by
      have : att.num * cfg.retry = (att.num - 1) * cfg.retry + cfg.retry := by
        have : att.num = (att.num - 1) + 1 := by omega
        conv => lhs; rw [this, Nat.add_mul, Nat.one_mul]
      rw [this]; push_cast; rfl
    have hre : ((cfg.retry : Nat) : Int) = (cfg.b33 : Nat) + (cfg.slot : Nat) + (cfg.P : Nat) := by
      unfold Cfg.retry; push_cast; rfl
    have hdl : now ≤ s0 + ((att.num * cfg.retry : Nat) : Int) := by
      rw [hmul]
      omega
    by_cases hw : now ≤ s + (cfg.b33 : Nat) + (cfg.slot : Nat)
    · obtain ⟨n', c, hp, htx, hinv'⟩ := crash_wait h hok now hlt hw
      refine ⟨n', c, hp, hdl, .inl ⟨htx, ?_⟩⟩
      exact ih n' sx att s hinv' (hlen' _ _ _ hp) hs (by rw [hseen' _ _ _ hp]; exact hrest)
    · have hexp : s + (cfg.b33 : Nat) + (cfg.slot : Nat) < now := by omega
      by_cases h3 : att = .third
      · subst h3
        obtain ⟨n', c, hp, htx, hst, hview, hinvc, hgx'⟩ := crash_final h hok hN now hlt hexp
        refine ⟨n', c, hp, hdl, .inr (.inr ⟨rfl, htx, hst, hview, ?_⟩)⟩
        exact solo_regular x rest n' (upSt sx c) hgx' h.okx.alive h.okx.online hinvc
      · obtain ⟨n', c, next, hp, htx, hnext, hinv'⟩ := crash_resend h hok h3 now hlt hexp
        refine ⟨n', c, hp, hdl, .inr (.inl ⟨?_, htx, ?_⟩)⟩
        · rcases hnext with ⟨e, -⟩ | ⟨e, -⟩ <;> rw [e] <;> simp [Attempt.num]
        · have hnum : next.num = att.num + 1 := by
            rcases hnext with ⟨e1, e2⟩ | ⟨e1, e2⟩ <;> rw [e1, e2] <;> rfl
          rw [← hnum]
          refine ih n' (upSt sx c) next now hinv' (hlen' _ _ _ hp) ?_ (by rw [hseen' _ _ _ hp]; exact hrest)
          rw [hnum]
          simpa using hdl

/-! ## The token holder stops for good: the survivor waits for its token-lost time-out -/

/-- **Quiet-survivor invariant**: station `j` (record `st`) is idle and up to date — everything that was ever
transmitted by others has been delivered to it completely, its buffer is empty — with stamp `l`. -/
structure QInv (cfg : Cfg) (M : List Nat) (adr : Nat → Nat) (n : Net) (j : Nat) (st : NetStation) (l : Int) : Prop where
  ring : RingCfg M adr n.stations.length
  jlt : j < n.stations.length
  gj : n.stations[j]? = some st
  okj : StOkN cfg M st (adr j)
  log : LogOk cfg M adr n.stations.length n.bus
  done : ∀ o ∈ n.bus.txs, o.sender = j ∨ cEnd cfg o ≤ n.bus.seen.getD j 0
  own : ∀ o ∈ n.bus.txs, o.sender = j → cEnd cfg o ≤ l + 1
  pb : st.s.pendingBytes = 0
  rx : st.rx = []
  idle : ∃ np coll, st.s.st = .activeIdle none np coll
  stamp : st.s.lastBusActivity = some l
  lseen : l ≤ n.bus.seen.getD j 0

/-- A listener of the stable ring that is idle and has been polled after the end of every transmission
satisfies the quiet-survivor invariant. -/
theorem QInv.ofNInv {cfg : Cfg} {M : List Nat} {adr : Nat → Nat} {n : Net} {v : NView} (h : NInv cfg M adr n v)
    (hok : cfg.Ok) (j : Nat) (hj : j < n.stations.length) (hjx : j ≠ v.x) (st : NetStation) (hst : n.stations[j]? = some st)
    (hidle : ∃ np coll, st.s.st = .activeIdle none np coll)
    (hall : ∀ t ∈ n.bus.txs, cEnd cfg t ≤ n.bus.seen.getD j 0)
    (hstamp : ∀ l, st.s.lastBusActivity = some l → l ≤ n.bus.seen.getD j 0) :
    ∃ l, QInv cfg M adr n j st l := by
  obtain ⟨st', hst', hL⟩ := h.lis j hj hjx
  rw [hst] at hst'
  cases hst'
  obtain ⟨hokS, dn, rs, idle, l, h1, h2, h3, h4, h5, h0, h6, h7, h8, h9, hF, h10⟩ := hL
  have hrs : rs = [] := by
    cases rs with
    | nil => rfl
    | cons t rest =>
      exfalso
      have hm : t ∈ n.bus.txs := by rw [h1]; simp
      have hpos := (TxKind.wire h.ring (h.log.kinds t hm)).2.2
      have hfull := cvis_full cfg t (n.bus.seen.getD j 0) hpos (hall t hm)
      have := h6 t rest rfl
      omega
  subst hrs
  have hl : l ≤ n.bus.seen.getD j 0 := hstamp l h7
  simp only [arrived, List.map_nil, List.flatten_nil, List.length_nil] at h4 h5
  exact ⟨l, h.ring, hj, hst, hokS, h.log, by rw [h1, List.append_nil]; exact h2, h0, by omega, h4, hidle, h7, hl⟩

/-- **The quiet survivor is polled before its token-lost time-out**: nothing happens. -/
theorem quiet_wait {cfg : Cfg} {M : List Nat} {adr : Nat → Nat} {n : Net} {j : Nat} {st : NetStation} {l : Int}
    (h : QInv cfg M adr n j st l) (hok : cfg.Ok) (now : Int) (hown : n.bus.seen.getD j 0 < now)
    (hw : now < l + (st.s.p.tokenLostTimeout : Nat)) :
    ∃ n' c, n.poll j now = (n', [], some (.ok c)) ∧ c.tx = none ∧ QInv cfg M adr n' j st l := by
  have hjs : j < n.bus.seen.length := by rw [h.log.seen]; exact h.jlt
  obtain ⟨inc, hd, hcat⟩ := listener_deliver h.ring h.log hok.rate j now n.bus.txs [] (by simp) h.done
    (fun t ht => by cases ht) (Int.le_of_lt hown)
  simp only [arrived, List.map_nil, List.flatten_nil, List.nil_append] at hcat
  subst hcat
  have hlt : l < now := by have := h.lseen; omega
  have hphy := transmitting_listener cfg M adr _ n.bus h.log j l now h.own hlt
  obtain ⟨np, coll, hst⟩ := h.idle
  have hto : 0 < st.s.p.tokenLostTimeout := by have := h.okj.tto; omega
  have hp := idle_poll_partialA st.s st.apps now [] [] false np coll l h.okj.son hst h.stamp hlt hto (.inr hw) receiveAll_nil
  simp only [List.length_nil, checkBus_nil] at hp
  have hp' : st.s.poll st.apps now (Bus.transmitting { n.bus with seen := n.bus.seen.set j now } j now)
      (st.rx ++ []) = .ok { s := st.s, apps := st.apps, rx := [] } := by rw [transmitting_seen, h.rx, hphy]; exact hp
  have hpe := Net.poll_eq n j now st _ [] _ h.gj h.okj.alive h.okj.online hd hp'
  have hsame : ({ st with s := st.s, apps := st.apps, rx := [] } : NetStation) = st := by
    rw [← h.rx]
  simp only at hpe
  rw [hsame] at hpe
  refine ⟨_, _, hpe, rfl, ?_⟩
  refine ⟨by simp only [List.length_set]; exact h.ring, by simp only [List.length_set]; exact h.jlt,
    List.getElem?_set_self h.jlt, h.okj, by simp only [List.length_set]; exact h.log.seenSet j now, ?_, h.own, h.pb, h.rx,
    ⟨np, coll, hst⟩, h.stamp, ?_⟩
  · intro o ho
    simp only
    rw [seen_set_self _ _ _ hjs]
    exact (h.done o ho).imp id (fun hh => by omega)
  · simp only; rw [seen_set_self _ _ _ hjs]; omega

/-- What the bus hands to the quiet survivor at the poll of its time-out: nothing; its PHY is idle. -/
theorem quiet_deliver {cfg : Cfg} {M : List Nat} {adr : Nat → Nat} {n : Net} {j : Nat} {st : NetStation} {l : Int}
    (h : QInv cfg M adr n j st l) (hok : cfg.Ok) (now : Int) (hown : n.bus.seen.getD j 0 < now) :
    n.bus.deliver j now = ({ n.bus with seen := n.bus.seen.set j now }, []) ∧ n.bus.transmitting j now = false := by
  obtain ⟨inc, hd, hcat⟩ := listener_deliver h.ring h.log hok.rate j now n.bus.txs [] (by simp) h.done
    (fun t ht => by cases ht) (Int.le_of_lt hown)
  simp only [arrived, List.map_nil, List.flatten_nil, List.nil_append] at hcat
  subst hcat
  have hlt : l < now := by have := h.lseen; omega
  exact ⟨hd, transmitting_listener cfg M adr _ n.bus h.log j l now h.own hlt⟩

end PV
