/-
After every transmission the station's bus-activity stamp is the predicted end of that
transmission (`mark_tx`), whatever handler transmitted (C01).  Helper lemmas.
-/
import ProfiVerif.Lemmas.StationWho

namespace PV

/-- The stamp equals the predicted end of the transmission of `b` started at `now`. -/
def MarkK (now : Int) (c' : Ctx) (b : Bytes) : Prop :=
  c'.s.lastBusActivity = some (now + (c'.s.p.bits (11 * b.length) : Nat))

abbrev Marks (now : Int) (c : Ctx) (r : Res) : Prop := Kind (MarkK now) c r

/-- Directly after `transmit` the stamp is set. -/
theorem transmit_mark (c : Ctx) (now : Int) (bytes : Bytes) (c1 : Ctx) (h : transmit c now bytes = .ok c1) :
    c1.tx = some bytes ∧ MarkK now c1 bytes := by
  obtain ⟨_, rfl⟩ := transmit_cases _ _ _ _ h
  exact ⟨rfl, rfl⟩

/-- A later step that keeps `tx`, parameters and a known stamp keeps the mark. -/
theorem MarkK.of_keeps {now : Int} {c1 c' : Ctx} {b : Bytes} (hm : MarkK now c1 b) (hk : Keeps c1 c') : MarkK now c' b := by
  unfold MarkK at *
  rw [hk.p]
  exact hk.last _ hm

theorem keeps_upd_core (c : Ctx) (f : Station → Station) (hp : ∀ s, (f s).p = s.p)
    (hl : ∀ s, (f s).lastBusActivity = s.lastBusActivity) : Keeps c (upd c f) :=
  ⟨hp _, upd_tx _ _, fun l h => by show (f c.s).lastBusActivity = some l; rw [hl]; exact h⟩

theorem passTokenOn_marks (c : Ctx) (now : Int) (att : Attempt) : Marks now c (passTokenOn c now att) := by
  intro c' b h h0 hb
  unfold passTokenOn at h
  simp only at h
  cases ht : transmit c now (sendToken (UInt8.ofNat c.s.ring.ns) (UInt8.ofNat c.s.p.address)) with
  | panic s => rw [ht] at h; cases h
  | ok c1 =>
    rw [ht] at h
    simp only [Res.bind] at h
    obtain ⟨htx1, hm1⟩ := transmit_mark _ _ _ _ ht
    have hk1 : Keeps c1 (upd c1 fun s => { s with ring := s.ring.witness c.s.p.address c.s.ring.ns }) :=
      keeps_upd_core _ _ (fun _ => rfl) (fun _ => rfl)
    have hk2 : Keeps (upd c1 fun s => { s with ring := s.ring.witness c.s.p.address c.s.ring.ns }) c' := by
      split at h
      · exact tr_keeps _ _ _ (stOnly_toUseToken _) c' h
      · exact tr_keeps _ _ _ (stOnly_toCheckTokenPass _) c' h
    have hk := hk1.trans hk2
    have : c'.tx = some (sendToken (UInt8.ofNat c.s.ring.ns) (UInt8.ofNat c.s.p.address)) := by rw [hk.tx]; exact htx1
    rw [this] at hb
    cases hb
    exact hm1.of_keeps hk

theorem transmitGapPoll_mark (c : Ctx) (now : Int) (c1 : Ctx) (o : Option Nat) (h : transmitGapPoll c now = (.ok c1, o))
    (h0 : c.tx = none) : (o = none ∧ c1 = c) ∨ (∃ bytes, o ≠ none ∧ c1.tx = some bytes ∧ MarkK now c1 bytes) := by
  rcases transmitGapPoll_kind c now c1 o h h0 with ⟨h1, h2⟩ | ⟨a, bytes, rfl, _, _, rfl⟩
  · exact Or.inl ⟨h1, h2⟩
  · exact Or.inr ⟨bytes, by simp, rfl, rfl⟩

theorem doPassToken_marks (c : Ctx) (now : Int) : Marks now c (doPassToken c now) := by
  unfold doPassToken
  split
  · rename_i doGap att hst
    simp only
    by_cases hw : (waitSyncPause c.s now).2 = true
    · simp only [hw, if_true]; exact Kind.of_noTx (noTx_ok_same _ _ rfl)
    · rw [if_neg hw]
      cases doGap with
      | false =>
        simp only [Bool.false_eq_true, if_false]
        exact passTokenOn_marks _ now att
      | true =>
        simp only [if_true]
        split
        · exact Kind.panic _
        · rename_i g hg
          rcases htg : transmitGapPoll (upd { c with s := (waitSyncPause c.s now).1 } fun s => { s with gap := g }) now with ⟨r, o⟩
          cases r with
          | panic s => exact Kind.panic _
          | ok c2 =>
            intro c' b h h0 hb
            rcases transmitGapPoll_mark _ now c2 o htg ((upd_tx _ _).trans h0) with ⟨rfl, rfl⟩ | ⟨bytes, hne, htx2, hm2⟩
            · simp only at h
              exact passTokenOn_marks _ now att c' b h ((upd_tx _ _).trans h0) hb
            · cases o with
              | none => exact absurd rfl hne
              | some a =>
                simp only at h
                have hk := tr_keeps _ _ _ (stOnly_toAwaitStatus a) c' h
                rw [hk.tx, htx2] at hb
                cases hb
                exact hm2.of_keeps hk
  · exact Kind.panic _

theorem claimTx_marks (c : Ctx) (now : Int) (f : Station → Station) (hp : ∀ s, (f s).p = s.p)
    (hl : ∀ s, (f s).lastBusActivity = s.lastBusActivity) :
    Marks now c
      (if (waitSyncPause c.s now).2 = true then .ok { c with s := (waitSyncPause c.s now).1 } else
        (transmit { c with s := (waitSyncPause c.s now).1 } now
          (sendToken (UInt8.ofNat (waitSyncPause c.s now).1.p.address) (UInt8.ofNat (waitSyncPause c.s now).1.p.address))).bind
          fun c => .ok (upd c f)) := by
  by_cases hw : (waitSyncPause c.s now).2 = true
  · rw [if_pos hw]; exact Kind.of_noTx (noTx_ok_same _ _ rfl)
  · rw [if_neg hw]
    intro c' b h h0 hb
    cases ht : transmit { c with s := (waitSyncPause c.s now).1 } now
        (sendToken (UInt8.ofNat (waitSyncPause c.s now).1.p.address) (UInt8.ofNat (waitSyncPause c.s now).1.p.address)) with
    | panic s => rw [ht] at h; cases h
    | ok c1 =>
      rw [ht] at h
      simp only [Res.bind] at h
      obtain ⟨htx1, hm1⟩ := transmit_mark _ _ _ _ ht
      cases h
      have hk := keeps_upd_core c1 f hp hl
      rw [hk.tx, htx1] at hb
      cases hb
      exact hm1.of_keeps hk

theorem doClaimToken_marks (now : Int) : ∀ (fuel : Nat) (c : Ctx), Marks now c (doClaimToken c now fuel) := by
  intro fuel
  induction fuel with
  | zero => intro c; unfold doClaimToken; exact Kind.panic _
  | succ fuel ih =>
    intro c
    unfold doClaimToken
    cases hst : c.s.st with
    | claimToken step =>
      simp only
      cases step with
      | firstToken =>
        simp only
        exact claimTx_marks c now _ (fun _ => rfl) (fun _ => rfl)
      | secondToken =>
        simp only
        exact claimTx_marks c now _ (fun _ => rfl) (fun _ => rfl)
      | scan =>
        simp only
        by_cases hw : (waitSyncPause c.s now).2 = true
        · simp only [hw, if_true]; exact Kind.of_noTx (noTx_ok_same _ _ rfl)
        · rw [if_neg hw]
          split
          · exact Kind.of_noTx (tr_noTx _ _ _)
          · split
            · exact Kind.panic _
            · rename_i cur hg g hng
              rcases htg : transmitGapPoll (upd { c with s := (waitSyncPause c.s now).1 } fun s => { s with gap := g }) now with ⟨r, o⟩
              cases r with
              | panic s => exact Kind.panic _
              | ok c2 =>
                intro c' b h h0 hb
                rcases transmitGapPoll_mark _ now c2 o htg ((upd_tx _ _).trans h0) with ⟨rfl, rfl⟩ | ⟨bytes, hne, htx2, hm2⟩
                · simp only at h
                  cases h
                  rw [upd_tx] at hb
                  rw [show ({ c with s := (waitSyncPause c.s now).1 } : Ctx).tx = c.tx from rfl, h0] at hb
                  cases hb
                · cases o with
                  | none => exact absurd rfl hne
                  | some a =>
                    simp only at h
                    cases h
                    have hk := keeps_upd_core c2 (fun s => { s with st := .claimToken (.scanAwait a) }) (fun _ => rfl) (fun _ => rfl)
                    rw [hk.tx, htx2] at hb
                    cases hb
                    exact hm2.of_keeps hk
      | scanAwait a =>
        simp only
        rcases hag : awaitGapPollResponse c now a with ⟨r, g⟩
        cases r with
        | panic s => exact Kind.panic _
        | ok c1 =>
          obtain ⟨htx, hp, hk⟩ := awaitGap_spec c now a c1 g hag
          cases g with
          | waitingForBus => exact Kind.of_noTx (noTx_ok_same _ _ htx)
          | responded => exact Kind.of_noTx (noTx_ok_same _ _ ((upd_tx _ _).trans htx))
          | noResponse =>
            intro c' b h h0 hb
            exact ih (upd c1 fun s => { s with st := .claimToken .scan }) c' b h ((upd_tx _ _).trans (htx.trans h0)) hb
          | unexpected =>
            refine Kind.of_noTx ?_
            intro c' h
            rw [tr_noTx _ _ _ c' h, htx]
    | offline | passiveIdle | listenToken _ _ | activeIdle _ _ _ | useToken _ _ | awaitData _ _ | passToken _ _
    | checkTokenPass _ | awaitStatus _ => exact Kind.panic _

theorem encodeOrPanic_mark (c : Ctx) (now : Int) (h : Header) (pdu : Bytes) (c1 : Ctx)
    (he : encodeOrPanic c now h pdu = .ok c1) : ∃ bytes, c1.tx = some bytes ∧ MarkK now c1 bytes := by
  obtain ⟨bytes, _, _, rfl⟩ := encodeOrPanic_cases _ _ _ _ _ he
  exact ⟨bytes, rfl, rfl⟩

theorem handleLostToken_marks (c : Ctx) (now : Int) (c1 : Ctx) (r : Res) (h : handleLostToken c now = (c1, some r)) :
    Marks now c r := by
  unfold handleLostToken at h
  simp only at h
  split at h
  · split at h
    · cases h; exact Kind.panic _
    · rename_i s'' hs''
      cases h
      exact doClaimToken_marks now 2 _
  · cases h

theorem doListenToken_marks (c : Ctx) (now : Int) : Marks now c (doListenToken c now) := by
  obtain ⟨hnone, _⟩ := handleLostToken_txok c now
  unfold doListenToken
  rcases hl : handleLostToken c now with ⟨c1, _ | r⟩
  · split
    · obtain ⟨hk, hst1, hrx⟩ := hnone c1 hl
      simp only
      split
      · rename_i src coll hsc
        by_cases hw : (waitSyncPause c1.s now).2 = true
        · simp only [hw, if_true]; exact Kind.of_noTx (noTx_ok_same _ _ hk.tx)
        · rw [if_neg hw]
          intro c' b h h0 hb
          cases he : encodeOrPanic { c1 with s := (waitSyncPause c1.s now).1 } now
              (fdlStatusResponseHeader (UInt8.ofNat src) (UInt8.ofNat (waitSyncPause c1.s now).1.p.address)
                (if (waitSyncPause c1.s now).1.ring.readyForRing = true ∧ src = (waitSyncPause c1.s now).1.ring.ps then
                  ResponseState.masterWithoutToken else ResponseState.masterNotReady) ResponseStatus.ok) [] with
          | panic s => simp only [he, Res.bind] at h; cases h
          | ok c2 =>
            simp only [he, Res.bind] at h
            obtain ⟨bytes, htx2, hm2⟩ := encodeOrPanic_mark _ _ _ _ _ he
            have hk2 : Keeps c2 c' := by
              split at h
              · exact tr_keeps _ _ _ stOnly_toActiveIdle c' h
              · cases h; exact keeps_upd_core _ _ (fun _ => rfl) (fun _ => rfl)
            rw [hk2.tx, htx2] at hb
            cases hb
            exact hm2.of_keeps hk2
      · refine Kind.of_noTx ?_
        split
        · exact noTx_panic _ _
        · exact noTx_panic _ _
        · intro c' h
          rw [fold_noTx _ (fun c t l => listenTelegram_noTx now c t l) _ _ c' h]
          exact hk.tx
      · exact Kind.panic _
    · exact Kind.panic _
  · split
    · exact handleLostToken_marks c now c1 r hl
    · exact Kind.panic _

theorem doActiveIdle_marks (c : Ctx) (now : Int) : Marks now c (doActiveIdle c now) := by
  obtain ⟨hnone, _⟩ := handleLostToken_txok c now
  unfold doActiveIdle
  rcases hl : handleLostToken c now with ⟨c1, _ | r⟩
  · split
    · obtain ⟨hk, hst1, hrx⟩ := hnone c1 hl
      simp only
      split
      · rename_i src np coll hsc
        by_cases hw : (waitSyncPause c1.s now).2 = true
        · simp only [hw, if_true]; exact Kind.of_noTx (noTx_ok_same _ _ hk.tx)
        · rw [if_neg hw]
          intro c' b h h0 hb
          cases he : encodeOrPanic { c1 with s := (waitSyncPause c1.s now).1 } now
              (fdlStatusResponseHeader (UInt8.ofNat src) (UInt8.ofNat (waitSyncPause c1.s now).1.p.address)
                ResponseState.masterInRing ResponseStatus.ok) [] with
          | panic s => simp only [he, Res.bind] at h; cases h
          | ok c2 =>
            simp only [he, Res.bind] at h
            obtain ⟨bytes, htx2, hm2⟩ := encodeOrPanic_mark _ _ _ _ _ he
            cases h
            have hk2 := keeps_upd_core c2 (fun s => { s with st := .activeIdle none np coll }) (fun _ => rfl) (fun _ => rfl)
            rw [hk2.tx, htx2] at hb
            cases hb
            exact hm2.of_keeps hk2
      · refine Kind.of_noTx ?_
        split
        · exact noTx_panic _ _
        · exact noTx_panic _ _
        · intro c' h
          rw [fold_noTx _ (fun c t l => idleTelegram_noTx now c t l) _ _ c' h]
          exact hk.tx
      · exact Kind.panic _
    · exact Kind.panic _
  · split
    · exact handleLostToken_marks c now c1 r hl
    · exact Kind.panic _

theorem appTransmit_mark (c : Ctx) (now : Int) (hp : Bool) (c1 : Ctx) (sent : Bool)
    (h : appTransmit c now hp = (.ok c1, sent)) (h0 : c.tx = none) :
    ∀ b, c1.tx = some b → MarkK now c1 b := by
  unfold appTransmit at h
  simp only at h
  split at h
  · cases h
  · split at h
    · cases h
      intro b hb
      rw [show ({ c with apps := _, calls := _ } : Ctx).tx = c.tx from rfl, h0] at hb; cases hb
    · split at h
      · cases h
      · split at h
        · split at h
          · split at h
            · injection h with h1 h2
              obtain ⟨htx, hm⟩ := transmit_mark _ _ _ _ h1
              intro b hb
              rw [htx] at hb; cases hb; exact hm
            · cases h
          · cases h
        · injection h with h1 h2
          obtain ⟨htx, hm⟩ := transmit_mark _ _ _ _ h1
          intro b hb
          rw [htx] at hb; cases hb; exact hm

theorem appsTransmit_mark (now : Int) (hp : Bool) : ∀ (k : Nat) (c c1 : Ctx) (sent : Bool),
    appsTransmit now hp k c = (.ok c1, sent) → c.tx = none → ∀ b, c1.tx = some b → MarkK now c1 b := by
  intro k
  induction k with
  | zero =>
    intro c c1 sent h h0 b hb
    simp only [appsTransmit] at h
    cases h
    rw [h0] at hb; cases hb
  | succ k ih =>
    intro c c1 sent h h0
    simp only [appsTransmit] at h
    rcases hA : appTransmit c now hp with ⟨r, s1⟩
    rw [hA] at h
    cases r with
    | panic s => simp only at h; cases h
    | ok c2 =>
      obtain ⟨hno, _⟩ := appTransmit_spec c now hp c2 s1 hA h0
      have hm := appTransmit_mark c now hp c2 s1 hA h0
      cases s1 with
      | true => simp only at h; cases h; exact hm
      | false =>
        simp only at h
        have h2 : c2.tx = none := hno rfl
        split at h
        · split at h
          · cases h
            intro b hb
            rw [upd_tx, h2] at hb; cases hb
          · exact ih _ _ _ h ((upd_tx _ _).trans h2)
        · cases h

theorem passNow_marks (c : Ctx) (now : Int) : Marks now c (passNow c now) := by
  unfold passNow
  cases htr : tr c (fun s => toPassToken s true .first) "transition_pass_token" with
  | panic s => exact Kind.panic _
  | ok c1 =>
    simp only [Res.bind]
    intro c' b h h0 hb
    exact doPassToken_marks c1 now c' b h ((tr_noTx _ _ _ c1 htr).trans h0) hb

theorem useTokenGo_marks (c : Ctx) (now : Int) (d : UseData) (hp : Bool) : Marks now c (useTokenGo c now d hp) := by
  intro c' b h h0 hb
  unfold useTokenGo at h
  simp only at h
  rcases hA : appsTransmit now hp (upd c fun s => { s with st := .useToken d true }).apps.length
      (upd c fun s => { s with st := .useToken d true }) with ⟨r, sent⟩
  rw [hA] at h
  cases r with
  | panic s => simp only at h; cases h
  | ok c2 =>
    obtain ⟨hno, _⟩ := appsTransmit_spec now hp _ _ c2 sent hA ((upd_tx _ _).trans h0)
    have hm := appsTransmit_mark now hp _ _ c2 sent hA ((upd_tx _ _).trans h0)
    cases sent with
    | true => simp only at h; cases h; exact hm b hb
    | false =>
      simp only at h
      exact passNow_marks c2 now c' b h (hno rfl) hb

theorem doUseToken_marks (c : Ctx) (now : Int) : Marks now c (doUseToken c now) := by
  unfold doUseToken
  split
  · rename_i d fcd hst
    simp only
    split
    · exact Kind.of_noTx (noTx_ok_same _ _ rfl)
    · split
      · exact useTokenGo_marks _ now d false
      · split
        · exact useTokenGo_marks _ now d true
        · exact passNow_marks _ now
  · exact Kind.panic _

theorem doAwaitDataResponse_marks (c : Ctx) (now : Int) : Marks now c (doAwaitDataResponse c now) := by
  unfold doAwaitDataResponse
  split
  · rename_i address d hst
    simp only
    split
    · exact Kind.panic _
    · have hback : ∀ c0 : Ctx, NoTx c0 ((tr c0 (fun s => toUseToken s d) "transition_use_token").bind fun c =>
          .ok (upd c fun s => { s with st := .useToken d true })) := by
        intro c0
        exact bind_noTx (tr_noTx _ _ _) (fun c1 _ => noTx_ok_same _ _ (upd_tx _ _))
      split
      · exact Kind.panic _
      · exact Kind.panic _
      · refine Kind.of_noTx (ite_noTx ?_ ?_)
        · intro c' h; rw [hback _ c' h]
        · intro c' h; rw [tr_noTx _ _ _ c' h]
      · by_cases hexp : (checkSlotExpired c.s now).2 = true
        · simp only [hexp, if_true]
          intro c' b h h0 hb
          cases hb1 : ((tr { c with rx := _, s := (checkSlotExpired c.s now).1, calls := c.calls ++ [AppCall.timeout c.s.nextApp address] }
              (fun s => toUseToken s d) "transition_use_token").bind fun c =>
              .ok (upd c fun s => { s with st := .useToken d true })) with
          | panic s => rw [hb1] at h; cases h
          | ok c2 =>
            rw [hb1] at h
            simp only [Res.bind] at h
            exact doUseToken_marks c2 now c' b h ((hback _ c2 hb1).trans h0) hb
        · rw [if_neg hexp]
          exact Kind.of_noTx (noTx_ok_same _ _ rfl)
  · exact Kind.panic _

theorem trThenPass_marks (now : Int) (c c0 : Ctx) (a : Attempt) (htx : c0.tx = c.tx) :
    Marks now c ((tr c0 (fun s => toPassToken s false a) "transition_pass_token").bind fun c => doPassToken c now) := by
  cases htr : tr c0 (fun s => toPassToken s false a) "transition_pass_token" with
  | panic s => exact Kind.panic _
  | ok c1 =>
    simp only [Res.bind]
    intro c' b h h0 hb
    exact doPassToken_marks c1 now c' b h ((tr_noTx _ _ _ c1 htr).trans (htx.trans h0)) hb

theorem doAwaitStatusResponse_marks (c : Ctx) (now : Int) : Marks now c (doAwaitStatusResponse c now) := by
  unfold doAwaitStatusResponse
  split
  · rename_i a hst
    rcases hag : awaitGapPollResponse c now a with ⟨r, g⟩
    cases r with
    | panic s => exact Kind.panic _
    | ok c1 =>
      obtain ⟨htx, hp, hk⟩ := awaitGap_spec c now a c1 g hag
      cases g with
      | waitingForBus => exact Kind.of_noTx (noTx_ok_same _ _ htx)
      | responded =>
        refine Kind.of_noTx ?_
        intro c' h
        rw [tr_noTx _ _ _ c' h, htx]
      | noResponse => exact trThenPass_marks now c c1 .first htx
      | unexpected =>
        refine Kind.of_noTx ?_
        intro c' h
        rw [tr_noTx _ _ _ c' h, htx]
  · exact Kind.panic _

theorem doCheckTokenPass_marks (c : Ctx) (now : Int) : Marks now c (doCheckTokenPass c now) := by
  unfold doCheckTokenPass
  split
  · rename_i att hst
    simp only
    by_cases hexp : (checkSlotExpired c.s now).2 = true
    · simp only [hexp, if_true]
      cases att with
      | first => exact trThenPass_marks now c _ .second rfl
      | second => exact trThenPass_marks now c _ .third rfl
      | third =>
        simp only
        split
        · exact Kind.panic _
        · exact trThenPass_marks now c _ .first (upd_tx _ _)
    · rw [if_neg hexp]
      refine Kind.of_noTx ?_
      split
      · exact noTx_panic _ _
      · exact noTx_panic _ _
      · split
        · exact noTx_ok_same _ _ rfl
        · refine bind_noTx (c := c) ?_ ?_
          · intro c' h; rw [tr_noTx _ _ _ c' h]
          · intro c1 _
            refine bind_noTx (handleTelegram_noTx _ _ _ _) ?_
            intro c2 _
            exact fold_noTx _ (fun c t l => idleTelegram_noTx now c t l) _ _
  · exact Kind.panic _

theorem dispatch_marks (c : Ctx) (now : Int) : Marks now c (dispatch c now) := by
  unfold dispatch
  split
  · exact Kind.panic _
  · exact Kind.panic _
  · exact doListenToken_marks c now
  · exact doClaimToken_marks now 2 c
  · exact doUseToken_marks c now
  · exact doAwaitDataResponse_marks c now
  · exact doPassToken_marks c now
  · exact doCheckTokenPass_marks c now
  · exact doActiveIdle_marks c now
  · exact doAwaitStatusResponse_marks c now

/-- One whole poll: after a transmission of `b` the stamp is `now + 11·|b|` bit times. -/
theorem pollInner_marks (c : Ctx) (now : Int) (phyTx : Bool) (c' : Ctx) (b : Bytes)
    (h : pollInner c now phyTx = .ok c') (h0 : c.tx = none) (hb : c'.tx = some b) : MarkK now c' b := by
  unfold pollInner at h
  split at h
  · split at h
    · cases h; rw [h0] at hb; cases hb
    · cases h
  · cases hps : pollStart c with
    | panic s => rw [hps] at h; cases h
    | ok c1 =>
      rw [hps] at h
      simp only [Res.bind] at h
      have htx1 : c1.tx = c.tx := by
        unfold pollStart at hps
        split at hps
        · exact tr_noTx _ _ _ c1 hps
        · exact tr_noTx _ _ _ c1 hps
        · cases hps; rfl
      split at h
      · cases h
        rw [upd_tx, htx1, h0] at hb; cases hb
      · exact dispatch_marks _ now c' b h ((upd_tx _ _).trans (htx1.trans h0)) hb

/-! ### `do_pass_token` makes no application callback -/

theorem tr_calls (c : Ctx) (f : Station → Option Station) (site : String) (c' : Ctx) (h : tr c f site = .ok c') :
    c'.calls = c.calls := by
  obtain ⟨s', _, rfl⟩ := tr_cases c f site c' h; rfl

theorem passTokenOn_calls (c : Ctx) (now : Int) (att : Attempt) (c' : Ctx) (h : passTokenOn c now att = .ok c') :
    c'.calls = c.calls := by
  unfold passTokenOn at h
  simp only at h
  cases ht : transmit c now (sendToken (UInt8.ofNat c.s.ring.ns) (UInt8.ofNat c.s.p.address)) with
  | panic s => rw [ht] at h; cases h
  | ok c1 =>
    rw [ht] at h
    simp only [Res.bind] at h
    obtain ⟨_, rfl⟩ := transmit_cases _ _ _ _ ht
    split at h
    · rw [tr_calls _ _ _ c' h]; rfl
    · rw [tr_calls _ _ _ c' h]; rfl

theorem doPassToken_calls (c : Ctx) (now : Int) (c' : Ctx) (h : doPassToken c now = .ok c') : c'.calls = c.calls := by
  unfold doPassToken at h
  split at h
  · rename_i doGap att hst
    simp only at h
    by_cases hw : (waitSyncPause c.s now).2 = true
    · rw [if_pos hw] at h; cases h; rfl
    · rw [if_neg hw] at h
      cases doGap with
      | false =>
        simp only [Bool.false_eq_true, if_false] at h
        rw [passTokenOn_calls _ now att c' h]
      | true =>
        simp only [if_true] at h
        split at h
        · cases h
        · rename_i g hg
          rcases htg : transmitGapPoll (upd { c with s := (waitSyncPause c.s now).1 } fun s => { s with gap := g }) now with ⟨r, o⟩
          rw [htg] at h
          cases r with
          | panic s => simp only at h; cases h
          | ok c2 =>
            have hc2 : c2.calls = c.calls := by
              unfold transmitGapPoll at htg
              split at htg
              · split at htg
                · cases htg
                · split at htg
                  · injection htg with h1 h2
                    obtain ⟨_, rfl⟩ := transmit_cases _ _ _ _ h1
                    rfl
                  · cases htg
              · cases htg; rfl
            cases o with
            | none => simp only at h; rw [passTokenOn_calls _ now att c' h, hc2]
            | some a => simp only at h; rw [tr_calls _ _ _ c' h, hc2]
  · cases h

end PV
