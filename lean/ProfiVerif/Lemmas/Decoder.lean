/-
Helper lemmas for C10: the decoder refines a flat, slice-free, panic-free specification (`decodeSpec`);
locality (verdicts depend only on the announced frame) and inversion lemmas follow from it.
-/
import ProfiVerif.Lemmas.Codec
import ProfiVerif.Model.TelegramSpec
namespace PV







theorem body_eq_spec (b : Bytes) (len total : Nat) : deserializeBody b len total = bodySpec b len total := by
  unfold deserializeBody bodySpec
  split
  · rfl
  · rename_i hlen
    rw [if_neg (by omega)]
    simp only
    cases hfc : FunctionCode.fromByte (b.getD 3 0) with
    | error e => rfl
    | ok fc =>
      simp only
      rw [if_neg (by omega)]
      have hl4 : (b.drop 4).length = b.length - 4 := by simp
      have hne : ¬ (b.length - 4 = 0) := by omega
      have hne5 : ¬ (b.length - 5 = 0) := by omega
      by_cases hD : b[1]?.getD 0 &&& 128 = 0 <;> by_cases hS : b[2]?.getD 0 &&& 128 = 0
      · simp [takeSap, finishData, sapCount, headerOf, hasDsapBit, hasSsapBit, hD, hS]
        rw [if_neg (by omega), if_neg (by omega)]
        simp only [Nat.add_comm, Nat.add_assoc]
      · simp [takeSap, finishData, sapCount, headerOf, hasDsapBit, hasSsapBit, hD, hS, hne]
        by_cases hl0 : len = 0
        · simp [hl0]
        · obtain ⟨m, rfl⟩ : ∃ m, len = m + 1 := ⟨len - 1, by omega⟩
          simp
          rw [if_neg (by omega), if_neg (by omega)]
          simp only [Nat.add_comm, Nat.add_assoc]
      · simp [takeSap, finishData, sapCount, headerOf, hasDsapBit, hasSsapBit, hD, hS, hne]
        by_cases hl0 : len = 0
        · simp [hl0]
        · obtain ⟨m, rfl⟩ : ∃ m, len = m + 1 := ⟨len - 1, by omega⟩
          simp
          rw [if_neg (by omega), if_neg (by omega)]
          simp only [Nat.add_comm, Nat.add_assoc]
      · simp [takeSap, finishData, sapCount, headerOf, hasDsapBit, hasSsapBit, hD, hS, hne]
        by_cases hl0 : len = 0
        · simp [hl0]
        · by_cases hl1 : len = 1
          · subst hl1
            have : ¬ (List.drop 5 b = []) := by
              intro h; have := congrArg List.length h; simp at this; omega
            simp [this]
          · obtain ⟨m, rfl⟩ : ∃ m, len = m + 2 := ⟨len - 2, by omega⟩
            have : ¬ (List.drop 5 b = []) := by
              intro h; have := congrArg List.length h; simp at this; omega
            simp [this]
            rw [if_neg (by omega), if_neg (by omega)]
            have e : ¬ (m + 2 < 2) := by omega
            simp [e, Nat.add_assoc]
            have e1 : 6 + m = m + 6 := by omega
            have e2 : 6 + (m + 1) = m + 7 := by omega
            rw [e1, e2]



theorem data_eq_spec (bs : Bytes) : deserializeData bs = dataSpec bs := by
  unfold deserializeData dataSpec
  simp only [body_eq_spec]
  split
  · rfl
  · rename_i h
    have : (bs.drop 3).getD 0 0 = bs.getD 3 0 := by
      simp [List.getD_eq_getElem?_getD]
    simp only [this]



theorem decode_eq_spec (bs : Bytes) : deserialize bs = decodeSpec bs := by
  unfold deserialize decodeSpec
  simp only [data_eq_spec]
  split
  · rfl
  · split
    · rfl
    · split
      · rename_i h4
        unfold deserializeToken
        split
        · rfl
        · rw [if_neg (by simpa using h4)]
      · rfl

theorem getD_append_lt (b ext : Bytes) (i : Nat) (h : i < b.length) :
    (b ++ ext).getD i 0 = b.getD i 0 := by
  simp [List.getD_eq_getElem?_getD, List.getElem?_append_left h]

theorem take_drop_append (b ext : Bytes) (n m : Nat) (h : n + m ≤ b.length) :
    ((b ++ ext).drop n).take m = (b.drop n).take m := by
  rw [List.drop_append_of_le_length (by omega), List.take_append_of_le_length (by simp; omega)]

theorem bodySpec_append (b ext : Bytes) (len total : Nat) (h : len + 6 ≤ b.length) :
    bodySpec (b ++ ext) len total = bodySpec b len total := by
  have g := fun i (hi : i < b.length) => getD_append_lt b ext i hi
  have hD : hasDsapBit (b ++ ext) = hasDsapBit b := by unfold hasDsapBit; rw [g 1 (by omega)]
  have hS : hasSsapBit (b ++ ext) = hasSsapBit b := by unfold hasSsapBit; rw [g 2 (by omega)]
  have hk : sapCount (b ++ ext) = sapCount b := by unfold sapCount; rw [hD, hS]
  have hk2 : sapCount b ≤ 2 := by unfold sapCount; split <;> split <;> omega
  have hh : ∀ fc, headerOf (b ++ ext) fc = headerOf b fc := by
    intro fc; unfold headerOf
    rw [hD, hS, g 1 (by omega), g 2 (by omega), g 4 (by omega)]
    have : (b ++ ext).getD (if hasDsapBit b = true then 5 else 4) 0 = b.getD (if hasDsapBit b = true then 5 else 4) 0 := by
      split <;> exact g _ (by omega)
    rw [this]
  unfold bodySpec
  rw [if_neg (by simp; omega), if_neg (by omega)]
  rw [g 3 (by omega), hk, g (len + 4) (by omega), g (len + 5) (by omega), take_drop_append b ext 1 (len + 3) (by omega)]
  cases FunctionCode.fromByte (b.getD 3 0) with
  | error e => rfl
  | ok fc =>
    simp only [hh]
    by_cases hlk : len < sapCount b
    · simp [hlk]
    · rw [take_drop_append b ext (4 + sapCount b) (len - sapCount b) (by omega)]

theorem bodySpec_needMore_iff (b : Bytes) (len total : Nat) :
    bodySpec b len total = .needMore ↔ b.length < len + 6 := by
  unfold bodySpec
  constructor
  · intro h
    split at h
    · assumption
    · split at h
      · cases h
      · repeat' split at h
        all_goals cases h
  · intro h; simp [h]


theorem dataSpec_append (bs ext : Bytes) (h : dataSpec bs ≠ .needMore) :
    dataSpec (bs ++ ext) = dataSpec bs := by
  have g := fun i (hi : i < bs.length) => getD_append_lt bs ext i hi
  unfold dataSpec at h ⊢
  by_cases h6 : bs.length < 6
  · simp [h6] at h
  · rw [if_neg h6] at h ⊢
    rw [if_neg (by simp; omega)]
    simp only [g 0 (by omega), g 1 (by omega), g 2 (by omega), g 3 (by omega)] at h ⊢
    split
    · exact bodySpec_append _ _ _ _ (by omega)
    · rename_i h1
      rw [if_neg h1] at h
      split
      · rename_i h2
        rw [if_pos h2] at h
        split
        · rfl
        · rename_i ha
          rw [if_neg ha] at h
          split
          · rfl
          · rename_i hb
            rw [if_neg hb] at h
            split
            · rfl
            · rename_i hc
              rw [if_neg hc] at h
              rw [List.drop_append_of_le_length (by omega)]
              apply bodySpec_append
              have : ¬ ((bs.drop 3).length < (bs.getD 1 0).toNat - 3 + 6) :=
                fun hh => h ((bodySpec_needMore_iff _ _ _).mpr hh)
              omega
      · rename_i h2
        rw [if_neg h2] at h
        split
        · rename_i h3
          rw [if_pos h3] at h
          have : ¬ (bs.length < 8 + 6) := fun hh => h ((bodySpec_needMore_iff _ _ _).mpr hh)
          exact bodySpec_append _ _ _ _ (by omega)
        · rfl

/-- A verdict other than "need more data" is never revised when more bytes arrive. -/
theorem decodeSpec_append (bs ext : Bytes) (h : decodeSpec bs ≠ .needMore) :
    decodeSpec (bs ++ ext) = decodeSpec bs := by
  unfold decodeSpec at h ⊢
  by_cases h0 : bs.length = 0
  · simp [h0] at h
  · have g0 : (bs ++ ext).getD 0 0 = bs.getD 0 0 := getD_append_lt _ _ _ (by omega)
    rw [if_neg h0] at h
    rw [if_neg (by rw [List.length_append]; omega)]
    simp only [g0] at h ⊢
    split
    · rfl
    · rename_i h1
      rw [if_neg h1] at h
      split
      · rename_i h2
        rw [if_pos h2] at h
        by_cases h3 : bs.length < 3
        · simp [h3] at h
        · rw [if_neg h3, if_neg (by simp; omega), getD_append_lt _ _ _ (by omega), getD_append_lt _ _ _ (by omega)]
      · rename_i h2
        rw [if_neg h2] at h
        split
        · rename_i h3
          rw [if_pos h3] at h
          exact dataSpec_append _ _ h
        · rfl


/-! ### Inversion of `accept` -/

theorem bodySpec_accept_inv (b : Bytes) (len total : Nat) (t : Telegram) (n : Nat)
    (h : bodySpec b len total = .accept t n) :
    n = total ∧ len + 6 ≤ b.length ∧ sapCount b ≤ len ∧
    b.getD (len + 4) 0 = checksum ((b.drop 1).take (len + 3)) ∧
    b.getD (len + 5) 0 = ED ∧
    ∃ fc, FunctionCode.fromByte (b.getD 3 0) = .ok fc ∧
      t = .data (headerOf b fc) ((b.drop (4 + sapCount b)).take (len - sapCount b)) := by
  unfold bodySpec at h
  split at h
  · cases h
  · rename_i hl
    split at h
    · cases h
    · rename_i fc hfc
      split at h
      · cases h
      · rename_i hk
        split at h
        · cases h
        · rename_i hcs
          split at h
          · cases h
          · rename_i hed
            simp only [Decoded.accept.injEq] at h
            refine ⟨h.2.symm, by omega, by omega, by simpa using hcs, by simpa using hed, fc, hfc, h.1.symm⟩



theorem getD_drop (bs : Bytes) (k i : Nat) : (bs.drop k).getD i 0 = bs.getD (k + i) 0 := by
  simp [List.getD_eq_getElem?_getD]

theorem dataSpec_accept_inv (bs : Bytes) (t : Telegram) (n : Nat) (h : dataSpec bs = .accept t n) :
    ∃ off len, Shape bs off len ∧ n = off + len + 6 ∧ n ≤ bs.length ∧
      bs.getD (off + len + 4) 0 = checksum ((bs.drop (off + 1)).take (len + 3)) ∧
      bs.getD (off + len + 5) 0 = ED ∧
      ∃ fc, FunctionCode.fromByte (bs.getD (off + 3) 0) = .ok fc ∧
        t = .data (headerOf (bs.drop off) fc)
          (((bs.drop off).drop (4 + sapCount (bs.drop off))).take (len - sapCount (bs.drop off))) := by
  unfold dataSpec at h
  split at h
  · cases h
  · simp only at h
    split at h
    · rename_i h1
      obtain ⟨hn, hl, -, hcs, hed, fc, hfc, ht⟩ := bodySpec_accept_inv _ _ _ _ _ h
      exact ⟨0, 0, Or.inl ⟨h1, rfl, rfl⟩, by omega, by omega, by simpa using hcs, by simpa using hed, fc,
        by simpa using hfc, by simpa using ht⟩
    · split at h
      · rename_i h2
        split at h
        · cases h
        · rename_i ha
          split at h
          · cases h
          · rename_i hb
            split at h
            · cases h
            · rename_i hc
              obtain ⟨hn, hl, -, hcs, hed, fc, hfc, ht⟩ := bodySpec_accept_inv _ _ _ _ _ h
              have hb' : ¬ ((bs.getD 1 0).toNat < 3) := by
                intro hh; apply hb; rw [UInt8.lt_iff_toNat_lt]; simpa using hh
              simp only [List.length_drop] at hl
              refine ⟨3, (bs.getD 1 0).toNat - 3, Or.inr (Or.inr ⟨h2, rfl, by simpa using ha, hb, by simpa using hc, rfl⟩),
                by omega, by omega, ?_, ?_, fc, ?_, ht⟩
              · rw [getD_drop] at hcs
                rw [List.drop_drop] at hcs
                have e : 3 + ((bs.getD 1 0).toNat - 3 + 4) = 3 + ((bs.getD 1 0).toNat - 3) + 4 := by omega
                rw [e] at hcs
                exact hcs
              · rw [getD_drop] at hed
                have e : 3 + ((bs.getD 1 0).toNat - 3 + 5) = 3 + ((bs.getD 1 0).toNat - 3) + 5 := by omega
                rw [e] at hed
                exact hed
              · rw [getD_drop] at hfc; exact hfc
      · split at h
        · rename_i h3
          obtain ⟨hn, hl, -, hcs, hed, fc, hfc, ht⟩ := bodySpec_accept_inv _ _ _ _ _ h
          exact ⟨0, 8, Or.inr (Or.inl ⟨h3, rfl, rfl⟩), by omega, by omega, by simpa using hcs, by simpa using hed, fc,
            by simpa using hfc, by simpa using ht⟩
        · cases h

theorem foldl_add_acc (l : Bytes) (a : UInt8) : l.foldl (· + ·) a = a + l.foldl (· + ·) 0 := by
  induction l generalizing a with
  | nil => simp
  | cons x xs ih =>
    simp only [List.foldl_cons]
    rw [ih (a + x), ih (0 + x)]
    simp [UInt8.add_assoc]

theorem checksum_cons (x : UInt8) (l : Bytes) : checksum (x :: l) = x + checksum l := by
  unfold checksum
  simp only [List.foldl_cons]
  rw [foldl_add_acc]
  simp

/-- Replacing one byte by a different one changes the checksum. -/
theorem checksum_set_ne (l : Bytes) (i : Nat) (v : UInt8) (hi : i < l.length) (hv : v ≠ l.getD i 0) :
    checksum (l.set i v) ≠ checksum l := by
  induction l generalizing i with
  | nil => simp at hi
  | cons x xs ih =>
    cases i with
    | zero =>
      simp only [List.set_cons_zero, checksum_cons]
      simp at hv
      intro h
      exact hv ((UInt8.add_left_inj _).mp h)
    | succ j =>
      simp only [List.set_cons_succ, checksum_cons]
      intro h
      have := (UInt8.add_right_inj _).mp h
      exact ih j (by simpa using hi) (by simpa using hv) this

/-! ### One substituted byte inside a buffer -/

theorem getD_set_append_ne (F ext : Bytes) (i j : Nat) (v : UInt8) (hj : j < F.length) (hne : j ≠ i) :
    (F.set i v ++ ext).getD j 0 = F.getD j 0 := by
  rw [getD_append_lt _ _ _ (by simpa using hj)]
  simp [List.getD_eq_getElem?_getD, List.getElem?_set, Ne.symm hne]

theorem getD_set_append_eq (F ext : Bytes) (i : Nat) (v : UInt8) (hi : i < F.length) :
    (F.set i v ++ ext).getD i 0 = v := by
  rw [getD_append_lt _ _ _ (by simpa using hi)]
  simp [List.getD_eq_getElem?_getD, List.getElem?_set, hi]

theorem region_set_append_out (F ext : Bytes) (i a m : Nat) (v : UInt8) (ham : a + m ≤ F.length)
    (hout : i < a ∨ a + m ≤ i) : ((F.set i v ++ ext).drop a).take m = (F.drop a).take m := by
  rw [take_drop_append _ _ _ _ (by simpa using ham)]
  apply List.ext_getElem?
  intro k
  simp only [List.getElem?_take, List.getElem?_drop, List.getElem?_set]
  split
  · split
    · omega
    · rfl
  · rfl

theorem region_set_append_in (F ext : Bytes) (i a m : Nat) (v : UInt8) (ham : a + m ≤ F.length)
    (h1 : a ≤ i) (h2 : i < a + m) :
    ((F.set i v ++ ext).drop a).take m = ((F.drop a).take m).set (i - a) v := by
  rw [take_drop_append _ _ _ _ (by simpa using ham)]
  apply List.ext_getElem?
  intro k
  simp only [List.getElem?_take, List.getElem?_drop, List.getElem?_set, List.length_take, List.length_drop]
  by_cases hk : k < m
  · simp only [hk, if_true]
    by_cases hik : i = a + k
    · subst hik
      have e : a + k - a = k := by omega
      have e2 : k < min m (F.length - a) := by omega
      have e3 : a + k < F.length := by omega
      simp [e, e2, e3]
    · have : ¬ (i - a = k) := by omega
      simp [hik, this]
  · simp only [hk, if_false]
    split
    · exfalso; omega
    · rfl

theorem region_getD (F : Bytes) (i a m : Nat) (ham : a + m ≤ F.length) (h1 : a ≤ i) (h2 : i < a + m) :
    ((F.drop a).take m).getD (i - a) 0 = F.getD i 0 := by
  obtain ⟨k, rfl⟩ : ∃ k, i = a + k := ⟨i - a, by omega⟩
  have e : a + k - a = k := by omega
  have e2 : k < m := by omega
  simp [List.getD_eq_getElem?_getD, List.getElem?_take, List.getElem?_drop, e, e2]







theorem decodeSpec_reject_of_not_start (bs : Bytes) (h0 : bs.length ≠ 0) (hv : NotStartCode (bs.getD 0 0)) :
    decodeSpec bs = .reject := by
  obtain ⟨a, b, c, d, e⟩ := hv
  unfold decodeSpec
  rw [if_neg h0]
  simp only
  rw [if_neg a, if_neg b, if_neg (by rintro (h | h | h) <;> contradiction)]

/-- Core of C10's last sentence: take any buffer `F` that is exactly one valid data frame; substitute one
byte (not: byte 0 by another start code); whatever follows, the decoder never accepts anything. -/
theorem data_single_byte (F ext : Bytes) (t : Telegram) (hF : dataSpec F = .accept t F.length)
    (hsd : F.getD 0 0 = SD1 ∨ F.getD 0 0 = SD2 ∨ F.getD 0 0 = SD3)
    (i : Nat) (v : UInt8) (hi : i < F.length) (hv : v ≠ F.getD i 0)
    (hK : i = 0 → NotStartCode v) (t' : Telegram) (n' : Nat) :
    decodeSpec (F.set i v ++ ext) ≠ .accept t' n' := by
  intro hacc
  have hlen : (F.set i v ++ ext).length ≠ 0 := by rw [List.length_append, List.length_set]; omega
  by_cases hi0 : i = 0
  · subst hi0
    have := decodeSpec_reject_of_not_start (F.set 0 v ++ ext) hlen (by
      rw [getD_set_append_eq _ _ _ _ hi]; exact hK rfl)
    rw [this] at hacc; cases hacc
  · -- first byte unchanged
    have h0 : (F.set i v ++ ext).getD 0 0 = F.getD 0 0 := getD_set_append_ne _ _ _ _ _ (by omega) (by omega)
    have hsc : F.getD 0 0 ≠ SC := by rcases hsd with h | h | h <;> rw [h] <;> decide
    have hs4 : F.getD 0 0 ≠ SD4 := by rcases hsd with h | h | h <;> rw [h] <;> decide
    have hd : dataSpec (F.set i v ++ ext) = .accept t' n' := by
      unfold decodeSpec at hacc
      rw [if_neg hlen] at hacc
      simp only [h0] at hacc
      rw [if_neg hsc, if_neg hs4, if_pos hsd] at hacc
      exact hacc
    obtain ⟨off, len, hsh, hn, -, hcs, hed, -⟩ := dataSpec_accept_inv _ _ _ hF
    obtain ⟨off', len', hsh', -, -, hcs', hed', -⟩ := dataSpec_accept_inv _ _ _ hd
    have g := fun j (hj : j < F.length) (hne : j ≠ i) => getD_set_append_ne F ext i j v hj hne
    have ge := getD_set_append_eq F ext i v hi
    -- same header, hence same shape, and the substituted byte lies behind the header
    have key : off' = off ∧ len' = len ∧ off + 1 ≤ i := by
      rcases hsh with ⟨s, ho, hl⟩ | ⟨s, ho, hl⟩ | ⟨s, ho, e12, hge, e3, hl⟩
      · rcases hsh' with ⟨s', ho', hl'⟩ | ⟨s', ho', hl'⟩ | ⟨s', _⟩
        · omega
        · rw [h0, s] at s'; exact absurd s' (by decide)
        · rw [h0, s] at s'; exact absurd s' (by decide)
      · rcases hsh' with ⟨s', ho', hl'⟩ | ⟨s', ho', hl'⟩ | ⟨s', _⟩
        · rw [h0, s] at s'; exact absurd s' (by decide)
        · omega
        · rw [h0, s] at s'; exact absurd s' (by decide)
      · rcases hsh' with ⟨s', ho', hl'⟩ | ⟨s', ho', hl'⟩ | ⟨s', ho', e12', hge', e3', hl'⟩
        · rw [h0, s] at s'; exact absurd s' (by decide)
        · rw [h0, s] at s'; exact absurd s' (by decide)
        · have hF6 : 6 ≤ F.length := by omega
          by_cases i1 : i = 1
          · subst i1
            rw [ge, g 2 (by omega) (by omega)] at e12'
            exact absurd (e12'.trans e12.symm) hv
          · by_cases i2 : i = 2
            · subst i2
              rw [ge, g 1 (by omega) (by omega)] at e12'
              exact absurd (e12'.symm.trans e12) hv
            · by_cases i3 : i = 3
              · subst i3
                rw [ge] at e3'
                exact absurd (e3'.trans e3.symm) hv
              · rw [g 1 (by omega) (by omega)] at hl'
                omega
    obtain ⟨rfl, rfl, hi1⟩ := key
    by_cases c1 : i = off' + len' + 5
    · subst c1
      rw [ge] at hed'
      exact hv (hed'.trans hed.symm)
    · by_cases c2 : i = off' + len' + 4
      · subst c2
        rw [ge, region_set_append_out _ _ _ _ _ _ (by omega) (Or.inr (by omega))] at hcs'
        exact hv (hcs'.trans hcs.symm)
      · rw [g _ (by omega) (by omega),
          region_set_append_in _ _ _ _ _ _ (by omega) (by omega) (by omega)] at hcs'
        rw [hcs] at hcs'
        refine checksum_set_ne _ (i - (off' + 1)) v ?_ ?_ hcs'.symm
        · simp; omega
        · rw [region_getD _ _ _ _ (by omega) (by omega) (by omega)]; exact hv

end PV
