/-
Timed ring, N stations, layer 3: N station models on the byte-accurate bus of `Model/Net.lean`, stable ring
with member list `M`, no application traffic.  Side conditions, the listener condition `LOk`, the invariant
`NInv`.  Helper lemmas.
-/
import ProfiVerif.Lemmas.TimedRingStream
import ProfiVerif.Lemmas.TimedRingApps

namespace PV
open StationGap TokenRing

/-! ## The ring -/

/-- The stable ring: member list `M` (ascending, valid addresses), `n` stations whose addresses `adr i` are
exactly the members, pairwise different; at least two members (nobody is its own successor). -/
structure RingCfg (M : List Nat) (adr : Nat → Nat) (n : Nat) : Prop where
  ring : IsRing M
  mem : ∀ i, i < n → adr i ∈ M
  inj : ∀ i j, i < n → j < n → adr i = adr j → i = j
  surj : ∀ a, a ∈ M → ∃ i, i < n ∧ adr i = a
  two : ∀ a, a ∈ M → cycSucc a M ≠ a

theorem RingCfg.lt {M : List Nat} {adr : Nat → Nat} {n : Nat} (h : RingCfg M adr n) (i : Nat) (hi : i < n) : adr i < 126 := by
  have := h.ring.bound _ (h.mem i hi); omega

theorem RingCfg.pred_succ {M : List Nat} {adr : Nat → Nat} {n : Nat} (h : RingCfg M adr n) (a : Nat) (ha : a ∈ M) :
    cycPred (cycSucc a M) M = a := cycPred_cycSucc a M h.ring.asc ha

/-- Index of the successor of station `i`. -/
theorem RingCfg.succ_idx {M : List Nat} {adr : Nat → Nat} {n : Nat} (h : RingCfg M adr n) (i : Nat) (hi : i < n) :
    ∃ s, s < n ∧ adr s = cycSucc (adr i) M ∧ s ≠ i := by
  obtain ⟨s, hs, e⟩ := h.surj _ (cycSucc_mem _ M (h.mem i hi))
  refine ⟨s, hs, e, ?_⟩
  intro hsi
  subst hsi
  exact h.two _ (h.mem s hs) e.symm

/-! ## Telegrams on the bus -/

/-- The telegram a transmission carries (what the decoder makes of its bytes). -/
def telOf (t : Transmission) : Telegram :=
  match deserialize t.bytes with
  | .accept tg _ => tg
  | _ => .sc

theorem telOf_token (t : Transmission) (a : Nat) (M : List Nat) (h : t.bytes = tokenBytes (cycSucc a M) a) :
    telOf t = tokTel M a := by
  unfold telOf
  have := decode_wire (tokTel M a) trivial []
  rw [List.append_nil, tokTel_wire, ← h] at this
  rw [this]

theorem telOf_req (t : Transmission) (g a : Nat) (hg : g < 128) (ha : a < 128) (h : t.bytes = statusRequestBytes g a) :
    telOf t = reqTel g a := by
  unfold telOf
  have := decode_wire (reqTel g a) (reqTel_valid g a hg ha) []
  rw [List.append_nil, reqTel_wire, ← h] at this
  rw [this]

theorem telOf_app (t : Transmission) (h : Header) (pdu : Bytes) (hb : t.bytes = frameSpec h pdu) (hP : AppP h pdu)
    (hl : h.lengthByte pdu.length ≤ 249) : telOf t = .data h pdu := by
  unfold telOf
  have := decode_wire (.data h pdu) ⟨hP.1, hP.2.1, hl⟩ []
  rw [List.append_nil] at this
  have e : (Telegram.data h pdu).wire = t.bytes := hb.symm
  rw [e] at this
  rw [this]

theorem frameSpec_ne_token (h : Header) (pdu : Bytes) (a b : Nat) : frameSpec h pdu ≠ tokenBytes a b := by
  intro e
  have := congrArg (fun l => l.head?) e
  unfold frameSpec tokenBytes sendToken at this
  simp only at this
  split at this
  · simp [SD1, SD4] at this
  · split at this
    · simp [SD3, SD4] at this
    · simp [SD2, SD4] at this

/-- What may be on the bus of the stable ring: a token pass of a member to its successor, a GAP request
of a member to an address that is not a member, or an application telegram (`AppP`: valid addresses, not an
FDL status request). -/
def TxKind (M : List Nat) (adr : Nat → Nat) (n : Nat) (t : Transmission) : Prop :=
  ∃ i, i < n ∧ t.sender = i ∧
    (t.bytes = tokenBytes (cycSucc (adr i) M) (adr i) ∨ (∃ g, g < 126 ∧ g ∉ M ∧ t.bytes = statusRequestBytes g (adr i)) ∨
     (∃ h pdu, t.bytes = frameSpec h pdu ∧ AppP h pdu ∧ h.lengthByte pdu.length ≤ 249))

theorem TxKind.wire {M : List Nat} {adr : Nat → Nat} {n : Nat} (hR : RingCfg M adr n) {t : Transmission}
    (h : TxKind M adr n t) : t.bytes = (telOf t).wire ∧ (telOf t).Valid ∧ 0 < t.bytes.length := by
  obtain ⟨i, hi, -, hb | ⟨g, hg, -, hb⟩ | ⟨h0, pdu, hb, hP, hl⟩⟩ := h
  · rw [telOf_token t _ M hb, tokTel_wire]
    exact ⟨hb, trivial, by rw [hb]; show 0 < 3; omega⟩
  · have ha := hR.lt i hi
    rw [telOf_req t g _ (by omega) (by omega) hb, reqTel_wire]
    exact ⟨hb, reqTel_valid _ _ (by omega) (by omega), by rw [hb, statusRequestBytes_length]; omega⟩
  · rw [telOf_app t h0 pdu hb hP hl]
    refine ⟨hb, ⟨hP.1, hP.2.1, hl⟩, ?_⟩
    rw [hb, frame_length]
    unfold Header.telegramLen
    simp only
    split <;> omega

/-- A transmission that station `j` (not its sender) merely overhears. -/
theorem TxKind.foreign {M : List Nat} {adr : Nat → Nat} {n : Nat} (hR : RingCfg M adr n) {t : Transmission}
    (h : TxKind M adr n t) (j : Nat) (hj : j < n) (hs : t.sender ≠ j)
    (hnot : ∀ a, t.bytes ≠ tokenBytes (adr j) a) : Foreign M (adr j) (telOf t) := by
  obtain ⟨i, hi, hsi, hb | ⟨g, hg, hgM, hb⟩ | ⟨h0, pdu, hb, hP, hl⟩⟩ := h
  · left
    refine ⟨adr i, hR.mem i hi, ?_, ?_, telOf_token t _ M hb⟩
    · intro e; exact hs (hsi.trans (hR.inj i j hi hj e))
    · intro e; exact hnot (adr i) (by rw [hb, e])
  · right; left
    have ha := hR.lt i hi
    refine ⟨g, adr i, hg, ha, ?_, telOf_req t g _ (by omega) (by omega) hb⟩
    intro e; exact hgM (e ▸ hR.mem j hj)
  · right; right
    exact ⟨h0, pdu, telOf_app t h0 pdu hb hP hl, hP.2.2⟩

/-! ## Side conditions -/

/-- Longest time between the end of a transmission and the start of the next one. -/
def Cfg.gmax (c : Cfg) : Nat := c.slot + 2 * c.P + c.b33

structure StOkN (cfg : Cfg) (M : List Nat) (st : NetStation) (a : Nat) : Prop where
  online : st.online = true
  alive : st.dead = false
  apps : AnsOk AppP st.apps
  inv : Inv st.s st.apps
  son : st.s.online = true
  rate : st.s.p.rate = cfg.rate
  slotBits : st.s.p.slotBits = cfg.slotBits
  addr : st.s.p.address = a
  view : RingView M a st.s.ring
  tto : cfg.gmax + cfg.ce 0 + 2 ≤ st.s.p.tokenLostTimeout

theorem StOkN.bits {cfg : Cfg} {M : List Nat} {st : NetStation} {a : Nat} (h : StOkN cfg M st a) (k : Nat) :
    st.s.p.bits k = bitsToTime cfg.rate k := by unfold Params.bits; rw [h.rate]
theorem StOkN.b33 {cfg : Cfg} {M : List Nat} {st : NetStation} {a : Nat} (h : StOkN cfg M st a) : st.s.p.bits 33 = cfg.b33 := h.bits 33
theorem StOkN.slot {cfg : Cfg} {M : List Nat} {st : NetStation} {a : Nat} (h : StOkN cfg M st a) : st.s.p.slotTime = cfg.slot := by
  unfold Params.slotTime Cfg.slot; rw [h.bits, h.slotBits]

theorem StOkN.step {cfg : Cfg} {M : List Nat} {st : NetStation} {a : Nat} (h : StOkN cfg M st a) (now : Int) (phy : Bool)
    (rx : Bytes) (c : Ctx) (hp : st.s.poll st.apps now phy rx = .ok c) (h1 : c.s.p = st.s.p)
    (h2 : RingView M a c.s.ring) (h3 : c.s.online = true) (h4 : AnsOk AppP c.apps) : StOkN cfg M (upSt st c) a := by
  obtain ⟨c', hc', hinv', hlen⟩ := pollInner_good { s := st.s, apps := st.apps, rx := rx } now phy h.inv rfl
  have : c' = c := by
    have hp' : pollInner { s := st.s, apps := st.apps, rx := rx } now phy = .ok c := hp
    rw [hc'] at hp'; cases hp'; rfl
  subst this
  unfold upSt
  exact ⟨h.online, h.alive, h4, hinv', h3, by simp only [h1]; exact h.rate, by simp only [h1]; exact h.slotBits,
    by simp only [h1]; exact h.addr, h2, by simp only [h1]; exact h.tto⟩

/-- End of a transmission in terms of the configuration constants. -/
def cEnd (cfg : Cfg) (t : Transmission) : Int := t.start + ((cfg.ce (t.bytes.length - 1) : Nat) : Int)

structure LogOk (cfg : Cfg) (M : List Nat) (adr : Nat → Nat) (n : Nat) (b : Bus) : Prop where
  rate : b.rate = cfg.rate
  corrupt : b.corrupt = []
  drops : b.drops = []
  seen : b.seen.length = n
  chained : CChained cfg b.txs
  live : ∀ t ∈ b.txs, t.dropped = false
  kinds : ∀ t ∈ b.txs, TxKind M adr n t

theorem LogOk.txEnd {cfg : Cfg} {M : List Nat} {adr : Nat → Nat} {n : Nat} {b : Bus} (h : LogOk cfg M adr n b)
    (t : Transmission) : b.txEnd t = cEnd cfg t := by
  unfold Bus.txEnd cEnd; rw [byteEnd_cfg b cfg h.rate]

theorem LogOk.busChained {cfg : Cfg} {M : List Nat} {adr : Nat → Nat} {n : Nat} {b : Bus} (h : LogOk cfg M adr n b) :
    b.Chained b.txs := by
  unfold Bus.Chained
  have := h.chained
  unfold CChained at this
  refine this.imp ?_
  intro o t hot
  rw [h.txEnd]; exact hot

/-! ## A listening station -/

/-- Arrival time of the next character station `j` has not received yet: of the first not completely
delivered transmission, or — if it has everything — not before the next transmission, which starts by `H`. -/
def nextArr (cfg : Cfg) (H : Int) (rs : List Transmission) (seen : Int) : Int :=
  match rs with
  | [] => H + ((cfg.ce 0 : Nat) : Int)
  | t :: _ => t.start + ((cfg.ce (cvis cfg t seen) : Nat) : Int)

/-- **The listener condition** for station `j` (record `st`): side conditions; the log splits into `dn`
(sent by `j` or completely delivered to it) and `rs` (other stations' transmissions not yet consumed); its
buffer holds exactly what has arrived of `rs`, the head of `rs` is incomplete; among `rs` only the last
transmission of the log may be a token for `j`; it is idle or still supervises its own pass, and the next
character arrives before its deadline. -/
def LOk (cfg : Cfg) (M : List Nat) (adr : Nat → Nat) (b : Bus) (H Lo : Int) (j : Nat) (st : NetStation) : Prop :=
  StOkN cfg M st (adr j) ∧
  ∃ (dn rs : List Transmission) (idle : Bool) (l : Int),
    b.txs = dn ++ rs ∧
    (∀ o ∈ dn, o.sender = j ∨ cEnd cfg o ≤ b.seen.getD j 0) ∧
    (∀ t ∈ rs, t.sender ≠ j) ∧
    st.rx = arrived cfg rs (b.seen.getD j 0) ∧ st.s.pendingBytes ≤ (arrived cfg rs (b.seen.getD j 0)).length ∧
    (∀ o ∈ b.txs, o.sender = j → cEnd cfg o ≤ l + 1) ∧
    (∀ t rest, rs = t :: rest → cvis cfg t (b.seen.getD j 0) < t.bytes.length) ∧
    st.s.lastBusActivity = some l ∧ (l ≤ b.seen.getD j 0 ∨ ((∀ t ∈ rs, l < t.start) ∧ l ≤ Lo)) ∧
    (∀ t ∈ rs.dropLast, ∀ a, t.bytes ≠ tokenBytes (adr j) a) ∧
    ((∃ t a, b.txs.getLast? = some t ∧ t.bytes = tokenBytes (adr j) a) → rs ≠ []) ∧
    (if idle = true then
      (∃ np coll, st.s.st = .activeIdle none np coll) ∧
        nextArr cfg H rs (b.seen.getD j 0) < l + (st.s.p.tokenLostTimeout : Nat)
     else st.s.st = .checkTokenPass .first ∧ nextArr cfg H rs (b.seen.getD j 0) ≤ l + (cfg.slot : Nat))

/-- Another station was polled: nothing changes for `j`. -/
theorem LOk.other {cfg : Cfg} {M : List Nat} {adr : Nat → Nat} {b : Bus} {H Lo : Int} {j : Nat} {st : NetStation}
    (h : LOk cfg M adr b H Lo j st) (i : Nat) (now : Int) (hij : i ≠ j) :
    LOk cfg M adr { b with seen := b.seen.set i now } H Lo j st := by
  obtain ⟨hok, dn, rs, idle, l, h1, h2, h3, h4, h5, h0, h6, h7, h8, h9, hF, h10⟩ := h
  refine ⟨hok, dn, rs, idle, l, h1, ?_⟩
  simp only
  rw [seen_set_other b i j now hij]
  exact ⟨h2, h3, h4, h5, h0, h6, h7, h8, h9, hF, h10⟩

/-- The horizon came closer / the lower bound moved on. -/
theorem LOk.mono {cfg : Cfg} {M : List Nat} {adr : Nat → Nat} {b : Bus} {H Lo H' Lo' : Int} {j : Nat} {st : NetStation}
    (h : LOk cfg M adr b H Lo j st) (hH : H' ≤ H) (hLo : Lo ≤ Lo') : LOk cfg M adr b H' Lo' j st := by
  obtain ⟨hok, dn, rs, idle, l, h1, h2, h3, h4, h5, h0, h6, h7, h8, h9, hF, h10⟩ := h
  refine ⟨hok, dn, rs, idle, l, h1, h2, h3, h4, h5, h0, h6, h7, ?_, h9, hF, ?_⟩
  · rcases h8 with h8 | ⟨h8, h8'⟩
    · exact .inl h8
    · exact .inr ⟨h8, by omega⟩
  · have hn : nextArr cfg H' rs (b.seen.getD j 0) ≤ nextArr cfg H rs (b.seen.getD j 0) := by
      unfold nextArr
      cases rs with
      | nil => simp only; omega
      | cons t r => exact Int.le_refl _
    cases idle with
    | true =>
      simp only [if_true] at h10 ⊢
      exact ⟨h10.1, by omega⟩
    | false =>
      simp only [Bool.false_eq_true, if_false] at h10 ⊢
      exact ⟨h10.1, by omega⟩

theorem arrived_append (cfg : Cfg) (r1 r2 : List Transmission) (a : Int) :
    arrived cfg (r1 ++ r2) a = arrived cfg r1 a ++ arrived cfg r2 a := by simp [arrived]

theorem mem_dropLast_or_last {α : Type} (l : List α) (x : α) (hx : x ∈ l) : x ∈ l.dropLast ∨ l.getLast? = some x := by
  induction l with
  | nil => cases hx
  | cons y ys ih =>
    cases ys with
    | nil =>
      right
      simp only [List.mem_singleton] at hx
      subst hx; rfl
    | cons z zs =>
      rcases List.mem_cons.1 hx with rfl | hx
      · left; simp [List.dropLast]
      · rcases ih hx with h | h
        · left; simp only [List.dropLast_cons₂, List.mem_cons]; exact .inr h
        · right; rw [List.getLast?_cons_cons]; exact h

/-- The head of `rs` being incomplete, every transmission of `rs` ends after `seen`. -/
theorem rs_end_after (cfg : Cfg) (rs : List Transmission) (seen : Int) (hc : CChained cfg rs)
    (hpos : ∀ t ∈ rs, 0 < t.bytes.length)
    (hhead : ∀ t rest, rs = t :: rest → cvis cfg t seen < t.bytes.length) : ∀ t ∈ rs, seen < cEnd cfg t := by
  intro t ht
  cases rs with
  | nil => cases ht
  | cons t0 rest =>
    have h0 := vis_lt_full _ (ce_monoI cfg) t0.bytes.length t0.start seen (hpos t0 (List.mem_cons_self ..)) (hhead t0 rest rfl)
    rcases List.mem_cons.1 ht with rfl | ht
    · exact h0
    · have := (List.pairwise_cons.1 hc).1 t ht
      unfold cEnd
      omega

/-- Station `x ≠ j` transmits at `q`: the listener condition of `j` carries over to the extended log. -/
theorem LOk.send {cfg : Cfg} {M : List Nat} {adr : Nat → Nat} {n : Nat} {b b' : Bus} {H Lo H' Lo' : Int} {j : Nat}
    {st : NetStation} (h : LOk cfg M adr b H Lo j st) (hR : RingCfg M adr n) (hlog : LogOk cfg M adr n b)
    (hr : 0 < cfg.rate)
    (x : Nat) (hxj : x ≠ j) (q : Int) (bytes : Bytes) (hbl : 0 < bytes.length)
    (hq1 : Lo < q) (hq2 : q ≤ H) (hLo : Lo ≤ Lo') (hsj : b.seen.getD j 0 ≤ q) (hP : q ≤ b.seen.getD j 0 + (cfg.P : Nat))
    (hP100 : cfg.P ≤ 100000)
    (hlast : ∀ t, b.txs.getLast? = some t → ∀ a, t.bytes ≠ tokenBytes (adr j) a)
    (htx' : b'.txs = (b.txs ++ [({ start := q, sender := x, bytes := bytes, dropped := false } : Transmission)]).filter
      fun t => decide (b.txEnd t + 100000 > q))
    (hseen : b'.seen = b.seen) : LOk cfg M adr b' H' Lo' j st := by
  obtain ⟨hok, dn, rs, idle, l, h1, h2, h3, h4, h5, h0, h6, h7, h8, h9, hF, h10⟩ := h
  have hc := hlog.chained
  rw [h1] at hc
  have hcrs : CChained cfg rs := (List.pairwise_append.1 hc).2.1
  have hposrs : ∀ t ∈ rs, 0 < t.bytes.length := fun t ht =>
    (TxKind.wire hR (hlog.kinds t (by rw [h1]; exact List.mem_append_right _ ht))).2.2
  have hafter := rs_end_after cfg rs _ hcrs hposrs h6
  have hc0 := cfg.ce_pos hr 0
  have hkeep : rs.filter (fun t => decide (b.txEnd t + 100000 > q)) = rs := by
    rw [List.filter_eq_self]
    intro t ht
    have := hafter t ht
    rw [hlog.txEnd]
    simp only [decide_eq_true_eq]
    omega
  have hkeep' : decide (b.txEnd ({ start := q, sender := x, bytes := bytes, dropped := false } : Transmission) + 100000 > q) = true := by
    rw [hlog.txEnd]
    unfold cEnd
    simp only [decide_eq_true_eq]
    omega
  have hv0 : cvis cfg ({ start := q, sender := x, bytes := bytes, dropped := false } : Transmission) (b.seen.getD j 0) = 0 := by
    apply cvis_zero
    simp only
    omega
  refine ⟨hok, dn.filter (fun t => decide (b.txEnd t + 100000 > q)),
    rs ++ [{ start := q, sender := x, bytes := bytes, dropped := false }], idle, l, ?_, ?_⟩
  · rw [htx', h1, List.filter_append, List.filter_append, hkeep]
    simp only [List.filter_cons, hkeep', if_true, List.filter_nil, List.append_assoc]
  rw [hseen]
  have harr : arrived cfg (rs ++ [({ start := q, sender := x, bytes := bytes, dropped := false } : Transmission)]) (b.seen.getD j 0) =
      arrived cfg rs (b.seen.getD j 0) := by
    rw [arrived_append]
    unfold arrived
    simp only [List.map_cons, List.map_nil, List.flatten_cons, List.flatten_nil, hv0, List.take_zero, List.append_nil]
  refine ⟨fun o ho => h2 o (List.mem_filter.1 ho).1, ?_, by rw [harr]; exact h4, by rw [harr]; exact h5, ?_, ?_, h7, ?_, ?_,
    fun _ => by simp, ?_⟩
  · intro t ht
    rcases List.mem_append.1 ht with ht | ht
    · exact h3 t ht
    · simp only [List.mem_singleton] at ht; subst ht; exact hxj
  · intro o ho hs
    rw [htx'] at ho
    have ho' := (List.mem_filter.1 ho).1
    rcases List.mem_append.1 ho' with ho' | ho'
    · exact h0 o ho' hs
    · simp only [List.mem_singleton] at ho'; subst ho'; exact absurd hs hxj
  · intro t rest hrs
    cases rs with
    | nil =>
      simp only [List.nil_append, List.cons.injEq] at hrs
      obtain ⟨rfl, -⟩ := hrs
      rw [hv0]; exact hbl
    | cons t0 r0 =>
      simp only [List.cons_append, List.cons.injEq] at hrs
      obtain ⟨rfl, -⟩ := hrs
      exact h6 _ _ rfl
  · rcases h8 with h8 | ⟨h8, h8'⟩
    · exact .inl h8
    · right
      refine ⟨fun t ht => ?_, by omega⟩
      rcases List.mem_append.1 ht with ht | ht
      · exact h8 t ht
      · simp only [List.mem_singleton] at ht; subst ht; simp only; omega
  · rw [List.dropLast_concat]
    intro t ht
    rcases mem_dropLast_or_last rs t ht with hd | hl
    · exact h9 t hd
    · apply hlast t
      rw [h1, List.getLast?_append, hl]
      rfl
  · have hn : nextArr cfg H' (rs ++ [({ start := q, sender := x, bytes := bytes, dropped := false } : Transmission)]) (b.seen.getD j 0) ≤
        nextArr cfg H rs (b.seen.getD j 0) := by
      unfold nextArr
      cases rs with
      | nil => simp only [List.nil_append, hv0]; omega
      | cons t r => exact Int.le_refl _
    cases idle with
    | true =>
      simp only [if_true] at h10 ⊢
      exact ⟨h10.1, by omega⟩
    | false =>
      simp only [Bool.false_eq_true, if_false] at h10 ⊢
      exact ⟨h10.1, by omega⟩

end PV
