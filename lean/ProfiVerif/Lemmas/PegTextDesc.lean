/-
Text-level faithfulness for settings files: `parse (fileText ss) = interp (ss as statements)`, and its
instance for the scalar part of a station description (identification data, sizes, feature flags,
speeds, response times — the 42 settings of `scalarStmts`).
-/
import ProfiVerif.Lemmas.PegTextGsd
import ProfiVerif.Lemmas.PegFuel
import ProfiVerif.Lemmas.GsdFaithful

namespace PV.Gsd.Peg
open PV.Gsd

/-- The PEG answers the expected tree on a canonical file (given the fuel check of the generated
grammar). -/
theorem parseGsd_file (hf : fuelCheck 1000 = true) (s : Item) (ss : List Item) (h : ∀ x ∈ s :: ss, x.Good) :
    parseGsd (fileText (s :: ss)) = some (some (filePair (s :: ss))) := by
  have := (gsd_ok s ss h).at (eval_gsd_fuel hf (fileText (s :: ss)))
  unfold parseGsd
  simp only [c]
  simp only [mk] at this
  rw [this]

/-- Text → description for a canonical file of good items. -/
theorem parse_items (hf : fuelCheck 1000 = true) (s : Item) (ss : List Item) (h : ∀ x ∈ s :: ss, x.Good) :
    parse (fileText (s :: ss)) = some (interp ((s :: ss).map Item.stmt)) := by
  unfold parse
  rw [parseGsd_file hf s ss h]
  simp only [toAst_filePair (s :: ss) h]

theorem parse_file (hf : fuelCheck 1000 = true) (s : Setting) (ss : List Setting) (h : ∀ x ∈ s :: ss, LineCanon x) :
    parse (fileText ((s :: ss).map settingItem)) = some (interp ((s :: ss).map Stmt.setting)) := by
  have := parse_items hf (settingItem s) (ss.map settingItem) (by
    intro x hx
    simp only [List.mem_cons, List.mem_map] at hx
    rcases hx with rfl | ⟨y, hy, rfl⟩
    · exact settingItem_good (h s (List.mem_cons_self ..))
    · exact settingItem_good (h y (List.mem_cons_of_mem _ hy)))
  simpa [List.map_map, Function.comp_def, settingItem] using this

/-! ### The scalar part of a description -/

def keyOkB (key : Str) : Bool :=
  !key.isEmpty && key.all (fun c => decide (IsIdChar c)) && decide (KeyFree key)

theorem keyOk_of_B {key : Str} (h : keyOkB key = true) : KeyChars key ∧ KeyFree key := by
  simp only [keyOkB, Bool.and_eq_true, Bool.not_eq_true', List.isEmpty_eq_false_iff, List.all_eq_true,
    decide_eq_true_eq] at h
  obtain ⟨⟨hne, hall⟩, hfree⟩ := h
  cases key with
  | nil => exact (hne rfl).elim
  | cons c w => exact ⟨⟨c, w, rfl, hall⟩, hfree⟩

theorem digitChar_isDigit : ∀ d, d < 10 → IsDigit (digitChar d) := by decide

theorem decText_natText (n : Nat) : DecText (natText n) := by
  have hne := natText_ne_nil n
  have hd := natText_digits n
  cases h : natText n with
  | nil => exact (hne h).elim
  | cons c w =>
    refine ⟨c, w, .inl rfl, ?_⟩
    intro x hx
    obtain ⟨k, hk, rfl⟩ := hd x (h ▸ hx)
    exact digitChar_isDigit k hk

def NoQuote (s : Str) : Prop := ∀ c ∈ s, c ≠ '"'

instance (s : Str) : Decidable (NoQuote s) := by unfold NoQuote; infer_instance

theorem lineCanon_num {key : String} {n : Nat} (hk : keyOkB key.toList = true) :
    LineCanon { key := key.toList, index := none, value := .num (decTok n) } :=
  ⟨⟨(keyOk_of_B hk).1, ⟨(by intro m hm; cases hm), decText_natText n⟩⟩, (keyOk_of_B hk).2⟩

theorem lineCanon_bool {key : String} {b : Bool} (hk : keyOkB key.toList = true) :
    LineCanon { key := key.toList, index := none, value := .num (boolTok b) } :=
  ⟨⟨(keyOk_of_B hk).1, ⟨(by intro m hm; cases hm), decText_natText _⟩⟩, (keyOk_of_B hk).2⟩

theorem lineCanon_str {key : String} {s : Str} (hk : keyOkB key.toList = true) (hs : NoQuote s) :
    LineCanon { key := key.toList, index := none, value := .str (quote s) } :=
  ⟨⟨(keyOk_of_B hk).1, ⟨(by intro m hm; cases hm), ⟨s, rfl, hs⟩⟩⟩, (keyOk_of_B hk).2⟩

/-- The settings of a statement list (other statements dropped). -/
def settingsOf : Ast → List Setting
  | [] => []
  | .setting s :: rest => s :: settingsOf rest
  | _ :: rest => settingsOf rest

theorem scalarStmts_settings (d : Desc) : (settingsOf (scalarStmts d)).map Stmt.setting = scalarStmts d := rfl

structure ScalarsNoQuote (d : Desc) : Prop where
  vendor : NoQuote d.vendor
  model : NoQuote d.model
  revision : NoQuote d.revision
  hardware : NoQuote d.hardwareRelease
  software : NoQuote d.softwareRelease
  implementation : NoQuote d.implementationType

theorem scalar_lines_canon (d : Desc) (hq : ScalarsNoQuote d) : ∀ x ∈ settingsOf (scalarStmts d), LineCanon x := by
  simp only [scalarStmts, setNum, setStr, setBool, settingsOf, List.forall_mem_cons, List.not_mem_nil, false_imp_iff,
    implies_true, and_true]
  refine ⟨lineCanon_num (by decide), lineCanon_str (by decide) hq.vendor, lineCanon_str (by decide) hq.model,
    lineCanon_str (by decide) hq.revision, lineCanon_num (by decide), lineCanon_num (by decide),
    lineCanon_str (by decide) hq.hardware, lineCanon_str (by decide) hq.software,
    lineCanon_str (by decide) hq.implementation,
    lineCanon_bool (by decide), lineCanon_bool (by decide), lineCanon_bool (by decide), lineCanon_bool (by decide),
    lineCanon_bool (by decide), lineCanon_num (by decide), lineCanon_bool (by decide), lineCanon_num (by decide),
    lineCanon_num (by decide), lineCanon_num (by decide), lineCanon_num (by decide),
    lineCanon_bool (by decide), lineCanon_bool (by decide), lineCanon_bool (by decide), lineCanon_bool (by decide),
    lineCanon_bool (by decide), lineCanon_bool (by decide), lineCanon_bool (by decide), lineCanon_bool (by decide),
    lineCanon_bool (by decide), lineCanon_bool (by decide), lineCanon_bool (by decide),
    lineCanon_num (by decide), lineCanon_num (by decide), lineCanon_num (by decide), lineCanon_num (by decide),
    lineCanon_num (by decide), lineCanon_num (by decide), lineCanon_num (by decide), lineCanon_num (by decide),
    lineCanon_num (by decide), lineCanon_num (by decide), lineCanon_num (by decide)⟩

/-- The canonical text of the scalar part of a description: `#Profibus_DP` and 42 lines
`GSD_Revision=…`, `Vendor_Name="…"`, …, `MaxTsdr_12M=…`. -/
def scalarText (d : Desc) : Str := fileText ((settingsOf (scalarStmts d)).map settingItem)

theorem parse_scalarText (hf : fuelCheck 1000 = true) (d : Desc) (hq : ScalarsNoQuote d) :
    parse (scalarText d) = some (interp (scalarStmts d)) := by
  have hc := scalar_lines_canon d hq
  have hne : ∃ s ss, settingsOf (scalarStmts d) = s :: ss := ⟨_, _, rfl⟩
  obtain ⟨s, ss, hs⟩ := hne
  unfold scalarText
  rw [hs] at hc ⊢
  rw [parse_file hf s ss hc, ← hs, scalarStmts_settings]

end PV.Gsd.Peg
