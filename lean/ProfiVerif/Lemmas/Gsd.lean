/-
Helper lemmas about the GSD interpretation model (`Model/Gsd/Interp.lean`).
-/
import ProfiVerif.Model.Gsd.Interp

namespace PV.Gsd

/-! ### The `Res` monad -/

namespace Res

@[simp] theorem pure_eq {α : Type} (a : α) : (pure a : Res α) = .ok a := rfl
@[simp] theorem bind_ok {α β : Type} (a : α) (f : α → Res β) : (Res.ok a >>= f) = f a := rfl
@[simp] theorem bind_err {α β : Type} (e : ErrKind) (f : α → Res β) : (Res.err e >>= f) = .err e := rfl
@[simp] theorem bind_panic {α β : Type} (f : α → Res β) : (Res.panic >>= f) = .panic := rfl

/-- "does not panic" -/
def Safe {α : Type} (x : Res α) : Prop := x ≠ .panic

@[simp] theorem safe_ok {α : Type} (a : α) : Safe (Res.ok a) := by simp [Safe]
@[simp] theorem safe_pure {α : Type} (a : α) : Safe (pure a : Res α) := by simp [Safe]
@[simp] theorem safe_err {α : Type} (e : ErrKind) : Safe (Res.err e : Res α) := by simp [Safe]
@[simp] theorem not_safe_panic {α : Type} : ¬ Safe (Res.panic : Res α) := by simp [Safe]

theorem safe_bind {α β : Type} {x : Res α} {f : α → Res β}
    (hx : Safe x) (hf : ∀ a, x = .ok a → Safe (f a)) : Safe (x >>= f) := by
  cases x with
  | ok a => exact hf a rfl
  | err e => simp
  | panic => exact absurd rfl hx

/-- Version with an unconditional continuation. -/
theorem safe_bind' {α β : Type} {x : Res α} {f : α → Res β}
    (hx : Safe x) (hf : ∀ a, Safe (f a)) : Safe (x >>= f) := safe_bind hx fun a _ => hf a

end Res

open Res

/-! ### Leaves never panic -/

@[simp] theorem safe_parseTok (max : Nat) (t : NumTok) : Safe (parseTok max t) := by
  unfold parseTok
  split
  · simp
  · split <;> simp

@[simp] theorem safe_parseSignedTok (t : NumTok) : Safe (parseSignedTok t) := by
  unfold parseSignedTok; split <;> simp

@[simp] theorem safe_parseNumber (max : Nat) (v : Value) : Safe (parseNumber max v) := by
  cases v <;> simp [parseNumber]

@[simp] theorem safe_parseToks (max : Nat) (ts : List NumTok) : Safe (parseToks max ts) := by
  induction ts with
  | nil => simp [parseToks]
  | cons t rest ih =>
    simp only [parseToks]
    exact safe_bind' (by simp) fun n => safe_bind' ih fun ns => by simp

@[simp] theorem safe_parseSignedToks (ts : List NumTok) : Safe (parseSignedToks ts) := by
  induction ts with
  | nil => simp [parseSignedToks]
  | cons t rest ih =>
    simp only [parseSignedToks]
    exact safe_bind' (by simp) fun n => safe_bind' ih fun ns => by simp

@[simp] theorem safe_parseNumberList (max : Nat) (v : Value) : Safe (parseNumberList max v) := by
  cases v with
  | list ts => simp [parseNumberList]
  | num t => simp only [parseNumberList]; exact safe_bind' (by simp) fun n => by simp
  | str _ => simp [parseNumberList]
  | family _ => simp [parseNumberList]

@[simp] theorem safe_parseBool (v : Value) : Safe (parseBool v) := by
  unfold parseBool; exact safe_bind' (by simp) fun n => by simp

@[simp] theorem safe_parseBoolTok (t : NumTok) : Safe (parseBoolTok t) := by
  unfold parseBoolTok; exact safe_bind' (by simp) fun n => by simp

@[simp] theorem safe_parseStr (v : Value) : Safe (parseStr v) := by
  cases v <;> simp [parseStr]

/-! ### Block statements never panic -/

theorem safe_textValues (vs : List (NumTok × Str)) (acc : TextMap) : Safe (textValues vs acc) := by
  induction vs generalizing acc with
  | nil => simp [textValues]
  | cons v rest ih =>
    obtain ⟨n, raw⟩ := v
    simp only [textValues]
    exact safe_bind' (by simp) fun _ => ih _

theorem safe_doPrmText (st : St) (p : PrmTextStmt) : Safe (doPrmText st p) := by
  unfold doPrmText
  exact safe_bind' (by simp) fun _ => safe_bind' (safe_textValues _ _) fun _ => by simp

theorem safe_parseDataType (t : TypeName) : Safe (parseDataType t) := by
  cases t with
  | ident name => simp only [parseDataType]; split <;> simp
  | bit n => simp only [parseDataType]; exact safe_bind' (by simp) fun _ => by simp
  | bitArea f l =>
    simp only [parseDataType]
    exact safe_bind' (by simp) fun _ => safe_bind' (by simp) fun _ => by simp

theorem safe_parseConstraint (c : Option PrmConstraintAst) : Safe (parseConstraint c) := by
  unfold parseConstraint
  split
  · simp
  · exact safe_bind' (by simp) fun _ => safe_bind' (by simp) fun _ => by simp
  · exact safe_bind' (by simp) fun _ => by simp

theorem safe_parseTextRef (st : St) (t : Option NumTok) : Safe (parseTextRef st t) := by
  unfold parseTextRef
  split
  · simp
  · exact safe_bind' (by simp) fun _ => by split <;> simp

theorem safe_parseOptBool (t : Option NumTok) : Safe (parseOptBool t) := by
  unfold parseOptBool; split <;> simp

theorem safe_doExtPrm (st : St) (e : ExtPrmStmt) : Safe (doExtPrm st e) := by
  unfold doExtPrm
  refine safe_bind' (by simp) fun _ => ?_
  refine safe_bind' (safe_parseDataType _) fun _ => ?_
  refine safe_bind' (by simp) fun _ => ?_
  refine safe_bind' (safe_parseConstraint _) fun _ => ?_
  refine safe_bind' (safe_parseTextRef _ _) fun _ => ?_
  refine safe_bind' (safe_parseOptBool _) fun _ => ?_
  exact safe_bind' (safe_parseOptBool _) fun _ => by simp

theorem safe_areaValues (vs : List (NumTok × Str)) (acc : List (Nat × Str)) : Safe (areaValues vs acc) := by
  induction vs generalizing acc with
  | nil => simp [areaValues]
  | cons v rest ih =>
    obtain ⟨n, raw⟩ := v
    simp only [areaValues]
    exact safe_bind' (by simp) fun _ => ih _

theorem safe_doArea (st : St) (a : AreaStmt) : Safe (doArea st a) := by
  unfold doArea
  refine safe_bind' (by simp) fun _ => safe_bind' (by simp) fun _ => ?_
  exact safe_bind' (safe_areaValues _ _) fun _ => by simp

theorem safe_slotSet (mods : List Module) (ts : List NumTok) : Safe (slotSet mods ts) := by
  induction ts with
  | nil => simp [slotSet]
  | cons t rest ih =>
    simp only [slotSet]
    refine safe_bind' (by simp) fun _ => safe_bind' ih fun p => ?_
    obtain ⟨found, ws⟩ := p
    dsimp only
    split <;> simp

theorem safe_doSlot (st : St) (s : SlotStmt) : Safe (doSlot st s) := by
  unfold doSlot
  refine safe_bind' (by simp) fun _ => safe_bind' (by simp) fun _ => ?_
  refine safe_bind' ?_ fun p => ?_
  · split
    · exact safe_bind' (by simp) fun _ => safe_bind' (by simp) fun _ => by simp
    · exact safe_slotSet _ _
  · obtain ⟨allowed, ws⟩ := p
    dsimp only
    split <;> simp

theorem safe_doSlots (st : St) (ss : List SlotStmt) : Safe (doSlots st ss) := by
  induction ss generalizing st with
  | nil => simp [doSlots]
  | cons s rest ih =>
    simp only [doSlots]
    exact safe_bind' (safe_doSlot _ _) fun _ => ih _

/-! ### Settings (a missing `(index)` is an error value since 1c3df29) -/

@[simp] theorem safe_second (s : Setting) : Safe s.second := by
  unfold Setting.second
  split <;> simp

theorem safe_prmDataRef (st : St) (s : Setting) (prm : UserPrmData) : Safe (prmDataRef st s prm) := by
  unfold prmDataRef
  refine safe_bind' (by simp) fun _ => safe_bind' (safe_second s) fun _ => ?_
  exact safe_bind' (by simp) fun _ => by split <;> simp

theorem safe_prmDataConst (s : Setting) (prm : UserPrmData) : Safe (prmDataConst s prm) := by
  unfold prmDataConst
  refine safe_bind' (by simp) fun _ => safe_bind' (safe_second s) fun _ => ?_
  exact safe_bind' (by simp) fun _ => by simp

theorem safe_diagBit (st : St) (s : Setting) (nb hp : Bool) : Safe (diagBit st s nb hp) := by
  unfold diagBit
  refine safe_bind' (by simp) fun _ => safe_bind' (safe_second s) fun _ => ?_
  exact safe_bind' (by simp) fun _ => by cases nb <;> simp

theorem safe_moduleSetting (st : St) (acc : ModAcc) (s : Setting) : Safe (moduleSetting st acc s) := by
  unfold moduleSetting
  dsimp only
  split
  · exact safe_bind' (by simp) fun _ => by simp
  · split
    · exact safe_bind' (safe_prmDataRef _ _ _) fun _ => by simp
    · split
      · exact safe_bind' (safe_prmDataConst _ _) fun _ => by simp
      · split
        · exact safe_bind' (by simp) fun _ => by simp
        · simp

theorem safe_moduleItems (st : St) (items : List ModItem) (acc : ModAcc) : Safe (moduleItems st items acc) := by
  induction items generalizing acc with
  | nil => simp [moduleItems]
  | cons it rest ih =>
    cases it with
    | reference n =>
      simp only [moduleItems]
      exact safe_bind' (by simp) fun _ => ih _
    | setting s =>
      simp only [moduleItems]
      exact safe_bind' (safe_moduleSetting _ _ _) fun _ => ih _
    | dataArea =>
      simp only [moduleItems]
      exact ih _

theorem safe_doModule (st : St) (m : ModuleStmt) : Safe (doModule st m) := by
  unfold doModule
  refine safe_bind' (by simp) fun _ => ?_
  exact safe_bind' (safe_moduleItems _ _ _) fun _ => by simp

theorem safe_specialSetting (st : St) (k : Str) (s : Setting) : Safe (specialSetting st k s) := by
  unfold specialSetting
  split
  · exact safe_bind' (by simp) fun _ => by simp
  split
  · exact safe_bind' (by simp) fun _ => by simp
  split
  · exact safe_bind' (safe_prmDataRef _ _ _) fun _ => by simp
  split
  · exact safe_bind' (safe_prmDataConst _ _) fun _ => by simp
  split
  · simp
  split
  · split
    · simp
    · exact safe_bind' (by simp) fun _ => by split <;> simp
  split
  · split
    · simp
    · exact safe_bind' (by simp) fun _ => by split <;> simp
  split
  · exact safe_diagBit _ _ _ _
  split
  · exact safe_diagBit _ _ _ _
  split
  · exact safe_diagBit _ _ _ _
  split
  · exact safe_diagBit _ _ _ _
  simp

theorem safe_doSetting (st : St) (s : Setting) : Safe (doSetting st s) := by
  unfold doSetting
  dsimp only
  split
  · exact safe_bind' (by simp) fun _ => by simp
  · split
    · exact safe_bind' (by simp) fun _ => by simp
    · split
      · exact safe_bind' (by simp) fun _ => by simp
      · exact safe_specialSetting _ _ _

theorem safe_doStmt (st : St) (s : Stmt) : Safe (doStmt st s) := by
  cases s with
  | prmText p => exact safe_doPrmText _ _
  | extPrm e => exact safe_doExtPrm _ _
  | module m => exact safe_doModule _ _
  | slots ss => exact safe_doSlots _ _
  | area a => exact safe_doArea _ _
  | setting s => exact safe_doSetting _ _
  | ignored => simp [doStmt]

theorem safe_run (st : St) (ast : Ast) : Safe (run st ast) := by
  induction ast generalizing st with
  | nil => simp [run]
  | cons s rest ih =>
    simp only [run]
    exact safe_bind' (safe_doStmt _ _) fun _ => ih _

/-- The `unwrap()` of the compact-station post-processing is unreachable: without a `Max_Module`
statement the value has just been set to 1. -/
theorem safe_finish (st : St) : Safe (finish st) := by
  unfold finish
  dsimp only
  generalize commitLegacy st = g0
  split
  · simp
  · unfold compactStation
    split
    · rename_i h
      obtain ⟨h1, h2, _⟩ := h
      simp [defaultMaxModules, h2] at h1
    · simp

end PV.Gsd
