/-
Helper lemmas for the codec round-trip (C09) — property theorems live in Props/C09.lean.
-/
import ProfiVerif.Lemmas.Bytes
namespace PV

theorem fc_roundtrip (fc : FunctionCode) : FunctionCode.fromByte fc.toByte = .ok fc := by
  cases fc with
  | request fcb req => cases fcb <;> cases req <;> rfl
  | response st stat => cases st <;> cases stat <;> rfl

theorem body_roundtrip (sd : UInt8) (h : Header) (pdu rest : Bytes) (total : Nat)
    (hda : h.da < 128) (hsa : h.sa < 128) :
    deserializeBody (sd :: (h.body pdu ++ [checksum (h.body pdu), ED] ++ rest))
      (pdu.length + h.saps) total = .accept (.data h pdu) total := by
  obtain ⟨da, sa, dsap, ssap, fc⟩ := h
  simp only at hda hsa
  have h1 := addr_nobit da hda
  have h2 := addr_nobit sa hsa
  cases dsap <;> cases ssap <;>
    simp [deserializeBody, takeSap, finishData, Header.body, Header.saps, optByte, fc_roundtrip,
      addr_or_and, addr_or_bit, h1, h2, hda, hsa, List.getD_eq_getElem?_getD]
  all_goals (first | done | (rw [if_neg (by omega), if_neg (by omega), if_neg (by omega)]) | (rw [if_neg (by omega), if_neg (by omega)]))

theorem body_length (h : Header) (pdu : Bytes) : (h.body pdu).length = pdu.length + h.saps + 3 := by
  obtain ⟨da, sa, dsap, ssap, fc⟩ := h
  cases dsap <;> cases ssap <;> simp [Header.body, Header.saps, optByte] <;> omega

theorem serialize_ok (h : Header) (pdu : Bytes) (hl : h.lengthByte pdu.length ≤ 249) :
    h.serialize pdu = .ok (frameSpec h pdu) := by
  unfold Header.serialize frameSpec
  simp only [Header.lengthByte] at hl ⊢
  obtain ⟨n, hn⟩ : ∃ n, pdu.length + h.saps = n := ⟨_, rfl⟩
  simp only [hn] at hl ⊢
  by_cases h3 : n = 0
  · subst h3; simp
  · by_cases h11 : n = 8
    · subst h11; simp
    · have e1 : ¬ (n + 3 = 3) := by omega
      have e2 : ¬ (n + 3 = 11) := by omega
      simp only [e1, e2, if_false]
      rw [if_neg (by omega), if_neg (by omega), if_neg (by omega)]

theorem frame_length (h : Header) (pdu : Bytes) : (frameSpec h pdu).length = h.telegramLen pdu.length := by
  have hb := body_length h pdu
  unfold frameSpec Header.telegramLen
  simp only [Header.lengthByte] at hb ⊢
  obtain ⟨n, hn⟩ : ∃ n, pdu.length + h.saps = n := ⟨_, rfl⟩
  simp only [hn] at hb ⊢
  by_cases h3 : n = 0
  · subst h3; simp [hb]
  · by_cases h11 : n = 8
    · subst h11; simp [hb]
    · have e1 : ¬ (n + 3 = 3) := by omega
      have e2 : ¬ (n + 3 = 11) := by omega
      simp only [e1, e2, if_false, false_or]
      simp [hb]

theorem decode_frame (h : Header) (pdu rest : Bytes)
    (hda : h.da < 128) (hsa : h.sa < 128) (hl : h.lengthByte pdu.length ≤ 249) :
    deserialize (frameSpec h pdu ++ rest) = .accept (.data h pdu) (frameSpec h pdu).length := by
  have hb := body_length h pdu
  have hr := fun sd total => body_roundtrip sd h pdu rest total hda hsa
  rw [frame_length]
  unfold frameSpec Header.telegramLen
  simp only [Header.lengthByte] at hl hb ⊢
  obtain ⟨n, hn⟩ : ∃ n, pdu.length + h.saps = n := ⟨_, rfl⟩
  simp only [hn] at hl hb hr ⊢
  by_cases h3 : n = 0
  · subst h3
    have := hr SD1 6
    simp [deserialize, deserializeData, SD1, SC, SD4, hb]
    rw [if_neg (by omega)]
    simpa [SD1] using this
  · by_cases h11 : n = 8
    · subst h11
      have := hr SD3 14
      simp [deserialize, deserializeData, SD1, SD2, SD3, SC, SD4, hb]
      rw [if_neg (by omega)]
      simpa [SD3] using this
    · have e1 : ¬ (n + 3 = 3) := by omega
      have e2 : ¬ (n + 3 = 11) := by omega
      have hle : (UInt8.ofNat (n + 3)).toNat = n + 3 := ofNat_toNat_le _ (by omega)
      obtain ⟨l1, hl1⟩ : ∃ l1, UInt8.ofNat (n + 3) = l1 := ⟨_, rfl⟩
      rw [hl1] at hle
      have hlt : ¬ (l1 < 3) := by
        rw [UInt8.lt_iff_toNat_lt, hle]; simp
      have := hr SD2 (n + 3 + 6)
      simp only [e1, e2, if_false, hl1]
      simp [deserialize, deserializeData, SD1, SD2, SD3, SC, SD4, hb, hle, hlt]
      rw [if_neg (by omega)]
      simpa [SD2] using this

end PV
