/-
Cold start, phases (a2)–(a4) for a station that is alone on the bus: second claim token, sweep of the whole GAP,
token to itself — the one-station ring.  Helper lemmas (C02 ring-level clause).
-/
import ProfiVerif.Lemmas.ColdStart

namespace PV
open StationGap TokenRing

/-! ## Exact results of the `ClaimToken` handler on a silent bus -/

/-- State after a claim token. -/
def claimTokS (s : Station) (now : Int) (step : ClaimStep) : Station :=
  { (markTx s now 3) with ring := s.ring.claimToken, st := .claimToken (if step = .firstToken then .secondToken else .scan), gap := .doPoll s.p.address }

/-- State after a GAP request of the claim scan. -/
def claimReqS (s : Station) (now : Int) (a : Nat) : Station :=
  { (markTx { s with gap := .doPoll a } now 6) with st := .claimToken (.scanAwait a) }

/-- First / second claim token, synchronisation pause over. -/
theorem claimTok_exact (c : Ctx) (now l : Int) (fuel : Nat) (step : ClaimStep) (hstep : step = .firstToken ∨ step = .secondToken)
    (hst : c.s.st = .claimToken step) (htx : c.tx = none) (hl : c.s.lastBusActivity = some l)
    (hsy : l + (c.s.p.bits 33 : Nat) < now) :
    doClaimToken c now (fuel + 1) = .ok { c with tx := some (selfToken c.s.p.address), s := claimTokS c.s now step } := by
  unfold doClaimToken claimTokS
  simp only [hst]
  rcases hstep with rfl | rfl
  · simp only [waitSync_some _ _ _ hl, decide_eq_true_eq]
    rw [if_neg (by omega)]
    simp only [transmit, htx, Res.bind, upd, selfToken]
    rfl
  · simp only [waitSync_some _ _ _ hl, decide_eq_true_eq]
    rw [if_neg (by omega)]
    simp only [transmit, htx, Res.bind, upd, selfToken]
    rfl

/-- Scan step that transmits the next GAP request. -/
theorem claimScan_poll (c : Ctx) (now l : Int) (fuel cur a : Nat) (hst : c.s.st = .claimToken .scan) (htx : c.tx = none)
    (hl : c.s.lastBusActivity = some l) (hsy : l + (c.s.p.bits 33 : Nat) < now) (hg : c.s.gap = .doPoll cur)
    (hn : nextGapPoll c.s.p.address c.s.ring.ns c.s.p.hsa cur = .poll a) (hne : a ≠ c.s.p.address) :
    doClaimToken c now (fuel + 1) =
      .ok { c with tx := some (statusRequestBytes a c.s.p.address), s := claimReqS c.s now a } := by
  unfold doClaimToken claimReqS
  simp only [hst, waitSync_some _ _ _ hl, decide_eq_true_eq]
  rw [if_neg (by omega)]
  simp only [hg, nextGap, hn, upd]
  rw [transmitGapPoll_poll ⟨{ c.s with gap := .doPoll a }, c.apps, c.rx, c.tx, c.calls⟩ now a rfl hne htx]
  rfl

/-- Scan step at the end of the sweep: nothing is transmitted, the GAP state becomes `Waiting`. -/
theorem claimScan_end (c : Ctx) (now l : Int) (fuel cur : Nat) (hst : c.s.st = .claimToken .scan)
    (hl : c.s.lastBusActivity = some l) (hsy : l + (c.s.p.bits 33 : Nat) < now) (hg : c.s.gap = .doPoll cur)
    (hn : nextGapPoll c.s.p.address c.s.ring.ns c.s.p.hsa cur = .waiting) :
    doClaimToken c now (fuel + 1) = .ok { c with s := { c.s with gap := .waiting 0 } } := by
  unfold doClaimToken
  simp only [hst, waitSync_some _ _ _ hl, decide_eq_true_eq]
  rw [if_neg (by omega)]
  simp only [hg, nextGap, hn, upd]
  rw [transmitGapPoll_waiting ⟨{ c.s with gap := .waiting 0 }, c.apps, c.rx, c.tx, c.calls⟩ now 0 rfl]
  simp only [hst]

/-- Scan step with the sweep finished: the station goes to `PassToken`. -/
theorem claimScan_done (c : Ctx) (now l : Int) (fuel r : Nat) (hst : c.s.st = .claimToken .scan)
    (hl : c.s.lastBusActivity = some l) (hsy : l + (c.s.p.bits 33 : Nat) < now) (hg : c.s.gap = .waiting r) :
    doClaimToken c now (fuel + 1) = .ok { c with s := { c.s with st := .passToken false .first } } := by
  unfold doClaimToken
  simp only [hst, waitSync_some _ _ _ hl, decide_eq_true_eq]
  rw [if_neg (by omega)]
  simp only [hg, tr, toPassToken, hst]

theorem stamped_of_some (s : Station) (now l : Int) (h : s.lastBusActivity = some l) : StationGap.stamped s now = s := by
  unfold StationGap.stamped
  rw [h]
  simp only [Option.getD_some]
  cases s
  simp only at h
  subst h
  rfl

/-- Waiting for the reply to a GAP request of the claim scan, nothing received. -/
theorem claimAwait_exact (c : Ctx) (now l : Int) (fuel a : Nat) (hst : c.s.st = .claimToken (.scanAwait a))
    (hrx : c.rx = []) (hl : c.s.lastBusActivity = some l) (hg : c.s.gap = .doPoll a) (hne : a ≠ c.s.p.address) :
    doClaimToken c now (fuel + 1) =
      if now > l + (c.s.p.slotTime : Nat) then doClaimToken { c with s := { c.s with st := .claimToken .scan } } now fuel
      else .ok c := by
  have hag := StationGap.awaitGap_silent c now a [] false hne hg (by rw [hrx]; exact receiveTelegram_nil)
  rw [stamped_of_some c.s now l hl, checkSlot_some _ _ _ hl] at hag
  have hc : ({ c with rx := [], s := c.s } : Ctx) = c := by
    cases c; simp only at hrx; subst hrx; rfl
  rw [hc] at hag
  conv => lhs; unfold doClaimToken
  simp only [hst, hag]
  by_cases hx : now > l + (c.s.p.slotTime : Nat)
  · simp only [hx, decide_true, if_true, upd]
  · simp only [hx, decide_false, if_false, Bool.false_eq_true]

/-! ## The sweep of a station that knows only itself -/

/-- Addresses still to be polled after `cur` by a station `ts` whose NS is itself (`hsa` addresses). -/
def remGap (ts hsa cur : Nat) : Nat := if cur < ts then ts - 1 - cur else hsa - 1 - cur + ts

theorem nextGapPoll_alone (ts hsa cur : Nat) (hts : ts < hsa) (hc : cur < hsa) (hh : hsa ≤ 126) :
    nextGapPoll ts ts hsa cur =
      (if (if cur = hsa - 1 then 0 else cur + 1) = ts then .waiting else .poll (if cur = hsa - 1 then 0 else cur + 1)) := by
  unfold nextGapPoll
  have e1 : ¬ hsa = 0 := by omega
  have e2 : ¬ (cur ≠ hsa - 1 ∧ cur ≥ 255) := by omega
  simp only [e1, e2, if_false, Nat.lt_irrefl]
  by_cases h : (if cur = hsa - 1 then 0 else cur + 1) = ts
  · simp [h]
  · simp [h]

theorem nextGap_alone (ts hsa cur : Nat) (hts : ts < hsa) (hc : cur < hsa) (hh : hsa ≤ 126) :
    (remGap ts hsa cur = 0 ∧ nextGapPoll ts ts hsa cur = .waiting) ∨
    (∃ a, nextGapPoll ts ts hsa cur = .poll a ∧ a ≠ ts ∧ a < hsa ∧ remGap ts hsa a + 1 = remGap ts hsa cur) := by
  rw [nextGapPoll_alone ts hsa cur hts hc hh]
  by_cases h : (if cur = hsa - 1 then 0 else cur + 1) = ts
  · left
    rw [if_pos h]
    refine ⟨?_, rfl⟩
    unfold remGap
    split at h <;> split <;> omega
  · right
    rw [if_neg h]
    refine ⟨_, rfl, h, ?_, ?_⟩
    · split <;> omega
    · unfold remGap
      split at h <;> rename_i h1
      · simp only [h1, if_true]
        split <;> split <;> omega
      · simp only [h1, if_false]
        split <;> split <;> omega

/-! ## A station that is alone on the bus -/

theorem foldl_zipIdx_skip {β : Type} (i : Nat) (f : β → Transmission × Nat → β)
    (hf : ∀ acc t k, t.sender = i → f acc (t, k) = acc) :
    ∀ (l : List Transmission) (k : Nat) (acc : β), (∀ t ∈ l, t.sender = i) → (l.zipIdx k).foldl f acc = acc := by
  intro l
  induction l with
  | nil => intro k acc _; rfl
  | cons t rest ih =>
    intro k acc h
    rw [List.zipIdx_cons, List.foldl_cons, hf acc t k (h t (List.mem_cons_self ..))]
    exact ih (k + 1) acc (fun t' ht' => h t' (List.mem_cons_of_mem _ ht'))

/-- Nothing is delivered to a station whose own transmissions are the only ones in the log. -/
theorem Bus.deliver_allOwn (b : Bus) (i : Nat) (now : Int) (h : ∀ t ∈ b.txs, t.sender = i) :
    b.deliver i now = ({ b with seen := b.seen.set i now }, []) := by
  unfold Bus.deliver
  simp only
  rw [foldl_zipIdx_skip i _ (fun acc t k hs => by simp only [hs, true_or, if_true]) b.txs 0 [] h]
  rfl

/-- Its PHY is idle once its stamp (the predicted end of its last transmission) has passed. -/
theorem Bus.transmitting_allOwn (cfg : Cfg) (b : Bus) (i : Nat) (l now : Int) (hrate : b.rate = cfg.rate)
    (h0 : ∀ o ∈ b.txs, cEnd cfg o ≤ l + 1) (hl : l < now) : b.transmitting i now = false := by
  unfold Bus.transmitting
  cases hf : b.txs.reverse.find? (fun t => decide (t.sender = i)) with
  | none => rfl
  | some t =>
    have hmem : t ∈ b.txs := List.mem_reverse.1 (List.mem_of_find?_eq_some hf)
    have := h0 t hmem
    simp only [decide_eq_false_iff_not]
    unfold Bus.txEnd
    rw [byteEnd_cfg b cfg hrate]
    unfold cEnd at this
    omega

/-- **A station alone on the bus** (record `st`, stamp `l`): every logged transmission is its own (ended by `l + 1`) or has
been delivered to it completely; the log is fault-free and non-overlapping; the station is alive, online, satisfies the station invariant and has an empty buffer. -/
structure Solo (cfg : Cfg) (n : Net) (x : Nat) (st : NetStation) (l : Int) : Prop where
  rate : n.bus.rate = cfg.rate
  drops : n.bus.drops = []
  corrupt : n.bus.corrupt = []
  chained : CChained cfg n.bus.txs
  live : ∀ t ∈ n.bus.txs, t.dropped = false
  pos : ∀ t ∈ n.bus.txs, 0 < t.bytes.length
  done : ∀ o ∈ n.bus.txs, o.sender = x ∨ cEnd cfg o ≤ n.bus.seen.getD x 0
  ends : ∀ o ∈ n.bus.txs, o.sender = x → cEnd cfg o ≤ l + 1
  xl : x < n.stations.length
  xs : x < n.bus.seen.length
  gx : n.stations[x]? = some st
  online : st.online = true
  alive : st.dead = false
  inv : Inv st.s st.apps
  son : st.s.online = true
  rx : st.rx = []
  stamp : st.s.lastBusActivity = some l
  prate : st.s.p.rate = cfg.rate
  pslot : st.s.p.slotBits = cfg.slotBits

theorem Solo.bits {cfg : Cfg} {n : Net} {x : Nat} {st : NetStation} {l : Int} (h : Solo cfg n x st l) (k : Nat) :
    st.s.p.bits k = bitsToTime cfg.rate k := by unfold Params.bits; rw [h.prate]

theorem Solo.deliver {cfg : Cfg} {n : Net} {x : Nat} {st : NetStation} {l : Int} (h : Solo cfg n x st l) (hr : 0 < cfg.rate)
    (now : Int) (hsn : n.bus.seen.getD x 0 ≤ now) :
    n.bus.deliver x now = ({ n.bus with seen := n.bus.seen.set x now }, []) := by
  have hbc : n.bus.Chained n.bus.txs := by
    unfold Bus.Chained
    have := h.chained
    unfold CChained at this
    refine this.imp ?_
    intro o t hot
    unfold Bus.txEnd
    rw [byteEnd_cfg n.bus cfg h.rate]; exact hot
  rw [Bus.deliver_chained n.bus (by rw [h.rate]; exact hr) h.corrupt x now hbc h.live]
  rw [seg_done cfg hr n.bus h.rate x _ now hsn n.bus.txs (fun o ho =>
    (h.done o ho).imp id (fun hh => ⟨h.pos o ho, hh⟩))]

theorem Solo.phy {cfg : Cfg} {n : Net} {x : Nat} {st : NetStation} {l : Int} (h : Solo cfg n x st l) (now : Int) (hl : l < now) :
    n.bus.transmitting x now = false := by
  unfold Bus.transmitting
  cases hf : n.bus.txs.reverse.find? (fun t => decide (t.sender = x)) with
  | none => rfl
  | some t =>
    have hmem : t ∈ n.bus.txs := List.mem_reverse.1 (List.mem_of_find?_eq_some hf)
    have hs : t.sender = x := by simpa using List.find?_some hf
    have := h.ends t hmem hs
    simp only [decide_eq_false_iff_not]
    unfold Bus.txEnd
    rw [byteEnd_cfg n.bus cfg h.rate]
    unfold cEnd at this
    omega

/-- A poll of the lone station later than its stamp: the state handler runs on an empty buffer with an idle PHY;
the new record and the new log again satisfy `Solo`. -/
theorem solo_step {cfg : Cfg} {n : Net} {x : Nat} {st : NetStation} {l : Int} (h : Solo cfg n x st l) (hr : 0 < cfg.rate)
    (now : Int) (hown : n.bus.seen.getD x 0 < now) (hlt : l < now) (c : Ctx)
    (hno : st.s.st ≠ .offline) (hnp : st.s.st ≠ .passiveIdle)
    (hd : dispatch { s := st.s, apps := st.apps, rx := [] } now = .ok c) (l' : Int)
    (h1 : c.s.online = true) (h2 : c.s.p = st.s.p) (h3 : c.rx = []) (h4 : c.s.lastBusActivity = some l') (h5 : l ≤ l')
    (h6 : ∀ b, c.tx = some b → 0 < b.length ∧ now + ((cfg.ce (b.length - 1) : Nat) : Int) ≤ l' + 1) :
    ∃ n', n.poll x now = (n', [], some (.ok c)) ∧ Solo cfg n' x (upSt st c) l' ∧ n'.bus.seen.getD x 0 = now := by
  have hp : st.s.poll st.apps now false [] = .ok c := by
    rw [poll_dispatch st.s st.apps now [] h.son hno hnp (by intro l0 hl0; rw [h.stamp] at hl0; cases hl0; exact hlt)]
    simp only [List.length_nil, checkBus_nil]
    exact hd
  obtain ⟨c', hc', hinv', -⟩ := pollInner_good { s := st.s, apps := st.apps, rx := [] } now false h.inv rfl
  have hcc : c' = c := by
    have : st.s.poll st.apps now false [] = .ok c' := hc'
    rw [hp] at this; cases this; rfl
  subst hcc
  have hphy := h.phy now hlt
  have hp' : st.s.poll st.apps now (Bus.transmitting { n.bus with seen := n.bus.seen.set x now } x now)
      (st.rx ++ []) = .ok c' := by rw [transmitting_seen, h.rx, hphy]; exact hp
  have hpe := Net.poll_eq n x now st _ [] c' h.gx h.alive h.online (h.deliver hr now (Int.le_of_lt hown)) hp'
  have hrate : 0 < n.bus.rate := by rw [h.rate]; exact hr
  have hends : ∀ o ∈ n.bus.txs, cEnd cfg o ≤ now := by
    intro o ho
    rcases h.done o ho with hs | hs
    · have := h.ends o ho hs; omega
    · omega
  refine ⟨_, hpe, ?_, ?_⟩
  · cases htx : c'.tx with
    | none =>
      simp only
      refine ⟨h.rate, h.drops, h.corrupt, h.chained, h.live, h.pos, ?_, fun o ho hs => by have := h.ends o ho hs; omega,
        by simp only [List.length_set]; exact h.xl,
        by simp only [List.length_set]; exact h.xs, List.getElem?_set_self h.xl, h.online, h.alive, hinv', h1, h3, h4,
        by show c'.s.p.rate = _; rw [h2]; exact h.prate, by show c'.s.p.slotBits = _; rw [h2]; exact h.pslot⟩
      intro o ho
      rw [seen_set_self _ _ _ h.xs]
      exact (h.done o ho).imp id (fun hh => by omega)
    | some b =>
      simp only
      obtain ⟨hbl, hbe⟩ := h6 b htx
      obtain ⟨old', e1, e2, e3, e4, e5, e6⟩ := Bus.send_txs { n.bus with seen := n.bus.seen.set x now } x now b h.drops hrate
      have hspec := Bus.send_spec { n.bus with seen := n.bus.seen.set x now } x now b h.drops
      have hsub : old'.Sublist n.bus.txs := by
        have : (Bus.send { n.bus with seen := n.bus.seen.set x now } x now b).txs =
            (n.bus.txs.filter fun t => decide (n.bus.txEnd t + 100000 > now)) ++
              [({ start := now, sender := x, bytes := b, dropped := false } : Transmission)] := by
          rw [hspec]
          simp only [List.filter_append, List.filter_cons, List.filter_nil]
          have : decide (Bus.txEnd { n.bus with seen := n.bus.seen.set x now }
              ({ start := now, sender := x, bytes := b, dropped := false } : Transmission) + 100000 > now) = true := by
            have := Bus.byteEnd_pos n.bus hrate (b.length - 1)
            unfold Bus.txEnd
            simp only [decide_eq_true_eq]
            show now + n.bus.byteEnd (b.length - 1) + 100000 > now
            omega
          rw [if_pos this]
          rfl
        rw [e1] at this
        have hh := List.append_inj_left' this rfl
        rw [hh]
        exact List.filter_sublist
      refine ⟨e3.trans h.rate, e6, e5.trans h.corrupt, ?_, ?_, ?_, ?_, ?_, by simp only [List.length_set]; exact h.xl,
        by rw [e4]; simp only [List.length_set]; exact h.xs, List.getElem?_set_self h.xl, h.online, h.alive, hinv', h1, h3, h4,
        by show c'.s.p.rate = _; rw [h2]; exact h.prate, by show c'.s.p.slotBits = _; rw [h2]; exact h.pslot⟩
      · rw [e1]
        unfold CChained
        rw [List.pairwise_append]
        refine ⟨List.Pairwise.sublist hsub h.chained, List.pairwise_singleton _ _, ?_⟩
        intro o ho t ht
        simp only [List.mem_singleton] at ht
        subst ht
        exact hends o (e2 o ho)
      · intro t ht
        rw [e1] at ht
        rcases List.mem_append.1 ht with ht | ht
        · exact h.live t (e2 t ht)
        · simp only [List.mem_singleton] at ht; subst ht; rfl
      · intro t ht
        rw [e1] at ht
        rcases List.mem_append.1 ht with ht | ht
        · exact h.pos t (e2 t ht)
        · simp only [List.mem_singleton] at ht; subst ht; exact hbl
      · intro o ho
        rw [e1] at ho
        rw [e4]
        simp only
        rw [seen_set_self _ _ _ h.xs]
        rcases List.mem_append.1 ho with ho | ho
        · exact .inr (hends o (e2 o ho))
        · simp only [List.mem_singleton] at ho; subst ho; exact .inl rfl
      · intro o ho hs
        rw [e1] at ho
        rcases List.mem_append.1 ho with ho | ho
        · have := hends o (e2 o ho); omega
        · simp only [List.mem_singleton] at ho; subst ho
          unfold cEnd
          exact hbe
  · cases htx : c'.tx with
    | none => simp only; rw [seen_set_self _ _ _ h.xs]
    | some b =>
      simp only
      obtain ⟨old', e1, e2, e3, e4, e5, e6⟩ := Bus.send_txs { n.bus with seen := n.bus.seen.set x now } x now b h.drops hrate
      rw [e4]; simp only; rw [seen_set_self _ _ _ h.xs]

/-- A poll of the lone station not later than its stamp: nothing happens. -/
theorem solo_ongoing {cfg : Cfg} {n : Net} {x : Nat} {st : NetStation} {l : Int} (h : Solo cfg n x st l) (hr : 0 < cfg.rate)
    (now : Int) (hown : n.bus.seen.getD x 0 < now) (hle : now ≤ l) (hno : st.s.st ≠ .offline) (hnp : st.s.st ≠ .passiveIdle) :
    ∃ n', n.poll x now = (n', [], some (.ok { s := st.s, apps := st.apps, rx := [] })) ∧ Solo cfg n' x st l ∧
      n'.bus.seen.getD x 0 = now := by
  have hp := poll_ongoing st.s st.apps now (Bus.transmitting { n.bus with seen := n.bus.seen.set x now } x now) (st.rx ++ [])
    h.son hno hnp l h.stamp hle
  have hpe := Net.poll_eq n x now st _ [] _ h.gx h.alive h.online (h.deliver hr now (Int.le_of_lt hown)) hp
  simp only [List.append_nil, h.rx] at hpe
  have hsame : ({ st with s := st.s, apps := st.apps, rx := [] } : NetStation) = st := by rw [← h.rx]
  rw [hsame] at hpe
  refine ⟨_, hpe, ?_, ?_⟩
  · refine ⟨h.rate, h.drops, h.corrupt, h.chained, h.live, h.pos, ?_, h.ends, by simp only [List.length_set]; exact h.xl,
      by simp only [List.length_set]; exact h.xs, List.getElem?_set_self h.xl, h.online, h.alive, h.inv, h.son, h.rx,
      h.stamp, h.prate, h.pslot⟩
    intro o ho
    simp only
    rw [seen_set_self _ _ _ h.xs]
    exact (h.done o ho).imp id (fun hh => by omega)
  · simp only; rw [seen_set_self _ _ _ h.xs]

/-! ## Stages of the lone claimant -/

theorem claim_waits (c : Ctx) (now l : Int) (fuel : Nat) (step : ClaimStep)
    (hstep : step = .firstToken ∨ step = .secondToken ∨ step = .scan)
    (hst : c.s.st = .claimToken step) (hl : c.s.lastBusActivity = some l) (hw : now ≤ l + (c.s.p.bits 33 : Nat)) :
    doClaimToken c now (fuel + 1) = .ok c := by
  unfold doClaimToken
  simp only [hst]
  rcases hstep with rfl | rfl | rfl <;>
    (simp only [waitSync_some _ _ _ hl, decide_eq_true_eq]; rw [if_pos hw])

theorem pass_waits (c : Ctx) (now l : Int) (g : Bool) (att : Attempt) (hst : c.s.st = .passToken g att)
    (hl : c.s.lastBusActivity = some l) (hw : now ≤ l + (c.s.p.bits 33 : Nat)) : doPassToken c now = .ok c := by
  unfold doPassToken
  simp only [hst, waitSync_some _ _ _ hl, decide_eq_true_eq]
  rw [if_pos hw]

/-- Stages: second claim token pending; scanning behind `cur`; awaiting the reply of `a`; sweep finished;
about to pass the token. -/
inductive SStage
  | c2
  | scan (cur : Nat)
  | await (a : Nat)
  | done
  | pass

def SStage.ok (s : Station) : SStage → Prop
  | .c2 => s.st = .claimToken .secondToken
  | .scan cur => s.st = .claimToken .scan ∧ s.gap = .doPoll cur
  | .await a => s.st = .claimToken (.scanAwait a) ∧ s.gap = .doPoll a
  | .done => s.st = .claimToken .scan ∧ ∃ r, s.gap = .waiting r
  | .pass => s.st = .passToken false .first

/-- Time the station waits after its stamp before the next step. -/
def SStage.wait (cfg : Cfg) : SStage → Nat
  | .await _ => cfg.slot
  | _ => cfg.b33

/-- One GAP request of the sweep: poll gap, request, slot time. -/
def Cfg.sweepStep (c : Cfg) : Nat := c.P + c.b66 + c.slot

/-- Worst-case time left until the token is held alone, counted from `max(last poll, stamp + wait)`. -/
def SStage.rest (cfg : Cfg) (ts hsa : Nat) : SStage → Nat
  | .c2 => cfg.P + 2 * cfg.b33 + remGap ts hsa ts * cfg.sweepStep + 3 * cfg.P
  | .scan cur => remGap ts hsa cur * cfg.sweepStep + 3 * cfg.P
  | .await a => remGap ts hsa a * cfg.sweepStep + 3 * cfg.P
  | .done => 2 * cfg.P
  | .pass => cfg.P

/-- Polls that may still pass before the next transmission, times `P`. -/
def SStage.slack (cfg : Cfg) : SStage → Nat
  | .c2 => cfg.P
  | .scan _ => 3 * cfg.P
  | .await _ => 3 * cfg.P
  | .done => 2 * cfg.P
  | .pass => cfg.P

theorem ringView_claim {ts : Nat} {r : TokenRing} (v : RingView [ts] ts r) : RingView [ts] ts r.claimToken :=
  ⟨v.ring, v.mem, v.ts, rfl, v.las, v.nbr⟩

theorem Solo.b33 {cfg : Cfg} {n : Net} {x : Nat} {st : NetStation} {l : Int} (h : Solo cfg n x st l) :
    st.s.p.bits 33 = cfg.b33 := h.bits 33
theorem Solo.slot {cfg : Cfg} {n : Net} {x : Nat} {st : NetStation} {l : Int} (h : Solo cfg n x st l) :
    st.s.p.slotTime = cfg.slot := by unfold Params.slotTime Cfg.slot; rw [h.bits, h.pslot]

/-- Outcome of one poll of the lone claimant. -/
def FormOut (cfg : Cfg) (x ts : Nat) (B : Int) (st : NetStation) (n' : Net) (c : Ctx) (now : Int) (l0 Φ : Int) : Prop :=
  (c.s.st = .useToken ⟨now, none⟩ false ∧ c.tx = some (selfToken ts) ∧ RingView [ts] ts c.s.ring ∧ Inv c.s c.apps ∧
     n'.stations[x]? = some (upSt st c)) ∨
  (∃ (stage' : SStage) (l' : Int), Solo cfg n' x (upSt st c) l' ∧ stage'.ok c.s ∧ RingView [ts] ts c.s.ring ∧ c.s.p = st.s.p ∧
     (c.tx = none ∨ c.tx = some (selfToken ts) ∨ ∃ a, a ≠ ts ∧ a < st.s.p.hsa ∧ c.tx = some (statusRequestBytes a ts) ∧ stage' = .await a ∧ l' = now + (cfg.b66 : Nat)) ∧
     max now (l' + ((stage'.wait cfg : Nat) : Int)) + ((stage'.rest cfg ts st.s.p.hsa : Nat) : Int) ≤ B ∧
     (c.tx = none → l' = l0 ∧ max now (l' + ((stage'.wait cfg : Nat) : Int)) + ((stage'.slack cfg : Nat) : Int) ≤ Φ) ∧
     (c.tx ≠ none → now ≤ l') ∧
     (c.s.st = .claimToken .secondToken → st.s.st = .claimToken .secondToken ∧ c.tx = none) ∧
     (c.tx = some (selfToken ts) → st.s.st = .claimToken .secondToken) ∧ c.s.pendingBytes = st.s.pendingBytes)

/-- **One poll of the lone claimant**: it happens no later than `max(last poll, stamp + wait) + P`; the station
either completes the formation of its one-station ring (token to itself, `UseToken`) or is in the next stage
with the time budget kept. -/
theorem form_step {cfg : Cfg} {n : Net} {x : Nat} {st : NetStation} {l : Int} (h : Solo cfg n x st l) (hok : cfg.Ok)
    (stage : SStage) (hs : stage.ok st.s) (hv : RingView [st.s.p.address] st.s.p.address st.s.ring)
    (B : Int) (now : Int) (hown : n.bus.seen.getD x 0 < now) (hP : now ≤ n.bus.seen.getD x 0 + (cfg.P : Nat))
    (hB : max (n.bus.seen.getD x 0) (l + ((stage.wait cfg : Nat) : Int)) + ((stage.rest cfg st.s.p.address st.s.p.hsa : Nat) : Int) ≤ B) :
    ∃ n' c, n.poll x now = (n', [], some (.ok c)) ∧ n'.bus.seen.getD x 0 = now ∧
      now ≤ max (n.bus.seen.getD x 0) (l + ((stage.wait cfg : Nat) : Int)) + (cfg.P : Nat) ∧
      FormOut cfg x st.s.p.address B st n' c now l
        (max (n.bus.seen.getD x 0) (l + ((stage.wait cfg : Nat) : Int)) + ((stage.slack cfg : Nat) : Int)) := by
  have hr := hok.rate
  have hmar := hok.margin
  have hc2 := cfg.ce2 hr
  have hc5 := cfg.ce5 hr
  have hb33 := h.b33
  have hslot := h.slot
  have hns : st.s.ring.ns = st.s.p.address := by rw [hv.ns.1, cycSucc_single]
  have hno : st.s.st ≠ .offline ∧ st.s.st ≠ .passiveIdle := by
    cases stage <;> simp only [SStage.ok] at hs
    · rw [hs]; simp
    · rw [hs.1]; simp
    · rw [hs.1]; simp
    · rw [hs.1]; simp
    · rw [hs]; simp
  have hup : upSt st { s := st.s, apps := st.apps, rx := [] } = st := by
    unfold upSt; rw [← h.rx]
  -- nothing happens: same stage, same stamp
  have same : ∀ n', Solo cfg n' x st l → now ≤ l + ((stage.wait cfg : Nat) : Int) →
      FormOut cfg x st.s.p.address B st n' { s := st.s, apps := st.apps, rx := [] } now l
        (max (n.bus.seen.getD x 0) (l + ((stage.wait cfg : Nat) : Int)) + ((stage.slack cfg : Nat) : Int)) := by
    intro n' hS hw
    unfold FormOut
    exact Or.inr ⟨stage, l, by rw [hup]; exact hS, hs, hv, rfl, .inl rfl, by omega, fun _ => ⟨rfl, by omega⟩,
      fun h => absurd rfl h, fun h => ⟨h, rfl⟩, (fun h => by cases h), rfl⟩
  by_cases hle : now ≤ l
  · obtain ⟨n', hp, hS, hseen⟩ := solo_ongoing h hr now hown hle hno.1 hno.2
    exact ⟨n', _, hp, hseen, by omega, same n' hS (by omega)⟩
  have hlt : l < now := by omega
  have hgapc : ∀ cur, st.s.gap = .doPoll cur → cur < st.s.p.hsa := h.inv.gap
  by_cases hw : now ≤ l + ((stage.wait cfg : Nat) : Int)
  · -- the station still waits
    have hdw : dispatch { s := st.s, apps := st.apps, rx := [] } now = .ok { s := st.s, apps := st.apps, rx := [] } := by
      unfold dispatch
      cases stage <;> simp only [SStage.ok, SStage.wait] at hs hw
      · simp only [hs]
        exact claim_waits _ now l 1 .secondToken (.inr (.inl rfl)) hs h.stamp (by rw [hb33]; exact hw)
      · simp only [hs.1]
        exact claim_waits _ now l 1 .scan (.inr (.inr rfl)) hs.1 h.stamp (by rw [hb33]; exact hw)
      · rename_i a
        simp only [hs.1]
        rw [claimAwait_exact _ now l 1 a hs.1 rfl h.stamp hs.2 (h.inv.await2 a hs.1).2]
        rw [if_neg (by rw [hslot]; omega)]
      · simp only [hs.1]
        exact claim_waits _ now l 1 .scan (.inr (.inr rfl)) hs.1 h.stamp (by rw [hb33]; exact hw)
      · simp only [hs]
        exact pass_waits _ now l false .first hs h.stamp (by rw [hb33]; exact hw)
    obtain ⟨n', hp, hS, hseen⟩ := solo_step h hr now hown hlt _ hno.1 hno.2 hdw l h.son rfl rfl h.stamp (Int.le_refl _)
      (fun b hb => by cases hb)
    exact ⟨n', _, hp, hseen, by omega, same n' (by rw [hup] at hS; exact hS) hw⟩
  -- the station acts
  have hts := h.inv.addr
  have hhsa := h.inv.hsa
  -- a scan step from a context in `ClaimToken(Scan)` behind `cur`
  have scanStep : ∀ (c0 : Ctx) (fuel cur : Nat), c0 = { s := { st.s with st := .claimToken .scan }, apps := st.apps, rx := [] } →
      st.s.gap = .doPoll cur → l + (cfg.b33 : Nat) < now →
      max (n.bus.seen.getD x 0) (l + ((stage.wait cfg : Nat) : Int)) + (cfg.P : Nat) +
        ((remGap st.s.p.address st.s.p.hsa cur * cfg.sweepStep + 2 * cfg.P : Nat) : Int) ≤ B →
      3 * cfg.P ≤ stage.slack cfg →
      ∀ c, doClaimToken c0 now (fuel + 1) = .ok c → dispatch { s := st.s, apps := st.apps, rx := [] } now = .ok c →
      ∃ n', n.poll x now = (n', [], some (.ok c)) ∧ n'.bus.seen.getD x 0 = now ∧ FormOut cfg x st.s.p.address B st n' c now l
        (max (n.bus.seen.getD x 0) (l + ((stage.wait cfg : Nat) : Int)) + ((stage.slack cfg : Nat) : Int)) := by
    intro c0 fuel cur hc0 hg hsy hBud hsl c hdc hd
    subst hc0
    have hcur := hgapc cur hg
    rcases nextGap_alone st.s.p.address st.s.p.hsa cur hts hcur hhsa with ⟨hrem, hn⟩ | ⟨a, hn, hne, ha, hrem⟩
    · rw [claimScan_end _ now l fuel cur rfl h.stamp (by rw [hb33]; exact hsy) hg (by rw [hns]; exact hn)] at hdc
      cases hdc
      obtain ⟨n', hp, hS, hseen⟩ := solo_step h hr now hown hlt _ hno.1 hno.2 hd l h.son rfl rfl h.stamp (Int.le_refl _)
        (fun b hb => by cases hb)
      refine ⟨n', hp, hseen, ?_⟩
      unfold FormOut
      refine Or.inr ⟨.done, l, hS, ⟨rfl, 0, rfl⟩, hv, rfl, .inl rfl, ?_, fun _ => ⟨rfl, ?_⟩, fun h => absurd rfl h,
        (fun h => by cases h), (fun h => by cases h), rfl⟩
      · simp only [SStage.wait, SStage.rest]
        rw [hrem] at hBud
        push_cast at hBud ⊢
        omega
      · have e1 : SStage.wait cfg .done = cfg.b33 := rfl
        have e2 : SStage.slack cfg .done = 2 * cfg.P := rfl
        rw [e1, e2]
        push_cast
        omega
    · rw [claimScan_poll _ now l fuel cur a rfl rfl h.stamp (by rw [hb33]; exact hsy) hg (by rw [hns]; exact hn) hne] at hdc
      cases hdc
      have hst' : (claimReqS { st.s with st := .claimToken .scan } now a).lastBusActivity = some (now + (cfg.b66 : Nat)) := by
        unfold claimReqS markTx
        simp only
        rw [show st.s.p.bits (11 * 6) = cfg.b66 from h.bits 66]
      obtain ⟨n', hp, hS, hseen⟩ := solo_step h hr now hown hlt _ hno.1 hno.2 hd (now + (cfg.b66 : Nat)) h.son rfl rfl hst'
        (by omega) (fun b hb => by
          cases hb
          rw [statusRequestBytes_length]
          refine ⟨by omega, ?_⟩
          show now + ((cfg.ce 5 : Nat) : Int) ≤ _
          omega)
      refine ⟨n', hp, hseen, ?_⟩
      unfold FormOut
      refine Or.inr ⟨.await a, now + (cfg.b66 : Nat), hS, ⟨rfl, rfl⟩, hv, rfl, .inr (.inr ⟨a, hne, ha, rfl, rfl, rfl⟩), ?_,
        (fun h => by cases h), (fun _ => by omega), (fun h => by cases h),
        (fun h => by
          have := congrArg List.length (Option.some.inj h)
          rw [statusRequestBytes_length] at this
          exact absurd this (by show ¬ (6 = 3); decide)), rfl⟩
      simp only [SStage.wait, SStage.rest]
      rw [← hrem, Nat.add_mul, Nat.one_mul] at hBud
      unfold Cfg.sweepStep at hBud ⊢
      push_cast at hBud ⊢
      omega
  have hnP : now ≤ max (n.bus.seen.getD x 0) (l + ((stage.wait cfg : Nat) : Int)) + (cfg.P : Nat) := by omega
  cases stage with
  | c2 =>
    simp only [SStage.ok, SStage.wait, SStage.rest] at hs hw hB hnP
    have hd : dispatch { s := st.s, apps := st.apps, rx := [] } now =
        .ok { s := claimTokS st.s now .secondToken, apps := st.apps, rx := [], tx := some (selfToken st.s.p.address) } := by
      unfold dispatch
      simp only [hs]
      rw [claimTok_exact _ now l 1 .secondToken (.inr rfl) hs rfl h.stamp (by rw [hb33]; omega)]
    have hst' : (claimTokS st.s now .secondToken).lastBusActivity = some (now + (cfg.b33 : Nat)) := by
      unfold claimTokS markTx
      simp only
      rw [show st.s.p.bits (11 * 3) = cfg.b33 from h.bits 33]
    obtain ⟨n', hp, hS, hseen⟩ := solo_step h hr now hown hlt _ hno.1 hno.2 hd (now + (cfg.b33 : Nat)) h.son rfl rfl hst'
      (by omega) (fun b hb => by
        cases hb
        refine ⟨by show 0 < 3; omega, ?_⟩
        show now + ((cfg.ce 2 : Nat) : Int) ≤ _
        omega)
    refine ⟨n', _, hp, hseen, hnP, ?_⟩
    unfold FormOut
    refine Or.inr ⟨.scan st.s.p.address, now + (cfg.b33 : Nat), hS, ⟨rfl, rfl⟩, ringView_claim hv, rfl, .inr (.inl rfl), ?_,
      (fun h => by cases h), (fun _ => by omega), (fun h => by cases h), fun _ => hs, rfl⟩
    simp only [SStage.wait, SStage.rest]
    push_cast at hB ⊢
    omega
  | scan cur =>
    simp only [SStage.ok, SStage.wait, SStage.rest] at hs hw hB hnP
    have hsame : ({ st.s with st := .claimToken .scan } : Station) = st.s := by
      have := hs.1
      cases hst : st.s
      rw [hst] at this
      simp only at this
      subst this
      rfl
    have hd0 : dispatch { s := st.s, apps := st.apps, rx := [] } now = doClaimToken { s := st.s, apps := st.apps, rx := [] } now 2 := by
      unfold dispatch; simp only [hs.1]
    cases hdc : doClaimToken { s := st.s, apps := st.apps, rx := [] } now 2 with
    | panic m =>
      exfalso
      obtain ⟨c', hc', -, -⟩ := pollInner_good { s := st.s, apps := st.apps, rx := [] } now false h.inv rfl
      have : st.s.poll st.apps now false [] = .ok c' := hc'
      rw [poll_dispatch st.s st.apps now [] h.son hno.1 hno.2 (by intro l0 hl0; rw [h.stamp] at hl0; cases hl0; exact hlt)] at this
      simp only [List.length_nil, checkBus_nil] at this
      rw [hd0, hdc] at this
      cases this
    | ok c =>
      obtain ⟨n', hp, hseen, hout⟩ := scanStep _ 1 cur (by rw [hsame]) hs.2 (by omega)
        (by simp only [SStage.wait]; push_cast at hB ⊢; omega) (by simp only [SStage.slack]; omega) c hdc (by rw [hd0]; exact hdc)
      exact ⟨n', c, hp, hseen, hnP, hout⟩
  | await a =>
    simp only [SStage.ok, SStage.wait, SStage.rest] at hs hw hB hnP
    have hd0 : dispatch { s := st.s, apps := st.apps, rx := [] } now =
        doClaimToken { s := { st.s with st := .claimToken .scan }, apps := st.apps, rx := [] } now 1 := by
      unfold dispatch
      simp only [hs.1]
      rw [claimAwait_exact _ now l 1 a hs.1 rfl h.stamp hs.2 (h.inv.await2 a hs.1).2]
      rw [if_pos (by rw [hslot]; omega)]
    cases hdc : doClaimToken { s := { st.s with st := .claimToken .scan }, apps := st.apps, rx := [] } now 1 with
    | panic m =>
      exfalso
      obtain ⟨c', hc', -, -⟩ := pollInner_good { s := st.s, apps := st.apps, rx := [] } now false h.inv rfl
      have : st.s.poll st.apps now false [] = .ok c' := hc'
      rw [poll_dispatch st.s st.apps now [] h.son hno.1 hno.2 (by intro l0 hl0; rw [h.stamp] at hl0; cases hl0; exact hlt)] at this
      simp only [List.length_nil, checkBus_nil] at this
      rw [hd0, hdc] at this
      cases this
    | ok c =>
      obtain ⟨n', hp, hseen, hout⟩ := scanStep _ 0 a rfl hs.2 (by omega)
        (by simp only [SStage.wait]; push_cast at hB ⊢; omega) (by simp only [SStage.slack]; omega) c hdc (by rw [hd0]; exact hdc)
      exact ⟨n', c, hp, hseen, hnP, hout⟩
  | done =>
    simp only [SStage.ok, SStage.wait, SStage.rest] at hs hw hB hnP
    obtain ⟨hs1, r, hg⟩ := hs
    have hd : dispatch { s := st.s, apps := st.apps, rx := [] } now =
        .ok { s := { st.s with st := .passToken false .first }, apps := st.apps, rx := [] } := by
      unfold dispatch
      simp only [hs1]
      rw [claimScan_done _ now l 1 r hs1 h.stamp (by rw [hb33]; omega) hg]
    obtain ⟨n', hp, hS, hseen⟩ := solo_step h hr now hown hlt _ hno.1 hno.2 hd l h.son rfl rfl h.stamp (Int.le_refl _)
      (fun b hb => by cases hb)
    refine ⟨n', _, hp, hseen, hnP, ?_⟩
    unfold FormOut
    refine Or.inr ⟨.pass, l, hS, rfl, hv, rfl, .inl rfl, ?_, fun _ => ⟨rfl, ?_⟩, fun h => absurd rfl h,
      (fun h => by cases h), (fun h => by cases h), rfl⟩
    · simp only [SStage.wait, SStage.rest]
      push_cast at hB ⊢
      omega
    · simp only [SStage.wait, SStage.slack]
      push_cast
      omega
  | pass =>
    simp only [SStage.ok, SStage.wait, SStage.rest] at hs hw hB hnP
    obtain ⟨c', hc', hinv', -⟩ := pollInner_good { s := st.s, apps := st.apps, rx := [] } now false h.inv rfl
    have hpd : st.s.poll st.apps now false [] = .ok c' := hc'
    rw [poll_dispatch st.s st.apps now [] h.son hno.1 hno.2 (by intro l0 hl0; rw [h.stamp] at hl0; cases hl0; exact hlt)] at hpd
    simp only [List.length_nil, checkBus_nil] at hpd
    have hd := hpd
    unfold dispatch at hpd
    simp only [hs] at hpd
    obtain ⟨a1, a2, -, a4, a5, a6, a7⟩ := doPassToken_exact { s := st.s, apps := st.apps, rx := [] } c' now l false .first hs rfl
      h.stamp (by rw [hb33]; omega) hpd
    rcases a7 with ⟨_, _, hf, -⟩ | ⟨b1, b2, b3, b4⟩
    · cases hf
    simp only at b1 b2 b3 b4
    rw [hns] at b1 b2 b3
    have hv2 : RingView [st.s.p.address] st.s.p.address (st.s.ring.witness st.s.p.address st.s.p.address) := by
      have := hv.witness
      rw [cycSucc_single] at this
      exact this
    have hst' : c'.s.st = .useToken ⟨now, none⟩ false := by
      rw [b3, hv2.ns.1, cycSucc_single, if_pos rfl]
    have hl' : c'.s.lastBusActivity = some (now + (cfg.b33 : Nat)) := by
      rw [b4, show st.s.p.bits (11 * 3) = cfg.b33 from h.bits 33]
    obtain ⟨n', hp, hS, hseen⟩ := solo_step h hr now hown hlt c' hno.1 hno.2 hd (now + (cfg.b33 : Nat)) (a5.trans h.son) a4 a1 hl'
      (by omega) (fun b hb => by
        rw [b1] at hb
        cases hb
        refine ⟨by show 0 < 3; omega, ?_⟩
        show now + ((cfg.ce 2 : Nat) : Int) ≤ _
        omega)
    refine ⟨n', c', hp, hseen, hnP, ?_⟩
    unfold FormOut
    exact Or.inl ⟨hst', b1, by rw [b2]; exact hv2, hinv', hS.gx⟩

/-! ## Whole runs of the lone claimant -/

/-- What the lone claimant may transmit. -/
def FormTx (ts : Nat) (c : Ctx) : Prop :=
  c.tx = none ∨ c.tx = some (selfToken ts) ∨ ∃ a, a ≠ ts ∧ c.tx = some (statusRequestBytes a ts)

/-- **Run of the lone claimant until its one-station ring stands** (`B` = latest time): every poll returns
regularly and receives nothing; the station transmits only self-addressed tokens and GAP requests to other
addresses; until the ring stands every poll happens no later than `B` and leaves the station in `ClaimToken` or
`PassToken`; the poll that completes the formation sends the token to the station itself, which is then in
`UseToken` with the ring view of the one-member ring; all later polls return regularly. -/
def FormRun (x ts : Nat) (B : Int) : Net → List Int → Prop
  | _, [] => True
  | n, now :: rest =>
    ∃ n' c, n.poll x now = (n', [], some (.ok c)) ∧ now ≤ B ∧ FormTx ts c ∧
      ((c.s.st = .useToken ⟨now, none⟩ false ∧ c.tx = some (selfToken ts) ∧ RingView [ts] ts c.s.ring ∧
          SoloRun x n' rest) ∨
       (((∃ step, c.s.st = .claimToken step) ∨ c.s.st = .passToken false .first) ∧ FormRun x ts B n' rest))

theorem SStage.rest_ge (cfg : Cfg) (ts hsa : Nat) (stage : SStage) : cfg.P ≤ stage.rest cfg ts hsa := by
  cases stage <;> simp only [SStage.rest] <;> omega

theorem SStage.ok_state {s : Station} {stage : SStage} (h : stage.ok s) :
    (∃ step, s.st = .claimToken step) ∨ s.st = .passToken false .first := by
  cases stage <;> simp only [SStage.ok] at h
  · exact .inl ⟨_, h⟩
  · exact .inl ⟨_, h.1⟩
  · exact .inl ⟨_, h.1⟩
  · exact .inl ⟨_, h.1⟩
  · exact .inr h

theorem solo_forms {cfg : Cfg} (hok : cfg.Ok) (x ts hsa : Nat) (B : Int) :
    ∀ (evs : List Int) (n : Net) (st : NetStation) (l : Int) (stage : SStage), Solo cfg n x st l → stage.ok st.s →
    st.s.p.address = ts → st.s.p.hsa = hsa → RingView [ts] ts st.s.ring →
    max (n.bus.seen.getD x 0) (l + ((stage.wait cfg : Nat) : Int)) + ((stage.rest cfg ts hsa : Nat) : Int) ≤ B →
    SchedXT cfg.P (n.bus.seen.getD x 0) evs → FormRun x ts B n evs := by
  intro evs
  induction evs with
  | nil => intro _ _ _ _ _ _ _ _ _ _ _; trivial
  | cons now rest ih =>
    intro n st l stage h hs hts hhsa hv hB hsch
    obtain ⟨hlt, hle, hrest⟩ := hsch
    subst hts hhsa
    obtain ⟨n', c, hp, hseen, hnow, hout⟩ := form_step h hok stage hs hv B now hlt hle hB
    have hrg := SStage.rest_ge cfg st.s.p.address st.s.p.hsa stage
    refine ⟨n', c, hp, by omega, ?_, ?_⟩
    · rcases hout with ⟨-, b, -⟩ | ⟨_, _, -, -, -, -, b, -, -, -, -⟩
      · exact .inr (.inl b)
      · rcases b with b | b | ⟨a, b1, -, b3, -⟩
        · exact .inl b
        · exact .inr (.inl b)
        · exact .inr (.inr ⟨a, b1, b3⟩)
    · rcases hout with ⟨a1, a2, a3, a4, a5⟩ | ⟨stage', l', hS, hs', hv', hp', -, hB', -, -⟩
      · exact .inl ⟨a1, a2, a3, solo_regular x rest n' (upSt st c) a5 h.alive h.online a4⟩
      · refine .inr ⟨SStage.ok_state hs', ?_⟩
        have e1 : (upSt st c).s.p.address = st.s.p.address := by show c.s.p.address = _; rw [hp']
        have e2 : (upSt st c).s.p.hsa = st.s.p.hsa := by show c.s.p.hsa = _; rw [hp']
        exact ih n' (upSt st c) l' stage' hS hs' e1 e2 hv' (by rw [hseen]; exact hB') (by rw [hseen]; exact hrest)

/-! ## From listening on a silent bus to the first claim -/

theorem listen_dispatch_quiet (c : Ctx) (now l : Int) (coll : Nat) (hst : c.s.st = .listenToken none coll) (hrx : c.rx = [])
    (hl : c.s.lastBusActivity = some l) (hw : now < l + (c.s.p.tokenLostTimeout : Nat)) (hlt : l < now) :
    dispatch c now = .ok c := by
  unfold dispatch
  simp only [hst]
  unfold doListenToken
  simp only [hst]
  rw [handleLost_quiet c now l hl (by show ¬ (now - l).natAbs ≥ c.s.p.tokenLostTimeout; omega)]
  simp only [hst, hrx, receiveAll_nil, foldTelegrams]
  cases c
  simp only at hrx
  subst hrx
  rfl

/-- Time budget of the formation after the first claim token (sent at `q`): the ring stands by `q + formTime`. -/
def Cfg.formTime (c : Cfg) (hsa : Nat) : Nat :=
  2 * c.b33 + (c.P + 2 * c.b33 + (hsa - 1) * c.sweepStep + 3 * c.P)

/-- The lone listener is polled before its time-out: nothing happens. -/
theorem lone_listen_wait {cfg : Cfg} {n : Net} {x : Nat} {st : NetStation} {l : Int} (h : Solo cfg n x st l) (hok : cfg.Ok)
    (coll : Nat) (hst : st.s.st = .listenToken none coll) (now : Int) (hown : n.bus.seen.getD x 0 < now)
    (hw : now < l + (st.s.p.tokenLostTimeout : Nat)) :
    ∃ n' c, n.poll x now = (n', [], some (.ok c)) ∧ c.tx = none ∧ Solo cfg n' x st l ∧ n'.bus.seen.getD x 0 = now := by
  have hno : st.s.st ≠ .offline ∧ st.s.st ≠ .passiveIdle := by rw [hst]; simp
  have hup : upSt st { s := st.s, apps := st.apps, rx := [] } = st := by unfold upSt; rw [← h.rx]
  by_cases hle : now ≤ l
  · obtain ⟨n', hp, hS, hseen⟩ := solo_ongoing h hok.rate now hown hle hno.1 hno.2
    exact ⟨n', _, hp, rfl, hS, hseen⟩
  · have hd := listen_dispatch_quiet { s := st.s, apps := st.apps, rx := [] } now l coll hst rfl h.stamp hw (by omega)
    obtain ⟨n', hp, hS, hseen⟩ := solo_step h hok.rate now hown (by omega) _ hno.1 hno.2 hd l h.son rfl rfl h.stamp
      (Int.le_refl _) (fun b hb => by cases hb)
    rw [hup] at hS
    exact ⟨n', _, hp, rfl, hS, hseen⟩

/-- The poll at which the lone listener's time-out has run out: the first claim token; the station is in the
stage `c2` of the formation. -/
theorem lone_listen_claim {cfg : Cfg} {n : Net} {x : Nat} {st : NetStation} {l : Int} (h : Solo cfg n x st l) (hok : cfg.Ok)
    (coll : Nat) (hst : st.s.st = .listenToken none coll) (now : Int) (hown : n.bus.seen.getD x 0 < now)
    (hexp : l + (st.s.p.tokenLostTimeout : Nat) ≤ now) (hsync : cfg.b33 < st.s.p.tokenLostTimeout)
    (hv : RingView [st.s.p.address] st.s.p.address st.s.ring.claimToken) :
    ∃ n' c, n.poll x now = (n', [], some (.ok c)) ∧ n'.bus.seen.getD x 0 = now ∧ c.tx = some (selfToken st.s.p.address) ∧
      Solo cfg n' x (upSt st c) (now + (cfg.b33 : Nat)) ∧ SStage.c2.ok c.s ∧
      RingView [st.s.p.address] st.s.p.address c.s.ring ∧ c.s.p = st.s.p ∧ c.s.pendingBytes = st.s.pendingBytes := by
  have hno : st.s.st ≠ .offline ∧ st.s.st ≠ .passiveIdle := by rw [hst]; simp
  have hc2 := cfg.ce2 hok.rate
  have hb33 := h.b33
  have hd : dispatch { s := st.s, apps := st.apps, rx := [] } now =
      .ok { s := claimTokS { st.s with st := .claimToken .firstToken } now .firstToken, apps := st.apps, rx := [],
            tx := some (selfToken st.s.p.address) } := by
    rw [idle_claims { s := st.s, apps := st.apps, rx := [] } now l ⟨h.son, rfl, rfl, h.stamp⟩ (.inr ⟨none, coll, hst⟩)
      (by show (now - l).natAbs ≥ st.s.p.tokenLostTimeout; omega)]
    rw [claimTok_exact _ now l 1 .firstToken (.inl rfl) rfl rfl h.stamp (by show l + ((st.s.p.bits 33 : Nat) : Int) < now; rw [hb33]; omega)]
  have hst' : (claimTokS { st.s with st := .claimToken .firstToken } now .firstToken).lastBusActivity = some (now + (cfg.b33 : Nat)) := by
    unfold claimTokS markTx
    simp only
    rw [show st.s.p.bits (11 * 3) = cfg.b33 from h.bits 33]
  obtain ⟨n', hp, hS, hseen⟩ := solo_step h hok.rate now hown (by omega) _ hno.1 hno.2 hd (now + (cfg.b33 : Nat)) h.son rfl rfl hst'
    (by omega) (fun b hb => by
      cases hb
      refine ⟨by show 0 < 3; omega, ?_⟩
      show now + ((cfg.ce 2 : Nat) : Int) ≤ _
      omega)
  exact ⟨n', _, hp, hseen, rfl, hS, rfl, hv, rfl, rfl⟩

/-- **Run of a station that is alone on a silent bus** (`T` = stamp + token-lost time-out, `lim` = latest time of
the first claim, `D` = time budget of the formation): every poll returns regularly and receives nothing; nothing
is transmitted before `T`; the first poll at or after `T`, no later than `lim`, transmits the first claim token;
from there the run is a `FormRun` that completes no later than `D` after that poll. -/
def LoneRun (x ts : Nat) (T lim : Int) (D : Nat) : Net → List Int → Prop
  | _, [] => True
  | n, now :: rest =>
    ∃ n' c, n.poll x now = (n', [], some (.ok c)) ∧
      ((c.tx = none ∧ now < T ∧ LoneRun x ts T lim D n' rest) ∨
       (T ≤ now ∧ now ≤ lim ∧ c.tx = some (selfToken ts) ∧ c.s.st = .claimToken .secondToken ∧
          FormRun x ts (now + (D : Int)) n' rest))

theorem remGap_self (ts hsa : Nat) (h : ts < hsa) : remGap ts hsa ts = hsa - 1 := by
  unfold remGap; rw [if_neg (by omega)]; omega

theorem lone_cold_start {cfg : Cfg} (hok : cfg.Ok) (x : Nat) (st : NetStation) (l : Int) (coll : Nat) (S : Int) :
    ∀ (evs : List Int) (n : Net), Solo cfg n x st l → st.s.st = .listenToken none coll →
    cfg.b33 < st.s.p.tokenLostTimeout → RingView [st.s.p.address] st.s.p.address st.s.ring.claimToken →
    n.bus.seen.getD x 0 ≤ S → l + (st.s.p.tokenLostTimeout : Nat) ≤ S → SchedXT cfg.P (n.bus.seen.getD x 0) evs →
    LoneRun x st.s.p.address (l + (st.s.p.tokenLostTimeout : Nat)) (S + (cfg.P : Nat)) (cfg.formTime st.s.p.hsa) n evs := by
  intro evs
  induction evs with
  | nil => intro _ _ _ _ _ _ _ _; trivial
  | cons now rest ih =>
    intro n h hst hsync hv hS hT hsch
    obtain ⟨hlt, hle, hrest⟩ := hsch
    by_cases hw : now < l + (st.s.p.tokenLostTimeout : Nat)
    · obtain ⟨n', c, hp, htx, hS', hseen⟩ := lone_listen_wait h hok coll hst now hlt hw
      refine ⟨n', c, hp, .inl ⟨htx, hw, ?_⟩⟩
      exact ih n' hS' hst hsync hv (by rw [hseen]; omega) hT (by rw [hseen]; exact hrest)
    · obtain ⟨n', c, hp, hseen, htx, hS', hs2, hv', hp', -⟩ := lone_listen_claim h hok coll hst now hlt (by omega) hsync hv
      refine ⟨n', c, hp, .inr ⟨by omega, by omega, htx, hs2, ?_⟩⟩
      have e1 : (upSt st c).s.p.address = st.s.p.address := by show c.s.p.address = _; rw [hp']
      have e2 : (upSt st c).s.p.hsa = st.s.p.hsa := by show c.s.p.hsa = _; rw [hp']
      refine solo_forms hok x st.s.p.address st.s.p.hsa (now + (cfg.formTime st.s.p.hsa : Nat)) rest n' (upSt st c)
        (now + (cfg.b33 : Nat)) .c2 hS' hs2 e1 e2 hv' ?_ (by rw [hseen]; exact hrest)
      rw [hseen]
      simp only [SStage.wait, SStage.rest, remGap_self _ _ h.inv.addr]
      unfold Cfg.formTime
      push_cast
      omega

end PV
