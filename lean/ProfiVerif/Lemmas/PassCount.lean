/-
Counting form of pass supervision (C11): how often the token is transmitted to one successor before
that successor is removed from the LAS.  One-poll step lemma `pass_step` for every supervising start
state, lifted over arbitrary lists of polls (`SameRun`, `passCount_run`).  Property theorems built on
these are at the end of `Props/C11.lean`.
-/
import ProfiVerif.Lemmas.StationTrace

namespace PV
open TokenRing C05

/-- Number of the attempt: 1, 2, 3. -/
def Attempt.ord : Attempt → Nat
  | .first => 1 | .second => 2 | .third => 3

/-- **Stage of a pass**: how many times the token has been transmitted to the current successor in the
running pass, read off the FDL state.  `CheckTokenPass(att)`: `att` transmissions are out and the bus
is being watched.  `PassToken(false, second/third)`: a slot time has expired in silence after transmission
1 / 2 and the repetition waits for the synchronisation pause (these two states are entered from
`do_check_token_pass` only).  Every other state — in particular `PassToken(_, first)`, which precedes
the FIRST transmission to a (new) successor, and `PassToken(true, second/third)`, which no handler
enters — has stage 0: no pass is being supervised. -/
def sent : FState → Nat
  | .checkTokenPass att => att.ord
  | .passToken false .second => 1
  | .passToken false .third => 2
  | _ => 0

/-- The token telegram TS → NS as bytes. -/
def tokenTo (ts ns : Nat) : Bytes := sendToken (UInt8.ofNat ns) (UInt8.ofNat ts)

theorem sent_le_three (st : FState) : sent st ≤ 3 := by
  cases st with
  | checkTokenPass att => cases att <;> simp [sent, Attempt.ord]
  | passToken g att => cases g <;> cases att <;> simp [sent]
  | _ => simp [sent]

theorem sent_cases {st : FState} (h : sent st ≠ 0) :
    (∃ att, st = .checkTokenPass att) ∨ st = .passToken false .second ∨ st = .passToken false .third := by
  cases st with
  | checkTokenPass att => exact .inl ⟨att, rfl⟩
  | passToken g att =>
    cases g <;> cases att <;> simp [sent] at h ⊢
  | _ => simp [sent] at h

/-- One whole poll starting in `PassToken(g, att)`: still waiting for the synchronisation pause; a GAP
poll went out instead (only with `do_gap`); or the token went to NS. -/
theorem passTok_poll (s : Station) (apps : Apps) (now : Int) (phy : Bool) (rx : Bytes) (c' : Ctx)
    (h : s.poll apps now phy rx = .ok c') (g : Bool) (att : Attempt) (hst : s.st = .passToken g att) :
    (c'.s.st = .passToken g att ∧ c'.s.ring = s.ring ∧ c'.tx = none) ∨
    (g = true ∧ (∃ a, c'.s.st = .awaitStatus a) ∧ c'.s.ring = s.ring) ∨
    (c'.s.ring = s.ring.witness s.p.address s.ring.ns ∧
      (c'.s.st = .useToken ⟨now, none⟩ false ∨ c'.s.st = .checkTokenPass att) ∧
      c'.tx = some (tokenTo s.p.address s.ring.ns)) := by
  have hw : s.wake = s := by
    rcases wake_cases s with hw | ⟨-, ho | ho⟩
    · exact hw
    · rw [hst] at ho; cases ho
    · rw [hst] at ho; cases ho
  rcases poll_cases s apps now phy rx c' h with ⟨hoff, hst0, rfl⟩ | ⟨hon, rfl⟩ | ⟨hon, hd⟩
  · exact .inl ⟨hst, rfl, rfl⟩
  · rw [hw]
    exact .inl ⟨(markBA_st s now).trans hst, markBA_ring s now, rfl⟩
  · rw [hw] at hd
    obtain ⟨-, -, hcase⟩ := hd.pass g att ((checkBA_st _ _ _).trans hst)
    have hp : (checkBusActivity s now rx.length).p = s.p := checkBA_p _ _ _
    have hr : (checkBusActivity s now rx.length).ring = s.ring := checkBA_ring _ _ _
    rcases hcase with ⟨h1, h2, h3⟩ | ⟨h1, h2, h3⟩ | ⟨h1, h2, h3⟩
    · exact .inl ⟨h1, h2.trans hr, h3⟩
    · exact .inr (.inl ⟨h1, h2, h3.trans hr⟩)
    · refine .inr (.inr ⟨?_, h2, ?_⟩)
      · rw [h1]; simp only [hr, hp]
      · rw [h3]; simp only [hr, hp]; rfl

/-- One whole poll starting in `CheckTokenPass(att)` (the state part of `PV.C11.pass_supervision`). -/
theorem check_poll (s : Station) (apps : Apps) (now : Int) (phy : Bool) (rx : Bytes) (c' : Ctx)
    (h : s.poll apps now phy rx = .ok c') (att : Attempt) (hst : s.st = .checkTokenPass att) :
    (c'.s.st = .checkTokenPass att ∧ c'.s.ring = s.ring ∧ c'.tx = none) ∨
    (SlotExpired s now rx ∧ ∃ r0 att', RetryStep s.ring att att' r0 ∧
       ((c'.s.st = .passToken false att' ∧ c'.s.ring = r0 ∧ c'.tx = none) ∨
        (c'.s.ring = r0.witness s.p.address r0.ns ∧
           (c'.s.st = .useToken ⟨now, none⟩ false ∨ c'.s.st = .checkTokenPass att') ∧
           c'.tx = some (tokenTo s.p.address r0.ns)))) ∨
    (¬ SlotExpired s now rx ∧ ∃ rx' calls ret, receiveAll rx = .done rx' calls ret ∧ calls ≠ [] ∧
       HeardEvo calls s.ring c'.s.ring ∧ c'.tx = none ∧
       ((∃ sr' np' coll', c'.s.st = .activeIdle sr' np' coll') ∨ (∃ a b, c'.s.st = .listenToken a b) ∨
        (∃ d f, c'.s.st = .useToken d f))) := by
  have hw : s.wake = s := by
    rcases wake_cases s with hw | ⟨-, ho | ho⟩
    · exact hw
    · rw [hst] at ho; cases ho
    · rw [hst] at ho; cases ho
  rcases poll_cases s apps now phy rx c' h with ⟨hoff, hst0, rfl⟩ | ⟨hon, rfl⟩ | ⟨hon, hd⟩
  · exact .inl ⟨hst, rfl, rfl⟩
  · rw [hw]
    exact .inl ⟨(markBA_st s now).trans hst, markBA_ring s now, rfl⟩
  · rw [hw] at hd
    obtain ⟨-, -, hcase⟩ := hd.check att ((checkBA_st _ _ _).trans hst)
    have hp : (checkBusActivity s now rx.length).p = s.p := checkBA_p _ _ _
    have hr : (checkBusActivity s now rx.length).ring = s.ring := checkBA_ring _ _ _
    rcases hcase with ⟨hex, r0, att', hrs, hpost⟩ | ⟨hex, rx', calls, ret, hrx, hpost⟩
    · refine .inr (.inl ⟨hex, r0, att', by rw [← hr]; exact hrs, ?_⟩)
      rcases hpost with ⟨h1, h2, h3⟩ | ⟨h1, h2, h3⟩
      · exact .inl ⟨h1, h2, h3⟩
      · exact .inr ⟨by rw [← hp]; exact h1, h2, by rw [← hp]; exact h3⟩
    · rcases hpost with ⟨-, h1, h2, h3⟩ | ⟨hne, hev, htx, hs⟩
      · exact .inl ⟨h1, h2.trans hr, h3⟩
      · refine .inr (.inr ⟨by unfold SlotExpired; rw [hex]; simp, rx', calls, ret, hrx, hne, by rw [← hr]; exact hev, htx, ?_⟩)
        rcases hs with h' | h' | ⟨pre, da, sa, hc, hda, hsa, hps, hu⟩
        · exact .inl h'
        · exact .inr (.inl h')
        · exact .inr (.inr ⟨_, _, hu⟩)

/-- **What one poll can do to a running pass** (start state with stage ≥ 1).

* `wait` — nothing is transmitted, ring view and stage unchanged (own transmission still on the wire,
  slot time not expired and nothing complete heard, or the slot time expired and the repetition now
  waits for the synchronisation pause);
* `retry` — stage < 3 and the identical token telegram TS → NS goes out once more; the stage grows by
  exactly one (or the station finds itself alone after recording its own pass and keeps the token);
  the ring view changes only by recording the own pass;
* `heard` — the slot time has NOT expired and a complete telegram was heard: the pass is over (stage
  0), nothing transmitted, the ring view changed only by witnessed tokens of the batch: no removal;
* `removed` — only from `CheckTokenPass(third)` (stage 3) with the slot time expired in silence: NS is
  removed, stage restarts (0: `PassToken(false, first)`, or 1: first transmission to the NEW successor
  in the same poll, or the station is alone and keeps the token);
-/
inductive PassStep (s : Station) (now : Int) (rx : Bytes) (c' : Ctx) : Prop
  | wait (hs : sent c'.s.st = sent s.st) (hr : c'.s.ring = s.ring) (ht : c'.tx = none)
  | retry (hlt : sent s.st < 3)
      (hs : sent c'.s.st = sent s.st + 1 ∨ c'.s.st = .useToken ⟨now, none⟩ false)
      (hr : c'.s.ring = s.ring.witness s.p.address s.ring.ns)
      (ht : c'.tx = some (tokenTo s.p.address s.ring.ns))
  | heard (hex : ¬ SlotExpired s now rx) (hs : sent c'.s.st = 0) (ht : c'.tx = none)
      (hr : ∃ rx' calls ret, receiveAll rx = .done rx' calls ret ∧ calls ≠ [] ∧ HeardEvo calls s.ring c'.s.ring)
  | removed (hst : s.st = .checkTokenPass .third) (hex : SlotExpired s now rx)
      (hr : ∃ r0, s.ring.removeStation s.ring.ns = some r0 ∧
        ((c'.s.st = .passToken false .first ∧ c'.s.ring = r0 ∧ c'.tx = none) ∨
         (c'.s.ring = r0.witness s.p.address r0.ns ∧
           (c'.s.st = .useToken ⟨now, none⟩ false ∨ c'.s.st = .checkTokenPass .first) ∧
           c'.tx = some (tokenTo s.p.address r0.ns))))

theorem pass_step (s : Station) (apps : Apps) (now : Int) (phy : Bool) (rx : Bytes) (c' : Ctx)
    (h : s.poll apps now phy rx = .ok c') (hin : sent s.st ≠ 0) : PassStep s now rx c' := by
  rcases sent_cases hin with ⟨att, hst⟩ | hst | hst
  · rcases check_poll s apps now phy rx c' h att hst with ⟨h1, h2, h3⟩ | ⟨hex, r0, att', hrs, hpost⟩ |
      ⟨hex, rx', calls, ret, hrx, hne, hev, htx, hs⟩
    · exact .wait (by rw [h1, hst]) h2 h3
    · rcases hrs with ⟨ha, ha', hr0⟩ | ⟨ha, ha', hr0⟩ | ⟨ha, ha', hr0⟩
      · subst ha ha' hr0
        rcases hpost with ⟨h1, h2, h3⟩ | ⟨h1, h2, h3⟩
        · exact .wait (by rw [h1, hst]; rfl) h2 h3
        · refine .retry (by rw [hst]; simp [sent, Attempt.ord]) ?_ h1 h3
          rcases h2 with h2 | h2
          · exact .inr h2
          · exact .inl (by rw [h2, hst]; rfl)
      · subst ha ha' hr0
        rcases hpost with ⟨h1, h2, h3⟩ | ⟨h1, h2, h3⟩
        · exact .wait (by rw [h1, hst]; rfl) h2 h3
        · refine .retry (by rw [hst]; simp [sent, Attempt.ord]) ?_ h1 h3
          rcases h2 with h2 | h2
          · exact .inr h2
          · exact .inl (by rw [h2, hst]; rfl)
      · subst ha ha'
        exact .removed hst hex ⟨r0, hr0, hpost⟩
    · refine .heard hex ?_ htx ⟨rx', calls, ret, hrx, hne, hev⟩
      rcases hs with ⟨_, _, _, h'⟩ | ⟨_, _, h'⟩ | ⟨_, _, h'⟩ <;> rw [h'] <;> rfl
  · rcases passTok_poll s apps now phy rx c' h false .second hst with ⟨h1, h2, h3⟩ | ⟨h1, h2, h3⟩ | ⟨h1, h2, h3⟩
    · exact .wait (by rw [h1, hst]) h2 h3
    · cases h1
    · refine .retry (by rw [hst]; simp [sent, Attempt.ord]) ?_ h1 h3
      rcases h2 with h2 | h2
      · exact .inr h2
      · exact .inl (by rw [h2, hst]; rfl)
  · rcases passTok_poll s apps now phy rx c' h false .third hst with ⟨h1, h2, h3⟩ | ⟨h1, h2, h3⟩ | ⟨h1, h2, h3⟩
    · exact .wait (by rw [h1, hst]) h2 h3
    · cases h1
    · refine .retry (by rw [hst]; simp [sent, Attempt.ord]) ?_ h1 h3
      rcases h2 with h2 | h2
      · exact .inr h2
      · exact .inl (by rw [h2, hst]; rfl)

/-! ## Runs of polls -/

/-- Input of one poll. -/
structure PollIn where
  now : Int
  phy : Bool
  arrived : Bytes

/-- One poll of the world, returning the bytes handed to the PHY (if any). -/
def C05.World.pollTx (w : World) (i : PollIn) : Option (World × Option Bytes) :=
  match w.s.poll w.apps i.now i.phy (w.rx ++ i.arrived) with
  | .ok c => some ({ s := c.s, apps := c.apps, rx := c.rx }, c.tx)
  | .panic _ => none

theorem pollTx_inv {w w' : World} {i : PollIn} {tx : Option Bytes} (h : w.pollTx i = some (w', tx)) :
    ∃ c, w.s.poll w.apps i.now i.phy (w.rx ++ i.arrived) = .ok c ∧ w'.s = c.s ∧ tx = c.tx := by
  unfold World.pollTx at h
  split at h
  · rename_i c hc
    cases h
    exact ⟨c, hc, rfl, rfl⟩
  · cases h

/-- Under the station invariant a poll never fails. -/
theorem pollTx_total (w : World) (i : PollIn) (hi : Inv w.s w.apps) :
    ∃ w' tx, w.pollTx i = some (w', tx) ∧ Inv w'.s w'.apps := by
  obtain ⟨w', hs, hi', -⟩ := inv_step w (.poll i.now i.phy i.arrived) hi
  simp only [World.step] at hs
  unfold World.pollTx
  split at hs
  · rename_i c hc
    cases hs
    exact ⟨_, c.tx, by rw [hc], hi'⟩
  · cases hs

/-- **A run of consecutive polls inside ONE pass**: every poll starts with a pass under supervision
(stage ≥ 1) and does not end it (the stage does not drop: it drops exactly when the pass ends — by a
heard telegram, by the removal after the third silent slot, or when the station keeps the token).
The third index lists what was transmitted, in order, each with the successor registered when it was
transmitted. -/
inductive SameRun : World → List PollIn → List (Nat × Bytes) → World → Prop
  | nil (w : World) : SameRun w [] [] w
  | cons {w w1 w' : World} {i : PollIn} {tx : Option Bytes} {rest : List PollIn} {txs : List (Nat × Bytes)}
      (hp : w.pollTx i = some (w1, tx)) (hin : sent w.s.st ≠ 0) (hmono : sent w.s.st ≤ sent w1.s.st)
      (hrest : SameRun w1 rest txs w') :
      SameRun w (i :: rest) ((tx.toList.map fun b => (w.s.ring.ns, b)) ++ txs) w'

/-- The ring view changes inside a pass only by recording the own pass TS → NS. -/
inductive OwnEvo (ts : Nat) : TokenRing → TokenRing → Prop
  | refl (r : TokenRing) : OwnEvo ts r r
  | own {r r' : TokenRing} (h : OwnEvo ts (r.witness ts r.ns) r') : OwnEvo ts r r'

/-- One poll that stays inside the pass: either nothing is transmitted and nothing changes, or the
token to NS is repeated and the stage grows by one. -/
theorem sameRun_step {w w1 : World} {i : PollIn} {tx : Option Bytes}
    (hp : w.pollTx i = some (w1, tx)) (hin : sent w.s.st ≠ 0) (hmono : sent w.s.st ≤ sent w1.s.st) :
    w1.s.p = w.s.p ∧
    ((tx = none ∧ sent w1.s.st = sent w.s.st ∧ w1.s.ring = w.s.ring) ∨
     (tx = some (tokenTo w.s.p.address w.s.ring.ns) ∧ sent w1.s.st = sent w.s.st + 1 ∧
        w1.s.ring = w.s.ring.witness w.s.p.address w.s.ring.ns)) := by
  obtain ⟨c, hc, hs, rfl⟩ := pollTx_inv hp
  have hfr := (poll_frame _ _ _ _ _ _ hc).1
  have h0 : 0 < sent w.s.st := Nat.pos_of_ne_zero hin
  rw [hs] at hmono ⊢
  refine ⟨hfr, ?_⟩
  rcases pass_step _ _ _ _ _ _ hc hin with ⟨e1, e2, e3⟩ | ⟨hlt, e1, e2, e3⟩ | ⟨hex, e1, e2, e3⟩ | ⟨hst, hex, r0, hr0, e⟩
  · exact .inl ⟨e3, e1, e2⟩
  · rcases e1 with e1 | e1
    · exact .inr ⟨e3, e1, e2⟩
    · rw [e1] at hmono; change sent w.s.st ≤ 0 at hmono; omega
  · omega
  · exfalso
    rw [hst] at hmono
    rcases e with ⟨e1, -⟩ | ⟨-, e1 | e1, -⟩ <;> rw [e1] at hmono <;> simp [sent, Attempt.ord] at hmono

/-- **`passCount_run`** — the counter invariant over a whole run inside one pass: the stage at the end
is the stage at the start plus the number of transmissions in the run; every transmission is the token
telegram from TS to the successor registered at that moment; parameters are unchanged and the ring view
changed only by recording the own passes. -/
theorem passCount_run {w w' : World} {ins : List PollIn} {txs : List (Nat × Bytes)} (h : SameRun w ins txs w') :
    sent w'.s.st = sent w.s.st + txs.length ∧ w'.s.p = w.s.p ∧
    (∀ e ∈ txs, e.2 = tokenTo w.s.p.address e.1) ∧ OwnEvo w.s.p.address w.s.ring w'.s.ring := by
  induction h with
  | nil w => exact ⟨rfl, rfl, fun e he => (by cases he), .refl _⟩
  | cons hp hin hmono hrest ih =>
    rename_i w w1 w' i tx rest txs
    obtain ⟨ih1, ih2, ih3, ih4⟩ := ih
    obtain ⟨hfr, hcase⟩ := sameRun_step hp hin hmono
    rcases hcase with ⟨rfl, e1, e2⟩ | ⟨rfl, e1, e2⟩
    · refine ⟨by simpa [e1] using ih1, ih2.trans hfr, ?_, ?_⟩
      · intro e he
        simp only [Option.toList, List.map_nil, List.nil_append] at he
        rw [← hfr]; exact ih3 e he
      · rw [← hfr, ← e2]; exact ih4
    · refine ⟨?_, ih2.trans hfr, ?_, ?_⟩
      · simp only [Option.toList, List.map_cons, List.map_nil, List.cons_append, List.nil_append, List.length_cons]
        omega
      · intro e he
        simp only [Option.toList, List.map_cons, List.map_nil, List.cons_append, List.nil_append, List.mem_cons] at he
        rcases he with rfl | he
        · rfl
        · rw [← hfr]; exact ih3 e he
      · refine .own ?_
        rw [← e2, ← hfr]; exact ih4

/-- At most `3 - stage` transmissions in a run inside one pass. -/
theorem passCount_le {w w' : World} {ins : List PollIn} {txs : List (Nat × Bytes)} (h : SameRun w ins txs w') :
    sent w.s.st + txs.length ≤ 3 := by
  rw [← (passCount_run h).1]; exact sent_le_three _

/-- **How a pass ends**: the poll after which the stage has dropped.  Exactly three ways: a complete
telegram was heard before the slot time expired (nothing transmitted, no removal); the station found
itself alone after repeating the token and keeps it (stage < 3, no removal); or the slot time expired
in silence in `CheckTokenPass(third)` and exactly NS is removed. -/
inductive PassEnd (s : Station) (now : Int) (rx : Bytes) (s' : Station) (tx : Option Bytes) : Prop
  | heard (hex : ¬ SlotExpired s now rx) (hs : sent s'.st = 0) (ht : tx = none)
      (hr : ∃ rx' calls ret, receiveAll rx = .done rx' calls ret ∧ calls ≠ [] ∧ HeardEvo calls s.ring s'.ring)
  | alone (hlt : sent s.st < 3) (hs : s'.st = .useToken ⟨now, none⟩ false)
      (hr : s'.ring = s.ring.witness s.p.address s.ring.ns) (ht : tx = some (tokenTo s.p.address s.ring.ns))
  | removed (hst : s.st = .checkTokenPass .third) (hex : SlotExpired s now rx)
      (hr : ∃ r0, s.ring.removeStation s.ring.ns = some r0 ∧
        ((s'.st = .passToken false .first ∧ s'.ring = r0 ∧ tx = none) ∨
         (s'.ring = r0.witness s.p.address r0.ns ∧
           (s'.st = .useToken ⟨now, none⟩ false ∨ s'.st = .checkTokenPass .first) ∧
           tx = some (tokenTo s.p.address r0.ns))))

theorem pass_end {w w1 : World} {i : PollIn} {tx : Option Bytes}
    (hp : w.pollTx i = some (w1, tx)) (hdrop : sent w1.s.st < sent w.s.st) :
    PassEnd w.s i.now (w.rx ++ i.arrived) w1.s tx := by
  obtain ⟨c, hc, hs, rfl⟩ := pollTx_inv hp
  have hin : sent w.s.st ≠ 0 := by omega
  rw [hs] at hdrop ⊢
  rcases pass_step _ _ _ _ _ _ hc hin with ⟨e1, e2, e3⟩ | ⟨hlt, e1, e2, e3⟩ | ⟨hex, e1, e2, e3⟩ | ⟨hst, hex, hr⟩
  · omega
  · rcases e1 with e1 | e1
    · omega
    · exact .alone hlt e1 e2 e3
  · exact .heard hex e1 e2 e3
  · exact .removed hst hex hr

/-- **Maximal run**: every list of polls from a state satisfying the station invariant splits into a
run inside the pass under supervision (possibly empty) and a rest that is empty (the history ends
inside the pass), or starts outside any pass, or starts with the poll that ends the pass. No poll
panics. -/
theorem sameRun_maximal : ∀ (ins : List PollIn) (w : World), Inv w.s w.apps →
    ∃ pre post txs w1, ins = pre ++ post ∧ SameRun w pre txs w1 ∧ Inv w1.s w1.apps ∧
      (post = [] ∨ sent w1.s.st = 0 ∨
       ∃ i rest w2 tx, post = i :: rest ∧ w1.pollTx i = some (w2, tx) ∧ Inv w2.s w2.apps ∧ sent w2.s.st < sent w1.s.st) := by
  intro ins
  induction ins with
  | nil => intro w hi; exact ⟨[], [], [], w, rfl, .nil w, hi, .inl rfl⟩
  | cons i rest ih =>
    intro w hi
    by_cases hin : sent w.s.st = 0
    · exact ⟨[], i :: rest, [], w, rfl, .nil w, hi, .inr (.inl hin)⟩
    · obtain ⟨w1, tx, hp, hi1⟩ := pollTx_total w i hi
      by_cases hm : sent w.s.st ≤ sent w1.s.st
      · obtain ⟨pre, post, txs, w2, e, hrun, hi2, hpost⟩ := ih w1 hi1
        exact ⟨i :: pre, post, _, w2, by rw [e]; rfl, .cons hp hin hm hrun, hi2, hpost⟩
      · exact ⟨[], i :: rest, [], w, rfl, .nil w, hi, .inr (.inr ⟨i, rest, w1, tx, rfl, hp, hi1, by omega⟩)⟩

end PV
