/-
Recording the own token pass TS → NS leaves NS unchanged, provided NS is the successor the LAS dictates
(`NsCoherent`).  Used to show that all repetitions of a token pass carry the same destination address.
-/
import ProfiVerif.Lemmas.PassCount
import ProfiVerif.Lemmas.TokenRing

namespace PV
open TokenRing

/-- `update_next_previous`'s successor as a function of the LAS bits: the first active address above
TS, else the lowest active address, else TS itself. -/
def lasSucc (act : Nat → Bool) (ts : Nat) : Nat :=
  match (List.range 128).find? (fun a => act a && decide (a > ts)) with
  | some a => a
  | none => match (List.range 128).find? act with
    | some a => a
    | none => ts

theorem updateNextPrev_ns (r : TokenRing) : (updateNextPrev r).ns = lasSucc r.isActive r.ts := by
  have e : (fun a => decide (r.isActive a = true ∧ decide (a > r.ts) = true)) = fun a => r.isActive a && decide (a > r.ts) := by
    funext a; simp
  simp only [updateNextPrev, activeList, lasSucc, List.find?_filter, List.head?_filter, e]
  rfl

theorem passBit_false (ts ns a : Nat) (old : Bool) (hne : a ≠ ts)
    (hg : (ns > ts ∧ (ts ≤ a ∧ a < ns)) ∨ (¬ ns > ts ∧ (ts ≤ a ∨ a < ns))) : passBit ts ns a old = false := by
  unfold passBit inPassGap
  rw [if_neg hne]
  rcases hg with ⟨h1, h2⟩ | ⟨h1, h2⟩
  · rw [if_pos h1]; simp [h2]
  · rw [if_neg h1]; simp [h2]

theorem passBit_keep (ts ns a : Nat) (old : Bool) (hne : a ≠ ts)
    (hg : (ns > ts ∧ ¬ (ts ≤ a ∧ a < ns)) ∨ (¬ ns > ts ∧ ¬ (ts ≤ a ∨ a < ns))) : passBit ts ns a old = old := by
  unfold passBit inPassGap
  rw [if_neg hne]
  rcases hg with ⟨h1, h2⟩ | ⟨h1, h2⟩
  · rw [if_pos h1]; simp [h2]
  · rw [if_neg h1]; simp [h2]

theorem passBit_self (ts ns : Nat) (old : Bool) : passBit ts ns ts old = true := by
  unfold passBit; rw [if_pos rfl]

theorem lasSucc_pass (act act' : Nat → Bool) (ts ns : Nat) (hts : ts < 128) (h : lasSucc act ts = ns)
    (hact' : ∀ a, a < 128 → act' a = passBit ts ns a (act a)) : lasSucc act' ts = ns := by
  unfold lasSucc at h ⊢
  rcases h1 : (List.range 128).find? (fun a => act a && decide (a > ts)) with _ | x
  · rw [h1] at h
    simp only at h
    have hno : ∀ i, i < 128 → act i = true → ¬ i > ts := by
      intro i hi ha hgt
      have := List.find?_range_eq_none.mp h1 i hi
      simp [ha, hgt] at this
    rcases h2 : (List.range 128).find? act with _ | y
    · rw [h2] at h
      simp only at h
      subst h
      have f1 : (List.range 128).find? (fun a => act' a && decide (a > ts)) = none := by
        apply List.find?_range_eq_none.mpr
        intro i hi
        by_cases hgt : i > ts
        · have : act' i = false := by
            rw [hact' i hi]
            exact passBit_false _ _ _ _ (by omega) (.inr ⟨by omega, .inl (by omega)⟩)
          simp [this]
        · simp [hgt]
      have f2 : (List.range 128).find? act' = some ts := by
        apply List.find?_range_eq_some.mpr
        refine ⟨by rw [hact' ts hts]; exact passBit_self _ _ _, by simpa using hts, ?_⟩
        intro j hj
        rw [hact' j (by omega)]
        simp only [Bool.not_eq_true']
        exact passBit_false _ _ _ _ (by omega) (.inr ⟨by omega, .inr hj⟩)
      rw [f1, f2]
    · rw [h2] at h
      simp only at h
      subst h
      obtain ⟨py, hy, hmin⟩ := List.find?_range_eq_some.mp h2
      have hy' : y < 128 := by simpa using hy
      have hle : y ≤ ts := Nat.le_of_not_gt (hno y hy' py)
      have f1 : (List.range 128).find? (fun a => act' a && decide (a > ts)) = none := by
        apply List.find?_range_eq_none.mpr
        intro i hi
        by_cases hgt : i > ts
        · have : act' i = false := by
            rw [hact' i hi]
            exact passBit_false _ _ _ _ (by omega) (.inr ⟨by omega, .inl (by omega)⟩)
          simp [this]
        · simp [hgt]
      have f2 : (List.range 128).find? act' = some y := by
        apply List.find?_range_eq_some.mpr
        refine ⟨?_, hy, ?_⟩
        · rw [hact' y hy']
          by_cases hyt : y = ts
          · rw [hyt]; exact passBit_self _ _ _
          · rw [passBit_keep _ _ _ _ hyt (.inr ⟨by omega, by omega⟩)]; exact py
        · intro j hj
          rw [hact' j (by omega)]
          simp only [Bool.not_eq_true']
          exact passBit_false _ _ _ _ (by omega) (.inr ⟨by omega, .inr hj⟩)
      rw [f1, f2]
  · rw [h1] at h
    simp only at h
    subst h
    obtain ⟨px, hx, hmin⟩ := List.find?_range_eq_some.mp h1
    have hx' : x < 128 := by simpa using hx
    have hax : act x = true ∧ x > ts := by simpa using px
    have f1 : (List.range 128).find? (fun a => act' a && decide (a > ts)) = some x := by
      apply List.find?_range_eq_some.mpr
      refine ⟨?_, hx, ?_⟩
      · rw [hact' x hx', passBit_keep _ _ _ _ (by omega) (.inl ⟨hax.2, by omega⟩), hax.1]
        simp [hax.2]
      · intro j hj
        by_cases hgt : j > ts
        · have : act' j = false := by
            rw [hact' j (by omega)]
            exact passBit_false _ _ _ _ (by omega) (.inl ⟨hax.2, by omega, hj⟩)
          simp [this]
        · simp [hgt]
    rw [f1]

/-- NS is the successor the LAS dictates (true of every ring view produced by `update_next_previous`,
i.e. after any witnessed pass in Discovery/Valid, any `remove_station`, any `set_next_station`). -/
def NsCoherent (r : TokenRing) : Prop := lasSucc r.isActive r.ts = r.ns

theorem NsCoherent.congr {r r' : TokenRing} (h : NsCoherent r) (ha : r'.active = r.active) (ht : r'.ts = r.ts)
    (hn : r'.ns = r.ns) : NsCoherent r' := by
  unfold NsCoherent at *
  have : r'.isActive = r.isActive := by funext a; simp [isActive, ha]
  rw [this, ht, hn]; exact h

theorem updateLas_own_ns (r : TokenRing) (hts : r.ts < 128) (h : NsCoherent r) : (r.updateLas r.ts r.ns).ns = r.ns := by
  unfold updateLas
  rw [updateNextPrev_ns]
  apply lasSucc_pass r.isActive _ r.ts r.ns hts h
  intro a ha
  simp [isActive, ha, passBit]

theorem updateLas_coherent (r : TokenRing) (sa da : Nat) : NsCoherent (r.updateLas sa da) := by
  unfold NsCoherent updateLas
  rw [updateNextPrev_ns]
  have : ∀ x : TokenRing, (updateNextPrev x).isActive = x.isActive := fun x => funext fun a => updateNextPrev_active x a
  rw [this, (updateNextPrev_las _).2]

theorem las_eta (x : TokenRing) : x = { x with las := x.las } := by cases x; rfl

/-- The two shapes of a witnessed pass: only the LAS state moves, or the LAS is updated from the pass. -/
theorem witness_shape (r : TokenRing) (sa da : Nat) :
    (∃ l, r.witness sa da = { r with las := l }) ∨ (∃ l, r.witness sa da = { (r.updateLas sa da) with las := l }) := by
  unfold witness
  by_cases h1 : sa > 125
  · rw [if_pos h1]; exact .inl ⟨r.las, las_eta r⟩
  rw [if_neg h1]
  by_cases h2 : da > 125
  · rw [if_pos h2]; exact .inl ⟨r.las, las_eta r⟩
  rw [if_neg h2]
  rcases hl : r.las with _ | _ | _ | _
  · simp only
    by_cases h3 : da ≤ sa
    · rw [if_pos h3]; exact .inl ⟨_, rfl⟩
    · rw [if_neg h3]; exact .inl ⟨r.las, las_eta r⟩
  · simp only
    by_cases h3 : da ≤ sa
    · rw [if_pos h3]; (generalize r.updateLas sa da = x; exact .inr ⟨_, rfl⟩)
    · rw [if_neg h3]; (generalize r.updateLas sa da = x; exact .inr ⟨x.las, las_eta x⟩)
  · simp only
    by_cases h4 : (!r.verifyLas sa da) = true
    · rw [if_pos h4]; (generalize r.updateLas sa da = x; exact .inr ⟨_, rfl⟩)
    · rw [if_neg h4]
      by_cases h3 : da ≤ sa
      · rw [if_pos h3]; exact .inl ⟨_, rfl⟩
      · rw [if_neg h3]; exact .inl ⟨r.las, las_eta r⟩
  · (generalize r.updateLas sa da = x; exact .inr ⟨x.las, las_eta x⟩)

/-- Recording the own pass keeps NS and keeps NS coherent. -/
theorem witness_own_ns (r : TokenRing) (hts : r.ts < 128) (h : NsCoherent r) :
    (r.witness r.ts r.ns).ns = r.ns ∧ NsCoherent (r.witness r.ts r.ns) ∧ (r.witness r.ts r.ns).ts = r.ts := by
  have hu := updateLas_own_ns r hts h
  have hc := updateLas_coherent r r.ts r.ns
  have ht := (updateLas_las r r.ts r.ns).2
  rcases witness_shape r r.ts r.ns with ⟨l, e⟩ | ⟨l, e⟩
  · rw [e]; exact ⟨rfl, h.congr rfl rfl rfl, rfl⟩
  · rw [e]
    generalize r.updateLas r.ts r.ns = x at hu hc ht
    exact ⟨hu, hc.congr rfl rfl rfl, ht⟩

open C05 in
/-- Along a run inside one pass the registered successor never changes, provided the ring view starts
coherent (`NsCoherent`) with `ring.ts = TS`: every logged transmission carries the same NS. -/
theorem sameRun_ns {w w' : World} {ins : List PollIn} {txs : List (Nat × Bytes)} (h : SameRun w ins txs w')
    (hts : w.s.ring.ts = w.s.p.address) (hlt : w.s.p.address < 128) (hc : NsCoherent w.s.ring) :
    (∀ e ∈ txs, e.1 = w.s.ring.ns) ∧ w'.s.ring.ns = w.s.ring.ns ∧ NsCoherent w'.s.ring ∧
    w'.s.ring.ts = w'.s.p.address := by
  induction h with
  | nil w => exact ⟨fun e he => (by cases he), rfl, hc, hts⟩
  | cons hp hin hmono hrest ih =>
    rename_i w w1 w' i tx rest txs
    obtain ⟨hfr, hcase⟩ := sameRun_step hp hin hmono
    rcases hcase with ⟨rfl, -, e2⟩ | ⟨rfl, -, e2⟩
    · obtain ⟨i1, i2, i3, i4⟩ := ih (by rw [e2, hfr]; exact hts) (by rw [hfr]; exact hlt) (by rw [e2]; exact hc)
      refine ⟨?_, by rw [i2, e2], i3, i4⟩
      intro e he
      simp only [Option.toList, List.map_nil, List.nil_append] at he
      rw [i1 e he, e2]
    · rw [← hts] at e2
      obtain ⟨k1, k2, k3⟩ := witness_own_ns w.s.ring (by rw [hts]; exact hlt) hc
      obtain ⟨i1, i2, i3, i4⟩ := ih (by rw [e2, k3, hfr]; exact hts) (by rw [hfr]; exact hlt) (by rw [e2]; exact k2)
      refine ⟨?_, by rw [i2, e2, k1], i3, i4⟩
      intro e he
      simp only [Option.toList, List.map_cons, List.map_nil, List.cons_append, List.nil_append, List.mem_cons] at he
      rcases he with rfl | he
      · rfl
      · rw [i1 e he, e2, k1]

end PV
