/-
The station invariant behind C05 ("poll never panics") and its preservation by every handler of
`Model/Station.lean`.  Helper lemmas only; the headline theorems are in `Props/C05.lean`.
-/
import ProfiVerif.Model.Station
import ProfiVerif.Props.C12
import ProfiVerif.Props.C09
import ProfiVerif.Props.C16
import ProfiVerif.Lemmas.TokenRing
namespace PV
namespace TokenRing

theorem activeList_lt (r : TokenRing) : ∀ a ∈ r.activeList, a < 128 := by
  intro a ha
  unfold activeList at ha
  simp at ha
  exact ha.1

/-- `update_next_previous` yields neighbours below 128. -/
theorem updateNextPrev_ns_lt (r : TokenRing) (hts : r.ts < 128) :
    (updateNextPrev r).ns < 128 ∧ (updateNextPrev r).ts = r.ts := by
  refine ⟨?_, by simp [updateNextPrev]⟩
  have hl := activeList_lt r
  simp only [updateNextPrev]
  cases hf : r.activeList.find? (fun a => decide (a > r.ts)) with
  | some a =>
    simp only
    exact hl a (List.mem_of_find?_eq_some hf)
  | none =>
    simp only
    cases hh : r.activeList.head? with
    | some a =>
      simp only
      exact hl a (by cases hq : r.activeList with
        | nil => simp [hq] at hh
        | cons x t => simp [hq] at hh; subst hh; simp)
    | none => simpa using hts

/-- Well-formed ring view: own address and successor are valid bit indices. -/
def RingOk (r : TokenRing) : Prop := r.ts < 128 ∧ r.ns < 128

theorem upd_ok (r : TokenRing) (v : Vector Bool 128) (h : RingOk r) :
    RingOk (updateNextPrev { r with active := v }) ∧ (updateNextPrev { r with active := v }).ts = r.ts := by
  have := updateNextPrev_ns_lt { r with active := v } h.1
  exact ⟨⟨by rw [this.2]; exact h.1, this.1⟩, this.2⟩

theorem updateLas_ok (r : TokenRing) (sa da : Nat) (h : RingOk r) : RingOk (r.updateLas sa da) ∧ (r.updateLas sa da).ts = r.ts := by
  unfold updateLas
  exact upd_ok r _ h

theorem witness_ok (r : TokenRing) (sa da : Nat) (h : RingOk r) : RingOk (r.witness sa da) ∧ (r.witness sa da).ts = r.ts := by
  have hu := updateLas_ok r sa da h
  unfold witness
  generalize r.updateLas sa da = u at hu ⊢
  split
  · exact ⟨h, rfl⟩
  · split
    · exact ⟨h, rfl⟩
    · split
      · split
        · exact ⟨h, rfl⟩
        · exact ⟨h, rfl⟩
      · split
        · exact ⟨hu.1, hu.2⟩
        · exact ⟨hu.1, hu.2⟩
      · split
        · exact ⟨hu.1, hu.2⟩
        · split
          · exact ⟨h, rfl⟩
          · exact ⟨h, rfl⟩
      · exact ⟨hu.1, hu.2⟩

theorem claimToken_ok (r : TokenRing) (h : RingOk r) : RingOk r.claimToken ∧ r.claimToken.ts = r.ts := ⟨h, rfl⟩

theorem setNextStation_ok (r : TokenRing) (a : Nat) (ha : a < 128) (h : RingOk r) :
    ∃ r', r.setNextStation a = some r' ∧ RingOk r' ∧ r'.ts = r.ts := by
  unfold setNextStation
  rw [if_neg (by omega)]
  generalize hq : ({ r with active := Vector.ofFn fun i => if i.val = a then true else r.active[i] } : TokenRing) = q
  have hq1 : q.ts = r.ts := by rw [← hq]
  have hq2 : q.ns = r.ns := by rw [← hq]
  have h' : RingOk q := ⟨by rw [hq1]; exact h.1, by rw [hq2]; exact h.2⟩
  have := updateLas_ok q r.ts a h'
  exact ⟨_, rfl, this.1, by rw [this.2, hq1]⟩

theorem removeStation_ok (r : TokenRing) (a : Nat) (ha : a < 128) (h : RingOk r) :
    ∃ r', r.removeStation a = some r' ∧ RingOk r' ∧ r'.ts = r.ts := by
  unfold removeStation
  rw [if_neg (by omega)]
  generalize (Vector.ofFn fun (i : Fin 128) => if i.val = a then false else r.active[i]) = v
  exact ⟨_, rfl, (upd_ok r v h).1, (upd_ok r v h).2⟩

theorem new_ok (ts : Nat) (h : ts < 128) : RingOk (TokenRing.new ts) := ⟨h, h⟩

end TokenRing

open TokenRing

/-- Scripts contain only telegrams the encoder accepts (the documented application contract). -/
def ScriptsOk (apps : Apps) : Prop :=
  ∀ script ∈ apps, ∀ ans ∈ script, ∀ h pdu, ans = AppAnswer.send h pdu → h.lengthByte pdu.length ≤ 249

/-- The station invariant behind "poll never panics". -/
structure Inv (s : Station) (apps : Apps) : Prop where
  addr : s.p.address < s.p.hsa
  hsa : s.p.hsa ≤ 126
  ring : RingOk s.ring
  off : s.online = false → s.st = .offline
  gap : ∀ cur, s.gap = .doPoll cur → cur < s.p.hsa
  await1 : ∀ a, s.st = .awaitStatus a → s.gap = .doPoll a ∧ a ≠ s.p.address
  await2 : ∀ a, s.st = .claimToken (.scanAwait a) → s.gap = .doPoll a ∧ a ≠ s.p.address
  app : 0 < apps.length → s.nextApp < apps.length
  appWait : ∀ a d, s.st = .awaitData a d → s.nextApp < apps.length
  scripts : ScriptsOk apps
  noPassive : s.st ≠ .passiveIdle

/-- Fields the invariant does not look at may change freely. -/
theorem Inv.congr {s s' : Station} {apps : Apps} (h : Inv s apps)
    (hp : s'.p = s.p) (hr : s'.ring = s.ring) (ho : s'.online = s.online) (hg : s'.gap = s.gap)
    (hs : s'.st = s.st) (hn : s'.nextApp = s.nextApp) : Inv s' apps := by
  constructor
  · rw [hp]; exact h.addr
  · rw [hp]; exact h.hsa
  · rw [hr]; exact h.ring
  · rw [ho, hs]; exact h.off
  · rw [hg, hp]; exact h.gap
  · rw [hs, hg, hp]; exact h.await1
  · rw [hs, hg, hp]; exact h.await2
  · rw [hn]; exact h.app
  · rw [hs, hn]; exact h.appWait
  · exact h.scripts
  · rw [hs]; exact h.noPassive

@[simp] theorem markBusActivity_core (s : Station) (now : Int) :
    (markBusActivity s now).p = s.p ∧ (markBusActivity s now).ring = s.ring ∧ (markBusActivity s now).online = s.online ∧
    (markBusActivity s now).gap = s.gap ∧ (markBusActivity s now).st = s.st ∧ (markBusActivity s now).nextApp = s.nextApp := by
  simp [markBusActivity]

theorem inv_markBusActivity {s apps} (h : Inv s apps) (now : Int) : Inv (markBusActivity s now) apps :=
  h.congr (by simp [markBusActivity]) (by simp [markBusActivity]) (by simp [markBusActivity]) (by simp [markBusActivity])
    (by simp [markBusActivity]) (by simp [markBusActivity])

theorem inv_markRx {s apps} (h : Inv s apps) (now : Int) : Inv (markRx s now) apps :=
  h.congr (by simp [markRx, markBusActivity]) (by simp [markRx, markBusActivity]) (by simp [markRx, markBusActivity])
    (by simp [markRx, markBusActivity]) (by simp [markRx, markBusActivity]) (by simp [markRx, markBusActivity])

theorem inv_markTx {s apps} (h : Inv s apps) (now : Int) (n : Nat) : Inv (markTx s now n) apps :=
  h.congr (by simp [markTx]) (by simp [markTx]) (by simp [markTx]) (by simp [markTx]) (by simp [markTx]) (by simp [markTx])

theorem inv_checkBusActivity {s apps} (h : Inv s apps) (now : Int) (n : Nat) : Inv (checkBusActivity s now n) apps := by
  unfold checkBusActivity
  split
  · exact h.congr (by simp [markBusActivity]) (by simp [markBusActivity]) (by simp [markBusActivity])
      (by simp [markBusActivity]) (by simp [markBusActivity]) (by simp [markBusActivity])
  · exact h

theorem inv_getOrInsertLast {s apps} (h : Inv s apps) (now : Int) : Inv (getOrInsertLast s now).1 apps := by
  unfold getOrInsertLast
  split
  · exact h
  · exact h.congr rfl rfl rfl rfl rfl rfl

theorem inv_waitSync {s apps} (h : Inv s apps) (now : Int) : Inv (waitSyncPause s now).1 apps := by
  unfold waitSyncPause; exact inv_getOrInsertLast h now

theorem inv_checkSlot {s apps} (h : Inv s apps) (now : Int) : Inv (checkSlotExpired s now).1 apps := by
  unfold checkSlotExpired; exact inv_getOrInsertLast h now

theorem core_getOrInsertLast (s : Station) (now : Int) :
    (getOrInsertLast s now).1.p = s.p ∧ (getOrInsertLast s now).1.ring = s.ring ∧ (getOrInsertLast s now).1.online = s.online ∧
    (getOrInsertLast s now).1.gap = s.gap ∧ (getOrInsertLast s now).1.st = s.st ∧ (getOrInsertLast s now).1.nextApp = s.nextApp := by
  unfold getOrInsertLast; split <;> simp


/-- A poll (or part of one) ended regularly in a context that satisfies the invariant and still has
`n` applications. -/
def Good (n : Nat) (r : Res) : Prop := ∃ c, r = .ok c ∧ Inv c.s c.apps ∧ c.apps.length = n

/-- Working precondition inside a poll: invariant, online, nothing transmitted yet. -/
structure Pre (c : Ctx) : Prop where
  inv : Inv c.s c.apps
  on : c.s.online = true
  tx : c.tx = none

theorem good_ok {n : Nat} (c : Ctx) (h : Inv c.s c.apps) (hl : c.apps.length = n) : Good n (.ok c) := ⟨c, rfl, h, hl⟩

/-- Changing only the FDL state keeps the invariant if the new state's own obligations hold. -/
theorem Inv.setSt {s : Station} {apps : Apps} (h : Inv s apps) (hon : s.online = true) (st' : FState)
    (h1 : ∀ a, st' = .awaitStatus a → s.gap = .doPoll a ∧ a ≠ s.p.address)
    (h2 : ∀ a, st' = .claimToken (.scanAwait a) → s.gap = .doPoll a ∧ a ≠ s.p.address)
    (h3 : ∀ a d, st' = .awaitData a d → s.nextApp < apps.length) (h4 : st' ≠ .passiveIdle := by simp) :
    Inv { s with st := st' } apps :=
  ⟨h.addr, h.hsa, h.ring, fun ho => by simp [hon] at ho, h.gap, h1, h2, h.app, h3, h.scripts, h4⟩

/-- Changing only the ring view keeps the invariant if the new view is well-formed. -/
theorem Inv.setRing {s : Station} {apps : Apps} (h : Inv s apps) (r : TokenRing) (hr : RingOk r) :
    Inv { s with ring := r } apps :=
  ⟨h.addr, h.hsa, hr, h.off, h.gap, h.await1, h.await2, h.app, h.appWait, h.scripts, h.noPassive⟩

theorem transmit_ok (c : Ctx) (now : Int) (b : Bytes) (h : c.tx = none) :
    transmit c now b = .ok { c with tx := some b, s := markTx c.s now b.length } := by
  unfold transmit; rw [h]

theorem statusHeader_serialize (da sa : UInt8) (fc : FunctionCode) :
    ∃ bytes, ({ da := da, sa := sa, dsap := none, ssap := none, fc := fc } : Header).serialize [] = .ok bytes := by
  exact ⟨_, serialize_ok _ [] (by simp [Header.lengthByte, Header.saps])⟩

/-- The GAP arithmetic is defined under the invariant and yields only GAP addresses. -/
theorem nextGap_ok {s : Station} {apps : Apps} (h : Inv s apps) (cur : Nat) (hc : cur < s.p.hsa) :
    ∃ g, nextGap s cur = some g ∧ (∀ a, g = .doPoll a → a < s.p.hsa ∧ a ≠ s.p.address) := by
  have hh : 0 < s.p.hsa := by have := h.addr; omega
  unfold nextGap
  cases hn : nextGapPoll s.p.address s.ring.ns s.p.hsa cur with
  | poll a =>
    have := C12.never_self_nor_successor s.p.address s.ring.ns s.p.hsa cur a hh h.hsa hc hn
    exact ⟨_, rfl, fun a' ha' => by cases ha'; exact ⟨this.2.2, this.1⟩⟩
  | waiting => exact ⟨_, rfl, fun a' ha' => by cases ha'⟩
  | panic => exact absurd hn (C12.next_gap_no_panic _ _ _ _ hh h.hsa hc)

/-- `transmit_gap_poll_if_pending` under the invariant, when the GAP state was just computed by `nextGap`. -/
theorem transmitGapPoll_ok (c : Ctx) (now : Int) (hpre : Pre c)
    (hg : ∀ a, c.s.gap = .doPoll a → a < c.s.p.hsa ∧ a ≠ c.s.p.address) :
    (∃ a bytes, c.s.gap = .doPoll a ∧ a ≠ c.s.p.address ∧
        transmitGapPoll c now = (.ok { c with tx := some bytes, s := markTx c.s now bytes.length }, some a)) ∨
    ((∀ a, c.s.gap ≠ .doPoll a) ∧ transmitGapPoll c now = (.ok c, none)) := by
  unfold transmitGapPoll
  cases hgap : c.s.gap with
  | waiting r => right; exact ⟨(by intro a h; cases h), rfl⟩
  | doPoll cur =>
    left
    have := hg cur hgap
    obtain ⟨bytes, hb⟩ := statusHeader_serialize (UInt8.ofNat cur) (UInt8.ofNat c.s.p.address) (.request .inactive .fdlStatus)
    refine ⟨cur, bytes, rfl, this.2, ?_⟩
    simp only [this.2, if_false, fdlStatusRequestHeader, hb, transmit_ok c now bytes hpre.tx]

theorem pre_waitSync (c : Ctx) (now : Int) (hpre : Pre c) : Pre { c with s := (waitSyncPause c.s now).1 } := by
  have hc := core_getOrInsertLast c.s now
  exact ⟨inv_waitSync hpre.inv now, by show (getOrInsertLast c.s now).1.online = true; rw [hc.2.2.1]; exact hpre.on, hpre.tx⟩

theorem pre_checkSlot (c : Ctx) (now : Int) (hpre : Pre c) : Pre { c with s := (checkSlotExpired c.s now).1 } := by
  have hc := core_getOrInsertLast c.s now
  exact ⟨inv_checkSlot hpre.inv now, by show (getOrInsertLast c.s now).1.online = true; rw [hc.2.2.1]; exact hpre.on, hpre.tx⟩

theorem st_waitSync (s : Station) (now : Int) : (waitSyncPause s now).1.st = s.st := (core_getOrInsertLast s now).2.2.2.2.1
theorem st_checkSlot (s : Station) (now : Int) : (checkSlotExpired s now).1.st = s.st := (core_getOrInsertLast s now).2.2.2.2.1

/-- Two stations agree on everything the invariant looks at. -/
def CoreEq (s' s : Station) : Prop :=
  s'.p = s.p ∧ s'.ring = s.ring ∧ s'.online = s.online ∧ s'.gap = s.gap ∧ s'.st = s.st ∧ s'.nextApp = s.nextApp

theorem CoreEq.inv {s' s : Station} {apps : Apps} (h : CoreEq s' s) (hi : Inv s apps) : Inv s' apps :=
  hi.congr h.1 h.2.1 h.2.2.1 h.2.2.2.1 h.2.2.2.2.1 h.2.2.2.2.2

theorem coreEq_markTx (s : Station) (now : Int) (n : Nat) : CoreEq (markTx s now n) s := by simp [CoreEq, markTx]
theorem coreEq_markRx (s : Station) (now : Int) : CoreEq (markRx s now) s := by simp [CoreEq, markRx, markBusActivity]

/-- Passing the token on keeps the invariant. -/
theorem passTokenOn_good (c : Ctx) (now : Int) (att : Attempt) (hpre : Pre c) (g : Bool) (a0 : Attempt)
    (hst : c.s.st = .passToken g a0) : Good c.apps.length (passTokenOn c now att) := by
  unfold passTokenOn
  simp only [transmit_ok c now _ hpre.tx, Res.bind, upd]
  obtain ⟨s1, hs1, hc⟩ : ∃ s1, markTx c.s now (sendToken (UInt8.ofNat c.s.ring.ns) (UInt8.ofNat c.s.p.address)).length = s1 ∧ CoreEq s1 c.s :=
    ⟨_, rfl, coreEq_markTx _ _ _⟩
  rw [hs1]
  have hinv1 : Inv s1 c.apps := hc.inv hpre.inv
  have hon1 : s1.online = true := by rw [hc.2.2.1]; exact hpre.on
  have hw := witness_ok s1.ring c.s.p.address c.s.ring.ns hinv1.ring
  have hst1 : s1.st = .passToken g a0 := by rw [hc.2.2.2.2.1]; exact hst
  obtain ⟨r2, hr2⟩ : ∃ r2, s1.ring.witness c.s.p.address c.s.ring.ns = r2 := ⟨_, rfl⟩
  simp only [hr2] at hw ⊢
  have hinv2 : Inv { s1 with ring := r2 } c.apps := hinv1.setRing r2 hw.1
  split
  · simp only [tr, toUseToken, hst1]
    exact good_ok _ (hinv2.setSt hon1 _ (by simp) (by simp) (by simp)) rfl
  · simp only [tr, toCheckTokenPass, hst1]
    exact good_ok _ (hinv2.setSt hon1 _ (by simp) (by simp) (by simp)) rfl


theorem gapAdvance_ok {s : Station} {apps : Apps} (h : Inv s apps) :
    ∃ g, gapAdvance s = some g ∧ (∀ a, g = .doPoll a → a < s.p.hsa ∧ a ≠ s.p.address) := by
  unfold gapAdvance
  cases hg : s.gap with
  | waiting rot =>
    simp only
    split
    · exact nextGap_ok h _ h.addr
    · exact ⟨_, rfl, fun a ha => by cases ha⟩
  | doPoll cur => exact nextGap_ok h cur (h.gap cur hg)

/-- Replacing the GAP state by one whose poll address (if any) is a GAP address keeps the invariant,
provided the current FDL state does not await a status reply. -/
theorem Inv.setGap {s : Station} {apps : Apps} (h : Inv s apps) (g : GapState)
    (hg : ∀ a, g = .doPoll a → a < s.p.hsa)
    (h1 : ∀ a, s.st ≠ .awaitStatus a) (h2 : ∀ a, s.st ≠ .claimToken (.scanAwait a)) :
    Inv { s with gap := g } apps :=
  ⟨h.addr, h.hsa, h.ring, h.off, hg, fun a ha => absurd ha (h1 a), fun a ha => absurd ha (h2 a), h.app, h.appWait, h.scripts, h.noPassive⟩

theorem doPassToken_good (c : Ctx) (now : Int) (hpre : Pre c) (g : Bool) (att : Attempt)
    (hst : c.s.st = .passToken g att) : Good c.apps.length (doPassToken c now) := by
  unfold doPassToken
  rw [hst]
  simp only
  have hpre1 := pre_waitSync c now hpre
  have hst1 : (waitSyncPause c.s now).1.st = .passToken g att := by rw [st_waitSync]; exact hst
  obtain ⟨s1, hs1⟩ : ∃ s1, (waitSyncPause c.s now).1 = s1 := ⟨_, rfl⟩
  simp only [hs1] at hpre1 hst1 ⊢
  by_cases hwait : (waitSyncPause c.s now).2 = true
  · simp only [hwait, if_true]
    exact good_ok _ hpre1.inv rfl
  · simp only [hwait]
    cases g with
    | false =>
      simp only [Bool.false_eq_true, if_false]
      exact passTokenOn_good _ now att hpre1 false att hst1
    | true =>
      simp only [if_true]
      obtain ⟨gs, hgs, hgp⟩ := gapAdvance_ok hpre1.inv
      simp only [hgs, upd]
      have hinvg : Inv { s1 with gap := gs } c.apps :=
        hpre1.inv.setGap gs (fun a ha => (hgp a ha).1) (by intro a; rw [hst1]; simp) (by intro a; rw [hst1]; simp)
      have hpre2 : Pre { c with s := { s1 with gap := gs } } := ⟨hinvg, hpre1.on, hpre1.tx⟩
      rcases transmitGapPoll_ok { c with s := { s1 with gap := gs } } now hpre2 (fun a ha => hgp a ha) with
        ⟨a, bytes, hga, hne, htx⟩ | ⟨hno, htx⟩
      · rw [htx]
        simp only [tr, toAwaitStatus, markTx, hst1]
        refine good_ok _ ?_ rfl
        have hi3 : Inv (markTx { s1 with gap := gs } now bytes.length) c.apps := inv_markTx hinvg now _
        have hon1 : s1.online = true := hpre1.on
        exact hi3.setSt (by simp [markTx, hon1]) _ (by intro a' ha'; cases ha'; exact ⟨by simpa [markTx] using hga, by simpa [markTx] using hne⟩) (by simp) (by simp)
      · rw [htx]
        exact passTokenOn_good _ now att hpre2 true att hst1

/-- In the callbacks of one `receive_all_telegrams` call only the last one can be flagged `is_last`. -/
theorem receiveAllFuel_flags : ∀ (fuel : Nat) (buf : Bytes) (acc : List (Telegram × Bool)) (b : Bytes)
    (calls : List (Telegram × Bool)) (ret : Bool),
    receiveAllFuel fuel buf acc = .done b calls ret → (∀ x ∈ acc, x.2 = false) →
    ∀ x ∈ calls.dropLast, x.2 = false := by
  intro fuel
  induction fuel with
  | zero => intro buf acc b calls ret h; simp [receiveAllFuel] at h
  | succ f ih =>
    intro buf acc b calls ret h hacc
    unfold receiveAllFuel at h
    split at h
    · cases h
    · cases h; intro x hx; exact hacc x (List.dropLast_subset _ hx)
    · cases h; intro x hx; exact hacc x (List.dropLast_subset _ hx)
    · split at h
      · cases h
      · split at h
        · cases h
          intro x hx
          simp [List.dropLast_append_of_ne_nil] at hx
          exact hacc x hx
        · exact ih _ _ _ _ _ h (by
            intro x hx
            simp at hx
            rcases hx with hx | hx
            · exact hacc x hx
            · rw [hx])

theorem receiveAll_flags (buf b : Bytes) (calls : List (Telegram × Bool)) (ret : Bool)
    (h : receiveAll buf = .done b calls ret) : ∀ x ∈ calls.dropLast, x.2 = false :=
  receiveAllFuel_flags _ _ _ _ _ _ h (by simp)


/-- FDL states in which received telegrams are handled by `handle_telegram`. -/
def IdleLike (st : FState) : Prop := (∃ a b c, st = .activeIdle a b c) ∨ (∃ a b, st = .listenToken a b)

/-- What later steps of the same poll need to know about a context produced by an earlier step. -/
structure Step (c c' : Ctx) : Prop where
  inv : Inv c'.s c'.apps
  on : c'.s.online = true
  apps : c'.apps = c.apps
  tx : c'.tx = c.tx

theorem handleTelegram_good (c : Ctx) (now : Int) (t : Telegram) (isLast : Bool)
    (hinv : Inv c.s c.apps) (hon : c.s.online = true) (hst : IdleLike c.s.st) :
    ∃ c', handleTelegram c now t isLast = .ok c' ∧ Step c c' ∧
      (IdleLike c'.s.st ∨ (isLast = true ∧ ∃ d, c'.s.st = .useToken d false)) := by
  unfold handleTelegram
  rcases hst with ⟨sr, np, coll, hst⟩ | ⟨sr, coll, hst⟩
  · rw [hst]
    simp only
    have setSt : ∀ st', (∀ a, st' ≠ .awaitStatus a) → (∀ a, st' ≠ .claimToken (.scanAwait a)) → (∀ a d, st' ≠ .awaitData a d) → st' ≠ .passiveIdle →
        Inv { c.s with st := st' } c.apps := fun st' h1 h2 h3 h4 =>
      hinv.setSt hon st' (fun a h => absurd h (h1 a)) (fun a h => absurd h (h2 a)) (fun a d h => absurd h (h3 a d)) h4
    cases t with
    | sc => exact ⟨c, rfl, ⟨hinv, hon, rfl, rfl⟩, Or.inl (Or.inl ⟨_, _, _, hst⟩)⟩
    | data h pdu =>
      simp only
      split
      · split
        · exact ⟨_, rfl, ⟨setSt _ (by simp) (by simp) (by simp) (by simp), hon, rfl, rfl⟩, Or.inl (Or.inl ⟨_, _, _, rfl⟩)⟩
        · exact ⟨c, rfl, ⟨hinv, hon, rfl, rfl⟩, Or.inl (Or.inl ⟨_, _, _, hst⟩)⟩
      · exact ⟨c, rfl, ⟨hinv, hon, rfl, rfl⟩, Or.inl (Or.inl ⟨_, _, _, hst⟩)⟩
    | token da sa =>
      simp only
      split
      · split
        · exact ⟨_, rfl, ⟨setSt _ (by simp) (by simp) (by simp) (by simp), hon, rfl, rfl⟩, Or.inl (Or.inl ⟨_, _, _, rfl⟩)⟩
        · simp only [tr, toListenToken, upd]
          exact ⟨_, rfl, ⟨setSt _ (by simp) (by simp) (by simp) (by simp), hon, rfl, rfl⟩, Or.inl (Or.inr ⟨_, _, rfl⟩)⟩
      · have hi0 : Inv { c.s with st := .activeIdle sr np 0 } c.apps := setSt _ (by simp) (by simp) (by simp) (by simp)
        split
        · simp only [upd]
          have hw := witness_ok c.s.ring sa.toNat da.toNat hinv.ring
          exact ⟨_, rfl, ⟨hi0.setRing _ hw.1, hon, rfl, rfl⟩, Or.inl (Or.inl ⟨_, _, _, rfl⟩)⟩
        · rename_i hda
          have hl : isLast = true := by
            simp at hda; exact hda.2
          split
          · simp only [tr, toUseToken, upd]
            exact ⟨_, rfl, ⟨setSt _ (by simp) (by simp) (by simp) (by simp), hon, rfl, rfl⟩, Or.inr ⟨hl, _, rfl⟩⟩
          · split
            · simp only [tr, toUseToken, upd]
              have hw := witness_ok c.s.ring sa.toNat da.toNat hinv.ring
              refine ⟨_, rfl, ⟨?_, hon, rfl, rfl⟩, Or.inr ⟨hl, _, rfl⟩⟩
              exact (hi0.setRing _ hw.1).setSt hon _ (by simp) (by simp) (by simp)
            · exact ⟨_, rfl, ⟨setSt _ (by simp) (by simp) (by simp) (by simp), hon, rfl, rfl⟩, Or.inl (Or.inl ⟨_, _, _, rfl⟩)⟩
  · rw [hst]
    exact ⟨c, rfl, ⟨hinv, hon, rfl, rfl⟩, Or.inl (Or.inr ⟨_, _, hst⟩)⟩

theorem awaitGap_good (c : Ctx) (now : Int) (addr : Nat) (hinv : Inv c.s c.apps) (hon : c.s.online = true)
    (hg : c.s.gap = .doPoll addr) (hne : addr ≠ c.s.p.address) :
    ∃ c' resp, awaitGapPollResponse c now addr = (.ok c', resp) ∧ Step c c' ∧ c'.s.st = c.s.st ∧
      c'.s.gap = c.s.gap ∧ c'.s.p = c.s.p := by
  have haddr : addr < 128 := by have := hinv.gap addr hg; have := hinv.hsa; omega
  unfold awaitGapPollResponse
  rw [if_neg hne, if_neg (by rw [hg]; simp)]
  obtain ⟨rx', calls, ret, hrx⟩ := C16.receiveTelegram_total c.rx
  rw [hrx]
  cases calls with
  | nil =>
    simp only
    have hc := core_getOrInsertLast c.s now
    refine ⟨_, _, rfl, ⟨inv_checkSlot hinv now, ?_, rfl, rfl⟩, ?_, ?_, ?_⟩
    · show (getOrInsertLast c.s now).1.online = true; rw [hc.2.2.1]; exact hon
    · exact hc.2.2.2.2.1
    · exact hc.2.2.2.1
    · exact hc.1
  | cons x rest =>
    obtain ⟨t, fl⟩ := x
    simp only
    have hm := coreEq_markRx c.s now
    have hinv1 : Inv (markRx c.s now) c.apps := hm.inv hinv
    have hon1 : (markRx c.s now).online = true := by rw [hm.2.2.1]; exact hon
    have base : ∀ resp : GapPollResponse, ∃ c' resp', ((Res.ok { c with rx := rx', s := markRx c.s now }, resp) : Res × GapPollResponse) = (.ok c', resp') ∧
        Step c c' ∧ c'.s.st = c.s.st ∧ c'.s.gap = c.s.gap ∧ c'.s.p = c.s.p := fun resp =>
      ⟨_, resp, rfl, ⟨hinv1, hon1, rfl, rfl⟩, hm.2.2.2.2.1, hm.2.2.2.1, hm.1⟩
    cases t with
    | sc => exact base _
    | token da sa => exact base _
    | data h pdu =>
      simp only
      split
      · cases hfc : h.fc with
        | request fcb req => simp only; exact base _
        | response state status =>
          simp only
          split
          · obtain ⟨r', hr', hok, hts⟩ := setNextStation_ok (markRx c.s now).ring addr haddr hinv1.ring
            rw [hr']
            simp only [upd]
            refine ⟨_, _, rfl, ⟨hinv1.setRing r' hok, hon1, rfl, rfl⟩, hm.2.2.2.2.1, hm.2.2.2.1, hm.1⟩
          · exact base _
      · exact base _

theorem doClaimToken_basic (c : Ctx) (now : Int) (fuel : Nat) (hpre : Pre c) (step : ClaimStep)
    (hst : c.s.st = .claimToken step) (hstep : ∀ a, step ≠ .scanAwait a) :
    Good c.apps.length (doClaimToken c now (fuel + 1)) := by
  unfold doClaimToken
  rw [hst]
  simp only
  have hpre1 := pre_waitSync c now hpre
  have hst1 : (waitSyncPause c.s now).1.st = .claimToken step := by rw [st_waitSync]; exact hst
  obtain ⟨s1, hs1⟩ : ∃ s1, (waitSyncPause c.s now).1 = s1 := ⟨_, rfl⟩
  have hon1 : s1.online = true := by rw [← hs1]; exact hpre1.on
  cases step with
  | scanAwait a => exact absurd rfl (hstep a)
  | firstToken =>
    simp only [hs1] at hpre1 hst1 ⊢
    by_cases hwait : (waitSyncPause c.s now).2 = true
    · simp only [hwait, if_true]; exact good_ok _ hpre1.inv rfl
    · simp only [hwait]
      rw [transmit_ok _ now _ hpre1.tx]
      simp only [Res.bind, upd]
      refine good_ok _ ?_ rfl
      have hi : Inv (markTx s1 now (sendToken (UInt8.ofNat s1.p.address) (UInt8.ofNat s1.p.address)).length) c.apps := inv_markTx hpre1.inv now _
      have hi2 := hi.setRing _ (claimToken_ok _ hi.ring).1
      have hi3 := hi2.setGap (.doPoll s1.p.address) (by intro a ha; cases ha; exact hi.addr)
        (by intro a; simp [markTx, hst1]) (by intro a; simp [markTx, hst1])
      exact hi3.setSt (by simp [markTx, hon1]) _ (by simp) (by simp) (by simp)
  | secondToken =>
    simp only [hs1] at hpre1 hst1 ⊢
    by_cases hwait : (waitSyncPause c.s now).2 = true
    · simp only [hwait, if_true]; exact good_ok _ hpre1.inv rfl
    · simp only [hwait]
      rw [transmit_ok _ now _ hpre1.tx]
      simp only [Res.bind, upd]
      refine good_ok _ ?_ rfl
      have hi : Inv (markTx s1 now (sendToken (UInt8.ofNat s1.p.address) (UInt8.ofNat s1.p.address)).length) c.apps := inv_markTx hpre1.inv now _
      have hi2 := hi.setRing _ (claimToken_ok _ hi.ring).1
      have hi3 := hi2.setGap (.doPoll s1.p.address) (by intro a ha; cases ha; exact hi.addr)
        (by intro a; simp [markTx, hst1]) (by intro a; simp [markTx, hst1])
      exact hi3.setSt (by simp [markTx, hon1]) _ (by simp) (by simp) (by simp)
  | scan =>
    simp only [hs1] at hpre1 hst1 ⊢
    by_cases hwait : (waitSyncPause c.s now).2 = true
    · simp only [hwait, if_true]; exact good_ok _ hpre1.inv rfl
    · simp only [hwait]
      cases hgap : s1.gap with
      | waiting rot =>
        simp only [tr, toPassToken, hst1]
        exact good_ok _ (hpre1.inv.setSt hon1 _ (by simp) (by simp) (by simp)) rfl
      | doPoll cur =>
        simp only
        obtain ⟨gs, hgs, hgp⟩ := nextGap_ok hpre1.inv cur (hpre1.inv.gap cur hgap)
        simp only [hgs, upd]
        have hinvg : Inv { s1 with gap := gs } c.apps :=
          hpre1.inv.setGap gs (fun a ha => (hgp a ha).1) (by intro a; rw [hst1]; simp) (by intro a; rw [hst1]; simp)
        have hpre2 : Pre { c with s := { s1 with gap := gs } } := ⟨hinvg, hpre1.on, hpre1.tx⟩
        rcases transmitGapPoll_ok { c with s := { s1 with gap := gs } } now hpre2 (fun a ha => hgp a ha) with
          ⟨a, bytes, hga, hne, htx⟩ | ⟨hno, htx⟩
        · rw [htx]
          simp only
          refine good_ok _ ?_ rfl
          have hi3 : Inv (markTx { s1 with gap := gs } now bytes.length) c.apps := inv_markTx hinvg now _
          exact hi3.setSt (by simp [markTx, hon1]) _ (by simp)
            (by intro a' ha'; cases ha'; exact ⟨by simpa [markTx] using hga, by simpa [markTx] using hne⟩) (by simp)
        · rw [htx]
          exact good_ok _ hinvg rfl


theorem pre_of_step {c c' : Ctx} (h : Step c c') (htx : c.tx = none) : Pre c' := ⟨h.inv, h.on, by rw [h.tx]; exact htx⟩

theorem doClaimToken_good (c : Ctx) (now : Int) (hpre : Pre c) (step : ClaimStep)
    (hst : c.s.st = .claimToken step) : Good c.apps.length (doClaimToken c now 2) := by
  cases step with
  | firstToken => exact doClaimToken_basic c now 1 hpre _ hst (by simp)
  | secondToken => exact doClaimToken_basic c now 1 hpre _ hst (by simp)
  | scan => exact doClaimToken_basic c now 1 hpre _ hst (by simp)
  | scanAwait a =>
    unfold doClaimToken
    rw [hst]
    simp only
    obtain ⟨hg, hne⟩ := hpre.inv.await2 a hst
    obtain ⟨c1, resp, hr, hstep, hst1, hg1, hp1⟩ := awaitGap_good c now a hpre.inv hpre.on hg hne
    rw [hr]
    have hst1' : c1.s.st = .claimToken (.scanAwait a) := by rw [hst1]; exact hst
    have hlen : c1.apps.length = c.apps.length := by rw [hstep.apps]
    cases resp with
    | waitingForBus => simp only; exact good_ok _ hstep.inv hlen
    | responded =>
      simp only [upd]
      exact good_ok _ (hstep.inv.setSt hstep.on _ (by simp) (by simp) (by simp)) hlen
    | noResponse =>
      simp only [upd]
      have hpre2 : Pre { c1 with s := { c1.s with st := .claimToken .scan } } :=
        ⟨hstep.inv.setSt hstep.on _ (by simp) (by simp) (by simp), hstep.on, by rw [hstep.tx]; exact hpre.tx⟩
      have := doClaimToken_basic { c1 with s := { c1.s with st := .claimToken .scan } } now 0 hpre2 .scan rfl (by simp)
      rw [← hlen]; exact this
    | unexpected =>
      simp only [tr, toActiveIdle, hst1']
      exact good_ok _ (hstep.inv.setSt hstep.on _ (by simp) (by simp) (by simp)) hlen

/-- `handle_lost_token`: either nothing happens (only the activity stamp is initialised) or the claim
is performed — regularly in both cases. -/
theorem handleLostToken_good (c : Ctx) (now : Int) (hpre : Pre c) (hst : IdleLike c.s.st) :
    (∃ c1, handleLostToken c now = (c1, none) ∧ Step c c1 ∧ c1.s.st = c.s.st ∧ c1.rx = c.rx ∧ c1.calls = c.calls) ∨
    (∃ c1 r, handleLostToken c now = (c1, some r) ∧ Good c.apps.length r) := by
  have hc := core_getOrInsertLast c.s now
  have hpre1 : Pre { c with s := (getOrInsertLast c.s now).1 } :=
    ⟨inv_getOrInsertLast hpre.inv now, by show (getOrInsertLast c.s now).1.online = true; rw [hc.2.2.1]; exact hpre.on, hpre.tx⟩
  unfold handleLostToken
  simp only
  split
  · right
    have hcl : ∃ s', toClaimToken (getOrInsertLast c.s now).1 = some s' ∧ s' = { (getOrInsertLast c.s now).1 with st := .claimToken .firstToken } := by
      unfold toClaimToken
      rw [hc.2.2.2.2.1]
      rcases hst with ⟨a, b, d, h⟩ | ⟨a, b, h⟩ <;> rw [h] <;> exact ⟨_, rfl, rfl⟩
    obtain ⟨s', hs', hs'eq⟩ := hcl
    simp only [hs']
    refine ⟨_, _, rfl, ?_⟩
    have hpre2 : Pre { c with s := s' } := by
      rw [hs'eq]
      exact ⟨hpre1.inv.setSt hpre1.on _ (by simp) (by simp) (by simp), hpre1.on, hpre.tx⟩
    have := doClaimToken_good { c with s := s' } now hpre2 .firstToken (by rw [hs'eq])
    exact this
  · left
    exact ⟨_, rfl, ⟨hpre1.inv, hpre1.on, rfl, rfl⟩, hc.2.2.2.2.1, rfl, rfl⟩

theorem doAwaitStatusResponse_good (c : Ctx) (now : Int) (hpre : Pre c) (a : Nat)
    (hst : c.s.st = .awaitStatus a) : Good c.apps.length (doAwaitStatusResponse c now) := by
  unfold doAwaitStatusResponse
  rw [hst]
  simp only
  obtain ⟨hg, hne⟩ := hpre.inv.await1 a hst
  obtain ⟨c1, resp, hr, hstep, hst1, hg1, hp1⟩ := awaitGap_good c now a hpre.inv hpre.on hg hne
  rw [hr]
  have hst1' : c1.s.st = .awaitStatus a := by rw [hst1]; exact hst
  have hlen : c1.apps.length = c.apps.length := by rw [hstep.apps]
  cases resp with
  | waitingForBus => simp only; exact good_ok _ hstep.inv hlen
  | responded =>
    simp only [tr, toPassToken, hst1']
    exact good_ok _ (hstep.inv.setSt hstep.on _ (by simp) (by simp) (by simp)) hlen
  | noResponse =>
    simp only [tr, toPassToken, hst1', Res.bind]
    have hpre2 : Pre { c1 with s := { c1.s with st := .passToken false .first } } :=
      ⟨hstep.inv.setSt hstep.on _ (by simp) (by simp) (by simp), hstep.on, by rw [hstep.tx]; exact hpre.tx⟩
    have := doPassToken_good _ now hpre2 false .first rfl
    rw [← hlen]; exact this
  | unexpected =>
    simp only [tr, toActiveIdle, hst1']
    exact good_ok _ (hstep.inv.setSt hstep.on _ (by simp) (by simp) (by simp)) hlen

theorem C05_rx (rx : Bytes) : ∃ b calls ret, receiveAll rx = .done b calls ret := by
  obtain ⟨b, c, r, h⟩ := C16.receiveAll_total (rx.length + 1) rx [] (by omega)
  exact ⟨b, c, r, by simpa [receiveAll] using h⟩

theorem idleLike_of_coreEq {s' s : Station} (h : CoreEq s' s) (hi : IdleLike s.st) : IdleLike s'.st := by
  rw [h.2.2.2.2.1]; exact hi

/-- Folding a batch of telegrams through `handle_telegram` (each preceded by `mark_rx`). -/
theorem foldIdle_good (now : Int) : ∀ (calls : List (Telegram × Bool)) (c : Ctx),
    Inv c.s c.apps → c.s.online = true → IdleLike c.s.st → (∀ x ∈ calls.dropLast, x.2 = false) →
    ∃ c', foldTelegrams (fun c t isLast => handleTelegram (upd c fun s => markRx s now) now t isLast) c calls = .ok c' ∧ Step c c' := by
  intro calls
  induction calls with
  | nil => intro c hinv hon _ _; exact ⟨c, rfl, ⟨hinv, hon, rfl, rfl⟩⟩
  | cons x rest ih =>
    intro c hinv hon hst hfl
    obtain ⟨t, l⟩ := x
    simp only [foldTelegrams]
    have hm := coreEq_markRx c.s now
    obtain ⟨c1, h1, hs1, hpost⟩ := handleTelegram_good (upd c fun s => markRx s now) now t l
      (by simpa [upd] using hm.inv hinv) (by simp [upd, hm.2.2.1, hon]) (by simpa [upd] using idleLike_of_coreEq hm hst)
    rw [h1]
    simp only [Res.bind]
    rcases hpost with hidle | ⟨hl, d, hd⟩
    · obtain ⟨c2, h2, hs2⟩ := ih c1 hs1.inv hs1.on hidle (by
        intro y hy
        apply hfl y
        cases rest with
        | nil => simp at hy
        | cons z zs => simp [List.dropLast] at hy ⊢; right; exact hy)
      exact ⟨c2, h2, ⟨hs2.inv, hs2.on, by rw [hs2.apps, hs1.apps]; rfl, by rw [hs2.tx, hs1.tx]; rfl⟩⟩
    · -- the token was accepted: this was the last telegram of the batch
      cases rest with
      | nil => exact ⟨c1, rfl, ⟨hs1.inv, hs1.on, by rw [hs1.apps]; rfl, by rw [hs1.tx]; rfl⟩⟩
      | cons z zs =>
        have := hfl (t, l) (by simp [List.dropLast])
        simp at this
        rw [this] at hl
        cases hl


theorem doCheckTokenPass_good (c : Ctx) (now : Int) (hpre : Pre c) (att : Attempt)
    (hst : c.s.st = .checkTokenPass att) : Good c.apps.length (doCheckTokenPass c now) := by
  unfold doCheckTokenPass
  rw [hst]
  simp only
  have hpre1 := pre_checkSlot c now hpre
  have hst1 : (checkSlotExpired c.s now).1.st = .checkTokenPass att := by rw [st_checkSlot]; exact hst
  obtain ⟨s1, hs1⟩ : ∃ s1, (checkSlotExpired c.s now).1 = s1 := ⟨_, rfl⟩
  simp only [hs1] at hpre1 hst1 ⊢
  have hon1 : s1.online = true := hpre1.on
  by_cases hex : (checkSlotExpired c.s now).2 = true
  · simp only [hex, if_true]
    have pass : ∀ (s2 : Station), Inv s2 c.apps → s2.online = true → s2.st = .checkTokenPass att → ∀ a',
        Good c.apps.length ((tr { c with s := s2 } (fun s => toPassToken s false a') "transition_pass_token").bind fun c => doPassToken c now) := by
      intro s2 hi2 ho2 hst2 a'
      simp only [tr, toPassToken, hst2, Res.bind]
      exact doPassToken_good { c with s := { s2 with st := .passToken false a' } } now
        ⟨hi2.setSt ho2 _ (by simp) (by simp) (by simp), ho2, hpre.tx⟩ false a' rfl
    cases att with
    | first => exact pass s1 hpre1.inv hon1 hst1 _
    | second => exact pass s1 hpre1.inv hon1 hst1 _
    | third =>
      simp only
      obtain ⟨r', hr', hok, -⟩ := removeStation_ok s1.ring s1.ring.ns hpre1.inv.ring.2 hpre1.inv.ring
      rw [hr']
      simp only [upd]
      exact pass { s1 with ring := r' } (hpre1.inv.setRing r' hok) hon1 hst1 _
  · simp only [hex]
    obtain ⟨rx', calls, ret, hrx⟩ := C05_rx c.rx
    rw [hrx]
    cases calls with
    | nil => simp only; exact good_ok _ hpre1.inv rfl
    | cons x rest =>
      obtain ⟨t, l⟩ := x
      simp only [tr, toActiveIdle, Res.bind]
      have hm := coreEq_markRx s1 now
      have hst2 : (markRx s1 now).st = .checkTokenPass att := by rw [hm.2.2.2.2.1]; exact hst1
      simp only [hst2]
      have hinv2 : Inv { (markRx s1 now) with st := .activeIdle none none 0 } c.apps :=
        (hm.inv hpre1.inv).setSt (by rw [hm.2.2.1]; exact hon1) _ (by simp) (by simp) (by simp)
      have hfl := receiveAll_flags c.rx rx' ((t, l) :: rest) ret hrx
      obtain ⟨c1, h1, hs1', hpost⟩ := handleTelegram_good
        { c with rx := rx', s := { (markRx s1 now) with st := .activeIdle none none 0 } } now t l hinv2
        (by simp [hm.2.2.1, hon1]) (Or.inl ⟨_, _, _, rfl⟩)
      rw [h1]
      simp only
      rcases hpost with hidle | ⟨hl, d, hd⟩
      · obtain ⟨c2, h2, hs2⟩ := foldIdle_good now rest c1 hs1'.inv hs1'.on hidle (by
          intro y hy
          apply hfl y
          cases rest with
          | nil => simp at hy
          | cons z zs => simp [List.dropLast] at hy ⊢; right; exact hy)
        rw [h2]
        exact good_ok _ hs2.inv (by rw [hs2.apps, hs1'.apps])
      · cases rest with
        | nil => simp only [foldTelegrams]; exact good_ok _ hs1'.inv (by rw [hs1'.apps])
        | cons z zs =>
          have := hfl (t, l) (by simp [List.dropLast])
          simp at this
          rw [this] at hl
          cases hl


theorem encodeOrPanic_status (c : Ctx) (now : Int) (da sa : UInt8) (fc : FunctionCode) (htx : c.tx = none) :
    ∃ bytes, encodeOrPanic c now { da := da, sa := sa, dsap := none, ssap := none, fc := fc } [] =
      .ok { c with tx := some bytes, s := markTx c.s now bytes.length } := by
  obtain ⟨bytes, hb⟩ := statusHeader_serialize da sa fc
  exact ⟨bytes, by unfold encodeOrPanic; rw [hb]; simp only; exact transmit_ok c now bytes htx⟩

theorem doActiveIdle_good (c : Ctx) (now : Int) (hpre : Pre c) (sr np : Option Nat) (coll : Nat)
    (hst : c.s.st = .activeIdle sr np coll) : Good c.apps.length (doActiveIdle c now) := by
  unfold doActiveIdle
  -- rewrite `handleLostToken` to a constructor pair BEFORE the iota steps (kernel: 60 s otherwise)
  rcases handleLostToken_good c now hpre (Or.inl ⟨_, _, _, hst⟩) with ⟨c1, h1, hs1, hst1, hrx1, -⟩ | ⟨c1, r, h1, hg⟩
  · rw [h1, hst]
    simp only
    have hst1' : c1.s.st = .activeIdle sr np coll := by rw [hst1]; exact hst
    have hlen : c1.apps.length = c.apps.length := by rw [hs1.apps]
    have hpre1 : Pre c1 := pre_of_step hs1 hpre.tx
    rw [hst1']
    cases sr with
    | some src =>
      simp only
      have hpre2 := pre_waitSync c1 now hpre1
      have hst2 : (waitSyncPause c1.s now).1.st = .activeIdle (some src) np coll := by rw [st_waitSync]; exact hst1'
      by_cases hwait : (waitSyncPause c1.s now).2 = true
      · simp only [hwait, if_true]; exact good_ok _ hpre2.inv hlen
      · simp only [hwait]
        obtain ⟨bytes, hb⟩ := encodeOrPanic_status { c1 with s := (waitSyncPause c1.s now).1 } now
          (UInt8.ofNat src) (UInt8.ofNat (waitSyncPause c1.s now).1.p.address) (.response .masterInRing .ok) hpre2.tx
        simp only [fdlStatusResponseHeader]
        rw [hb]
        simp only [Res.bind, upd]
        refine good_ok _ ?_ hlen
        exact (inv_markTx hpre2.inv now _).setSt (by simp [markTx]; exact hpre2.on) _ (by simp) (by simp) (by simp)
    | none =>
      simp only
      obtain ⟨rx', calls, ret, hrx⟩ := C05_rx c1.rx
      rw [hrx]
      simp only
      obtain ⟨c2, h2, hs2⟩ := foldIdle_good now calls { c1 with rx := rx' } hs1.inv hs1.on
        (Or.inl ⟨_, _, _, hst1'⟩) (receiveAll_flags _ _ _ _ hrx)
      rw [h2]
      exact good_ok _ hs2.inv (by rw [hs2.apps]; exact hlen)
  · rw [h1, hst]; exact hg

/-- Static facts about parameters and scripts that `set_offline` (= `new`) needs to re-establish the invariant. -/
theorem inv_new (p : Params) (apps : Apps) (h1 : p.address < p.hsa) (h2 : p.hsa ≤ 126) (hs : ScriptsOk apps) :
    Inv (Station.new p) apps := by
  refine ⟨h1, h2, new_ok p.address (by omega), fun _ => rfl, ?_, ?_, ?_, ?_, ?_, hs, by simp [Station.new]⟩
  · intro cur hc; simp [Station.new] at hc; show cur < p.hsa; omega
  · intro a ha; simp [Station.new] at ha
  · intro a ha; simp [Station.new] at ha
  · intro hl; simpa [Station.new] using hl
  · intro a d ha; simp [Station.new] at ha

/-- State of a listening station inside the telegram fold: still listening (online), or switched
itself offline after the second address collision. -/
def ListenOrOff (s : Station) : Prop :=
  (s.online = true ∧ ∃ a b, s.st = .listenToken a b) ∨ (s.online = false)

theorem listenTelegramCore_good (c : Ctx) (t : Telegram) (isLast : Bool)
    (hinv1 : Inv c.s c.apps) (hst : ListenOrOff c.s) :
    ∃ c', listenTelegramCore c t isLast = .ok c' ∧ Inv c'.s c'.apps ∧ ListenOrOff c'.s ∧ c'.apps = c.apps ∧ c'.tx = c.tx := by
  unfold listenTelegramCore
  rcases hst with ⟨hon1, a, b, hs1⟩ | hoff1
  · rw [if_neg (by simp [hon1])]
    simp only [hs1, upd]
    have setSt : ∀ st', (∀ x, st' ≠ .awaitStatus x) → (∀ x, st' ≠ .claimToken (.scanAwait x)) → (∀ x d, st' ≠ .awaitData x d) → st' ≠ .passiveIdle →
        Inv { c.s with st := st' } c.apps := fun st' h1 h2 h3 h4 =>
      hinv1.setSt hon1 st' (fun x h => absurd h (h1 x)) (fun x h => absurd h (h2 x)) (fun x d h => absurd h (h3 x d)) h4
    split
    · split
      · exact ⟨_, rfl, setSt _ (by simp) (by simp) (by simp) (by simp), Or.inl ⟨hon1, _, _, rfl⟩, rfl, rfl⟩
      · refine ⟨_, rfl, ?_, Or.inr (by simp [Station.setOffline, Station.new]), rfl, rfl⟩
        exact inv_new _ _ hinv1.addr hinv1.hsa hinv1.scripts
    · cases t with
      | sc => exact ⟨_, rfl, hinv1, Or.inl ⟨hon1, _, _, hs1⟩, rfl, rfl⟩
      | token da sa =>
        have hw := witness_ok c.s.ring sa.toNat da.toNat hinv1.ring
        exact ⟨_, rfl, (hinv1.setRing _ hw.1).setSt hon1 (.listenToken a b) (by simp) (by simp) (by simp),
          Or.inl ⟨hon1, _, _, rfl⟩, rfl, rfl⟩
      | data h pdu =>
        simp only
        split
        · split
          · exact ⟨_, rfl, setSt _ (by simp) (by simp) (by simp) (by simp), Or.inl ⟨hon1, _, _, rfl⟩, rfl, rfl⟩
          · exact ⟨_, rfl, hinv1, Or.inl ⟨hon1, _, _, hs1⟩, rfl, rfl⟩
        · exact ⟨_, rfl, hinv1, Or.inl ⟨hon1, _, _, hs1⟩, rfl, rfl⟩
  · rw [if_pos (by simp [hoff1])]
    exact ⟨_, rfl, hinv1, Or.inr hoff1, rfl, rfl⟩

theorem listenTelegram_good (now : Int) (c : Ctx) (t : Telegram) (isLast : Bool)
    (hinv : Inv c.s c.apps) (hst : ListenOrOff c.s) :
    ∃ c', listenTelegram now c t isLast = .ok c' ∧ Inv c'.s c'.apps ∧ ListenOrOff c'.s ∧ c'.apps = c.apps ∧ c'.tx = c.tx := by
  have hm := coreEq_markRx c.s now
  unfold listenTelegram
  have hl : ListenOrOff (upd c fun s => markRx s now).s := by
    simp only [upd, ListenOrOff, hm.2.2.1, hm.2.2.2.2.1]; exact hst
  obtain ⟨c', h, hi, hl', ha, ht⟩ := listenTelegramCore_good (upd c fun s => markRx s now) t isLast
    (by simpa [upd] using hm.inv hinv) hl
  exact ⟨c', h, hi, hl', by rw [ha]; rfl, by rw [ht]; rfl⟩

theorem foldListen_good (now : Int) : ∀ (calls : List (Telegram × Bool)) (c : Ctx),
    Inv c.s c.apps → ListenOrOff c.s →
    ∃ c', foldTelegrams (listenTelegram now) c calls = .ok c' ∧ Inv c'.s c'.apps ∧ c'.apps = c.apps := by
  intro calls
  induction calls with
  | nil => intro c hinv _; exact ⟨c, rfl, hinv, rfl⟩
  | cons x rest ih =>
    intro c hinv hst
    obtain ⟨t, l⟩ := x
    simp only [foldTelegrams]
    obtain ⟨c1, h1, hi1, hl1, ha1, -⟩ := listenTelegram_good now c t l hinv hst
    rw [h1]
    simp only [Res.bind]
    obtain ⟨c2, h2, hi2, ha2⟩ := ih c1 hi1 hl1
    exact ⟨c2, h2, hi2, by rw [ha2, ha1]⟩


theorem doListenToken_good (c : Ctx) (now : Int) (hpre : Pre c) (sr : Option Nat) (coll : Nat)
    (hst : c.s.st = .listenToken sr coll) : Good c.apps.length (doListenToken c now) := by
  unfold doListenToken
  rcases handleLostToken_good c now hpre (Or.inr ⟨_, _, hst⟩) with ⟨c1, h1, hs1, hst1, hrx1, -⟩ | ⟨c1, r, h1, hg⟩
  · rw [h1, hst]
    simp only
    have hst1' : c1.s.st = .listenToken sr coll := by rw [hst1]; exact hst
    have hlen : c1.apps.length = c.apps.length := by rw [hs1.apps]
    have hpre1 : Pre c1 := pre_of_step hs1 hpre.tx
    rw [hst1']
    cases sr with
    | some src =>
      simp only
      have hpre2 := pre_waitSync c1 now hpre1
      have hst2 : (waitSyncPause c1.s now).1.st = .listenToken (some src) coll := by rw [st_waitSync]; exact hst1'
      obtain ⟨s2, hs2⟩ : ∃ s2, (waitSyncPause c1.s now).1 = s2 := ⟨_, rfl⟩
      have hws : waitSyncPause c1.s now = (s2, (waitSyncPause c1.s now).2) := by rw [← hs2]
      rw [hws]
      simp only [hs2] at hpre2 hst2
      by_cases hwait : (waitSyncPause c1.s now).2 = true
      · simp only [hwait, if_true]; exact good_ok _ hpre2.inv hlen
      · simp only [hwait]
        generalize hstate : (if s2.ring.readyForRing = true ∧ src = s2.ring.ps then ResponseState.masterWithoutToken
          else ResponseState.masterNotReady) = state
        obtain ⟨bytes, hb⟩ := encodeOrPanic_status { c1 with s := s2 } now
          (UInt8.ofNat src) (UInt8.ofNat s2.p.address) (.response state .ok) hpre2.tx
        simp only [fdlStatusResponseHeader]
        rw [hb]
        simp only [Res.bind, upd]
        have hi3 : Inv (markTx s2 now bytes.length) c1.apps := inv_markTx hpre2.inv now _
        have hon3 : (markTx s2 now bytes.length).online = true := by simp [markTx]; exact hpre2.on
        have hst3 : (markTx s2 now bytes.length).st = .listenToken (some src) coll := by simp [markTx]; exact hst2
        by_cases hr : s2.ring.readyForRing = true
        · simp only [hr, if_true, tr, toActiveIdle, hst3]
          exact good_ok _ (hi3.setSt hon3 (.activeIdle none none 0) (by simp) (by simp) (by simp)) hlen
        · simp only [hr]
          exact good_ok _ (hi3.setSt hon3 (.listenToken none coll) (by simp) (by simp) (by simp)) hlen
    | none =>
      simp only
      obtain ⟨rx', calls, ret, hrx⟩ := C05_rx c1.rx
      rw [hrx]
      simp only
      obtain ⟨c2, h2, hi2, ha2⟩ := foldListen_good now calls { c1 with rx := rx' } hs1.inv
        (Or.inl ⟨hs1.on, _, _, hst1'⟩)
      rw [h2]
      exact good_ok _ hi2 (by rw [ha2]; exact hlen)
  · rw [h1, hst]; exact hg

theorem scriptsOk_set (apps : Apps) (i : Nat) (script : List AppAnswer) (h : ScriptsOk apps)
    (hs : apps[i]? = some script) : ScriptsOk (apps.set i script.tail) := by
  intro sc hsc ans hans hh pdu he
  rcases List.mem_or_eq_of_mem_set hsc with hm | rfl
  · exact h sc hm ans hans hh pdu he
  · exact h script (List.mem_of_getElem? hs) ans (List.mem_of_mem_tail hans) hh pdu he

/-- Replacing the script list by one of the same length with valid scripts keeps the invariant. -/
theorem Inv.setApps {s : Station} {apps apps' : Apps} (h : Inv s apps) (hl : apps'.length = apps.length)
    (hs : ScriptsOk apps') : Inv s apps' :=
  ⟨h.addr, h.hsa, h.ring, h.off, h.gap, h.await1, h.await2, by rw [hl]; exact h.app, by rw [hl]; exact h.appWait, hs, h.noPassive⟩

/-- Asking one application. -/
theorem appTransmit_good (c : Ctx) (now : Int) (hp : Bool) (hpre : Pre c) (d : UseData) (fcd : Bool)
    (hst : c.s.st = .useToken d fcd) (happ : c.s.nextApp < c.apps.length) :
    ∃ c' b, appTransmit c now hp = (.ok c', b) ∧ Inv c'.s c'.apps ∧ c'.s.online = true ∧
      c'.apps.length = c.apps.length ∧
      (b = false → c'.tx = none ∧ c'.s.st = .useToken d fcd ∧ c'.s.nextApp = c.s.nextApp) := by
  unfold appTransmit
  simp only
  have hget : c.apps[c.s.nextApp]? = some (c.apps[c.s.nextApp]'happ) := List.getElem?_eq_getElem happ
  obtain ⟨script, hscr⟩ : ∃ script, c.apps[c.s.nextApp]? = some script := ⟨_, hget⟩
  rw [hscr]
  simp only
  have hsok := scriptsOk_set c.apps c.s.nextApp script hpre.inv.scripts hscr
  have hlen : (c.apps.set c.s.nextApp script.tail).length = c.apps.length := by simp
  have hinv' : Inv c.s (c.apps.set c.s.nextApp script.tail) := hpre.inv.setApps hlen hsok
  cases hans : script.headD .decline with
  | decline =>
    simp only
    exact ⟨_, false, rfl, hinv', hpre.on, hlen, fun _ => ⟨hpre.tx, hst, rfl⟩⟩
  | send h pdu =>
    simp only
    have hmem : AppAnswer.send h pdu ∈ script := by
      cases script with
      | nil => simp at hans
      | cons x xs => simp at hans; subst hans; simp
    have hle := hpre.inv.scripts script (List.mem_of_getElem? hscr) _ hmem h pdu rfl
    rw [serialize_ok h pdu hle]
    simp only
    cases hexp : expectsReplyOf h with
    | none =>
      simp only
      simp only [transmit, hpre.tx]
      exact ⟨_, true, rfl, inv_markTx hinv' now _, by simp [markTx, hpre.on], hlen, fun hb => by cases hb⟩
    | some addr =>
      simp only [hst, toAwaitData]
      simp only [transmit, hpre.tx]
      refine ⟨_, true, rfl, ?_, by simp [markTx, hpre.on], hlen, fun hb => by cases hb⟩
      have hi2 : Inv { c.s with st := .awaitData addr.toNat d } (c.apps.set c.s.nextApp script.tail) :=
        hinv'.setSt hpre.on _ (by simp) (by simp) (by intro a d' _; rw [hlen]; exact happ)
      exact inv_markTx hi2 now _


/-- The application loop of one message-cycle attempt. -/
theorem appsTransmit_good (now : Int) (hp : Bool) : ∀ (k : Nat) (c : Ctx) (d : UseData) (fcd : Bool),
    Pre c → c.s.st = .useToken d fcd → c.s.nextApp < c.apps.length →
    ∃ c' b, appsTransmit now hp k c = (.ok c', b) ∧ Inv c'.s c'.apps ∧ c'.s.online = true ∧
      c'.apps.length = c.apps.length ∧ (b = false → c'.tx = none ∧ ∃ d', c'.s.st = .useToken d' fcd) := by
  intro k
  induction k with
  | zero =>
    intro c d fcd hpre hst _
    exact ⟨c, false, rfl, hpre.inv, hpre.on, rfl, fun _ => ⟨hpre.tx, d, hst⟩⟩
  | succ k ih =>
    intro c d fcd hpre hst happ
    simp only [appsTransmit]
    obtain ⟨c1, b, h1, hi1, ho1, hl1, hb1⟩ := appTransmit_good c now hp hpre d fcd hst happ
    rw [h1]
    cases b with
    | true => exact ⟨c1, true, rfl, hi1, ho1, hl1, fun h => by cases h⟩
    | false =>
      obtain ⟨htx1, hst1, hn1⟩ := hb1 rfl
      simp only [hst1, upd]
      have hn : c1.s.nextApp < c1.apps.length := by rw [hn1, hl1]; exact happ
      have hmod : (c1.s.nextApp + 1) % c1.apps.length < c1.apps.length := Nat.mod_lt _ (by omega)
      have hi2 : Inv { c1.s with st := .useToken { d with firstApp := some (d.firstApp.getD c1.s.nextApp) } fcd,
                                 nextApp := (c1.s.nextApp + 1) % c1.apps.length } c1.apps :=
        ⟨hi1.addr, hi1.hsa, hi1.ring, fun h => by simp [ho1] at h, hi1.gap, by simp, by simp,
          fun _ => hmod, by simp, hi1.scripts, by simp⟩
      split
      · exact ⟨_, false, rfl, hi2, ho1, hl1, fun _ => ⟨htx1, _, rfl⟩⟩
      · obtain ⟨c2, b2, h2, hi3, ho3, hl3, hb3⟩ := ih
          { c1 with s := { c1.s with st := .useToken { d with firstApp := some (d.firstApp.getD c1.s.nextApp) } fcd,
                                      nextApp := (c1.s.nextApp + 1) % c1.apps.length } }
          { d with firstApp := some (d.firstApp.getD c1.s.nextApp) } fcd ⟨hi2, ho1, htx1⟩ rfl hmod
        exact ⟨c2, b2, h2, hi3, ho3, by rw [hl3]; exact hl1, hb3⟩

theorem passNow_good (c : Ctx) (now : Int) (hpre : Pre c) (d : UseData) (fcd : Bool)
    (hst : c.s.st = .useToken d fcd) : Good c.apps.length (passNow c now) := by
  unfold passNow
  simp only [tr, toPassToken, hst, Res.bind]
  have hpre2 : Pre { c with s := { c.s with st := .passToken true .first } } :=
    ⟨hpre.inv.setSt hpre.on (.passToken true .first) (by simp) (by simp) (by simp), hpre.on, hpre.tx⟩
  exact doPassToken_good _ now hpre2 true .first rfl

theorem useTokenGo_good (c : Ctx) (now : Int) (d : UseData) (hp : Bool) (hpre : Pre c) (fcd0 : Bool)
    (hst : c.s.st = .useToken d fcd0) : Good c.apps.length (useTokenGo c now d hp) := by
  unfold useTokenGo
  simp only [upd]
  have hi1 : Inv { c.s with st := .useToken d true } c.apps := hpre.inv.setSt hpre.on _ (by simp) (by simp) (by simp)
  by_cases h0 : c.apps.length = 0
  · -- no application: nobody is asked, the token is passed on
    simp only [h0, appsTransmit]
    have := passNow_good { c with s := { c.s with st := .useToken d true } } now ⟨hi1, hpre.on, hpre.tx⟩ d true rfl
    simpa only [h0] using this
  · have happ : c.s.nextApp < c.apps.length := hpre.inv.app (by omega)
    obtain ⟨c1, b, h1, hi2, ho2, hl2, hb2⟩ := appsTransmit_good now hp c.apps.length
      { c with s := { c.s with st := .useToken d true } } d true ⟨hi1, hpre.on, hpre.tx⟩ rfl happ
    rw [h1]
    cases b with
    | true => exact good_ok _ hi2 hl2
    | false =>
      obtain ⟨htx', d', hst'⟩ := hb2 rfl
      simp only
      have := passNow_good c1 now ⟨hi2, ho2, htx'⟩ d' _ hst'
      rw [hl2] at this
      exact this

theorem coreEq_holdUpdate (s : Station) (d : UseData) : CoreEq (holdUpdate s d) s := by
  unfold holdUpdate; split <;> simp [CoreEq]

theorem doUseToken_good (c : Ctx) (now : Int) (hpre : Pre c) (d : UseData) (fcd : Bool)
    (hst : c.s.st = .useToken d fcd) : Good c.apps.length (doUseToken c now) := by
  unfold doUseToken
  rw [hst]
  simp only
  have hh := coreEq_holdUpdate c.s d
  have hpreH : Pre { c with s := holdUpdate c.s d } := ⟨hh.inv hpre.inv, by rw [hh.2.2.1]; exact hpre.on, hpre.tx⟩
  have hpre1 := pre_waitSync { c with s := holdUpdate c.s d } now hpreH
  have hst1 : (waitSyncPause (holdUpdate c.s d) now).1.st = .useToken d fcd := by
    rw [st_waitSync, hh.2.2.2.2.1]; exact hst
  obtain ⟨s1, hs1⟩ : ∃ s1, (waitSyncPause (holdUpdate c.s d) now).1 = s1 := ⟨_, rfl⟩
  simp only [hs1] at hpre1 hst1 ⊢
  by_cases hwait : (waitSyncPause (holdUpdate c.s d) now).2 = true
  · rw [if_pos hwait]; exact good_ok _ hpre1.inv rfl
  · rw [if_neg hwait]
    by_cases hdl : now < s1.endTokenHoldTime
    · rw [if_pos hdl]
      exact useTokenGo_good _ now d false hpre1 fcd hst1
    · rw [if_neg hdl]
      cases fcd with
      | false =>
        simp only [Bool.not_false, if_true]
        exact useTokenGo_good _ now d true hpre1 false hst1
      | true =>
        simp only [Bool.not_true, Bool.false_eq_true, if_false]
        exact passNow_good _ now hpre1 d true hst1

theorem doAwaitDataResponse_good (c : Ctx) (now : Int) (hpre : Pre c) (addr : Nat) (d : UseData)
    (hst : c.s.st = .awaitData addr d) : Good c.apps.length (doAwaitDataResponse c now) := by
  have happ := hpre.inv.appWait addr d hst
  unfold doAwaitDataResponse
  rw [hst]
  simp only
  rw [if_neg (by omega)]
  obtain ⟨rx', calls, ret, hrx⟩ := C16.receiveTelegram_total c.rx
  rw [hrx]
  cases calls with
  | cons x rest =>
    obtain ⟨t, fl⟩ := x
    simp only
    have hm := coreEq_markRx c.s now
    have hi1 : Inv (markRx c.s now) c.apps := hm.inv hpre.inv
    have ho1 : (markRx c.s now).online = true := by rw [hm.2.2.1]; exact hpre.on
    have hs1 : (markRx c.s now).st = .awaitData addr d := by rw [hm.2.2.2.2.1]; exact hst
    have hU : Inv { (markRx c.s now) with st := .useToken d true } c.apps := hi1.setSt ho1 _ (by simp) (by simp) (by simp)
    have hA : Inv { (markRx c.s now) with st := .activeIdle none none 0 } c.apps := hi1.setSt ho1 _ (by simp) (by simp) (by simp)
    simp only [tr, toUseToken, toActiveIdle, hs1, Res.bind, upd]
    repeat' split
    all_goals first
      | exact good_ok _ hU rfl
      | exact good_ok _ hA rfl
  | nil =>
    simp only
    have hpre1 := pre_checkSlot c now hpre
    have hs1 : (checkSlotExpired c.s now).1.st = .awaitData addr d := by rw [st_checkSlot]; exact hst
    obtain ⟨s1, hs1e⟩ : ∃ s1, (checkSlotExpired c.s now).1 = s1 := ⟨_, rfl⟩
    simp only [hs1e] at hpre1 hs1 ⊢
    by_cases hex : (checkSlotExpired c.s now).2 = true
    · simp only [hex, if_true, tr, toUseToken, hs1, Res.bind, upd]
      have hi2 : Inv { s1 with st := .useToken d true } c.apps := hpre1.inv.setSt hpre1.on _ (by simp) (by simp) (by simp)
      exact doUseToken_good { c with rx := rx', s := { s1 with st := .useToken d true }, calls := c.calls ++ [.timeout c.s.nextApp addr] }
        now ⟨hi2, hpre1.on, hpre.tx⟩ d true rfl
    · simp only [hex]
      exact good_ok _ hpre1.inv rfl

theorem pollStart_good (c : Ctx) (hinv : Inv c.s c.apps) (hon : c.s.online = true) (htx : c.tx = none) :
    ∃ c1, pollStart c = .ok c1 ∧ Pre c1 ∧ c1.apps = c.apps ∧ c1.s.st ≠ .offline ∧ c1.rx = c.rx := by
  unfold pollStart
  cases hst : c.s.st with
  | offline =>
    simp only [tr, toListenToken, hst]
    exact ⟨_, rfl, ⟨hinv.setSt hon _ (by simp) (by simp) (by simp), hon, htx⟩, rfl, by simp, rfl⟩
  | passiveIdle => exact absurd hst hinv.noPassive
  | listenToken a b => exact ⟨c, rfl, ⟨hinv, hon, htx⟩, rfl, by simp [hst], rfl⟩
  | activeIdle a b d => exact ⟨c, rfl, ⟨hinv, hon, htx⟩, rfl, by simp [hst], rfl⟩
  | useToken a b => exact ⟨c, rfl, ⟨hinv, hon, htx⟩, rfl, by simp [hst], rfl⟩
  | claimToken a => exact ⟨c, rfl, ⟨hinv, hon, htx⟩, rfl, by simp [hst], rfl⟩
  | awaitData a b => exact ⟨c, rfl, ⟨hinv, hon, htx⟩, rfl, by simp [hst], rfl⟩
  | passToken a b => exact ⟨c, rfl, ⟨hinv, hon, htx⟩, rfl, by simp [hst], rfl⟩
  | checkTokenPass a => exact ⟨c, rfl, ⟨hinv, hon, htx⟩, rfl, by simp [hst], rfl⟩
  | awaitStatus a => exact ⟨c, rfl, ⟨hinv, hon, htx⟩, rfl, by simp [hst], rfl⟩

theorem dispatch_good (c : Ctx) (now : Int) (hpre : Pre c) (hno : c.s.st ≠ .offline) :
    Good c.apps.length (dispatch c now) := by
  unfold dispatch
  cases hst : c.s.st with
  | offline => exact absurd hst hno
  | passiveIdle => exact absurd hst hpre.inv.noPassive
  | listenToken a b => exact doListenToken_good _ now hpre a b hst
  | activeIdle a b d => exact doActiveIdle_good _ now hpre a b d hst
  | useToken a b => exact doUseToken_good _ now hpre a b hst
  | claimToken a => exact doClaimToken_good _ now hpre a hst
  | awaitData a b => exact doAwaitDataResponse_good _ now hpre a b hst
  | passToken a b => exact doPassToken_good _ now hpre a b hst
  | checkTokenPass a => exact doCheckTokenPass_good _ now hpre a hst
  | awaitStatus a => exact doAwaitStatusResponse_good _ now hpre a hst

/-- **One poll**: under the invariant `poll_inner` returns regularly (no `debug_assert`, `unreachable!`,
`unwrap`, index or overflow panic is reached) and re-establishes the invariant. -/
theorem pollInner_good (c : Ctx) (now : Int) (phyTx : Bool) (hinv : Inv c.s c.apps) (htx : c.tx = none) :
    Good c.apps.length (pollInner c now phyTx) := by
  unfold pollInner
  by_cases hon : c.s.online = true
  · rw [if_neg (by simp [hon])]
    obtain ⟨c1, h1, hpre1, ha1, hno1, hrx1⟩ := pollStart_good c hinv hon htx
    rw [h1]
    simp only [Res.bind]
    have hlen : c1.apps.length = c.apps.length := by rw [ha1]
    split
    · exact good_ok _ (inv_markBusActivity hpre1.inv now) hlen
    · have hcb := inv_checkBusActivity hpre1.inv now c1.rx.length
      have hcore : CoreEq (checkBusActivity c1.s now c1.rx.length) c1.s := by
        unfold checkBusActivity; split <;> simp [CoreEq, markBusActivity]
      have hpre2 : Pre (upd c1 fun s => checkBusActivity s now c1.rx.length) :=
        ⟨hcb, by simp only [upd]; rw [hcore.2.2.1]; exact hpre1.on, hpre1.tx⟩
      have := dispatch_good (upd c1 fun s => checkBusActivity s now c1.rx.length) now hpre2
        (by simp only [upd]; rw [hcore.2.2.2.2.1]; exact hno1)
      rw [← hlen]; exact this
  · have hoff : c.s.online = false := by simpa using hon
    have hst := hinv.off hoff
    rw [if_pos (by simp [hoff])]
    simp only [hst]
    exact good_ok _ hinv rfl

end PV
