/-
FDL ∘ DP (`Model/Stack.lean`) is total: from the initial state every API-call sequence with
non-decreasing poll times runs regularly — the station model does not panic (C05), the master model
neither panics nor spins (C03/C04/C08/C14 `never_panics`, C14 `turn_ends`), and the answer the composed
poll hands to the station as a one-element script is exactly what the master returns when the station
asks (`.mismatch` is unreachable): the station asks its single application at most once per poll, with
`high_prio_only = Station.askHp`, and only `handle_timeout` — which leaves the master untouched — can
precede the question in the same poll.
-/
import ProfiVerif.Lemmas.Stack

namespace PV
open TokenRing

/-! ## The station asks a single application at most once per poll -/

/-- The end of the token hold time `do_use_token` works with. -/
def holdEnd (s : Station) (d : UseData) : Int := (holdUpdate s d).endTokenHoldTime

theorem holdEnd_congr {s s' : Station} (d : UseData) (h1 : s'.lastTokenTime = s.lastTokenTime) (h2 : s'.p = s.p)
    (h3 : s'.gap = s.gap) (h4 : s'.endTokenHoldTime = s.endTokenHoldTime) : holdEnd s' d = holdEnd s d := by
  unfold holdEnd holdUpdate
  rw [h1, h2, h3]
  split
  · rfl
  · exact h4

theorem waitSync_hold (s : Station) (now : Int) : (waitSyncPause s now).1.endTokenHoldTime = s.endTokenHoldTime := by
  unfold waitSyncPause getOrInsertLast
  cases s.lastBusActivity <;> rfl

theorem appTransmit_one (c c1 : Ctx) (now : Int) (hp b : Bool) (a : AppAnswer) (ha : c.apps = [[a]])
    (h : appTransmit c now hp = (.ok c1, b)) :
    c1.calls = c.calls ++ [.transmit c.s.nextApp hp a] ∧ c1.apps.length = 1 ∧ (b = false → c1.s = c.s) := by
  unfold appTransmit at h
  simp only at h
  rcases hs : c.apps[c.s.nextApp]? with _ | script <;> rw [hs] at h <;> simp only at h
  · cases h
  have hsc : script = [a] := by
    rw [ha] at hs
    cases hn : c.s.nextApp with
    | zero => rw [hn] at hs; simpa using hs.symm
    | succ n => rw [hn] at hs; simp at hs
  subst hsc
  have hlen : (c.apps.set c.s.nextApp ([a] : List AppAnswer).tail).length = 1 := by rw [List.length_set, ha]; rfl
  simp only [List.headD_cons] at h
  cases a with
  | decline =>
    simp only [Prod.mk.injEq, Res.ok.injEq] at h
    obtain ⟨h1, h2⟩ := h
    subst h1; subst h2
    exact ⟨rfl, hlen, fun _ => rfl⟩
  | send hd pdu =>
    simp only at h
    rcases hser : hd.serialize pdu with bytes | _ <;> rw [hser] at h <;> simp only at h
    · rcases hexp : expectsReplyOf hd with _ | a8 <;> rw [hexp] at h <;> simp only at h
      · simp only [Prod.mk.injEq] at h
        obtain ⟨h1, h2⟩ := h
        have := transmit_inv h1
        subst this; subst h2
        exact ⟨rfl, hlen, by intro hb; cases hb⟩
      · cases hst : c.s.st <;> rw [hst] at h <;> simp only at h <;> try (cases h; done)
        rename_i d fcd
        simp only [toAwaitData, hst] at h
        simp only [Prod.mk.injEq] at h
        obtain ⟨h1, h2⟩ := h
        have := transmit_inv h1
        subst this; subst h2
        exact ⟨rfl, hlen, by intro hb; cases hb⟩
    · cases h

/-- The round-robin loop with a single application: it is asked exactly once. -/
theorem appsTransmit_one (c c1 : Ctx) (now : Int) (hp b : Bool) (a : AppAnswer) (ha : c.apps = [[a]])
    (h : appsTransmit now hp 1 c = (.ok c1, b)) : c1.calls = c.calls ++ [.transmit c.s.nextApp hp a] := by
  simp only [appsTransmit] at h
  rcases hat : appTransmit c now hp with ⟨r, b1⟩
  rw [hat] at h
  cases r with
  | panic site => cases h
  | ok c2 =>
    obtain ⟨hc, hl, hs⟩ := appTransmit_one c c2 now hp b1 a ha hat
    cases b1 with
    | true =>
      simp only [Prod.mk.injEq, Res.ok.injEq] at h
      obtain ⟨h1, -⟩ := h
      subst h1
      exact hc
    | false =>
      simp only at h
      cases hst : c2.s.st <;> rw [hst] at h <;> simp only at h <;> try (cases h; done)
      rename_i d fcd
      simp only [upd] at h
      split at h
      · simp only [Prod.mk.injEq, Res.ok.injEq] at h
        obtain ⟨h1, -⟩ := h
        subst h1
        exact hc
      · simp only [appsTransmit, Prod.mk.injEq, Res.ok.injEq] at h
        obtain ⟨h1, -⟩ := h
        subst h1
        exact hc

/-- One message-cycle attempt with a single application: it is asked exactly once. -/
theorem useTokenGo_one (c c' : Ctx) (now : Int) (d : UseData) (hp : Bool) (a : AppAnswer) (ha : c.apps = [[a]])
    (h : useTokenGo c now d hp = .ok c') : c'.calls = c.calls ++ [.transmit c.s.nextApp hp a] := by
  unfold useTokenGo at h
  simp only [upd] at h
  rcases hat : appsTransmit now hp c.apps.length { c with s := { c.s with st := .useToken d true } } with ⟨r, b⟩
  rw [hat] at h
  have hl : c.apps.length = 1 := by rw [ha]; rfl
  rw [hl] at hat
  cases r with
  | panic site => cases h
  | ok c2 =>
    have hc := appsTransmit_one _ c2 now hp b a (by exact ha) hat
    cases b with
    | true =>
      cases h
      exact hc
    | false =>
      simp only at h
      obtain ⟨hq, -, -⟩ := passNow_eff c2 c' now [] h
      rw [hq.calls]; exact hc

/-- `do_use_token` with a single application: nobody is asked, or the application is asked once, with
`high_prio_only` as determined by the token hold time. -/
theorem doUseToken_one (c c' : Ctx) (now : Int) (d : UseData) (fcd : Bool) (a : AppAnswer) (ha : c.apps = [[a]])
    (hst : c.s.st = .useToken d fcd) (h : doUseToken c now = .ok c') :
    c'.calls = c.calls ∨ c'.calls = c.calls ++ [.transmit c.s.nextApp (!decide (now < holdEnd c.s d)) a] := by
  unfold doUseToken at h
  rw [hst] at h
  simp only at h
  have he : (waitSyncPause (holdUpdate c.s d) now).1.endTokenHoldTime = holdEnd c.s d := waitSync_hold _ _
  have hn : (waitSyncPause (holdUpdate c.s d) now).1.nextApp = c.s.nextApp := by
    unfold waitSyncPause getOrInsertLast
    cases hl : (holdUpdate c.s d).lastBusActivity <;> simp [hold_nextApp]
  rcases ite_inv h with ⟨_, h⟩ | ⟨_, h⟩
  · cases h; exact .inl rfl
  · rw [he] at h
    rcases ite_inv h with ⟨hlt, h⟩ | ⟨hlt, h⟩
    · right
      have := useTokenGo_one _ c' now d false a (by exact ha) h
      simp only [hn] at this
      rw [this]
      simp [hlt]
    · rcases ite_inv h with ⟨_, h⟩ | ⟨_, h⟩
      · right
        have := useTokenGo_one _ c' now d true a (by exact ha) h
        simp only [hn] at this
        rw [this]
        simp [hlt]
      · left
        obtain ⟨hq, -, -⟩ := passNow_eff _ c' now [] h
        simpa using hq.calls

theorem stackCheckSlot_fields (s : Station) (now : Int) :
    (checkSlotExpired s now).1.lastTokenTime = s.lastTokenTime ∧ (checkSlotExpired s now).1.p = s.p ∧
    (checkSlotExpired s now).1.gap = s.gap ∧ (checkSlotExpired s now).1.endTokenHoldTime = s.endTokenHoldTime ∧
    (checkSlotExpired s now).1.nextApp = s.nextApp := by
  unfold checkSlotExpired getOrInsertLast
  cases s.lastBusActivity <;> exact ⟨rfl, rfl, rfl, rfl, rfl⟩

theorem stackCheckBA_fields (s : Station) (now : Int) (n : Nat) :
    (checkBusActivity s now n).lastTokenTime = s.lastTokenTime ∧ (checkBusActivity s now n).p = s.p ∧
    (checkBusActivity s now n).gap = s.gap ∧ (checkBusActivity s now n).endTokenHoldTime = s.endTokenHoldTime ∧
    (checkBusActivity s now n).nextApp = s.nextApp ∧ (checkBusActivity s now n).st = s.st ∧
    (checkBusActivity s now n).online = s.online := by
  unfold checkBusActivity
  split
  · simp [markBusActivity]
  · exact ⟨rfl, rfl, rfl, rfl, rfl, rfl, rfl⟩

/-- `do_await_data_response` with a single application. -/
theorem doAwait_one (c c' : Ctx) (now : Int) (x : Nat) (d : UseData) (a : AppAnswer) (ha : c.apps = [[a]])
    (hst : c.s.st = .awaitData x d) (h : doAwaitDataResponse c now = .ok c') :
    c'.calls = c.calls ∨ (∃ t, c'.calls = c.calls ++ [.reply c.s.nextApp x t]) ∨
    c'.calls = c.calls ++ [.timeout c.s.nextApp x] ∨
    c'.calls = c.calls ++ [.timeout c.s.nextApp x, .transmit c.s.nextApp (!decide (now < holdEnd c.s d)) a] := by
  unfold doAwaitDataResponse at h
  rcases hrx : receiveTelegram c.rx with ⟨rx', calls, ret⟩ | _ | _ <;> rw [hrx, hst] at h <;> simp only at h
  · rcases ite_inv h with ⟨_, h⟩ | ⟨_, h⟩
    · cases h
    cases calls with
    | nil =>
      simp only at h
      rcases ite_inv h with ⟨_, h⟩ | ⟨_, h⟩
      · obtain ⟨c2, ht, h⟩ := bind_ok_inv h
        obtain ⟨c3, ht3, ht⟩ := bind_ok_inv ht
        obtain ⟨s', hs', hc'⟩ := tr_inv ht3
        have := toUseToken_inv hs'
        subst this; subst hc'
        simp only [upd, Res.ok.injEq] at ht
        subst ht
        obtain ⟨f1, f2, f3, f4, f5⟩ := stackCheckSlot_fields c.s now
        have he : holdEnd { (checkSlotExpired c.s now).1 with st := FState.useToken d true } d = holdEnd c.s d :=
          holdEnd_congr d f1 f2 f3 f4
        rcases doUseToken_one _ c' now d true a (by exact ha) rfl h with hc | hc
        · right; right; left
          simpa using hc
        · right; right; right
          rw [hc]
          show (c.calls ++ [AppCall.timeout c.s.nextApp x]) ++ [AppCall.transmit (checkSlotExpired c.s now).1.nextApp
            (!decide (now < holdEnd { (checkSlotExpired c.s now).1 with st := FState.useToken d true } d)) a] = _
          rw [he, f5]
          simp
      · cases h
        exact .inl rfl
    | cons y rest =>
      obtain ⟨t, fl⟩ := y
      simp only at h
      rcases ite_inv h with ⟨hv, h⟩ | ⟨_, h⟩
      · obtain ⟨c3, ht3, ht⟩ := bind_ok_inv h
        obtain ⟨s', hs', hc'⟩ := tr_inv ht3
        have := toUseToken_inv hs'
        subst this; subst hc'
        simp only [upd, Res.ok.injEq] at ht
        subst ht
        exact .inr (.inl ⟨t, rfl⟩)
      · obtain ⟨s', hs', hc'⟩ := tr_inv h
        subst hc'
        exact .inl rfl
  · rcases ite_inv h with ⟨_, h⟩ | ⟨_, h⟩ <;> cases h
  · rcases ite_inv h with ⟨_, h⟩ | ⟨_, h⟩ <;> cases h

/-- The application callbacks of one poll of a station with a single application, whose script is
`[a]`: none; the question alone; the reply alone; the time-out alone; or the time-out followed by the
question.  The application is asked at most once, gets `high_prio_only = askHp`, and the answer the
station uses is `a`. -/
theorem poll_shape (s : Station) (a : AppAnswer) (now : Int) (phy : Bool) (rx : Bytes) (c' : Ctx)
    (h : s.poll [[a]] now phy rx = .ok c') :
    c'.calls = [] ∨ (∃ i, c'.calls = [.transmit i (s.askHp now) a]) ∨ (∃ i x t, c'.calls = [.reply i x t]) ∨
    (∃ i x, c'.calls = [.timeout i x]) ∨ (∃ i x j, c'.calls = [.timeout i x, .transmit j (s.askHp now) a]) := by
  unfold Station.poll pollInner at h
  cases hon : s.online with
  | false =>
    simp only [hon] at h
    left
    cases hst : s.st <;> simp only [hst] at h <;> cases h
    rfl
  | true =>
    simp only [hon] at h
    obtain ⟨c1, hs, h⟩ := bind_ok_inv h
    have := pollStart_inv _ _ hs
    subst this
    rcases ite_inv h with ⟨_, h⟩ | ⟨_, h⟩
    · cases h; exact .inl rfl
    · simp only [upd] at h
      obtain ⟨g1, g2, g3, g4, g5, g6, g7⟩ := stackCheckBA_fields s.wake now rx.length
      have hon0 : (checkBusActivity s.wake now rx.length).online = true := by
        rw [g7]
        rcases wake_cases s with hw | ⟨hw, -⟩ <;> rw [hw] <;> simp [hon]
      have hd := dispatch_post _ c' now hon0 h
      have quiet : ∀ {c0 : Ctx}, c0.calls = [] → Quiet c0 c' → c'.calls = [] := by
        intro c0 h0 hq; rw [hq.calls, h0]
      -- the start state as `dispatch` sees it
      cases hst0 : (checkBusActivity s.wake now rx.length).st with
      | offline => exact absurd hst0 hd.awake.1
      | passiveIdle => exact absurd hst0 hd.awake.2
      | listenToken sr coll => exact .inl (quiet rfl (hd.listen sr coll hst0).1)
      | activeIdle sr np coll => exact .inl (quiet rfl (hd.idle sr np coll hst0).1)
      | claimToken step => exact .inl (quiet rfl (hd.claim step hst0).1)
      | passToken g att => exact .inl (quiet rfl (hd.pass g att hst0).1)
      | checkTokenPass att => exact .inl (quiet rfl (hd.check att hst0).1)
      | awaitStatus a0 => exact .inl (quiet rfl (hd.status a0 hst0).1)
      | useToken d fcd =>
        have hw : s.wake = s := by
          rcases wake_cases s with hw | ⟨hw, -⟩
          · exact hw
          · rw [g6, hw] at hst0; cases hst0
        rw [hw] at g1 g2 g3 g4 g5 g6
        have hst : s.st = .useToken d fcd := by rw [← g6]; rw [hw] at hst0; exact hst0
        have hask : s.askHp now = !decide (now < holdEnd s d) := by
          unfold Station.askHp holdEnd; rw [hst]
        unfold dispatch at h
        simp only [hst0] at h
        have he : holdEnd (checkBusActivity s.wake now rx.length) d = holdEnd s d := by
          rw [hw]; exact holdEnd_congr d g1 g2 g3 g4
        rcases doUseToken_one _ c' now d fcd a rfl hst0 h with hc | hc
        · exact .inl hc
        · right; left
          refine ⟨s.nextApp, ?_⟩
          rw [hc]
          show [] ++ [AppCall.transmit (checkBusActivity s.wake now rx.length).nextApp
            (!decide (now < holdEnd (checkBusActivity s.wake now rx.length) d)) a] = _
          rw [he, hask, hw, g5]
          rfl
      | awaitData x d =>
        have hw : s.wake = s := by
          rcases wake_cases s with hw | ⟨hw, -⟩
          · exact hw
          · rw [g6, hw] at hst0; cases hst0
        rw [hw] at g1 g2 g3 g4 g5 g6
        have hst : s.st = .awaitData x d := by rw [← g6]; rw [hw] at hst0; exact hst0
        have hask : s.askHp now = !decide (now < holdEnd s d) := by
          unfold Station.askHp holdEnd; rw [hst]
        unfold dispatch at h
        simp only [hst0] at h
        have he : holdEnd (checkBusActivity s.wake now rx.length) d = holdEnd s d := by
          rw [hw]; exact holdEnd_congr d g1 g2 g3 g4
        rcases doAwait_one _ c' now x d a rfl hst0 h with hc | ⟨t, hc⟩ | hc | hc
        · exact .inl hc
        · exact .inr (.inr (.inl ⟨_, x, t, hc⟩))
        · exact .inr (.inr (.inr (.inl ⟨_, x, hc⟩)))
        · refine .inr (.inr (.inr (.inr ⟨s.nextApp, x, s.nextApp, ?_⟩)))
          rw [hc]
          show [] ++ [AppCall.timeout (checkBusActivity s.wake now rx.length).nextApp x,
            AppCall.transmit (checkBusActivity s.wake now rx.length).nextApp
              (!decide (now < holdEnd (checkBusActivity s.wake now rx.length) d)) a] = _
          rw [he, hask, hw, g5]
          rfl

end PV

namespace PV.Stack
open PV PV.Dp

/-! ## What the master answers is encodable (the application contract of the station, `ScriptsOk`) -/

theorem serialize_ok_len {h : Header} {pdu b : Bytes} {cap : Nat} (hs : h.serialize pdu cap = .ok b) :
    h.lengthByte pdu.length ≤ 249 := by
  unfold Header.serialize at hs
  simp only at hs
  split at hs
  · cases hs
  · split at hs
    · rename_i h3; omega
    · split at hs
      · rename_i h11; omega
      · split at hs
        · cases hs
        · rename_i hle; omega

theorem sent_len {p p' : Peripheral} {h h' : Header} {pdu pdu' : Bytes} (hs : p.sent h pdu = .send p' h' pdu') :
    h'.lengthByte pdu'.length ≤ 249 := by
  unfold Peripheral.sent at hs
  cases hser : h.serialize pdu 256 with
  | panic => rw [hser] at hs; cases hs
  | ok b =>
    rw [hser] at hs
    simp only at hs
    split at hs
    · cases hs
    · cases hs
      exact serialize_ok_len hser

theorem ptransmit_len {fp : FdlParams} {op : OpState} {p p' : Peripheral} {h : Header} {pdu : Bytes}
    (ht : p.transmit fp op = .send p' h pdu) : h.lengthByte pdu.length ≤ 249 := by
  unfold Peripheral.transmit at ht
  split at ht
  · cases ht
  · split at ht
    · cases ht
    · split at ht
      · split at ht
        · exact sent_len ht
        · cases ht
      · split at ht
        · exact sent_len ht
        · cases ht
      · split at ht
        · exact sent_len ht
        · cases ht
      · exact sent_len ht
      · simp only at ht
        split at ht <;> exact sent_len ht
      · simp only at ht
        split at ht <;> exact sent_len ht

theorem visit_len {fp : FdlParams} {m m' : Master} {index i : Nat} {h : Header} {pdu : Bytes}
    (hv : m.visit fp index = .send i m' h pdu) : h.lengthByte pdu.length ≤ 249 := by
  unfold Master.visit at hv
  cases hg : getAtIndex m.slots index with
  | panic => rw [hg] at hv; cases hv
  | ok o =>
    rw [hg] at hv
    cases o with
    | none => cases hv
    | some jp =>
      obtain ⟨j, p⟩ := jp
      simp only at hv
      cases ht : p.transmit fp m.op with
      | panic => rw [ht] at hv; cases hv
      | send p' h' pdu' =>
        rw [ht] at hv
        cases hv
        exact ptransmit_len ht
      | decline p' ev =>
        rw [ht] at hv
        cases ev with
        | some e =>
          simp only at hv
          split at hv <;> cases hv
        | none =>
          simp only at hv
          split at hv
          · cases hv
          · split at hv <;> cases hv

theorem txLoop_len {fp : FdlParams} : ∀ (fuel : Nat) (m m' : Master) (h : Header) (pdu : Bytes),
    Master.txLoop fp fuel m = .send m' h pdu → h.lengthByte pdu.length ≤ 249 := by
  intro fuel
  induction fuel with
  | zero => intro m m' h pdu ht; cases ht
  | succ n ih =>
    intro m m' h pdu ht
    unfold Master.txLoop at ht
    cases hc : m.cycle with
    | completed => rw [hc] at ht; cases ht
    | dx index =>
      rw [hc] at ht
      simp only at ht
      cases hv : m.visit fp index with
      | panic => rw [hv] at ht; cases ht
      | empty m1 => rw [hv] at ht; cases ht
      | event i m1 => rw [hv] at ht; cases ht
      | last i m1 => rw [hv] at ht; cases ht
      | next i m1 => rw [hv] at ht; exact ih m1 m' h pdu ht
      | send i m1 h1 pdu1 =>
        rw [hv] at ht
        cases ht
        exact visit_len hv

theorem transmit_len {fp : FdlParams} {now : Int} {hp : Bool} {m m' : Master} {h : Header} {pdu : Bytes}
    (ht : Master.transmit fp now hp m = .send m' h pdu) : h.lengthByte pdu.length ≤ 249 := by
  unfold Master.transmit at ht
  split at ht
  · cases ht
  · split at ht
    · cases ht
    · split at ht
      · cases ht
      · rename_i pdu0 _
        split at ht
        · cases ht
        · rename_i b hser
          cases ht
          exact serialize_ok_len hser
    · exact txLoop_len _ _ _ _ _ ht

/-- The one-element script of a composed poll satisfies the station's application contract. -/
theorem answer_ok (fp : FdlParams) (now : Int) (hp : Bool) (m : Master) : ScriptsOk [[answer fp now hp m]] := by
  intro script hs ans ha h pdu he
  simp only [List.mem_singleton] at hs
  subst hs
  simp only [List.mem_singleton] at ha
  subst ha
  unfold answer at he
  cases ht : Master.transmit fp now hp m with
  | send m' h' pdu' =>
    rw [ht] at he
    cases he
    exact transmit_len ht
  | none m' => rw [ht] at he; cases he
  | panic => rw [ht] at he; cases he
  | hang => rw [ht] at he; cases he

/-! ## The replay never fails -/

/-- Asking the master and comparing with its own answer. -/
theorem callback_answer {fp : FdlParams} (hfp : FpOk fp) {g : G} (hI : Dp.Inv fp g) {now : Int} (hnow : timeB now)
    (i : Nat) (hp : Bool) :
    ∃ m', callback fp now g.m (.transmit i hp (answer fp now hp g.m)) = .ok (m', .tx now hp) := by
  obtain ⟨h1, h2⟩ := transmit_ne hfp hI hnow hp
  cases ht : Master.transmit fp now hp g.m with
  | panic => exact absurd ht h1
  | hang => exact absurd ht h2
  | send m' h pdu => exact ⟨m', by simp only [callback, answer, ht, if_true]⟩
  | none m' => exact ⟨m', by simp only [callback, answer, ht, if_true]⟩

theorem replay_one {fp : FdlParams} {now : Int} {m m' : Master} {c : AppCall} {x : MCall}
    (h : callback fp now m c = .ok (m', x)) : replay fp now m [c] = .ok (m', [x]) := by
  simp only [replay, h, Res.bind]

theorem replay_two {fp : FdlParams} {now : Int} {m m1 m2 : Master} {c1 c2 : AppCall} {x1 x2 : MCall}
    (h1 : callback fp now m c1 = .ok (m1, x1)) (h2 : callback fp now m1 c2 = .ok (m2, x2)) :
    replay fp now m [c1, c2] = .ok (m2, [x1, x2]) := by
  simp only [replay, h1, h2, Res.bind]

/-- **One composed poll is regular**: the station does not panic, the master neither panics nor spins,
and the answer the station was given is the answer the master gives. -/
theorem poll_total {fp : FdlParams} (hfp : FpOk fp) {k : State} {g : G} {t now : Int} (phy : Bool) (arrived : Bytes)
    (hL : Link fp k g t) (hS : PV.Inv k.s [[]]) (ht1 : t ≤ now) (ht2 : now < (2:Int)^62) :
    ∃ k' l, poll fp k now phy arrived = .ok (k', l) ∧ PV.Inv k'.s [[]] := by
  have hlo : -(2:Int)^62 < now := Int.lt_of_lt_of_le hL.lo ht1
  have hnow : timeB now := ⟨hlo, ht2⟩
  have hsk : ScriptsOk [[]] := by
    intro sc hsc ans ha; simp only [List.mem_singleton] at hsc; subst hsc; cases ha
  have hInv : PV.Inv k.s [[answer fp now (k.s.askHp now) k.m]] := hS.setApps rfl (answer_ok _ _ _ _)
  obtain ⟨c, hc, hic, hlc⟩ := pollInner_good
    { s := k.s, apps := [[answer fp now (k.s.askHp now) k.m]], rx := k.rx ++ arrived } now phy hInv rfl
  have hp : k.s.poll [[answer fp now (k.s.askHp now) k.m]] now phy (k.rx ++ arrived) = .ok c := hc
  have hS' : PV.Inv c.s [[]] := hic.setApps (by rw [hlc]; rfl) hsk
  have fin : ∀ m' l, replay fp now k.m c.calls = .ok (m', l) →
      ∃ k' l, poll fp k now phy arrived = .ok (k', l) ∧ PV.Inv k'.s [[]] := by
    intro m' l hr
    refine ⟨{ s := c.s, m := m', rx := c.rx }, l, ?_, hS'⟩
    simp only [poll, hp, hr, Res.bind]
  have hIg : Dp.Inv fp g := hL.inv
  rcases poll_shape _ _ _ _ _ _ hp with hc0 | ⟨i, hc0⟩ | ⟨i, x, tg, hc0⟩ | ⟨i, x, hc0⟩ | ⟨i, x, j, hc0⟩
  · rw [hc0] at fin
    exact fin k.m [] rfl
  · obtain ⟨m', hm'⟩ := callback_answer hfp hIg hnow i (k.s.askHp now)
    rw [hL.m] at hm'
    rw [hc0] at fin
    exact fin m' _ (replay_one hm')
  · -- a reply: by `poll_calls` it answers the outstanding request and passed the admission filter
    have hrep : ∃ m', callback fp now k.m (.reply i x tg) = .ok (m', .reply (UInt8.ofNat x) tg) := by
      rcases poll_calls _ _ _ _ _ _ hp with ⟨h0, -⟩ | ⟨-, -, har, -⟩ | ⟨-, a, d, hst, hcase⟩
      · rw [hc0] at h0; cases h0
      · obtain ⟨i', hp', ans, he⟩ := har _ (by rw [hc0]; exact List.mem_cons_self ..)
        cases he
      · rcases hcase with ⟨t', hv, hcc, -⟩ | ⟨new, hcc, -, -⟩
        · rw [hc0] at hcc
          simp only [List.cons.injEq, AppCall.reply.injEq, and_true] at hcc
          obtain ⟨-, rfl, rfl⟩ := hcc
          obtain ⟨a8, ha8, hout⟩ := hL.out x d hst
          have hal := allowed_of_valid (own := fp.address) (a8 := a8) hL.addr ha8 hv
          have e8 : UInt8.ofNat x = a8 := by rw [← ha8]; exact UInt8.ofNat_toNat
          have hne := (gstep_ok hfp hIg (.reply a8 tg)).1
          have hnr : ¬ (g.out ≠ some a8 ∨ replyAllowed fp.address a8 tg = false) := by
            intro hc
            rcases hc with hc | hc
            · exact hc hout
            · rw [hal] at hc; cases hc
          simp only [gstep, if_neg hnr] at hne
          simp only [callback, e8, ← hL.m]
          cases hr : Master.receiveReply g.m a8 tg with
          | panic => rw [hr] at hne; exact absurd rfl hne
          | ok m1 => exact ⟨m1, rfl⟩
        · rw [hc0] at hcc; cases hcc
    obtain ⟨m', hm'⟩ := hrep
    rw [hc0] at fin
    exact fin m' _ (replay_one hm')
  · rw [hc0] at fin
    exact fin _ _ (replay_one (c := .timeout i x) rfl)
  · obtain ⟨m', hm'⟩ := callback_answer hfp hIg hnow j (k.s.askHp now)
    rw [hL.m] at hm'
    rw [hc0] at fin
    exact fin m' _ (replay_two (c1 := .timeout i x) rfl hm')

/-- State of the composed system reached from the initial one: linked to a ghost state of the DP
history, station invariant. -/
structure Reached (fp : FdlParams) (k : State) (g : G) (t : Int) : Prop where
  link : Link fp k g t
  st : PV.Inv k.s [[]]

theorem step_total {fp : FdlParams} (hfp : FpOk fp) {k : State} {g : G} {t : Int} (c : Call) (rest : List Call)
    (hR : Reached fp k g t) (ht : TimesOk t (c :: rest)) :
    step fp k c = .userError ∨
    ∃ k' l g' t', step fp k c = .ok (k', l) ∧ grun fp g (l.map toOp) = .ok g' ∧ Reached fp k' g' t' ∧ TimesOk t' rest := by
  have lift : ∀ k' l, step fp k c = .ok (k', l) → PV.Inv k'.s [[]] →
      ∃ k' l g' t', step fp k c = .ok (k', l) ∧ grun fp g (l.map toOp) = .ok g' ∧ Reached fp k' g' t' ∧ TimesOk t' rest := by
    intro k' l hs hi
    obtain ⟨g', t', hg', hL', ht'⟩ := link_step hfp c rest hR.link ht hs
    exact ⟨k', l, g', t', hs, hg', ⟨hL', hi⟩, ht'⟩
  cases c with
  | poll now phy arrived =>
    obtain ⟨k', l, hp, hi⟩ := poll_total hfp phy arrived hR.link hR.st ht.1 ht.2.1
    exact .inr (lift k' l hp hi)
  | setOnline =>
    refine .inr (lift _ _ rfl ?_)
    have h := hR.st
    exact ⟨h.addr, h.hsa, h.ring, fun ho => by simp [Station.setOnline] at ho, h.gap, h.await1, h.await2, h.app, h.appWait,
      h.scripts, h.noPassive⟩
  | setOffline =>
    refine .inr (lift _ _ rfl ?_)
    exact inv_new _ _ hR.st.addr hR.st.hsa hR.st.scripts
  | take => exact .inr (lift _ _ rfl hR.st)
  | writeQ slot bs =>
    cases hw : k.m.writePiQ slot bs with
    | none => left; simp only [step, hw, userCall]
    | some m' => exact .inr (lift { k with m := m' } [.writeQ slot bs] (by simp only [step, hw, userCall]) hR.st)
  | diagReq slot =>
    cases hw : k.m.requestDiagnostics slot with
    | none => left; simp only [step, hw, userCall]
    | some m' => exact .inr (lift { k with m := m' } [.diagReq slot] (by simp only [step, hw, userCall]) hR.st)
  | resetAddr slot a =>
    by_cases ha : a ≥ 128
    · left; simp only [step, if_pos ha]
    · cases hw : k.m.resetAddress slot a with
      | none => left; simp only [step, if_neg ha, hw, userCall]
      | some m' => exact .inr (lift { k with m := m' } [.resetAddr slot a] (by simp only [step, if_neg ha, hw, userCall]) hR.st)

theorem run_total_from {fp : FdlParams} (hfp : FpOk fp) : ∀ (calls : List Call) (k : State) (g : G) (t : Int),
    Reached fp k g t → TimesOk t calls →
    run fp k calls = .userError ∨
    ∃ k' l g' t', run fp k calls = .ok (k', l) ∧ grun fp g (l.map toOp) = .ok g' ∧ Reached fp k' g' t' := by
  intro calls
  induction calls with
  | nil => intro k g t hR _; exact .inr ⟨k, [], g, t, rfl, rfl, hR⟩
  | cons c rest ih =>
    intro k g t hR ht
    rcases step_total hfp c rest hR ht with he | ⟨k1, l1, g1, t1, hs, hg1, hR1, ht1⟩
    · left; simp only [run, he, Res.bind]
    · rcases ih k1 g1 t1 hR1 ht1 with he | ⟨k2, l2, g2, t2, hr, hg2, hR2⟩
      · left; simp only [run, hs, he, Res.bind]
      · right
        refine ⟨k2, l1 ++ l2, g2, t2, by simp only [run, hs, hr, Res.bind], ?_, hR2⟩
        rw [List.map_append, grun_append _ _ _ _ hg1]
        exact hg2

theorem reached_init {fp : FdlParams} (p : Params) (h1 : p.address < p.hsa) (h2 : p.hsa ≤ 126)
    (haddr : fp.address.toNat = p.address) {slots : List (Option Peripheral)} (hinit : InitOk fp slots) (gr : Bool)
    {t0 : Int} (ht0 : -(2:Int)^62 < t0) : Reached fp (init p slots gr) (G.init slots gr) t0 :=
  ⟨link_init p haddr hinit gr ht0, inv_new p [[]] h1 h2 (by
    intro sc hsc ans ha; simp only [List.mem_singleton] at hsc; subst hsc; cases ha)⟩

/-- **`run_total`** — the composed system is total.  For every parameter set `ParametersBuilder` can
produce (station address < HSA ≤ 126, retry limit 1..15), every set of freshly added peripherals and
EVERY sequence of API calls (polls with any arriving bytes / PHY flags at non-decreasing times,
`set_online` / `set_offline`, user calls into the master between polls): unless a user call violates
its documented precondition (`.userError`: no peripheral in that slot, `pi_q` write of the wrong
length, address ≥ 128), the run is regular — the station reaches none of its panic sites, the master
neither panics nor spins, the answers the station used are the master's (`.mismatch` does not occur) —
and the master calls made are a contract history ending in the master's state. -/
theorem run_total {fp : FdlParams} (hfp : FpOk fp) (p : Params) (h1 : p.address < p.hsa) (h2 : p.hsa ≤ 126)
    (haddr : fp.address.toNat = p.address) {slots : List (Option Peripheral)} (hinit : InitOk fp slots) (gr : Bool)
    (calls : List Call) {t0 : Int} (ht0 : -(2:Int)^62 < t0) (ht : TimesOk t0 calls) :
    run fp (init p slots gr) calls = .userError ∨
    ∃ k' l g', run fp (init p slots gr) calls = .ok (k', l) ∧
      grun fp (G.init slots gr) (l.map toOp) = .ok g' ∧ g'.m = k'.m ∧ Dp.Inv fp g' ∧ PV.Inv k'.s [[]] := by
  rcases run_total_from hfp calls _ _ t0 (reached_init p h1 h2 haddr hinit gr ht0) ht with he | ⟨k', l, g', t', hr, hg, hR⟩
  · exact .inl he
  · exact .inr ⟨k', l, g', hr, hg, hR.link.m, hR.link.inv, hR.st⟩

/-- **`stack_never_panics`**: no run of the composed system panics (station or master), spins in the
master's `transmit_telegram`, or uses an answer that is not the master's. -/
theorem stack_never_panics {fp : FdlParams} (hfp : FpOk fp) (p : Params) (h1 : p.address < p.hsa) (h2 : p.hsa ≤ 126)
    (haddr : fp.address.toNat = p.address) {slots : List (Option Peripheral)} (hinit : InitOk fp slots) (gr : Bool)
    (calls : List Call) {t0 : Int} (ht0 : -(2:Int)^62 < t0) (ht : TimesOk t0 calls) :
    (∀ site, run fp (init p slots gr) calls ≠ .stationPanic site) ∧ run fp (init p slots gr) calls ≠ .masterPanic ∧
    run fp (init p slots gr) calls ≠ .masterHang ∧ run fp (init p slots gr) calls ≠ .mismatch := by
  rcases run_total hfp p h1 h2 haddr hinit gr calls ht0 ht with he | ⟨k', l, g', hr, -⟩
  · rw [he]; exact ⟨fun _ h => (by cases h), fun h => (by cases h), fun h => (by cases h), fun h => (by cases h)⟩
  · rw [hr]; exact ⟨fun _ h => (by cases h), fun h => (by cases h), fun h => (by cases h), fun h => (by cases h)⟩

theorem grun_split {fp : FdlParams} : ∀ (l1 : List Op) (x : Op) (l2 : List Op) (g g' : G),
    grun fp g (l1 ++ x :: l2) = .ok g' →
    ∃ g1 g2, grun fp g l1 = .ok g1 ∧ gstep fp g1 x = .ok g2 ∧ grun fp g2 l2 = .ok g' := by
  intro l1
  induction l1 with
  | nil =>
    intro x l2 g g' h
    simp only [List.nil_append, grun] at h
    cases hs : gstep fp g x with
    | ok g2 => rw [hs] at h; exact ⟨g, g2, rfl, hs, h⟩
    | panic => rw [hs] at h; cases h
    | hang => rw [hs] at h; cases h
    | refused => rw [hs] at h; cases h
  | cons y ys ih =>
    intro x l2 g g' h
    simp only [List.cons_append, grun] at h ⊢
    cases hs : gstep fp g y with
    | ok g0 =>
      rw [hs] at h
      simp only
      exact ih x l2 g0 g' h
    | panic => rw [hs] at h; cases h
    | hang => rw [hs] at h; cases h
    | refused => rw [hs] at h; cases h

/-- **Transfer principle.**  Every master call `x` of a regular composed run is a step `gstep` of the
DP history relation, taken in the ghost state `g` that the master calls before it lead to from the
initial state — so every theorem of C03 / C04 / C08 / C14, stated for steps from states reached by
contract histories, applies to every callback the station model makes and every user call in between. -/
theorem stack_step {fp : FdlParams} (hfp : FpOk fp) (p : Params) (haddr : fp.address.toNat = p.address)
    {slots : List (Option Peripheral)} (hinit : InitOk fp slots) (gr : Bool)
    (calls : List Call) {t0 : Int} (ht0 : -(2:Int)^62 < t0) (ht : TimesOk t0 calls)
    {k' : State} {l : List MCall} (h : run fp (init p slots gr) calls = .ok (k', l))
    {pre post : List MCall} {x : MCall} (hl : l = pre ++ x :: post) :
    ∃ g g', grun fp (G.init slots gr) (pre.map toOp) = .ok g ∧ gstep fp g (toOp x) = .ok g' := by
  obtain ⟨gE, hg, -, -⟩ := station_log_is_contract_history hfp p haddr hinit gr calls ht0 ht h
  rw [hl, List.map_append, List.map_cons] at hg
  obtain ⟨g1, g2, e1, e2, -⟩ := grun_split _ _ _ _ _ hg
  exact ⟨g1, g2, e1, e2⟩

end PV.Stack
