/-
Timed ring, layer 2: exact results of single polls of the station model in the situations that occur in
a stable ring without application traffic — receiving a telegram in pieces, hearing a GAP request that
is addressed to somebody else, ending a token hold (GAP request or token pass), giving up on an
unanswered GAP request.  Helper lemmas.
-/
import ProfiVerif.Lemmas.StationHandshake
import ProfiVerif.Lemmas.StationGap

namespace PV
open StationGap

/-! ## Decoding telegrams that arrive in pieces -/

theorem receiveAll_token_prefix (da sa : UInt8) (m : Nat) (hm : m < 3) :
    receiveAll ((sendToken da sa).take m) = .done ((sendToken da sa).take m) [] false := by
  have : m = 0 ∨ m = 1 ∨ m = 2 := by omega
  rcases this with rfl | rfl | rfl <;>
    simp [receiveAll, receiveAllFuel, sendToken, deserialize, deserializeToken, SD4, SC]

theorem statusRequest_frame (a ts : Nat) :
    statusRequestBytes a ts = frameSpec (fdlStatusRequestHeader (UInt8.ofNat a) (UInt8.ofNat ts)) [] := by
  have h1 := statusRequest_serialize a ts
  have h2 := serialize_ok (fdlStatusRequestHeader (UInt8.ofNat a) (UInt8.ofNat ts)) []
    (by simp [Header.lengthByte, Header.saps, fdlStatusRequestHeader])
  rw [h1] at h2
  cases h2
  rfl

theorem receiveAll_statusRequest (a ts : Nat) (ha : a < 128) (hts : ts < 128) :
    receiveAll (statusRequestBytes a ts) =
      .done [] [(.data (fdlStatusRequestHeader (UInt8.ofNat a) (UInt8.ofNat ts)) [], true)] true := by
  have hd := decode_frame (fdlStatusRequestHeader (UInt8.ofNat a) (UInt8.ofNat ts)) [] []
    (by simp [fdlStatusRequestHeader, UInt8.lt_iff_toNat_lt]; omega)
    (by simp [fdlStatusRequestHeader, UInt8.lt_iff_toNat_lt]; omega)
    (by simp [Header.lengthByte, Header.saps, fdlStatusRequestHeader])
  rw [List.append_nil, ← statusRequest_frame] at hd
  have hl := statusRequestBytes_length a ts
  unfold receiveAll
  rw [hl]
  simp only [receiveAllFuel, hd, hl]
  simp

theorem receiveAll_statusRequest_prefix (a ts : Nat) (m : Nat) (hm : m < 6) :
    receiveAll ((statusRequestBytes a ts).take m) = .done ((statusRequestBytes a ts).take m) [] false := by
  have hb : statusRequestBytes a ts =
      [SD1, UInt8.ofNat a, UInt8.ofNat ts, (FunctionCode.request .inactive .fdlStatus).toByte,
        checksum ((fdlStatusRequestHeader (UInt8.ofNat a) (UInt8.ofNat ts)).body []), ED] := by
    simp [statusRequestBytes, sd1Frame, Header.body, fdlStatusRequestHeader, optByte]
  rw [hb]
  have : m = 0 ∨ m = 1 ∨ m = 2 ∨ m = 3 ∨ m = 4 ∨ m = 5 := by omega
  rcases this with rfl | rfl | rfl | rfl | rfl | rfl <;>
    simp [receiveAll, receiveAllFuel, deserialize, deserializeData, SD1, SD4, SC]

/-! ## Ending a token hold -/

theorem nextGapPoll_ne (ts ns hsa cur a : Nat) (h : nextGapPoll ts ns hsa cur = .poll a) (hne : ns ≠ ts) :
    a ≠ ns ∧ a ≠ ts := by
  unfold nextGapPoll at h
  by_cases h0 : hsa = 0
  · rw [if_pos h0] at h; cases h
  rw [if_neg h0] at h
  by_cases h1 : cur ≠ hsa - 1 ∧ cur ≥ 255
  · rw [if_pos h1] at h; cases h
  rw [if_neg h1] at h
  simp only at h
  generalize (if cur = hsa - 1 then 0 else cur + 1) = nx at h
  by_cases h2 : ns > ts
  · simp only [h2, if_true, decide_eq_true_eq] at h
    by_cases hg : nx > ts ∧ nx < ns
    · rw [if_pos hg] at h; cases h; omega
    · rw [if_neg hg] at h; cases h
  · by_cases h3 : ns < ts
    · simp only [h2, h3, if_true, if_false, decide_eq_true_eq] at h
      by_cases hg : nx > ts ∨ nx < ns
      · rw [if_pos hg] at h; cases h; omega
      · rw [if_neg hg] at h; cases h
    · omega

theorem gapAdvance_doPoll (s : Station) (a : Nat) (h : gapAdvance s = some (.doPoll a)) :
    ∃ cur, nextGapPoll s.p.address s.ring.ns s.p.hsa cur = .poll a := by
  unfold gapAdvance at h
  have key : ∀ cur, nextGap s cur = some (.doPoll a) → nextGapPoll s.p.address s.ring.ns s.p.hsa cur = .poll a := by
    intro cur hn
    unfold nextGap at hn
    split at hn
    · rename_i a' ha'; cases hn; exact ha'
    · cases hn
    · cases hn
  split at h
  · split at h
    · exact ⟨_, key _ h⟩
    · cases h
  · exact ⟨_, key _ h⟩

/-- What `do_pass_token` does once the synchronisation pause is over. -/
def PassOut (c c' : Ctx) (now : Int) (g : Bool) (att : Attempt) : Prop :=
  c'.rx = c.rx ∧ c'.apps = c.apps ∧ c'.calls = c.calls ∧ c'.s.p = c.s.p ∧ c'.s.online = c.s.online ∧
  c'.s.pendingBytes = c.s.pendingBytes ∧
  ((∃ a cur, g = true ∧ nextGapPoll c.s.p.address c.s.ring.ns c.s.p.hsa cur = .poll a ∧ a ≠ c.s.p.address ∧
      c'.tx = some (statusRequestBytes a c.s.p.address) ∧ c'.s.st = .awaitStatus a ∧ c'.s.ring = c.s.ring ∧
      c'.s.lastBusActivity = some (now + (c.s.p.bits (11 * 6) : Nat))) ∨
   (c'.tx = some (tokenBytes c.s.ring.ns c.s.p.address) ∧
      c'.s.ring = c.s.ring.witness c.s.p.address c.s.ring.ns ∧
      c'.s.st = (if (c.s.ring.witness c.s.p.address c.s.ring.ns).ns = c.s.p.address
                then FState.useToken ⟨now, none⟩ false else FState.checkTokenPass att) ∧
      c'.s.lastBusActivity = some (now + (c.s.p.bits (11 * 3) : Nat))))

theorem doPassToken_exact (c c' : Ctx) (now l : Int) (g : Bool) (att : Attempt)
    (hst : c.s.st = .passToken g att) (htx : c.tx = none) (hl : c.s.lastBusActivity = some l)
    (hsy : l + (c.s.p.bits 33 : Nat) < now) (h : doPassToken c now = .ok c') : PassOut c c' now g att := by
  unfold doPassToken at h
  rw [hst] at h
  simp only at h
  rw [waitSync_some _ _ _ hl] at h
  simp only at h
  rw [if_neg (by simp; omega)] at h
  have pass : ∀ c0 : Ctx, c0.s.st = .passToken g att → c0.tx = none → c0.rx = c.rx → c0.apps = c.apps →
      c0.calls = c.calls → c0.s.p = c.s.p → c0.s.online = c.s.online → c0.s.pendingBytes = c.s.pendingBytes →
      c0.s.ring = c.s.ring → passTokenOn c0 now att = .ok c' → PassOut c c' now g att := by
    intro c0 h1 h2 h3 h4 h5 h6 h7 h8 h9 hp
    rw [passTokenOn_eq c0 now att g att h1 h2] at hp
    cases hp
    refine ⟨h3, h4, h5, h6, h7, h8, .inr ⟨?_, ?_, ?_, ?_⟩⟩
    · simp only [h9, h6]
    · simp only [h9, h6]
    · simp only [h9, h6]
    · simp only [markTx, h6]
  cases g with
  | false =>
    simp only [Bool.false_eq_true, if_false] at h
    exact pass { c with s := c.s } hst htx rfl rfl rfl rfl rfl rfl rfl h
  | true =>
    simp only [if_true] at h
    cases hga : gapAdvance c.s with
    | none => rw [hga] at h; cases h
    | some g' =>
      rw [hga] at h
      simp only [upd] at h
      cases g' with
      | waiting r =>
        have e := transmitGapPoll_waiting { c with s := { c.s with gap := .waiting r } } now r rfl
        rw [e] at h
        simp only at h
        exact pass { c with s := { c.s with gap := .waiting r } } hst htx rfl rfl rfl rfl rfl rfl rfl h
      | doPoll a =>
        by_cases hne : a = c.s.p.address
        · have e := transmitGapPoll_self { c with s := { c.s with gap := .doPoll a } } now (by simp [hne])
          rw [e] at h
          cases h
        · have e := transmitGapPoll_poll { c with s := { c.s with gap := .doPoll a } } now a rfl hne htx
          rw [e] at h
          simp only at h
          obtain ⟨s', hs', rfl⟩ := tr_cases _ _ _ _ h
          have := toAwaitStatus_eq hs'
          subst this
          obtain ⟨cur, hcur⟩ := gapAdvance_doPoll c.s a hga
          exact ⟨rfl, rfl, rfl, rfl, rfl, rfl, .inl ⟨a, cur, rfl, hcur, hne, rfl, rfl, rfl, rfl⟩⟩

theorem passNow_exact (c c' : Ctx) (now l : Int) (d : UseData) (f : Bool) (hst : c.s.st = .useToken d f)
    (htx : c.tx = none) (hl : c.s.lastBusActivity = some l) (hsy : l + (c.s.p.bits 33 : Nat) < now)
    (h : passNow c now = .ok c') : PassOut c c' now true .first := by
  unfold passNow at h
  simp only [tr, toPassToken, hst, Res.bind] at h
  exact doPassToken_exact { c with s := { c.s with st := .passToken true .first } } c' now l true .first rfl htx hl hsy h

theorem useTokenGo_noapps (c : Ctx) (now : Int) (d : UseData) (hp : Bool) (happs : c.apps = []) :
    useTokenGo c now d hp = passNow (upd c fun s => { s with st := .useToken d true }) now := by
  unfold useTokenGo
  simp only
  have : (upd c fun s => { s with st := .useToken d true }).apps.length = 0 := by simp [upd, happs]
  rw [this]
  rfl

/-- What the transmitting poll of a token holder without applications does. -/
def HolderOut (s : Station) (c' : Ctx) (now : Int) : Prop :=
  c'.rx = [] ∧ c'.apps = [] ∧ c'.calls = [] ∧ c'.s.p = s.p ∧ c'.s.online = s.online ∧
  c'.s.pendingBytes = s.pendingBytes ∧
  ((∃ a cur, nextGapPoll s.p.address s.ring.ns s.p.hsa cur = .poll a ∧ a ≠ s.p.address ∧
      c'.tx = some (statusRequestBytes a s.p.address) ∧ c'.s.st = .awaitStatus a ∧ c'.s.ring = s.ring ∧
      c'.s.lastBusActivity = some (now + (s.p.bits (11 * 6) : Nat))) ∨
   (c'.tx = some (tokenBytes s.ring.ns s.p.address) ∧
      c'.s.ring = s.ring.witness s.p.address s.ring.ns ∧
      c'.s.st = (if (s.ring.witness s.p.address s.ring.ns).ns = s.p.address
                then FState.useToken ⟨now, none⟩ false else FState.checkTokenPass .first) ∧
      c'.s.lastBusActivity = some (now + (s.p.bits (11 * 3) : Nat))))

/-- **The transmitting poll of a token holder without applications** (first poll later than 33 bit
after its stamp, silent bus): a GAP request to an address of its GAP, or the token to NS. -/
theorem holder_poll_exact (s : Station) (now l : Int) (d : UseData) (fcd : Bool) (hinv : Inv s [])
    (hon : s.online = true) (hst : s.st = .useToken d fcd) (hl : s.lastBusActivity = some l)
    (hsy : l + (s.p.bits 33 : Nat) < now) :
    ∃ c', s.poll [] now false [] = .ok c' ∧ Inv c'.s [] ∧ HolderOut s c' now := by
  obtain ⟨c', hc', hinv', hlen⟩ := pollInner_good { s := s, apps := [], rx := [] } now false hinv rfl
  have happs : c'.apps = [] := List.eq_nil_of_length_eq_zero hlen
  rw [happs] at hinv'
  refine ⟨c', hc', hinv', ?_⟩
  have hc'' : s.poll [] now false [] = .ok c' := hc'
  rw [poll_dispatch s [] now [] hon (by rw [hst]; simp) (by rw [hst]; simp)
    (by intro l' hl'; rw [hl] at hl'; cases hl'; omega)] at hc''
  simp only [List.length_nil, checkBus_nil] at hc''
  unfold dispatch at hc''
  simp only [hst] at hc''
  unfold doUseToken at hc''
  simp only [hst] at hc''
  have hk := holdUpdate_keeps s d
  have hce := coreEq_holdUpdate s d
  have hpb : (holdUpdate s d).pendingBytes = s.pendingBytes := by unfold holdUpdate; split <;> rfl
  rw [waitSync_some _ _ l (by rw [hk.1]; exact hl)] at hc''
  simp only [hk.2] at hc''
  rw [if_neg (by simp; omega)] at hc''
  have fin : ∀ (c0 : Ctx) (d0 : UseData) (f0 : Bool), c0.s.st = .useToken d0 f0 → c0.tx = none → c0.rx = [] → c0.apps = [] →
      c0.calls = [] → c0.s.p = s.p → c0.s.online = s.online → c0.s.pendingBytes = s.pendingBytes → c0.s.ring = s.ring →
      c0.s.lastBusActivity = some l → passNow c0 now = .ok c' → HolderOut s c' now := by
    intro c0 d0 f0 e1 e2 e3 e4 e5 e6 e7 e8 e9 e10 hp
    obtain ⟨a1, a2, a3, a4, a5, a6, a7⟩ := passNow_exact c0 c' now l d0 f0 e1 e2 e10 (by rw [e6]; exact hsy) hp
    refine ⟨a1.trans e3, a2.trans e4, a3.trans e5, a4.trans e6, a5.trans e7, a6.trans e8, ?_⟩
    rw [e6, e9] at a7
    rcases a7 with ⟨a, cur, -, b1, b2, b3, b4, b5, b6⟩ | ⟨b1, b2, b3, b4⟩
    · exact .inl ⟨a, cur, b1, b2, b3, b4, b5, b6⟩
    · exact .inr ⟨b1, b2, b3, b4⟩
  have hst' : (holdUpdate s d).st = .useToken d fcd := hce.2.2.2.2.1.trans hst
  rcases ite_inv hc'' with ⟨_, h⟩ | ⟨_, h⟩
  · rw [useTokenGo_noapps _ now d false rfl] at h
    exact fin _ d true rfl rfl rfl rfl rfl hk.2 hce.2.2.1 hpb hce.2.1 (hk.1.trans hl) h
  · rcases ite_inv h with ⟨_, h⟩ | ⟨_, h⟩
    · rw [useTokenGo_noapps _ now d true rfl] at h
      exact fin _ d true rfl rfl rfl rfl rfl hk.2 hce.2.2.1 hpb hce.2.1 (hk.1.trans hl) h
    · exact fin _ d fcd hst' rfl rfl rfl rfl hk.2 hce.2.2.1 hpb hce.2.1 (hk.1.trans hl) h

/-! ## Waiting for the answer to a GAP request that never comes -/

/-- A poll of a station in `AwaitStatusResponse` before the slot time has expired, nothing received: a
complete no-op. -/
theorem await_poll_waits (s : Station) (now te : Int) (a : Nat) (hinv : Inv s []) (hon : s.online = true)
    (hst : s.st = .awaitStatus a) (hl : s.lastBusActivity = some te) (hlt : te < now)
    (hw : now ≤ te + (s.p.slotTime : Nat)) :
    s.poll [] now false [] = .ok { s := s, apps := [], rx := [] } := by
  obtain ⟨c', hc', -, -⟩ := pollInner_good { s := s, apps := [], rx := [] } now false hinv rfl
  have hc'' : s.poll [] now false [] = .ok c' := hc'
  obtain ⟨-, -, h3⟩ := requester_poll_waits s [] now [] c' te hon (.inl ⟨a, hst⟩) hl hlt (.inr hw) hc''
  have := h3 [] false receiveTelegram_nil
  rw [hc'', this]
  simp only [List.length_nil, checkBus_nil]

/-- **The poll that gives up on an unanswered GAP request** (first poll later than stamp + slot time,
nothing received): the token goes to NS in the same poll. -/
theorem await_poll_timeout (s : Station) (now te : Int) (a : Nat) (hinv : Inv s []) (hon : s.online = true)
    (hst : s.st = .awaitStatus a) (hl : s.lastBusActivity = some te) (hexp : te + (s.p.slotTime : Nat) < now)
    (h33 : s.p.bits 33 ≤ s.p.slotTime) :
    ∃ c', s.poll [] now false [] = .ok c' ∧ Inv c'.s [] ∧ c'.rx = [] ∧ c'.apps = [] ∧ c'.s.p = s.p ∧
      c'.s.online = s.online ∧ c'.s.pendingBytes = s.pendingBytes ∧
      c'.tx = some (tokenBytes s.ring.ns s.p.address) ∧
      c'.s.ring = s.ring.witness s.p.address s.ring.ns ∧
      c'.s.st = (if (s.ring.witness s.p.address s.ring.ns).ns = s.p.address
                then FState.useToken ⟨now, none⟩ false else FState.checkTokenPass .first) ∧
      c'.s.lastBusActivity = some (now + (s.p.bits (11 * 3) : Nat)) := by
  obtain ⟨c', hc', hinv', hlen⟩ := pollInner_good { s := s, apps := [], rx := [] } now false hinv rfl
  have happs : c'.apps = [] := List.eq_nil_of_length_eq_zero hlen
  rw [happs] at hinv'
  have hc'' : s.poll [] now false [] = .ok c' := hc'
  rw [poll_dispatch s [] now [] hon (by rw [hst]; simp) (by rw [hst]; simp)
    (by intro l' hl'; rw [hl] at hl'; cases hl'; omega)] at hc''
  simp only [List.length_nil, checkBus_nil] at hc''
  unfold dispatch at hc''
  simp only [hst] at hc''
  unfold doAwaitStatusResponse at hc''
  simp only [hst] at hc''
  rcases hg : awaitGapPollResponse { s := s, apps := [], rx := [] } now a with ⟨r, g⟩
  rw [hg] at hc''
  cases r with
  | panic m => cases hc''
  | ok c1 =>
    obtain ⟨rfl, -, rfl⟩ := _root_.PV.awaitGap_silent { s := s, apps := [], rx := [] } now te a ⟨hon, rfl, rfl, hl⟩ c1 g hg
    rw [if_pos (by simp only; omega)] at hc''
    simp only [tr, toPassToken, hst, Res.bind] at hc''
    obtain ⟨a1, a2, -, a4, a5, a6, a7⟩ := doPassToken_exact
      { s := { s with st := .passToken false .first }, apps := [], rx := [] } c' now te false .first rfl rfl hl
      (by simp only; omega) hc''
    rcases a7 with ⟨_, _, hf, -⟩ | ⟨b1, b2, b3, b4⟩
    · cases hf
    · exact ⟨c', hc', hinv', a1, a2, a4, a5, a6, b1, b2, b3, b4⟩

/-! ## Receiving a telegram in pieces -/

/-- A supervising station polled with an incomplete telegram in its buffer (slot not expired): nothing
happens except that the new bytes are registered. -/
theorem check_poll_partial (s : Station) (now : Int) (rx : Bytes) (att : Attempt) (l : Int) (hinv : Inv s [])
    (hon : s.online = true) (hst : s.st = .checkTokenPass att) (hl : s.lastBusActivity = some l) (hlt : l < now)
    (hne : s.pendingBytes < rx.length ∨ now ≤ l + (s.p.slotTime : Nat))
    (hpart : receiveAll rx = .done rx [] false) :
    ∃ c', s.poll [] now false rx = .ok c' ∧ c'.tx = none ∧ c'.s = checkBusActivity s now rx.length ∧
      c'.apps = [] ∧ c'.rx = rx := by
  obtain ⟨c', hc', -, -⟩ := pollInner_good { s := s, apps := [], rx := rx } now false hinv rfl
  have hc'' : s.poll [] now false rx = .ok c' := hc'
  obtain ⟨h1, -, h3, -, -, h6⟩ := check_poll_waits s [] now rx c' att l hon hst hl hlt hne hc''
  refine ⟨c', hc'', h1, ?_, h3, ?_⟩
  · rcases h6 with ⟨hs, -⟩ | ⟨-, -, rx', x, rest, ret, hr⟩
    · exact hs
    · rw [hpart] at hr; cases hr
  · rcases h6 with ⟨-, rx', ret, hr, hrx⟩ | ⟨-, -, rx', x, rest, ret, hr⟩
    · rw [hpart] at hr; cases hr; exact hrx
    · rw [hpart] at hr; cases hr

/-- `handle_telegram` ignores an FDL status request addressed to somebody else. -/
theorem handleTelegram_foreign_request (c : Ctx) (now : Int) (sr np : Option Nat) (coll : Nat) (h : Header) (pdu : Bytes)
    (fcb : FrameCountBit) (l : Bool) (hst : c.s.st = .activeIdle sr np coll) (hfc : h.fc = .request fcb .fdlStatus)
    (hda : h.da.toNat ≠ c.s.p.address) : handleTelegram c now (.data h pdu) l = .ok c := by
  unfold handleTelegram
  rw [hst]
  simp only [hfc]
  rw [if_neg (fun hh => hda hh.1)]

/-- A supervising station hears a complete FDL status request that is addressed to somebody else (slot
not expired): supervision ends, the station is idle. -/
theorem check_poll_hears_request (s : Station) (now : Int) (rx : Bytes) (att : Attempt) (l : Int)
    (h : Header) (fcb : FrameCountBit) (hon : s.online = true) (hst : s.st = .checkTokenPass att)
    (hl : s.lastBusActivity = some l) (hlt : l < now)
    (hne : s.pendingBytes < rx.length ∨ now ≤ l + (s.p.slotTime : Nat))
    (hrx : receiveAll rx = .done [] [(.data h [], true)] true)
    (hfc : h.fc = .request fcb .fdlStatus) (hda : h.da.toNat ≠ s.p.address) :
    s.poll [] now false rx = .ok {
      s := { s with st := .activeIdle none none 0, pendingBytes := 0, lastBusActivity := some now },
      apps := [], rx := [] } := by
  have hlate : ∀ l', s.lastBusActivity = some l' → l' < now := by
    intro l' hl'; rw [hl] at hl'; cases hl'; exact hlt
  obtain ⟨hf1, hf2, -⟩ := checkBA_fields s now rx.length
  obtain ⟨l1, hl1, hle1, hcase⟩ := checkBA_stamp s now rx.length hlate (.inr ⟨l, hl⟩)
  rw [poll_dispatch s [] now rx hon (by rw [hst]; simp) (by rw [hst]; simp) hlate]
  unfold dispatch
  simp only [hf1, hst]
  have hq : ¬ now > l1 + ((checkBusActivity s now rx.length).p.slotTime : Nat) := by
    rw [hf2]
    rcases hcase with ⟨_, rfl⟩ | ⟨hn, hl'⟩
    · omega
    · rcases hne with h' | h'
      · exact absurd h' hn
      · rw [hl] at hl'; cases hl'; omega
  have hh := handleTelegram_foreign_request
    { s := { (checkBusActivity s now rx.length) with
               pendingBytes := 0, lastBusActivity := some now, st := .activeIdle none none 0 },
      apps := [], rx := [] }
    now none none 0 h [] fcb true rfl hfc (by simp only [hf2]; exact hda)
  unfold doCheckTokenPass
  simp only [hf1, hst]
  rw [checkSlot_some _ _ _ hl1]
  simp only [decide_eq_true_eq]
  rw [if_neg hq]
  simp only [hrx, tr, toActiveIdle, Res.bind, foldTelegrams]
  rw [markRx_at _ _ _ hl1 hle1]
  simp only [hf1, hst]
  rw [hh]
  simp only
  rw [checkBA_overwrite']

/-- An idle station polled with nothing or an incomplete telegram in its buffer (token-lost time-out
not run out): nothing happens except that new bytes are registered. -/
theorem idle_poll_partial (s : Station) (now : Int) (rx rx' : Bytes) (ret : Bool) (np : Option Nat) (coll : Nat) (l : Int)
    (hon : s.online = true) (hst : s.st = .activeIdle none np coll) (hl : s.lastBusActivity = some l) (hlt : l < now)
    (hto : 0 < s.p.tokenLostTimeout)
    (hne : s.pendingBytes < rx.length ∨ now < l + (s.p.tokenLostTimeout : Nat))
    (hpart : receiveAll rx = .done rx' [] ret) :
    s.poll [] now false rx = .ok { s := checkBusActivity s now rx.length, apps := [], rx := rx' } := by
  have hlate : ∀ l', s.lastBusActivity = some l' → l' < now := by
    intro l' hl'; rw [hl] at hl'; cases hl'; exact hlt
  obtain ⟨hf1, hf2, -⟩ := checkBA_fields s now rx.length
  obtain ⟨l1, hl1, hle1, hcase⟩ := checkBA_stamp s now rx.length hlate (.inr ⟨l, hl⟩)
  rw [poll_dispatch s [] now rx hon (by rw [hst]; simp) (by rw [hst]; simp) hlate]
  unfold dispatch
  simp only [hf1, hst]
  have hq : ¬ (now - l1).natAbs ≥ (checkBusActivity s now rx.length).p.tokenLostTimeout := by
    rw [hf2]
    rcases hcase with ⟨_, rfl⟩ | ⟨hn, hl'⟩
    · simp; omega
    · rcases hne with h' | h'
      · exact absurd h' hn
      · rw [hl] at hl'; cases hl'; omega
  unfold doActiveIdle
  simp only [hf1, hst]
  rw [handleLost_quiet { s := checkBusActivity s now rx.length, apps := [], rx := rx } now l1 hl1 hq]
  simp only [hf1, hst]
  simp only [hpart]
  rfl

end PV
