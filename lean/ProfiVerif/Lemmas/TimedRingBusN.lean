/-
Timed ring, N stations, layer 1: what `Model/Net.lean`'s bus delivers on a fault-free log whose
transmissions are time-ordered and do not overlap (`Chained`): to station `i`, for every transmission of
another station, exactly its characters whose ends lie in `(seen, now]`, transmission after transmission,
in order; nothing collides.  Helper lemmas.
-/
import ProfiVerif.Lemmas.TimedRingBus

namespace PV
namespace Bus

/-- Time-ordered, non-overlapping log: every transmission ends before any later one starts. -/
def Chained (b : Bus) (l : List Transmission) : Prop := l.Pairwise fun o t => b.txEnd o ≤ t.start

/-- The characters of `t` that are handed to station `i` at a poll at `now` when its previous poll was at `frm`. -/
def seg (b : Bus) (i : Nat) (frm now : Int) (t : Transmission) : Bytes :=
  if t.sender = i then [] else
  ((List.range t.bytes.length).filter (fun k => !decide (t.start + b.byteEnd k ≤ frm) &&
    decide (t.start + b.byteEnd k ≤ now))).map (fun k => t.bytes.getD k 0)

/-- The inner loop of `deliver` started on an accumulator whose entries are all earlier. -/
theorem inner_fold_acc (cond : Nat → Bool) (arr : Nat → Int) (ti : Nat) (byte : Nat → UInt8)
    (hmono : ∀ k j, j ≤ k → arr j ≤ arr k) (acc : List (Int × Nat × Nat × UInt8))
    (hacc : ∀ y ∈ acc, y.1 < arr 0) : ∀ m,
    (List.range m).foldl (fun acc k => if cond k = true then insertSorted (arr k, ti, k, byte k) acc else acc) acc =
      acc ++ ((List.range m).filter cond).map fun k => (arr k, ti, k, byte k) := by
  intro m
  induction m with
  | zero => simp
  | succ m ih =>
    rw [List.range_succ, List.foldl_append, ih, List.filter_append, List.map_append]
    simp only [List.foldl_cons, List.foldl_nil]
    cases hc : cond m with
    | false => simp [List.filter_cons, hc]
    | true =>
      simp only [if_true, List.filter_cons, hc, List.filter_nil, List.map_cons, List.map_nil, ← List.append_assoc]
      apply insertSorted_end
      intro y hy
      rcases List.mem_append.1 hy with hy | hy
      · have h1 := hacc y hy
        have h2 := hmono m 0 (Nat.zero_le _)
        simp only [keyLe, Bool.or_eq_false_iff, Bool.and_eq_false_iff, decide_eq_false_iff_not, beq_eq_false_iff_ne]
        refine ⟨by omega, .inl (by omega)⟩
      · simp only [List.mem_map, List.mem_filter, List.mem_range] at hy
        obtain ⟨k, ⟨hk, -⟩, rfl⟩ := hy
        have := hmono m k (Nat.le_of_lt hk)
        simp only [keyLe, Bool.or_eq_false_iff, Bool.and_eq_false_iff, decide_eq_false_iff_not, beq_eq_false_iff_ne,
          Nat.lt_irrefl, decide_false, Bool.false_or, beq_self_eq_true, Bool.true_and]
        refine ⟨by omega, ?_⟩
        by_cases he : arr m = arr k
        · right; simp; omega
        · left; exact he

/-- No character of a transmission of a chained log collides. -/
theorem collides_chained (b : Bus) (hr : 0 < b.rate) (pre post : List Transmission) (t : Transmission)
    (htx : b.txs = pre ++ t :: post) (hc : b.Chained b.txs) (k : Nat) (hk : k < t.bytes.length) :
    b.collides pre.length t k = false := by
  unfold collides
  simp only
  rw [List.any_eq_false]
  intro x hx
  obtain ⟨o, j⟩ := x
  unfold Chained at hc
  rw [htx, List.pairwise_append] at hc
  obtain ⟨-, hpost, hcross⟩ := hc
  rw [htx, List.zipIdx_append] at hx
  have hp := byteEnd_pos b hr
  have hm := byteEnd_mono b hr
  rcases List.mem_append.1 hx with hx | hx
  · have ho : o ∈ pre := List.fst_mem_of_mem_zipIdx hx
    have he := hcross o ho t (List.mem_cons_self ..)
    have : ¬ (b.txEnd o > t.start + (if k = 0 then 0 else b.byteEnd (k - 1))) := by
      split
      · omega
      · have := hp (k - 1); omega
    simp [this]
  · simp only [List.zipIdx_cons, Nat.zero_add, List.mem_cons, Prod.mk.injEq] at hx
    rcases hx with ⟨rfl, rfl⟩ | hx
    · simp
    · have ho : o ∈ post := List.fst_mem_of_mem_zipIdx hx
      have he := (List.pairwise_cons.1 hpost).1 o ho
      have : ¬ (o.start < t.start + b.byteEnd k) := by
        have := hm (t.bytes.length - 1) k (by omega)
        unfold txEnd at he
        omega
      simp [this]

/-- The outer loop of `deliver` over a suffix `l` of a chained log, started on an accumulator whose
entries are all not later than `T0 ≤` every start in `l`. -/
theorem outer_fold (b : Bus) (hr : 0 < b.rate) (hcor : b.corrupt = []) (i : Nat) (now : Int)
    (hc : b.Chained b.txs) (hlive : ∀ t ∈ b.txs, t.dropped = false) :
    ∀ (l pre : List Transmission) (acc : List (Int × Nat × Nat × UInt8)) (T0 : Int), b.txs = pre ++ l →
      (∀ y ∈ acc, y.1 ≤ T0) → (∀ t ∈ l, T0 ≤ t.start) →
      ((l.zipIdx pre.length).foldl (fun acc (x : Transmission × Nat) =>
          if x.1.sender = i ∨ x.1.dropped = true ∨ b.txEnd x.1 ≤ b.seen.getD i 0 ∨ x.1.start ≥ now then acc else
          (List.range x.1.bytes.length).foldl (fun acc k =>
            let at' := x.1.start + b.byteEnd k
            if at' > b.seen.getD i 0 ∧ at' ≤ now then
              let raw := x.1.bytes.getD k 0
              let byte := if b.collides x.2 x.1 k || b.corrupt.any (fun w => decide (at' > w.1) && decide (at' ≤ w.2)) then 0 else raw
              insertSorted (at', x.2, k, byte) acc
            else acc) acc) acc).map (·.2.2.2) =
        acc.map (·.2.2.2) ++ (l.map (b.seg i (b.seen.getD i 0) now)).flatten := by
  have hp := byteEnd_pos b hr
  have hm := byteEnd_mono b hr
  intro l
  induction l with
  | nil => intro pre acc T0 _ _ _; simp
  | cons t l' ih =>
    intro pre acc T0 htx hacc hst
    have htx' : b.txs = (pre ++ [t]) ++ l' := by rw [htx]; simp
    have hch := hc
    unfold Chained at hch
    rw [htx, List.pairwise_append] at hch
    have hpost := (List.pairwise_cons.1 hch.2.1).1
    have ht0 := hst t (List.mem_cons_self ..)
    simp only [List.zipIdx_cons, List.foldl_cons, List.map_cons, List.flatten_cons]
    have hlen : pre.length + 1 = (pre ++ [t]).length := by simp
    rw [hlen]
    by_cases hskip : (t.sender = i ∨ t.dropped = true ∨ b.txEnd t ≤ b.seen.getD i 0 ∨ t.start ≥ now)
    · rw [if_pos hskip]
      have hseg : b.seg i (b.seen.getD i 0) now t = [] := by
        unfold seg
        by_cases hs : t.sender = i
        · rw [if_pos hs]
        · rw [if_neg hs]
          simp only [List.map_eq_nil_iff, List.filter_eq_nil_iff, List.mem_range]
          intro k hk
          rcases hskip with h1 | h1 | h1 | h1
          · exact absurd h1 hs
          · rw [hlive t (by rw [htx]; simp)] at h1; cases h1
          · have := hm (t.bytes.length - 1) k (by omega)
            unfold txEnd at h1
            simp [-List.getD_eq_getElem?_getD]; omega
          · have := hp k
            simp [-List.getD_eq_getElem?_getD]; omega
      rw [hseg, List.nil_append]
      exact ih (pre ++ [t]) acc (b.txEnd t) htx' (fun y hy => by
        have := hacc y hy
        have := hp (t.bytes.length - 1)
        unfold txEnd; omega) (fun t' ht' => hpost t' ht')
    · rw [if_neg hskip]
      have hs : t.sender ≠ i := fun h => hskip (.inl h)
      rw [foldl_ext_mem _ (fun acc k => if (!decide (t.start + b.byteEnd k ≤ b.seen.getD i 0) &&
          decide (t.start + b.byteEnd k ≤ now)) = true then
            insertSorted (t.start + b.byteEnd k, pre.length, k, t.bytes.getD k 0) acc else acc) _ _ (by
        intro a k hk
        have hcol := collides_chained b hr pre l' t htx hc k (List.mem_range.1 hk)
        simp only [hcol, hcor, List.any_nil, Bool.or_false, Bool.false_eq_true, if_false,
          Bool.and_eq_true, Bool.not_eq_true', decide_eq_false_iff_not, decide_eq_true_eq, gt_iff_lt, Int.not_le])]
      rw [inner_fold_acc _ (fun k => t.start + b.byteEnd k) pre.length (fun k => t.bytes.getD k 0)
        (fun k j hjk => by have := hm k j hjk; omega) acc (fun y hy => by
          have := hacc y hy
          have := hp 0
          omega)]
      rw [ih (pre ++ [t]) _ (b.txEnd t) htx' (fun y hy => by
          rcases List.mem_append.1 hy with hy | hy
          · have := hacc y hy
            have := hp (t.bytes.length - 1)
            unfold txEnd; omega
          · simp only [List.mem_map, List.mem_filter, List.mem_range] at hy
            obtain ⟨k, ⟨hk, -⟩, rfl⟩ := hy
            have := hm (t.bytes.length - 1) k (by omega)
            unfold txEnd
            simp only
            omega) (fun t' ht' => hpost t' ht')]
      rw [List.map_append, List.append_assoc]
      congr 1
      unfold seg
      rw [if_neg hs, List.map_map]
      rfl

/-- **`deliver` on a chained fault-free log.** -/
theorem deliver_chained (b : Bus) (hr : 0 < b.rate) (hcor : b.corrupt = []) (i : Nat) (now : Int)
    (hc : b.Chained b.txs) (hlive : ∀ t ∈ b.txs, t.dropped = false) :
    b.deliver i now = ({ b with seen := b.seen.set i now },
      (b.txs.map (b.seg i (b.seen.getD i 0) now)).flatten) := by
  unfold deliver
  simp only
  congr 1
  have hT : ∃ T0 : Int, ∀ t ∈ b.txs, T0 ≤ t.start := by
    cases htx : b.txs with
    | nil => exact ⟨0, fun t ht => by cases ht⟩
    | cons t0 rest =>
      refine ⟨t0.start, fun t ht => ?_⟩
      rcases List.mem_cons.1 ht with rfl | ht
      · exact Int.le_refl _
      · have hch := hc
        unfold Chained at hch
        rw [htx] at hch
        have := (List.pairwise_cons.1 hch).1 t ht
        have := byteEnd_pos b hr (t0.bytes.length - 1)
        unfold txEnd at *
        omega
  obtain ⟨T0, hT0⟩ := hT
  have := outer_fold b hr hcor i now hc hlive b.txs [] [] T0 rfl (fun y hy => by cases hy) hT0
  simpa using this

end Bus
end PV
