/-
Generic (grammar-independent) shape theorem of the PEG interpreter: whatever `eval` produces for an
expression `e` is a pair list that `e` can *syntactically* produce (`Prod`), for an arbitrary
`ruleDef` — nothing in this file unfolds the generated grammar.

`Prod atomic e ps`: the pair list `ps` is in the "tree language" of `e`: terminals and predicates
produce nothing, a call of a silent rule produces what its body produces, a call of a normal or atomic
rule produces nothing inside an atomic context and otherwise exactly one pair whose children are
produced by the rule's body (in atomic mode for `@` rules, so: no children), sequences concatenate,
repetitions concatenate repeatedly.
-/
import ProfiVerif.Model.Gsd.Peg

namespace PV.Gsd.Peg

inductive Prod : Bool → Expr → List Pair → Prop
  | str {a : Bool} {l : Str} : Prod a (.str l) []
  | insens {a : Bool} {l : Str} : Prod a (.insens l) []
  | range {a : Bool} {lo hi : Char} : Prod a (.range lo hi) []
  | any {a : Bool} : Prod a .any []
  | soi {a : Bool} : Prod a .soi []
  | newline {a : Bool} : Prod a .newline []
  | callSilent {a : Bool} {r : Rule} {ps : List Pair} :
      (ruleDef r).1 = .silent → Prod a (ruleDef r).2 ps → Prod a (.call r) ps
  | callAtomic {r : Rule} : (ruleDef r).1 ≠ .silent → Prod true (.call r) []
  | callNode {r : Rule} {t : Str} {cs : List Pair} :
      (ruleDef r).1 ≠ .silent → Prod ((ruleDef r).1 == .atomic) (ruleDef r).2 cs →
      Prod false (.call r) [.node r t cs]
  | seq {a : Bool} {x y : Expr} {p q : List Pair} : Prod a x p → Prod a y q → Prod a (.seq x y) (p ++ q)
  | choiceL {a : Bool} {x y : Expr} {p : List Pair} : Prod a x p → Prod a (.choice x y) p
  | choiceR {a : Bool} {x y : Expr} {p : List Pair} : Prod a y p → Prod a (.choice x y) p
  | optNone {a : Bool} {x : Expr} : Prod a (.opt x) []
  | optSome {a : Bool} {x : Expr} {p : List Pair} : Prod a x p → Prod a (.opt x) p
  | starNil {a : Bool} {x : Expr} : Prod a (.star x) []
  | starCons {a : Bool} {x : Expr} {p q : List Pair} : Prod a x p → Prod a (.star x) q → Prod a (.star x) (p ++ q)
  | plus {a : Bool} {x : Expr} {p q : List Pair} : Prod a x p → Prod a (.star x) q → Prod a (.plus x) (p ++ q)
  | npred {a : Bool} {x : Expr} : Prod a (.npred x) []
  | ppred {a : Bool} {x : Expr} : Prod a (.ppred x) []

/-- In an atomic context nothing is produced. -/
theorem prod_atomic_nil {a : Bool} {e : Expr} {ps : List Pair} (h : Prod a e ps) : a = true → ps = [] := by
  induction h with
  | callSilent _ _ ih => exact ih
  | callNode => intro h; cases h
  | seq _ _ ih1 ih2 => intro h; simp [ih1 h, ih2 h]
  | choiceL _ ih => exact ih
  | choiceR _ ih => exact ih
  | optSome _ ih => exact ih
  | starCons _ _ ih1 ih2 => intro h; simp [ih1 h, ih2 h]
  | plus _ _ ih1 ih2 => intro h; simp [ih1 h, ih2 h]
  | _ => intro _; rfl

/-- What the three mutually recursive functions guarantee for one fuel value. -/
structure ShapeAt (fuel : Nat) : Prop where
  eval : ∀ a e st st', eval fuel a e st = .ok st' →
    ∃ new, st'.out = new ++ st.out ∧ Prod a e new.reverse
  loop : ∀ a e st st', loop fuel a e st = .ok st' →
    ∃ new, st'.out = new ++ st.out ∧ Prod a (.star e) new.reverse
  skip : ∀ a st st', skip fuel a st = .ok st' → st'.out = st.out

theorem shapeAt_zero : ShapeAt 0 where
  eval := by intro a e st st' h; simp [Peg.eval] at h
  loop := by intro a e st st' h; simp [Peg.loop] at h
  skip := by intro a st st' h; simp [Peg.skip] at h

theorem shapeAt_succ (n : Nat) (ih : ShapeAt n) : ShapeAt (n + 1) where
  eval := by
    intro a e st st' h
    cases e with
    | str l =>
      simp only [Peg.eval] at h
      split at h
      · cases h; exact ⟨[], rfl, .str⟩
      · cases h
    | insens l =>
      simp only [Peg.eval] at h
      split at h
      · cases h; exact ⟨[], rfl, .insens⟩
      · cases h
    | range lo hi =>
      simp only [Peg.eval] at h
      split at h
      · split at h
        · cases h; exact ⟨[], rfl, .range⟩
        · cases h
      · cases h
    | any =>
      simp only [Peg.eval] at h
      split at h
      · cases h; exact ⟨[], rfl, .any⟩
      · cases h
    | soi =>
      simp only [Peg.eval] at h
      split at h
      · cases h; exact ⟨[], rfl, .soi⟩
      · cases h
    | newline =>
      simp only [Peg.eval] at h
      split at h
      · cases h; exact ⟨[], rfl, .newline⟩
      · cases h; exact ⟨[], rfl, .newline⟩
      · cases h; exact ⟨[], rfl, .newline⟩
      · cases h
    | call r =>
      simp only [Peg.eval] at h
      have node : ∀ (hty : (ruleDef r).1 ≠ .silent),
          (match Peg.eval n (a || (ruleDef r).fst == RuleTy.atomic) (ruleDef r).snd
              { rest := st.rest, pos := st.pos, out := [] } with
            | R.ok st' =>
              if a = true then R.ok { rest := st'.rest, pos := st'.pos, out := st.out }
              else R.ok { rest := st'.rest, pos := st'.pos,
                          out := Pair.node r (List.take (st'.pos - st.pos) st.rest) st'.out.reverse :: st.out }
            | R.fail => R.fail
            | R.fuel => R.fuel) = R.ok st' →
          ∃ new, st'.out = new ++ st.out ∧ Prod a (Expr.call r) new.reverse := by
        intro hty h
        split at h
        · next st1 h1 =>
          obtain ⟨new, hout, hp⟩ := ih.eval _ _ _ _ h1
          split at h
          · next ha => cases h; subst ha; exact ⟨[], rfl, .callAtomic hty⟩
          · next ha =>
            cases h
            have ha : a = false := by simpa using ha
            subst ha
            simp only [List.append_nil] at hout
            refine ⟨[_], rfl, ?_⟩
            simp only [List.reverse_cons, List.reverse_nil, List.nil_append]
            rw [hout]
            simpa using Prod.callNode hty (by simpa using hp)
        · cases h
        · cases h
      split at h
      · next hs =>
        obtain ⟨new, hout, hp⟩ := ih.eval _ _ _ _ h
        exact ⟨new, hout, .callSilent hs hp⟩
      · next hs => exact node (by rw [hs]; decide) h
      · next hs => exact node (by rw [hs]; decide) h
    | seq x y =>
      simp only [Peg.eval] at h
      split at h
      · next st1 h1 =>
        split at h
        · next st2 h2 =>
          obtain ⟨n1, o1, p1⟩ := ih.eval _ _ _ _ h1
          have o2 := ih.skip _ _ _ h2
          obtain ⟨n3, o3, p3⟩ := ih.eval _ _ _ _ h
          refine ⟨n3 ++ n1, by rw [o3, o2, o1, List.append_assoc], ?_⟩
          rw [List.reverse_append]
          exact .seq p1 p3
        · next hr => exact (hr _ h).elim
      · next hr => exact (hr _ h).elim
    | choice x y =>
      simp only [Peg.eval] at h
      split at h
      · obtain ⟨n1, o1, p1⟩ := ih.eval _ _ _ _ h
        exact ⟨n1, o1, .choiceR p1⟩
      · next r hr =>
        obtain ⟨n1, o1, p1⟩ := ih.eval _ _ _ _ h
        exact ⟨n1, o1, .choiceL p1⟩
    | opt x =>
      simp only [Peg.eval] at h
      split at h
      · cases h; exact ⟨[], rfl, .optNone⟩
      · obtain ⟨n1, o1, p1⟩ := ih.eval _ _ _ _ h
        exact ⟨n1, o1, .optSome p1⟩
    | star x =>
      simp only [Peg.eval] at h
      split at h
      · next st1 h1 =>
        obtain ⟨n1, o1, p1⟩ := ih.eval _ _ _ _ h1
        obtain ⟨n2, o2, p2⟩ := ih.loop _ _ _ _ h
        refine ⟨n2 ++ n1, by rw [o2, o1, List.append_assoc], ?_⟩
        rw [List.reverse_append]
        exact .starCons p1 p2
      · cases h; exact ⟨[], rfl, .starNil⟩
      · cases h
    | plus x =>
      simp only [Peg.eval] at h
      split at h
      · next st1 h1 =>
        obtain ⟨n1, o1, p1⟩ := ih.eval _ _ _ _ h1
        split at h
        · next st2 h2 =>
          have o2 := ih.skip _ _ _ h2
          split at h
          · next st3 h3 =>
            obtain ⟨n3, o3, p3⟩ := ih.eval _ _ _ _ h3
            obtain ⟨n4, o4, p4⟩ := ih.loop _ _ _ _ h
            refine ⟨n4 ++ n3 ++ n1, by rw [o4, o3, o2, o1]; simp, ?_⟩
            rw [List.reverse_append, List.reverse_append]
            exact .plus p1 (.starCons p3 p4)
          · cases h
            refine ⟨n1, by rw [o2, o1], ?_⟩
            simpa using Prod.plus p1 .starNil
          · cases h
        · next hr => exact (hr _ h).elim
      · next hr => exact (hr _ h).elim
    | npred x =>
      simp only [Peg.eval] at h
      split at h
      · cases h
      · cases h; exact ⟨[], rfl, .npred⟩
      · cases h
    | ppred x =>
      simp only [Peg.eval] at h
      split at h
      · cases h; exact ⟨[], rfl, .ppred⟩
      · next hr => exact (hr _ h).elim
  loop := by
    intro a e st st' h
    simp only [Peg.loop] at h
    split at h
    · next st1 h1 =>
      have o1 := ih.skip _ _ _ h1
      split at h
      · next st2 h2 =>
        obtain ⟨n2, o2, p2⟩ := ih.eval _ _ _ _ h2
        obtain ⟨n3, o3, p3⟩ := ih.loop _ _ _ _ h
        refine ⟨n3 ++ n2, by rw [o3, o2, o1, List.append_assoc], ?_⟩
        rw [List.reverse_append]
        exact .starCons p2 p3
      · cases h; exact ⟨[], rfl, .starNil⟩
      · cases h
    · cases h; exact ⟨[], rfl, .starNil⟩
    · cases h
  skip := by
    intro a st st' h
    simp only [Peg.skip] at h
    split at h
    · cases h; rfl
    · obtain ⟨new, o, p⟩ := ih.eval _ _ _ _ h
      have := prod_atomic_nil p rfl
      simp only [List.reverse_eq_nil_iff] at this
      rw [o, this, List.nil_append]

theorem shapeAt (fuel : Nat) : ShapeAt fuel := by
  induction fuel with
  | zero => exact shapeAt_zero
  | succ n ih => exact shapeAt_succ n ih

/-- **Shape theorem** (for an arbitrary grammar): the pairs `eval` adds to the output are produced by
the expression in the sense of `Prod`. -/
theorem eval_prod {fuel : Nat} {a : Bool} {e : Expr} {st st' : PS} (h : eval fuel a e st = .ok st') :
    ∃ new, st'.out = new ++ st.out ∧ Prod a e new.reverse :=
  (shapeAt fuel).eval a e st st' h

end PV.Gsd.Peg
