/-
A station awaiting the reply to its GAP request — in `ClaimToken(ScanAwait)` during the claim sweep or in
`AwaitStatusResponse` as token holder: one dispatch with an incomplete reply, with a complete non-admitting reply and
with an admitting reply; an idle station on a quiet bus.  Station-level helper lemmas (C02 / C12).
-/
import ProfiVerif.Lemmas.ListenNetR
import ProfiVerif.Lemmas.AbstractRing

namespace PV
open StationGap TokenRing

/-- The station awaits the status reply of address `a`. -/
def AwaitSt (st : FState) (a : Nat) : Prop := st = .claimToken (.scanAwait a) ∨ st = .awaitStatus a

/-- The state after the reply has been consumed. -/
def afterAwait : FState → FState
  | .awaitStatus _ => .passToken false .first
  | _ => .claimToken .scan

theorem AwaitSt.awake {st : FState} {a : Nat} (h : AwaitSt st a) : st ≠ .offline ∧ st ≠ .passiveIdle := by
  rcases h with h | h <;> rw [h] <;> simp

theorem AwaitSt.gapne {s : Station} {apps : Apps} {a : Nat} (hinv : Inv s apps) (h : AwaitSt s.st a) :
    s.gap = .doPoll a ∧ a ≠ s.p.address := by
  rcases h with h | h
  · exact hinv.await2 a h
  · exact hinv.await1 a h

/-- Waiting for the reply with an incomplete telegram in the buffer, slot time not run out. -/
theorem claimAwait_partial (c : Ctx) (now l : Int) (fuel a : Nat) (rx' : Bytes) (ret : Bool)
    (hst : c.s.st = .claimToken (.scanAwait a)) (hl : c.s.lastBusActivity = some l) (hg : c.s.gap = .doPoll a)
    (hne : a ≠ c.s.p.address) (hrx : receiveTelegram c.rx = .done rx' [] ret) (hw : now ≤ l + (c.s.p.slotTime : Nat)) :
    doClaimToken c now (fuel + 1) = .ok { c with rx := rx' } := by
  have hag := StationGap.awaitGap_silent c now a rx' ret hne hg hrx
  rw [stamped_of_some c.s now l hl, checkSlot_some _ _ _ hl] at hag
  have hc : ({ c with rx := rx', s := c.s } : Ctx) = { c with rx := rx' } := rfl
  rw [hc] at hag
  conv => lhs; unfold doClaimToken
  simp only [hst, hag]
  have hx : ¬ now > l + (c.s.p.slotTime : Nat) := by omega
  simp only [hx, decide_false, if_false, Bool.false_eq_true]

/-- The reply of the polled station arrives and does not admit it (not ready): the scan goes on. -/
theorem claimAwait_reply (c : Ctx) (now : Int) (fuel a : Nat) (rx' : Bytes) (t : Telegram) (fl ret : Bool)
    (rest : List (Telegram × Bool)) (state : ResponseState) (status : ResponseStatus)
    (hst : c.s.st = .claimToken (.scanAwait a)) (hg : c.s.gap = .doPoll a) (hne : a ≠ c.s.p.address)
    (hrx : receiveTelegram c.rx = .done rx' ((t, fl) :: rest) ret)
    (hr : replyOf c.s.p.address a t = some (state, status)) (hna : ¬ Admits state status) :
    doClaimToken c now (fuel + 1) =
      .ok { c with rx := rx', s := { (markRx c.s now) with st := .claimToken .scan } } := by
  have hag := awaitGap_other c now a rx' t fl ret rest state status hne hg hrx hr hna
  conv => lhs; unfold doClaimToken
  simp only [hst, hag, upd]


/-- Awaiting the reply with an incomplete telegram (or nothing) in the buffer, slot time not run out: nothing
happens, the bytes stay. -/
theorem await_dispatch_partial (c : Ctx) (now l : Int) (a : Nat) (rx' : Bytes) (ret : Bool) (hst : AwaitSt c.s.st a)
    (hl : c.s.lastBusActivity = some l) (hg : c.s.gap = .doPoll a) (hne : a ≠ c.s.p.address)
    (hrx : receiveTelegram c.rx = .done rx' [] ret) (hw : now ≤ l + (c.s.p.slotTime : Nat)) :
    dispatch c now = .ok { c with rx := rx' } := by
  rcases hst with hst | hst
  · unfold dispatch
    simp only [hst]
    exact claimAwait_partial c now l 1 a rx' ret hst hl hg hne hrx hw
  · unfold dispatch
    simp only [hst]
    rw [C12.await_status_waits c now a rx' ret hst hne hg hrx (by
      unfold StationGap.SlotExpired; rw [checkSlot_some _ _ _ hl]; simp only [decide_eq_true_eq]; omega)]
    rw [stamped_of_some c.s now l hl]

/-- The complete reply does not admit the polled station: it is consumed, the station goes on. -/
theorem await_dispatch_reply (c : Ctx) (now : Int) (a : Nat) (rx' : Bytes) (t : Telegram) (fl ret : Bool)
    (rest : List (Telegram × Bool)) (state : ResponseState) (status : ResponseStatus) (hst : AwaitSt c.s.st a)
    (hg : c.s.gap = .doPoll a) (hne : a ≠ c.s.p.address) (hrx : receiveTelegram c.rx = .done rx' ((t, fl) :: rest) ret)
    (hr : replyOf c.s.p.address a t = some (state, status)) (hna : ¬ Admits state status) :
    dispatch c now = .ok { c with rx := rx', s := { (markRx c.s now) with st := afterAwait c.s.st } } := by
  rcases hst with hst | hst
  · unfold dispatch
    simp only [hst]
    exact claimAwait_reply c now 1 a rx' t fl ret rest state status hst hg hne hrx hr hna
  · unfold dispatch
    simp only [hst]
    rw [C12.await_status_reply c now a rx' t fl ret rest state status hst hne hg hrx hr, if_neg hna]
    rfl

/-- The complete reply of a ready master: the polled station becomes the next station. -/
theorem await_dispatch_admit (c : Ctx) (now : Int) (a : Nat) (rx' : Bytes) (t : Telegram) (fl ret : Bool)
    (rest : List (Telegram × Bool)) (state : ResponseState) (hst : AwaitSt c.s.st a)
    (hg : c.s.gap = .doPoll a) (hne : a ≠ c.s.p.address) (hrx : receiveTelegram c.rx = .done rx' ((t, fl) :: rest) ret)
    (hr : replyOf c.s.p.address a t = some (state, .ok)) (hstate : state = .masterWithoutToken ∨ state = .masterInRing)
    (ha : a < 128) (hts : c.s.ring.ts = c.s.p.address) (hts' : c.s.p.address < 128) :
    ∃ r, c.s.ring.setNextStation a = some r ∧ r.ns = a ∧ r.ts = c.s.ring.ts ∧ r.las = c.s.ring.las ∧ r.isActive a = true ∧
      dispatch c now = .ok { c with rx := rx', s := { (markRx c.s now) with ring := r, st := afterAwait c.s.st } } := by
  rcases hst with hst | hst
  · obtain ⟨r, h1, h2, h3, h4, h5, h6⟩ :=
      C12.ready_master_becomes_ns_claim c now 1 a rx' t fl ret rest state hst hne hg hrx hr hstate ha hts hts'
    refine ⟨r, h1, h2, h3, h4, h5, ?_⟩
    unfold dispatch
    simp only [hst]
    exact h6
  · obtain ⟨r, h1, h2, h3, h4, h5, h6⟩ :=
      C12.ready_master_becomes_ns c now a rx' t fl ret rest state hst hne hg hrx hr hstate ha hts hts'
    refine ⟨r, h1, h2, h3, h4, h5, ?_⟩
    unfold dispatch
    simp only [hst]
    exact h6

/-- An idle station without a pending request on a quiet bus, token-lost time-out not run out: nothing happens. -/
theorem idle_dispatch_quiet (c : Ctx) (now l : Int) (np : Option Nat) (coll : Nat) (hst : c.s.st = .activeIdle none np coll)
    (hrx : c.rx = []) (hl : c.s.lastBusActivity = some l) (hw : now < l + (c.s.p.tokenLostTimeout : Nat)) (hlt : l < now) :
    dispatch c now = .ok c := by
  unfold dispatch
  simp only [hst]
  unfold doActiveIdle
  simp only [hst]
  rw [handleLost_quiet c now l hl (by show ¬ (now - l).natAbs ≥ c.s.p.tokenLostTimeout; omega)]
  simp only [hst, hrx, receiveAll_nil, foldTelegrams]
  cases c
  simp only at hrx
  subst hrx
  rfl

/-- The lone idle station is polled before its time-out: nothing happens. -/
theorem lone_idle_wait {cfg : Cfg} {n : Net} {x : Nat} {st : NetStation} {l : Int} (h : Solo cfg n x st l) (hok : cfg.Ok)
    (np : Option Nat) (coll : Nat) (hst : st.s.st = .activeIdle none np coll) (now : Int) (hown : n.bus.seen.getD x 0 < now)
    (hw : now < l + (st.s.p.tokenLostTimeout : Nat)) :
    ∃ n' c, n.poll x now = (n', [], some (.ok c)) ∧ c.tx = none ∧ Solo cfg n' x st l ∧ n'.bus.seen.getD x 0 = now := by
  have hno : st.s.st ≠ .offline ∧ st.s.st ≠ .passiveIdle := by rw [hst]; simp
  have hup : upSt st { s := st.s, apps := st.apps, rx := [] } = st := by unfold upSt; rw [← h.rx]
  by_cases hle : now ≤ l
  · obtain ⟨n', hp, hS, hseen⟩ := solo_ongoing h hok.rate now hown hle hno.1 hno.2
    exact ⟨n', _, hp, rfl, hS, hseen⟩
  · have hd := idle_dispatch_quiet { s := st.s, apps := st.apps, rx := [] } now l np coll hst rfl h.stamp hw (by omega)
    obtain ⟨n', hp, hS, hseen⟩ := solo_step h hok.rate now hown (by omega) _ hno.1 hno.2 hd l h.son rfl rfl h.stamp
      (Int.le_refl _) (fun b hb => by cases hb)
    rw [hup] at hS
    exact ⟨n', _, hp, rfl, hS, hseen⟩

end PV
